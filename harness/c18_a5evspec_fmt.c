/* C18 / C19 -- the description side of ev_spec.c: advance_in, parse_printf_format, parse_arg_name,
 * ev_spec_find_arg, format_region (what ovnidump runs on a description such as
 * "creates a new thread on CPU %{cpu} with tag %#llx{tag}", doc/user/emulation/events.md).
 *
 * Region syntax, from the comments in ev_spec.c:   %%   |   %{name}   |   %<printf format>{name}
 *
 * INPUT STRINGS ARE UNBOUNDED.  The description is an object of symbolic size g_inlen + 1 whose last byte is
 * its NUL; its first 64 characters are stated to be non-NUL (A5_STR_PRE), later characters are arbitrary.
 * Every NUL-terminated string has this shape (g_inlen := strlen): for strings shorter than 64 the object ends
 * exactly at the first NUL, so a read past the terminator is a pointer-check failure; for longer strings the
 * two parsing loops cannot get that far, because each copies into a 64-byte buffer and gives up when it is full.
 * That is also why the loops are unwound completely (66 > 64 iterations, unwinding assertions on): the bound
 * is the size of the OUTPUT buffer (buflen <= 64; the only caller passes sizeof(char[64])), not a bound on
 * the text.  (Loop contracts are not usable here: the loop variable is the pointer c->in, and CBMC 6.11 loses
 * the value set of a havocked pointer, see harness/c19_evspec.c.)
 *
 * Objects are built by the harness functions (typed locals / malloc of symbolic size), so the contracts
 * speak about them with r_ok/w_ok and OBJECT_SIZE/POINTER_OFFSET only: the same declarations are then usable
 * both as proof obligations ("enforce") and as replacements of the calls in format_region ("replace").
 * Content facts use the arbitrary-observer idiom: one ghost index g_j, never assigned, facts about that cell.
 *
 * Trusted stubs (libc, outside the unit):
 *   isalnum    C locale ([0-9A-Za-z]); glibc's macro reads a locale table through __ctype_b_loc()
 *   strcmp     CBMC's library model
 *   snprintf   "%s" of the default format of a type: ISO C length, text copied; numeric / string argument of
 *              print_arg: prelude model (any non-negative length, a NUL somewhere in s[0..n))
 */
#include "prelude.h"
#include "emu_ev.h"

#undef isgraph
#define isgraph(c) ((c) > 0x20 && (c) < 0x7f)
#undef isalnum
#define isalnum(c) (((c) >= '0' && (c) <= '9') || ((c) >= 'a' && (c) <= 'z') || ((c) >= 'A' && (c) <= 'Z'))

/* strtok_r: the compile path is not part of these groups */
char *strtok_r(char *s, const char *delim, char **save)
{
	(void) s; (void) delim; (void) save;
	__CPROVER_assert(0, "strtok_r: not reached from the description side");
	return NULL;
}

/* snprintf(s, n, "%s", text): ISO C 7.19.6.5 -- returns strlen(text), copies min(len, n-1) characters, terminates.
 * Only used for the default format of a type (a literal of at most 7 characters) and, on the compile path, not at all. */
#define A5_SBOUND 8
static int a5_snprintf_s(char *s, size_t n, const char *fmt, const char *arg)
{
	__CPROVER_assert(fmt[0] == '%' && fmt[1] == 's' && fmt[2] == '\0', "snprintf model: a string is printed with %s");
	size_t len = 0;
	for (int k = 0; k < A5_SBOUND; k++) {
		if (arg[len] == '\0')
			break;
		len++;
	}
	__CPROVER_assert(arg[len] == '\0', "snprintf model: string within the model's bound");
	if (n > 0) {
		size_t m = len < n - 1 ? len : n - 1;
		for (size_t i = 0; i < A5_SBOUND; i++) {
			if (i >= m)
				break;
			s[i] = arg[i];
		}
		s[m] = '\0';
	}
	return (int) len;
}
static int a5_snprintf_u(char *s, size_t n, const char *fmt, uint64_t a) { (void) fmt; (void) a; return verif_snprintf(s, n); }
static int a5_snprintf_i(char *s, size_t n, const char *fmt, int64_t a) { (void) fmt; (void) a; return verif_snprintf(s, n); }
static int a5_snprintf_p(char *s, size_t n, const char *fmt, const char *a) { (void) fmt; (void) a; return verif_snprintf(s, n); }
#undef snprintf
/* print_arg passes a run-time format (a char array / pointer), the other uses pass the literal "%s" */
#define snprintf(s, n, fmt, a) _Generic((a), \
	char *: a5_snprintf_p, const char *: a5_snprintf_s, \
	uint8_t: a5_snprintf_u, uint16_t: a5_snprintf_u, uint32_t: a5_snprintf_u, uint64_t: a5_snprintf_u, \
	default: a5_snprintf_i)((s), (n), (fmt), (a))

#include "ev_spec.c"         /* the real /repo/src/emu/ev_spec.c */

#define RET __CPROVER_return_value
#define OLD(e) __CPROVER_old(e)
#define IMPLIES(a, b) (!(a) || (b))

/* ---- the input string ---- */
#define A5_MAXLEN 0x7fffffffUL             /* any length an int-indexed C string can have */
#ifndef A5_BUF
#define A5_BUF 64                          /* the two name / format buffers of format_region */
#endif
/* bytes from p to the last byte of its object (the terminator) */
#define A5_REM(p) ((unsigned long) (__CPROVER_OBJECT_SIZE(p) - __CPROVER_POINTER_OFFSET(p) - 1))
/* the NUL of the string is the last byte of its object; no NUL among the first 64 characters */
static int a5_prefix_nonul(const char *in, unsigned long len)
{
	for (unsigned long k = 0; k < A5_BUF; k++)
		if (k < len && in[k] == '\0')
			return 0;
	return 1;
}
#define A5_STR_PRE(p) (__CPROVER_r_ok((p), 1) && A5_REM(p) <= A5_MAXLEN && __CPROVER_r_ok((p), A5_REM(p) + 1) && \
	(p)[A5_REM(p)] == '\0' && a5_prefix_nonul((p), A5_REM(p)))

int g_j;            /* the observer: an arbitrary character position, never assigned */

/* ====================================================================================
 * advance_in
 * ==================================================================================== */
void c_advance_in(struct cursor *c, int n)
__CPROVER_requires(__CPROVER_rw_ok(c, sizeof(*c)) && __CPROVER_r_ok(c->in, 1))
/* the callers step over characters they have just seen not to be the terminator */
__CPROVER_requires(n >= 0 && (unsigned long) n <= A5_REM(c->in) + 1)
__CPROVER_assigns(c->in)
__CPROVER_ensures(__CPROVER_pointer_equals(c->in, OLD(c->in) + n))
;
void h_advance_in(void)
{
	struct cursor c;
	unsigned long len = nondet_size_t();
	__CPROVER_assume(len <= A5_MAXLEN);
	char *in = malloc(len + 1);
	__CPROVER_assume(in != NULL);
	unsigned long off = nondet_size_t();
	__CPROVER_assume(off <= len);
	c.in = in + off; c.out = NULL; c.len = 0;
	int n = nondet_int();
	advance_in(&c, n);
	if (n == 1) REACH("one character skipped");
	if (n == 0) REACH("no move");
	if ((unsigned long) n == len + 1 && off == 0) REACH("up to one past the terminator");
}

/* ====================================================================================
 * parse_printf_format:   %3d{cpu}      c->in points behind the '%'
 * ==================================================================================== */
/* the first '{' or NUL among the first 64 characters; 64 if there is none */
static int a5_fmt_stop(const char *in, unsigned long len)
{
	for (int k = 0; k < A5_BUF; k++) {
		if ((unsigned long) k >= len)
			return k;
		if (in[k] == '{')
			return k;
	}
	return A5_BUF;
}
#define PF_IN0 OLD(c->in)
/* (each textual call of a specification function is evaluated again: one predicate per verdict) */
/* accepted exactly when a non-empty format, its '%' and its terminator fit in the buffer and a '{' follows it */
static int a5_pf_legal(const char *in0, int buflen)
{
	int k = a5_fmt_stop(in0, A5_REM(in0));
	return k >= 1 && k < A5_BUF && in0[k] == '{' && k + 2 <= buflen;
}
/* accepted: the buffer holds '%', the text up to the brace, NUL; the cursor stands on the brace.
 * (All cells: the buffer has 64 of them, so "every character" is a finite conjunction, no quantifier.) */
static int a5_pf_accepted(const char *in0, const char *in1, const char *fmt)
{
	int k = a5_fmt_stop(in0, A5_REM(in0));
	if (!(__CPROVER_same_object(in1, in0) && in1 - in0 == k))
		return 0;
	if (!(fmt[0] == '%' && fmt[k + 1] == '\0'))
		return 0;
	for (int i = 0; i < A5_BUF - 2; i++)
		if (i < k && fmt[1 + i] != in0[i])
			return 0;
	return 1;
}
/* refused: the cursor is still inside the string, not behind the first '{' or the terminator */
static int a5_pf_refused(const char *in0, const char *in1)
{
	int k = a5_fmt_stop(in0, A5_REM(in0));
	return __CPROVER_same_object(in1, in0) && in1 >= in0 && in1 - in0 <= k;
}
int c_parse_printf_format(char *fmt, int buflen, struct cursor *c)
__CPROVER_requires(__CPROVER_rw_ok(c, sizeof(*c)) && A5_STR_PRE(c->in) && DIAG_PRE)
__CPROVER_requires(buflen >= 0 && buflen <= A5_BUF && (buflen == 0 || __CPROVER_w_ok(fmt, (size_t) buflen)))
__CPROVER_assigns(c->in, DIAG_FRAME)
__CPROVER_assigns(buflen > 0: __CPROVER_object_upto(fmt, (size_t) buflen))
__CPROVER_ensures(RET == 0 || RET == -1)
__CPROVER_ensures((RET == 0) == (a5_pf_legal(PF_IN0, buflen) ? 1 : 0))
__CPROVER_ensures(IMPLIES(RET == 0, a5_pf_accepted(PF_IN0, c->in, fmt)))
/* the same, cell by cell for the arbitrary observer g_j; and in the form a caller's value set needs */
__CPROVER_ensures(IMPLIES(RET == 0 && g_j >= 0 && g_j < c->in - PF_IN0, fmt[1 + g_j] == PF_IN0[g_j] && PF_IN0[g_j] != '{' && PF_IN0[g_j] != '\0'))
__CPROVER_ensures(IMPLIES(RET == 0, __CPROVER_pointer_equals(c->in, PF_IN0 + a5_fmt_stop(PF_IN0, A5_REM(PF_IN0)))))
__CPROVER_ensures(IMPLIES(RET != 0, g_err > OLD(g_err) && a5_pf_refused(PF_IN0, c->in)))
;
void h_parse_printf_format(void)
{
	struct cursor c;
	unsigned long len = nondet_size_t();
	__CPROVER_assume(len <= A5_MAXLEN);
	char *in = malloc(len + 1);
	__CPROVER_assume(in != NULL);
	c.in = in; c.out = NULL; c.len = 0;
	int buflen = nondet_int();
	__CPROVER_assume(buflen >= 0 && buflen <= A5_BUF);
	char fmtbuf[A5_BUF]; char *fmt = fmtbuf;      /* writes beyond buflen leave the frame object_upto(fmt, buflen) */
	int r = parse_printf_format(fmt, buflen, &c);
	if (r == 0 && buflen == A5_BUF && len > 100 && c.in == in + (A5_BUF - 2)) REACH("longest format (62 characters) accepted");
	if (r != 0 && buflen == A5_BUF && len > 1000 && in[A5_BUF - 1] != '{' && in[A5_BUF - 2] != '{') REACH("format too long refused, long string");
	if (r == 0 && buflen == 4 && len > 3 && in[0] == '3' && in[1] == 'd' && in[2] == '{') REACH("3d{ accepted in a 4-byte buffer");
	if (r != 0 && buflen == 3 && len > 3 && in[0] == '3' && in[1] == 'd' && in[2] == '{') REACH("3d{ refused in a 3-byte buffer");
	if (r != 0 && len == 2) REACH("unterminated format refused");
	if (r != 0 && in[0] == '{') REACH("missing format refused");
	if (r != 0 && buflen == 0) REACH("no buffer refused");
}

/* ====================================================================================
 * parse_arg_name:   %3d{cpu}      c->in points behind the '{'
 * ==================================================================================== */
/* the first character among the first 64 that is not a letter or digit (the terminator included); 64 if there is none */
static int a5_name_stop(const char *in, unsigned long len)
{
	for (int k = 0; k < A5_BUF; k++) {
		if ((unsigned long) k >= len)
			return k;
		if (!isalnum(in[k]))
			return k;
	}
	return A5_BUF;
}
/* accepted exactly for a non-empty run of letters and digits closed by '}' that fits with its terminator */
static int a5_pn_legal(const char *in0, int buflen)
{
	int k = a5_name_stop(in0, A5_REM(in0));
	return k >= 1 && k < A5_BUF && in0[k] == '}' && k + 1 <= buflen;
}
/* accepted: the buffer holds the name; the cursor stands on the closing brace */
static int a5_pn_accepted(const char *in0, const char *in1, const char *arg)
{
	int k = a5_name_stop(in0, A5_REM(in0));
	if (!(__CPROVER_same_object(in1, in0) && in1 - in0 == k))
		return 0;
	if (arg[k] != '\0')
		return 0;
	for (int i = 0; i < A5_BUF - 1; i++)
		if (i < k && arg[i] != in0[i])
			return 0;
	return 1;
}
static int a5_pn_refused(const char *in0, const char *in1)
{
	int k = a5_name_stop(in0, A5_REM(in0));
	return __CPROVER_same_object(in1, in0) && in1 >= in0 && in1 - in0 <= k;
}
int c_parse_arg_name(char *arg, int buflen, struct cursor *c)
__CPROVER_requires(__CPROVER_rw_ok(c, sizeof(*c)) && A5_STR_PRE(c->in) && DIAG_PRE)
__CPROVER_requires(buflen >= 0 && buflen <= A5_BUF && (buflen == 0 || __CPROVER_w_ok(arg, (size_t) buflen)))
__CPROVER_assigns(c->in, DIAG_FRAME)
__CPROVER_assigns(buflen > 0: __CPROVER_object_upto(arg, (size_t) buflen))
__CPROVER_ensures(RET == 0 || RET == -1)
__CPROVER_ensures((RET == 0) == (a5_pn_legal(PF_IN0, buflen) ? 1 : 0))
__CPROVER_ensures(IMPLIES(RET == 0, a5_pn_accepted(PF_IN0, c->in, arg)))
__CPROVER_ensures(IMPLIES(RET == 0 && g_j >= 0 && g_j < c->in - PF_IN0, arg[g_j] == PF_IN0[g_j] && isalnum(PF_IN0[g_j])))
__CPROVER_ensures(IMPLIES(RET == 0, __CPROVER_pointer_equals(c->in, PF_IN0 + a5_name_stop(PF_IN0, A5_REM(PF_IN0)))))
__CPROVER_ensures(IMPLIES(RET != 0, g_err > OLD(g_err) && a5_pn_refused(PF_IN0, c->in)))
;
void h_parse_arg_name(void)
{
	struct cursor c;
	unsigned long len = nondet_size_t();
	__CPROVER_assume(len <= A5_MAXLEN);
	char *in = malloc(len + 1);
	__CPROVER_assume(in != NULL);
	c.in = in; c.out = NULL; c.len = 0;
	int buflen = nondet_int();
	__CPROVER_assume(buflen >= 0 && buflen <= A5_BUF);
	char argbuf[A5_BUF]; char *arg = argbuf;      /* writes beyond buflen leave the frame object_upto(arg, buflen) */
	int r = parse_arg_name(arg, buflen, &c);
	if (r == 0 && buflen == A5_BUF && len > 100 && c.in == in + (A5_BUF - 1)) REACH("longest name (63 characters) accepted");
	if (r != 0 && buflen == A5_BUF && len > 1000 && isalnum(in[A5_BUF - 1])) REACH("name too long refused, long string");
	if (r == 0 && buflen == 4 && len > 3 && in[0] == 'c' && in[1] == 'p' && in[2] == 'u' && in[3] == '}') REACH("cpu} accepted in a 4-byte buffer");
	if (r != 0 && buflen == 3 && len > 3 && in[0] == 'c' && in[1] == 'p' && in[2] == 'u' && in[3] == '}') REACH("cpu} refused in a 3-byte buffer");
	if (r != 0 && len == 2) REACH("unterminated name refused");
	if (r != 0 && in[0] == '}') REACH("empty name refused");
	if (r != 0 && len > 3 && in[0] == 'a' && in[1] == '_') REACH("name with a character that is no letter or digit refused");
}

/* ====================================================================================
 * ev_spec_find_arg: the declared argument with exactly that name, or NULL
 * ==================================================================================== */
#include "c19_specwf.h"      /* SPEC_WF, SPEC_NAMES_TERMINATED: what ev_spec_compile produces */

/* the name looked up is a string: its terminator is inside its object, or the object has at least 64 bytes
 * (a declared name has at most 63 characters and its terminator, so a comparison never goes further) */
static int a5_name_ok(const char *name)
{
	unsigned long rem = A5_REM(name);
	for (unsigned long k = 0; k < A5_BUF; k++) {
		if (k > rem)
			return 0;
		if (name[k] == '\0')
			return 1;
	}
	return 1;
}
/* a declared name (64-byte array, terminated) equals the string b */
static int a5_streq(const char *a, const char *b)
{
	for (int k = 0; k < A5_BUF; k++) {
		if (a[k] != b[k])
			return 0;
		if (a[k] == '\0')
			return 1;
	}
	return 1;
}
/* reference: index of the first declared argument called name, -1 if there is none */
static int a5_find(const struct ev_spec *spec, const char *name)
{
	for (int i = 0; i < MAX_ARGS; i++)
		if (i < spec->nargs && a5_streq(spec->args[i].name, name))
			return i;
	return -1;
}
int g_k;            /* the observer: an arbitrary argument index, never assigned */
/* a declared argument g_k with that name is found (it, or an earlier one of the same name); if the cell g_k is what is
 * returned, it is declared and has that name; and what is returned is always one of the declared cells */
static int a5_fa_observer(const struct ev_spec *spec, const char *name, const struct ev_arg *ret, int k)
{
	if (ret != NULL) {
		if (!(__CPROVER_same_object(ret, spec) && ret >= &spec->args[0] && ret < &spec->args[spec->nargs]))
			return 0;
		if (((const char *) ret - (const char *) &spec->args[0]) % (long) sizeof(struct ev_arg) != 0)
			return 0;
	}
	if (k < 0 || k >= MAX_ARGS)
		return 1;
	int e = a5_streq(spec->args[k].name, name);
	if (k < spec->nargs && e && !(ret != NULL && ret <= &spec->args[k]))
		return 0;
	if (ret == &spec->args[k] && !(k < spec->nargs && e))
		return 0;
	return 1;
}
struct ev_arg *c_ev_spec_find_arg(struct ev_spec *spec, const char *name)
__CPROVER_requires(__CPROVER_r_ok(spec, sizeof(*spec)) && spec->nargs >= 0 && spec->nargs <= MAX_ARGS && SPEC_NAMES_TERMINATED(spec))
__CPROVER_requires(__CPROVER_r_ok(name, 1) && a5_name_ok(name))
__CPROVER_assigns()
#ifndef A5_DEBUG
/* the first argument with that name; NULL exactly when no declared argument has it */
__CPROVER_ensures((RET == NULL) == (a5_find(spec, name) < 0 ? 1 : 0))
__CPROVER_ensures(RET == NULL || __CPROVER_pointer_equals(RET, &spec->args[a5_find(spec, name)]))
/* the same through the arbitrary observer g_k (a5_fa_observer) */
__CPROVER_ensures(a5_fa_observer(spec, name, RET, g_k))
#else
__CPROVER_ensures(RET == NULL || (__CPROVER_same_object(RET, spec) && RET >= &spec->args[0] && RET < &spec->args[spec->nargs]))
__CPROVER_ensures(RET == NULL || (((const char *) RET - (const char *) &spec->args[0]) % (long) sizeof(struct ev_arg) == 0))
__CPROVER_ensures(IMPLIES(g_k >= 0 && g_k < spec->nargs && a5_streq(spec->args[g_k].name, name), RET != NULL))
__CPROVER_ensures(IMPLIES(g_k >= 0 && g_k < spec->nargs && a5_streq(spec->args[g_k].name, name), RET <= &spec->args[g_k]))
__CPROVER_ensures(IMPLIES(g_k >= 0 && g_k < MAX_ARGS && RET == &spec->args[g_k], g_k < spec->nargs))
__CPROVER_ensures(IMPLIES(g_k >= 0 && g_k < MAX_ARGS && RET == &spec->args[g_k], a5_streq(spec->args[g_k].name, name)))
#endif
;
struct ev_spec h_spec;      /* typed harness object (a byte-array object from is_fresh makes every field access a byte extract) */
void h_ev_spec_find_arg(void)
{
	unsigned long len = nondet_size_t();
	__CPROVER_assume(len <= A5_MAXLEN);
#ifdef A5_DEBUG2
	char namebuf[A5_BUF]; char *name = namebuf;
#else
	char *name = malloc(len + 1);
	__CPROVER_assume(name != NULL);
#endif
#ifdef A5_DEBUG
	__CPROVER_assume(h_spec.nargs <= 2);
#endif
	struct ev_arg *r = ev_spec_find_arg(&h_spec, name);
	if (r == NULL && h_spec.nargs == 0) REACH("nothing declared: NULL");
	if (r == NULL && h_spec.nargs == MAX_ARGS) REACH("sixteen arguments, none with that name: NULL");
	if (r == &h_spec.args[15]) REACH("the sixteenth argument found");
	if (r == &h_spec.args[0] && h_spec.nargs > 1 && a5_streq(h_spec.args[1].name, name)) REACH("two arguments of that name: the first one");
	if (r != NULL && len == 63) REACH("a name of 63 characters found");
	if (r == NULL && len > 1000) REACH("a very long name: NULL");
	if (r == NULL && h_spec.nargs == 1 && h_spec.args[0].name[0] == 'c' && h_spec.args[0].name[1] == '\0' && name[0] == 'c' && name[1] == 'p') REACH("a declared name that is a proper prefix is not a match");
}
