/* C18 / C19 -- the description side of ev_spec.c: advance_in, parse_printf_format, parse_arg_name,
 * ev_spec_find_arg, format_region (what ovnidump runs on a description such as
 * "creates a new thread on CPU %{cpu} with tag %#llx{tag}", doc/user/emulation/events.md).
 *
 * Region syntax, from the comments in ev_spec.c:   %%   |   %{name}   |   %<printf format>{name}
 *
 * INPUT STRINGS ARE UNBOUNDED.  The text is an object of symbolic size whose last byte is its NUL; the first
 * A5_WIN (136) bytes of the object are stated to be non-NUL unless they are that last byte (A5_STR_PRE), later
 * characters are arbitrary.  Every NUL-terminated string has this shape (size := strlen + 1): for strings shorter
 * than the window the object ends exactly at the first NUL, so a read past the terminator is a pointer-check
 * failure; for longer strings the code cannot get that far: each of the two parsing loops copies into a 64-byte
 * buffer and gives up when it is full, and format_region runs each of them once (at most 1 + 62 + 1 + 63 + 1
 * characters).  That is also why the loops are unwound completely (unwinding assertions on): the bound is
 * the size of the OUTPUT buffer (buflen <= 64; the only caller passes sizeof(char[64])), not a bound on the
 * text.  (Loop contracts are not usable here: the loop variable is the pointer c->in, and CBMC 6.11 loses the
 * value set of a havocked pointer, see harness/c19_evspec.c.)
 *
 * Objects are built by the harness functions (typed locals / malloc of symbolic size), so the contracts speak
 * about them with r_ok/w_ok and OBJECT_SIZE/POINTER_OFFSET only: the same declarations are used both as proof
 * obligations ("enforce") and as replacements of the calls in format_region ("replace").
 * Specification functions walk the text by POSITION IN ITS OBJECT (constant indices, symbolic conditions): a walk
 * from a symbolic start makes every read a symbolic-index read of an array-theory object (measured on
 * format_region before: 16-60 M clauses, out of memory).
 * Content facts: for the two 64-byte buffers "every character" is a finite conjunction (no quantifier); the same
 * facts are also stated for one arbitrary cell (ghost g_j, never assigned: the arbitrary-observer idiom).
 *
 * Trusted stubs (libc, outside the unit):
 *   isalnum    C locale ([0-9A-Za-z]); glibc's macro reads a locale table through __ctype_b_loc()
 *   strcmp     CBMC's library model
 *   snprintf   "%s" of the default format of a type: ISO C length, text copied;
 *              numeric / string argument in print_arg: any non-negative result, a NUL somewhere in s[0..n)
 *              (prelude model), the call is RECORDED (destination, room, two observed cells of the format,
 *              the value / the string pointer handed over)
 */
#include "prelude.h"
#include "emu_ev.h"

#undef isgraph
#define isgraph(c) ((c) > 0x20 && (c) < 0x7f)
#undef isalnum
#define isalnum(c) (((c) >= '0' && (c) <= '9') || ((c) >= 'a' && (c) <= 'z') || ((c) >= 'A' && (c) <= 'Z'))

#ifndef A5_BUF
#define A5_BUF 64                          /* the two name / format buffers of format_region */
#endif

/* strtok_r: the compile path is not part of these groups */
char *strtok_r(char *s, const char *delim, char **save)
{
	(void) s; (void) delim; (void) save;
	__CPROVER_assert(0, "strtok_r: not reached from the description side");
	return NULL;
}

/* snprintf(s, n, "%s", text): ISO C 7.19.6.5 -- returns strlen(text), copies min(len, n-1) characters, terminates.
 * Only used for the default format of a type (a literal of at most 7 characters). */
#define A5_SBOUND 8
static int a5_snprintf_s(char *s, size_t n, const char *fmt, const char *arg)
{
	__CPROVER_assert(fmt[0] == '%' && fmt[1] == 's' && fmt[2] == '\0', "snprintf model: a string is printed with %s");
	size_t len = 0;
	for (int k = 0; k < A5_SBOUND; k++) {
		if (arg[len] == '\0')
			break;
		len++;
	}
	__CPROVER_assert(arg[len] == '\0', "snprintf model: string within the model's bound");
	if (n > 0) {
		size_t m = len < n - 1 ? len : n - 1;
		for (size_t i = 0; i < A5_SBOUND; i++) {
			if (i >= m)
				break;
			s[i] = arg[i];
		}
		s[m] = '\0';
	}
	return (int) len;
}
/* the print calls of print_arg: recorded */
int g_j, g_j2;      /* the observers: two arbitrary character positions, never assigned */
struct a5_prlog {
	unsigned calls;
	char *s; size_t n; int ret;          /* destination, room, result */
	int kind;                            /* 0 unsigned, 1 signed, 2 string */
	uint64_t uval; int64_t ival; const char *str;
	char f_j, f_j2;                      /* the format at the observed positions g_j, g_j2 (0 outside the buffer) */
} g_pr;
static int a5_rec(char *s, size_t n, const char *fmt, int kind)
{
	g_pr.calls++;
	g_pr.s = s; g_pr.n = n; g_pr.kind = kind;
	g_pr.f_j = (g_j >= 0 && g_j < A5_BUF) ? fmt[g_j] : 0;
	g_pr.f_j2 = (g_j2 >= 0 && g_j2 < A5_BUF) ? fmt[g_j2] : 0;
	g_pr.ret = verif_snprintf(s, n);
	return g_pr.ret;
}
static int a5_snprintf_u(char *s, size_t n, const char *fmt, uint64_t a) { g_pr.uval = a; return a5_rec(s, n, fmt, 0); }
static int a5_snprintf_i(char *s, size_t n, const char *fmt, int64_t a) { g_pr.ival = a; return a5_rec(s, n, fmt, 1); }
static int a5_snprintf_p(char *s, size_t n, const char *fmt, const char *a) { g_pr.str = a; return a5_rec(s, n, fmt, 2); }
#undef snprintf
/* The uses with the literal "%s" (format_region: default format of a type; compile path: names, signature) copy a
 * string; print_arg hands over a run-time format and a value.  Selected by the type of the FORMAT expression (a
 * literal is a char[3]); goto-cc's _Generic does not tell `char *` from `const char *` (measured). */
#define snprintf(s, n, fmt, a) _Generic(&(fmt), char (*)[3]: a5_snprintf_s, default: _Generic((a), \
	char *: a5_snprintf_p, const char *: a5_snprintf_p, \
	uint8_t: a5_snprintf_u, uint16_t: a5_snprintf_u, uint32_t: a5_snprintf_u, uint64_t: a5_snprintf_u, \
	default: a5_snprintf_i))((s), (n), (fmt), (a))

#include "ev_spec.c"         /* the real /repo/src/emu/ev_spec.c */

#define RET __CPROVER_return_value
#define OLD(e) __CPROVER_old(e)
#define IMPLIES(a, b) (!(a) || (b))

/* Specification functions (the a5_* predicates used in contract clauses) are compiled without pointer / bounds
 * checks: every read they make is guarded by the same r_ok facts the contracts state, and the checks on ~10^4 spec
 * reads of symbolic-size objects tripled the formula (measured on format_region: 38 M clauses).  The real code,
 * the libc models and the harness functions keep every check. */
#define A5_SPEC_BEGIN _Pragma("CPROVER check push") _Pragma("CPROVER check disable \"pointer\"") \
	_Pragma("CPROVER check disable \"bounds\"") _Pragma("CPROVER check disable \"pointer-overflow\"") \
	_Pragma("CPROVER check disable \"pointer-primitive\"")
#define A5_SPEC_END _Pragma("CPROVER check pop")

/* ---- the input string ---- */
#define A5_MAXLEN 0x7fffffffUL             /* any length an int-indexed C string can have */
#define A5_WIN 136                         /* > 1 + 62 + 1 + 63 + 1: as far as format_region can look */
#define A5_OFF(p) ((unsigned long) __CPROVER_POINTER_OFFSET(p))
/* bytes from p to the last byte of its object (the terminator) */
#define A5_REM(p) ((unsigned long) (__CPROVER_OBJECT_SIZE(p) - __CPROVER_POINTER_OFFSET(p) - 1))
/* The text object, named by a ghost pointer to its first byte (set by the harness functions, never assigned):
 * specification functions read it at CONSTANT positions g_txt[p] and compare p with the cursor's offset. */
const char *g_txt;
#define A5_SLEN ((int) (__CPROVER_OBJECT_SIZE(g_txt) - 1))      /* position of the terminator */
A5_SPEC_BEGIN
/* no NUL among the first A5_WIN bytes of the text, its last byte excepted */
static int a5_window_nonul(int slen)
{
	for (int q = 0; q < A5_WIN; q++)
		if (q < slen && g_txt[q] == '\0')
			return 0;
	return 1;
}
/* the character at position pos (0 behind the window: never looked at) */
static char a5_at(int pos)
{
	for (int q = 0; q < A5_WIN; q++)
		if (q == pos)
			return g_txt[q];
	return 0;
}
A5_SPEC_END
/* p points into the text (see the head of the file), at most 66 characters from its start: what a parsing loop
 * with a 64-byte buffer can look at lies inside the window */
#define A5_STR_PRE(p) (__CPROVER_r_ok(g_txt, 1) && A5_OFF(g_txt) == 0 && __CPROVER_OBJECT_SIZE(g_txt) <= A5_MAXLEN + 1 && \
	__CPROVER_r_ok(g_txt, __CPROVER_OBJECT_SIZE(g_txt)) && g_txt[A5_SLEN] == '\0' && a5_window_nonul(A5_SLEN) && \
	__CPROVER_same_object((p), g_txt) && A5_OFF(p) <= A5_BUF + 2 && A5_OFF(p) <= (unsigned long) A5_SLEN)

/* ====================================================================================
 * advance_in
 * ==================================================================================== */
void c_advance_in(struct cursor *c, int n)
__CPROVER_requires(__CPROVER_rw_ok(c, sizeof(*c)) && __CPROVER_r_ok(c->in, 1))
/* the callers step over characters they have just seen not to be the terminator */
__CPROVER_requires(n >= 0 && (unsigned long) n <= A5_REM(c->in) + 1)
__CPROVER_assigns(c->in)
__CPROVER_ensures(__CPROVER_pointer_equals(c->in, OLD(c->in) + n))
;
void h_advance_in(void)
{
	struct cursor c;
	unsigned long len = nondet_size_t();
	__CPROVER_assume(len <= A5_MAXLEN);
	char *in = malloc(len + 1);
	__CPROVER_assume(in != NULL);
	unsigned long off = nondet_size_t();
	__CPROVER_assume(off <= len);
	c.in = in + off; c.out = NULL; c.len = 0;
	int n = nondet_int();
	advance_in(&c, n);
	if (n == 1) REACH("one character skipped");
	if (n == 0) REACH("no move");
	if ((unsigned long) n == len + 1 && off == 0) REACH("up to one past the terminator");
}

/* ====================================================================================
 * parse_printf_format:   %3d{cpu}      c->in points behind the '%'
 * ==================================================================================== */
A5_SPEC_BEGIN
/* number of characters from position off up to the first '{' or the terminator; 64 if neither comes within 64 */
static int a5_fmt_stop(int slen, int off)
{
	for (int p = 0; p < A5_WIN; p++) {
		if (p < off)
			continue;
		if (p >= off + A5_BUF)
			break;
		if (p >= slen || g_txt[p] == '{')
			return p - off;
	}
	return A5_BUF;
}
/* the character i places behind the cursor offset off: constant cell i, the offset selected among its possible
 * values 0 .. 66 (a read g_txt[off + i] would be a symbolic-index read of an array-theory object) */
static char a5_txt(int off, int i)
{
	for (int o = 0; o <= A5_BUF + 2; o++)
		if (o == off)
			return g_txt[o + i];
	return 0;
}
/* buf[d + i] == text[off + i] for every i < k: cell by cell */
static int a5_copied(const char *buf, int d, int off, int k)
{
	for (int i = 0; i < A5_BUF - 1; i++)
		if (i < k && d + i < A5_BUF && buf[d + i] != a5_txt(off, i))
			return 0;
	return 1;
}
#define PF_IN0 OLD(c->in)
/* (each textual call of a specification function is evaluated again: one predicate for the whole postcondition) */
/* Recording for format_region, which uses the contracts below as replacements (g_rec = 1 there, 0 where a contract
 * is proved: the real functions do not write these ghosts): the lengths found and the index looked up are named by
 * ghosts, so that the caller's postcondition need not compute them again.  A definition of fresh ghosts constrains
 * nothing of the program. */
int g_rec; int g_pf_k, g_pn_k, g_fa_idx; unsigned g_fa_calls;
/* k = length of the format; returns 0, or the number of the clause that does not hold */
static int a5_pf_post(int ret, const char *in0, const char *in1, const char *fmt, int buflen, int j, int k)
{
	int off = (int) A5_OFF(in0);
	if (k != a5_fmt_stop(A5_SLEN, off))
		return 1;
	if (!(ret == 0 || ret == -1))
		return 2;
	/* accepted exactly when a non-empty format, its '%' and its terminator fit in the buffer and a '{' follows it */
	int legal = k >= 1 && k < A5_BUF && a5_at(off + k) == '{' && k + 2 <= buflen;
	if ((ret == 0) != (legal != 0))
		return 3;
	if (!__CPROVER_same_object(in1, in0))
		return 4;
	if (ret == 0) {
		/* the buffer holds '%', the text up to the brace, NUL; the cursor stands on the brace */
		if (A5_OFF(in1) != A5_OFF(in0) + (unsigned long) k)
			return 5;
		if (!(fmt[0] == '%' && fmt[k + 1] == '\0'))
			return 6;
		if (!a5_copied(fmt, 1, off, k))
			return 7;
		/* the same for the arbitrary observer cell */
		if (j >= 0 && j < k && !(fmt[1 + j] == a5_at(off + j) && fmt[1 + j] != '{' && fmt[1 + j] != '\0'))
			return 8;
	} else {
		/* refused: the cursor is still inside the string, not behind the first '{' or the terminator */
		if (!(A5_OFF(in1) >= A5_OFF(in0) && A5_OFF(in1) <= A5_OFF(in0) + (unsigned long) k))
			return 9;
	}
	return 0;
}
A5_SPEC_END
#define PF_K (g_rec ? g_pf_k : a5_fmt_stop(A5_SLEN, (int) A5_OFF(PF_IN0)))
int c_parse_printf_format(char *fmt, int buflen, struct cursor *c)
__CPROVER_requires(__CPROVER_rw_ok(c, sizeof(*c)) && A5_STR_PRE(c->in) && DIAG_PRE)
__CPROVER_requires(buflen >= 0 && buflen <= A5_BUF && (buflen == 0 || __CPROVER_w_ok(fmt, (size_t) buflen)))
__CPROVER_assigns(c->in, DIAG_FRAME, g_pf_k)
__CPROVER_assigns(buflen > 0: __CPROVER_object_upto(fmt, (size_t) buflen))
__CPROVER_ensures(a5_pf_post(RET, PF_IN0, c->in, fmt, buflen, g_j, PF_K) == 0)
/* (the cursor once more, in the form a caller's value set needs) */
__CPROVER_ensures(IMPLIES(RET == 0, __CPROVER_pointer_equals(c->in, PF_IN0 + PF_K)))
/* diagnosed exactly when refused */
__CPROVER_ensures(IMPLIES(RET == 0, g_err == OLD(g_err) && g_diag == OLD(g_diag) && g_warn == OLD(g_warn)))
__CPROVER_ensures(IMPLIES(RET != 0, g_err > OLD(g_err) && g_err - OLD(g_err) <= 2 && g_diag - OLD(g_diag) <= 2 && g_warn == OLD(g_warn)))
__CPROVER_ensures(IMPLIES(!g_rec, g_pf_k == OLD(g_pf_k)))
;
void h_parse_printf_format(void)
{
	struct cursor c;
	unsigned long len = nondet_size_t();
	__CPROVER_assume(len <= A5_MAXLEN);
	char *in = malloc(len + 1);
	__CPROVER_assume(in != NULL);
	g_txt = in; g_rec = 0;
	c.in = in; c.out = NULL; c.len = 0;   /* (a cursor at a symbolic offset of a symbolic-size object: no answer in 300 s) */
	int buflen = nondet_int();
	__CPROVER_assume(buflen >= 0 && buflen <= A5_BUF);
	char fmtbuf[A5_BUF]; char *fmt = fmtbuf;      /* writes beyond buflen leave the frame object_upto(fmt, buflen) */
	int r = parse_printf_format(fmt, buflen, &c);
	if (r == 0 && buflen == A5_BUF && len > 1000 && c.in == in + (A5_BUF - 2)) REACH("longest format (62 characters) accepted");
	if (r != 0 && buflen == A5_BUF && len > 1000 && in[A5_BUF - 1] != '{' && in[A5_BUF - 2] != '{') REACH("format too long refused, long string");
	if (r == 0 && buflen == 4 && len > 3 && in[0] == '3' && in[1] == 'd' && in[2] == '{') REACH("3d{ accepted in a 4-byte buffer");
	if (r != 0 && buflen == 3 && len > 3 && in[0] == '3' && in[1] == 'd' && in[2] == '{') REACH("3d{ refused in a 3-byte buffer");
	if (r != 0 && len == 2) REACH("unterminated format refused");
	if (r != 0 && in[0] == '{') REACH("missing format refused");
}

/* ====================================================================================
 * parse_arg_name:   %3d{cpu}      c->in points behind the '{'
 * ==================================================================================== */
A5_SPEC_BEGIN
/* number of letters and digits from position off up to the first other character (the terminator included); 64 if
 * there are more */
static int a5_name_stop(int slen, int off)
{
	for (int p = 0; p < A5_WIN; p++) {
		if (p < off)
			continue;
		if (p >= off + A5_BUF)
			break;
		if (p >= slen || !isalnum(g_txt[p]))
			return p - off;
	}
	return A5_BUF;
}
/* k = length of the name; returns 0, or the number of the clause that does not hold */
static int a5_pn_post(int ret, const char *in0, const char *in1, const char *arg, int buflen, int j, int k)
{
	int off = (int) A5_OFF(in0);
	if (k != a5_name_stop(A5_SLEN, off))
		return 1;
	if (!(ret == 0 || ret == -1))
		return 2;
	/* accepted exactly for a non-empty run of letters and digits closed by '}' that fits with its terminator */
	int legal = k >= 1 && k < A5_BUF && a5_at(off + k) == '}' && k + 1 <= buflen;
	if ((ret == 0) != (legal != 0))
		return 3;
	if (!__CPROVER_same_object(in1, in0))
		return 4;
	if (ret == 0) {
		/* the buffer holds the name; the cursor stands on the closing brace */
		if (A5_OFF(in1) != A5_OFF(in0) + (unsigned long) k)
			return 5;
		if (arg[k] != '\0')
			return 6;
		if (!a5_copied(arg, 0, off, k))
			return 7;
		if (j >= 0 && j < k && !(arg[j] == a5_at(off + j) && isalnum(arg[j])))
			return 8;
	} else {
		if (!(A5_OFF(in1) >= A5_OFF(in0) && A5_OFF(in1) <= A5_OFF(in0) + (unsigned long) k))
			return 9;
	}
	return 0;
}
A5_SPEC_END
#define PN_K (g_rec ? g_pn_k : a5_name_stop(A5_SLEN, (int) A5_OFF(PF_IN0)))
int c_parse_arg_name(char *arg, int buflen, struct cursor *c)
__CPROVER_requires(__CPROVER_rw_ok(c, sizeof(*c)) && A5_STR_PRE(c->in) && DIAG_PRE)
__CPROVER_requires(buflen >= 0 && buflen <= A5_BUF && (buflen == 0 || __CPROVER_w_ok(arg, (size_t) buflen)))
__CPROVER_assigns(c->in, DIAG_FRAME, g_pn_k)
__CPROVER_assigns(buflen > 0: __CPROVER_object_upto(arg, (size_t) buflen))
__CPROVER_ensures(a5_pn_post(RET, PF_IN0, c->in, arg, buflen, g_j, PN_K) == 0)
__CPROVER_ensures(IMPLIES(RET == 0, __CPROVER_pointer_equals(c->in, PF_IN0 + PN_K)))
__CPROVER_ensures(IMPLIES(RET == 0, g_err == OLD(g_err) && g_diag == OLD(g_diag) && g_warn == OLD(g_warn)))
__CPROVER_ensures(IMPLIES(RET != 0, g_err > OLD(g_err) && g_err - OLD(g_err) <= 2 && g_diag - OLD(g_diag) <= 2 && g_warn == OLD(g_warn)))
__CPROVER_ensures(IMPLIES(!g_rec, g_pn_k == OLD(g_pn_k)))
;
void h_parse_arg_name(void)
{
	struct cursor c;
	unsigned long len = nondet_size_t();
	__CPROVER_assume(len <= A5_MAXLEN);
	char *in = malloc(len + 1);
	__CPROVER_assume(in != NULL);
	g_txt = in; g_rec = 0;
	c.in = in; c.out = NULL; c.len = 0;
	int buflen = nondet_int();
	__CPROVER_assume(buflen >= 0 && buflen <= A5_BUF);
	char argbuf[A5_BUF]; char *arg = argbuf;      /* writes beyond buflen leave the frame object_upto(arg, buflen) */
	int r = parse_arg_name(arg, buflen, &c);
	if (r == 0 && buflen == A5_BUF && len > 1000 && c.in == in + (A5_BUF - 1)) REACH("longest name (63 characters) accepted");
	if (r != 0 && buflen == A5_BUF && len > 1000 && isalnum(in[A5_BUF - 1])) REACH("name too long refused, long string");
	if (r == 0 && buflen == 4 && len > 3 && in[0] == 'c' && in[1] == 'p' && in[2] == 'u' && in[3] == '}') REACH("cpu} accepted in a 4-byte buffer");
	if (r != 0 && buflen == 3 && len > 3 && in[0] == 'c' && in[1] == 'p' && in[2] == 'u' && in[3] == '}') REACH("cpu} refused in a 3-byte buffer");
	if (r != 0 && len == 2) REACH("unterminated name refused");
	if (r != 0 && in[0] == '}') REACH("empty name refused");
	if (r != 0 && len > 3 && in[0] == 'a' && in[1] == '_') REACH("name with a character that is no letter or digit refused");
}

/* ====================================================================================
 * ev_spec_find_arg: the declared argument with exactly that name, or NULL
 * ==================================================================================== */
#include "c19_specwf.h"      /* SPEC_WF, SPEC_NAMES_TERMINATED: what ev_spec_compile produces */

A5_SPEC_BEGIN
/* the name looked up is a string: its terminator is inside its object, or the object has at least 64 bytes
 * (a declared name has at most 63 characters and its terminator, so a comparison never goes further) */
static int a5_name_ok(const char *name)
{
	unsigned long rem = A5_REM(name);
	for (unsigned long k = 0; k < A5_BUF; k++) {
		if (k > rem)
			return 0;
		if (name[k] == '\0')
			return 1;
	}
	return 1;
}
/* the declared argument i (its name: a 64-byte array, terminated) is called `name`.
 * Typed access spec->args[i].name[k]: a char pointer into the definition handed to a specification function was
 * read inconsistently with the same bytes read by strcmp (measured: trace with strcmp != 0 and the pointer-based
 * comparison "equal" on the same two strings), and was ten times slower.
 * Two textual copies: DFCC gives the functions called from harness code an extra write-set parameter; a function
 * that is also called from a contract clause would then be called there with too few arguments (measured, C14). */
#define A5_NAMED_BODY \
	for (int k = 0; k < A5_BUF; k++) { \
		char ch = spec->args[i].name[k]; \
		if (ch != name[k]) \
			return 0; \
		if (ch == '\0') \
			return 1; \
	} \
	return 1;
static int a5_named(const struct ev_spec *spec, int i, const char *name) { A5_NAMED_BODY }     /* contract clauses */
static int a5h_named(const struct ev_spec *spec, int i, const char *name) { A5_NAMED_BODY }    /* harness code */
/* reference: index of the first declared argument called name, -1 if there is none */
static int a5_find(const struct ev_spec *spec, const char *name)
{
	for (int i = 0; i < MAX_ARGS; i++)
		if (i < spec->nargs && a5_named(spec, i, name))
			return i;
	return -1;
}
/* the names of the declared arguments are terminated (parse_arg refuses names of 64 characters and more) */
#define A5_NT(s, i) (B((i) >= (s)->nargs) | NAME_T(s, i))
#define A5_DECLARED_NAMES_TERMINATED(s) ((A5_NT(s, 0) & A5_NT(s, 1) & A5_NT(s, 2) & A5_NT(s, 3) & A5_NT(s, 4) & A5_NT(s, 5) & A5_NT(s, 6) & \
	A5_NT(s, 7) & A5_NT(s, 8) & A5_NT(s, 9) & A5_NT(s, 10) & A5_NT(s, 11) & A5_NT(s, 12) & A5_NT(s, 13) & A5_NT(s, 14) & A5_NT(s, 15)) != 0)
int g_k;            /* the observer: an arbitrary argument index, never assigned */
/* a declared argument g_k with that name is found (it, or an earlier one of the same name); if the cell g_k is what is
 * returned, it is declared and has that name; and what is returned is always one of the declared cells */
static int a5_fa_observer(const struct ev_spec *spec, const char *name, const struct ev_arg *ret, int k)
{
	if (ret != NULL) {
		if (!(__CPROVER_same_object(ret, spec) && ret >= &spec->args[0] && ret < &spec->args[spec->nargs]))
			return 0;
		if (((const char *) ret - (const char *) &spec->args[0]) % (long) sizeof(struct ev_arg) != 0)
			return 0;
	}
	if (k < 0 || k >= MAX_ARGS)
		return 1;
	int e = a5_named(spec, k, name);
	if (k < spec->nargs && e && !(ret != NULL && ret <= &spec->args[k]))
		return 0;
	if (ret == &spec->args[k] && !(k < spec->nargs && e))
		return 0;
	return 1;
}
A5_SPEC_END
#define FA_IDX (g_rec ? g_fa_idx : a5_find(spec, name))
struct ev_arg *c_ev_spec_find_arg(struct ev_spec *spec, const char *name)
__CPROVER_requires(__CPROVER_r_ok(spec, sizeof(*spec)) && spec->nargs >= 0 && spec->nargs <= MAX_ARGS && A5_DECLARED_NAMES_TERMINATED(spec))
__CPROVER_requires(__CPROVER_r_ok(name, 1) && a5_name_ok(name) && g_fa_calls < 1000)
__CPROVER_assigns(g_fa_idx, g_fa_calls)
/* the first argument with that name; NULL exactly when no declared argument has it */
__CPROVER_ensures(IMPLIES(g_rec, g_fa_idx == a5_find(spec, name) && g_fa_calls == OLD(g_fa_calls) + 1))
__CPROVER_ensures(IMPLIES(!g_rec, g_fa_idx == OLD(g_fa_idx) && g_fa_calls == OLD(g_fa_calls)))
__CPROVER_ensures((RET == NULL) == (FA_IDX < 0 ? 1 : 0))
__CPROVER_ensures(RET == NULL || __CPROVER_pointer_equals(RET, &spec->args[FA_IDX]))
/* the same through the arbitrary observer g_k (a5_fa_observer) */
__CPROVER_ensures(a5_fa_observer(spec, name, RET, g_k))
;
struct ev_spec h_spec;      /* typed harness object (a byte-array object from is_fresh makes every field access a byte extract) */
void h_ev_spec_find_arg(void)
{
	unsigned long len = nondet_size_t();
	__CPROVER_assume(len <= A5_MAXLEN);
	char *name = malloc(len + 1);
	__CPROVER_assume(name != NULL);
	g_rec = 0;
	struct ev_arg *r = ev_spec_find_arg(&h_spec, name);
	if (r == NULL && h_spec.nargs == 0) REACH("nothing declared: NULL");
	if (r == &h_spec.args[15]) REACH("the sixteenth argument found");
	if (r == &h_spec.args[0] && h_spec.nargs > 1 && a5h_named(&h_spec, 1, name)) REACH("two arguments of that name: the first one");
	if (r == NULL && h_spec.nargs == MAX_ARGS && len > 1000) REACH("sixteen arguments, a very long name: NULL");
}

/* ====================================================================================
 * print_arg, in the form format_region needs (its memory safety on an exact-size payload is plan C18 print_arg
 * and plan C19 print_arg; here: WHAT is handed to snprintf, observed in the recording stub, and the cursor)
 * ==================================================================================== */
#include "ovni.h"
A5_SPEC_BEGIN
/* the value of the argument as print_arg must fetch it: little-endian bytes [offset, offset + size) of the payload */
static uint64_t a5_load(const uint8_t *payload, unsigned long off, unsigned long size)
{
	uint64_t v = 0;
	for (unsigned long b = 0; b < 8; b++)
		if (b < size)
			v |= (uint64_t) payload[off + b] << (8 * b);
	return v;
}
/* the recorded print call shows the argument: its bytes of the payload, converted by its declared type */
static int a5_value_shown(const struct ev_arg *a, const uint8_t *payload)
{
	if (a->type == STR)
		return g_pr.kind == 2 && g_pr.str == (const char *) payload + a->offset;
	uint64_t v = a5_load(payload, a->offset, a->size);
	int is_signed = a->type == I8 || a->type == I16 || a->type == I32 || a->type == I64;
	if (!is_signed)
		return g_pr.kind == 0 && g_pr.uval == v;
	/* two's complement value of the low `size` bytes (no narrowing casts: conversion checks are on) */
	uint64_t sign = a->size == 8 ? 0x8000000000000000ULL : (uint64_t) 1 << (8 * a->size - 1);
	uint64_t mag = (v & sign) ? (a->size == 8 ? ~v + 1 : ((uint64_t) 1 << (8 * a->size)) - v) : v;
	int64_t sv = (v & sign) ? (mag == 0x8000000000000000ULL ? INT64_MIN : -(int64_t) mag) : (int64_t) mag;
	return g_pr.kind == 1 && g_pr.ival == sv;
}
static int a5_pa_post(int ret, const struct ev_arg *arg, const char *fmt, const struct cursor *c, const struct emu_ev *ev,
	char *out0, int len0, unsigned calls0, unsigned err0, unsigned err1)
{
	/* one print call, at the output cursor, with the room that is left and the format given */
	if (!(g_pr.calls == calls0 + 1 && g_pr.s == out0 && g_pr.n == (size_t) len0 && g_pr.ret >= 0))
		return 1;
	if (g_pr.f_j != ((g_j >= 0 && g_j < A5_BUF) ? fmt[g_j] : 0) || g_pr.f_j2 != ((g_j2 >= 0 && g_j2 < A5_BUF) ? fmt[g_j2] : 0))
		return 2;
	if (!a5_value_shown(arg, (const uint8_t *) ev->payload))
		return 3;
	/* accepted exactly when the printed text and its terminator fit */
	if (!(ret == 0 || ret == -1) || (ret == 0) != (g_pr.ret < len0))
		return 4;
	if (ret == 0 && !(c->len == len0 - g_pr.ret && __CPROVER_same_object(c->out, out0) && A5_OFF(c->out) == A5_OFF(out0) + (unsigned long) g_pr.ret))
		return 5;
	if (ret != 0 && !(c->len == len0 && c->out == out0 && err1 == err0 + 1))
		return 6;
	if (ret == 0 && err1 != err0)
		return 7;
	return 0;
}
A5_SPEC_END
#define A5_SIZE_OF_TYPE(t) ((t) == U8 || (t) == I8 ? 1u : (t) == U16 || (t) == I16 ? 2u : (t) == U32 || (t) == I32 ? 4u : \
	(t) == U64 || (t) == I64 ? 8u : 0u)
int c_print_arg(struct ev_arg *arg, const char *fmt, struct cursor *c, struct emu_ev *ev)
/* a compiled argument inside the event's payload (parse_arg; check_payload) */
__CPROVER_requires(__CPROVER_r_ok(arg, sizeof(*arg)) && (unsigned) arg->type < MAX_TYPE && arg->size == A5_SIZE_OF_TYPE(arg->type))
__CPROVER_requires(__CPROVER_r_ok(ev, sizeof(*ev)) && ev->payload_size <= 0x7fffffffUL && arg->offset <= ev->payload_size && arg->size <= ev->payload_size - arg->offset)
__CPROVER_requires((arg->type != STR || arg->offset < ev->payload_size) && (ev->payload_size == 0 || __CPROVER_r_ok(ev->payload, ev->payload_size)))
__CPROVER_requires(__CPROVER_r_ok(fmt, A5_BUF) && __CPROVER_rw_ok(c, sizeof(*c)) && c->len >= 0 && __CPROVER_w_ok(c->out, (size_t) c->len + 1))
__CPROVER_requires(DIAG_PRE && g_pr.calls < 1000)
__CPROVER_assigns(c->out, c->len, DIAG_FRAME, g_pr)
__CPROVER_assigns(c->len > 0: __CPROVER_object_upto(c->out, (size_t) c->len))
__CPROVER_ensures(a5_pa_post(RET, arg, fmt, c, ev, OLD(c->out), OLD(c->len), OLD(g_pr.calls), OLD(g_err), g_err) == 0)
__CPROVER_ensures(g_diag - OLD(g_diag) <= 1 && g_warn == OLD(g_warn))
__CPROVER_ensures(IMPLIES(RET == 0, __CPROVER_pointer_equals(c->out, OLD(c->out) + g_pr.ret)))
__CPROVER_ensures(IMPLIES(RET != 0, __CPROVER_pointer_equals(c->out, OLD(c->out))))
;
struct emu_ev h_ev;
struct ev_arg h_arg;
void h_print_arg(void)
{
	struct cursor c;
	char fmt[A5_BUF];
	unsigned long outlen = nondet_size_t(), pos = nondet_size_t();
	__CPROVER_assume(outlen >= 1 && outlen <= 0x7fffffffUL && pos < outlen);
	char *out = malloc(outlen);
	__CPROVER_assume(out != NULL);
	c.in = NULL; c.out = out + pos; c.len = (int) (outlen - 1 - pos);
	unsigned long psize = nondet_size_t();
	__CPROVER_assume(psize <= 0x7fffffffUL);
	uint8_t *pay = psize > 0 ? malloc(psize) : NULL;
	__CPROVER_assume(psize == 0 || pay != NULL);
	h_ev.payload = (const union ovni_ev_payload *) pay; h_ev.payload_size = psize;
	g_rec = 0;
	int r = print_arg(&h_arg, fmt, &c, &h_ev);
	if (r == 0 && h_arg.type == I32 && h_arg.offset == 4 && psize == 8 && g_pr.ival == -2) REACH("i32 at 4 of an 8-byte payload shown as -2");
	if (r == 0 && h_arg.type == U64 && g_pr.uval == 0xffffffffffffffffULL) REACH("u64 maximum shown");
	if (r == 0 && h_arg.type == I8 && g_pr.ival == -128) REACH("i8 minimum shown");
	if (r == 0 && h_arg.type == STR && h_arg.offset == 4) REACH("string at 4 shown");
	if (r != 0) REACH("no room refused");
}

/* ====================================================================================
 * format_region:   %%   |   %{name}   |   %<format>{name}      c->in points to the '%'
 * NOT CLOSED (group a5_format_region, tier observation): every clause below was seen to hold or to be repaired
 * (failing runs end in minutes), but the final all-clauses proof did not finish in 1500 s (14-38 M clauses).
 * Every callee is used through its contract above (advance_in, parse_printf_format, parse_arg_name,
 * ev_spec_find_arg, print_arg); what reaches snprintf -- destination, room, format, VALUE -- is what print_arg's
 * contract says about the recording stub.
 * ==================================================================================== */
#include "ovni.h"
A5_SPEC_BEGIN
/* the default format of a type, as ovnidump shows the values of doc/user/emulation/events.md (x86-64 glibc) */
static char a5_default_fmt(int type, int j)
{
	const char *f =
		(type == U8 || type == U16 || type == U32) ? "%u" : type == U64 ? "%lu" :
		(type == I8 || type == I16 || type == I32) ? "%d" : type == I64 ? "%ld" : "%s";
	for (int q = 0; q < 4; q++) {
		if (q == j)
			return f[q];
		if (f[q] == '\0')
			break;
	}
	return 0;
}
/* pre-state: ASSIGNED by the harness function before the call (a ghost pointer that is only assumed equal to
 * c->out does not dereference to the buffer: HOWTO pitfall 1); format_region's contract is never used as a replacement */
int g_len0; char *g_out0; const uint8_t *g_payload; unsigned long g_psize;
/* the declared argument i is called like the m characters of the text from position a on */
static int a5_named_text(const struct ev_spec *spec, int i, int a, int m)
{
	for (int k = 0; k < A5_BUF; k++) {
		char ch = spec->args[i].name[k];
		if (k == m)
			return ch == '\0';
		if (ch != a5_txt(a, k))
			return 0;
	}
	return 0;
}
/* What the region says (cls: 0 = malformed, 1 = "%%", 2 = well-formed region), where it ends, the length f of its
 * format (0 = none: the default of the type), the length m of its name.  The two lengths are the ones the parsers'
 * contracts report (g_pf_k, g_pn_k: checked against the text here), the argument is the one ev_spec_find_arg's
 * contract reports (g_fa_idx: the first declared argument called like the buffer parse_arg_name filled). */
struct a5_region { int cls, f, m, end; };
static struct a5_region a5_region_of(void)
{
	struct a5_region r = { 0, 0, 0, 0 };
	int slen = A5_SLEN;
	if (slen < 2 || g_txt[0] != '%')           /* "...%" at the end of the text, or no region at all */
		return r;
	if (g_txt[1] == '%') {
		r.cls = 1; r.end = 2;
		return r;
	}
	int f = 0;
	if (g_txt[1] != '{') {
		f = a5_fmt_stop(slen, 1);
		if (!(f >= 1 && f <= A5_BUF - 2 && a5_at(1 + f) == '{'))
			return r;
	}
	int m = a5_name_stop(slen, f + 2);
	if (!(m >= 1 && m <= A5_BUF - 1 && a5_at(f + 2 + m) == '}'))
		return r;
	r.cls = 2; r.f = f; r.m = m; r.end = f + m + 3;
	return r;
}
/* the whole postcondition; returns 0, or the number of the clause that does not hold */
static int a5_fr_post(int ret, const struct ev_spec *spec, const struct cursor *c, unsigned err0, unsigned err1)
{
	struct a5_region r = a5_region_of();
	if (!(ret == 0 || ret == -1))
		return 1;
	/* the argument is looked up exactly for a well-formed region (with room left) */
	if (g_fa_calls != ((g_len0 > 0 && r.cls == 2) ? 1u : 0u))
		return 15;
	int idx = g_fa_calls == 1 ? g_fa_idx : -1;
	if (idx >= 0) {
		/* what was found is a declared argument called like the text between the braces (observed cell g_j) */
		if (!(idx < spec->nargs && spec->args[idx].name[r.m] == '\0'))
			return 16;
		if (g_j >= 0 && g_j < r.m && spec->args[idx].name[g_j] != a5_txt(r.f + 2, g_j))
			return 17;
	}
	/* a declared argument (observed one: g_k) called like that text is found: it, or an earlier one of that name */
	if (g_fa_calls == 1 && g_k >= 0 && g_k < spec->nargs && a5_named_text(spec, g_k, r.f + 2, r.m) && !(idx >= 0 && idx <= g_k))
		return 18;
	/* the cursor never leaves the text nor passes its terminator */
	if (!(__CPROVER_same_object(c->in, g_txt) && A5_OFF(c->in) <= (unsigned long) A5_SLEN))
		return 2;
	/* the output cursor stays in the room it had */
	if (!(c->len >= 0 && c->len <= g_len0 && __CPROVER_same_object(c->out, g_out0) && c->out - g_out0 == g_len0 - c->len))
		return 3;
	if (ret != 0) {
		/* refused: diagnosed, output cursor where it was */
		if (!(err1 > err0 && c->len == g_len0))
			return 4;
	}
	/* accepted exactly when there is room, the region is well-formed, names a declared argument and the printed
	 * value fits (result of snprintf below the room) */
	int printed = (r.cls == 2 && idx >= 0);
	int legal = g_len0 > 0 && (r.cls == 1 || (printed && g_pr.calls == 1 && g_pr.ret < g_len0));
	if ((ret == 0) != (legal != 0))
		return 5;
	/* print_arg is reached exactly for a well-formed region naming a declared argument, with room left */
	if (g_pr.calls != ((g_len0 > 0 && printed) ? 1u : 0u))
		return 6;
	if (ret == 0 && r.cls == 1) {
		/* "%%": one '%' written, both cursors moved over it */
		if (!(g_out0[0] == '%' && c->len == g_len0 - 1 && A5_OFF(c->in) == 2))
			return 7;
	}
	if (g_pr.calls == 1) {
		const struct ev_arg *a = &spec->args[idx];
		/* printed at the output cursor with the room that was left */
		if (!(g_pr.s == g_out0 && g_pr.n == (size_t) g_len0))
			return 8;
		/* the format: '%' + the text between '%' and '{' + NUL, or the default of the argument's type */
		char ej = r.f > 0 ? (g_j == 0 ? '%' : g_j <= r.f ? a5_at(g_j) : 0) : a5_default_fmt((int) a->type, g_j);
		char ej2 = r.f > 0 ? (g_j2 == 0 ? '%' : g_j2 <= r.f ? a5_at(g_j2) : 0) : a5_default_fmt((int) a->type, g_j2);
		if (g_j >= 0 && g_j <= (r.f > 0 ? r.f + 1 : (a->type == U64 || a->type == I64) ? 3 : 2) && g_pr.f_j != ej)
			return 9;
		if (g_j2 >= 0 && g_j2 <= (r.f > 0 ? r.f + 1 : (a->type == U64 || a->type == I64) ? 3 : 2) && g_pr.f_j2 != ej2)
			return 10;
		/* the value: the named argument's bytes of the payload, by its declared type */
		if (!a5_value_shown(a, g_payload))
			return 11;
		/* accepted: both cursors advanced, over the region and over what was printed */
		if (ret == 0 && !(c->len == g_len0 - g_pr.ret && A5_OFF(c->in) == (unsigned long) r.end))
			return 14;
	}
	return 0;
}
A5_SPEC_END
int c_format_region(struct ev_spec *spec, struct cursor *c, struct emu_ev *ev)
__CPROVER_requires(__CPROVER_r_ok(spec, sizeof(*spec)) && SPEC_WF(spec))
/* the event holds the declared payload and its strings (check_payload, plan C18 / C19) */
__CPROVER_requires(__CPROVER_r_ok(ev, sizeof(*ev)) && spec->payload_size <= ev->payload_size && STRINGS_INSIDE(spec, ev->payload_size))
__CPROVER_requires(g_psize == ev->payload_size && g_payload == (const uint8_t *) ev->payload && (g_psize == 0 || __CPROVER_r_ok(g_payload, g_psize)))
/* the input cursor at the start of the text object */
__CPROVER_requires(__CPROVER_rw_ok(c, sizeof(*c)) && A5_STR_PRE(c->in) && A5_OFF(c->in) == 0 && DIAG_PRE)
/* the output cursor: c->len bytes of room and one more for the terminator (ev_spec_print's invariant) */
__CPROVER_requires(c->len >= 0 && __CPROVER_w_ok(c->out, (size_t) c->len + 1) && g_len0 == c->len && g_out0 == c->out)
__CPROVER_requires(g_pr.calls == 0 && g_fa_calls == 0 && g_rec == 1)
__CPROVER_assigns(c->in, c->out, c->len, DIAG_FRAME, g_pr, g_pf_k, g_pn_k, g_fa_idx, g_fa_calls)
__CPROVER_assigns(c->len > 0: __CPROVER_object_upto(c->out, (size_t) c->len))
__CPROVER_ensures(a5_fr_post(RET, spec, c, OLD(g_err), g_err) == 0)
;
void h_format_region(void)
{
	struct cursor c;
	unsigned long len = nondet_size_t();
	__CPROVER_assume(len <= A5_MAXLEN);
	char *in = malloc(len + 1);
	__CPROVER_assume(in != NULL);
	g_txt = in;
	c.in = in;
	/* the output buffer: any size, the cursor anywhere in it */
	unsigned long outlen = nondet_size_t(), pos = nondet_size_t();
	__CPROVER_assume(outlen >= 1 && outlen <= 0x7fffffffUL && pos < outlen);
	char *out = malloc(outlen);
	__CPROVER_assume(out != NULL);
	c.out = out + pos; c.len = (int) (outlen - 1 - pos);
	/* the payload: any size */
	unsigned long psize = nondet_size_t();
	__CPROVER_assume(psize <= 0x7fffffffUL);
	uint8_t *pay = psize > 0 ? malloc(psize) : NULL;
	__CPROVER_assume(psize == 0 || pay != NULL);
	h_ev.payload = (const union ovni_ev_payload *) pay; h_ev.payload_size = psize;
	g_len0 = c.len; g_out0 = c.out; g_payload = pay; g_psize = psize;
	g_rec = 1; g_pr.calls = 0; g_fa_calls = 0;
	int r = format_region(&h_spec, &c, &h_ev);
	if (r == 0 && in[1] == '%') REACH("%% accepted");
	if (r == 0 && len > 1000 && in[1] == '{' && in[5] == '}') REACH("%{abc} accepted at the head of a long text");
	if (r == 0 && len > 1000 && in[1] != '{' && in[1] != '%' && c.in == in + 131) REACH("longest region (62-character format, 63-character name) accepted");
	if (r != 0 && g_pr.calls == 1) REACH("no room for the value: refused");
	if (r != 0 && len > 4 && g_pr.calls == 0 && in[0] == '%' && in[1] == '{' && in[2] == 'x' && in[3] == '}' && c.len > 0) REACH("%{x} with no argument x declared: refused");
	if (r != 0 && len == 2 && in[0] == '%' && in[1] == 'd') REACH("unterminated region refused");
}
