/* G1 (gap closure, properties C15 / C03) -- src/emu/system.c: create_thread, create_proc,
 * find_loom, create_loom, create_system, init_end_system, load_clock_offsets, init_offsets,
 * system_get_lpt and the orchestration of system_init.
 *
 * C15: the loom/process/thread hierarchy depends only on the union of the streams' metadata:
 * every thread stream finds-or-creates its loom BY NAME, its process BY PID in that loom and
 * creates its thread BY TID in that process; a TID that the process already has is refused;
 * every stream's metadata is merged into its loom and its process; the stream is mapped to
 * its (loom, process, thread) triple.
 * C03: every stream of a loom gets that loom's clock offset (host offset from the table).
 *
 * Assume/assert harnesses on the real code, bounded (<= 3 streams / looms).  All other
 * units are stubs with a call log (plan: "trusted"):
 *  - loom.c / proc.c / thread.c look-up and insertion functions are MODELLED as association
 *    tables (find returns what add inserted, add refuses a key it has; their contracts are
 *    proved in plan C15 groups loom_add_proc / proc_add_thread / g1_loom_find_proc /
 *    g1_proc_find_thread); every insertion, initialisation and metadata merge may FAIL;
 *  - *_init_begin set the identity fields the real ones are proved to set (pid, tid, loom
 *    name / id, empty links, zero clock offset) and may fail;
 *  - parson / stream.c metadata getters: ghost attributes per stream;
 *  - malloc / calloc: may fail; objects come from typed static pools;
 *  - clkoff.c: clkoff_count / clkoff_get over a ghost table of <= 2 entries (proved in
 *    g1_clkoff_*), clkoff_init / clkoff_load logged; fopen / fclose / errno: ghosts;
 *  - stream_clkoff_set, *_init_end: call log, may fail;  utlist DL_APPEND verified as written. */
#include "prelude.h"
#include "utlist.h"
#include "uthash.h"
#include "parson.h"
#include "system.h"
#include "loom.h"
#include "proc.h"
#include "thread.h"
#include "cpu.h"
#include "stream.h"
#include "trace.h"
#include "emu_args.h"
#include "clkoff.h"

int g1_errno;
#undef errno
#define errno g1_errno

#define RV __CPROVER_return_value
#define OLD(e) __CPROVER_old(e)

/* =========================== orchestration of system_init (DFCC) =========================== */
#ifdef H_SYSTEM_INIT
#include "system.c"               /* the real /repo/src/emu/system.c */
/* Each stage is abstracted by a contract: ANY result, any effect on *sys; it stamps its
 * position in the call sequence and records its result.  Its requires clause is asserted at
 * the call site: the stage gets THIS system (zeroed by memset, args set) / trace / args. */
unsigned g_seq;
unsigned g_st_cs, g_st_ssc, g_st_sort, g_st_lists, g_st_idx, g_st_end, g_st_ver, g_st_lco, g_st_off;
int g_r_cs, g_r_ssc, g_r_end, g_r_ver, g_r_lco, g_r_off;
struct system *g_sys; struct trace *g_trace; struct emu_args *g_args;
#define STAMP_FRAME(st) g_seq, st
#define STAMPED(st) (g_seq == OLD(g_seq) + 1 && st == g_seq)
int ca_create_system(struct system *sys, struct trace *trace)
__CPROVER_requires(sys == g_sys && trace == g_trace && g_seq < 100)
__CPROVER_requires(sys->args == g_args && sys->nlooms == 0 && sys->looms == NULL && sys->procs == NULL && sys->threads == NULL && sys->cpus == NULL && sys->lpt == NULL && sys->sort_by_rank == 0 && sys->clkoff.nentries == 0)
__CPROVER_assigns(STAMP_FRAME(g_st_cs), g_r_cs, sys->nlooms, sys->looms, sys->lpt)
__CPROVER_ensures(STAMPED(g_st_cs) && g_r_cs == RV)
;
int ca_set_sort_criteria(struct system *sys)
__CPROVER_requires(sys == g_sys && g_seq < 100)
__CPROVER_assigns(STAMP_FRAME(g_st_ssc), g_r_ssc, sys->sort_by_rank)
__CPROVER_ensures(STAMPED(g_st_ssc) && g_r_ssc == RV)
;
void ca_sort_lpt(struct system *sys)
__CPROVER_requires(sys == g_sys && g_seq < 100)
__CPROVER_assigns(STAMP_FRAME(g_st_sort), sys->looms)
__CPROVER_ensures(STAMPED(g_st_sort))
;
void ca_init_global_lists(struct system *sys)
__CPROVER_requires(sys == g_sys && g_seq < 100)
__CPROVER_assigns(STAMP_FRAME(g_st_lists), sys->procs, sys->threads, sys->cpus)
__CPROVER_ensures(STAMPED(g_st_lists))
;
void ca_init_global_indices(struct system *sys)
__CPROVER_requires(sys == g_sys && g_seq < 100)
__CPROVER_assigns(STAMP_FRAME(g_st_idx), sys->nprocs, sys->nthreads, sys->ncpus, sys->nphycpus)
__CPROVER_ensures(STAMPED(g_st_idx))
;
int ca_init_end_system(struct system *sys)
__CPROVER_requires(sys == g_sys && g_seq < 100)
__CPROVER_assigns(STAMP_FRAME(g_st_end), g_r_end)
__CPROVER_ensures(STAMPED(g_st_end) && g_r_end == RV)
;
int ca_report_libovni_version(struct system *sys)
__CPROVER_requires(sys == g_sys && g_seq < 100)
__CPROVER_assigns(STAMP_FRAME(g_st_ver), g_r_ver)
__CPROVER_ensures(STAMPED(g_st_ver) && g_r_ver == RV)
;
int ca_load_clock_offsets(struct clkoff *clkoff, struct emu_args *args)
__CPROVER_requires(clkoff == &g_sys->clkoff && args == g_args && g_seq < 100)
__CPROVER_assigns(STAMP_FRAME(g_st_lco), g_r_lco, g_sys->clkoff)
__CPROVER_ensures(STAMPED(g_st_lco) && g_r_lco == RV)
;
int ca_init_offsets(struct system *sys, struct trace *trace)
__CPROVER_requires(sys == g_sys && trace == g_trace && g_seq < 100)
__CPROVER_assigns(STAMP_FRAME(g_st_off), g_r_off)
__CPROVER_ensures(STAMPED(g_st_off) && g_r_off == RV)
;
/* keep the replaced symbols alive if a changed system_init stops calling one (pitfall 23) */
int (*const g1_keep1)(struct system *, struct trace *) = create_system;
int (*const g1_keep2)(struct system *) = set_sort_criteria;
void (*const g1_keep3)(struct system *) = sort_lpt;
void (*const g1_keep4)(struct system *) = init_global_lists;
void (*const g1_keep5)(struct system *) = init_global_indices;
int (*const g1_keep6)(struct system *) = init_end_system;
int (*const g1_keep7)(struct system *) = report_libovni_version;
int (*const g1_keep8)(struct clkoff *, struct emu_args *) = load_clock_offsets;
int (*const g1_keep9)(struct system *, struct trace *) = init_offsets;

/* stage k (1..9) ran exactly when g_seq >= k, in THIS order; the int stages that ran all
 * returned 0 except possibly the last one that ran */
#define ORDER_OK ( \
	(g_seq < 1 ? g_st_cs == 0    : g_st_cs == 1) && (g_seq < 2 ? g_st_ssc == 0 : g_st_ssc == 2) && \
	(g_seq < 3 ? g_st_sort == 0  : g_st_sort == 3) && (g_seq < 4 ? g_st_lists == 0 : g_st_lists == 4) && \
	(g_seq < 5 ? g_st_idx == 0   : g_st_idx == 5) && (g_seq < 6 ? g_st_end == 0 : g_st_end == 6) && \
	(g_seq < 7 ? g_st_ver == 0   : g_st_ver == 7) && (g_seq < 8 ? g_st_lco == 0 : g_st_lco == 8) && \
	(g_seq < 9 ? g_st_off == 0   : g_st_off == 9))
#define PASSED(k, r) (g_seq <= (k) || (r) == 0)      /* a stage followed by another one had succeeded */
#define ALL_PASSED (PASSED(1, g_r_cs) && PASSED(2, g_r_ssc) && PASSED(6, g_r_end) && PASSED(7, g_r_ver) && PASSED(8, g_r_lco))
#define LAST_FAILED ((g_seq == 1 && g_r_cs != 0) || (g_seq == 2 && g_r_ssc != 0) || (g_seq == 6 && g_r_end != 0) || \
	(g_seq == 7 && g_r_ver != 0) || (g_seq == 8 && g_r_lco != 0) || (g_seq == 9 && g_r_off != 0))
int c_system_init(struct system *sys, struct emu_args *args, struct trace *trace)
__CPROVER_requires(__CPROVER_is_fresh(sys, sizeof(*sys)))
__CPROVER_requires(__CPROVER_is_fresh(args, sizeof(*args)))
__CPROVER_requires(__CPROVER_is_fresh(trace, sizeof(*trace)))
__CPROVER_requires(__CPROVER_pointer_equals(g_sys, sys) && __CPROVER_pointer_equals(g_args, args) && __CPROVER_pointer_equals(g_trace, trace))
__CPROVER_requires(DIAG_PRE && g_seq == 0 && g_st_cs == 0 && g_st_ssc == 0 && g_st_sort == 0 && g_st_lists == 0 && g_st_idx == 0 && g_st_end == 0 && g_st_ver == 0 && g_st_lco == 0 && g_st_off == 0)
__CPROVER_assigns(*sys, DIAG_FRAME, g_seq, g_st_cs, g_st_ssc, g_st_sort, g_st_lists, g_st_idx, g_st_end, g_st_ver, g_st_lco, g_st_off,
	g_r_cs, g_r_ssc, g_r_end, g_r_ver, g_r_lco, g_r_off)
/* the stages run in the fixed order create_system, set_sort_criteria, sort_lpt, init_global_lists,
 * init_global_indices, init_end_system, report_libovni_version, load_clock_offsets, init_offsets,
 * each at most once, and only while every earlier one succeeded */
__CPROVER_ensures(g_seq >= 1 && g_seq <= 9 && ORDER_OK && ALL_PASSED)
/* success exactly when all nine ran and the last one succeeded too */
__CPROVER_ensures((RV == 0) == (g_seq == 9 && g_r_off == 0))
/* a stage failure stops the initialisation with -1 and a diagnostic */
__CPROVER_ensures(RV == 0 || (RV == -1 && LAST_FAILED && g_err > OLD(g_err)))
;
void h_system_init(void)
{
	struct system *sys; struct emu_args *args; struct trace *trace;
	int r = system_init(sys, args, trace);
	if (r == 0) REACH("system initialised");
	if (r != 0 && g_seq == 1) REACH("create_system failure stops");
	if (r != 0 && g_seq == 2) REACH("set_sort_criteria failure stops");
	if (r != 0 && g_seq == 6) REACH("init_end_system failure stops");
	if (r != 0 && g_seq == 8) REACH("load_clock_offsets failure stops");
	if (r != 0 && g_seq == 9) REACH("init_offsets failure stops");
}
#else /* ------------------------------ everything else: plain harnesses ------------------------------ */

/* ---- call records ---- */
#define G1_NC 4
struct g1_rec { unsigned n; const void *a[G1_NC]; const void *b[G1_NC]; long i[G1_NC]; unsigned seq[G1_NC]; };
unsigned g_seq;                       /* global call sequence */
unsigned g_fail;                      /* failures injected by the stubs */
static void g1_rec(struct g1_rec *r, const void *a, const void *b, long i)
{
	unsigned k = r->n++;
	++g_seq;
	if (k < G1_NC) { r->a[k] = a; r->b[k] = b; r->i[k] = i; r->seq[k] = g_seq; }
}
static int g1_may_fail(void) { if (nondet_bool()) { g_fail++; return -1; } return 0; }
#define CALL_IS(r, k, A, B, I) ((r).a[k] == (const void *) (A) && (r).b[k] == (const void *) (B) && (r).i[k] == (long) (I))

/* ---- typed object pools: separate static objects (zero-initialised; the stubs that stand
 * for *_init_begin set the fields that matter and the harnesses make the others arbitrary
 * where the real code reads them) ---- */
static struct loom g1_L0, g1_L1, g1_L2; static struct proc g1_P0, g1_P1, g1_P2;
static struct thread g1_T0, g1_T1, g1_T2; static struct stream g1_S0, g1_S1, g1_S2;
#ifdef H_INIT_END_SYSTEM
static struct cpu g1_C0, g1_C1;
#define CPU(k) ((k) == 0 ? &g1_C0 : &g1_C1)
#endif
static struct lpt g1_lpt[3];
#define LOOM(k) ((k) == 0 ? &g1_L0 : (k) == 1 ? &g1_L1 : &g1_L2)
#define PROC(k) ((k) == 0 ? &g1_P0 : (k) == 1 ? &g1_P1 : &g1_P2)
#define THREAD(k) ((k) == 0 ? &g1_T0 : (k) == 1 ? &g1_T1 : &g1_T2)
#define STREAM(k) ((k) == 0 ? &g1_S0 : (k) == 1 ? &g1_S1 : &g1_S2)
static int sidx(const struct stream *s) { return s == STREAM(0) ? 0 : s == STREAM(1) ? 1 : 2; }
unsigned g_nl, g_np, g_nt;            /* objects handed out */
void *malloc(size_t sz)
{
	if (nondet_bool()) { g_fail++; return NULL; }
	if (sz == sizeof(struct loom)) { unsigned k = g_nl++; __CPROVER_assert(k < 3, "G1 bound: looms"); return LOOM(k); }
	if (sz == sizeof(struct proc)) { unsigned k = g_np++; __CPROVER_assert(k < 3, "G1 bound: procs"); return PROC(k); }
	if (sz == sizeof(struct thread)) { unsigned k = g_nt++; __CPROVER_assert(k < 3, "G1 bound: threads"); return THREAD(k); }
	__CPROVER_assert(0, "G1: unexpected malloc request");
	return NULL;
}
unsigned g_calloc_n; size_t g_calloc_count;
void *calloc(size_t n, size_t sz)
{
	g_calloc_n++; g_calloc_count = n;
	__CPROVER_assert(sz == sizeof(struct lpt) && n <= 3, "G1: unexpected calloc request");
	if (nondet_bool()) { g_fail++; return NULL; }
	for (int k = 0; k < 3; k++) { g1_lpt[k].stream = NULL; g1_lpt[k].loom = NULL; g1_lpt[k].proc = NULL; g1_lpt[k].thread = NULL; }
	return g1_lpt;
}

/* ---- ghost attributes of the (<= 3) streams ---- */
int g_s_meta[3];                      /* stream_metadata answers non-NULL */
int g_s_part[3];                      /* ovni.part: 0 absent, 1 "thread", 2 "cpu", 3 "threads" */
/* loom names: NUL-terminated strings of <= G1_NLEN characters in 4-byte buffers (G1_NLEN is 3 where the
 * group is about names -- find_loom, create_loom -- so that names sharing a prefix occur; 1 elsewhere) */
#ifndef G1_NLEN
#if defined(H_FIND_LOOM) || defined(H_CREATE_LOOM)
#define G1_NLEN 3
#else
#define G1_NLEN 1
#endif
#endif
#define G1_NB 4
/* equality of the WHOLE strings (SPECIFICATION side; both in 4-byte buffers with [3] == NUL) */
#define NAME_EQ(x, y) ((x)[0] == (y)[0] && ((x)[0] == '\0' || ((x)[1] == (y)[1] && ((x)[1] == '\0' || ((x)[2] == (y)[2] && ((x)[2] == '\0' || (x)[3] == (y)[3]))))))
static void g1_any_name(char *nm, int may_be_empty)
{
	char c0 = nondet_char(); if (!may_be_empty) __CPROVER_assume(c0 != '\0');
	nm[0] = c0; nm[1] = '\0'; nm[2] = '\0'; nm[3] = '\0';
#if G1_NLEN >= 2
	if (c0 != '\0') { nm[1] = nondet_char(); if (nm[1] != '\0') nm[2] = nondet_char(); }
#endif
}
int g_s_hasname[3]; char g_s_name[3][G1_NB];   /* ovni.loom: <= G1_NLEN characters */
int g_s_pid[3], g_s_tid[3];           /* what the pid / tid getters answer (negative = error) */
static char jv_meta[3];
JSON_Object *stream_metadata(struct stream *s) { int i = sidx(s); return g_s_meta[i] ? (JSON_Object *) &jv_meta[i] : NULL; }
const char *json_object_dotget_string(const JSON_Object *o, const char *name)
{
	int i = o == (JSON_Object *) &jv_meta[0] ? 0 : o == (JSON_Object *) &jv_meta[1] ? 1 : 2;
	if (strcmp(name, "ovni.part") != 0) return NULL;
	return g_s_part[i] == 1 ? "thread" : g_s_part[i] == 2 ? "cpu" : g_s_part[i] == 3 ? "threads" : NULL;
}
struct g1_rec r_loom_name, r_get_pid, r_get_tid;
const char *loom_name(struct stream *s) { g1_rec(&r_loom_name, s, NULL, 0); int i = sidx(s); return g_s_hasname[i] ? g_s_name[i] : NULL; }
int proc_stream_get_pid(struct stream *s) { g1_rec(&r_get_pid, s, NULL, 0); return g_s_pid[sidx(s)]; }
int thread_stream_get_tid(struct stream *s) { g1_rec(&r_get_tid, s, NULL, 0); return g_s_tid[sidx(s)]; }
struct g1_rec r_data_set;
void stream_data_set(struct stream *s, void *data) { g1_rec(&r_data_set, s, data, 0); s->data = data; }
void *stream_data_get(struct stream *s) { return s->data; }

/* ---- loom.c / proc.c / thread.c: association-table models with call log ---- */
struct g1_rec r_loom_init_begin, r_loom_load_md, r_loom_find_proc, r_loom_add_proc;
struct g1_rec r_proc_init_begin, r_proc_load_md, r_proc_find_thread, r_proc_add_thread;
struct g1_rec r_thread_init_begin, r_thread_load_md;
unsigned g_lib_ok;                    /* successful loom_init_begin calls */
char g_lname[3][G1_NB];               /* names of the pool looms (what loom->id points to) */
int loom_init_begin(struct loom *loom, const char *name)
{
	g1_rec(&r_loom_init_begin, loom, name, 0);
	if (g1_may_fail()) return -1;
	g_lib_ok++;
	/* the id is the name (the real one points id at loom->name; the copy lives in a small
	 * ghost buffer per pool object: writing the 4 KB name array through a merged pointer
	 * costs 3.7 M variables) */
	char *nm = loom == LOOM(0) ? g_lname[0] : loom == LOOM(1) ? g_lname[1] : g_lname[2];
	nm[0] = name[0]; nm[1] = nm[0] == '\0' ? '\0' : name[1]; nm[2] = '\0'; nm[3] = '\0';
#if G1_NLEN >= 2
	nm[2] = nm[1] == '\0' ? '\0' : name[2];
	__CPROVER_assert(nm[2] == '\0' || name[3] == '\0', "G1 bound: loom names of <= 3 characters");
#else
	__CPROVER_assert(nm[1] == '\0', "G1 bound: loom names of 1 character");
#endif
	loom->id = nm; loom->next = NULL; loom->prev = NULL; loom->clock_offset = 0; loom->procs = NULL;
	return 0;
}
/* the real one merges the stream's CPU list into the loom: afterwards the loom has any number of CPUs */
static char g1_opaque_cpus;
int loom_load_metadata(struct loom *loom, struct stream *s)
{
	g1_rec(&r_loom_load_md, loom, s, 0);
	if (g1_may_fail()) return -1;
	loom->ncpus = nondet_size_t(); loom->max_ncpus = nondet_size_t(); loom->max_phyid = nondet_size_t();
	loom->cpus = loom->ncpus == 0 ? NULL : (struct cpu *) &g1_opaque_cpus;
	return 0;
}
struct { struct loom *loom; int pid; struct proc *proc; } g_ptab[4]; unsigned g_ptab_n;
struct proc *loom_find_proc(struct loom *loom, int pid)
{
	g1_rec(&r_loom_find_proc, loom, NULL, pid);
	for (unsigned k = 0; k < 4; k++) if (k < g_ptab_n && g_ptab[k].loom == loom && g_ptab[k].pid == pid) return g_ptab[k].proc;
	return NULL;
}
int proc_init_begin(struct proc *proc, int pid)
{
	g1_rec(&r_proc_init_begin, proc, NULL, pid);
	if (g1_may_fail()) return -1;
	proc->pid = pid; proc->loom = NULL; proc->threads = NULL;
	return 0;
}
int loom_add_proc(struct loom *loom, struct proc *proc)
{
	g1_rec(&r_loom_add_proc, loom, proc, proc->pid);
	if (g1_may_fail()) return -1;
	for (unsigned k = 0; k < 4; k++) if (k < g_ptab_n && g_ptab[k].loom == loom && g_ptab[k].pid == proc->pid) return -1;
	__CPROVER_assert(g_ptab_n < 4, "G1 bound: process table");
	g_ptab[g_ptab_n].loom = loom; g_ptab[g_ptab_n].pid = proc->pid; g_ptab[g_ptab_n].proc = proc; g_ptab_n++;
	proc->loom = loom;
	return 0;
}
int proc_load_metadata(struct proc *proc, struct stream *s) { g1_rec(&r_proc_load_md, proc, s, 0); return g1_may_fail(); }
struct { struct proc *proc; int tid; struct thread *thread; } g_ttab[4]; unsigned g_ttab_n;
struct thread *proc_find_thread(struct proc *proc, int tid)
{
	g1_rec(&r_proc_find_thread, proc, NULL, tid);
	for (unsigned k = 0; k < 4; k++) if (k < g_ttab_n && g_ttab[k].proc == proc && g_ttab[k].tid == tid) return g_ttab[k].thread;
	return NULL;
}
int thread_init_begin(struct thread *thread, int tid)
{
	g1_rec(&r_thread_init_begin, thread, NULL, tid);
	if (g1_may_fail()) return -1;
	thread->tid = tid; thread->proc = NULL;
	return 0;
}
int thread_load_metadata(struct thread *thread, struct stream *s) { g1_rec(&r_thread_load_md, thread, s, 0); return g1_may_fail(); }
int proc_add_thread(struct proc *proc, struct thread *thread)
{
	g1_rec(&r_proc_add_thread, proc, thread, thread->tid);
	if (g1_may_fail()) return -1;
	for (unsigned k = 0; k < 4; k++) if (k < g_ttab_n && g_ttab[k].proc == proc && g_ttab[k].tid == thread->tid) return -1;
	__CPROVER_assert(g_ttab_n < 4, "G1 bound: thread table");
	g_ttab[g_ttab_n].proc = proc; g_ttab[g_ttab_n].tid = thread->tid; g_ttab[g_ttab_n].thread = thread; g_ttab_n++;
	thread->proc = proc;
	return 0;
}

/* ---- *_init_end, gindex setters, sorting helpers: call log ---- */
struct g1_rec r_thread_init_end, r_proc_init_end, r_cpu_init_end, r_loom_init_end;
int thread_init_end(struct thread *t) { g1_rec(&r_thread_init_end, t, NULL, 0); return g1_may_fail(); }
int proc_init_end(struct proc *p) { g1_rec(&r_proc_init_end, p, NULL, 0); return g1_may_fail(); }
int cpu_init_end(struct cpu *c) { g1_rec(&r_cpu_init_end, c, NULL, 0); return g1_may_fail(); }
int loom_init_end(struct loom *l) { g1_rec(&r_loom_init_end, l, NULL, 0); return g1_may_fail(); }
int loom_set_rank_min(struct loom *l) { (void) l; return nondet_int(); }
void loom_sort(struct loom *l) { (void) l; }
void loom_set_gindex(struct loom *l, int64_t g) { l->gindex = g; }
void proc_set_gindex(struct proc *p, int64_t g) { p->gindex = g; }
void thread_set_gindex(struct thread *t, int64_t g) { t->gindex = g; }
void cpu_set_gindex(struct cpu *c, int64_t g) { c->gindex = g; }
#undef DL_SORT
#define DL_SORT(list, cmp) { }

/* ---- clkoff.c, stdio, stream_clkoff_set ---- */
struct g1_rec r_clkoff_init, r_clkoff_load, r_fopen, r_fclose, r_clkoff_set;
static struct clkoff_entry g1_E0, g1_E1;
int g_co_n;                           /* entries in the ghost table (<= 2) */
void clkoff_init(struct clkoff *t) { g1_rec(&r_clkoff_init, t, NULL, 0); t->nentries = 0; t->entries = NULL; t->index = NULL; }
int clkoff_load(struct clkoff *t, FILE *f) { g1_rec(&r_clkoff_load, t, f, 0); if (g1_may_fail()) return -1; t->nentries = g_co_n; return 0; }
int clkoff_count(struct clkoff *t) { (void) t; return g_co_n; }
struct clkoff_entry *clkoff_get(struct clkoff *t, int i)
{
	(void) t;
	__CPROVER_assert(i >= 0 && i < g_co_n, "clkoff_get within the table");
	return i == 0 ? &g1_E0 : &g1_E1;
}
static char g1_fileobj; int g_fopen_null; int g_fopen_errno; char g_fopen_mode;
FILE *g1_fopen(const char *path, const char *mode)
{
	g1_rec(&r_fopen, path, NULL, 0); g_fopen_mode = mode[0];
	if (g_fopen_null) { g1_errno = g_fopen_errno; return NULL; }
	return (FILE *) &g1_fileobj;
}
#define fopen(p, m) g1_fopen((p), (m))
int g1_fclose(FILE *f) { g1_rec(&r_fclose, f, NULL, 0); return nondet_int(); }
#define fclose(f) g1_fclose(f)
int stream_clkoff_set(struct stream *s, int64_t off) { g1_rec(&r_clkoff_set, s, NULL, (long) off); return g1_may_fail(); }

#include "system.c"               /* the real /repo/src/emu/system.c */

static void g1_reset(void)
{
	g_seq = 0; g_fail = 0; g_lib_ok = 0; g_err = 0; g_warn = 0; g_nl = 0; g_np = 0; g_nt = 0; g_calloc_n = 0; g_ptab_n = 0; g_ttab_n = 0;
	r_loom_name.n = r_get_pid.n = r_get_tid.n = r_data_set.n = 0;
	r_loom_init_begin.n = r_loom_load_md.n = r_loom_find_proc.n = r_loom_add_proc.n = 0;
	r_proc_init_begin.n = r_proc_load_md.n = r_proc_find_thread.n = r_proc_add_thread.n = 0;
	r_thread_init_begin.n = r_thread_load_md.n = 0;
	r_thread_init_end.n = r_proc_init_end.n = r_cpu_init_end.n = r_loom_init_end.n = 0;
	r_clkoff_init.n = r_clkoff_load.n = r_fopen.n = r_fclose.n = r_clkoff_set.n = 0;
}
static void g1_any_streams(void)
{
	for (int i = 0; i < 3; i++) {
		g_s_meta[i] = nondet_bool(); int p = nondet_int(); __CPROVER_assume(p >= 0 && p <= 3); g_s_part[i] = p;
		g_s_hasname[i] = nondet_bool(); g1_any_name(g_s_name[i], 0);
		g_s_pid[i] = nondet_int(); g_s_tid[i] = nondet_int();
		STREAM(i)->data = NULL;
	}
}

/* ------------------------------- system_get_lpt ------------------------------- */
#ifdef H_SYSTEM_GET_LPT
void h_system_get_lpt(void)
{
	g1_reset();
	struct stream *s = STREAM(0);
	int has = nondet_bool(), consistent = nondet_bool();
	g1_lpt[1].stream = consistent ? s : STREAM(1);
	s->data = has ? &g1_lpt[1] : NULL;
	struct lpt *l = system_get_lpt(s);
	VASSERT(has || l == NULL, "a stream without (loom, process, thread) has no entry");
	VASSERT(!has || (l == &g1_lpt[1] && consistent), "the entry attached to the stream is returned; an entry of ANOTHER stream never is (the emulator stops)");
	if (!has) REACH("stream that is not a thread stream");
	if (has) REACH("thread stream");
}
#endif

/* ------------------------------- find_loom ------------------------------- */
#ifdef H_FIND_LOOM
/* A loom is found by equality of its WHOLE name: <= 3 looms with arbitrary names of 0..3 characters (so names that
 * share a prefix, and names that are a prefix of the name looked up, occur), any name looked up. */
void h_find_loom(void)
{
	static struct system sys;
	g1_reset();
	int n = nondet_int(); __CPROVER_assume(n >= 0 && n <= 3);
	for (int k = 0; k < 3; k++) {
		struct loom *l = LOOM(k);
		g1_any_name(g_lname[k], 1); l->id = g_lname[k];
		l->next = (k + 1 < n) ? LOOM(k + 1) : NULL;
	}
	sys.looms = n > 0 ? LOOM(0) : NULL;
	char id[G1_NB]; g1_any_name(id, 1);
	int first = -1;
	for (int k = 2; k >= 0; k--) if (k < n && NAME_EQ(g_lname[k], id)) first = k;
	struct loom *r = find_loom(&sys, id);
	VASSERT((r == NULL) == (first < 0), "NULL exactly when no loom has that name (the whole name)");
	VASSERT(first < 0 || r == LOOM(first), "the loom with that name is found");
	if (n == 3 && first == 2) REACH("third loom found");
	if (n == 3 && first == 0) REACH("first loom found");
	if (n == 2 && first < 0) REACH("unknown name");
	if (n == 0) REACH("no looms yet");
	if (n == 3 && first == 2 && g_lname[0][0] == id[0] && g_lname[1][0] == id[0] && g_lname[1][1] == id[1] && id[2] != '\0') REACH("third loom found behind two looms whose names share a prefix with it");
	if (n >= 1 && first < 0 && g_lname[0][0] == id[0] && g_lname[0][1] == id[1] && id[1] != '\0' && id[2] == '\0' && g_lname[0][2] != '\0') REACH("the name looked up is a proper prefix of a loom name: not found");
	if (n >= 1 && first < 0 && g_lname[0][0] == id[0] && g_lname[0][1] == '\0' && id[1] != '\0') REACH("a loom name is a proper prefix of the name looked up: not found");
}
#endif

/* ------------------------------- create_thread ------------------------------- */
#ifdef H_CREATE_THREAD
void h_create_thread(void)
{
	g1_reset(); g1_any_streams();
	struct proc *proc = PROC(0); struct stream *s = STREAM(0);
	/* the process already has 0 or 1 threads */
	int has_old = nondet_bool(); int old_tid = nondet_int();
	struct thread *old = THREAD(2);
	if (has_old) { g_ttab[0].proc = proc; g_ttab[0].tid = old_tid; g_ttab[0].thread = old; g_ttab_n = 1; }
	int tid = g_s_tid[0];
	struct thread *t = create_thread(proc, s);
	int dup = has_old && old_tid == tid;
	VASSERT((t != NULL) == (tid >= 0 && !dup && g_fail == 0), "a thread is created exactly when the stream has a TID the process does not have yet (and nothing below fails)");
	VASSERT(t != NULL || g_err > 0, "a refusal is diagnosed");
	VASSERT(r_get_tid.n == 1 && CALL_IS(r_get_tid, 0, s, NULL, 0), "the TID comes from this stream");
	VASSERT(tid < 0 || (r_proc_find_thread.n >= 1 && CALL_IS(r_proc_find_thread, 0, proc, NULL, tid)), "the TID is looked up in THIS process");
	if (dup) VASSERT(t == NULL && g_nt == 0 && r_proc_add_thread.n == 0, "duplicate TID: refused, nothing created or added");
	if (t != NULL) {
		VASSERT(t == THREAD(0) && t != old, "a new thread object");
		VASSERT(r_thread_init_begin.n == 1 && CALL_IS(r_thread_init_begin, 0, t, NULL, tid), "initialised with the stream's TID");
		VASSERT(r_thread_load_md.n == 1 && CALL_IS(r_thread_load_md, 0, t, s, 0), "the stream's metadata is loaded into it");
		VASSERT(r_proc_add_thread.n == 1 && CALL_IS(r_proc_add_thread, 0, proc, t, tid), "added to THIS process under its TID");
		VASSERT(r_thread_init_begin.seq[0] < r_thread_load_md.seq[0] && r_thread_load_md.seq[0] < r_proc_add_thread.seq[0], "in this order");
		VASSERT(t->proc == proc && t->tid == tid, "the thread belongs to the process");
		REACH("thread created");
		if (has_old) REACH("second thread of the process");
	} else {
		if (dup) REACH("duplicate TID refused");
		if (tid < 0) REACH("stream without TID refused");
		if (tid >= 0 && !dup && g_fail == 1 && r_proc_add_thread.n == 1) REACH("proc_add_thread failure reported");
	}
}
#endif

/* ------------------------------- create_proc ------------------------------- */
#ifdef H_CREATE_PROC
void h_create_proc(void)
{
	g1_reset(); g1_any_streams();
	struct loom *loom = LOOM(0); struct stream *s = STREAM(0);
	/* the loom already has 0 or 1 processes; another loom may have a process with any pid */
	int has_old = nondet_bool(); int old_pid = nondet_int();
	struct proc *old = PROC(2);
	if (has_old) { g_ptab[0].loom = loom; g_ptab[0].pid = old_pid; g_ptab[0].proc = old; g_ptab_n = 1; old->pid = old_pid; old->loom = loom; }
	g_ptab[g_ptab_n].loom = LOOM(1); g_ptab[g_ptab_n].pid = nondet_int(); g_ptab[g_ptab_n].proc = PROC(1); g_ptab_n++;
	int pid = g_s_pid[0];
	struct proc *p = create_proc(loom, s);
	int known = has_old && old_pid == pid;
	VASSERT((p != NULL) == (pid >= 0 && g_fail == 0), "a process is found or created exactly when the stream has a PID (and nothing below fails)");
	VASSERT(p != NULL || g_err > 0, "a refusal is diagnosed");
	VASSERT(r_get_pid.n == 1 && CALL_IS(r_get_pid, 0, s, NULL, 0), "the PID comes from this stream");
	VASSERT(pid < 0 || (r_loom_find_proc.n >= 1 && CALL_IS(r_loom_find_proc, 0, loom, NULL, pid)), "the PID is looked up in THIS loom");
	if (p != NULL) {
		if (known) VASSERT(p == old && g_np == 0 && r_loom_add_proc.n == 0 && r_proc_init_begin.n == 0, "a known PID of this loom: the existing process, nothing created");
		else {
			VASSERT(p == PROC(0), "an unknown PID: a new process object");
			VASSERT(r_proc_init_begin.n == 1 && CALL_IS(r_proc_init_begin, 0, p, NULL, pid), "initialised with the stream's PID");
			VASSERT(r_loom_add_proc.n == 1 && CALL_IS(r_loom_add_proc, 0, loom, p, pid) && r_proc_init_begin.seq[0] < r_loom_add_proc.seq[0], "then added to THIS loom under its PID");
		}
		VASSERT(p->pid == pid && p->loom == loom, "the process has the stream's PID and belongs to the loom");
		VASSERT(r_proc_load_md.n == 1 && CALL_IS(r_proc_load_md, 0, p, s, 0), "the stream's metadata is merged into the process (new or not)");
		VASSERT(known || r_loom_add_proc.seq[0] < r_proc_load_md.seq[0], "after the process is in the loom");
		if (known) REACH("existing process found");
		if (!known && has_old) REACH("second process of the loom");
		if (!known && !has_old) REACH("first process of the loom");
	} else {
		if (pid < 0) REACH("stream without PID refused");
		if (pid >= 0 && known && g_fail == 1) REACH("metadata merge failure on an existing process reported");
	}
}
#endif

/* ------------------------------- create_loom ------------------------------- */
#ifdef H_CREATE_LOOM
static char g1_opaque_procs, g1_opaque_arr;
/* a loom that earlier streams built: every field create_loom has no business reading is arbitrary (in particular it
 * already has any number of CPUs and processes) */
static void g1_any_loom_state(struct loom *l)
{
	l->ncpus = nondet_size_t(); l->max_ncpus = nondet_size_t(); l->max_phyid = nondet_size_t(); l->offset_ncpus = nondet_size_t();
	l->nprocs = nondet_size_t(); l->rank_enabled = nondet_int(); l->rank_min = nondet_int(); l->is_init = nondet_int();
	l->gindex = nondet_long(); l->clock_offset = nondet_long();
	l->cpus = nondet_bool() ? NULL : (struct cpu *) &g1_opaque_cpus;
	l->cpus_array = nondet_bool() ? NULL : (struct cpu **) &g1_opaque_arr;
	l->procs = nondet_bool() ? NULL : (struct proc *) &g1_opaque_procs;
}
void h_create_loom(void)
{
	static struct system sys;
	g1_reset(); g1_any_streams();
	struct stream *s = STREAM(0);
	/* the system already has 0..2 looms (objects L1, L2) with arbitrary names of 0..3 characters, in any state */
	int n = nondet_int(); __CPROVER_assume(n >= 0 && n <= 2);
	struct loom *a = LOOM(1), *b = LOOM(2);
	g1_any_name(g_lname[1], 1); a->id = g_lname[1]; g1_any_name(g_lname[2], 1); b->id = g_lname[2];
	__CPROVER_assume(n < 2 || !NAME_EQ(g_lname[1], g_lname[2]));        /* names are unique (invariant of this function) */
	g1_any_loom_state(a); g1_any_loom_state(b);
	a->next = n == 2 ? b : NULL; b->next = NULL; a->prev = n == 2 ? b : a; b->prev = a;
	sys.looms = n > 0 ? a : NULL; sys.nlooms = (size_t) n;
	const char *c = g_s_name[0];
	int known = (n >= 1 && NAME_EQ(g_lname[1], c)) ? 1 : (n == 2 && NAME_EQ(g_lname[2], c)) ? 2 : 0;
	int a_had_cpus = a->ncpus > 0;
	struct loom *l = create_loom(&sys, s);
	VASSERT((l != NULL) == (g_s_hasname[0] && g_fail == 0), "a loom is found or created exactly when the stream names its loom and nothing below fails (in particular: a failed metadata merge is propagated)");
	VASSERT(l != NULL || g_err > 0, "a refusal is diagnosed");
	VASSERT(r_loom_name.n == 1 && CALL_IS(r_loom_name, 0, s, NULL, 0), "the loom name comes from this stream");
	/* C15: the loom's CPU list is the union of what ALL its streams declare: EVERY stream that names a loom has its
	 * metadata merged into THAT loom -- whether the loom is new or was built by earlier streams, whatever it holds
	 * already -- unless the loom could not be found/created; nothing is merged into any other loom */
	VASSERT(r_loom_load_md.n <= 1, "at most one metadata merge per stream");
	if (g_s_hasname[0] && known) VASSERT(r_loom_load_md.n == 1 && CALL_IS(r_loom_load_md, 0, known == 1 ? a : b, s, 0), "a stream of an EXISTING loom always has its metadata merged into that loom");
	if (g_s_hasname[0] && !known) VASSERT(r_loom_load_md.n == g_lib_ok && (g_lib_ok == 0 || CALL_IS(r_loom_load_md, 0, LOOM(0), s, 0)), "the first stream of a NEW loom has its metadata merged into it as soon as the loom is initialised");
	if (!g_s_hasname[0]) VASSERT(r_loom_load_md.n == 0, "no loom name: nothing merged");
	if (r_loom_load_md.n == 1) VASSERT(r_loom_load_md.b[0] == s && r_loom_load_md.a[0] == (known == 1 ? a : known == 2 ? b : LOOM(0)), "never merged into another loom");
	if (l != NULL) {
		if (known) {
			VASSERT(l == (known == 1 ? a : b) && g_nl == 0 && r_loom_init_begin.n == 0 && sys.nlooms == (size_t) n, "a known name: the existing loom, nothing created");
		} else {
			VASSERT(l == LOOM(0) && r_loom_init_begin.n == 1 && r_loom_init_begin.a[0] == l && r_loom_init_begin.b[0] == g_s_name[0], "an unknown name: a new loom initialised with that name");
			VASSERT(sys.nlooms == (size_t) n + 1, "counted");
			VASSERT(n == 0 ? (sys.looms == l && l->prev == l) : (sys.looms == a && (n == 1 ? a : b)->next == l && a->prev == l), "appended at the END of the loom list");
			VASSERT(l->next == NULL, "list terminated");
		}
		VASSERT(NAME_EQ(l->id, c), "the loom has the stream's loom name (the whole name)");
		VASSERT(r_loom_load_md.n == 1 && CALL_IS(r_loom_load_md, 0, l, s, 0), "the stream's metadata (CPU list) is merged into the loom, new or not");
		VASSERT(known || r_loom_init_begin.seq[0] < r_loom_load_md.seq[0], "after its creation");
		if (known == 2) REACH("second existing loom found");
		if (!known && n == 2) REACH("third loom appended");
		if (!known && n == 0) REACH("first loom");
		if (known == 2 && g_lname[1][0] == c[0] && g_lname[1][1] == c[1] && c[1] != '\0') REACH("existing loom found behind a loom whose name shares a 2-character prefix");
		if (!known && n == 2 && g_lname[1][0] == c[0] && g_lname[2][0] == c[0]) REACH("new loom although two looms share its first character");
		if (known == 1 && a_had_cpus) REACH("metadata merged into an existing loom that already has CPUs");
	} else {
		VASSERT(sys.nlooms == (size_t) n || (!known && sys.nlooms == (size_t) n + 1), "a refusal does not lose looms");
		if (!g_s_hasname[0]) REACH("stream without loom name refused");
		if (g_s_hasname[0] && known && g_fail == 1) REACH("metadata merge failure on an existing loom reported");
		if (g_s_hasname[0] && !known && g_fail == 1 && r_loom_load_md.n == 1) REACH("metadata merge failure on a new loom reported");
	}
}
#endif

/* ------------------------------- create_system ------------------------------- */
#ifdef H_CREATE_SYSTEM
void h_create_system(void)
{
	static struct system sys; static struct trace trace;
	g1_reset(); g1_any_streams();
#ifndef G1_NS
#define G1_NS 3
#endif
	int n = nondet_int(); __CPROVER_assume(n >= 0 && n <= G1_NS);
	for (int i = 0; i < 3; i++) { STREAM(i)->next = (i + 1 < n) ? STREAM(i + 1) : NULL; }
	trace.streams = n > 0 ? STREAM(0) : NULL; trace.nstreams = n;
	sys.looms = NULL; sys.nlooms = 0; sys.lpt = NULL;

	/* SPECIFICATION, from the streams' attributes only */
	int legal = 1, isth[3], rank[3], nth = 0;
	for (int i = 0; i < 3; i++) {
		isth[i] = 0; rank[i] = -1;
		if (i >= n) continue;
		if (!g_s_meta[i] || g_s_part[i] == 0) { legal = 0; continue; }     /* no metadata / no ovni.part */
		if (g_s_part[i] != 1) continue;                                     /* not a thread stream: ignored */
		isth[i] = 1; rank[i] = nth++;
		if (!g_s_hasname[i] || g_s_pid[i] < 0 || g_s_tid[i] < 0) legal = 0;
		for (int j = 0; j < i; j++)
			if (isth[j] && g_s_name[j][0] == g_s_name[i][0] && g_s_pid[j] == g_s_pid[i] && g_s_tid[j] == g_s_tid[i]) legal = 0;   /* duplicate TID in a process */
	}

	int r = create_system(&sys, &trace);

	VASSERT((r == 0) == (legal && g_fail == 0), "the hierarchy is built exactly when every stream has its attributes and no process gets the same TID twice (and nothing below fails)");
	VASSERT(r == 0 || (r == -1 && g_err > 0), "a refusal is diagnosed");
	VASSERT(g_calloc_n == 1 && g_calloc_count == (size_t) n, "one map entry per stream is allocated");
	if (r == 0) {
		unsigned nlooms = 0;
		for (int i = 0; i < 3; i++) {
			if (i >= n) continue;
			struct stream *s = STREAM(i);
			if (!isth[i]) { VASSERT(s->data == NULL, "a stream that is not a thread stream gets no entry"); continue; }
			struct lpt *e = (struct lpt *) s->data;
			VASSERT(e == &sys.lpt[rank[i]] && e == &g1_lpt[rank[i]], "thread streams get consecutive entries of the map, in stream order");
			VASSERT(e->stream == s, "the entry points back to its stream");
			VASSERT(e->loom != NULL && e->loom->id[0] == g_s_name[i][0], "its loom is the loom with the stream's loom name");
			VASSERT(e->proc != NULL && e->proc->pid == g_s_pid[i] && e->proc->loom == e->loom, "its process has the stream's PID and lives in that loom");
			VASSERT(e->thread != NULL && e->thread->tid == g_s_tid[i] && e->thread->proc == e->proc, "its thread has the stream's TID and lives in that process");
			int first_of_loom = 1;
			for (int j = 0; j < i; j++) {
				if (!isth[j]) continue;
				struct lpt *f = (struct lpt *) STREAM(j)->data;
				int same_loom = g_s_name[j][0] == g_s_name[i][0];
				int same_proc = same_loom && g_s_pid[j] == g_s_pid[i];
				if (same_loom) first_of_loom = 0;
				VASSERT((f->loom == e->loom) == same_loom, "streams share a loom exactly when they name the same loom");
				VASSERT((f->proc == e->proc) == same_proc, "streams share a process exactly when they have the same loom and PID");
				VASSERT(f->thread != e->thread, "every stream has its own thread");
			}
			if (first_of_loom) nlooms++;
			/* every stream's metadata is merged into ITS loom / process / thread, once */
			VASSERT(CALL_IS(r_loom_load_md, rank[i], e->loom, s, 0) && CALL_IS(r_proc_load_md, rank[i], e->proc, s, 0) && CALL_IS(r_thread_load_md, rank[i], e->thread, s, 0), "the stream's metadata is merged into its loom, its process and its thread");
		}
		VASSERT(r_loom_load_md.n == (unsigned) nth && r_proc_load_md.n == (unsigned) nth && r_thread_load_md.n == (unsigned) nth && r_data_set.n == (unsigned) nth, "... exactly once per thread stream");
		VASSERT(sys.nlooms == nlooms && g_nl == nlooms, "one loom per distinct loom name");
		long len = 0; for (struct loom *l = sys.looms; l != NULL; l = l->next) len++;
		VASSERT(len == (long) nlooms, "all of them in the loom list");
		VASSERT(g_nt == (unsigned) nth, "one thread per thread stream");
#if G1_NS >= 3
		if (nth == 3 && nlooms == 2 && g_np == 3 && isth[1]) REACH("three thread streams: two looms, three processes");
		if (nth == 2 && n == 3 && !isth[1] && nlooms == 1 && g_np == 1) REACH("a non-thread stream in the middle is ignored; two threads of one process");
#else
		if (nth == 2 && nlooms == 1 && g_np == 2) REACH("two processes of one loom");
		if (nth == 1 && n == 2 && !isth[0]) REACH("a non-thread stream first is ignored");
#endif
	} else {
		if (g_fail == 0 && nth == 2 && n == 2 && g_s_hasname[0] && g_s_hasname[1] && g_s_pid[0] >= 0 && g_s_tid[0] >= 0 && g_s_name[0][0] == g_s_name[1][0] && g_s_pid[0] == g_s_pid[1] && g_s_tid[0] == g_s_tid[1]) REACH("duplicate TID refused");
		if (g_fail == 1 && legal && nth == G1_NS && r_thread_load_md.n == G1_NS) REACH("failure on the last stream reported");
	}
}
#endif

/* ------------------------------- init_end_system ------------------------------- */
#ifdef H_INIT_END_SYSTEM
void h_init_end_system(void)
{
	static struct system sys;
	g1_reset();
	/* topology: loom L0 {procs P0{T0,T1}, P1{T2}; cpus C0, C1}, loom L1 {proc P2{}; no cpus}; each part optional */
	int nl = nondet_int(); __CPROVER_assume(nl >= 0 && nl <= 2);
	int np0 = nondet_int(); __CPROVER_assume(np0 >= 0 && np0 <= 2);
	int nt0 = nondet_int(); __CPROVER_assume(nt0 >= 0 && nt0 <= 2);
	int nt1 = nondet_bool(), np1 = nondet_bool();
	int nc0 = nondet_int(); __CPROVER_assume(nc0 >= 0 && nc0 <= 2);
	LOOM(0)->next = nl == 2 ? LOOM(1) : NULL; LOOM(1)->next = NULL; sys.looms = nl > 0 ? LOOM(0) : NULL;
	LOOM(0)->procs = np0 > 0 ? PROC(0) : NULL; PROC(0)->hh.next = np0 == 2 ? PROC(1) : NULL; PROC(1)->hh.next = NULL;
	LOOM(1)->procs = np1 ? PROC(2) : NULL; PROC(2)->hh.next = NULL;
	PROC(0)->threads = nt0 > 0 ? THREAD(0) : NULL; THREAD(0)->hh.next = nt0 == 2 ? THREAD(1) : NULL; THREAD(1)->hh.next = NULL;
	PROC(1)->threads = nt1 ? THREAD(2) : NULL; THREAD(2)->hh.next = NULL; PROC(2)->threads = NULL;
	LOOM(0)->cpus = nc0 > 0 ? CPU(0) : NULL; CPU(0)->hh.next = nc0 == 2 ? CPU(1) : NULL; CPU(1)->hh.next = NULL; LOOM(1)->cpus = NULL;
	/* expected visits */
	unsigned eth = 0, epr = 0, ecpu = 0, elo = (unsigned) nl;
	if (nl >= 1) { epr += (unsigned) np0; if (np0 >= 1) eth += (unsigned) nt0; if (np0 == 2) eth += (unsigned) nt1; ecpu += (unsigned) nc0 + 1; }
	if (nl == 2) { epr += (unsigned) np1; ecpu += 1; }
	int r = init_end_system(&sys);
	VASSERT((r == 0) == (g_fail == 0), "the system is complete exactly when every thread, process, CPU and loom completes");
	VASSERT(r == 0 || (r == -1 && g_err > 0), "the first failure stops the initialisation with a diagnostic");
	VASSERT(g_fail <= 1, "nothing is attempted after a failure");
	if (r == 0) {
		VASSERT(r_thread_init_end.n == eth && r_proc_init_end.n == epr && r_cpu_init_end.n == ecpu && r_loom_init_end.n == elo, "every thread, process, CPU (physical and virtual) and loom is completed exactly once");
		if (nl >= 1) {
			unsigned k = 0;
			if (np0 >= 1 && nt0 >= 1) { VASSERT(r_thread_init_end.a[k] == THREAD(0), "threads of the first process"); k++; }
			if (np0 >= 1 && nt0 == 2) { VASSERT(r_thread_init_end.a[k] == THREAD(1), "threads of the first process"); k++; }
			if (np0 == 2 && nt1) { VASSERT(r_thread_init_end.a[k] == THREAD(2), "thread of the second process"); k++; }
			if (np0 >= 1) VASSERT(r_proc_init_end.a[0] == PROC(0), "first process");
			if (np0 == 2) VASSERT(r_proc_init_end.a[1] == PROC(1), "second process");
			if (nc0 >= 1) VASSERT(r_cpu_init_end.a[0] == CPU(0), "first CPU");
			if (nc0 == 2) VASSERT(r_cpu_init_end.a[1] == CPU(1), "second CPU");
			VASSERT(r_cpu_init_end.a[nc0] == &LOOM(0)->vcpu, "the virtual CPU of the loom, after its physical CPUs");
			VASSERT(r_loom_init_end.a[0] == LOOM(0) && r_loom_init_end.seq[0] > r_cpu_init_end.seq[nc0], "the loom is completed after its CPUs");
			if (np0 >= 1 && nt0 >= 1) VASSERT(r_thread_init_end.seq[0] < r_proc_init_end.seq[0], "a process is completed after its threads");
		}
		if (nl == 2) {
			VASSERT(r_cpu_init_end.a[nc0 + 1] == &LOOM(1)->vcpu && r_loom_init_end.a[1] == LOOM(1), "second loom: its virtual CPU, then the loom");
			if (np1) VASSERT(r_proc_init_end.a[np0] == PROC(2), "process of the second loom");
		}
		if (nl == 2 && np0 == 2 && nt0 == 2 && nt1 && nc0 == 2 && np1) REACH("full topology completed");
		if (nl == 0) REACH("no looms");
	} else {
		if (r_loom_init_end.n == 2) REACH("second loom fails");
		if (r_thread_init_end.n == 1 && r_proc_init_end.n == 0) REACH("first thread fails");
		if (r_cpu_init_end.n == 3 && r_loom_init_end.n == 0) REACH("virtual CPU fails");
	}
}
#endif

/* ------------------------------- load_clock_offsets ------------------------------- */
#ifdef H_LOAD_CLOCK_OFFSETS
void h_load_clock_offsets(void)
{
	static struct clkoff table; static struct emu_args args;
	static char dir[2] = "t", given[2] = "f";
	g1_reset();
	int has_file = nondet_bool();
	args.tracedir = dir; args.clock_offset_file = has_file ? given : NULL;
	g_fopen_null = nondet_bool(); g_fopen_errno = nondet_int(); g_co_n = 2;
	table.nentries = 77;
	int r = load_clock_offsets(&table, &args);
	VASSERT(r_clkoff_init.n == 1 && r_clkoff_init.a[0] == &table && r_clkoff_init.seq[0] == 1, "the table is initialised first");
	if (r_fopen.n == 0) {
		VASSERT(r == -1 && g_err > 0 && r_clkoff_load.n == 0, "default path too long: refused");
		REACH("path too long");
	} else {
		VASSERT(r_fopen.n == 1 && g_fopen_mode == 'r', "one file is opened for reading");
		VASSERT(has_file ? r_fopen.a[0] == given : (r_fopen.a[0] != given && r_fopen.a[0] != NULL), "the file given on the command line, else the default <tracedir>/clock-offsets.txt");
		if (g_fopen_null) {
			int missing_default = !has_file && g_fopen_errno == ENOENT;
			VASSERT((r == 0) == missing_default, "only a MISSING DEFAULT file is tolerated; any other open failure is an error");
			VASSERT(r == 0 || (r == -1 && g_err > 0), "diagnosed");
			VASSERT(r_clkoff_load.n == 0 && table.nentries == 0, "no table is loaded");
			if (r == 0) REACH("no default table: no offsets");
			if (r != 0 && has_file && g_fopen_errno == ENOENT) REACH("a missing file that was asked for is an error");
			if (r != 0 && !has_file) REACH("unreadable default file is an error");
		} else {
			VASSERT(r_clkoff_load.n == 1 && CALL_IS(r_clkoff_load, 0, &table, &g1_fileobj, 0), "the table is loaded from the opened file");
			VASSERT((r == 0) == (g_fail == 0), "loaded exactly when the table parses");
			VASSERT(r == 0 || (r == -1 && g_err > 0), "a malformed table is an error");
			if (r == 0) { VASSERT(table.nentries == 2 && r_fclose.n == 1 && r_fclose.a[0] == &g1_fileobj, "table in place, file closed"); REACH("table loaded"); }
			if (r != 0) REACH("malformed table refused");
		}
	}
}
#endif

/* ------------------------------- init_offsets ------------------------------- */
#ifdef H_INIT_OFFSETS
/* replay witnesses: looms and their host byte, streams (thread stream? which loom?), table lines (host byte, median) */
int w_io_nl, w_io_h0, w_io_h1, w_io_n, w_io_lpt0, w_io_lpt1, w_io_lpt2, w_io_lo0, w_io_lo1, w_io_lo2, w_io_con, w_io_e0, w_io_e1;
long w_io_m0, w_io_m1;
void h_init_offsets(void)
{
	static struct system sys; static struct trace trace;
	g1_reset();
	/* two looms with one-character host names; <= 3 streams, each mapped to a loom or not an LPT stream */
	LOOM(0)->hostname[0] = nondet_char(); LOOM(0)->hostname[1] = '\0'; LOOM(1)->hostname[0] = nondet_char(); LOOM(1)->hostname[1] = '\0';
	__CPROVER_assume(LOOM(0)->hostname[0] != '\0' && LOOM(1)->hostname[0] != '\0');
	int nl = nondet_int(); __CPROVER_assume(nl >= 1 && nl <= 2);
	LOOM(0)->next = nl == 2 ? LOOM(1) : NULL; LOOM(1)->next = NULL; LOOM(0)->prev = nl == 2 ? LOOM(1) : LOOM(0); LOOM(1)->prev = LOOM(0);
	LOOM(0)->clock_offset = 0; LOOM(1)->clock_offset = 0;      /* new looms have no offset (g1_loom_init_begin) */
	sys.looms = LOOM(0); sys.nlooms = (size_t) nl;
	int n = nondet_int(); __CPROVER_assume(n >= 0 && n <= 3);
	int islpt[3], lo[3], nlpt = 0;
	for (int i = 0; i < 3; i++) {
		struct stream *s = STREAM(i);
		s->next = (i + 1 < n) ? STREAM(i + 1) : NULL;
		islpt[i] = i < n && nondet_bool();
		lo[i] = (nl == 2 && nondet_bool()) ? 1 : 0;
		g1_lpt[i].stream = s; g1_lpt[i].loom = LOOM(lo[i]);
		s->data = islpt[i] ? &g1_lpt[i] : NULL;
		nlpt += islpt[i];
	}
	trace.streams = n > 0 ? STREAM(0) : NULL; trace.nstreams = n;
	/* the table: <= 2 hosts with distinct names (clkoff.c refuses duplicates) */
	g_co_n = nondet_int(); __CPROVER_assume(g_co_n >= 0 && g_co_n <= 2);
	g1_E0.name[0] = nondet_char(); g1_E0.name[1] = '\0'; g1_E1.name[0] = nondet_char(); g1_E1.name[1] = '\0';
	__CPROVER_assume(g1_E0.name[0] != '\0' && g1_E1.name[0] != '\0' && g1_E0.name[0] != g1_E1.name[0]);
	{ double m0, m1, a0, a1; g1_E0.median = m0; g1_E1.median = m1; g1_E0.mean = a0; g1_E1.mean = a1; }   /* arbitrary */
	/* offsets come from the table as doubles; keep them convertible (observation O2 otherwise) */
	__CPROVER_assume(g1_E0.median > -1e15 && g1_E0.median < 1e15 && g1_E1.median > -1e15 && g1_E1.median < 1e15);
	/* SPECIFICATION: the offset of a loom is the median of the table line of its host, 0 without
	 * a line; every line must name the host of some loom */
	int64_t want[2]; int table_ok = 1;
	for (int k = 0; k < 2; k++) {
		want[k] = 0;
		if (k >= nl) continue;
		if (g_co_n >= 1 && LOOM(k)->hostname[0] == g1_E0.name[0]) want[k] = (int64_t) g1_E0.median;
		if (g_co_n >= 2 && LOOM(k)->hostname[0] == g1_E1.name[0]) want[k] = (int64_t) g1_E1.median;
	}
	for (int e = 0; e < 2; e++) {
		if (e >= g_co_n) continue;
		char h = e == 0 ? g1_E0.name[0] : g1_E1.name[0];
		if (!(LOOM(0)->hostname[0] == h || (nl == 2 && LOOM(1)->hostname[0] == h))) table_ok = 0;
	}
	/* (the group runs with --slice-formula: a plain store to a never-read ghost would be sliced out of the
	 * trace, so the witnesses are bound like WBIND does: free value, assumed equal to the input it names) */
#define WSET(w, v) do { w = nondet_int(); __CPROVER_assume(w == (v)); } while (0)
#define WSETL(w, v) do { w = nondet_long(); __CPROVER_assume(w == (v)); } while (0)
	WSET(w_io_nl, nl); WSET(w_io_h0, LOOM(0)->hostname[0]); WSET(w_io_h1, LOOM(1)->hostname[0]); WSET(w_io_n, n);
	WSET(w_io_lpt0, islpt[0]); WSET(w_io_lpt1, islpt[1]); WSET(w_io_lpt2, islpt[2]); WSET(w_io_lo0, lo[0]); WSET(w_io_lo1, lo[1]); WSET(w_io_lo2, lo[2]);
	WSET(w_io_con, g_co_n); WSET(w_io_e0, g1_E0.name[0]); WSET(w_io_e1, g1_E1.name[0]); WSETL(w_io_m0, (int64_t) g1_E0.median); WSETL(w_io_m1, (int64_t) g1_E1.median);
	int r = init_offsets(&sys, &trace);
	VASSERT((r == 0) == (table_ok && g_fail == 0), "offsets are applied exactly when every table line names a host of the trace (and every stream accepts its offset)");
	VASSERT(r == 0 || (r == -1 && g_err > 0), "a refusal is diagnosed");
	VASSERT((g_warn > 0) == (g_co_n == 0 && nl > 1), "a trace with several looms and no offset table gets a warning");
	if (r == 0) {
		VASSERT(LOOM(0)->clock_offset == want[0] && (nl < 2 || LOOM(1)->clock_offset == want[1]), "every loom has the MEDIAN offset of its host (0 without a line)");
		VASSERT(r_clkoff_set.n == (unsigned) nlpt, "stream_clkoff_set once per thread stream, none for the others");
		unsigned k = 0;
		for (int i = 0; i < 3; i++) {
			if (!islpt[i]) continue;
			VASSERT(r_clkoff_set.a[k] == STREAM(i) && r_clkoff_set.i[k] == (long) want[lo[i]], "EVERY stream gets the clock offset of ITS loom, in list order");
			k++;
		}
		if (nlpt == 3 && nl == 2 && lo[0] == 1 && lo[1] == 0 && lo[2] == 1 && g_co_n == 2 && want[0] != want[1] && want[0] != 0 && want[1] != 0) REACH("three streams on two hosts with different offsets");
		if (nlpt == 2 && n == 3 && !islpt[0]) REACH("first stream is not a thread stream");
		if (g_co_n == 0 && nl == 2) REACH("two looms, no table: warning only");
		if (nl == 2 && g_co_n == 1 && want[0] != 0 && want[0] == want[1]) REACH("two looms on one host share its offset");
	} else {
		if (!table_ok) REACH("table line for an unknown host refused");
		if (table_ok && nlpt == 2 && r_clkoff_set.n == 2) REACH("second stream refuses its offset");
	}
}
#endif
#endif /* H_SYSTEM_INIT */
