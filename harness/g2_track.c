/* C06 (gap G2) -- src/emu/track.c, the functions with a loop or a variadic signature:
 *   track_init: records type / mode / bay, creates the scratch channel &track->ch as a SINGLE channel
 *     named <track name><mode suffix> and registers it in the bay (refused iff the name does not fit
 *     or the bay refuses); out and mux are left alone.
 *   track_connect_thread: for i < n, in order, track i follows channel i according to ITS tracking mode:
 *     ANY  => the output IS the input channel, no mux at all;
 *     RUN  => output = scratch channel fed by a 1-input mux selected by `sel` through thread_select_running;
 *     ACT  => the same through thread_select_active;  anything else is refused.
 *     Tracks >= n are not touched.  track_get_output returns that output.
 * Bounded: n <= 2 tracks.  Assume/assert harness on the real code (plain CBMC); mux.c, chan.c, bay.c are
 * other units: logging stubs with arbitrary result (their contracts: groups mux_init, mux_set_input,
 * g2_chan_init, g2_bay_register). */
#include "prelude.h"
#include <stdarg.h>
#include "chan.h"
#include "bay.h"
#include "mux.h"
#include "thread.h"
#include "track.h"

#define NLOG 8
int g_seq, g_callee_failed;

/* vsnprintf(s, n, fmt, ap): formatting dropped; any result; a NUL somewhere inside the buffer */
char *g_vs_dst; size_t g_vs_n; const char *g_vs_fmt; int g_vs_ret, g_vs_seq, g_nvs;
static int verif_vsnprintf(char *s, size_t n, const char *fmt)
{
	g_vs_dst = s; g_vs_n = n; g_vs_fmt = fmt; g_vs_seq = g_seq;
	g_nvs++; g_seq++;
	if (n > 0 && s != NULL) { size_t k = nondet_size_t(); __CPROVER_assume(k < n); s[k] = '\0'; }
	g_vs_ret = nondet_int();
	return g_vs_ret;
}
#define vsnprintf(s, n, fmt, ap) verif_vsnprintf((s), (n), (fmt))

/* chan_init(ch, CHAN_SINGLE, "%s%s", track->name, suffix) */
struct chan *g_ci_ch[NLOG]; int g_ci_type[NLOG]; const char *g_ci_a[NLOG]; const char *g_ci_b[NLOG]; int g_ci_seq[NLOG]; int g_nci;
void verif_chan_init(struct chan *ch, enum chan_type type, const char *a, const char *b)
{
	if (g_nci < NLOG) { g_ci_ch[g_nci] = ch; g_ci_type[g_nci] = (int) type; g_ci_a[g_nci] = a; g_ci_b[g_nci] = b; g_ci_seq[g_nci] = g_seq; }
	g_nci++; g_seq++;
}
#define chan_init(ch, type, fmt, a, b) verif_chan_init((ch), (type), (a), (b))

struct bay *g_br_bay[NLOG]; struct chan *g_br_ch[NLOG]; int g_br_seq[NLOG]; int g_nbr;
int bay_register(struct bay *bay, struct chan *ch)
{
	if (g_nbr < NLOG) { g_br_bay[g_nbr] = bay; g_br_ch[g_nbr] = ch; g_br_seq[g_nbr] = g_seq; }
	g_nbr++; g_seq++;
	int r = nondet_int();
	if (r != 0) g_callee_failed = 1;
	return r;
}

struct mux *g_mi_mux[NLOG]; struct bay *g_mi_bay[NLOG]; struct chan *g_mi_sel[NLOG]; struct chan *g_mi_out[NLOG];
mux_select_func_t g_mi_f[NLOG]; int64_t g_mi_n[NLOG]; int g_mi_seq[NLOG]; int g_nmi;
int mux_init(struct mux *mux, struct bay *bay, struct chan *select, struct chan *output, mux_select_func_t select_func, int64_t ninputs)
{
	if (g_nmi < NLOG) { g_mi_mux[g_nmi] = mux; g_mi_bay[g_nmi] = bay; g_mi_sel[g_nmi] = select; g_mi_out[g_nmi] = output; g_mi_f[g_nmi] = select_func; g_mi_n[g_nmi] = ninputs; g_mi_seq[g_nmi] = g_seq; }
	g_nmi++; g_seq++;
	int r = nondet_int();
	if (r != 0) g_callee_failed = 1;
	return r;
}
struct mux *g_si_mux[NLOG]; int64_t g_si_idx[NLOG]; struct chan *g_si_ch[NLOG]; int g_si_seq[NLOG]; int g_nsi;
int mux_set_input(struct mux *mux, int64_t index, struct chan *chan)
{
	if (g_nsi < NLOG) { g_si_mux[g_nsi] = mux; g_si_idx[g_nsi] = index; g_si_ch[g_nsi] = chan; g_si_seq[g_nsi] = g_seq; }
	g_nsi++; g_seq++;
	int r = nondet_int();
	if (r != 0) g_callee_failed = 1;
	return r;
}

#include "track.c"

static void reset(void)
{
	g_seq = 0; g_callee_failed = 0; g_err = 0;
	g_nvs = g_nci = g_nbr = g_nmi = g_nsi = 0;
}

#ifdef H_TRACK_INIT
static int str_is(const char *s, char a, char b, char c, char d) { return s[0] == a && s[1] == b && s[2] == c && s[3] == d && s[4] == '\0'; }
void h_track_init(void)
{
	static struct track T;
	static struct bay B;
	static struct chan other;
	static const char fmt[] = "%s";
	/* callers (model_thread.c / model_cpu.c init_chan, groups g2_model_*_create) pass TRACK_TYPE_TH and a
	 * mode of the model's table; a mode outside enum track_th would index the suffix table out of bounds */
	int mode = nondet_int(); __CPROVER_assume(mode >= TRACK_TH_ANY && mode < TRACK_TH_MAX);
	T.out = &other; T.mux.select = &other; T.mux.ninputs = 7;
	reset();

	int r = track_init(&T, &B, TRACK_TYPE_TH, mode, fmt, "x");

	VASSERT(g_nvs == 1 && g_vs_dst == T.name && g_vs_n == MAX_CHAN_NAME && g_vs_fmt == fmt, "the track name is formatted into track->name (512 bytes) from the given format");
	VASSERT((r == 0) == (g_vs_ret < MAX_CHAN_NAME && !g_callee_failed), "track_init accepted iff the name fits and the bay accepted the scratch channel");
	VASSERT(r == 0 || g_err > 0, "a refusal is diagnosed");
	VASSERT(g_vs_ret < MAX_CHAN_NAME || (g_nci == 0 && g_nbr == 0), "a track whose name does not fit creates no channel");
	if (r == 0) {
		VASSERT(T.type == TRACK_TYPE_TH && T.mode == mode && T.bay == &B, "type, tracking mode and bay recorded");
		VASSERT(g_nci == 1 && g_ci_ch[0] == &T.ch && g_ci_type[0] == CHAN_SINGLE, "the scratch output channel is a SINGLE channel");
		VASSERT(g_ci_a[0] == T.name && g_ci_seq[0] > g_vs_seq, "scratch channel named after the (already formatted) track name");
		VASSERT(mode != TRACK_TH_ANY || str_is(g_ci_b[0], '.', 'a', 'n', 'y'), "suffix .any");
		VASSERT(mode != TRACK_TH_RUN || str_is(g_ci_b[0], '.', 'r', 'u', 'n'), "suffix .run");
		VASSERT(mode != TRACK_TH_ACT || str_is(g_ci_b[0], '.', 'a', 'c', 't'), "suffix .act");
		VASSERT(g_nbr == 1 && g_br_bay[0] == &B && g_br_ch[0] == &T.ch && g_br_seq[0] > g_ci_seq[0], "scratch channel registered in the bay once, after it got its name");
		VASSERT(T.out == &other && T.mux.select == &other && T.mux.ninputs == 7 && g_nmi == 0 && g_nsi == 0, "output and mux are not wired by track_init");
		REACH("track_init accepted");
		if (mode == TRACK_TH_ACT) REACH("mode act");
		if (mode == TRACK_TH_ANY) REACH("mode any");
	} else {
		REACH("track_init refused");
		if (g_vs_ret >= MAX_CHAN_NAME) REACH("refused: name too long");
		if (g_callee_failed) REACH("refused by the bay");
	}
}
#endif

#ifdef H_TRACK_CONNECT_THREAD
int w_n, w_mode0, w_mode1;
void h_track_connect_thread(void)
{
	static struct track tracks[2];
	static struct chan chans[2];
	static struct chan sel, other;
	static struct bay B;
	int n = nondet_int(); __CPROVER_assume(n >= 0 && n <= 2);
	tracks[0].mode = nondet_int(); tracks[1].mode = nondet_int();
	tracks[0].type = TRACK_TYPE_TH; tracks[1].type = TRACK_TYPE_TH;
	tracks[0].bay = &B; tracks[1].bay = &B;
	tracks[0].out = &other; tracks[1].out = &other;
	w_n = n; w_mode0 = tracks[0].mode; w_mode1 = tracks[1].mode;
	reset();

	int r = track_connect_thread(tracks, chans, &sel, n);

	int valid0 = w_mode0 == TRACK_TH_ANY || w_mode0 == TRACK_TH_RUN || w_mode0 == TRACK_TH_ACT;
	int valid1 = w_mode1 == TRACK_TH_ANY || w_mode1 == TRACK_TH_RUN || w_mode1 == TRACK_TH_ACT;
	VASSERT((r == 0) == ((n < 1 || valid0) && (n < 2 || valid1) && !g_callee_failed), "track_connect_thread accepted iff every mode is any/run/act and mux.c accepted");
	VASSERT(r == 0 || g_err > 0, "a refusal is diagnosed");
	VASSERT(tracks[0].mode == w_mode0 && tracks[1].mode == w_mode1, "the tracking mode is not changed by connecting");
	/* muxes are only ever built for run/act tracks below n, in order */
	int nmux = (n >= 1 && w_mode0 != TRACK_TH_ANY) + (n >= 2 && w_mode1 != TRACK_TH_ANY);
	VASSERT(g_nmi <= nmux && g_nsi <= g_nmi, "no mux for mode ANY, none for tracks >= n, one input per mux");
	if (r == 0) {
		VASSERT(g_nmi == nmux && g_nsi == nmux, "exactly one 1-input mux per run/act track");
		int j = 0;
		for (int i = 0; i < 2; i++) {
			struct track *t = &tracks[i];
			int mode = i == 0 ? w_mode0 : w_mode1;
			if (i >= n) {
				VASSERT(track_get_output(t) == &other, "tracks >= n are not touched");
				continue;
			}
			if (mode == TRACK_TH_ANY) {
				VASSERT(track_get_output(t) == &chans[i], "mode ANY: the output IS the input channel");
				continue;
			}
			VASSERT(track_get_output(t) == &t->ch, "mode RUN/ACT: the output is the track's scratch channel");
			VASSERT(g_mi_mux[j] == &t->mux && g_mi_bay[j] == &B && g_mi_out[j] == &t->ch, "the track's own mux, in its bay, writing the scratch channel");
			VASSERT(g_mi_sel[j] == &sel, "selected by the given (thread state) channel");
			VASSERT(g_mi_n[j] == 1, "one input");
			VASSERT(mode != TRACK_TH_RUN || g_mi_f[j] == thread_select_running, "mode RUN: selector thread_select_running");
			VASSERT(mode != TRACK_TH_ACT || g_mi_f[j] == thread_select_active, "mode ACT: selector thread_select_active");
			VASSERT(g_si_mux[j] == &t->mux && g_si_idx[j] == 0 && g_si_ch[j] == &chans[i], "input 0 is channel i");
			VASSERT(g_si_seq[j] > g_mi_seq[j] && (j == 0 || g_mi_seq[j] > g_si_seq[j - 1]), "mux created before its input is set, tracks in order");
			j++;
		}
		REACH("track_connect_thread accepted");
		if (n == 2 && w_mode0 == TRACK_TH_RUN && w_mode1 == TRACK_TH_ACT) REACH("run then act");
		if (n == 2 && w_mode0 == TRACK_TH_ANY && w_mode1 == TRACK_TH_RUN) REACH("any then run");
		if (n == 0) REACH("nothing to connect");
	} else {
		REACH("track_connect_thread refused");
		if (!g_callee_failed && n == 2 && valid0) REACH("refused: unknown mode of the second track");
		if (g_callee_failed && g_nsi == 2) REACH("refused by mux_set_input of the second track");
	}
}
#endif
