/* C04 -- ovni/setup.c: model_ovni_finish accepts a finished trace exactly when
 * every thread of the system list is dead.  BOUNDED stand-in: lists of at most
 * three threads (the closed form needs a recursive predicate over the list;
 * quantifiers do not work here, HOWTO pitfall 10).  Threads are allocated one
 * by one (pitfall 8). */
#include "prelude.h"
#include "setup.c"         /* the real /repo/src/emu/ovni/setup.c */

#define T1(emu) ((emu)->system.threads)
#define T2(emu) (T1(emu)->gnext)
#define T3(emu) (T2(emu)->gnext)
/* a NULL-terminated gnext list of 0..3 separately allocated threads */
#define LIST3(emu) ((T1(emu) == NULL || (__CPROVER_is_fresh(T1(emu), sizeof(struct thread)) && \
	(T2(emu) == NULL || (__CPROVER_is_fresh(T2(emu), sizeof(struct thread)) && \
	(T3(emu) == NULL || (__CPROVER_is_fresh(T3(emu), sizeof(struct thread)) && T3(emu)->gnext == NULL)))))))
#define DEAD_OR_END(t, rest) ((t) == NULL || ((t)->state == TH_ST_DEAD && (rest)))
#define ALL_DEAD(emu) DEAD_OR_END(T1(emu), DEAD_OR_END(T2(emu), DEAD_OR_END(T3(emu), 1)))
#define NTHREADS(emu) (T1(emu) == NULL ? 0 : T2(emu) == NULL ? 1 : T3(emu) == NULL ? 2 : 3)

int w_finished, w_n, w_s1, w_s2, w_s3;
WITNESS(model_ovni_finish);

int c_model_ovni_finish(struct emu *emu)
__CPROVER_requires(__CPROVER_is_fresh(emu, sizeof(*emu)) && LIST3(emu) && DIAG_PRE)
__CPROVER_requires(WBIND(model_ovni_finish, w_finished == emu->finished && w_n == NTHREADS(emu) &&
	(w_n < 1 || w_s1 == (int) T1(emu)->state) && (w_n < 2 || w_s2 == (int) T2(emu)->state) &&
	(w_n < 3 || w_s3 == (int) T3(emu)->state)))
__CPROVER_assigns(DIAG_FRAME)
__CPROVER_ensures(__CPROVER_return_value == 0 || __CPROVER_return_value == -1)
/* a trace that ran to its end is accepted exactly when every thread is dead */
__CPROVER_ensures(!emu->finished || ((__CPROVER_return_value == 0) == ALL_DEAD(emu)))
/* a run stopped prematurely skips the check */
__CPROVER_ensures(emu->finished || __CPROVER_return_value == 0)
__CPROVER_ensures(__CPROVER_return_value == 0 ? g_err == __CPROVER_old(g_err) : g_err > __CPROVER_old(g_err))
;

void h_model_ovni_finish(void)
{
	struct emu *emu;
	WITNESS_ON(model_ovni_finish);
	int r = model_ovni_finish(emu);
	if (r == 0 && w_finished && w_n == 3) REACH("finished trace with three dead threads accepted");
	if (r != 0 && w_n == 3 && w_s1 == TH_ST_DEAD && w_s2 == TH_ST_DEAD) REACH("refused: only the last thread is not dead");
	if (r == 0 && !w_finished && w_n >= 1 && w_s1 == TH_ST_RUNNING) REACH("premature stop: check skipped");
}
