/* A5 (function coverage, plan C07) -- the small accessors of the real src/emu/body.c that no
 * group named yet: body_find, body_get_iteration, body_get_id, body_get_state,
 * body_get_state_name.  Exact functional contracts with an EMPTY write frame.
 *
 * Trusted base: uthash is not verified.  HASH_FIND_INT (the only thing body_find does) is
 * rebound, as in harness/g3_task.c, to a one-cell map model: the table is observed at one key;
 * the lookup LOGS the head and the key it was asked for and returns the cell g_hf_res.  What is
 * proved about body_find is therefore: it looks up exactly (info->bodies, body_id), once, hands
 * back exactly what the lookup gave, and writes nothing else -- which is what the ASSUMED
 * contract c_body_find of harness/c07_body.c says.  The real uthash macros are exercised on
 * body_find natively in group a5_uthash_native (plan C13, native/a5small_uthash_native.c). */
#include "prelude.h"
#include "uthash.h"

#define RV __CPROVER_return_value
#define OLD(e) __CPROVER_old(e)

struct a5_hfind { unsigned n; const void *head; uint32_t key; } g_hfind;
void *g_hf_res;            /* value of the observed cell (NULL: key absent) */
#undef HASH_FIND_INT
#define HASH_FIND_INT(head_, findint_, out_) { g_hfind.n++; g_hfind.head = (const void *) (head_); \
	g_hfind.key = (uint32_t) *(findint_); (out_) = g_hf_res; }

struct task;
uint32_t task_get_id(struct task *task) { (void) task; uint32_t r; return r; }   /* task.c: outside the unit, never reached here */

#include "body.c"          /* the real /repo/src/emu/body.c */

/* ---------------- body_find ---------------- */
WITNESS(body_find);
unsigned w_bf_id; int w_bf_found;
struct body *c_body_find(struct body_info *info, uint32_t body_id)
__CPROVER_requires(__CPROVER_is_fresh(info, sizeof(*info)))
__CPROVER_requires(g_hf_res == NULL || __CPROVER_is_fresh(g_hf_res, sizeof(struct body)))
__CPROVER_requires(g_hfind.n < 1000000u)
__CPROVER_requires(WBIND(body_find, w_bf_id == body_id && w_bf_found == (g_hf_res != NULL)))
__CPROVER_assigns(g_hfind)
/* exactly one lookup, of exactly this task's body table, under exactly this id */
__CPROVER_ensures(g_hfind.n == OLD(g_hfind.n) + 1 && g_hfind.head == (const void *) info->bodies && g_hfind.key == body_id)
/* the result of the lookup is the result of the function (NULL = absent) */
__CPROVER_ensures(__CPROVER_pointer_equals(RV, (struct body *) g_hf_res))
/* the table is not touched */
__CPROVER_ensures(info->bodies == OLD(info->bodies))
;
void h_body_find(void)
{
	struct body_info *info; uint32_t id;
	WITNESS_ON(body_find);
	struct body *b = body_find(info, id);
	if (b != NULL && w_bf_id == 7) REACH("body 7 found");
	if (b == NULL && w_bf_id == 0) REACH("body 0 not found");
	if (b == NULL && w_bf_id == 0xffffffffu) REACH("largest id not found");
}

/* ---------------- the accessors: value of exactly one field, nothing written ----------------
 * the body is completely arbitrary (every field nondet, any state value) */
WITNESS(body_get_iteration);
long w_it;
long c_body_get_iteration(struct body *body)
__CPROVER_requires(__CPROVER_is_fresh(body, sizeof(*body)))
__CPROVER_requires(WBIND(body_get_iteration, w_it == body->iteration))
__CPROVER_assigns()
__CPROVER_ensures(RV == body->iteration)
;
void h_body_get_iteration(void)
{
	struct body *body;
	WITNESS_ON(body_get_iteration);
	long r = body_get_iteration(body);
	if (r == 0 && w_it == 0) REACH("first execution");
	if (r == 0x7fffffffffffffffL) REACH("largest iteration");
	if (r < 0) REACH("negative value is handed back unchanged");
}

WITNESS(body_get_id);
unsigned w_id, w_taskid;
uint32_t c_body_get_id(struct body *body)
__CPROVER_requires(__CPROVER_is_fresh(body, sizeof(*body)))
__CPROVER_requires(WBIND(body_get_id, w_id == body->id && w_taskid == body->taskid))
__CPROVER_assigns()
__CPROVER_ensures(RV == body->id)
;
void h_body_get_id(void)
{
	struct body *body;
	WITNESS_ON(body_get_id);
	uint32_t r = body_get_id(body);
	/* id and taskid are neighbours of the same type: the REACH pins that they can differ */
	if (r == 5 && w_taskid == 9) REACH("id 5 of task 9");
	if (r == 0xffffffffu) REACH("largest id");
}

WITNESS(body_get_state);
int w_st, w_flags;
enum body_state c_body_get_state(struct body *body)
__CPROVER_requires(__CPROVER_is_fresh(body, sizeof(*body)))
__CPROVER_requires(WBIND(body_get_state, w_st == (int) body->state && w_flags == body->flags))
__CPROVER_assigns()
__CPROVER_ensures(RV == body->state)
;
void h_body_get_state(void)
{
	struct body *body;
	WITNESS_ON(body_get_state);
	enum body_state r = body_get_state(body);
	if (r == BODY_ST_CREATED && w_flags == BODY_ST_DEAD) REACH("created (flags hold another number)");
	if (r == BODY_ST_RUNNING) REACH("running");
	if (r == BODY_ST_PAUSED) REACH("paused");
	if (r == BODY_ST_DEAD) REACH("dead");
}

/* ---------------- body_get_state_name ----------------
 * total on the four states of the machine (the data-structure invariant BODY_WF of c07_body.c:
 * BODY_ST_CREATED <= state <= BODY_ST_DEAD): the name is a NUL-terminated constant string, a
 * different one per state, spelled exactly Created / Running / Paused / Dead; nothing is written.
 * (state 0 would give NULL and state >= BODY_ST_MAX is outside the table: neither is a state.) */
#define IS7(p, a, b, c, d, e, f, g) ((p)[0] == a && (p)[1] == b && (p)[2] == c && (p)[3] == d && (p)[4] == e && (p)[5] == f && (p)[6] == g && (p)[7] == 0)
#define IS6(p, a, b, c, d, e, f) ((p)[0] == a && (p)[1] == b && (p)[2] == c && (p)[3] == d && (p)[4] == e && (p)[5] == f && (p)[6] == 0)
#define IS4(p, a, b, c, d) ((p)[0] == a && (p)[1] == b && (p)[2] == c && (p)[3] == d && (p)[4] == 0)
WITNESS(body_get_state_name);
int w_sn;
const char *c_body_get_state_name(struct body *body)
__CPROVER_requires(__CPROVER_is_fresh(body, sizeof(*body)))
__CPROVER_requires(body->state >= BODY_ST_CREATED && body->state <= BODY_ST_DEAD)
__CPROVER_requires(WBIND(body_get_state_name, w_sn == (int) body->state))
__CPROVER_assigns()
__CPROVER_ensures(RV != NULL)
__CPROVER_ensures(body->state != BODY_ST_CREATED || IS7(RV, 'C', 'r', 'e', 'a', 't', 'e', 'd'))
__CPROVER_ensures(body->state != BODY_ST_RUNNING || IS7(RV, 'R', 'u', 'n', 'n', 'i', 'n', 'g'))
__CPROVER_ensures(body->state != BODY_ST_PAUSED  || IS6(RV, 'P', 'a', 'u', 's', 'e', 'd'))
__CPROVER_ensures(body->state != BODY_ST_DEAD    || IS4(RV, 'D', 'e', 'a', 'd'))
;
void h_body_get_state_name(void)
{
	struct body *body;
	WITNESS_ON(body_get_state_name);
	const char *r = body_get_state_name(body);
	if (w_sn == BODY_ST_CREATED) REACH("name of Created");
	if (w_sn == BODY_ST_RUNNING) REACH("name of Running");
	if (w_sn == BODY_ST_PAUSED) REACH("name of Paused");
	if (w_sn == BODY_ST_DEAD) REACH("name of Dead");
}
