/* C14 -- the contracts of version.h, shared by every c14_*.c harness: proved against the
 * real bodies in harness/c14_version.c (groups version_is_compatible, version_parse) and
 * used to REPLACE the calls in the groups of the callers (ovni_version_check_str,
 * should_enable, model_version_probe).  Included AFTER the real source file. */
#ifndef C14_VCONTRACT_C
#define C14_VCONTRACT_C

extern int __CPROVER_errno;

/* ---------------- version_is_compatible ---------------- */
int w_want0, w_want1, w_want2, w_have0, w_have1, w_have2, w_alias;
WITNESS(version_is_compatible);

/* Statement: "accepted exactly when its major number equals the provider's and its
 * minor number is not greater (patch ignored)". */
int c_version_is_compatible(int want[3], int have[3])
__CPROVER_requires(__CPROVER_is_fresh(want, 3 * sizeof(int)))
__CPROVER_requires(__CPROVER_pointer_equals(have, want) || __CPROVER_is_fresh(have, 3 * sizeof(int)))
__CPROVER_requires(WBIND(version_is_compatible,
	w_want0 == want[0] && w_want1 == want[1] && w_want2 == want[2] &&
	w_have0 == have[0] && w_have1 == have[1] && w_have2 == have[2] && w_alias == (want == have)))
__CPROVER_assigns()
__CPROVER_ensures(__CPROVER_return_value == (VP_COMPAT(want[0], want[1], have[0], have[1]) ? 1 : 0))
;

/* ---------------- version_parse ---------------- */
char w_str[VP_N];
int w_null;
/* the same bytes, one integer ghost each: the runner hands only integer-valued witnesses to the
 * native replay drivers (native/c14_replay_common.h rebuilds the string from W_C0..W_C15) */
int w_c0, w_c1, w_c2, w_c3, w_c4, w_c5, w_c6, w_c7, w_c8, w_c9, w_c10, w_c11, w_c12, w_c13, w_c14, w_c15;
/* (bound to the ghost copy w_str / w_req, not to the string again: no additional reads of the string) */
#define VP_BIND_INT(s) (w_c0 == (s)[0] && w_c1 == (s)[1] && w_c2 == (s)[2] && w_c3 == (s)[3] && w_c4 == (s)[4] && w_c5 == (s)[5] && \
	w_c6 == (s)[6] && w_c7 == (s)[7] && w_c8 == (s)[8] && w_c9 == (s)[9] && w_c10 == (s)[10] && w_c11 == (s)[11])
WITNESS(version_parse);
#define VP_BIND(version) (w_null == ((version) == NULL) && ((version) == NULL || ( \
	w_str[0] == (version)[0] && w_str[1] == (version)[1] && w_str[2] == (version)[2] && w_str[3] == (version)[3] && \
	w_str[4] == (version)[4] && w_str[5] == (version)[5] && w_str[6] == (version)[6] && w_str[7] == (version)[7] && \
	w_str[8] == (version)[8] && w_str[9] == (version)[9] && w_str[10] == (version)[10] && w_str[11] == (version)[11] && \
	VP_BIND_INT(w_str) VP_BIND_HI(version))))
#if VP_N == 12
#define VP_BIND_HI(version)
#elif VP_N == 16
#define VP_BIND_HI(version) && w_str[12] == (version)[12] && w_str[13] == (version)[13] && w_str[14] == (version)[14] && w_str[15] == (version)[15] && \
	w_c12 == w_str[12] && w_c13 == w_str[13] && w_c14 == w_str[14] && w_c15 == w_str[15]
#else
#error "VP_N must be 12 or 16"
#endif

/* Statement: "malformed version strings are refused" (and, implicitly, well-formed
 * ones are understood).  Accepted exactly when well-formed; the three numbers strtol
 * converted are exactly the three components of the grammar and tuple[] holds their
 * decimal values (predicates in c14_vspec.c).  The strings of the lenient-parser
 * finding are carved out (vp_pre) -- group version_parse_actual proves what happens
 * on them.
 * The SAME declaration replaces version_parse in the callers' groups: everything a
 * caller must establish (terminated string, carve-out) is then asserted there. */
int c_version_parse(const char *version, int tuple[3])
__CPROVER_requires(vp_pre(version))
__CPROVER_requires(__CPROVER_is_fresh(tuple, 3 * sizeof(int)))
__CPROVER_requires(DIAG_PRE_LEAF)
__CPROVER_requires(WBIND(version_parse, VP_BIND(version)))
__CPROVER_assigns(__CPROVER_object_whole(tuple), __CPROVER_errno, DIAG_FRAME, MODEL_FRAME)
__CPROVER_ensures(__CPROVER_return_value == 0 || __CPROVER_return_value == -1)
__CPROVER_ensures(vp_post_iff(version, __CPROVER_return_value))
__CPROVER_ensures(vp_post_numbers(version, __CPROVER_return_value, tuple))
__CPROVER_ensures(__CPROVER_return_value == 0 || g_err > __CPROVER_old(g_err))
/* at most one diagnostic (keeps the callers' counters in range across replaced calls) */
__CPROVER_ensures(g_err >= __CPROVER_old(g_err) && g_err - __CPROVER_old(g_err) <= 1u &&
	g_diag >= __CPROVER_old(g_diag) && g_diag - __CPROVER_old(g_diag) <= 1u && g_warn == __CPROVER_old(g_warn))
;

#endif
