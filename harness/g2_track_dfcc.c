/* C06 (gap G2) -- src/emu/track.c, the loop-free entry points, as DFCC contracts over the contracts of
 * mux_init / mux_set_input that are PROVED on the real mux.c in groups mux_init / mux_set_input
 * (harness/c06_track.c is included textually so that exactly those contract texts replace the calls):
 *   track_set_select: builds the track's own mux over (sel -> scratch channel) in the track's bay with
 *     the GIVEN selector (NULL = default selector by input index, used by CPU tracks) and the GIVEN
 *     number of inputs; on success the output of the track is the scratch channel; on refusal the
 *     output is left as it was.
 *   track_set_input: input `index` of the track's mux is the given channel (disabled cb_input callback).
 *     NOTE: neither track_set_input nor mux_set_input checks 0 <= index < ninputs; it is a precondition
 *     (callers: 0 of 1, thread gindex of nthreads).
 *   track_get_output: the recorded output, nothing written. */
#include "c06_track.c"

/* ---------------- track_set_select ---------------- */
WITNESS(track_set_select);
int w_fsel_null;
int c_track_set_select(struct track *track, struct chan *sel, mux_select_func_t fsel, int64_t ninputs)
__CPROVER_requires(__CPROVER_is_fresh(track, sizeof(*track)))
__CPROVER_requires(ninputs >= 0 && ninputs <= MAXIN && g_find_failed == 0 && g_addcb_failed == 0 && DIAG_PRE)
__CPROVER_requires(WBIND(track_set_select, w_nin == ninputs && w_fsel_null == (fsel == NULL) && w_same == (sel == &track->ch) && w_out_type == (int) track->ch.type))
__CPROVER_assigns(track->out, track->mux, track->ch.prop[CHAN_DIRTY_WRITE], track->ch.prop[CHAN_ALLOW_DUP], g_find_failed, ADDCB_FRAME, DIAG_FRAME)
__CPROVER_ensures(__CPROVER_return_value == 0 || (__CPROVER_return_value == -1 && g_err > __CPROVER_old(g_err)))
/* refused exactly when the mux cannot be built */
__CPROVER_ensures((__CPROVER_return_value != 0) == (track->ch.type != CHAN_SINGLE || sel == &track->ch || g_find_failed || g_addcb_failed ||
	(track->ch.type == CHAN_SINGLE && sel != &track->ch && !g_find_failed && track->mux.inputs == NULL)))
/* accepted: output = scratch channel, written by the track's mux, selected by sel through fsel */
__CPROVER_ensures(__CPROVER_return_value != 0 || (
	track->out == &track->ch && track->mux.bay == track->bay && track->mux.select == sel && track->mux.output == &track->ch &&
	track->mux.select_func == fsel && track->mux.ninputs == ninputs &&
	g_cb_func == cb_select && g_cb_arg == &track->mux && g_cb_chan == sel && g_cb_en == 1 && g_cb_type == BAY_CB_DIRTY &&
	track->ch.prop[CHAN_DIRTY_WRITE] == 1 && track->ch.prop[CHAN_ALLOW_DUP] == 1))
/* refused: the output is not redirected */
__CPROVER_ensures(__CPROVER_return_value == 0 || track->out == __CPROVER_old(track->out))
;
void h_track_set_select(void)
{
	struct track *track; struct chan *sel; mux_select_func_t fsel; int64_t ninputs;
	WITNESS_ON(track_set_select);
	int r = track_set_select(track, sel, fsel, ninputs);
	if (r == 0 && w_fsel_null && w_nin == 2) REACH("CPU track: default selector, two inputs");
	if (r == 0 && !w_fsel_null && w_nin == 1) REACH("thread track: given selector, one input");
	if (r != 0 && w_same) REACH("refused: select is the scratch channel");
	if (r != 0 && g_addcb_failed) REACH("refused: callback could not be added");
	if (r != 0 && g_find_failed) REACH("refused: channel not registered");
}

/* ---------------- track_set_input ---------------- */
WITNESS(track_set_input);
int c_track_set_input(struct track *track, int64_t index, struct chan *inp)
__CPROVER_requires(__CPROVER_is_fresh(track, sizeof(*track)))
__CPROVER_requires(track->mux.ninputs >= 1 && track->mux.ninputs <= MAXIN)
__CPROVER_requires(__CPROVER_is_fresh(track->mux.inputs, sizeof(struct mux_input) * (size_t) track->mux.ninputs))
__CPROVER_requires(index >= 0 && index < track->mux.ninputs && g_addcb_failed == 0 && DIAG_PRE)
__CPROVER_requires(WBIND(track_set_input, w_vi == index && w_taken == (track->mux.inputs[index].chan != NULL) && w_isout == (inp == track->mux.output)))
__CPROVER_assigns(track->mux.inputs[index], ADDCB_FRAME, DIAG_FRAME)
__CPROVER_ensures(__CPROVER_return_value == 0 || (__CPROVER_return_value == -1 && g_err > __CPROVER_old(g_err)))
__CPROVER_ensures((__CPROVER_return_value != 0) == (inp == track->mux.output || __CPROVER_old(track->mux.inputs[index].chan) != NULL || g_addcb_failed))
__CPROVER_ensures(__CPROVER_return_value != 0 || (track->mux.inputs[index].index == index && track->mux.inputs[index].chan == inp &&
	track->mux.inputs[index].output == track->mux.output && track->mux.inputs[index].cb == g_last_cb && g_last_cb != NULL))
__CPROVER_ensures(__CPROVER_return_value != 0 || (g_cb_func == cb_input && g_cb_arg == &track->mux.inputs[index] && g_cb_chan == inp && g_cb_type == BAY_CB_DIRTY && g_cb_en == 0))
;
void h_track_set_input(void)
{
	struct track *track; int64_t index; struct chan *inp;
	WITNESS_ON(track_set_input);
	int r = track_set_input(track, index, inp);
	if (r == 0 && w_vi == 0) REACH("input 0 set");
	if (r == 0 && w_vi == 5) REACH("input 5 set");
	if (r != 0 && w_taken) REACH("refused: slot taken");
	if (r != 0 && w_isout) REACH("refused: input is the output");
	if (r != 0 && g_addcb_failed) REACH("refused: callback could not be added");
}

/* ---------------- track_get_output ---------------- */
struct chan *c_track_get_output(struct track *track)
__CPROVER_requires(__CPROVER_is_fresh(track, sizeof(*track)))
__CPROVER_assigns()
__CPROVER_ensures(__CPROVER_return_value == track->out)
;
void h_track_get_output(void)
{
	struct track *track;
	struct chan *o = track_get_output(track);
	if (o == NULL) REACH("no output yet");
	if (o != NULL) REACH("output recorded");
}
