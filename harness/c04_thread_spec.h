/* C04 -- thread-level spec predicates and the caller-facing contracts of
 * thread_set_state / thread_set_cpu / thread_unset_cpu / thread_migrate_cpu.
 * These contracts are ENFORCED on the real thread.c (harness/c04_thread.c) and
 * REPLACE the calls in the ovni/event.c groups (harness/c04_event.c).
 * Self-contained: no pre-state ghost is used in any ensures. */
#ifndef C04_THREAD_SPEC_H
#define C04_THREAD_SPEC_H

#include "c04_spec.h"
#include "thread.h"
#include "cpu.h"

/* ---- the state machine of the property statement ---- */
#define ST_ACTIVE(s)  ((s) == TH_ST_RUNNING || (s) == TH_ST_COOLING || (s) == TH_ST_WARMING)
#define ST_HAS_CPU(s) ((s) == TH_ST_RUNNING || (s) == TH_ST_PAUSED || (s) == TH_ST_COOLING || (s) == TH_ST_WARMING)
#define ST_VALID(s)   ((int)(s) >= TH_ST_UNKNOWN && (int)(s) <= TH_ST_WARMING)

/* TH_WF: the redundant fields agree with the state */
#define TH_WF(th) (ST_VALID((th)->state) && \
	((th)->is_running != 0) == ((th)->state == TH_ST_RUNNING) && \
	((th)->is_active != 0) == ST_ACTIVE((th)->state) && \
	((th)->cpu != NULL) == ST_HAS_CPU((th)->state))

/* values the three channels are given */
#define TIDV_T(th, s) (ST_ACTIVE(s) ? VALUE_INT64 : VALUE_NULL)
#define TIDV_I(th, s) (ST_ACTIVE(s) ? (int64_t)(th)->tid : (int64_t)0)

#define CH_ST(th)  (&(th)->chan[TH_CHAN_STATE])
#define CH_TID(th) (&(th)->chan[TH_CHAN_TID])
#define CH_CPU(th) (&(th)->chan[TH_CHAN_CPU])
#define D_ST0  __CPROVER_old(th->chan[TH_CHAN_STATE].is_dirty)
#define D_TID0 __CPROVER_old(th->chan[TH_CHAN_TID].is_dirty)
#define D_CPU0 __CPROVER_old(th->chan[TH_CHAN_CPU].is_dirty)

#define CB_FAILED (g_cb_fails != __CPROVER_old(g_cb_fails))
#define RET __CPROVER_return_value
/* counters only grow; a failure is the failure of a call; at most one call fails (the function stops there) */
#define CB_DELTA_OK (g_cb_calls >= __CPROVER_old(g_cb_calls) && g_cb_fails >= __CPROVER_old(g_cb_fails) && \
	g_cb_fails - __CPROVER_old(g_cb_fails) <= 1u && \
	g_cb_fails - __CPROVER_old(g_cb_fails) <= g_cb_calls - __CPROVER_old(g_cb_calls))

WITNESS(thread_set_state);
WITNESS(thread_set_cpu);
WITNESS(thread_unset_cpu);
WITNESS(thread_migrate_cpu);
int w_has_cpu, w_newstate, w_oldstate, w_tid, w_cpu_null;
int w_st_dirty, w_tid_dirty, w_cpu_dirty;
long w_gindex;
/* replay witnesses: the whole pre-state of the channels the function writes, and the
 * (possibly inconsistent) redundant flags of the thread */
#define W_CHAN_DECL(p) int w_##p##_type, w_##p##_dw, w_##p##_ad, w_##p##_id, w_##p##_hascb; long w_##p##_ltype, w_##p##_li
#define W_CHAN_BIND(p, c) (w_##p##_type == (int) (c)->type && w_##p##_dw == (c)->prop[CHAN_DIRTY_WRITE] && \
	w_##p##_ad == (c)->prop[CHAN_ALLOW_DUP] && w_##p##_id == (c)->prop[CHAN_IGNORE_DUP] && \
	w_##p##_hascb == ((c)->dirty_cb != NULL) && w_##p##_ltype == (c)->last_value.type && w_##p##_li == (c)->last_value.i)
W_CHAN_DECL(stc); W_CHAN_DECL(tidc); W_CHAN_DECL(cpuc);
int w_old_running, w_old_active;

/* ---------------- thread_set_state ---------------- */
int cr_thread_set_state(struct thread *th, enum thread_state state)
__CPROVER_requires(__CPROVER_is_fresh(th, sizeof(*th)) && CH_CB_OK(CH_ST(th)) && CH_CB_OK(CH_TID(th)) && CNT_PRE(2000000u))
__CPROVER_requires(WBIND(thread_set_state, w_has_cpu == (th->cpu != NULL) && w_newstate == (int) state &&
	w_oldstate == (int) th->state && w_tid == th->tid &&
	w_st_dirty == th->chan[TH_CHAN_STATE].is_dirty && w_tid_dirty == th->chan[TH_CHAN_TID].is_dirty &&
	w_old_running == th->is_running && w_old_active == th->is_active &&
	W_CHAN_BIND(stc, CH_ST(th)) && W_CHAN_BIND(tidc, CH_TID(th))))
__CPROVER_assigns(th->cpu != NULL: th->state, th->is_running, th->is_active)
__CPROVER_assigns(th->cpu != NULL && CH_WRITES(CH_ST(th), th->chan[TH_CHAN_STATE].is_dirty, VALUE_INT64, state):
	th->chan[TH_CHAN_STATE].is_dirty, th->chan[TH_CHAN_STATE].data.value)
/* (no ?: allowed in assigns conditions: the tid value is split in its two cases) */
__CPROVER_assigns(th->cpu != NULL && ST_ACTIVE(state) && CH_WRITES(CH_TID(th), th->chan[TH_CHAN_TID].is_dirty, VALUE_INT64, th->tid):
	th->chan[TH_CHAN_TID].is_dirty, th->chan[TH_CHAN_TID].data.value)
__CPROVER_assigns(th->cpu != NULL && !ST_ACTIVE(state) && CH_WRITES(CH_TID(th), th->chan[TH_CHAN_TID].is_dirty, VALUE_NULL, 0):
	th->chan[TH_CHAN_TID].is_dirty, th->chan[TH_CHAN_TID].data.value)
__CPROVER_assigns(g_cb_calls, g_cb_fails, DIAG_FRAME)
__CPROVER_ensures(RET == 0 || RET == -1)
/* exact refusal condition: no CPU, or one of the two channels refuses the value, or a dirty callback failed */
__CPROVER_ensures((RET != 0) == (th->cpu == NULL ||
	CH_REFUSES(CH_ST(th), D_ST0, VALUE_INT64, state) ||
	CH_REFUSES(CH_TID(th), D_TID0, TIDV_T(th, state), TIDV_I(th, state)) || CB_FAILED))
__CPROVER_ensures((RET == 0 ? g_err == __CPROVER_old(g_err) : g_err > __CPROVER_old(g_err)) && DIAG_POST(3))
/* with a CPU: the state is stored and the redundant flags are exactly the documented sets */
__CPROVER_ensures(th->cpu == NULL || (th->state == state &&
	th->is_running == (state == TH_ST_RUNNING ? 1 : 0) &&
	th->is_active == (ST_ACTIVE(state) ? 1 : 0)))
/* accepted: the state channel holds int64(state), the tid channel holds tid iff active else null
 * (or the set was a duplicate of the last flushed value and was ignored: channel untouched by the frame) */
__CPROVER_ensures(RET != 0 || ((CH_IGNORES(CH_ST(th), D_ST0, VALUE_INT64, state) || (CH_HOLDS(CH_ST(th), VALUE_INT64, state) && th->chan[TH_CHAN_STATE].is_dirty != 0)) &&
	(CH_IGNORES(CH_TID(th), D_TID0, TIDV_T(th, state), TIDV_I(th, state)) ||
	 (CH_HOLDS(CH_TID(th), TIDV_T(th, state), TIDV_I(th, state)) && th->chan[TH_CHAN_TID].is_dirty != 0))))
/* dirty callbacks: at most one per channel that stores a value, none without a CPU; at most one fails */
__CPROVER_ensures(CB_DELTA_OK && g_cb_calls - __CPROVER_old(g_cb_calls) <= 
	(th->cpu != NULL && CH_CALLS(CH_ST(th), D_ST0, VALUE_INT64, state) ? 1u : 0u) +
	(th->cpu != NULL && CH_CALLS(CH_TID(th), D_TID0, TIDV_T(th, state), TIDV_I(th, state)) ? 1u : 0u))
__CPROVER_ensures(RET != 0 || g_cb_calls - __CPROVER_old(g_cb_calls) ==
	(CH_CALLS(CH_ST(th), D_ST0, VALUE_INT64, state) ? 1u : 0u) +
	(CH_CALLS(CH_TID(th), D_TID0, TIDV_T(th, state), TIDV_I(th, state)) ? 1u : 0u))
;

/* ---------------- thread_set_cpu ---------------- */
int cr_thread_set_cpu(struct thread *th, struct cpu *cpu)
__CPROVER_requires(__CPROVER_is_fresh(th, sizeof(*th)) && (cpu == NULL || __CPROVER_is_fresh(cpu, sizeof(*cpu))))
__CPROVER_requires(CH_CB_OK(CH_CPU(th)) && CNT_PRE(2000000u))
__CPROVER_requires(WBIND(thread_set_cpu, w_has_cpu == (th->cpu != NULL) && w_cpu_null == (cpu == NULL) &&
	w_cpu_dirty == th->chan[TH_CHAN_CPU].is_dirty && (cpu == NULL || w_gindex == cpu->gindex) && W_CHAN_BIND(cpuc, CH_CPU(th))))
__CPROVER_assigns(cpu != NULL && th->cpu == NULL: th->cpu)
__CPROVER_assigns(cpu != NULL && th->cpu == NULL && CH_WRITES(CH_CPU(th), th->chan[TH_CHAN_CPU].is_dirty, VALUE_INT64, cpu->gindex):
	th->chan[TH_CHAN_CPU].is_dirty, th->chan[TH_CHAN_CPU].data.value)
__CPROVER_assigns(g_cb_calls, g_cb_fails, DIAG_FRAME)
__CPROVER_ensures(RET == 0 || RET == -1)
/* exact refusal condition */
__CPROVER_ensures((RET != 0) == (cpu == NULL || __CPROVER_old(th->cpu) != NULL ||
	CH_REFUSES(CH_CPU(th), D_CPU0, VALUE_INT64, cpu->gindex) || CB_FAILED))
__CPROVER_ensures((RET == 0 ? g_err == __CPROVER_old(g_err) : g_err > __CPROVER_old(g_err)) && DIAG_POST(3))
/* effect on th->cpu (the refused cases leave it alone by the frame) */
/* (pointer_equals, not ==: pitfall 1 -- callers dereference th->cpu after the replaced call) */
__CPROVER_ensures(cpu == NULL || __CPROVER_old(th->cpu) != NULL || __CPROVER_pointer_equals(th->cpu, cpu))
/* accepted: the cpu channel holds the global index of the CPU */
__CPROVER_ensures(RET != 0 || CH_IGNORES(CH_CPU(th), D_CPU0, VALUE_INT64, cpu->gindex) ||
	(CH_HOLDS(CH_CPU(th), VALUE_INT64, cpu->gindex) && th->chan[TH_CHAN_CPU].is_dirty != 0))
/* the dirty callback runs exactly when the channel stores the value and was clean */
__CPROVER_ensures(CB_DELTA_OK && g_cb_calls - __CPROVER_old(g_cb_calls) == ((cpu != NULL && __CPROVER_old(th->cpu) == NULL && CH_CALLS(CH_CPU(th), D_CPU0, VALUE_INT64, cpu->gindex)) ? 1u : 0u))
;

/* ---------------- thread_unset_cpu ---------------- */
int cr_thread_unset_cpu(struct thread *th)
__CPROVER_requires(__CPROVER_is_fresh(th, sizeof(*th)))
__CPROVER_requires(CH_CB_OK(CH_CPU(th)) && CNT_PRE(2000000u))
__CPROVER_requires(WBIND(thread_unset_cpu, w_has_cpu == (th->cpu != NULL) && w_cpu_dirty == th->chan[TH_CHAN_CPU].is_dirty &&
	W_CHAN_BIND(cpuc, CH_CPU(th))))
__CPROVER_assigns(th->cpu != NULL: th->cpu)
__CPROVER_assigns(th->cpu != NULL && CH_WRITES(CH_CPU(th), th->chan[TH_CHAN_CPU].is_dirty, VALUE_NULL, 0):
	th->chan[TH_CHAN_CPU].is_dirty, th->chan[TH_CHAN_CPU].data.value)
__CPROVER_assigns(g_cb_calls, g_cb_fails, DIAG_FRAME)
__CPROVER_ensures(RET == 0 || RET == -1)
__CPROVER_ensures((RET != 0) == (__CPROVER_old(th->cpu) == NULL ||
	CH_REFUSES(CH_CPU(th), D_CPU0, VALUE_NULL, 0) || CB_FAILED))
__CPROVER_ensures((RET == 0 ? g_err == __CPROVER_old(g_err) : g_err > __CPROVER_old(g_err)) && DIAG_POST(3))
__CPROVER_ensures(th->cpu == NULL)
__CPROVER_ensures(RET != 0 || CH_IGNORES(CH_CPU(th), D_CPU0, VALUE_NULL, 0) ||
	(CH_HOLDS(CH_CPU(th), VALUE_NULL, 0) && th->chan[TH_CHAN_CPU].is_dirty != 0))
/* the dirty callback runs exactly when the channel stores the value and was clean */
__CPROVER_ensures(CB_DELTA_OK && g_cb_calls - __CPROVER_old(g_cb_calls) == ((__CPROVER_old(th->cpu) != NULL && CH_CALLS(CH_CPU(th), D_CPU0, VALUE_NULL, 0)) ? 1u : 0u))
;

/* ---------------- thread_migrate_cpu ---------------- */
int cr_thread_migrate_cpu(struct thread *th, struct cpu *cpu)
__CPROVER_requires(__CPROVER_is_fresh(th, sizeof(*th)) && __CPROVER_is_fresh(cpu, sizeof(*cpu)))
__CPROVER_requires(CH_CB_OK(CH_CPU(th)) && CNT_PRE(2000000u))
__CPROVER_requires(WBIND(thread_migrate_cpu, w_has_cpu == (th->cpu != NULL) &&
	w_cpu_dirty == th->chan[TH_CHAN_CPU].is_dirty && w_gindex == cpu->gindex && W_CHAN_BIND(cpuc, CH_CPU(th))))
__CPROVER_assigns(th->cpu != NULL: th->cpu)
__CPROVER_assigns(th->cpu != NULL && CH_WRITES(CH_CPU(th), th->chan[TH_CHAN_CPU].is_dirty, VALUE_INT64, cpu->gindex):
	th->chan[TH_CHAN_CPU].is_dirty, th->chan[TH_CHAN_CPU].data.value)
__CPROVER_assigns(g_cb_calls, g_cb_fails, DIAG_FRAME)
__CPROVER_ensures(RET == 0 || RET == -1)
__CPROVER_ensures((RET != 0) == (__CPROVER_old(th->cpu) == NULL ||
	CH_REFUSES(CH_CPU(th), D_CPU0, VALUE_INT64, cpu->gindex) || CB_FAILED))
__CPROVER_ensures((RET == 0 ? g_err == __CPROVER_old(g_err) : g_err > __CPROVER_old(g_err)) && DIAG_POST(3))
__CPROVER_ensures((__CPROVER_old(th->cpu) == NULL && th->cpu == NULL) || (__CPROVER_old(th->cpu) != NULL && __CPROVER_pointer_equals(th->cpu, cpu)))
__CPROVER_ensures(RET != 0 || CH_IGNORES(CH_CPU(th), D_CPU0, VALUE_INT64, cpu->gindex) ||
	(CH_HOLDS(CH_CPU(th), VALUE_INT64, cpu->gindex) && th->chan[TH_CHAN_CPU].is_dirty != 0))
/* the dirty callback runs exactly when the channel stores the value and was clean */
__CPROVER_ensures(CB_DELTA_OK && g_cb_calls - __CPROVER_old(g_cb_calls) == ((__CPROVER_old(th->cpu) != NULL && CH_CALLS(CH_CPU(th), D_CPU0, VALUE_INT64, cpu->gindex)) ? 1u : 0u))
;

#endif
