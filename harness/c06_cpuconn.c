/* C06 -- CPU view wiring (src/emu/model_cpu.c connect_cpu): for every model channel i the CPU
 * mux is selected by the CPU's RUNNING-thread channel (so the CPU shows "the value belonging
 * to the unique running thread bound to it"), has one input slot per thread of the system, and
 * input number gindex(t) is channel i of thread t.  Bounded: 2 channels x 2 threads.
 * Assume/assert harness on the real code (plain CBMC); track.c is another unit: its two entry
 * points are logging stubs with arbitrary result. */
#include "prelude.h"
#include "track.h"
#include "cpu.h"
#include "thread.h"
#include "emu.h"
#include "model_cpu.h"
#include "model_thread.h"
#include "model_chan.h"

#define NLOG 8
struct track *g_sel_track[NLOG]; struct chan *g_sel_chan[NLOG]; mux_select_func_t g_sel_f[NLOG]; int64_t g_sel_n[NLOG]; int g_nsel;
struct track *g_in_track[NLOG]; int64_t g_in_idx[NLOG]; struct chan *g_in_chan[NLOG]; int g_nin;
int g_callee_failed;

int track_set_select(struct track *track, struct chan *sel, mux_select_func_t fsel, int64_t ninputs)
{
	if (g_nsel < NLOG) { g_sel_track[g_nsel] = track; g_sel_chan[g_nsel] = sel; g_sel_f[g_nsel] = fsel; g_sel_n[g_nsel] = ninputs; }
	g_nsel++;
	int r = nondet_int();
	if (r != 0) g_callee_failed = 1;
	return r;
}
int track_set_input(struct track *track, int64_t index, struct chan *inp)
{
	if (g_nin < NLOG) { g_in_track[g_nin] = track; g_in_idx[g_nin] = index; g_in_chan[g_nin] = inp; }
	g_nin++;
	int r = nondet_int();
	if (r != 0) g_callee_failed = 1;
	return r;
}
/* cpu.c is another unit: cpu_get_th_chan's contract (returns &cpu->chan[CPU_CHAN_THRUN]) is
 * proved on the real cpu.c in group cpu_get_th_chan; this is that contract, executable */
struct chan *cpu_get_th_chan(struct cpu *cpu) { return &cpu->chan[CPU_CHAN_THRUN]; }

#include "extend.c"
#include "model_cpu.c"

#ifdef H_CONNECT_CPU
void h_connect_cpu(void)
{
	struct emu *emu = malloc(sizeof(*emu));
	struct cpu *scpu = malloc(sizeof(*scpu));
	struct thread *t0 = malloc(sizeof(*t0)), *t1 = malloc(sizeof(*t1));
	struct model_cpu *mcpu = malloc(sizeof(*mcpu));
	struct model_thread *mt0 = malloc(sizeof(*mt0)), *mt1 = malloc(sizeof(*mt1));
	struct model_cpu_spec *spec = malloc(sizeof(*spec));
	struct model_chan_spec *cspec = malloc(sizeof(*cspec));
	__CPROVER_assume(emu && scpu && t0 && t1 && mcpu && mt0 && mt1 && spec && cspec);
	static struct track tracks[2];
	static struct chan ch0[2], ch1[2];
	int modes[2]; modes[0] = nondet_int(); modes[1] = nondet_int();
	int id = nondet_uchar();
	int nch = nondet_int(); __CPROVER_assume(nch >= 0 && nch <= 2);
	cspec->nch = nch; cspec->track = modes;
	spec->chan = cspec;
	mcpu->spec = spec; mcpu->track = tracks;
	scpu->ext.ctx[id] = mcpu;
	mt0->ch = ch0; mt1->ch = ch1;
	t0->ext.ctx[id] = mt0; t1->ext.ctx[id] = mt1;
	int nth = nondet_int(); __CPROVER_assume(nth >= 0 && nth <= 2);
	t0->gnext = (nth == 2) ? t1 : NULL; t1->gnext = NULL;
	t0->gindex = 0; t1->gindex = 1;
	emu->system.threads = (nth >= 1) ? t0 : NULL;
	emu->system.nthreads = (size_t) nth;
	g_nsel = 0; g_nin = 0; g_callee_failed = 0; g_err = 0;

	int r = connect_cpu(emu, scpu, id);

	int all_run = (nch < 1 || modes[0] == TRACK_TH_RUN) && (nch < 2 || modes[1] == TRACK_TH_RUN);
	VASSERT((r == 0) == (all_run && !g_callee_failed), "connect_cpu accepted iff every channel tracks TH_RUN and track.c accepted");
	VASSERT(r == 0 || g_err > 0, "a refusal is diagnosed");
	if (r == 0) {
		VASSERT(g_nsel == nch && g_nin == nch * nth, "one select per channel, one input per (channel, thread)");
		for (int i = 0; i < 2; i++) {
			if (i >= nch) continue;
			VASSERT(g_sel_track[i] == &tracks[i], "select set on the track of channel i");
			VASSERT(g_sel_chan[i] == &scpu->chan[CPU_CHAN_THRUN], "the CPU mux is selected by the CPU's RUNNING-thread channel");
			VASSERT(g_sel_f[i] == NULL && g_sel_n[i] == (int64_t) nth, "default selector, one slot per thread of the system");
			for (int k = 0; k < 2; k++) {
				if (k >= nth) continue;
				int j = i * nth + k;
				VASSERT(g_in_track[j] == &tracks[i] && g_in_idx[j] == k, "input slot gindex(t) of the track of channel i");
				VASSERT(g_in_chan[j] == (k == 0 ? &ch0[i] : &ch1[i]), "input gindex(t) is channel i of thread t");
			}
		}
		REACH("connect_cpu accepted");
		if (nch == 2 && nth == 2) REACH("two channels, two threads");
	} else {
		REACH("connect_cpu refused");
	}
}
#endif
