/* C13 -- recording rebinding of fprintf for the Paraver writers (prv.c, prf.c, pcf.c).
 *
 * The prelude drops fprintf to a call counter.  For C13 the *arguments* are the observable
 * output (row, time, type, value of a PRV line; duration of the header; label of a .row line),
 * so this header rebinds fprintf -- by macro, in the harness TU only, AFTER prelude.h -- to a
 * fixed-arity recorder c13_print(nargs, file, fmt, a, b, c, d) that each harness defines before
 * including the real unit.  Formatting itself stays dropped (trusted: "fprintf prints its
 * arguments according to the format"); what is kept is which call was made, on which FILE, with
 * which format string and which integer/pointer arguments (converted to long: LP64).
 * DFCC cannot instrument variadic calls, hence the dispatch on the argument count. */
#ifndef C13_IO_H
#define C13_IO_H

_Static_assert(sizeof(long) == 8 && sizeof(void *) == 8 && sizeof(long long) == 8, "LP64");

static int c13_print(int nargs, FILE *f, const char *fmt, long a, long b, long c, long d);

#define C13_PICK(_1, _2, _3, _4, _5, _6, NAME, ...) NAME
#define c13_fp1(f)                   c13_print(1, (f), "", 0, 0, 0, 0)
#define c13_fp2(f, fmt)              c13_print(2, (f), (fmt), 0, 0, 0, 0)
#define c13_fp3(f, fmt, a)           c13_print(3, (f), (fmt), (long) (a), 0, 0, 0)
#define c13_fp4(f, fmt, a, b)        c13_print(4, (f), (fmt), (long) (a), (long) (b), 0, 0)
#define c13_fp5(f, fmt, a, b, c)     c13_print(5, (f), (fmt), (long) (a), (long) (b), (long) (c), 0)
#define c13_fp6(f, fmt, a, b, c, d)  c13_print(6, (f), (fmt), (long) (a), (long) (b), (long) (c), (long) (d))
#undef fprintf
#define fprintf(...) C13_PICK(__VA_ARGS__, c13_fp6, c13_fp5, c13_fp4, c13_fp3, c13_fp2, c13_fp1)(__VA_ARGS__)

/* lower-layer failures (calloc returns NULL, snprintf truncates, bay_add_cb fails, fopen fails):
 * counted, so that "refused although legal" is tied to them exactly */
unsigned g_lowfail;
#define LOW_PRE (g_lowfail < 1000000u)

void *calloc(size_t n, size_t sz)
{
	if (nondet_bool()) { g_lowfail++; return NULL; }
	size_t tot = n * sz;
	if (n != 0 && tot / n != sz) { g_lowfail++; return NULL; }
	/* zero-initialised object of tot bytes (what CBMC's own calloc model does) */
	return __CPROVER_allocate(tot, 1);
}

/* snprintf: any non-negative length (prelude stub); a length that does not fit is a lower-layer
 * failure ("label too long"); the returned length is kept in g_snp_ret */
int g_snp_ret;
unsigned g_snp_n;
static inline int c13_snprintf(char *s, size_t n)
{
	int r = verif_snprintf(s, n);
	g_snp_ret = r;
	g_snp_n++;
	if (n > 0 && (size_t) r >= n) g_lowfail++;
	return r;
}
#undef snprintf
#define snprintf(s, n, ...) c13_snprintf((s), (n))

/* uthash insertion is not verified: rebound to a ghost log (same idiom as C07) */
#include "uthash.h"
unsigned g_hadd_n;          /* number of hash insertions so far */
void *g_hadd_head;          /* &head of the last insertion */
void *g_hadd_item;          /* item of the last insertion */
long g_hadd_key;            /* key of the last insertion */
#undef HASH_ADD_INT
#undef HASH_ADD_LONG
#define C13_HADD(head, field, add) { g_hadd_n++; g_hadd_head = (void *) &(head); \
	g_hadd_item = (void *) (add); g_hadd_key = (long) (add)->field; if ((head) == NULL) (head) = (add); }
#define HASH_ADD_INT(head, field, add) C13_HADD(head, field, add)
#define HASH_ADD_LONG(head, field, add) C13_HADD(head, field, add)
#define HLOG_PRE (g_hadd_n < 1000000u)
#define HLOG_FRAME g_hadd_n, g_hadd_head, g_hadd_item, g_hadd_key

#define RV __CPROVER_return_value
#define OLD(x) __CPROVER_old(x)

#endif
