/* C04 -- thread.c: exact contracts of thread_set_state / set_cpu / unset_cpu /
 * migrate_cpu on the real file; chan_set is replaced by cr_chan_set (proved in
 * group chan_set on the real chan.c). */
#include "prelude.h"
#include "c04_thread_spec.h"
#include "thread.c"        /* the real /repo/src/emu/thread.c */

void h_thread_set_state(void)
{
	struct thread *th; enum thread_state state;
	WITNESS_ON(thread_set_state); WITNESS_OFF(chan_set);
	unsigned c0 = g_cb_calls;
	int r = thread_set_state(th, state);
	if (r == 0 && w_newstate == TH_ST_DEAD) REACH("set_state DEAD accepted");
	if (r == 0 && g_cb_calls == c0) REACH("set_state accepted, nothing stored (both duplicates ignored)");
	if (r != 0 && w_has_cpu && g_cb_calls == c0) REACH("set_state refused by a channel");
	if (r == 0 && g_cb_calls == c0 + 2) REACH("set_state accepted, both channels became dirty");
	if (r != 0 && !w_has_cpu) REACH("set_state refused: no cpu");
	if (r != 0 && w_has_cpu && g_cb_calls == c0 + 2) REACH("set_state refused by the second callback");
}

void h_thread_set_cpu(void)
{
	struct thread *th; struct cpu *cpu;
	WITNESS_ON(thread_set_cpu); WITNESS_OFF(chan_set);
	int r = thread_set_cpu(th, cpu);
	if (r == 0) REACH("set_cpu accepted");
	if (r != 0 && w_cpu_null) REACH("set_cpu refused: NULL cpu");
	if (r != 0 && !w_cpu_null && w_has_cpu) REACH("set_cpu refused: already has a cpu");
	if (r != 0 && !w_cpu_null && !w_has_cpu) REACH("set_cpu refused by the channel");
}

void h_thread_unset_cpu(void)
{
	struct thread *th;
	WITNESS_ON(thread_unset_cpu); WITNESS_OFF(chan_set);
	int r = thread_unset_cpu(th);
	if (r == 0) REACH("unset_cpu accepted");
	if (r != 0 && !w_has_cpu) REACH("unset_cpu refused: no cpu");
	if (r != 0 && w_has_cpu) REACH("unset_cpu refused by the channel");
}

void h_thread_migrate_cpu(void)
{
	struct thread *th; struct cpu *cpu;
	WITNESS_ON(thread_migrate_cpu); WITNESS_OFF(chan_set);
	int r = thread_migrate_cpu(th, cpu);
	if (r == 0) REACH("migrate_cpu accepted");
	if (r != 0 && !w_has_cpu) REACH("migrate_cpu refused: no cpu");
	if (r != 0 && w_has_cpu) REACH("migrate_cpu refused by the channel");
}

/* ---- base case of the invariant: a thread starts not started, with no CPU ---- */
int w_init_tid;
WITNESS(thread_init_begin);
int c_thread_init_begin(struct thread *thread, int tid)
__CPROVER_requires(__CPROVER_is_fresh(thread, sizeof(*thread)) && DIAG_PRE)
__CPROVER_requires(WBIND(thread_init_begin, w_init_tid == tid))
__CPROVER_assigns(__CPROVER_object_whole(thread), DIAG_FRAME)
__CPROVER_ensures(RET == 0 || RET == -1)
__CPROVER_ensures(thread->state == TH_ST_UNKNOWN && thread->cpu == NULL && thread->is_running == 0 &&
	thread->is_active == 0 && thread->tid == tid && TH_WF(thread))
;
void h_thread_init_begin(void)
{
	struct thread *thread; int tid;
	WITNESS_ON(thread_init_begin); WITNESS_OFF(chan_set);
	int r = thread_init_begin(thread, tid);
	if (r == 0) REACH("thread_init_begin succeeds");
	if (r != 0) REACH("thread_init_begin fails (id too long)");
}
