/* C19 -- ev_spec.c print path (ovnidump, ovniemu -d): for an arbitrary compiled event
 * definition satisfying SPEC_WF, an arbitrary description string of ANY length, an
 * arbitrary output buffer size and an arbitrary event whose payload holds the declared
 * arguments (what check_payload guarantees, c19_model.c):
 *   - every payload read of print_arg lies inside payload[0..payload_size)  (byte-exact,
 *     checked in the memcpy wrapper);
 *   - nothing is written outside outbuf[0..outlen);
 *   - the description is never read past its terminator;
 *   - ev_spec_print terminates (decreases clause: remaining description).  */
#include "prelude.h"
#include "emu_ev.h"

const uint8_t *g_payload; unsigned long g_psize;   /* bound in requires */
#define IN_PAYLOAD(p, n) (!__CPROVER_same_object((p), g_payload) || \
	((const uint8_t *) (p) >= g_payload && (n) <= g_psize && \
	 (unsigned long) ((const uint8_t *) (p) - g_payload) <= g_psize - (n)))
unsigned g_payload_reads;
static inline void *c19_memcpy(void *d, const void *s, size_t n)
{
	__CPROVER_assert(g_payload != NULL && __CPROVER_same_object(s, g_payload), "print_arg copies from the payload object");
	__CPROVER_assert(IN_PAYLOAD(s, n), "memcpy source inside payload[0..payload_size)");
	g_payload_reads++;
	return (memcpy)(d, s, n);
}
/* TRUSTED glibc: isalnum()/isgraph() index a table valid for -128..255; arbitrary content */
static unsigned short c19_ctype_tab[384];
static const unsigned short *c19_ctype_ptr = &c19_ctype_tab[128];
const unsigned short **__ctype_b_loc(void) { return &c19_ctype_ptr; }
#define memcpy(d, s, n) c19_memcpy((d), (s), (n))
#include "ev_spec.c"       /* the real /repo/src/emu/ev_spec.c */
#undef memcpy
#include "c19_evwf.h"
#include "c19_specwf.h"

#define RET __CPROVER_return_value

/* the description: a C string of arbitrary length g_dlen (object of g_dlen+1 bytes, NUL at
 * g_dlen; earlier NULs allowed); the output buffer: g_outlen bytes */
unsigned long g_dlen; const char *g_desc; char *g_outbuf; int g_outlen;
struct ev_spec *g_spec; int w_outlen;
#define C19_MAX_DESC (1UL << 40)

/* cursor invariant: in points into the description (at most at its last NUL), out/len
 * describe the unwritten tail of outbuf[0..outlen-1), one byte always left for the NUL */
#define CURSOR_WF(c) ( \
	__CPROVER_same_object((c)->in, g_desc) && (c)->in >= g_desc && (c)->in <= g_desc + g_dlen && \
	(c)->len >= 0 && (c)->len <= g_outlen - 1 && (c)->out == g_outbuf + (g_outlen - 1 - (c)->len))

/* (shape clauses with is_fresh are kept apart from the pure value predicates: a long
 * short-circuit chain in front of an is_fresh call makes symbolic execution explode) */
#define PRINT_SHAPE(spec, ev) (__CPROVER_is_fresh(spec, sizeof(struct ev_spec)) && EMU_EV_WF(ev))
#define PRINT_VALS(spec, ev) (SPEC_WF(spec) && (spec)->payload_size <= (ev)->payload_size && STRINGS_INSIDE(spec, (ev)->payload_size) && \
	g_payload == (const uint8_t *) (ev)->payload && g_psize == (ev)->payload_size)

/* ---------------- ev_spec_find_arg (bounded: names are 64-byte arrays) ---------------- */
int g_arg_k;   /* index of the argument returned by ev_spec_find_arg */
struct ev_arg *cr_ev_spec_find_arg(struct ev_spec *spec, const char *name)
__CPROVER_requires(spec != NULL && spec->nargs >= 0 && spec->nargs <= MAX_ARGS && name != NULL)
__CPROVER_assigns(g_arg_k)
__CPROVER_ensures(RET == NULL || (g_arg_k >= 0 && g_arg_k < spec->nargs && __CPROVER_pointer_equals(RET, &spec->args[g_arg_k])))
;
int w_nargs;
WITNESS(ev_spec_find_arg);
struct ev_arg *c_ev_spec_find_arg(struct ev_spec *spec, const char *name)
__CPROVER_requires(__CPROVER_is_fresh(spec, sizeof(*spec)) && spec->nargs >= 0 && spec->nargs <= MAX_ARGS)
__CPROVER_requires(SPEC_NAMES_TERMINATED(spec))
__CPROVER_requires(__CPROVER_is_fresh(name, 64) && name[63] == 0)
__CPROVER_requires(WBIND(ev_spec_find_arg, w_nargs == spec->nargs))
__CPROVER_assigns(g_arg_k)
__CPROVER_ensures(RET == NULL || (__CPROVER_same_object(RET, spec) && RET >= &spec->args[0] && RET < &spec->args[0] + spec->nargs &&
	((const char *) RET - (const char *) &spec->args[0]) % sizeof(struct ev_arg) == 0))
;
void h_ev_spec_find_arg(void)
{
	struct ev_spec *spec; const char *name;
	WITNESS_ON(ev_spec_find_arg);
	struct ev_arg *a = ev_spec_find_arg(spec, name);
	if (a != NULL) REACH("argument found");
	if (a == NULL && w_nargs == MAX_ARGS) REACH("argument not found among 16");
}

/* ---------------- print_arg: the only reader of the payload in the print path ---------------- */
int g_k; int g_len0p; unsigned w_type; unsigned long w_off, w_spec_psize, w_ev_psize;
WITNESS(print_arg);
int c_print_arg(struct ev_arg *arg, const char *fmt, struct cursor *c, struct emu_ev *ev)
__CPROVER_requires(PRINT_SHAPE(g_spec, ev))
/* arg is one of the declared arguments of the definition; only ITS well-formedness is needed:
 * it lies inside the declared payload, which the event's payload holds (check_payload) */
__CPROVER_requires(g_k >= 0 && g_k < g_spec->nargs && g_spec->nargs <= MAX_ARGS && __CPROVER_pointer_equals(arg, &g_spec->args[g_k]))
__CPROVER_requires(ARG_WF(g_spec, g_k) != 0 && STR_IN(g_spec, g_k, ev->payload_size) != 0 && g_spec->payload_size <= ev->payload_size)
__CPROVER_requires(g_payload == (const uint8_t *) ev->payload && g_psize == ev->payload_size && DIAG_PRE && g_payload_reads == 0)
__CPROVER_requires(__CPROVER_is_fresh(fmt, 64))
__CPROVER_requires(g_outlen >= 1 && __CPROVER_is_fresh(g_outbuf, (size_t) g_outlen))
__CPROVER_requires(__CPROVER_is_fresh(c, sizeof(*c)) && c->len >= 0 && c->len <= g_outlen - 1)
__CPROVER_requires(__CPROVER_pointer_equals(c->out, g_outbuf + (g_outlen - 1 - c->len)))
__CPROVER_requires(g_len0p == c->len)
__CPROVER_requires(WBIND(print_arg, w_type == (unsigned) arg->type && w_off == arg->offset && w_spec_psize == g_spec->payload_size &&
	w_ev_psize == ev->payload_size && w_outlen == g_outlen))
__CPROVER_assigns(c->out, c->len, DIAG_FRAME, g_payload_reads, __CPROVER_object_whole(g_outbuf))
__CPROVER_ensures(RET == 0 || RET == -1)
/* the output cursor stays inside outbuf[0..outlen-1): room for the final NUL is kept */
__CPROVER_ensures(RET != 0 || (c->len >= 0 && c->len <= g_len0p && c->out == g_outbuf + (g_outlen - 1 - c->len)))
/* numeric arguments are read exactly once from the payload (range checked in the memcpy wrapper) */
__CPROVER_ensures(RET != 0 || g_payload_reads == (arg->type == STR ? 0u : 1u))
__CPROVER_ensures(RET == 0 || g_err > __CPROVER_old(g_err))
;
void h_print_arg(void)
{
	struct ev_arg *arg; const char *fmt; struct cursor *c; struct emu_ev *ev;
	WITNESS_ON(print_arg);
	int r = print_arg(arg, fmt, c, ev);
	if (r == 0 && w_type == I64 && w_off + 8 == w_ev_psize) REACH("i64 argument ending exactly at the end of the payload printed");
	if (r == 0 && w_type == U8) REACH("u8 argument printed");
	if (r == 0 && w_type == STR) REACH("string argument printed");
	if (r == 0 && w_outlen > 1000000) REACH("huge output buffer");
	if (r != 0) REACH("no space refused");
}

/* ---------------- format_region ---------------- */
unsigned long g_in_off;
WITNESS(format_region);
unsigned long w_dlen, w_psize;
/* self-contained (also used to replace the call in ev_spec_print) */
int cr_format_region(struct ev_spec *spec, struct cursor *c, struct emu_ev *ev)
__CPROVER_requires(PRINT_SHAPE(spec, ev))
__CPROVER_requires(PRINT_VALS(spec, ev) && DIAG_PRE)
__CPROVER_requires(g_dlen <= C19_MAX_DESC && __CPROVER_is_fresh(g_desc, g_dlen + 1) && g_desc[g_dlen] == 0)
__CPROVER_requires(g_outlen >= 1 && __CPROVER_is_fresh(g_outbuf, (size_t) g_outlen))
/* the cursor, written with pointer_equals so that in/out are known to point into the two buffers */
__CPROVER_requires(__CPROVER_is_fresh(c, sizeof(*c)) && c->len >= 1 && c->len <= g_outlen - 1)
__CPROVER_requires(WBIND(format_region, g_in_off <= g_dlen && __CPROVER_pointer_equals(c->in, g_desc + g_in_off)))
__CPROVER_requires(WBIND(format_region, __CPROVER_pointer_equals(c->out, g_outbuf + (g_outlen - 1 - c->len))))
__CPROVER_requires(__CPROVER_same_object(c->in, g_desc) && c->in >= g_desc && c->in <= g_desc + g_dlen)
__CPROVER_requires(c->out == g_outbuf + (g_outlen - 1 - c->len))
__CPROVER_requires(WBIND(format_region, w_outlen == g_outlen && w_dlen == g_dlen && w_psize == g_psize))
__CPROVER_assigns(*c, DIAG_FRAME, g_payload_reads, g_arg_k, __CPROVER_object_whole(g_outbuf))
__CPROVER_ensures(RET == 0 || RET == -1)
/* success: the input advanced (by at least "%%"), the cursor is still well-formed */
__CPROVER_ensures(RET != 0 || (CURSOR_WF(c) && c->in >= __CPROVER_old(c->in) + 2 && c->len <= __CPROVER_old(c->len)))
__CPROVER_ensures(RET != 0 || (g_err == __CPROVER_old(g_err) && g_warn == __CPROVER_old(g_warn) && g_diag == __CPROVER_old(g_diag)))
__CPROVER_ensures(RET == 0 || g_err > __CPROVER_old(g_err))
;
void h_format_region(void)
{
	struct ev_spec *spec; struct cursor *c; struct emu_ev *ev;
	WITNESS_ON(format_region);
	int r = format_region(spec, c, ev);
	if (r == 0 && g_payload_reads == 1) REACH("argument printed");
	if (r == 0 && g_payload_reads == 0) REACH("literal percent or string argument");
	if (r != 0) REACH("format refused");
	if (r == 0 && w_dlen > 1000000) REACH("long description");
}

/* ---------------- ev_spec_print: loop contract in loops/c19_evspec.json ---------------- */
WITNESS(ev_spec_print);
int c_ev_spec_print(struct ev_spec *spec, struct emu_ev *ev, char *outbuf, int outlen)
__CPROVER_requires(PRINT_SHAPE(spec, ev))
__CPROVER_requires(PRINT_VALS(spec, ev) && DIAG_PRE && g_payload_reads == 0)
__CPROVER_requires(g_dlen <= C19_MAX_DESC && __CPROVER_is_fresh(g_desc, g_dlen + 1) && g_desc[g_dlen] == 0)
__CPROVER_requires(__CPROVER_pointer_equals(spec->description, g_desc))
/* any outlen, also <= 0; the buffer has exactly outlen bytes */
__CPROVER_requires(g_outlen == outlen && (outlen <= 0 || __CPROVER_is_fresh(g_outbuf, (size_t) outlen)))
__CPROVER_requires(outlen <= 0 || __CPROVER_pointer_equals(outbuf, g_outbuf))
__CPROVER_requires(WBIND(ev_spec_print, w_outlen == outlen && w_dlen == g_dlen && w_psize == g_psize))
__CPROVER_assigns(DIAG_FRAME, g_payload_reads, g_arg_k)
__CPROVER_assigns(outlen > 0: __CPROVER_object_whole(g_outbuf))
__CPROVER_ensures(RET == 0 || RET == -1)
__CPROVER_ensures(RET == 0 || g_err > __CPROVER_old(g_err))
;
void h_ev_spec_print(void)
{
	struct ev_spec *spec; struct emu_ev *ev; char *outbuf; int outlen;
	WITNESS_ON(ev_spec_print); WITNESS_OFF(format_region);
	int r = ev_spec_print(spec, ev, outbuf, outlen);
	if (r == 0) REACH("event printed");
	if (r == 0 && w_dlen > 1000000 && w_outlen > 1000000) REACH("long description printed");
	if (r == 0 && g_payload_reads > 0) REACH("description with arguments printed");
	if (r != 0 && w_outlen <= 0) REACH("no buffer refused");
	if (r != 0 && w_outlen > 0 && w_dlen >= (unsigned long) w_outlen) REACH("description too long refused");
}
