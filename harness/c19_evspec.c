/* C19 -- ev_spec.c print path (ovnidump, ovniemu -d): for an arbitrary compiled event
 * definition satisfying SPEC_WF, an arbitrary description string of ANY length, an
 * arbitrary output buffer size and an arbitrary event whose payload holds the declared
 * arguments (what check_payload guarantees, c19_model.c):
 *   - every payload read of print_arg lies inside payload[0..payload_size)  (byte-exact,
 *     checked in the memcpy wrapper);
 *   - nothing is written outside outbuf[0..outlen);
 *   - the description is never read past its terminator;
 *   - ev_spec_print terminates (decreases clause: remaining description).  */
#include "prelude.h"
#include "emu_ev.h"

const uint8_t *g_payload; unsigned long g_psize;   /* bound in requires */
#define IN_PAYLOAD(p, n) (!__CPROVER_same_object((p), g_payload) || \
	((const uint8_t *) (p) >= g_payload && (n) <= g_psize && \
	 (unsigned long) ((const uint8_t *) (p) - g_payload) <= g_psize - (n)))
unsigned g_payload_reads;
static inline void *c19_memcpy(void *d, const void *s, size_t n)
{
	__CPROVER_assert(g_payload != NULL && __CPROVER_same_object(s, g_payload), "print_arg copies from the payload object");
	__CPROVER_assert(IN_PAYLOAD(s, n), "memcpy source inside payload[0..payload_size)");
	g_payload_reads++;
	return (memcpy)(d, s, n);
}
/* TRUSTED glibc: isalnum()/isgraph() index a table valid for -128..255; arbitrary content */
static unsigned short c19_ctype_tab[384];
static const unsigned short *c19_ctype_ptr = &c19_ctype_tab[128];
const unsigned short **__ctype_b_loc(void) { return &c19_ctype_ptr; }
#define memcpy(d, s, n) c19_memcpy((d), (s), (n))
#include "ev_spec.c"       /* the real /repo/src/emu/ev_spec.c */
#undef memcpy
#include "c19_evwf.h"
#include "c19_specwf.h"

#define RET __CPROVER_return_value

/* the description: a C string of arbitrary length g_dlen (object of g_dlen+1 bytes, NUL at
 * g_dlen; earlier NULs allowed); the output buffer: g_outlen bytes */
unsigned long g_dlen; const char *g_desc; char *g_outbuf; int g_outlen;
#define C19_MAX_DESC (1UL << 40)

/* cursor invariant: in points into the description (at most at its last NUL), out/len
 * describe the unwritten tail of outbuf[0..outlen-1), one byte always left for the NUL */
#define CURSOR_WF(c) ( \
	__CPROVER_same_object((c)->in, g_desc) && (c)->in >= g_desc && (c)->in <= g_desc + g_dlen && \
	(c)->len >= 0 && (c)->len <= g_outlen - 1 && (c)->out == g_outbuf + (g_outlen - 1 - (c)->len))

/* (shape clauses with is_fresh are kept apart from the pure value predicates: a long
 * short-circuit chain in front of an is_fresh call makes symbolic execution explode) */
#define PRINT_SHAPE(spec, ev) (__CPROVER_is_fresh(spec, sizeof(struct ev_spec)) && EMU_EV_WF(ev))
#define PRINT_VALS(spec, ev) (SPEC_WF(spec) && (spec)->payload_size <= (ev)->payload_size && \
	g_payload == (const uint8_t *) (ev)->payload && g_psize == (ev)->payload_size)

/* ---------------- ev_spec_find_arg (bounded: names are 64-byte arrays) ---------------- */
int g_arg_k;   /* index of the argument returned by ev_spec_find_arg */
struct ev_arg *cr_ev_spec_find_arg(struct ev_spec *spec, const char *name)
__CPROVER_requires(spec != NULL && spec->nargs >= 0 && spec->nargs <= MAX_ARGS && name != NULL)
__CPROVER_assigns(g_arg_k)
__CPROVER_ensures(RET == NULL || (g_arg_k >= 0 && g_arg_k < spec->nargs && __CPROVER_pointer_equals(RET, &spec->args[g_arg_k])))
;
int w_nargs;
WITNESS(ev_spec_find_arg);
struct ev_arg *c_ev_spec_find_arg(struct ev_spec *spec, const char *name)
__CPROVER_requires(__CPROVER_is_fresh(spec, sizeof(*spec)) && spec->nargs >= 0 && spec->nargs <= MAX_ARGS)
__CPROVER_requires(SPEC_NAMES_TERMINATED(spec))
__CPROVER_requires(__CPROVER_is_fresh(name, 64) && name[63] == 0)
__CPROVER_requires(WBIND(ev_spec_find_arg, w_nargs == spec->nargs))
__CPROVER_assigns(g_arg_k)
__CPROVER_ensures(RET == NULL || (__CPROVER_same_object(RET, spec) && RET >= &spec->args[0] && RET < &spec->args[0] + spec->nargs &&
	((const char *) RET - (const char *) &spec->args[0]) % sizeof(struct ev_arg) == 0))
;
void h_ev_spec_find_arg(void)
{
	struct ev_spec *spec; const char *name;
	WITNESS_ON(ev_spec_find_arg);
	struct ev_arg *a = ev_spec_find_arg(spec, name);
	if (a != NULL) REACH("argument found");
	if (a == NULL && w_nargs == MAX_ARGS) REACH("argument not found among 16");
}

/* ---------------- format_region ---------------- */
const char *g_in0; int g_len0; unsigned long g_in_off;
WITNESS(format_region);
int w_outlen; unsigned long w_dlen, w_psize;
int c_format_region(struct ev_spec *spec, struct cursor *c, struct emu_ev *ev)
__CPROVER_requires(PRINT_SHAPE(spec, ev))
__CPROVER_requires(PRINT_VALS(spec, ev) && DIAG_PRE && g_payload_reads == 0)
__CPROVER_requires(g_dlen <= C19_MAX_DESC && __CPROVER_is_fresh(g_desc, g_dlen + 1) && g_desc[g_dlen] == 0)
__CPROVER_requires(g_outlen >= 1 && __CPROVER_is_fresh(g_outbuf, (size_t) g_outlen))
/* the cursor, written with pointer_equals so that in/out are known to point into the two buffers */
__CPROVER_requires(__CPROVER_is_fresh(c, sizeof(*c)) && g_in_off <= g_dlen && c->len >= 0 && c->len <= g_outlen - 1)
__CPROVER_requires(__CPROVER_pointer_equals(c->in, g_desc + g_in_off))
__CPROVER_requires(__CPROVER_pointer_equals(c->out, g_outbuf + (g_outlen - 1 - c->len)))
__CPROVER_requires(g_in0 == c->in && g_len0 == c->len)
__CPROVER_requires(WBIND(format_region, w_outlen == g_outlen && w_dlen == g_dlen && w_psize == g_psize))
__CPROVER_assigns(*c, DIAG_FRAME, g_payload_reads, g_arg_k, __CPROVER_object_whole(g_outbuf))
__CPROVER_ensures(RET == 0 || RET == -1)
/* success: the input advanced (by at least "%%"), the cursor is still well-formed */
__CPROVER_ensures(RET != 0 || (CURSOR_WF(c) && c->in >= g_in0 + 2 && c->len <= g_len0))
__CPROVER_ensures(RET == 0 || g_err > __CPROVER_old(g_err))
;
void h_format_region(void)
{
	struct ev_spec *spec; struct cursor *c; struct emu_ev *ev;
	WITNESS_ON(format_region);
	int r = format_region(spec, c, ev);
	if (r == 0 && g_payload_reads == 1) REACH("argument printed");
	if (r == 0 && g_payload_reads == 0) REACH("literal percent or string argument");
	if (r != 0) REACH("format refused");
	if (r == 0 && w_dlen > 1000000) REACH("long description");
}
