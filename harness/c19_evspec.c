/* C19 -- ev_spec.c print path (ovnidump, ovniemu -d): print_arg, the only function of the
 * print path that reads the event payload.  For an arbitrary declared argument that lies
 * inside the declared payload (SPEC_WF for that argument), an arbitrary event whose payload
 * holds the declared payload (what check_payload guarantees, c19_model.c) and an output
 * cursor inside an output buffer of ANY size:
 *   - every payload read lies inside payload[0..payload_size)  (byte-exact, checked in the
 *     memcpy wrapper);
 *   - the output cursor stays inside outbuf[0..outlen-1).
 * NOT covered (see the report): format_region / ev_spec_print.  Their loop variables are
 * pointers (cursor.in/out); CBMC 6.11 loop contracts havoc them and the value set is lost
 * (same_object in the invariant does not restore it, pointer predicates are rejected in loop
 * invariants), and format_region alone exceeds the memory limit. */
#include "prelude.h"
#include "emu_ev.h"

const uint8_t *g_payload; unsigned long g_psize;   /* bound in requires */
#define IN_PAYLOAD(p, n) (!__CPROVER_same_object((p), g_payload) || \
	((const uint8_t *) (p) >= g_payload && (n) <= g_psize && \
	 (unsigned long) ((const uint8_t *) (p) - g_payload) <= g_psize - (n)))
unsigned g_payload_reads;
static inline void *c19_memcpy(void *d, const void *s, size_t n)
{
	__CPROVER_assert(g_payload != NULL && __CPROVER_same_object(s, g_payload), "print_arg copies from the payload object");
	__CPROVER_assert(IN_PAYLOAD(s, n), "memcpy source inside payload[0..payload_size)");
	g_payload_reads++;
	return (memcpy)(d, s, n);
}
#define memcpy(d, s, n) c19_memcpy((d), (s), (n))
#include "ev_spec.c"       /* the real /repo/src/emu/ev_spec.c */
#undef memcpy
#include "c19_evwf.h"
#include "c19_specwf.h"

#define RET __CPROVER_return_value

char *g_outbuf; int g_outlen;
struct ev_spec *g_spec; int w_outlen;
/* (shape clauses with is_fresh are kept apart from the pure value predicates: a long
 * short-circuit chain in front of an is_fresh call makes symbolic execution explode) */
#define POFF(p) ((long) __CPROVER_POINTER_OFFSET(p))
#define PRINT_SHAPE(spec, ev) (__CPROVER_is_fresh(spec, sizeof(struct ev_spec)) && EMU_EV_WF(ev))
#define PRINT_VALS(spec, ev) (SPEC_WF(spec) && (spec)->payload_size <= (ev)->payload_size && STRINGS_INSIDE(spec, (ev)->payload_size) && \
	g_payload == (const uint8_t *) (ev)->payload && g_psize == (ev)->payload_size)

/* ---------------- print_arg: the only reader of the payload in the print path ---------------- */
int g_k; int g_len0p; unsigned w_type; unsigned long w_off, w_spec_psize, w_ev_psize;
WITNESS(print_arg);
int c_print_arg(struct ev_arg *arg, const char *fmt, struct cursor *c, struct emu_ev *ev)
__CPROVER_requires(PRINT_SHAPE(g_spec, ev))
/* arg is one of the declared arguments of the definition; only ITS well-formedness is needed:
 * it lies inside the declared payload, which the event's payload holds (check_payload) */
__CPROVER_requires(g_k >= 0 && g_k < g_spec->nargs && g_spec->nargs <= MAX_ARGS && __CPROVER_pointer_equals(arg, &g_spec->args[g_k]))
__CPROVER_requires(ARG_WF(g_spec, g_k) != 0 && STR_IN(g_spec, g_k, ev->payload_size) != 0 && g_spec->payload_size <= ev->payload_size)
__CPROVER_requires(g_payload == (const uint8_t *) ev->payload && g_psize == ev->payload_size && DIAG_PRE && g_payload_reads == 0)
__CPROVER_requires(__CPROVER_is_fresh(fmt, 64))
__CPROVER_requires(g_outlen >= 1 && __CPROVER_is_fresh(g_outbuf, (size_t) g_outlen))
__CPROVER_requires(__CPROVER_is_fresh(c, sizeof(*c)) && c->len >= 0 && c->len <= g_outlen - 1)
__CPROVER_requires(__CPROVER_pointer_equals(c->out, g_outbuf + (g_outlen - 1 - c->len)))
__CPROVER_requires(g_len0p == c->len)
__CPROVER_requires(WBIND(print_arg, w_type == (unsigned) arg->type && w_off == arg->offset && w_spec_psize == g_spec->payload_size &&
	w_ev_psize == ev->payload_size && w_outlen == g_outlen))
__CPROVER_assigns(c->out, c->len, DIAG_FRAME, g_payload_reads, __CPROVER_object_whole(g_outbuf))
__CPROVER_ensures(RET == 0 || RET == -1)
/* the output cursor stays inside outbuf[0..outlen-1): room for the final NUL is kept */
__CPROVER_ensures(RET != 0 || (c->len >= 0 && c->len <= g_len0p && __CPROVER_same_object(c->out, g_outbuf) && POFF(c->out) == (long) (g_outlen - 1 - c->len)))
/* numeric arguments are read exactly once from the payload (range checked in the memcpy wrapper) */
__CPROVER_ensures(RET != 0 || g_payload_reads == (arg->type == STR ? 0u : 1u))
__CPROVER_ensures(RET == 0 || g_err > __CPROVER_old(g_err))
;
void h_print_arg(void)
{
	struct ev_arg *arg; const char *fmt; struct cursor *c; struct emu_ev *ev;
	WITNESS_ON(print_arg);
	int r = print_arg(arg, fmt, c, ev);
	if (r == 0 && w_type == I64 && w_off + 8 == w_ev_psize) REACH("i64 argument ending exactly at the end of the payload printed");
	if (r == 0 && w_type == U8) REACH("u8 argument printed");
	if (r == 0 && w_type == STR) REACH("string argument printed");
	if (r == 0 && w_outlen > 1000000) REACH("huge output buffer");
	if (r != 0) REACH("no space refused");
}
