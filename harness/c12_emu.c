/* C12 -- top level: emu_step (real emu.c) and main (real ovniemu.c, -DC12_MAIN).
 * A step succeeds only if every stage succeeded; the emulator says "emulation
 * finished ok" and exits with 0 only if initialisation, connection, every step
 * and the finish stage succeeded and the run was not interrupted.
 * The stages live in other files (proved in their own properties / groups):
 * here they are stubs that return any value and record it in ghosts. */
#include "prelude.h"

#ifdef C12_MAIN
/* harness-local rebinding of info(): the format string is kept so that the
 * final verdict line can be told apart (prelude.h drops the text) */
int g_said_ok, g_said_partial, g_said_errors;
static inline void c12_info(const char *fmt)
{
	verif_info();
	/* "emulation finished ok" / "... partially but ok" / "... with errors" */
	if (fmt[0] == 'e' && fmt[10] == 'f' && fmt[17] == 'd' && fmt[18] == ' ') {
		if (fmt[19] == 'o') g_said_ok = 1;
		if (fmt[19] == 'p') g_said_partial = 1;
		if (fmt[19] == 'w') g_said_errors = 1;
	}
}
#define C12_FIRST(a, ...) a
#undef info
#define info(...) c12_info(C12_FIRST(__VA_ARGS__, 0))
#endif

#include "emu.h"
#include <signal.h>
#include "stream.h"
#include "system.h"
#include "emu_ev.h"

/* ---- stage stubs: any result, recorded ---- */
#define NOT_CALLED (-1000)
int g_init, g_connect, g_finish;         /* results of the stages of main */
int g_last_step;                          /* result of the last emu_step */
unsigned g_steps;
int g_player, g_rec, g_model, g_bay, g_lpt_null;   /* results of the stages of emu_step */
int g_model_idx; struct emu *g_model_emu; struct emu_ev *g_ev;
long g_rec_time;

#ifdef C12_MAIN
int emu_init(struct emu *emu, int argc, char *argv[]) { (void) emu; (void) argc; (void) argv; g_init = nondet_int(); __CPROVER_assume(g_init != NOT_CALLED); return g_init; }
int emu_connect(struct emu *emu) { (void) emu; g_connect = nondet_int(); __CPROVER_assume(g_connect != NOT_CALLED); return g_connect; }
int emu_step(struct emu *emu) { (void) emu; g_steps++; g_last_step = nondet_int(); __CPROVER_assume(g_last_step != NOT_CALLED); return g_last_step; }
int emu_finish(struct emu *emu) { (void) emu; g_finish = nondet_int(); __CPROVER_assume(g_finish != NOT_CALLED); return g_finish; }
void progname_set(char *name) { (void) name; }
__sighandler_t signal(int sig, __sighandler_t h) { (void) sig; (void) h; return SIG_DFL; }
#include "ovniemu.c"         /* real /repo/src/emu/ovniemu.c */

int w_run;
WITNESS(main);
int c_main(int argc, char *argv[])
__CPROVER_requires(DIAG_PRE && g_said_ok == 0 && g_said_partial == 0 && g_said_errors == 0)
__CPROVER_requires(g_init == NOT_CALLED && g_connect == NOT_CALLED && g_finish == NOT_CALLED && g_last_step == NOT_CALLED && g_steps == 0)
__CPROVER_requires(WBIND(main, w_run == run))
__CPROVER_assigns(DIAG_FRAME, g_said_ok, g_said_partial, g_said_errors, g_init, g_connect, g_finish, g_last_step, g_steps)
__CPROVER_ensures(__CPROVER_return_value == 0 || __CPROVER_return_value == 1)
/* "finished ok" only if every stage succeeded, the last step reported the end of
 * the trace and nobody interrupted the run; and then the exit status is 0 */
__CPROVER_ensures(!g_said_ok || (g_init == 0 && g_connect == 0 && g_last_step > 0 && g_finish == 0 && run != 0 &&
	__CPROVER_return_value == 0 && !g_said_errors && !g_said_partial))
/* exit status 0 exactly when all stages succeeded (interrupted runs included) */
__CPROVER_ensures((__CPROVER_return_value == 0) == (g_init == 0 && g_connect == 0 && g_finish == 0 &&
	(g_last_step > 0 || g_last_step == 0 || g_last_step == NOT_CALLED)))
__CPROVER_ensures((__CPROVER_return_value == 0) == (g_said_ok || g_said_partial))
/* a failed step => failure exit, never "ok" */
__CPROVER_ensures(!(g_last_step < 0 && g_last_step != NOT_CALLED) || (__CPROVER_return_value == 1 && !g_said_ok && !g_said_partial))
/* stages run in order; nothing is emulated after a failed initialisation */
__CPROVER_ensures(g_init == 0 || g_init == NOT_CALLED || (g_connect == NOT_CALLED && g_steps == 0 && g_finish == NOT_CALLED))
__CPROVER_ensures(g_connect == 0 || g_connect == NOT_CALLED || (g_steps == 0 && g_finish == NOT_CALLED))
;
void h_main(void)
{
	int argc; char **argv;
	WITNESS_ON(main);
	int r = main(argc, argv);
	if (r == 0 && g_said_ok) REACH("emulation finished ok");
	if (r == 0 && g_said_partial) REACH("interrupted run finished partially but ok");
	if (r == 1 && g_said_errors && g_last_step < 0 && g_last_step != NOT_CALLED) REACH("failed step: finished with errors");
	if (r == 1 && g_said_errors && g_last_step > 0 && g_finish != 0) REACH("failed finish: finished with errors");
	if (r == 1 && g_init != 0 && g_init != NOT_CALLED) REACH("failed init: exit 1");
	if (r == 1 && g_init == NOT_CALLED) REACH("out of memory: exit 1");
	if (r == 0 && g_steps > 1) REACH("several steps");
}

#else /* emu_step */
int player_step(struct player *p) { (void) p; g_player = nondet_int(); __CPROVER_assume(g_player != NOT_CALLED); return g_player; }
struct emu_ev *player_ev(struct player *p) { (void) p; return g_ev; }
struct stream *player_stream(struct player *p) { (void) p; return malloc(sizeof(struct stream)); }
struct lpt *system_get_lpt(struct stream *s) { (void) s; g_lpt_null = nondet_bool(); if (g_lpt_null) return NULL; struct lpt *l = malloc(sizeof(struct lpt)); __CPROVER_assume(l != NULL); return l; }
void emu_stat_update(struct emu_stat *st, struct player *p) { (void) st; (void) p; }
int recorder_advance(struct recorder *r, int64_t t) { (void) r; g_rec_time = t; g_rec = nondet_int(); __CPROVER_assume(g_rec != NOT_CALLED); return g_rec; }
int model_event(struct model *m, struct emu *emu, int index) { (void) m; g_model_emu = emu; g_model_idx = index; g_model = nondet_int(); __CPROVER_assume(g_model != NOT_CALLED); return g_model; }
int bay_propagate(struct bay *b) { (void) b; g_bay = nondet_int(); __CPROVER_assume(g_bay != NOT_CALLED); return g_bay; }
#include "emu.c"             /* real /repo/src/emu/emu.c */

#define CALLED(x) ((x) != NOT_CALLED)
int c_emu_step(struct emu *emu)
__CPROVER_requires(__CPROVER_is_fresh(emu, sizeof(*emu)))
__CPROVER_requires(__CPROVER_is_fresh(g_ev, sizeof(struct emu_ev)))
__CPROVER_requires(DIAG_PRE)
__CPROVER_requires(g_player == NOT_CALLED && g_rec == NOT_CALLED && g_model == NOT_CALLED && g_bay == NOT_CALLED)
__CPROVER_assigns(DIAG_FRAME, g_player, g_rec, g_model, g_bay, g_lpt_null, g_model_idx, g_model_emu, g_rec_time,
	emu->finished, emu->ev, emu->stream, emu->loom, emu->proc, emu->thread)
__CPROVER_ensures(__CPROVER_return_value == 0 || __CPROVER_return_value == -1 || __CPROVER_return_value == 1)
/* +1 exactly when the player has no more events; nothing else runs then */
__CPROVER_ensures((__CPROVER_return_value == 1) == (g_player > 0))
__CPROVER_ensures(__CPROVER_return_value != 1 || (emu->finished == 1 && !CALLED(g_model) && !CALLED(g_bay) && !CALLED(g_rec)))
/* 0 exactly when every stage succeeded */
__CPROVER_ensures((__CPROVER_return_value == 0) == (g_player == 0 && !g_lpt_null && g_rec == 0 && g_model == 0 && g_bay == 0))
/* the event goes to the model named in ITS header, with the clock delta of the event */
__CPROVER_ensures(!CALLED(g_model) || (g_model_idx == g_ev->m && g_model_emu == emu && emu->ev == g_ev && g_rec_time == g_ev->dclock))
/* a failed player step (truncated event, backwards clock: stream_step) stops everything */
__CPROVER_ensures(g_player >= 0 || (__CPROVER_return_value == -1 && !CALLED(g_model) && !CALLED(g_bay) && !CALLED(g_rec)))
/* a refused event is never propagated */
__CPROVER_ensures(!(CALLED(g_model) && g_model != 0) || (__CPROVER_return_value == -1 && !CALLED(g_bay)))
__CPROVER_ensures(__CPROVER_return_value != -1 || g_err > __CPROVER_old(g_err))
;
void h_emu_step(void)
{
	struct emu *emu;
	int r = emu_step(emu);
	if (r == 0) REACH("step ok");
	if (r == 1) REACH("end of trace");
	if (r == -1 && g_player < 0) REACH("player failure");
	if (r == -1 && g_player == 0 && g_lpt_null) REACH("unknown stream");
	if (r == -1 && CALLED(g_model) && g_model != 0) REACH("event refused by the model");
	if (r == -1 && CALLED(g_bay) && g_bay != 0) REACH("propagation failure");
}
#endif
