/* G4 (C14) -- the list of models of the real src/emu/models.c: models_register, models_get_version,
 * models_print.
 *
 * Plain assume/assert harness (no DFCC): the list `models[]` is a non-const static with an
 * initialiser, which DFCC would havoc; here the initialiser IS what is checked.  The list is a
 * constant of eight entries, the loops are unwound completely (finite).
 * Specification (doc/user/emulation: eight models): ovni, nanos6, nosv, nodes, tampi, mpi, kernel,
 * openmp are ALL registered, each exactly once, into the given table; the first failing
 * registration makes models_register fail and nothing is registered after it. */
#include "prelude.h"
#include "model.h"

/* the model specs live in the models' setup.c files (other units) */
struct model_spec model_ovni, model_nanos6, model_nosv, model_nodes, model_tampi, model_mpi, model_kernel, model_openmp;
#define NMODELS 8
static int spec_index(struct model_spec *s)
{
	return s == &model_ovni ? 0 : s == &model_nanos6 ? 1 : s == &model_nosv ? 2 : s == &model_nodes ? 3 :
		s == &model_tampi ? 4 : s == &model_mpi ? 5 : s == &model_kernel ? 6 : s == &model_openmp ? 7 : -1;
}

/* model_register (model.c, group g4_model_register): any result, calls recorded per model */
unsigned g_reg_n[NMODELS], g_reg_unknown;
int g_reg_failed, g_reg_after_fail, g_reg_bad_table;
struct model *g_table;
int model_register(struct model *model, struct model_spec *spec)
{
	int j = spec_index(spec);
	if (g_reg_failed) g_reg_after_fail = 1;
	if (model != g_table) g_reg_bad_table = 1;
	if (j < 0) g_reg_unknown++; else g_reg_n[j]++;
	int r = nondet_int();
	if (r != 0) g_reg_failed = 1;
	return r;
}

#include "models.c"                      /* real /repo/src/emu/models.c */

void h_models_register(void)
{
	static struct model table;
	g_table = &table;
	g_err = nondet_int() & 0xfffff; g_diag = g_err; g_warn = 0;
	unsigned err0 = g_err;

	int r = models_register(&table);

	VASSERT(r == 0 || r == -1, "returns 0 or -1");
	VASSERT((r == -1) == (g_reg_failed != 0), "fails exactly when a registration failed");
	VASSERT(r == 0 || g_err > err0, "a failure comes with a diagnostic");
	VASSERT(!g_reg_after_fail, "nothing is registered after a failed registration");
	VASSERT(!g_reg_bad_table, "every model goes into the given table");
	VASSERT(g_reg_unknown == 0, "only the eight models are registered");
	VASSERT(g_reg_n[0] <= 1 && g_reg_n[1] <= 1 && g_reg_n[2] <= 1 && g_reg_n[3] <= 1 && g_reg_n[4] <= 1 && g_reg_n[5] <= 1 &&
		g_reg_n[6] <= 1 && g_reg_n[7] <= 1, "no model is registered twice");
	VASSERT(r != 0 || (g_reg_n[0] == 1 && g_reg_n[1] == 1 && g_reg_n[2] == 1 && g_reg_n[3] == 1 && g_reg_n[4] == 1 &&
		g_reg_n[5] == 1 && g_reg_n[6] == 1 && g_reg_n[7] == 1), "success: each of the eight models was registered");
	if (r == 0) REACH("all models registered");
	if (r == -1 && g_reg_n[0] == 1 && g_reg_n[1] == 0) REACH("first registration failed");
	if (r == -1 && g_reg_n[7] == 1) REACH("last registration failed");
}

/* models_get_version: the version of the model with that name, NULL if there is none.
 * Bounded: names of at most 7 characters (the model names are at most 6 long). */
static const char *const g4_names[NMODELS] = {"ovni", "nanos6", "nosv", "nodes", "tampi", "mpi", "kernel", "openmp"};
static char g4_versions[NMODELS][2];
static int g4_streq(const char *a, const char *b)   /* specification: same characters up to and including NUL */
{
	for (int i = 0; i < 8; i++) {
		if (a[i] != b[i]) return 0;
		if (a[i] == '\0') return 1;
	}
	return 0;
}
void h_models_get_version(void)
{
	struct model_spec *list[NMODELS] = {&model_ovni, &model_nanos6, &model_nosv, &model_nodes, &model_tampi, &model_mpi, &model_kernel, &model_openmp};
	for (int j = 0; j < NMODELS; j++) { list[j]->name = g4_names[j]; list[j]->version = g4_versions[j]; }
	char name[8];
	for (int i = 0; i < 8; i++) name[i] = nondet_char();
	name[7] = '\0';

	const char *v = models_get_version(name);

	int found = -1;
	for (int j = 0; j < NMODELS; j++)
		if (found < 0 && g4_streq(name, g4_names[j])) found = j;
	VASSERT((v == NULL) == (found < 0), "NULL exactly when no model has that name");
	VASSERT(found < 0 || v == g4_versions[found], "the version of the model with that name");
	if (v == NULL) REACH("unknown model name");
	if (found == 0) REACH("ovni found");
	if (found == 7) REACH("openmp found");
	if (found == 1) REACH("nanos6 found");
}

/* models_print: one line per model */
void h_models_print(void)
{
	g_diag = nondet_int() & 0xfffff;
	unsigned d0 = g_diag;
	models_print();
	VASSERT(g_diag == d0 + NMODELS, "one line per model");
	REACH("printed");
}
