/* C07 -- Nanos6 task events (real nanos6/event.c) over the proved task layer.
 * Same structure as c07_nosv.c.  Differences pinned here: Nanos6 has no parallel
 * tasks (body id is always 1, payload needs only the task id), tasks are created
 * with PAUSE|RELAX_NESTING (no RESURRECT, no PARALLEL) from an exactly 8-byte
 * payload, the old 6TC event is ignored with a warning, and the thread shows
 * task id, type and rank only (there is no body id / app id channel). */
#include "c07_task.c"
#include "c07_model.h"
#include "extend.c"           /* the real /repo/src/emu/extend.c */
#include "nanos6/event.c"     /* the real /repo/src/emu/nanos6/event.c */

#define TH ((struct nanos6_thread *) emu->thread->ext.ctx['6'])
#define PR ((struct nanos6_proc *) emu->proc->ext.ctx['6'])
#define CH(i) (&g_ch[i])           /* for comparisons with logged channel pointers */
#define CHR(i) (&TH->m.ch[i])      /* for reading a channel (same address; HOWTO pitfall 1) */
struct chan *g_ch;

#define EMU_SHAPE_BASE ( \
	__CPROVER_is_fresh(emu, sizeof(*emu)) && \
	__CPROVER_is_fresh(emu->thread, sizeof(struct thread)) && \
	__CPROVER_is_fresh(emu->proc, sizeof(struct proc)) && \
	__CPROVER_is_fresh(emu->ev, sizeof(struct emu_ev)) && \
	__CPROVER_is_fresh(emu->thread->ext.ctx['6'], sizeof(struct nanos6_thread)) && \
	__CPROVER_is_fresh(emu->proc->ext.ctx['6'], sizeof(struct nanos6_proc)) )
#define EMU_SHAPE ( EMU_SHAPE_BASE && \
	__CPROVER_is_fresh(TH->m.ch, CH_MAX * sizeof(struct chan)) && g_ch == TH->m.ch )
/* proc invariant (proc.c load_rank): rank < nranks, so rank + 1 cannot overflow */
#define PROC_INV (emu->proc->rank < 0x7fffffff)
#define TASK_SHAPE(t) (__CPROVER_is_fresh(t, sizeof(struct task)) && __CPROVER_is_fresh((t)->type, sizeof(struct task_type)))
#define HAS_RANK (emu->proc->rank >= 0)

/* The thread shows task t: task id, type gid, rank + 1 */
#define SHOWS_TASK(t) ( \
	OP_IS(0, OP_SET, CH(CH_TASKID), (t)->id) && \
	OP_IS(1, OP_SET, CH(CH_TYPE), (t)->type->gid) && \
	(HAS_RANK ? (g_op_n == 3 && OP_IS(2, OP_SET, CH(CH_RANK), (int64_t) emu->proc->rank + 1)) : g_op_n == 2) )
#define SHOWS_NOTHING ( \
	OP_IS_NULL(0, OP_SET, CH(CH_TASKID)) && \
	OP_IS_NULL(1, OP_SET, CH(CH_TYPE)) && \
	(HAS_RANK ? (g_op_n == 3 && OP_IS_NULL(2, OP_SET, CH(CH_RANK))) : g_op_n == 2) )

int w_rank; unsigned w_taskid, w_gid; char w_tr; int w_pnull, w_nnull, w_same;
WITNESS(chanb);

#define RUN_LEGAL(t) ((t)->id != 0 && (t)->type->gid != 0)
#define SWITCH_LEGAL(p, n) ((p) != NULL && (n) != NULL && (p) != (n) && (n)->id != 0 && (n)->type->gid != 0)

/* ---------------- chan_task_running / stopped / switch (thorough tier: also
 * covered inline by update_task_channels) ---------------- */
int c_chan_task_running(struct emu *emu, struct task *task)
__CPROVER_requires(EMU_SHAPE && PROC_INV && TASK_SHAPE(task))
__CPROVER_requires(WBIND(chanb, w_rank == emu->proc->rank && w_taskid == task->id && w_gid == task->type->gid) && DIAG_PRE && OPLOG_PRE)
__CPROVER_assigns(DIAG_FRAME, OPLOG_FRAME)
__CPROVER_ensures((RV == 0) == (RUN_LEGAL(task) && NO_CHAN_FAILED))
__CPROVER_ensures(RV == 0 || RV == -1)
__CPROVER_ensures(RV != 0 || SHOWS_TASK(task))
__CPROVER_ensures(RUN_LEGAL(task) || g_op_n == 0)
__CPROVER_ensures(RV == 0 || g_err > OLD(g_err))
;
void h_chan_task_running(void)
{
	struct emu *emu; struct task *task;
	WITNESS_ON(chanb);
	int r = chan_task_running(emu, task);
	if (r == 0 && w_rank >= 0) REACH("task shown with rank");
	if (r == 0 && w_rank < 0) REACH("task shown without rank");
	if (r != 0 && w_taskid != 0 && w_gid != 0) REACH("refused by the channel layer only");
}

int c_chan_task_stopped(struct emu *emu)
__CPROVER_requires(EMU_SHAPE)
__CPROVER_requires(WBIND(chanb, w_rank == emu->proc->rank) && DIAG_PRE && OPLOG_PRE)
__CPROVER_assigns(DIAG_FRAME, OPLOG_FRAME)
__CPROVER_ensures((RV == 0) == NO_CHAN_FAILED)
__CPROVER_ensures(RV == 0 || RV == -1)
__CPROVER_ensures(RV != 0 || SHOWS_NOTHING)
__CPROVER_ensures(RV == 0 || g_err > OLD(g_err))
;
void h_chan_task_stopped(void)
{
	struct emu *emu;
	WITNESS_ON(chanb);
	int r = chan_task_stopped(emu);
	if (r == 0 && w_rank >= 0) REACH("nothing shown, with rank");
	if (r == 0 && w_rank < 0) REACH("nothing shown, without rank");
}

int c_chan_task_switch(struct emu *emu, struct task *prev, struct task *next)
__CPROVER_requires(EMU_SHAPE && PROC_INV)
__CPROVER_requires(next == NULL || TASK_SHAPE(next))
__CPROVER_requires(prev == NULL || (next != NULL && __CPROVER_pointer_equals(prev, next)) || __CPROVER_is_fresh(prev, sizeof(struct task)))
__CPROVER_requires(WBIND(chanb, w_pnull == (prev == NULL) && w_nnull == (next == NULL) && w_same == (prev == next)))
__CPROVER_requires(DIAG_PRE && OPLOG_PRE)
__CPROVER_assigns(DIAG_FRAME, OPLOG_FRAME)
__CPROVER_ensures((RV == 0) == (SWITCH_LEGAL(prev, next) && NO_CHAN_FAILED))
__CPROVER_ensures(RV == 0 || RV == -1)
__CPROVER_ensures(RV != 0 || SHOWS_TASK(next))
__CPROVER_ensures(SWITCH_LEGAL(prev, next) || g_op_n == 0)
__CPROVER_ensures(RV == 0 || g_err > OLD(g_err))
;
void h_chan_task_switch(void)
{
	struct emu *emu; struct task *prev, *next;
	WITNESS_ON(chanb);
	int r = chan_task_switch(emu, prev, next);
	if (r == 0) REACH("switched to the next task");
	if (r != 0 && !w_pnull && !w_nnull && w_same) REACH("switch to the same task refused");
}

/* ---------------- update_task_channels (helpers verified inline) ---------------- */
int c_update_task_channels(struct emu *emu, char tr, struct task *prev, struct task *next)
__CPROVER_requires(EMU_SHAPE && PROC_INV)
__CPROVER_requires(next == NULL || TASK_SHAPE(next))
__CPROVER_requires(prev == NULL || (next != NULL && __CPROVER_pointer_equals(prev, next)) || __CPROVER_is_fresh(prev, sizeof(struct task)))
__CPROVER_requires((tr != 'x' && tr != 'r') || next != NULL)
__CPROVER_requires(WBIND(chanb, w_tr == tr && w_rank == emu->proc->rank))
__CPROVER_requires(DIAG_PRE && OPLOG_PRE)
__CPROVER_assigns(DIAG_FRAME, OPLOG_FRAME)
__CPROVER_ensures((RV == 0) == (NO_CHAN_FAILED && (
	((tr == 'x' || tr == 'r') && RUN_LEGAL(next)) ||
	(tr == 'e' || tr == 'p') ||
	((tr == 'X' || tr == 'E') && SWITCH_LEGAL(prev, next)))))
__CPROVER_ensures(RV == 0 || RV == -1)
__CPROVER_ensures(RV != 0 || !(tr == 'x' || tr == 'r' || tr == 'X' || tr == 'E') || SHOWS_TASK(next))
__CPROVER_ensures(RV != 0 || !(tr == 'e' || tr == 'p') || SHOWS_NOTHING)
__CPROVER_ensures((tr == 'x' || tr == 'r' || tr == 'e' || tr == 'p' || tr == 'X' || tr == 'E') || g_op_n == 0)
__CPROVER_ensures(RV == 0 || g_err > OLD(g_err))
;
void h_update_task_channels(void)
{
	struct emu *emu; struct task *prev, *next; char tr;
	WITNESS_ON(chanb);
	int r = update_task_channels(emu, tr, prev, next);
	if (r == 0 && w_tr == 'x') REACH("x: task shown");
	if (r == 0 && w_tr == 'e') REACH("e: nothing shown");
	if (r == 0 && w_tr == 'X') REACH("X: next task shown");
	if (r != 0 && w_tr == 'q') REACH("unknown transition refused");
}

/* ---------------- update_task_ss_channel ---------------- */
int c_update_task_ss_channel(struct emu *emu, char tr)
__CPROVER_requires(EMU_SHAPE)
__CPROVER_requires(WBIND(chanb, w_tr == tr) && DIAG_PRE && OPLOG_PRE)
__CPROVER_assigns(DIAG_FRAME, OPLOG_FRAME)
__CPROVER_ensures((RV == 0) == NO_CHAN_FAILED)
__CPROVER_ensures(RV == 0 || RV == -1)
__CPROVER_ensures(tr != 'x' || (g_op_n == 1 && OP_IS(0, OP_PUSH, CH(CH_SUBSYSTEM), ST_TASK_BODY)))
__CPROVER_ensures(tr != 'e' || (g_op_n == 1 && OP_IS(0, OP_POP, CH(CH_SUBSYSTEM), ST_TASK_BODY)))
__CPROVER_ensures(tr == 'x' || tr == 'e' || g_op_n == 0)
__CPROVER_ensures(RV == 0 || g_err > OLD(g_err))
;
void h_update_task_ss_channel(void)
{
	struct emu *emu; char tr;
	WITNESS_ON(chanb);
	int r = update_task_ss_channel(emu, tr);
	if (r == 0 && w_tr == 'x') REACH("x pushes");
	if (r == 0 && w_tr == 'e') REACH("e pops");
	if (r == 0 && w_tr == 'p') REACH("p leaves the subsystem channel");
}

/* ---------------- enforce_task_rules ---------------- */
int64_t g_ss_type, g_ss_i; int g_next_state;
int c_enforce_task_rules(struct emu *emu, char tr, struct body *bnext)
__CPROVER_requires(EMU_SHAPE)
__CPROVER_requires((tr != 'x' && tr != 'X') || __CPROVER_is_fresh(bnext, sizeof(struct body)))
__CPROVER_requires(CHR(CH_SUBSYSTEM)->type == CHAN_SINGLE || (CHR(CH_SUBSYSTEM)->data.stack.n >= 0 && CHR(CH_SUBSYSTEM)->data.stack.n <= MAX_CHAN_STACK))
__CPROVER_requires(g_ss_type == spec_chan_read(CHR(CH_SUBSYSTEM)).type && g_ss_i == spec_chan_read(CHR(CH_SUBSYSTEM)).i)
__CPROVER_requires((tr != 'x' && tr != 'X') || g_next_state == (int) bnext->state)
__CPROVER_requires(WBIND(chanb, w_tr == tr) && DIAG_PRE)
__CPROVER_assigns(DIAG_FRAME)
__CPROVER_ensures((RV == 0) == ((tr != 'x' && tr != 'X') ||
	(g_next_state == BODY_ST_RUNNING && (g_ss_type != VALUE_INT64 || g_ss_i == ST_TASK_BODY))))
__CPROVER_ensures(RV == 0 || RV == -1)
__CPROVER_ensures(RV == 0 || g_err > OLD(g_err))
;
void h_enforce_task_rules(void)
{
	struct emu *emu; char tr; struct body *bnext;
	WITNESS_ON(chanb);
	int r = enforce_task_rules(emu, tr, bnext);
	if (r == 0 && w_tr == 'x') REACH("rules hold after x");
	if (r != 0 && g_next_state == BODY_ST_RUNNING) REACH("wrong subsystem state refused");
	if (r != 0 && g_next_state != BODY_ST_RUNNING) REACH("body not running refused");
}

/* ---------------- update_task_state ----------------
 * accepted exactly when the payload holds the task id (>= 4 bytes), the task
 * exists, the event is x/e/p/r and the task layer accepts the operation on this
 * thread's stack for body 1 (Nanos6 has no parallel tasks). */
size_t w_psize; unsigned char w_v; int w_found;
WITNESS(uts);
#define PAYLOAD_SHAPE ( emu->ev->payload_size <= 0x100000 && \
	((emu->ev->payload_size == 0 && emu->ev->payload == NULL) || \
	 (emu->ev->payload_size > 0 && __CPROVER_is_fresh(emu->ev->payload, sizeof(union ovni_ev_payload)))) )
#define UTS_CHECKS_OK (emu->ev->payload_size >= 4 && g_tf_task != NULL && \
	(emu->ev->v == 'x' || emu->ev->v == 'e' || emu->ev->v == 'p' || emu->ev->v == 'r'))
int c_update_task_state(struct emu *emu)
__CPROVER_requires(EMU_SHAPE_BASE && PAYLOAD_SHAPE)
__CPROVER_requires(g_tf_head == PR->task_info.tasks && (emu->ev->payload_size < 4 || g_tf_id == emu->ev->payload->u32[0]))
__CPROVER_requires(g_tf_task == NULL || __CPROVER_is_fresh(g_tf_task, sizeof(struct task)))
__CPROVER_requires(WBIND(uts, w_psize == emu->ev->payload_size && w_v == emu->ev->v && w_found == (g_tf_task != NULL)))
__CPROVER_requires(DIAG_PRE && TL_PRE)
__CPROVER_assigns(DIAG_FRAME, TL_OP_FRAME)
__CPROVER_ensures(UTS_CHECKS_OK || (RV == -1 && g_tl_n == OLD(g_tl_n)))
__CPROVER_ensures(!UTS_CHECKS_OK || (g_tl_n == OLD(g_tl_n) + 1 && g_tl_kind == emu->ev->v &&
	g_tl_stack == &TH->task_stack && g_tl_task == g_tf_task && g_tl_bid == 1 &&
	(RV == 0) == (g_tl_ret == 0)))
__CPROVER_ensures(RV == 0 || RV == -1)
__CPROVER_ensures(RV == 0 || g_err > OLD(g_err))
;
void h_update_task_state(void)
{
	struct emu *emu;
	WITNESS_ON(uts);
	int r = update_task_state(emu);
	if (r == 0 && w_v == 'x') REACH("execute");
	if (r == 0 && w_v == 'p') REACH("pause");
	if (r != 0 && w_psize == 3) REACH("3-byte payload refused");
	if (r != 0 && w_psize >= 4 && !w_found) REACH("unknown task refused");
	if (r != 0 && w_psize == 4 && w_found && w_v == 'x') REACH("refused by the task layer only");
}

/* ---------------- create_task + pre_task ----------------
 * 6Tc (payload exactly 8 bytes) creates a task with PAUSE|RELAX_NESTING: it can
 * pause, may be nested over a running task, cannot run again after death and has
 * one body; the old 6TC is accepted and ignored with a warning; x/e/r/p go to
 * update_task; anything else is refused. */
struct c07_utlog { unsigned n; int ret; struct emu *emu; } g_ut;
#define g_ut_n (g_ut.n)
#define g_ut_ret (g_ut.ret)
#define g_ut_emu (g_ut.emu)
#define IS_UPDATE (emu->ev->v == 'x' || emu->ev->v == 'e' || emu->ev->v == 'r' || emu->ev->v == 'p')
int cl_update_task(struct emu *emu)
__CPROVER_requires(g_ut_n < 1000000u && IS_UPDATE)
__CPROVER_assigns(g_ut)
__CPROVER_ensures(g_ut_n == OLD(g_ut_n) + 1 && g_ut_ret == RV && g_ut_emu == emu)
;
int c_pre_task(struct emu *emu)
__CPROVER_requires(EMU_SHAPE_BASE && PAYLOAD_SHAPE)
__CPROVER_requires(WBIND(uts, w_psize == emu->ev->payload_size && w_v == emu->ev->v))
__CPROVER_requires(DIAG_PRE && TL_PRE && g_ut_n < 1000000u)
__CPROVER_assigns(DIAG_FRAME, TL_FRAME, g_ut)
__CPROVER_ensures(emu->ev->v != 'c' || emu->ev->payload_size == 8 || (RV == -1 && g_tl_n == OLD(g_tl_n)))
__CPROVER_ensures(emu->ev->v != 'c' || emu->ev->payload_size != 8 || (
	g_tl_n == OLD(g_tl_n) + 1 && g_tl_kind == 'c' && g_tl_info == &PR->task_info &&
	g_tl_task_id == emu->ev->payload->u32[0] && g_tl_type_id == emu->ev->payload->u32[1] &&
	g_tl_flags == (uint32_t) (TASK_FLAG_PAUSE | TASK_FLAG_RELAX_NESTING) &&
	(RV == 0) == (g_tl_ret == 0)))
__CPROVER_ensures(emu->ev->v != 'c' || g_ut_n == OLD(g_ut_n))
/* old 6TC: ignored with a warning */
__CPROVER_ensures(emu->ev->v != 'C' || (RV == 0 && g_warn > OLD(g_warn) && g_ut_n == OLD(g_ut_n) && g_tl_n == OLD(g_tl_n)))
__CPROVER_ensures(!IS_UPDATE || (g_ut_n == OLD(g_ut_n) + 1 && g_ut_emu == emu && (RV == 0) == (g_ut_ret == 0) && g_tl_n == OLD(g_tl_n)))
__CPROVER_ensures(emu->ev->v == 'c' || emu->ev->v == 'C' || IS_UPDATE || (RV == -1 && g_ut_n == OLD(g_ut_n) && g_tl_n == OLD(g_tl_n)))
__CPROVER_ensures(RV == 0 || RV == -1)
__CPROVER_ensures(RV == 0 || g_err > OLD(g_err))
;
void h_pre_task(void)
{
	struct emu *emu;
	WITNESS_ON(uts);
	int r = pre_task(emu);
	if (r == 0 && w_v == 'c') REACH("6Tc creates a task");
	if (r == 0 && w_v == 'C') REACH("old 6TC ignored");
	if (r == 0 && w_v == 'x') REACH("6Tx handled");
	if (r != 0 && w_v == 'c' && w_psize == 12) REACH("12-byte create payload refused");
	if (r != 0 && w_v == 'z') REACH("unknown task event refused");
}

/* ---------------- update_task: state, then subsystem, then channels, then rules ----------------
 * body invariant used: a body's task pointer is never NULL (body_create refuses a
 * NULL task and nothing changes it). */
#define TOP (TH->task_stack.body_stack.top)
int cl_update_task_state(struct emu *emu)
__CPROVER_requires(SEQ_PRE)
__CPROVER_assigns(g_seq, g_sq_state, TOP)
__CPROVER_ensures(g_seq == OLD(g_seq) + 1 && g_at_state == OLD(g_seq) && g_ret_state == RV)
__CPROVER_ensures(TOP == NULL || __CPROVER_pointer_equals(TOP, g_nb))
__CPROVER_ensures(RV != 0 || (emu->ev->v != 'x' && emu->ev->v != 'r') || (TOP != NULL && TOP->state == BODY_ST_RUNNING))
;
int cl_update_task_ss_channel(struct emu *emu, char tr)
__CPROVER_requires(SEQ_PRE)
__CPROVER_assigns(g_seq, g_sq_ss)
__CPROVER_ensures(g_seq == OLD(g_seq) + 1 && g_at_ss == OLD(g_seq) && g_ret_ss == RV && g_ss_tr == tr)
;
int cl_update_task_channels(struct emu *emu, char tr, struct task *prev, struct task *next)
__CPROVER_requires(SEQ_PRE)
__CPROVER_requires((tr != 'x' && tr != 'r') || next != NULL)
__CPROVER_assigns(g_seq, g_sq_chan)
__CPROVER_ensures(g_seq == OLD(g_seq) + 1 && g_at_chan == OLD(g_seq) && g_ret_chan == RV && g_chan_tr == tr &&
	g_chan_prev == (void *) prev && g_chan_next == (void *) next)
;
int cl_enforce_task_rules(struct emu *emu, char tr, struct body *bnext)
__CPROVER_requires(SEQ_PRE)
__CPROVER_requires((tr != 'x' && tr != 'X') || bnext != NULL)
__CPROVER_assigns(g_seq, g_sq_rules)
__CPROVER_ensures(g_seq == OLD(g_seq) + 1 && g_at_rules == OLD(g_seq) && g_ret_rules == RV && g_rules_tr == tr &&
	g_rules_next == (void *) bnext)
;

struct task *g_prev_task;      /* task of the body running on this thread before the event (or NULL) */
#define RUNNING_TOP(t) (((t) != NULL && (t)->state == BODY_ST_RUNNING) ? (t) : NULL)
#define NEXT_RUN RUNNING_TOP(TOP)     /* evaluated in the post-state */
#define NEXT_TASK (NEXT_RUN != NULL ? NEXT_RUN->task : NULL)
#define TR_EXP ((char) ((emu->ev->v == 'x' && g_prev_task != NULL) ? 'X' : \
	(emu->ev->v == 'e' && NEXT_TASK != NULL) ? 'E' : (char) emu->ev->v))
int c_update_task(struct emu *emu)
__CPROVER_requires(EMU_SHAPE_BASE && IS_UPDATE)
__CPROVER_requires(TOP == NULL || (__CPROVER_is_fresh(TOP, sizeof(struct body)) && TOP->task != NULL))
__CPROVER_requires(g_nb == NULL || __CPROVER_pointer_equals(g_nb, TOP) || (__CPROVER_is_fresh(g_nb, sizeof(struct body)) && g_nb->task != NULL))
__CPROVER_requires(g_prev_task == (RUNNING_TOP(TOP) != NULL ? TOP->task : NULL))
__CPROVER_requires(WBIND(uts, w_v == emu->ev->v) && DIAG_PRE && g_seq == 0)
__CPROVER_assigns(DIAG_FRAME, TOP, SEQ_FRAME)
__CPROVER_ensures(g_seq >= 1 && g_at_state == 0)
__CPROVER_ensures(g_ret_state == 0 || (RV == -1 && g_seq == 1))
__CPROVER_ensures(g_ret_state != 0 || (g_seq >= 2 && g_at_ss == 1 && g_ss_tr == (char) emu->ev->v))
__CPROVER_ensures(g_ret_state != 0 || g_ret_ss == 0 || (RV == -1 && g_seq == 2))
/* the task channels get the expanded transition and the tasks whose bodies ran before / run now */
__CPROVER_ensures(g_ret_state != 0 || g_ret_ss != 0 || (
	g_seq >= 3 && g_at_chan == 2 && g_chan_tr == TR_EXP && g_chan_prev == (void *) g_prev_task && g_chan_next == (void *) NEXT_TASK))
__CPROVER_ensures(g_ret_state != 0 || g_ret_ss != 0 || g_ret_chan == 0 || (RV == -1 && g_seq == 3))
/* the rules get the same transition and the body that runs now */
__CPROVER_ensures(g_ret_state != 0 || g_ret_ss != 0 || g_ret_chan != 0 || (
	g_seq == 4 && g_at_rules == 3 && g_rules_tr == TR_EXP && g_rules_next == (void *) NEXT_RUN &&
	(RV == 0) == (g_ret_rules == 0)))
__CPROVER_ensures(RV == 0 || RV == -1)
__CPROVER_ensures(RV == 0 || g_err > OLD(g_err))
;
void h_update_task(void)
{
	struct emu *emu;
	WITNESS_ON(uts);
	int r = update_task(emu);
	if (r == 0 && w_v == 'x' && g_prev_task == NULL) REACH("x accepted");
	if (r == 0 && w_v == 'x' && g_prev_task != NULL) REACH("nested x (X) accepted");
	if (r == 0 && w_v == 'e' && g_chan_tr == 'E') REACH("nested end (E) accepted");
	if (r != 0 && g_seq == 1) REACH("refused by the state update");
}
