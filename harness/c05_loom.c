/* C05 -- loom_get_cpu of the real loom.c */
#include "prelude.h"
#include "loom.c"                   /* the real /repo/src/emu/loom.c */
#include "harness/c05_loom.h"

void h_loom_get_cpu(void)
{
	struct loom *loom;
	int index;
	WITNESS_ON(loom_get_cpu);
	struct cpu *r = loom_get_cpu(loom, index);
	if (r != NULL && w_lg_index == -1) REACH("virtual cpu");
	if (r == NULL && w_lg_index < -1) REACH("negative index names no cpu");
	if (r == NULL && w_lg_index >= 0 && (unsigned long) w_lg_index >= w_lg_ncpus) REACH("index past the last cpu names no cpu");
	if (w_lg_index >= 0 && (unsigned long) w_lg_index < w_lg_ncpus && w_lg_index > 1000) REACH("index in range");
}
