/* C06 -- bay_propagate / propagate_chan on the real bay.c + chan.c (BOUNDED stand-in).
 * Bound: <= 2 channels dirty at the start, each with <= 2 enabled callbacks per phase (dirty, emit),
 * plus one channel X that is clean at the start and may be written (real chan_set -> real
 * cb_chan_is_dirty) by any callback, i.e. a mux output that becomes dirty during propagation; X has
 * <= 1 callback per phase.  Plain CBMC harness: precondition assumed, postconditions asserted. */
#include "prelude.h"
#include "value.h"
_Static_assert(sizeof(struct value) == 16, "struct value has no padding");
#undef value_is_equal
#define value_is_equal(a, b) ((a)->type == (b)->type && (a)->i == (b)->i)
#include "chan.c"          /* real: chan_flush, chan_set, set_dirty */
#include "bay.c"           /* real: bay_propagate, propagate_chan, cb_chan_is_dirty */

#define NCH 2              /* channel objects (dirty at the start: g_nd <= MAXND of them) */
#define NCB 2              /* callback records per channel and phase (enabled: <= MAXCB of them) */
#ifndef MAXND
#define MAXND NCH
#endif
#ifndef MAXCB
#define MAXCB NCB
#endif
#ifndef CASCADE
#define CASCADE 0          /* 1: callbacks may write channel X (it becomes dirty during the propagation) */
#endif
#define NREC (NCH * 2 * NCB + 2)

static void *alloc(size_t n) { void *p = malloc(n); __CPROVER_assume(p != NULL); return p; } /* allocation succeeded */
static inline struct value spec_cur(struct chan *c)
{
	struct value v;
	if (c->type == CHAN_SINGLE) { v = c->data.value; return v; }
	if (c->data.stack.n > 0) { v = c->data.stack.values[c->data.stack.n - 1]; return v; }
	v.type = VALUE_NULL; v.i = 0;
	return v;
}
#define CHAN_WF(c) ((c)->type == CHAN_SINGLE || ((c)->type == CHAN_STACK && (c)->data.stack.n >= 0 && (c)->data.stack.n <= MAX_CHAN_STACK))

struct bay *G_bay;
struct bay_chan *G_b[NCH], *G_xb;
struct chan *G_c[NCH], *G_xc;
int g_ncb[NCH][2];         /* callbacks of channel k in phase p */
int g_nd;                  /* channels dirty at the start */

/* one record per callback: what the bay did with it */
struct rec { int exists, calls, state, ret, seq, cascade, chan_ok; struct chan *chan; };
struct rec R[NREC];
#define REC(k, p, j) R[((k) * 2 + (p)) * NCB + (j)]
#define XREC(p) R[NCH * 2 * NCB + (p)]
int g_seq, g_failed_seq;   /* call counter; sequence number of the first failing callback (or -1) */
int g_x_written;           /* X was written (became dirty) during the propagation */
struct value g_x_val;

static int
stub_cb(struct chan *chan, void *arg)
{
	struct rec *r = arg;
	r->calls++;
	r->state = (int) G_bay->state;
	r->seq = g_seq++;
	r->chan_ok = (chan == r->chan);
	r->ret = 0;
	if (CASCADE && r->cascade && !G_xc->is_dirty) {
		/* like cb_select / cb_input writing the mux output: X BECOMES dirty, so (chan_set contract, group
		 * chan_set) its dirty callback -- the bay's real cb_chan_is_dirty -- is called exactly once */
		G_xc->is_dirty = 1;
		g_x_written = 1;
		if (cb_chan_is_dirty(G_xc, G_xb) != 0)
			r->ret = -1;
	}
	if (r->ret == 0 && nondet_bool())
		r->ret = -1;          /* any callback may fail */
	if (r->ret != 0 && g_failed_seq < 0)
		g_failed_seq = r->seq;
	return r->ret;
}

static void
link_cbs(struct bay_chan *b, int phase, struct bay_cb *c0, struct bay_cb *c1)
{
	/* utlist DL list of 0..2 enabled callbacks */
	if (c0 == NULL) { b->cb[phase] = NULL; return; }
	b->cb[phase] = c0;
	if (c1 == NULL) { c0->next = NULL; c0->prev = c0; return; }
	c0->next = c1; c1->prev = c0; c1->next = NULL; c0->prev = c1;
}

static struct bay_cb *
mk_cb(struct bay_chan *b, int phase, struct rec *r, struct chan *c, int may_cascade)
{
	struct bay_cb *cb = alloc(sizeof(struct bay_cb));
	cb->func = stub_cb; cb->arg = r; cb->bchan = b; cb->enabled = 1; cb->type = phase;
	r->exists = 1; r->calls = 0; r->state = -1; r->ret = 0; r->seq = -1; r->chan = c; r->chan_ok = 0;
	/* CASCADE 1: the first dirty-phase callback of channel 0 writes X; 2: the first emit-phase callback does */
	r->cascade = (CASCADE == 1 && r == &REC(0, 0, 0)) || (CASCADE == 2 && r == &REC(0, 1, 0));
	return cb;
}

static void
mk_chan_cbs(struct bay_chan *b, struct chan *c, int k)
{
	for (int p = 0; p < 2; p++) {
		int n = nondet_int();
		__CPROVER_assume(n >= 0 && n <= MAXCB);
#if CASCADE
		if (k == 0 && p == CASCADE - 1) n = 1;   /* the writing callback exists (keeps the list shape concrete) */
#endif
		g_ncb[k][p] = n;
		struct bay_cb *c0 = n >= 1 ? mk_cb(b, p, &REC(k, p, 0), c, 1) : NULL;
		struct bay_cb *c1 = n >= 2 ? mk_cb(b, p, &REC(k, p, 1), c, 1) : NULL;
		link_cbs(b, p, c0, c1);
	}
}

static void
build(void)
{
	for (int i = 0; i < NREC; i++) { R[i].exists = 0; R[i].calls = 0; R[i].seq = -1; R[i].cascade = 0; }
	g_seq = 0; g_failed_seq = -1; g_x_written = 0;
	G_bay = alloc(sizeof(struct bay));
	G_bay->dirty = NULL;
#if CASCADE
	g_nd = 1;
#elif defined(ND)
	g_nd = ND;       /* one group per number of dirty channels (a concrete list shape is much cheaper) */
#else
	g_nd = nondet_int();
	__CPROVER_assume(g_nd >= 0 && g_nd <= MAXND);
#endif
	for (int k = 0; k < NCH; k++) {
		G_b[k] = alloc(sizeof(struct bay_chan));
		G_c[k] = alloc(sizeof(struct chan));
		G_b[k]->chan = G_c[k]; G_b[k]->bay = G_bay;
		G_c[k]->dirty_cb = cb_chan_is_dirty; G_c[k]->dirty_arg = G_b[k];   /* as bay_register leaves it */
		mk_chan_cbs(G_b[k], G_c[k], k);
	}
	/* X: registered, clean, not on the dirty list */
	G_xb = alloc(sizeof(struct bay_chan));
	G_xc = alloc(sizeof(struct chan));
	G_xb->chan = G_xc; G_xb->bay = G_bay;
	G_xc->dirty_cb = cb_chan_is_dirty; G_xc->dirty_arg = G_xb;
	link_cbs(G_xb, BAY_CB_DIRTY, nondet_bool() ? mk_cb(G_xb, BAY_CB_DIRTY, &XREC(0), G_xc, 0) : NULL, NULL);
	link_cbs(G_xb, BAY_CB_EMIT, nondet_bool() ? mk_cb(G_xb, BAY_CB_EMIT, &XREC(1), G_xc, 0) : NULL, NULL);
	/* the dirty list: the first g_nd channels, in order */
	if (g_nd >= 1) { G_bay->dirty = G_b[0]; G_b[0]->prev = G_b[0]; G_b[0]->next = NULL; }
	if (g_nd >= 2) { G_b[0]->next = G_b[1]; G_b[1]->prev = G_b[0]; G_b[1]->next = NULL; G_b[0]->prev = G_b[1]; }
}

/* BAY_WF: a channel is on the dirty list exactly when it is dirty (set_dirty calls cb_chan_is_dirty
 * once, when the channel becomes dirty; bay_propagate empties the list and flushes); bay_chan.is_dirty
 * is 0 (nothing ever sets it); channels are well formed. */
#define BAY_PRE ( \
	(g_nd < 1 || G_c[0]->is_dirty != 0) && (g_nd < 2 || G_c[1]->is_dirty != 0) && \
	(g_nd >= 1 || G_c[0]->is_dirty == 0) && (g_nd >= 2 || G_c[1]->is_dirty == 0) && G_xc->is_dirty == 0 && \
	G_b[0]->is_dirty == 0 && G_b[1]->is_dirty == 0 && G_xb->is_dirty == 0 && \
	CHAN_WF(G_c[0]) && CHAN_WF(G_c[1]) && CHAN_WF(G_xc) && DIAG_PRE)

int w_nd, w_n00, w_n01, w_n10, w_n11, w_x_written, w_failed;

/* a callback that had to run in phase p of a successful propagation ran exactly once, in that phase,
 * on its own channel */
#define RAN_ONCE(r, st) ((r).calls == 1 && (r).state == (st) && (r).chan_ok)
#define NEVER(r) ((r).calls == 0)

#ifdef H_BAY_PROPAGATE
void h_bay_propagate(void)
{
	bay_cb_func_t keep1 = stub_cb; chan_cb_t keep2 = cb_chan_is_dirty; (void) keep1; (void) keep2;
	build();
	__CPROVER_assume(BAY_PRE);
	struct value v0 = spec_cur(G_c[0]), v1 = spec_cur(G_c[1]);
	g_x_val = spec_cur(G_xc);
	struct value l0 = G_c[0]->last_value, l1 = G_c[1]->last_value, lx = G_xc->last_value;
	w_nd = g_nd; w_n00 = g_ncb[0][0]; w_n01 = g_ncb[0][1]; w_n10 = g_ncb[1][0]; w_n11 = g_ncb[1][1];

	int r = bay_propagate(G_bay);

	w_x_written = g_x_written; w_failed = (g_failed_seq >= 0);
	VASSERT(r == 0 || r == -1, "returns 0 or -1");
	/* fails only if a callback failed -- and then it does fail */
	VASSERT((r != 0) == (g_failed_seq >= 0), "bay_propagate fails exactly when a callback failed");
	for (int k = 0; k < NCH; k++) {
		for (int p = 0; p < 2; p++) {
			for (int j = 0; j < NCB; j++) {
				struct rec *q = &REC(k, p, j);
				int listed = k < g_nd && j < g_ncb[k][p];
				/* never more than once; callbacks of clean channels and absent callbacks never */
				VASSERT(q->calls <= 1, "no callback runs twice");
				VASSERT(listed || q->calls == 0, "callbacks of channels that are not dirty never run");
				if (listed && r == 0)
					VASSERT(RAN_ONCE(*q, p == 0 ? BAY_PROPAGATING : BAY_EMITTING),
						"every enabled callback of a dirty channel runs exactly once, in its phase, on its channel");
				/* nothing runs after the first failure */
				VASSERT(q->calls == 0 || g_failed_seq < 0 || q->seq <= g_failed_seq, "nothing runs after a failed callback");
			}
		}
	}
	/* order: channel by channel in dirty-list order, callbacks in list order, all dirty-phase calls before any emit-phase call */
	if (r == 0 && g_nd >= 1 && g_ncb[0][0] == 2) VASSERT(REC(0, 0, 0).seq < REC(0, 0, 1).seq, "callbacks of a channel run in list order");
	if (r == 0 && g_nd >= 2 && g_ncb[0][0] >= 1 && g_ncb[1][0] >= 1) VASSERT(REC(0, 0, g_ncb[0][0] - 1).seq < REC(1, 0, 0).seq, "channels are served in dirty-list order");
	if (r == 0 && g_nd >= 2 && g_ncb[1][0] >= 1 && g_ncb[0][1] >= 1) VASSERT(REC(1, 0, g_ncb[1][0] - 1).seq < REC(0, 1, 0).seq, "the emit phase starts after the whole dirty phase");
	/* the channel that became dirty during the dirty phase is served in the same propagation */
	VASSERT(XREC(0).calls <= 1 && XREC(1).calls <= 1, "no callback of X runs twice");
	if (!g_x_written) VASSERT(NEVER(XREC(0)) && NEVER(XREC(1)), "X stayed clean: its callbacks never run");
	if (g_x_written && r == 0) {
		VASSERT(!XREC(0).exists || RAN_ONCE(XREC(0), BAY_PROPAGATING), "X became dirty: its dirty callback runs once in the dirty phase");
		VASSERT(!XREC(1).exists || RAN_ONCE(XREC(1), BAY_EMITTING), "X became dirty: its emit callback runs once in the emit phase");
		struct value lv = G_xc->last_value;
		VASSERT(G_xc->is_dirty == 0 && lv.type == g_x_val.type && lv.i == g_x_val.i, "X is flushed with the value written");
	}
	if (r == 0) {
		/* all dirty channels flushed: clean, last_value is the value shown; list empty; bay ready */
		VASSERT(G_bay->dirty == NULL && G_bay->state == BAY_READY, "dirty list empty and bay READY");
		struct value a = G_c[0]->last_value, b = G_c[1]->last_value;
		VASSERT(G_c[0]->is_dirty == 0 && G_c[1]->is_dirty == 0 && G_xc->is_dirty == 0, "every channel is clean afterwards");
		if (g_nd >= 1) VASSERT(a.type == v0.type && a.i == v0.i, "flushed: last_value is the value shown (channel 0)");
		if (g_nd >= 2) VASSERT(b.type == v1.type && b.i == v1.i, "flushed: last_value is the value shown (channel 1)");
		if (g_nd < 1) VASSERT(a.type == l0.type && a.i == l0.i, "clean channel 0 keeps its last value");
		if (g_nd < 2) VASSERT(b.type == l1.type && b.i == l1.i, "clean channel 1 keeps its last value");
		VASSERT(G_b[0]->is_dirty == 0 && G_b[1]->is_dirty == 0 && G_xb->is_dirty == 0, "bay channels unmarked");
	} else {
		VASSERT(G_bay->state == BAY_PROPAGATING || G_bay->state == BAY_EMITTING, "a failed propagation does not claim READY");
		VASSERT((g_nd < 1 || G_c[0]->is_dirty != 0) && (g_nd < 2 || G_c[1]->is_dirty != 0), "a failed propagation flushes nothing");
	}
	/* the values shown are not touched by the bay */
	struct value c0 = spec_cur(G_c[0]), c1 = spec_cur(G_c[1]);
	VASSERT(c0.type == v0.type && c0.i == v0.i && c1.type == v1.type && c1.i == v1.i, "channel values are not modified by propagation");

#if MAXND >= 2 && MAXCB >= 2 && (!defined(ND) || ND == 2)
	if (r == 0 && w_nd == 2 && w_n00 == 2 && w_n01 == 2 && w_n10 == 2 && w_n11 == 2) REACH("two dirty channels, two callbacks per phase each, all ran");
#endif
#if !CASCADE && (!defined(ND) || ND == 0)
	if (r == 0 && w_nd == 0) REACH("nothing dirty");
#endif
#if CASCADE == 1
	if (r == 0 && w_nd == 1 && w_x_written && XREC(0).exists && XREC(1).exists) REACH("a callback made another channel dirty; it was served and flushed");
#endif
#if CASCADE == 2
	if (r != 0 && w_x_written && G_bay->state == BAY_EMITTING && XREC(0).calls == 0) REACH("an emit callback wrote a channel: refused");
	VASSERT(!w_x_written || r != 0, "writing a channel from an emit callback makes the propagation fail");
#endif
#if MAXND >= 2 && (!defined(ND) || ND == 2)
	if (r != 0 && w_nd == 2) REACH("a callback failed");
#endif
#if !defined(ND) || ND >= 1
	if (r != 0 && w_nd >= 1 && G_bay->state == BAY_EMITTING) REACH("an emit callback failed");
#endif
#if CASCADE != 2
	if (r == 0) REACH("propagation succeeded");
#endif
#if MAXND >= 2 && (!defined(ND) || ND == 2)
	if (r == 0 && w_nd == 2 && w_n00 == 0 && w_n10 == 0 && w_n01 == 0 && w_n11 == 0) REACH("dirty channels without callbacks are just flushed");
#endif
}
#endif

/* ---------------- propagate_chan alone: one channel, one phase ---------------- */
#ifdef H_PROPAGATE_CHAN
void h_propagate_chan(void)
{
	bay_cb_func_t keep1 = stub_cb; chan_cb_t keep2 = cb_chan_is_dirty; (void) keep1; (void) keep2;
	build();
	__CPROVER_assume(BAY_PRE);
	int phase = nondet_bool() ? BAY_CB_EMIT : BAY_CB_DIRTY;
	G_bay->state = phase == BAY_CB_DIRTY ? BAY_PROPAGATING : BAY_EMITTING;
	int r = propagate_chan(G_b[0], (enum bay_cb_type) phase);
	int n = g_ncb[0][phase];
	VASSERT((r != 0) == (g_failed_seq >= 0), "propagate_chan fails exactly when one of its callbacks failed");
	for (int j = 0; j < NCB; j++) {
		struct rec *q = &REC(0, phase, j), *o = &REC(0, 1 - phase, j), *z = &REC(1, phase, j);
		VASSERT(o->calls == 0 && z->calls == 0 && REC(1, 1 - phase, j).calls == 0, "only callbacks of this channel and phase run");
		VASSERT(q->calls <= 1 && (j < n || q->calls == 0), "each listed callback at most once");
		if (r == 0 && j < n) VASSERT(q->calls == 1 && q->chan_ok, "each listed callback exactly once, on this channel");
		VASSERT(q->calls == 0 || g_failed_seq < 0 || q->seq <= g_failed_seq, "stops at the first failure");
	}
	if (r == 0 && n == 2) VASSERT(REC(0, phase, 0).seq < REC(0, phase, 1).seq, "in list order");
	if (r == 0 && n == 2) REACH("two callbacks ran");
	if (r == 0 && n == 0) REACH("no callbacks");
	if (r != 0 && n == 2 && REC(0, phase, 1).calls == 0) REACH("first callback failed, second not run");
}
#endif
