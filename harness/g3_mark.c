/* G3 (gap closure for C17) -- the outer loops of the real src/emu/ovni/mark.c, over the per-thread / per-CPU /
 * per-type functions already proved in c17_mark.c and c17_wire.c:
 *
 *   mark_create     the type table starts empty; EVERY thread of the system is scanned once (scan_thread), in list
 *                   order; no type defined: nothing is created; otherwise every thread gets its mark channels and
 *                   tracks (create_thread_chan, with the emulator's bay) and every CPU of the system its tracks
 *                   (init_cpu), each exactly once; accepted iff no callee refused
 *   connect_thread  the "thread" trace: every thread's mark channels are wired to the thread PRV (connect_thread_prv),
 *                   then every type is written into the thread PCF (init_pcf)
 *   connect_cpu     the "cpu" trace: every CPU is wired to the CPU PRV (connect_cpu_prv), then the CPU PCF gets the types
 *   init_pcf        every mark type of the table gets its PCF section (create_type), once
 *   mark_connect    no type: nothing; otherwise threads and CPUs are both connected; accepted iff both are
 *   find_label / find_mark_type   the wrappers return the uthash lookup of exactly (table, key, key length)
 *
 * The inner functions are REPLACED by call-log abstractions cl_* (k-th call: arguments and result recorded, result
 * arbitrary); their exact contracts are proved in plan C17 groups scan_thread, create_thread_chan, init_cpu,
 * connect_thread_prv, connect_cpu_prv, create_type.  Bounded: <= 2 threads, <= 2 CPUs, <= 2 mark types.
 * recorder.c / pv/pvt.c are outside the unit: stubs (recorder_find_pvt may fail; pvt_get_prv / pvt_get_pcf are
 * injective functions of the trace).  Objects are allocated one by one by the harness (c17_wire.c, MEASURED). */
#include "c17_mark.h"
#include "recorder.h"
#include "extend.c"          /* real extend_get (EXT macro) */

/* ---- uthash HASH_FIND: one-cell map model that logs what was asked (HASH_FIND_LONG expands to it) ---- */
struct g3_hfind { unsigned n; const void *head; long long key; unsigned long keylen; } g_hfind;
void *g_hf_res;            /* value of the observed cell (NULL: key absent) */
#undef HASH_FIND
#define HASH_FIND(hh_, head_, keyptr_, keylen_, out_) { g_hfind.n++; g_hfind.head = (const void *) (head_); \
	g_hfind.key = (long long) *(keyptr_); g_hfind.keylen = (keylen_); (out_) = g_hf_res; }

/* ---- call logs ---- */
struct g3_call { void *a, *b, *c; long x, y; int ret; };
struct g3_cl { unsigned n; struct g3_call c[2]; };
struct g3_logs { struct g3_cl scan, ctc, icpu, ctp, ccp, ipcf, ctype, cth, ccpu, findpvt, getprv, getpcf; } g_G;
static inline void g3_log(struct g3_cl *l, void *a, void *b, void *c, long x, long y, int ret)
{
	if (l->n < 2) { struct g3_call e; e.a = a; e.b = b; e.c = c; e.x = x; e.y = y; e.ret = ret; l->c[l->n] = e; }
	l->n++;
}
#define RESET_G() { g_G.scan.n = 0; g_G.ctc.n = 0; g_G.icpu.n = 0; g_G.ctp.n = 0; g_G.ccp.n = 0; g_G.ipcf.n = 0; g_G.ctype.n = 0; \
	g_G.cth.n = 0; g_G.ccpu.n = 0; g_G.findpvt.n = 0; g_G.getprv.n = 0; g_G.getpcf.n = 0; }
#define G_PRE (g_G.scan.n == 0 && g_G.ctc.n == 0 && g_G.icpu.n == 0 && g_G.ctp.n == 0 && g_G.ccp.n == 0 && g_G.ipcf.n == 0 && g_G.ctype.n == 0 && \
	g_G.cth.n == 0 && g_G.ccpu.n == 0 && g_G.findpvt.n == 0 && g_G.getprv.n == 0 && g_G.getpcf.n == 0 && DIAG_PRE)

/* ---- recorder / pvt (outside the unit) ---- */
static char g_pvtobj[3][8], g_prvobj[3][8], g_pcfobj[3][8];
#define PVT_THREAD ((struct pvt *) g_pvtobj[1])
#define PVT_CPU ((struct pvt *) g_pvtobj[2])
#define PVT_IDX(p) ((p) == PVT_THREAD ? 1 : (p) == PVT_CPU ? 2 : 0)
#define PRV_OF(p) ((struct prv *) g_prvobj[PVT_IDX(p)])
#define PCF_OF(p) ((struct pcf *) g_pcfobj[PVT_IDX(p)])
#define NAME_THREAD(s) ((s)[0] == 't' && (s)[1] == 'h' && (s)[2] == 'r' && (s)[3] == 'e' && (s)[4] == 'a' && (s)[5] == 'd' && (s)[6] == '\0')
#define NAME_CPU(s) ((s)[0] == 'c' && (s)[1] == 'p' && (s)[2] == 'u' && (s)[3] == '\0')
struct pvt *recorder_find_pvt(struct recorder *rec, const char *name)
{
	long cls = NAME_THREAD(name) ? 1 : NAME_CPU(name) ? 2 : 0;
	struct pvt *r = nondet_bool() ? NULL : (struct pvt *) g_pvtobj[cls];
	g3_log(&g_G.findpvt, rec, r, NULL, cls, 0, r == NULL ? -1 : 0);
	return r;
}
struct prv *pvt_get_prv(struct pvt *pvt) { g3_log(&g_G.getprv, pvt, NULL, NULL, 0, 0, 0); return PRV_OF(pvt); }
struct pcf *pvt_get_pcf(struct pvt *pvt) { g3_log(&g_G.getpcf, pvt, NULL, NULL, 0, 0, 0); return PCF_OF(pvt); }

#include "ovni/mark.c"       /* the real /repo/src/emu/ovni/mark.c */

/* =====================================================================================================
 * find_label / find_mark_type (what c17_mark.c's ASSUMED contracts ca_find_label / ca_find_mark_type say)
 * ===================================================================================================== */
struct mark_label *c_find_label(struct mark_type *t, int64_t value)
__CPROVER_requires(__CPROVER_is_fresh(t, sizeof(*t)))
__CPROVER_requires(g_hf_res == NULL || __CPROVER_is_fresh(g_hf_res, sizeof(struct mark_label)))
__CPROVER_requires(g_hfind.n < 1000u)
__CPROVER_assigns(g_hfind)
/* the label table of THIS type, asked once about the whole 64-bit value */
__CPROVER_ensures(g_hfind.n == OLD(g_hfind.n) + 1 && g_hfind.head == (const void *) t->labels && g_hfind.key == value && g_hfind.keylen == sizeof(int64_t))
__CPROVER_ensures(__CPROVER_pointer_equals(RV, (struct mark_label *) g_hf_res))
;
void h_find_label(void)
{
	struct mark_type *t; int64_t value;
	struct mark_label *l = find_label(t, value);
	if (l != NULL && value == -5) REACH("label of value -5 found");
	if (l != NULL && value == 0x100000001L) REACH("label of a value beyond 32 bits found");
	if (l == NULL) REACH("no label");
}
struct mark_type *c_find_mark_type(struct ovni_mark_emu *m, long type)
__CPROVER_requires(__CPROVER_is_fresh(m, sizeof(*m)))
__CPROVER_requires(g_hf_res == NULL || __CPROVER_is_fresh(g_hf_res, sizeof(struct mark_type)))
__CPROVER_requires(g_hfind.n < 1000u)
__CPROVER_assigns(g_hfind)
__CPROVER_ensures(g_hfind.n == OLD(g_hfind.n) + 1 && g_hfind.head == (const void *) m->types && g_hfind.key == type && g_hfind.keylen == sizeof(long))
__CPROVER_ensures(__CPROVER_pointer_equals(RV, (struct mark_type *) g_hf_res))
;
void h_find_mark_type(void)
{
	struct ovni_mark_emu *m; long type;
	struct mark_type *t = find_mark_type(m, type);
	if (t != NULL && type == 99) REACH("type 99 found");
	if (t == NULL) REACH("type not defined");
}

/* =====================================================================================================
 * call-log abstractions of the inner functions
 * ===================================================================================================== */
#define ENTRY_IS(L, k, a_, b_, c_, x_, y_) ((L).c[k].a == (void *) (a_) && (L).c[k].b == (void *) (b_) && (L).c[k].c == (void *) (c_) && \
	(L).c[k].x == (long) (x_) && (L).c[k].y == (long) (y_) && (L).c[k].ret == RV)
#define KEEP0(L) ((L).c[0].a == OLD((L).c[0].a) && (L).c[0].b == OLD((L).c[0].b) && (L).c[0].c == OLD((L).c[0].c) && \
	(L).c[0].x == OLD((L).c[0].x) && (L).c[0].y == OLD((L).c[0].y) && (L).c[0].ret == OLD((L).c[0].ret))
#define CL_LOGGED(L, a_, b_, c_, x_, y_) \
	__CPROVER_ensures((L).n == OLD((L).n) + 1 && (RV == 0 || RV == -1)) \
	__CPROVER_ensures(OLD((L).n) != 0 || ENTRY_IS(L, 0, a_, b_, c_, x_, y_)) \
	__CPROVER_ensures(OLD((L).n) != 1 || (ENTRY_IS(L, 1, a_, b_, c_, x_, y_) && KEEP0(L)))

/* scan_thread may define types: the table changes arbitrarily; the log keeps what the table was at the call */
int cl_scan_thread(struct ovni_mark_emu *memu, struct thread *t)
__CPROVER_requires(g_G.scan.n < 2 && g_err < 0x40000000u)
__CPROVER_assigns(g_G.scan, memu->ntypes, memu->types, g_err)
CL_LOGGED(g_G.scan, memu, t, NULL, OLD(memu->ntypes), OLD(memu->types) == NULL)
__CPROVER_ensures(memu->ntypes >= 0 && memu->ntypes <= 100)
__CPROVER_ensures(g_err >= OLD(g_err) && g_err <= OLD(g_err) + 1 && (RV == 0 || g_err > OLD(g_err)))
;
#define CL_ERR __CPROVER_ensures(g_err >= OLD(g_err) && g_err <= OLD(g_err) + 1 && (RV == 0 || g_err > OLD(g_err)))
int cl_create_thread_chan(struct ovni_mark_emu *m, struct bay *bay, struct thread *th)
__CPROVER_requires(g_G.ctc.n < 2 && g_err < 0x40000000u)
__CPROVER_assigns(g_G.ctc, g_err)
CL_LOGGED(g_G.ctc, m, bay, th, m->ntypes, 0)
CL_ERR
;
int cl_init_cpu(struct ovni_mark_emu *m, struct bay *bay, struct cpu *cpu)
__CPROVER_requires(g_G.icpu.n < 2 && g_err < 0x40000000u)
__CPROVER_assigns(g_G.icpu, g_err)
CL_LOGGED(g_G.icpu, m, bay, cpu, m->ntypes, 0)
CL_ERR
;
int cl_connect_thread_prv(struct emu *emu, struct thread *sth, struct prv *prv)
__CPROVER_requires(g_G.ctp.n < 2 && g_err < 0x40000000u)
__CPROVER_assigns(g_G.ctp, g_err)
CL_LOGGED(g_G.ctp, emu, sth, prv, 0, 0)
CL_ERR
;
int cl_connect_cpu_prv(struct emu *emu, struct cpu *scpu, struct prv *prv)
__CPROVER_requires(g_G.ccp.n < 2 && g_err < 0x40000000u)
__CPROVER_assigns(g_G.ccp, g_err)
CL_LOGGED(g_G.ccp, emu, scpu, prv, 0, 0)
CL_ERR
;
int cl_init_pcf(struct emu *emu, struct pcf *pcf)
__CPROVER_requires(g_G.ipcf.n < 2 && g_err < 0x40000000u)
__CPROVER_assigns(g_G.ipcf, g_err)
CL_LOGGED(g_G.ipcf, emu, pcf, NULL, 0, 0)
CL_ERR
;
int cl_create_type(struct pcf *pcf, struct mark_type *type)
__CPROVER_requires(g_G.ctype.n < 2 && g_err < 0x40000000u)
__CPROVER_assigns(g_G.ctype, g_err)
CL_LOGGED(g_G.ctype, pcf, type, NULL, 0, 0)
CL_ERR
;
int cl_connect_thread(struct emu *emu)
__CPROVER_requires(g_G.cth.n < 2 && g_err < 0x40000000u)
__CPROVER_assigns(g_G.cth, g_err)
CL_LOGGED(g_G.cth, emu, NULL, NULL, 0, 0)
CL_ERR
;
int cl_connect_cpu(struct emu *emu)
__CPROVER_requires(g_G.ccpu.n < 2 && g_err < 0x40000000u)
__CPROVER_assigns(g_G.ccpu, g_err)
CL_LOGGED(g_G.ccpu, emu, NULL, NULL, 0, 0)
CL_ERR
;

/* =====================================================================================================
 * the system as the harness builds it: <= 2 threads (gnext), <= 2 CPUs (next), the ovni extension
 * ===================================================================================================== */
#define OBJ(p) ((p) != NULL && __CPROVER_rw_ok((p), sizeof(*(p))))
#define NEW(T, p) T *p = malloc(sizeof(T)); if (p == NULL) return
struct emu *g_emu; struct ovni_emu *g_oemu; struct thread *g_th0, *g_th1; struct cpu *g_cpu0, *g_cpu1;
struct mark_type *g_t0, *g_t1;
#define NTH (g_th0 == NULL ? 0u : g_th1 == NULL ? 1u : 2u)
#define NCPU (g_cpu0 == NULL ? 0u : g_cpu1 == NULL ? 1u : 2u)
#define NTY (g_t0 == NULL ? 0u : g_t1 == NULL ? 1u : 2u)
#define EMU_TIED(emu) (OBJ(emu) && (emu) == g_emu && g_oemu == (struct ovni_emu *) (emu)->ext.ctx['O'] && OBJ(g_oemu))
#define THREADS_TIED(emu) (g_th0 == (emu)->system.threads && (g_th0 == NULL || (OBJ(g_th0) && g_th1 == g_th0->gnext && \
	(g_th1 == NULL || (OBJ(g_th1) && g_th1->gnext == NULL)))) && (g_th0 != NULL || g_th1 == NULL))
#define CPUS_TIED(emu) (g_cpu0 == (emu)->system.cpus && (g_cpu0 == NULL || (OBJ(g_cpu0) && g_cpu1 == g_cpu0->next && \
	(g_cpu1 == NULL || (OBJ(g_cpu1) && g_cpu1->next == NULL)))) && (g_cpu0 != NULL || g_cpu1 == NULL))
#define TYPES_TIED (g_t0 == g_oemu->mark.types && (g_t0 == NULL || (OBJ(g_t0) && g_t1 == (struct mark_type *) g_t0->hh.next && \
	(g_t1 == NULL || (OBJ(g_t1) && g_t1->hh.next == NULL)))) && (g_t0 != NULL || g_t1 == NULL))
#define BUILD_EMU() NEW(struct emu, emu); NEW(struct ovni_emu, oemu); emu->ext.ctx['O'] = oemu; g_emu = emu; g_oemu = oemu
#define BUILD_THREADS() NEW(struct thread, th0); NEW(struct thread, th1); th1->gnext = NULL; \
	{ int nth = nondet_int(); __CPROVER_assume(nth >= 0 && nth <= 2); \
	  g_th0 = nth > 0 ? th0 : NULL; g_th1 = nth > 1 ? th1 : NULL; emu->system.threads = g_th0; th0->gnext = g_th1; }
#define BUILD_CPUS() NEW(struct cpu, cpu0); NEW(struct cpu, cpu1); cpu1->next = NULL; \
	{ int nc = nondet_int(); __CPROVER_assume(nc >= 0 && nc <= 2); \
	  g_cpu0 = nc > 0 ? cpu0 : NULL; g_cpu1 = nc > 1 ? cpu1 : NULL; emu->system.cpus = g_cpu0; cpu0->next = g_cpu1; }
#define BUILD_TYPES() NEW(struct mark_type, ty0); NEW(struct mark_type, ty1); ty1->hh.next = NULL; \
	{ int nt = nondet_int(); __CPROVER_assume(nt >= 0 && nt <= 2); \
	  g_t0 = nt > 0 ? ty0 : NULL; g_t1 = nt > 1 ? ty1 : NULL; oemu->mark.types = g_t0; ty0->hh.next = g_t1; }
/* every logged call of L returned 0 */
#define ALL_OK(L) (((L).n < 1 || (L).c[0].ret == 0) && ((L).n < 2 || (L).c[1].ret == 0))
#define MK (&g_oemu->mark)

/* =====================================================================================================
 * mark_create
 * ===================================================================================================== */
#define SCAN_IS(k, th) (NTH <= (k) || (g_G.scan.c[k].a == (void *) MK && g_G.scan.c[k].b == (void *) (th) && g_G.scan.c[k].ret == 0))
#define CTC_IS(k, th) (NTH <= (k) || (g_G.ctc.c[k].a == (void *) MK && g_G.ctc.c[k].b == (void *) &emu->bay && g_G.ctc.c[k].c == (void *) (th) && \
	g_G.ctc.c[k].x == MK->ntypes && g_G.ctc.c[k].ret == 0))
#define ICPU_IS(k, cpu) (NCPU <= (k) || (g_G.icpu.c[k].a == (void *) MK && g_G.icpu.c[k].b == (void *) &emu->bay && g_G.icpu.c[k].c == (void *) (cpu) && \
	g_G.icpu.c[k].x == MK->ntypes && g_G.icpu.c[k].ret == 0))
int c_mark_create(struct emu *emu)
__CPROVER_requires(EMU_TIED(emu) && THREADS_TIED(emu) && CPUS_TIED(emu))
__CPROVER_requires(G_PRE)
__CPROVER_assigns(g_oemu->mark, g_G, DIAG_FRAME)
__CPROVER_ensures(RV == 0 || RV == -1)
/* the table is empty when the first thread is scanned (types of an earlier use do not leak in) */
__CPROVER_ensures(g_G.scan.n < 1 || (g_G.scan.c[0].x == 0 && g_G.scan.c[0].y == 1))
__CPROVER_ensures(NTH != 0 || (MK->ntypes == 0 && MK->types == NULL))
/* every thread of the system is scanned exactly once, in order, into this emulator's table */
__CPROVER_ensures(RV != 0 || (g_G.scan.n == NTH && SCAN_IS(0, g_th0) && SCAN_IS(1, g_th1)))
/* no mark type defined anywhere: nothing is created */
__CPROVER_ensures(RV != 0 || MK->ntypes != 0 || (g_G.ctc.n == 0 && g_G.icpu.n == 0))
/* otherwise every thread gets its channels/tracks and every CPU its tracks, once each, in the emulator's bay,
 * with the complete table (all threads scanned before the first creation) */
__CPROVER_ensures(RV != 0 || MK->ntypes == 0 || (g_G.ctc.n == NTH && CTC_IS(0, g_th0) && CTC_IS(1, g_th1)))
__CPROVER_ensures(RV != 0 || MK->ntypes == 0 || (g_G.icpu.n == NCPU && ICPU_IS(0, g_cpu0) && ICPU_IS(1, g_cpu1)))
/* accepted iff no callee refused; nothing is attempted after a refusal */
__CPROVER_ensures((RV == 0) == (ALL_OK(g_G.scan) && ALL_OK(g_G.ctc) && ALL_OK(g_G.icpu)))
__CPROVER_ensures(g_G.scan.n <= 2 && g_G.ctc.n <= 2 && g_G.icpu.n <= 2)
__CPROVER_ensures(RV == 0 || g_err > OLD(g_err))
;
void h_mark_create(void)
{
	BUILD_EMU();
	BUILD_THREADS();
	BUILD_CPUS();
	oemu->mark.ntypes = nondet_long();   /* arbitrary leftovers */
	RESET_G();
	int r = mark_create(emu);
	if (r == 0 && NTH == 2 && NCPU == 2 && g_G.ctc.n == 2 && g_G.icpu.n == 2) REACH("two threads scanned, two threads and two CPUs created");
	if (r == 0 && NTH == 2 && g_G.ctc.n == 0) REACH("two threads scanned, no mark type: nothing created");
	if (r == 0 && NTH == 0) REACH("no threads");
	if (r == 0 && NTH == 1 && NCPU == 1 && g_G.icpu.n == 1) REACH("one thread, one CPU");
	if (r != 0 && g_G.scan.n == 2 && g_G.ctc.n == 0) REACH("second scan refused");
	if (r != 0 && g_G.ctc.n == 2 && g_G.icpu.n == 0) REACH("second thread's channels refused");
	if (r != 0 && g_G.icpu.n == 2) REACH("second CPU refused");
}

/* =====================================================================================================
 * connect_thread / connect_cpu
 * ===================================================================================================== */
#define FOUND(cls) (g_G.findpvt.n == 1 && g_G.findpvt.c[0].a == (void *) &emu->recorder && g_G.findpvt.c[0].x == (cls))
#define CTP_IS(k, th) (NTH <= (k) || (g_G.ctp.c[k].a == (void *) emu && g_G.ctp.c[k].b == (void *) (th) && g_G.ctp.c[k].c == (void *) PRV_OF(PVT_THREAD) && g_G.ctp.c[k].ret == 0))
int c_connect_thread(struct emu *emu)
__CPROVER_requires(EMU_TIED(emu) && THREADS_TIED(emu))
__CPROVER_requires(G_PRE)
__CPROVER_assigns(g_G, DIAG_FRAME)
__CPROVER_ensures(RV == 0 || RV == -1)
/* the trace named "thread" of this emulator's recorder */
__CPROVER_ensures(FOUND(1))
/* every thread is wired to the PRV of that trace, once, in order */
__CPROVER_ensures(RV != 0 || (g_G.ctp.n == NTH && CTP_IS(0, g_th0) && CTP_IS(1, g_th1)))
/* and the PCF of that trace gets the mark types */
__CPROVER_ensures(RV != 0 || (g_G.ipcf.n == 1 && g_G.ipcf.c[0].a == (void *) emu && g_G.ipcf.c[0].b == (void *) PCF_OF(PVT_THREAD)))
__CPROVER_ensures((RV == 0) == (ALL_OK(g_G.findpvt) && ALL_OK(g_G.ctp) && ALL_OK(g_G.ipcf)))
__CPROVER_ensures(g_G.ccp.n == 0 && g_G.ctp.n <= 2 && g_G.ipcf.n <= 1)
__CPROVER_ensures(RV == 0 || g_err > OLD(g_err))
;
void h_connect_thread(void)
{
	BUILD_EMU();
	BUILD_THREADS();
	RESET_G();
	int r = connect_thread(emu);
	if (r == 0 && NTH == 2) REACH("two threads connected");
	if (r == 0 && NTH == 0) REACH("no threads: only the PCF");
	if (r != 0 && g_G.findpvt.c[0].ret != 0) REACH("thread trace not found");
	if (r != 0 && g_G.ctp.n == 2) REACH("second thread refused");
	if (r != 0 && g_G.ipcf.n == 1) REACH("PCF refused");
}
#define CCP_IS(k, cpu) (NCPU <= (k) || (g_G.ccp.c[k].a == (void *) emu && g_G.ccp.c[k].b == (void *) (cpu) && g_G.ccp.c[k].c == (void *) PRV_OF(PVT_CPU) && g_G.ccp.c[k].ret == 0))
int c_connect_cpu(struct emu *emu)
__CPROVER_requires(EMU_TIED(emu) && CPUS_TIED(emu))
__CPROVER_requires(G_PRE)
__CPROVER_assigns(g_G, DIAG_FRAME)
__CPROVER_ensures(RV == 0 || RV == -1)
/* the trace named "cpu" */
__CPROVER_ensures(FOUND(2))
/* every CPU of the system is wired to the PRV of that trace, once, in order */
__CPROVER_ensures(RV != 0 || (g_G.ccp.n == NCPU && CCP_IS(0, g_cpu0) && CCP_IS(1, g_cpu1)))
__CPROVER_ensures(RV != 0 || (g_G.ipcf.n == 1 && g_G.ipcf.c[0].a == (void *) emu && g_G.ipcf.c[0].b == (void *) PCF_OF(PVT_CPU)))
__CPROVER_ensures((RV == 0) == (ALL_OK(g_G.findpvt) && ALL_OK(g_G.ccp) && ALL_OK(g_G.ipcf)))
__CPROVER_ensures(g_G.ctp.n == 0 && g_G.ccp.n <= 2 && g_G.ipcf.n <= 1)
__CPROVER_ensures(RV == 0 || g_err > OLD(g_err))
;
void h_connect_cpu(void)
{
	BUILD_EMU();
	BUILD_CPUS();
	RESET_G();
	int r = connect_cpu(emu);
	if (r == 0 && NCPU == 2) REACH("two CPUs connected");
	if (r == 0 && NCPU == 0) REACH("no CPUs: only the PCF");
	if (r != 0 && g_G.findpvt.c[0].ret != 0) REACH("cpu trace not found");
	if (r != 0 && g_G.ccp.n == 2) REACH("second CPU refused");
	if (r != 0 && g_G.ipcf.n == 1) REACH("PCF refused");
}

/* =====================================================================================================
 * init_pcf
 * ===================================================================================================== */
#define CTY_IS(k, ty) (NTY <= (k) || (g_G.ctype.c[k].a == (void *) pcf && g_G.ctype.c[k].b == (void *) (ty) && g_G.ctype.c[k].ret == 0))
int c_init_pcf(struct emu *emu, struct pcf *pcf)
__CPROVER_requires(EMU_TIED(emu) && TYPES_TIED)
__CPROVER_requires(G_PRE)
__CPROVER_assigns(g_G, DIAG_FRAME)
__CPROVER_ensures(RV == 0 || RV == -1)
/* every mark type of the table gets its section in THIS PCF, once */
__CPROVER_ensures(RV != 0 || (g_G.ctype.n == NTY && CTY_IS(0, g_t0) && CTY_IS(1, g_t1)))
__CPROVER_ensures((RV == 0) == ALL_OK(g_G.ctype))
__CPROVER_ensures(g_G.ctype.n <= 2)
__CPROVER_ensures(RV == 0 || g_err > OLD(g_err))
;
void h_init_pcf(void)
{
	struct pcf *pcf;
	BUILD_EMU();
	BUILD_TYPES();
	RESET_G();
	int r = init_pcf(emu, pcf);
	if (r == 0 && NTY == 2) REACH("two types written");
	if (r == 0 && NTY == 1) REACH("one type written");
	if (r != 0 && g_G.ctype.n == 2) REACH("second type refused");
}

/* =====================================================================================================
 * mark_connect
 * ===================================================================================================== */
long g_ntypes0;
int c_mark_connect(struct emu *emu)
__CPROVER_requires(EMU_TIED(emu))
__CPROVER_requires(G_PRE && g_ntypes0 == g_oemu->mark.ntypes)
__CPROVER_assigns(g_G, DIAG_FRAME)
__CPROVER_ensures(RV == 0 || RV == -1)
/* no mark type: nothing to connect */
__CPROVER_ensures(g_ntypes0 != 0 || (RV == 0 && g_G.cth.n == 0 && g_G.ccpu.n == 0))
/* otherwise both the thread and the CPU side of this emulator are connected, once each */
__CPROVER_ensures(RV != 0 || g_ntypes0 == 0 || (g_G.cth.n == 1 && g_G.cth.c[0].a == (void *) emu && g_G.ccpu.n == 1 && g_G.ccpu.c[0].a == (void *) emu))
__CPROVER_ensures((RV == 0) == (ALL_OK(g_G.cth) && ALL_OK(g_G.ccpu)))
__CPROVER_ensures(g_G.cth.n <= 1 && g_G.ccpu.n <= 1)
__CPROVER_ensures(RV == 0 || g_err > OLD(g_err))
;
void h_mark_connect(void)
{
	BUILD_EMU();
	RESET_G();
	int r = mark_connect(emu);
	if (r == 0 && g_ntypes0 == 0) REACH("no mark types: nothing connected");
	if (r == 0 && g_ntypes0 == 3) REACH("three types: threads and CPUs connected");
	if (r != 0 && g_G.ccpu.n == 0) REACH("thread side refused");
	if (r != 0 && g_G.ccpu.n == 1) REACH("CPU side refused");
}
