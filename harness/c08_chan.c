/* C08 -- channel layer: chan_push / chan_pop / chan_read / chan_set / chan_flush
 * exact iff-contracts on the real src/emu/chan.c, all stack depths 0..512
 * (symbolic n); the rest of the stack is covered by the write frame. */
#include "prelude.h"
#include "value.h"
_Static_assert(sizeof(struct value) == 16, "struct value has padding: value_is_equal rebinding unsound");
/* HOWTO pitfall 9: memcmp over struct value spuriously differs in CBMC */
#define value_is_equal(a, b) ((a)->type == (b)->type && (a)->i == (b)->i)
#include "chan.c"          /* the real /repo/src/emu/chan.c */

/* ---- dirty callback (outside the unit: bay.c cb_chan_is_dirty): most general
 * behaviour = any return value; g_cb_ret is an arbitrary ghost input ---- */
int g_cb_ret;
unsigned g_cb_calls;
struct chan *g_cb_chan;
static int stub_dirty_cb(struct chan *chan, void *arg)
{
	(void) arg;
	g_cb_calls++;
	g_cb_chan = chan;
	return g_cb_ret;
}

/* ---- spec readers (struct copy, never the direct union path: pitfall 9).
 * MEASURED: the 512-cell stack lives inside a struct inside a union, so CBMC
 * flattens it; proving that two reads at DIFFERENT index expressions known to
 * be equal (values[g_k] vs values[n-1] under g_k == n-1) agree costs 40-190 s
 * per obligation, while two reads at the SAME expression share their encoding
 * (< 1 s).  Therefore the innermost cell is always named by the code's own
 * expression values[n-1] (spec_top_*), and "the rest of the stack is unchanged"
 * is discharged by the write frame (__CPROVER_assigns: only cell values[n] is
 * assignable in chan_push, no cell at all in chan_pop) instead of an observer
 * cell; the frame check covers every cell, every field and the channel name. ---- */
static inline int spec_n(struct chan *c) { return c->data.stack.n; }
/* is the innermost open region the value (t,i)?  Two spellings of the same
 * read, each matching the way the function under proof reads the cell (struct
 * copy in chan_read/get_value, field access through a pointer in chan_pop), so
 * that specification and code share one encoding of the 512-way selection. */
static inline int spec_top_is(struct chan *c, int64_t t, int64_t i) { struct value v = c->data.stack.values[c->data.stack.n - 1]; return v.type == t && v.i == i; }
static inline int spec_topf_is(struct chan *c, int64_t t, int64_t i) { struct chan_stack *s = &c->data.stack; struct value *v = &s->values[s->n - 1]; return v->type == t && v->i == i; }
/* is cell k the value (t,i)?  Written as a scan so that every read has a CONSTANT
 * index (cell j under the guard j == k): reading the freshly written cell with a
 * symbolic index costs ~100 s, this costs ~1 s.  The loop is ghost code with the
 * fixed bound MAX_CHAN_STACK, unwound completely (unwinding assertion checked). */
static inline int spec_cell_is(struct chan *c, int k, int64_t t, int64_t i)
{
	for (int j = 0; j < MAX_CHAN_STACK; j++) {
		if (j == k) {
			struct value v = c->data.stack.values[j];
			return v.type == t && v.i == i;
		}
	}
	return 0;
}
static inline int64_t spec_single_t(struct chan *c) { struct value v = c->data.value; return v.type; }
static inline int64_t spec_single_i(struct chan *c) { struct value v = c->data.value; return v.i; }
static inline int64_t spec_last_t(struct chan *c) { struct value v = c->last_value; return v.type; }
static inline int64_t spec_last_i(struct chan *c) { struct value v = c->last_value; return v.i; }

/* The channel object is allocated by the harness as a TYPED heap object with
 * arbitrary content (malloc(sizeof(struct chan))): __CPROVER_is_fresh yields a
 * byte-array object on which every symbolic-index read values[n] is a
 * byte-extract at a symbolic offset. */
#define NEW_CHAN(c) struct chan *c = malloc(sizeof(struct chan)); if (c == NULL) return
/* A wholly nondet `struct value` (anonymous {int64,double} union inside) is read
 * inconsistently by CBMC (measured: `struct value v; push(c, v); top.i == v.i`
 * fails spuriously, with v built field by field it holds): build it by fields. */
long nondet_long(void);
#define NEW_VALUE(v) struct value v; v.type = nondet_long(); v.i = nondet_long()
#define CHAN_OBJ(c) ((c) != NULL && __CPROVER_rw_ok((c), sizeof(struct chan)))

/* data-structure invariant: a stack channel holds 0..512 values */
#define CHAN_WF(c) ((c)->type != CHAN_STACK || (spec_n(c) >= 0 && spec_n(c) <= MAX_CHAN_STACK))
#define CB_SHAPE(c) ((c)->dirty_cb == NULL || (c)->dirty_cb == stub_dirty_cb)

/* ghosts bound in requires (enforce-only contracts) */
int g_n;                    /* stack depth in the pre-state */
int64_t g_top_t, g_top_i;   /* innermost open region in the pre-state (null value when n==0) */
int g_dirty;                /* is_dirty in the pre-state */
int g_legal;                /* legality predicate of the operation in the pre-state */
int g_ignored;              /* IGNORE_DUP case: accepted without touching the channel */
int g_cb_runs;              /* the dirty callback will be called by an accepted modification */
int g_clean;                /* channel is flushed: !dirty and last_value == visible value */
int g_same_as_top;          /* the new value equals the innermost open region */

/* top of the stack, or the null value when nothing is open (what chan_read shows) */
#define BIND_TOP_(c, IS) ( g_n == spec_n(c) && \
	(((c)->type == CHAN_STACK && spec_n(c) > 0 && IS(c, g_top_t, g_top_i)) || \
	 (!((c)->type == CHAN_STACK && spec_n(c) > 0) && g_top_t == VALUE_NULL && g_top_i == 0)) )
#define BIND_TOP(c) BIND_TOP_(c, spec_top_is)
#define BIND_TOP_F(c) BIND_TOP_(c, spec_topf_is)
#define DUP_OF_LAST(c, v) (spec_last_t(c) == (v).type && spec_last_i(c) == (v).i)
#define WRITABLE(c) (!((c)->is_dirty && !(c)->prop[CHAN_DIRTY_WRITE]))

/* witnesses for replay */
int w_type, w_dirty, w_dw, w_ad, w_id, w_n, w_cbnull, w_cbret;
int64_t w_vt, w_vi, w_last_t, w_last_i, w_top_t, w_top_i, w_single_t, w_single_i;
#define WITNESS_CHAN(c) ( w_type == (int)(c)->type && w_dirty == (c)->is_dirty && \
	w_dw == (c)->prop[CHAN_DIRTY_WRITE] && w_ad == (c)->prop[CHAN_ALLOW_DUP] && \
	w_id == (c)->prop[CHAN_IGNORE_DUP] && w_n == spec_n(c) && w_cbnull == ((c)->dirty_cb == NULL) && \
	w_last_t == spec_last_t(c) && w_last_i == spec_last_i(c) )

/* ======================= chan_push ======================= */
WITNESS(chan_push);

/* the code's rule: a push is refused as a duplicate when the value equals the
 * value the channel showed at the last flush (last_value) */
#define PUSH_DUP_REFUSED(c, v) (!(c)->prop[CHAN_ALLOW_DUP] && DUP_OF_LAST(c, v) && !(c)->prop[CHAN_IGNORE_DUP])
#define PUSH_DUP_IGNORED(c, v) (!(c)->prop[CHAN_ALLOW_DUP] && DUP_OF_LAST(c, v) && (c)->prop[CHAN_IGNORE_DUP])

int c_chan_push(struct chan *chan, struct value value)
__CPROVER_requires(CHAN_OBJ(chan) && CHAN_WF(chan) && CB_SHAPE(chan))
__CPROVER_requires(WBIND(chan_push, WITNESS_CHAN(chan) && w_vt == value.type && w_vi == value.i && w_cbret == g_cb_ret) && DIAG_PRE)
__CPROVER_requires(BIND_TOP(chan) && g_dirty == chan->is_dirty && g_cb_calls < 1000u)
__CPROVER_requires(WBIND(chan_push, w_top_t == g_top_t && w_top_i == g_top_i))
__CPROVER_requires(g_ignored == (chan->type == CHAN_STACK && WRITABLE(chan) && PUSH_DUP_IGNORED(chan, value)))
__CPROVER_requires(g_cb_runs == (!chan->is_dirty && chan->dirty_cb != NULL))
__CPROVER_requires(g_legal == (chan->type == CHAN_STACK && WRITABLE(chan) && !PUSH_DUP_REFUSED(chan, value) &&
	(PUSH_DUP_IGNORED(chan, value) || (g_n < MAX_CHAN_STACK && (!g_cb_runs || g_cb_ret == 0)))))
__CPROVER_requires(g_clean == (!chan->is_dirty && spec_last_t(chan) == g_top_t && spec_last_i(chan) == g_top_i))
__CPROVER_requires(g_same_as_top == (value.type == g_top_t && value.i == g_top_i))
/* write frame: depth, dirty flag and the ONE cell above the old top; every
 * other cell, last_value, the flags, the type and the name are not assignable */
__CPROVER_assigns(chan->is_dirty, chan->data.stack.n, DIAG_FRAME, g_cb_calls, g_cb_chan)
__CPROVER_assigns(chan->type == CHAN_STACK && chan->data.stack.n >= 0 && chan->data.stack.n < MAX_CHAN_STACK:
	chan->data.stack.values[chan->data.stack.n])
/* accepted exactly when legal (the code's rule, any channel state) */
__CPROVER_ensures((__CPROVER_return_value == 0) == (g_legal != 0))
__CPROVER_ensures(__CPROVER_return_value == 0 || __CPROVER_return_value == -1)
/* the property's rule, on a flushed channel (the state every event finds): an
 * enter event is accepted iff the channel is a stack with room and the event
 * does not re-enter the innermost open region (unless duplicates are allowed
 * or ignored) and the lower layer (dirty callback) does not fail */
__CPROVER_ensures(!g_clean || ((__CPROVER_return_value == 0) ==
	(chan->type == CHAN_STACK &&
	 (!g_same_as_top || chan->prop[CHAN_ALLOW_DUP] || chan->prop[CHAN_IGNORE_DUP]) &&
	 ((g_same_as_top && !chan->prop[CHAN_ALLOW_DUP] && chan->prop[CHAN_IGNORE_DUP]) ||
	  (g_n < MAX_CHAN_STACK && (!g_cb_runs || g_cb_ret == 0))))))
/* effect of an accepted push: stack' = stack . value (new top is the value), dirty */
__CPROVER_ensures(__CPROVER_return_value != 0 || g_ignored || (
	spec_n(chan) == g_n + 1 && chan->is_dirty != 0 &&
	spec_cell_is(chan, g_n, value.type, value.i)))
/* PINNED: a duplicate on an IGNORE_DUP channel returns 0 WITHOUT pushing */
__CPROVER_ensures(!g_ignored || (__CPROVER_return_value == 0 && spec_n(chan) == g_n && chan->is_dirty == g_dirty &&
	g_cb_calls == __CPROVER_old(g_cb_calls)))
/* refused: diagnostic issued; refused for a reason other than the callback: nothing changed */
__CPROVER_ensures(__CPROVER_return_value == 0 || (g_err > __CPROVER_old(g_err)))
__CPROVER_ensures(__CPROVER_return_value == 0 || g_cb_calls != __CPROVER_old(g_cb_calls) || (
	spec_n(chan) == g_n && chan->is_dirty == g_dirty))
/* the callback runs exactly on the clean -> dirty edge of a real modification */
__CPROVER_ensures((g_cb_calls != __CPROVER_old(g_cb_calls)) ==
	(g_cb_runs && !g_ignored && chan->type == CHAN_STACK && !PUSH_DUP_REFUSED(chan, value) && g_n < MAX_CHAN_STACK))
__CPROVER_ensures(CHAN_WF(chan))
;

void h_chan_push(void)
{
	NEW_CHAN(chan);
	NEW_VALUE(value);
	chan_cb_t cb = stub_dirty_cb; (void) cb;
	WITNESS_ON(chan_push);
	int r = chan_push(chan, value);
	if (r == 0 && !g_ignored) REACH("push accepted");
	if (r == 0 && !g_ignored && g_n == 0) REACH("push accepted on an empty stack");
	if (r == 0 && !g_ignored && g_n == MAX_CHAN_STACK - 1) REACH("push accepted into the last slot (depth 511 -> 512)");
	if (r == 0 && !g_ignored && g_same_as_top && g_clean) REACH("re-entering push accepted (ALLOW_DUP)");
	if (r == 0 && g_ignored) REACH("duplicate ignored: returns 0 without pushing");
	if (r != 0 && w_type == CHAN_STACK && g_n == MAX_CHAN_STACK) REACH("push refused: stack full");
	if (r != 0 && w_type != CHAN_STACK) REACH("push refused: not a stack channel");
	if (r != 0 && w_type == CHAN_STACK && w_dirty && !w_dw) REACH("push refused: dirty channel");
	if (r != 0 && w_type == CHAN_STACK && g_clean && g_same_as_top && g_n < MAX_CHAN_STACK) REACH("push refused: re-enters the innermost open region");
	if (r != 0 && w_type == CHAN_STACK && g_n < MAX_CHAN_STACK && g_cb_runs && g_cb_ret != 0 && !g_same_as_top && g_clean) REACH("push refused: dirty callback failed");
}

/* ======================= chan_pop ======================= */
WITNESS(chan_pop);

int c_chan_pop(struct chan *chan, struct value evalue)
__CPROVER_requires(CHAN_OBJ(chan) && CHAN_WF(chan) && CB_SHAPE(chan))
__CPROVER_requires(WBIND(chan_pop, WITNESS_CHAN(chan) && w_vt == evalue.type && w_vi == evalue.i &&
	w_top_t == g_top_t && w_top_i == g_top_i && w_cbret == g_cb_ret) && DIAG_PRE)
__CPROVER_requires(BIND_TOP_F(chan) && g_dirty == chan->is_dirty && g_cb_calls < 1000u)
__CPROVER_requires(g_cb_runs == (!chan->is_dirty && chan->dirty_cb != NULL))
/* a leave event must match the most recent unmatched enter event */
__CPROVER_requires(g_legal == (chan->type == CHAN_STACK && WRITABLE(chan) && g_n > 0 &&
	g_top_t == evalue.type && g_top_i == evalue.i && (!g_cb_runs || g_cb_ret == 0)))
/* write frame: depth and dirty flag only -- no cell of the stack is assignable,
 * so everything below the closed region is unchanged */
__CPROVER_assigns(chan->is_dirty, chan->data.stack.n, DIAG_FRAME, g_cb_calls, g_cb_chan)
__CPROVER_ensures((__CPROVER_return_value == 0) == (g_legal != 0))
__CPROVER_ensures(__CPROVER_return_value == 0 || __CPROVER_return_value == -1)
/* effect: the innermost region is closed, channel dirty */
__CPROVER_ensures(__CPROVER_return_value != 0 || (spec_n(chan) == g_n - 1 && chan->is_dirty != 0))
__CPROVER_ensures(__CPROVER_return_value == 0 || g_err > __CPROVER_old(g_err))
__CPROVER_ensures(__CPROVER_return_value == 0 || g_cb_calls != __CPROVER_old(g_cb_calls) ||
	(spec_n(chan) == g_n && chan->is_dirty == g_dirty))
__CPROVER_ensures((g_cb_calls != __CPROVER_old(g_cb_calls)) ==
	(g_cb_runs && chan->type == CHAN_STACK && g_n > 0 && g_top_t == evalue.type && g_top_i == evalue.i))
__CPROVER_ensures(CHAN_WF(chan))
;

void h_chan_pop(void)
{
	NEW_CHAN(chan);
	NEW_VALUE(evalue);
	chan_cb_t cb = stub_dirty_cb; (void) cb;
	WITNESS_ON(chan_pop);
	int r = chan_pop(chan, evalue);
	if (r == 0) REACH("pop accepted");
	if (r == 0 && g_n == 1) REACH("pop accepted: stack becomes empty");
	if (r == 0 && g_n == MAX_CHAN_STACK) REACH("pop accepted on a full stack");
	if (r != 0 && w_type == CHAN_STACK && g_n == 0) REACH("pop refused: nothing open");
	if (r != 0 && w_type == CHAN_STACK && g_n > 1 && !(w_dirty && !w_dw) && w_vt == VALUE_INT64 && w_top_t == VALUE_INT64) REACH("pop refused: does not match the innermost open region");
	if (r != 0 && w_type == CHAN_STACK && w_dirty && !w_dw) REACH("pop refused: dirty channel");
	if (r != 0 && w_type != CHAN_STACK) REACH("pop refused: not a stack channel");
}

/* ======================= chan_read ======================= */
WITNESS(chan_read);
#define CHAN_TYPE_WF(c) ((c)->type == CHAN_SINGLE || (c)->type == CHAN_STACK)
int64_t g_single_t, g_single_i;

int c_chan_read(struct chan *chan, struct value *value)
__CPROVER_requires(CHAN_OBJ(chan) && CHAN_WF(chan) && CHAN_TYPE_WF(chan))
__CPROVER_requires(__CPROVER_is_fresh(value, sizeof(*value)))
__CPROVER_requires(WBIND(chan_read, w_type == (int) chan->type && w_n == spec_n(chan)))
__CPROVER_requires(BIND_TOP(chan) && g_single_t == spec_single_t(chan) && g_single_i == spec_single_i(chan))
__CPROVER_requires(WBIND(chan_read, w_top_t == g_top_t && w_top_i == g_top_i && w_single_t == g_single_t && w_single_i == g_single_i))
__CPROVER_assigns(*value)
__CPROVER_ensures(__CPROVER_return_value == 0)
/* the timeline shows the innermost open region, nothing (null) when none is open */
__CPROVER_ensures(chan->type != CHAN_STACK || (value->type == g_top_t && value->i == g_top_i))
__CPROVER_ensures(chan->type != CHAN_STACK || g_n > 0 || (value->type == VALUE_NULL && value->i == 0))
__CPROVER_ensures(chan->type != CHAN_SINGLE || (value->type == g_single_t && value->i == g_single_i))
;

void h_chan_read(void)
{
	NEW_CHAN(chan);
	struct value *value;
	WITNESS_ON(chan_read);
	int r = chan_read(chan, value);
	if (r == 0 && w_type == CHAN_STACK && g_n == 0) REACH("read of an empty stack");
	if (r == 0 && w_type == CHAN_STACK && g_n == MAX_CHAN_STACK) REACH("read of a full stack");
	if (r == 0 && w_type == CHAN_SINGLE) REACH("read of a single channel");
}

/* ======================= chan_set ======================= */
WITNESS(chan_set);

int c_chan_set(struct chan *chan, struct value value)
__CPROVER_requires(CHAN_OBJ(chan) && CB_SHAPE(chan))
__CPROVER_requires(WBIND(chan_set, WITNESS_CHAN(chan) && w_vt == value.type && w_vi == value.i && w_cbret == g_cb_ret &&
	w_single_t == spec_single_t(chan) && w_single_i == spec_single_i(chan)) && DIAG_PRE)
__CPROVER_requires(g_dirty == chan->is_dirty && g_cb_calls < 1000u)
__CPROVER_requires(g_single_t == spec_single_t(chan) && g_single_i == spec_single_i(chan))
__CPROVER_requires(g_ignored == (chan->type == CHAN_SINGLE && WRITABLE(chan) && PUSH_DUP_IGNORED(chan, value)))
__CPROVER_requires(g_cb_runs == (!chan->is_dirty && chan->dirty_cb != NULL))
__CPROVER_requires(g_legal == (chan->type == CHAN_SINGLE && WRITABLE(chan) && !PUSH_DUP_REFUSED(chan, value) &&
	(PUSH_DUP_IGNORED(chan, value) || !g_cb_runs || g_cb_ret == 0)))
__CPROVER_assigns(chan->is_dirty, chan->data.value, DIAG_FRAME, g_cb_calls, g_cb_chan)
__CPROVER_ensures((__CPROVER_return_value == 0) == (g_legal != 0))
__CPROVER_ensures(__CPROVER_return_value == 0 || __CPROVER_return_value == -1)
__CPROVER_ensures(__CPROVER_return_value != 0 || g_ignored ||
	(spec_single_t(chan) == value.type && spec_single_i(chan) == value.i && chan->is_dirty != 0))
__CPROVER_ensures(!g_ignored || (__CPROVER_return_value == 0 && chan->is_dirty == g_dirty &&
	spec_single_t(chan) == g_single_t && spec_single_i(chan) == g_single_i))
__CPROVER_ensures(__CPROVER_return_value == 0 || g_err > __CPROVER_old(g_err))
__CPROVER_ensures(__CPROVER_return_value == 0 || g_cb_calls != __CPROVER_old(g_cb_calls) ||
	(chan->is_dirty == g_dirty && spec_single_t(chan) == g_single_t && spec_single_i(chan) == g_single_i))
;

void h_chan_set(void)
{
	NEW_CHAN(chan);
	NEW_VALUE(value);
	chan_cb_t cb = stub_dirty_cb; (void) cb;
	WITNESS_ON(chan_set);
	int r = chan_set(chan, value);
	if (r == 0 && !g_ignored) REACH("set accepted");
	if (r == 0 && g_ignored) REACH("set of the same value ignored");
	if (r != 0 && w_type == CHAN_SINGLE && !w_dirty && !w_ad && !w_id) REACH("set refused: same value as shown (nested begin / unmatched end)");
	if (r != 0 && w_type == CHAN_SINGLE && w_dirty && !w_dw) REACH("set refused: dirty channel");
	if (r != 0 && w_type != CHAN_SINGLE) REACH("set refused: not a single channel");
}

/* ======================= chan_flush ======================= */
WITNESS(chan_flush);

int c_chan_flush(struct chan *chan)
__CPROVER_requires(CHAN_OBJ(chan) && CHAN_WF(chan) && CHAN_TYPE_WF(chan))
__CPROVER_requires(WBIND(chan_flush, w_type == (int) chan->type && w_n == spec_n(chan) && w_dirty == chan->is_dirty) && DIAG_PRE)
__CPROVER_requires(BIND_TOP(chan) && g_single_t == spec_single_t(chan) && g_single_i == spec_single_i(chan))
__CPROVER_requires(g_dirty == chan->is_dirty)
__CPROVER_requires(WBIND(chan_flush, w_top_t == g_top_t && w_top_i == g_top_i && w_single_t == g_single_t && w_single_i == g_single_i &&
	w_last_t == spec_last_t(chan) && w_last_i == spec_last_i(chan)))
__CPROVER_assigns(chan->is_dirty, chan->last_value, DIAG_FRAME)
__CPROVER_ensures((__CPROVER_return_value == 0) == (g_dirty != 0))
__CPROVER_ensures(__CPROVER_return_value == 0 || __CPROVER_return_value == -1)
/* after a flush the channel is clean and last_value is the visible value:
 * this is the state (g_clean) in which the next event finds the channel */
__CPROVER_ensures(__CPROVER_return_value != 0 || (chan->is_dirty == 0 &&
	(chan->type != CHAN_STACK || (spec_last_t(chan) == g_top_t && spec_last_i(chan) == g_top_i)) &&
	(chan->type != CHAN_SINGLE || (spec_last_t(chan) == g_single_t && spec_last_i(chan) == g_single_i))))
__CPROVER_ensures(__CPROVER_return_value == 0 || (chan->is_dirty == 0 && g_err > __CPROVER_old(g_err)))
;

void h_chan_flush(void)
{
	NEW_CHAN(chan);
	WITNESS_ON(chan_flush);
	int r = chan_flush(chan);
	if (r == 0 && w_type == CHAN_STACK && w_n > 0) REACH("flush of a non-empty stack");
	if (r == 0 && w_type == CHAN_STACK && w_n == 0) REACH("flush of an empty stack");
	if (r == 0 && w_type == CHAN_SINGLE) REACH("flush of a single channel");
	if (r != 0) REACH("flush refused: not dirty");
}
