/* C15 -- per-loom metadata merge of the real loom.c: load_cpus (with
 * find_cpu_by_index), loom_init_end, loom_get_cpu, loom_add_cpu, loom_add_proc,
 * loom_set_rank_min and the comparators by_pid / by_rank / by_phyid. */
#include "prelude.h"
#include "parson.h"
#include "uthash.h"

/* ---- trusted base of this unit (plan "trusted") --------------------------
 * parson: the "ovni.loom_cpus" array of one stream is seen through a ghost view:
 * present or not, g_ncpu entries, entry k is an object or not, and carries the
 * int pair (g_idx[k], g_phy[k]). */
int g_has_cpus;
unsigned long g_ncpu;
int g_isobj[3], g_idx[3], g_phy[3];
unsigned g_json_other;
static char jv_array;
static char jv_elem[3];

JSON_Array *json_object_dotget_array(const JSON_Object *object, const char *name)
{
	(void) object;
	if (strcmp(name, "ovni.loom_cpus") == 0)
		return g_has_cpus ? (JSON_Array *) &jv_array : NULL;
	g_json_other++;
	return NULL;
}

size_t json_array_get_count(const JSON_Array *array)
{
	if (array == (JSON_Array *) &jv_array)
		return g_ncpu;
	return 0;
}

JSON_Object *json_array_get_object(const JSON_Array *array, size_t index)
{
	if (array != (JSON_Array *) &jv_array || index >= g_ncpu || index >= 3)
		return NULL;
	return g_isobj[index] ? (JSON_Object *) &jv_elem[index] : NULL;
}

double json_object_get_number(const JSON_Object *object, const char *name)
{
	int k;
	if (object == (JSON_Object *) &jv_elem[0]) k = 0;
	else if (object == (JSON_Object *) &jv_elem[1]) k = 1;
	else if (object == (JSON_Object *) &jv_elem[2]) k = 2;
	else return 0.0;
	if (strcmp(name, "index") == 0)
		return (double) g_idx[k];
	if (strcmp(name, "phyid") == 0)
		return (double) g_phy[k];
	g_json_other++;
	return 0.0;
}

struct stream;
JSON_Object *stream_metadata(struct stream *s)
{
	(void) s;
	JSON_Object *o;
	return o;
}

/* lower-layer failure: calloc may return NULL */
unsigned g_lowfail;
#define LOW_PRE (g_lowfail < 1000000u)
#ifdef C15_CPU_INIT_STUB
#define cpu_init_begin real_cpu_init_begin   /* the real one is proved in group cpu_init_begin */
#endif
#include "cpu.h"
void *calloc(size_t n, size_t sz)
{
	if (nondet_bool()) { g_lowfail++; return NULL; }
	if (n == 1 && sz == sizeof(struct cpu)) {
		/* a CPU object: it keeps its struct type and its contents are ARBITRARY
		 * rather than zero (an over-approximation of calloc: writing 45 KB of
		 * zeros field by field is what makes the bounded groups intractable;
		 * measured 42 s -> 4 s for two CPUs).  The caller initializes it with
		 * cpu_init_begin, whose contract is proved in group cpu_init_begin. */
		struct cpu *c = malloc(sizeof(struct cpu));
		if (c == NULL) { g_lowfail++; return NULL; }
		return c;
	}
	size_t tot = n * sz;
	if (n != 0 && tot / n != sz) { g_lowfail++; return NULL; }
	char *p = malloc(tot);
	if (p == NULL) { g_lowfail++; return NULL; }
	if (tot > 0) __CPROVER_array_set(p, 0);
	return p;
}

/* uthash (not verified).  Every insertion is recorded in a ghost log.
 * Unbounded groups: the table is abstract (head set when empty), look-ups are
 * replaced by assumed one-cell map contracts.
 * Bounded groups (-DC15_CHAIN): the table is an association chain through
 * hh.next in insertion order (uthash's "app order"), hh.key points to the key field;
 * HASH_FIND_INT is a search of that chain. */
unsigned g_hadd_n;
void *g_hadd_head, *g_hadd_item;
int g_hadd_key;
#define HLOG_PRE (g_hadd_n < 1000000u)
#define HLOG_FRAME g_hadd_n, g_hadd_head, g_hadd_item, g_hadd_key
/* HASH_SORT (not verified): a log of (table, comparator) in call order */
enum c15_srt { C15_SRT_by_rank = 1, C15_SRT_by_pid = 2, C15_SRT_by_phyid = 3, C15_SRT_by_tid = 4 };
unsigned g_srt_n; void *g_srt_head[5]; int g_srt_cmp[5];
static inline void c15_hash_sort(void *head, int cmp)
{
	unsigned k = g_srt_n++;
	if (k < 5) { g_srt_head[k] = head; g_srt_cmp[k] = cmp; }
}
#undef HASH_SORT
#define HASH_SORT(head, cmpfcn) c15_hash_sort((void *) &(head), C15_SRT_##cmpfcn)
#undef HASH_ADD_INT
#undef HASH_FIND_INT
#ifdef C15_CHAIN
#define HASH_ADD_INT(head, field, add) { g_hadd_n++; g_hadd_head = (void *) &(head); \
	g_hadd_item = (void *) (add); g_hadd_key = (add)->field; \
	(add)->hh.key = (void *) &(add)->field; (add)->hh.next = NULL; \
	if ((head) == NULL) { (head) = (add); } \
	else { __typeof__(head) c15_t = (head); \
		while (c15_t->hh.next != NULL) c15_t = c15_t->hh.next; \
		c15_t->hh.next = (add); } }
#define HASH_FIND_INT(head, findint, out) { (out) = NULL; \
	for (__typeof__(head) c15_f = (head); c15_f != NULL; c15_f = c15_f->hh.next) \
		if (*(const int *) c15_f->hh.key == *(findint)) { (out) = c15_f; break; } }
#else
#define HASH_ADD_INT(head, field, add) { g_hadd_n++; g_hadd_head = (void *) &(head); \
	g_hadd_item = (void *) (add); g_hadd_key = (add)->field; if ((head) == NULL) (head) = (add); }
#define HASH_FIND_INT(head, findint, out) HASH_FIND(hh, head, findint, sizeof(int), out)
#endif

#include "cpu.c"                  /* the real /repo/src/emu/cpu.c (cpu_init_begin, accessors) */
#ifdef C15_CPU_INIT_STUB
/* Bounded load_cpus groups: cpu_init_begin (cpu.c, outside loom.c) is replaced BY
 * HAND by its contract cr_cpu_init_begin below, which group cpu_init_begin proves
 * against the real body: exactly the fields of the ensures clause are set, every
 * other byte of the (fresh, arbitrary) object is left arbitrary instead of zero.
 * Reason: DFCC replacement / the real memset of a 45 KB struct inside the
 * three-iteration loop does not finish (measured: > 15 min vs 50 s). */
#undef cpu_init_begin
void cpu_init_begin(struct cpu *cpu, int index, int phyid, int is_virtual)
{
	cpu->index = index; cpu->phyid = phyid; cpu->is_virtual = is_virtual; cpu->gindex = -1;
	cpu->is_init = 0; cpu->loom = NULL; cpu->nthreads = 0; cpu->threads = NULL;
	cpu->hh.next = NULL; cpu->hh.prev = NULL; cpu->hh.tbl = NULL; cpu->next = NULL; cpu->prev = NULL;
}
#endif
#include "loom.c"                 /* the real /repo/src/emu/loom.c */
#include "proc.c"                 /* the real /repo/src/emu/proc.c (proc_get_pid, proc_set_loom) */
#include "harness/c15_spec.h"

#define RV __CPROVER_return_value
#define OLD(e) __CPROVER_old(e)

/* ---------------- cpu_init_begin (cpu.c): exact, self-contained ----------------
 * proved against the real body in group cpu_init_begin; the bounded load_cpus
 * groups use a hand stub that implements exactly this contract (C15_CPU_INIT_STUB) */
#ifndef C15_CPU_INIT_STUB
void cr_cpu_init_begin(struct cpu *cpu, int index, int phyid, int is_virtual)
__CPROVER_requires(__CPROVER_is_fresh(cpu, sizeof(*cpu)))
__CPROVER_assigns(__CPROVER_object_whole(cpu))
__CPROVER_ensures(cpu->index == index && cpu->phyid == phyid && cpu->is_virtual == is_virtual && cpu->gindex == -1)
__CPROVER_ensures(cpu->is_init == 0 && cpu->loom == NULL && cpu->nthreads == 0 && cpu->threads == NULL &&
	cpu->hh.next == NULL && cpu->hh.prev == NULL && cpu->hh.tbl == NULL && cpu->next == NULL && cpu->prev == NULL)
;
void h_cpu_init_begin(void)
{
	struct cpu *cpu;
	int index, phyid, is_virtual;
	cpu_init_begin(cpu, index, phyid, is_virtual);
	if (is_virtual) REACH("virtual CPU initialized");
	if (!is_virtual && index > phyid) REACH("physical CPU initialized");
}
#endif

/* ======================================================================
 * chains (bounded groups).  NEXT(n) is the hh.next successor.
 * ====================================================================== */
#define CNEXT(c) ((struct cpu *) (c)->hh.next)
#define C0(l) ((l)->cpus)
#define C1(l) CNEXT(C0(l))
#define C2(l) CNEXT(C1(l))
#define C3(l) CNEXT(C2(l))
#define C4(l) CNEXT(C3(l))
/* number of nodes, for chains of at most 5 */
#define CLEN5(l) (C0(l) == NULL ? 0 : C1(l) == NULL ? 1 : C2(l) == NULL ? 2 : C3(l) == NULL ? 3 : C4(l) == NULL ? 4 : 5)
/* a CPU node as loom_add_cpu leaves it */

/* ---------------- load_cpus (bounded) ----------------
 * pre-state loom: not initialized (cpus_array == NULL), at most two CPUs L0, L1
 * forming a partial bijection index <-> phyid; metadata: at most three pairs. */
int w_ln;                         /* CPUs already in the loom: 0..2 */
int v_lidx[2], v_lphy[2];
int w_has, w_n, v_isobj[3], v_idx[3], v_phy[3];
/* scalar copies for the native replay driver (the runner passes integer scalars only) */
int w_lidx0, w_lphy0, w_lidx1, w_lphy1, w_isobj0, w_idx0, w_phy0, w_isobj1, w_idx1, w_phy1, w_isobj2, w_idx2, w_phy2;
struct cpu *g_l0, *g_l1;
unsigned long g_old_ncpus;

#define COMPAT(i1, p1, i2, p2) (((i1) == (i2)) == ((p1) == (p2)))
#define L_PRESENT(j) (w_ln > (j))
#define M_PRESENT(k) (w_n > (k))
/* pair k of the metadata is compatible with everything in the loom and with the other pairs */
#define M_COMPAT_L(k, j) (!M_PRESENT(k) || !L_PRESENT(j) || COMPAT(v_idx[k], v_phy[k], v_lidx[j], v_lphy[j]))
#define M_COMPAT_M(k, j) (!M_PRESENT(k) || !M_PRESENT(j) || COMPAT(v_idx[k], v_phy[k], v_idx[j], v_phy[j]))
#define M_VALID(k) (!M_PRESENT(k) || (v_isobj[k] && v_idx[k] >= 0 && v_phy[k] >= 0))
/* the union of the loom's CPUs and the metadata pairs is a partial bijection of valid pairs */
#define UNION_LEGAL (w_n > 0 && M_VALID(0) && M_VALID(1) && M_VALID(2) && \
	M_COMPAT_L(0, 0) && M_COMPAT_L(0, 1) && M_COMPAT_L(1, 0) && M_COMPAT_L(1, 1) && M_COMPAT_L(2, 0) && M_COMPAT_L(2, 1) && \
	M_COMPAT_M(0, 1) && M_COMPAT_M(0, 2) && M_COMPAT_M(1, 2))
/* pair k defines a CPU the loom did not have and no earlier pair defined */
#define M_IN_L(k) ((L_PRESENT(0) && v_lphy[0] == v_phy[k]) || (L_PRESENT(1) && v_lphy[1] == v_phy[k]))
#define M_NEW(k) (M_PRESENT(k) && !M_IN_L(k) && \
	!((k) > 0 && v_phy[0] == v_phy[k]) && !((k) > 1 && v_phy[1] == v_phy[k]))
#define N_NEW ((M_NEW(0) ? 1 : 0) + (M_NEW(1) ? 1 : 0) + (M_NEW(2) ? 1 : 0))

/* post-state: some node of the chain (<= 5 nodes) is exactly the pair (idx, phy) */
#define NODE_IS(c, idx, phy) ((c)->index == (idx) && (c)->phyid == (phy) && !(c)->is_virtual)
/* post-state: nodes a and b of the chain are compatible (partial bijection) */
#define NCOMPAT(a, b) ((a) == NULL || (b) == NULL || COMPAT((a)->index, (a)->phyid, (b)->index, (b)->phyid))

/* load_cpus is checked WITHOUT contract instrumentation (DFCC over a chain of
 * 45 KB CPU objects plus three callocs does not finish in 15 min), split into
 * three groups by the number of CPUs already in the loom (C15_LN): the harness
 * builds the loom, runs the real function and asserts the postconditions as
 * plain C.  The write frame is asserted explicitly (old CPUs and the loom's
 * other fields unchanged). */
static struct loom *c15_build_loom2(void)
{
	struct loom *loom = malloc(sizeof(struct loom));
	__CPROVER_assume(loom != NULL);
	/* the loom before loom_init_end: no index array yet (this is the state D4 crashed in) */
	loom->is_init = 0;
	loom->cpus_array = NULL;
	loom->vcpu.index = -1; loom->vcpu.phyid = -1; loom->vcpu.is_virtual = 1;
#ifdef C15_LN
	w_ln = C15_LN;                /* case split over the number of CPUs already in the loom */
#else
	w_ln = nondet_int();
	__CPROVER_assume(0 <= w_ln && w_ln <= 2);
#endif
	g_l0 = NULL; g_l1 = NULL;
	if (w_ln >= 1) {
		g_l0 = malloc(sizeof(struct cpu));
		__CPROVER_assume(g_l0 != NULL && g_l0->phyid >= 0 && g_l0->index >= 0);
		g_l0->hh.key = (void *) &g_l0->phyid; g_l0->hh.next = NULL; g_l0->is_virtual = 0;
		v_lidx[0] = g_l0->index; v_lphy[0] = g_l0->phyid;
	}
	if (w_ln == 2) {
		g_l1 = malloc(sizeof(struct cpu));
		__CPROVER_assume(g_l1 != NULL && g_l1->phyid >= 0 && g_l1->index >= 0);
		/* the loom's CPUs are a partial bijection (invariant re-established below) */
		__CPROVER_assume(g_l1->phyid != g_l0->phyid && g_l1->index != g_l0->index);
		g_l1->hh.key = (void *) &g_l1->phyid; g_l1->hh.next = NULL; g_l1->is_virtual = 0;
		g_l0->hh.next = g_l1;
		v_lidx[1] = g_l1->index; v_lphy[1] = g_l1->phyid;
	}
	loom->cpus = g_l0;
	loom->ncpus = (size_t) w_ln;
	g_old_ncpus = loom->ncpus;
	/* the stream's view: anything, at most three entries */
	g_has_cpus = nondet_bool(); g_ncpu = nondet_size_t();
#ifdef C15_N
	g_ncpu = C15_N;               /* case split over the number of entries of the stream */
#endif
	__CPROVER_assume(g_ncpu <= 3);
	for (int k = 0; k < 3; k++) {
		g_isobj[k] = nondet_bool(); g_idx[k] = nondet_int(); g_phy[k] = nondet_int();
		v_isobj[k] = g_isobj[k]; v_idx[k] = g_idx[k]; v_phy[k] = g_phy[k];
	}
	w_has = g_has_cpus; w_n = (int) g_ncpu;
	w_lidx0 = w_ln >= 1 ? v_lidx[0] : 0; w_lphy0 = w_ln >= 1 ? v_lphy[0] : 0; w_lidx1 = w_ln >= 2 ? v_lidx[1] : 0; w_lphy1 = w_ln >= 2 ? v_lphy[1] : 0;
	w_isobj0 = v_isobj[0]; w_idx0 = v_idx[0]; w_phy0 = v_phy[0]; w_isobj1 = v_isobj[1]; w_idx1 = v_idx[1]; w_phy1 = v_phy[1];
	w_isobj2 = v_isobj[2]; w_idx2 = v_idx[2]; w_phy2 = v_phy[2];
	return loom;
}

/* postconditions of load_cpus / loom_load_metadata (a macro: REACH assertions must sit in the h_ function) */
/* reachability witnesses, per case of the split over the number of CPUs already in the loom */
#define C15_REACH_ANY(r) \
	if (r == 0 && !w_has) REACH("stream without CPU list accepted"); \
	if (r != 0 && w_has && w_n == 0) REACH("empty CPU array refused"); \
	if (r != 0 && w_has && w_n == 1 && v_isobj[0] && v_idx[0] < 0) REACH("negative index refused"); \
	if (r != 0 && w_has && w_n == 1 && v_isobj[0] && v_idx[0] >= 0 && v_phy[0] == -1) REACH("phyid -1 (virtual CPU) refused"); \
	if (r != 0 && w_has && UNION_LEGAL) REACH("refused by calloc failure only");
#if !defined(C15_LN) || C15_LN == 0
#define C15_REACH_L0(r) \
	if (r == 0 && w_has && w_ln == 0 && w_n == 3 && N_NEW == 3) REACH("three CPUs into an empty loom"); \
	if (r != 0 && w_has && w_n == 2 && w_ln == 0 && v_isobj[0] && v_isobj[1] && v_idx[0] >= 0 && v_idx[0] == v_idx[1] && v_phy[0] >= 0 && v_phy[1] >= 0) REACH("same index twice in one stream refused");
#else
#define C15_REACH_L0(r)
#endif
#if !defined(C15_LN) || C15_LN == 1
#define C15_REACH_L1(r) \
	if (r == 0 && w_has && w_n == 2 && v_idx[0] > v_idx[1] && w_ln == 1 && N_NEW == 2) REACH("non-ascending index order accepted (D4 input)"); \
	if (r != 0 && w_has && w_n == 1 && w_ln == 1 && v_isobj[0] && v_idx[0] >= 0 && v_phy[0] == v_lphy[0]) REACH("same phyid, different index refused"); \
	if (r != 0 && w_has && w_n == 1 && w_ln == 1 && v_isobj[0] && v_idx[0] == v_lidx[0] && v_phy[0] >= 0 && v_phy[0] != v_lphy[0]) REACH("same index, different phyid refused (loom CPU)");
#else
#define C15_REACH_L1(r)
#endif
#if !defined(C15_LN) || C15_LN == 2
#define C15_REACH_L2(r) \
	if (r == 0 && w_has && w_ln == 2 && w_n == 3 && N_NEW == 3) REACH("three more CPUs into a loom with two"); \
	if (r == 0 && w_has && w_ln == 2 && w_n == 2 && N_NEW == 0) REACH("same CPUs again: duplicates ignored");
#else
#define C15_REACH_L2(r)
#endif
/* the chain after the call, read once into locals (nested hh.next dereferences
 * in every clause make symbolic execution explode) */
#define N_IS(n, idx, phy) ((n) != NULL && NODE_IS(n, idx, phy))
#define IN_NODES(idx, phy) (N_IS(n0, idx, phy) || N_IS(n1, idx, phy) || N_IS(n2, idx, phy) || N_IS(n3, idx, phy) || N_IS(n4, idx, phy))
#define NODES_LEN (n0 == NULL ? 0 : n1 == NULL ? 1 : n2 == NULL ? 2 : n3 == NULL ? 3 : n4 == NULL ? 4 : 5)
#define NODES_BIJ (NCOMPAT(n0, n1) && NCOMPAT(n0, n2) && NCOMPAT(n0, n3) && NCOMPAT(n0, n4) && NCOMPAT(n1, n2) && \
	NCOMPAT(n1, n3) && NCOMPAT(n1, n4) && NCOMPAT(n2, n3) && NCOMPAT(n2, n4) && NCOMPAT(n3, n4))
#define C15_CHECK_LOAD_CPUS(loom, r, old_err, old_low, old_hadd, old_nprocs, old_procs) { \
	struct cpu *n0 = (loom)->cpus; \
	struct cpu *n1 = n0 != NULL ? CNEXT(n0) : NULL; \
	struct cpu *n2 = n1 != NULL ? CNEXT(n1) : NULL; \
	struct cpu *n3 = n2 != NULL ? CNEXT(n2) : NULL; \
	struct cpu *n4 = n3 != NULL ? CNEXT(n3) : NULL; \
	VASSERT(n4 == NULL || n4->hh.next == NULL, "at most five CPUs after the call"); \
	VASSERT((r == 0) == (!w_has || (UNION_LEGAL && g_lowfail == old_low)), "load_cpus accepted exactly when the union of loom and stream CPUs is a valid partial bijection"); \
	VASSERT(r == 0 || r == -1, "load_cpus returns 0 or -1"); \
	VASSERT(r == 0 || g_err > old_err, "load_cpus refusal comes with a diagnostic"); \
	VASSERT(w_has || (n0 == g_l0 && loom->ncpus == g_old_ncpus && g_hadd_n == old_hadd), "a stream without CPU list changes nothing"); \
	if (r == 0 && w_has) { \
		VASSERT(!M_PRESENT(0) || IN_NODES(v_idx[0], v_phy[0]), "accepted: pair 0 is in the loom with exactly that pairing"); \
		VASSERT(!M_PRESENT(1) || IN_NODES(v_idx[1], v_phy[1]), "accepted: pair 1 is in the loom with exactly that pairing"); \
		VASSERT(!M_PRESENT(2) || IN_NODES(v_idx[2], v_phy[2]), "accepted: pair 2 is in the loom with exactly that pairing"); \
		VASSERT((w_ln < 1 || n0 == g_l0) && (w_ln < 2 || n1 == g_l1), "accepted: CPUs the loom had stay first, in order"); \
		VASSERT(loom->ncpus == g_old_ncpus + (unsigned long) N_NEW && loom->ncpus == (size_t) NODES_LEN && \
			g_hadd_n == old_hadd + (unsigned) N_NEW, "accepted: exactly the new physical ids were added (duplicates ignored)"); \
	} \
	if (r == 0) { \
		VASSERT(NODES_BIJ, "accepted: the loom's CPUs are again a partial bijection index <-> phyid"); \
	} \
	VASSERT(w_ln < 1 || (g_l0->index == v_lidx[0] && g_l0->phyid == v_lphy[0] && !g_l0->is_virtual), "old CPU 0 unchanged"); \
	VASSERT(w_ln < 2 || (g_l1->index == v_lidx[1] && g_l1->phyid == v_lphy[1] && !g_l1->is_virtual), "old CPU 1 unchanged"); \
	VASSERT(loom->is_init == 0 && loom->cpus_array == NULL && loom->nprocs == old_nprocs && loom->procs == old_procs && \
		loom->vcpu.index == -1 && loom->vcpu.phyid == -1, "loom otherwise unchanged, still not initialized"); \
	C15_REACH_ANY(r) C15_REACH_L0(r) C15_REACH_L1(r) C15_REACH_L2(r) \
	}

void h_load_cpus(void)
{
	struct loom *loom = c15_build_loom2();
	JSON_Object *meta;
	unsigned old_err = g_err, old_low = g_lowfail, old_hadd = g_hadd_n;
	size_t old_nprocs = loom->nprocs; struct proc *old_procs = loom->procs;
	int r = load_cpus(loom, meta);
	C15_CHECK_LOAD_CPUS(loom, r, old_err, old_low, old_hadd, old_nprocs, old_procs);
}

/* loom_load_metadata: the public entry; same verdict and effect */
void h_loom_load_metadata(void)
{
	struct loom *loom = c15_build_loom2();
	struct stream *s = malloc(sizeof(struct stream));
	unsigned old_err = g_err, old_low = g_lowfail, old_hadd = g_hadd_n;
	size_t old_nprocs = loom->nprocs; struct proc *old_procs = loom->procs;
	int r = loom_load_metadata(loom, s);
	C15_CHECK_LOAD_CPUS(loom, r, old_err, old_low, old_hadd, old_nprocs, old_procs);
}

/* ---------------- loom_init_end (bounded: <= 3 CPUs) ---------------- */
int w_ie_n, w_ie_idx[3], w_ie_rank_enabled, w_ie_rank_min;
unsigned long w_ie_nprocs, g_ie_k;
struct cpu *g_c0, *g_c1, *g_c2;
#define IDX_IN(i, n) ((i) >= 0 && (i) < (n))
#define IE_LEGAL ((!w_ie_rank_enabled || w_ie_rank_min != INT_MAX) && w_ie_n > 0 && w_ie_nprocs > 0 && \
	IDX_IN(w_ie_idx[0], w_ie_n) && (w_ie_n < 2 || (IDX_IN(w_ie_idx[1], w_ie_n) && w_ie_idx[1] != w_ie_idx[0])) && \
	(w_ie_n < 3 || (IDX_IN(w_ie_idx[2], w_ie_n) && w_ie_idx[2] != w_ie_idx[0] && w_ie_idx[2] != w_ie_idx[1])))

#define LOOM_CHAIN3_PRE(l) ( \
	(C0(l) == NULL || (__CPROVER_is_fresh(C0(l), sizeof(struct cpu)) && \
		(C0(l)->hh.next == NULL || (__CPROVER_is_fresh(C0(l)->hh.next, sizeof(struct cpu)) && \
			(C1(l)->hh.next == NULL || (__CPROVER_is_fresh(C1(l)->hh.next, sizeof(struct cpu)) && C2(l)->hh.next == NULL)))))))

int c_loom_init_end(struct loom *loom)
__CPROVER_requires(__CPROVER_is_fresh(loom, sizeof(*loom)) && LOOM_CHAIN3_PRE(loom))
__CPROVER_requires(loom->ncpus == (size_t) CLEN5(loom) && loom->is_init == 0 && loom->cpus_array == NULL)
__CPROVER_requires(DIAG_PRE && LOW_PRE && (loom->ncpus == 0 || g_ie_k < loom->ncpus))
__CPROVER_requires(w_ie_n == CLEN5(loom) && w_ie_nprocs == loom->nprocs && w_ie_rank_enabled == loom->rank_enabled && w_ie_rank_min == loom->rank_min)
__CPROVER_requires(g_c0 == C0(loom) && (C0(loom) == NULL || (w_ie_idx[0] == C0(loom)->index && g_c1 == C1(loom) &&
	(C1(loom) == NULL || (w_ie_idx[1] == C1(loom)->index && g_c2 == C2(loom) && (C2(loom) == NULL || w_ie_idx[2] == C2(loom)->index))))))
__CPROVER_assigns(loom->cpus_array, loom->is_init, DIAG_FRAME, g_lowfail)
/* accepted exactly when there are CPUs and processes, the rank information is complete and the
 * CPU indices are a permutation of [0, ncpus) */
__CPROVER_ensures((RV == 0) == (IE_LEGAL && g_lowfail == OLD(g_lowfail)))
__CPROVER_ensures(RV == 0 || (RV == -1 && g_err > OLD(g_err) && loom->is_init == 0))
/* accepted: cpus_array is the bijection index -> CPU: each CPU sits at its own index ... */
__CPROVER_ensures(RV != 0 || (loom->is_init == 1 && loom->cpus_array != NULL &&
	loom->cpus_array[w_ie_idx[0]] == g_c0 &&
	(w_ie_n < 2 || loom->cpus_array[w_ie_idx[1]] == g_c1) &&
	(w_ie_n < 3 || loom->cpus_array[w_ie_idx[2]] == g_c2)))
/* ... and every slot k < ncpus (k arbitrary) holds a CPU of the loom whose index is k */
__CPROVER_ensures(RV != 0 || (loom->cpus_array[g_ie_k] != NULL && loom->cpus_array[g_ie_k]->index == (int) g_ie_k &&
	(loom->cpus_array[g_ie_k] == g_c0 || loom->cpus_array[g_ie_k] == g_c1 || loom->cpus_array[g_ie_k] == g_c2)))
;

void h_loom_init_end(void)
{
	struct loom *loom;
	int r = loom_init_end(loom);
	if (r == 0 && w_ie_n == 3 && w_ie_idx[0] == 2 && w_ie_idx[1] == 0) REACH("three CPUs in non-ascending index order accepted");
	if (r == 0 && w_ie_n == 1) REACH("one CPU accepted");
	if (r != 0 && w_ie_n == 0) REACH("loom without CPUs refused");
	if (r != 0 && w_ie_n > 0 && w_ie_nprocs == 0) REACH("loom without processes refused");
	if (r != 0 && w_ie_n == 2 && w_ie_nprocs > 0 && !w_ie_rank_enabled && w_ie_idx[0] == 0 && w_ie_idx[1] == 2) REACH("index out of range refused (missing CPU)");
	if (r != 0 && w_ie_n == 2 && w_ie_nprocs > 0 && !w_ie_rank_enabled && w_ie_idx[0] == 1 && w_ie_idx[1] == 1) REACH("index taken twice refused");
	if (r != 0 && w_ie_n == 2 && w_ie_nprocs > 0 && !w_ie_rank_enabled && w_ie_idx[0] == -1) REACH("negative index refused");
	if (r != 0 && w_ie_n > 0 && w_ie_nprocs > 0 && w_ie_rank_enabled && w_ie_rank_min == INT_MAX) REACH("rank_min not set refused");
	if (r != 0 && IE_LEGAL) REACH("refused by calloc failure only");
}

/* ---------------- loom_get_cpu (unbounded): exact ---------------- */
WITNESS(loom_get_cpu);
int w_lg_index; unsigned long w_lg_ncpus;
struct cpu *c_loom_get_cpu(struct loom *loom, int index)
__CPROVER_requires(__CPROVER_is_fresh(loom, sizeof(*loom)) && loom->ncpus <= 0x7fffffffUL &&
	(loom->ncpus == 0 || __CPROVER_is_fresh(loom->cpus_array, loom->ncpus * sizeof(struct cpu *))))
__CPROVER_requires(WBIND(loom_get_cpu, w_lg_index == index && w_lg_ncpus == loom->ncpus))
__CPROVER_assigns()
__CPROVER_ensures(index != -1 || RV == &loom->vcpu)
__CPROVER_ensures(!(index < -1 || (index >= 0 && (size_t) index >= loom->ncpus)) || RV == NULL)
__CPROVER_ensures(!(index >= 0 && (size_t) index < loom->ncpus) || RV == loom->cpus_array[index])
;

void h_loom_get_cpu(void)
{
	struct loom *loom;
	int index;
	WITNESS_ON(loom_get_cpu);
	struct cpu *r = loom_get_cpu(loom, index);
	if (r != NULL && w_lg_index == -1) REACH("virtual cpu");
	if (r == NULL && w_lg_index < -1) REACH("negative index names no cpu");
	if (r == NULL && w_lg_index >= 0 && (unsigned long) w_lg_index >= w_lg_ncpus) REACH("index past the last cpu names no cpu");
	if (w_lg_index >= 0 && (unsigned long) w_lg_index < w_lg_ncpus && w_lg_index > 1000) REACH("index in range");
}

/* ---------------- assumed one-cell map contracts (uthash HASH_FIND) ---------------- */
struct loom *g_fc_loom; int g_fc_phyid; struct cpu *g_fc_cpu;
struct cpu *ca_loom_find_cpu(struct loom *loom, int phyid)
__CPROVER_requires(loom == g_fc_loom && phyid == g_fc_phyid)
__CPROVER_assigns()
__CPROVER_ensures(__CPROVER_pointer_equals(RV, g_fc_cpu))
;
struct loom *g_fp_loom; int g_fp_pid; struct proc *g_fp_proc;
struct proc *ca_loom_find_proc(struct loom *loom, pid_t pid)
__CPROVER_requires(loom == g_fp_loom && pid == g_fp_pid)
__CPROVER_assigns()
__CPROVER_ensures(__CPROVER_pointer_equals(RV, g_fp_proc))
;

/* ---------------- loom_add_cpu (unbounded) ---------------- */
WITNESS(loom_add_cpu);
int w_ac_phyid, w_ac_dup, w_ac_isinit;
int c_loom_add_cpu(struct loom *loom, struct cpu *cpu)
__CPROVER_requires(__CPROVER_is_fresh(loom, sizeof(*loom)) && __CPROVER_is_fresh(cpu, sizeof(*cpu)))
__CPROVER_requires(g_fc_loom == loom && g_fc_phyid == cpu->phyid &&
	(g_fc_cpu == NULL || __CPROVER_is_fresh(g_fc_cpu, sizeof(struct cpu))))
__CPROVER_requires(DIAG_PRE && HLOG_PRE)
__CPROVER_requires(WBIND(loom_add_cpu, w_ac_phyid == cpu->phyid && w_ac_dup == (g_fc_cpu != NULL) && w_ac_isinit == loom->is_init))
__CPROVER_assigns(loom->cpus, loom->ncpus, cpu->loom, DIAG_FRAME, HLOG_FRAME)
__CPROVER_ensures((RV == 0) == (cpu->phyid >= 0 && g_fc_cpu == NULL && !loom->is_init))
__CPROVER_ensures(RV == 0 || RV == -1)
__CPROVER_ensures(RV != 0 || (loom->ncpus == OLD(loom->ncpus) + 1 && cpu->loom == loom && g_err == OLD(g_err) &&
	g_hadd_n == OLD(g_hadd_n) + 1 && g_hadd_head == (void *) &loom->cpus && g_hadd_item == (void *) cpu && g_hadd_key == cpu->phyid))
__CPROVER_ensures(RV == 0 || (g_err > OLD(g_err) && loom->ncpus == OLD(loom->ncpus) && loom->cpus == OLD(loom->cpus) &&
	g_hadd_n == OLD(g_hadd_n) && cpu->loom == OLD(cpu->loom)))
;

void h_loom_add_cpu(void)
{
	struct loom *loom;
	struct cpu *cpu;
	WITNESS_ON(loom_add_cpu);
	int r = loom_add_cpu(loom, cpu);
	if (r == 0) REACH("cpu added");
	if (r != 0 && w_ac_phyid >= 0 && w_ac_dup && !w_ac_isinit) REACH("duplicate phyid refused");
	if (r != 0 && w_ac_phyid >= 0 && !w_ac_dup && w_ac_isinit) REACH("initialized loom refused");
	if (r != 0 && w_ac_phyid < 0) REACH("negative phyid refused");
}

/* ---------------- loom_add_proc (unbounded) ---------------- */
WITNESS(loom_add_proc);
int w_ap_dup, w_ap_isinit;
int c_loom_add_proc(struct loom *loom, struct proc *proc)
__CPROVER_requires(__CPROVER_is_fresh(loom, sizeof(*loom)) && __CPROVER_is_fresh(proc, sizeof(*proc)))
__CPROVER_requires(g_fp_loom == loom && g_fp_pid == proc->pid &&
	(g_fp_proc == NULL || __CPROVER_is_fresh(g_fp_proc, sizeof(struct proc))))
__CPROVER_requires(DIAG_PRE && HLOG_PRE)
__CPROVER_requires(WBIND(loom_add_proc, w_ap_dup == (g_fp_proc != NULL) && w_ap_isinit == loom->is_init))
__CPROVER_assigns(loom->procs, loom->nprocs, proc->loom, DIAG_FRAME, HLOG_FRAME)
__CPROVER_ensures((RV == 0) == (g_fp_proc == NULL && !loom->is_init))
__CPROVER_ensures(RV == 0 || RV == -1)
__CPROVER_ensures(RV != 0 || (loom->nprocs == OLD(loom->nprocs) + 1 && proc->loom == loom && g_err == OLD(g_err) &&
	g_hadd_n == OLD(g_hadd_n) + 1 && g_hadd_head == (void *) &loom->procs && g_hadd_item == (void *) proc && g_hadd_key == proc->pid))
__CPROVER_ensures(RV == 0 || (g_err > OLD(g_err) && loom->nprocs == OLD(loom->nprocs) && loom->procs == OLD(loom->procs) &&
	g_hadd_n == OLD(g_hadd_n) && proc->loom == OLD(proc->loom)))
;

void h_loom_add_proc(void)
{
	struct loom *loom;
	struct proc *proc;
	WITNESS_ON(loom_add_proc);
	int r = loom_add_proc(loom, proc);
	if (r == 0) REACH("process added");
	if (r != 0 && w_ap_dup && !w_ap_isinit) REACH("duplicate pid refused");
	if (r != 0 && !w_ap_dup && w_ap_isinit) REACH("initialized loom refused");
}

/* ---------------- loom_set_rank_min (bounded: <= 3 processes) ---------------- */
#define PNEXT(p) ((struct proc *) (p)->hh.next)
#define P0(l) ((l)->procs)
#define P1(l) PNEXT(P0(l))
#define P2(l) PNEXT(P1(l))
#define PLEN3(l) (P0(l) == NULL ? 0 : P1(l) == NULL ? 1 : P2(l) == NULL ? 2 : 3)
#define LOOM_PROCS3_PRE(l) ( \
	(P0(l) == NULL || (__CPROVER_is_fresh(P0(l), sizeof(struct proc)) && \
		(P0(l)->hh.next == NULL || (__CPROVER_is_fresh(P0(l)->hh.next, sizeof(struct proc)) && \
			(P1(l)->hh.next == NULL || (__CPROVER_is_fresh(P1(l)->hh.next, sizeof(struct proc)) && P2(l)->hh.next == NULL)))))))
int w_rm_n, w_rm_rank0, w_rm_rank1, w_rm_rank2, w_rm_old_min, w_rm_old_enabled;   /* scalars: the replay runner passes no array witnesses */
#define RM_HAS(k) (w_rm_n > (k) && w_rm_rank##k >= 0)
#define RM_LACKS(k) (w_rm_n > (k) && w_rm_rank##k < 0)
#define RM_SOME (RM_HAS(0) || RM_HAS(1) || RM_HAS(2))
#define RM_NONE_LACKS (!RM_LACKS(0) && !RM_LACKS(1) && !RM_LACKS(2))
#define MIN2(a, b) ((a) < (b) ? (a) : (b))
#define RM_MIN MIN2(w_rm_n > 0 ? w_rm_rank0 : INT_MAX, MIN2(w_rm_n > 1 ? w_rm_rank1 : INT_MAX, w_rm_n > 2 ? w_rm_rank2 : INT_MAX))

int c_loom_set_rank_min(struct loom *loom)
__CPROVER_requires(__CPROVER_is_fresh(loom, sizeof(*loom)) && LOOM_PROCS3_PRE(loom))
__CPROVER_requires(DIAG_PRE && loom->rank_enabled == 0)
__CPROVER_requires(w_rm_n == PLEN3(loom) && w_rm_old_min == loom->rank_min && w_rm_old_enabled == loom->rank_enabled &&
	(P0(loom) == NULL || (w_rm_rank0 == P0(loom)->rank &&
	(P1(loom) == NULL || (w_rm_rank1 == P1(loom)->rank &&
	(P2(loom) == NULL || w_rm_rank2 == P2(loom)->rank))))))
__CPROVER_assigns(loom->rank_enabled, loom->rank_min, DIAG_FRAME)
/* refused exactly when already set, or some processes have a rank and others do not */
__CPROVER_ensures((RV == 0) == (w_rm_old_min == INT_MAX && (!RM_SOME || RM_NONE_LACKS)))
__CPROVER_ensures(RV == 0 || (RV == -1 && g_err > OLD(g_err)))
/* no process has a rank: ranks stay disabled */
__CPROVER_ensures(RV != 0 || RM_SOME || (loom->rank_enabled == 0 && loom->rank_min == INT_MAX))
/* all have one: rank_min is the minimum rank of the loom's processes */
__CPROVER_ensures(RV != 0 || !RM_SOME || (loom->rank_enabled == 1 && loom->rank_min == RM_MIN))
;

void h_loom_set_rank_min(void)
{
	struct loom *loom;
	int r = loom_set_rank_min(loom);
	if (r == 0 && w_rm_n == 3 && RM_SOME && w_rm_rank1 < w_rm_rank0 && w_rm_rank1 < w_rm_rank2) REACH("minimum is the middle process");
	if (r == 0 && w_rm_n == 3 && RM_SOME && w_rm_rank2 < w_rm_rank0 && w_rm_rank2 < w_rm_rank1) REACH("minimum is the last process");
	if (r == 0 && w_rm_n == 2 && !RM_SOME) REACH("no rank information accepted");
	if (r == 0 && w_rm_n == 0) REACH("loom without processes");
	if (r != 0 && w_rm_old_min == INT_MAX && w_rm_n == 3 && w_rm_rank0 >= 0 && w_rm_rank2 < 0) REACH("mixed rank / no rank refused (first has)");
	if (r != 0 && w_rm_old_min == INT_MAX && w_rm_n == 2 && w_rm_rank0 < 0 && w_rm_rank1 >= 0) REACH("mixed rank / no rank refused (first lacks)");
	if (r != 0 && w_rm_old_min != INT_MAX) REACH("rank_min already set refused");
}

/* ---------------- loom_sort (bounded: <= 3 processes): which comparator sorts what ----------------
 * processes by rank when the loom has rank information, else by PID; CPUs by
 * physical id; the threads of every process by TID */
int w_so_n, w_so_re;
struct proc *g_so_p0, *g_so_p1, *g_so_p2;
void c_loom_sort(struct loom *loom)
__CPROVER_requires(__CPROVER_is_fresh(loom, sizeof(*loom)) && LOOM_PROCS3_PRE(loom) && g_srt_n == 0)
__CPROVER_requires(w_so_n == PLEN3(loom) && w_so_re == loom->rank_enabled && g_so_p0 == P0(loom) &&
	(P0(loom) == NULL || (g_so_p1 == P1(loom) && (P1(loom) == NULL || g_so_p2 == P2(loom)))))
__CPROVER_assigns(g_srt_n, __CPROVER_object_whole(g_srt_head), __CPROVER_object_whole(g_srt_cmp))
__CPROVER_ensures(g_srt_n == 2u + (unsigned) w_so_n)
__CPROVER_ensures(g_srt_head[0] == (void *) &loom->procs && g_srt_cmp[0] == (w_so_re ? C15_SRT_by_rank : C15_SRT_by_pid))
__CPROVER_ensures(g_srt_head[1] == (void *) &loom->cpus && g_srt_cmp[1] == C15_SRT_by_phyid)
__CPROVER_ensures(w_so_n < 1 || (g_srt_head[2] == (void *) &g_so_p0->threads && g_srt_cmp[2] == C15_SRT_by_tid))
__CPROVER_ensures(w_so_n < 2 || (g_srt_head[3] == (void *) &g_so_p1->threads && g_srt_cmp[3] == C15_SRT_by_tid))
__CPROVER_ensures(w_so_n < 3 || (g_srt_head[4] == (void *) &g_so_p2->threads && g_srt_cmp[4] == C15_SRT_by_tid))
;
void h_loom_sort(void)
{
	struct loom *loom;
	loom_sort(loom);
	if (w_so_re && w_so_n == 3) REACH("three processes sorted by rank");
	if (!w_so_re && w_so_n == 2) REACH("two processes sorted by pid");
}

/* ---------------- comparators: exact three-way comparison on the documented key ---------------- */
int c_by_pid(struct proc *p1, struct proc *p2)
__CPROVER_requires(__CPROVER_is_fresh(p1, sizeof(*p1)) && (__CPROVER_pointer_equals(p2, p1) || __CPROVER_is_fresh(p2, sizeof(*p2))))
__CPROVER_assigns()
__CPROVER_ensures(RV == SPEC_CMP3(p1->pid, p2->pid))
;
void h_by_pid(void)
{
	struct proc *p1, *p2;
	int r = by_pid(p1, p2);
	if (r < 0) REACH("lower pid first");
	if (r > 0) REACH("higher pid last");
	if (r == 0) REACH("equal pids");
}

int c_by_rank(struct proc *p1, struct proc *p2)
__CPROVER_requires(__CPROVER_is_fresh(p1, sizeof(*p1)) && (__CPROVER_pointer_equals(p2, p1) || __CPROVER_is_fresh(p2, sizeof(*p2))))
__CPROVER_assigns()
__CPROVER_ensures(RV == SPEC_CMP3(p1->rank, p2->rank))
;
void h_by_rank(void)
{
	struct proc *p1, *p2;
	int r = by_rank(p1, p2);
	if (r < 0) REACH("lower rank first");
	if (r > 0) REACH("higher rank last");
	if (r == 0) REACH("equal ranks");
}

int c_by_phyid(struct cpu *c1, struct cpu *c2)
__CPROVER_requires(__CPROVER_is_fresh(c1, sizeof(*c1)) && (__CPROVER_pointer_equals(c2, c1) || __CPROVER_is_fresh(c2, sizeof(*c2))))
__CPROVER_assigns()
__CPROVER_ensures(RV == SPEC_CMP3(c1->phyid, c2->phyid))
;
void h_by_phyid(void)
{
	struct cpu *c1, *c2;
	int r = by_phyid(c1, c2);
	if (r < 0) REACH("lower phyid first");
	if (r > 0) REACH("higher phyid last");
	if (r == 0) REACH("equal phyids");
}

/* total preorders on three symbolic elements, run on the real comparators */
void h_loom_preorders(void)
{
	struct proc *a = malloc(sizeof(struct proc)), *b = malloc(sizeof(struct proc)), *c = malloc(sizeof(struct proc));
	struct cpu *x = malloc(sizeof(struct cpu)), *y = malloc(sizeof(struct cpu)), *z = malloc(sizeof(struct cpu));
	__CPROVER_assume(a != NULL && b != NULL && c != NULL && x != NULL && y != NULL && z != NULL);
	a->pid = nondet_int(); b->pid = nondet_int(); c->pid = nondet_int();
	a->rank = nondet_int(); b->rank = nondet_int(); c->rank = nondet_int();
	x->phyid = nondet_int(); y->phyid = nondet_int(); z->phyid = nondet_int();
	{
		int ab = by_pid(a, b), ba = by_pid(b, a), bc = by_pid(b, c), ac = by_pid(a, c), aa = by_pid(a, a);
		SPEC_PREORDER_ASSERTS(ab, ba, bc, ac, aa, a->pid, b->pid, c->pid);
		if (ab < 0 && bc < 0) REACH("pids strictly ascending");
	}
	{
		int ab = by_rank(a, b), ba = by_rank(b, a), bc = by_rank(b, c), ac = by_rank(a, c), aa = by_rank(a, a);
		SPEC_PREORDER_ASSERTS(ab, ba, bc, ac, aa, a->rank, b->rank, c->rank);
		if (ab > 0 && bc == 0) REACH("ranks descending then tie");
	}
	{
		int ab = by_phyid(x, y), ba = by_phyid(y, x), bc = by_phyid(y, z), ac = by_phyid(x, z), aa = by_phyid(x, x);
		SPEC_PREORDER_ASSERTS(ab, ba, bc, ac, aa, x->phyid, y->phyid, z->phyid);
		if (ab < 0 && bc < 0) REACH("phyids strictly ascending");
	}
}


