/* C16 (a5) -- execute_sort_plan of the real src/emu/ovnisort.c under contract, by composition.
 *
 * STATEMENT (from the property): when the sort plan (bad0, next, ring) is executed, either a destination is
 * found and the region [first, next) afterwards holds EXACTLY the events that were there -- a permutation of whole
 * events, every byte and therefore every size preserved --, in non-decreasing clock order, with every byte outside
 * [first, next) untouched (the prefix before the earliest affected position and everything from `next` on), the
 * look-back ring re-pointed to the moved events, and everything written to the stream file through sp->fd in one
 * gap-free run of pwrites covering exactly the region; or no destination exists inside the look-back window and
 * the function fails (-1), SAYS SO, and has modified nothing.  `first` is the most recent event of the window whose
 * clock is below the smallest clock of [bad0, next), or the first event of the stream when the window still
 * reaches it.
 *
 * HOW: the body of execute_sort_plan is verified with its six callees REPLACED by contracts stated over one ghost
 * description of the scene (LAYOUT below); each callee contract is ENFORCED against the real callee in its own
 * group of this file (a5_leaf_*), so nothing is assumed about the unit's own code.  The composition is loop-free.
 *
 * LAYOUT (the bound of every group of this file, chosen for cost: memcpy with a symbolic length and symbolic
 * offsets into small objects are what CBMC pays for here, HOWTO pitfalls / DESIGN 3):
 *   - the mapped stream is an object of A5_MEM bytes; its last 12 bytes are the event `next` (the OU] that closes
 *     the region; only its address matters), before it lie K = 1..A5_K whole NON-JUMBO events of 12..28 bytes each
 *     (every size the flags byte can announce), before them >= 16 arbitrary bytes (earlier events);
 *   - the ring has A5_RN slots (look-back A5_RN - 1) and holds the last min(K, count) of these events, any
 *     head/tail position (wrapped or not) admitted by the ring invariant of stream_winsort;
 *   - bad0 is any of the K events; clocks below 2^63 (known finding: cmp_ev compares as signed).
 * Outside the unit (trusted, most general): qsort (leaf sort_buf), pwrite (leaf write_stream), malloc / calloc /
 * free, ovni_ev_size (the real rt/ovni.c is included: sizes come from the flags bytes of the events).
 * ASSUMED (DESIGN 4, C16): bytes written with pwrite to the stream file are visible through the MAP_PRIVATE mapping
 * (Linux) -- the code relies on it (rebuild_ring and ring_check re-read the mapping after the write); here the
 * mapping IS the file: the pwrite model stores into it. */
int g_die_ok;     /* die() is legitimate only after malloc/calloc/pwrite failed */
#define VERIF_DIE_HOOK __CPROVER_assert(g_die_ok, "die() reached without a failed malloc/calloc/pwrite")
#include "prelude.h"
int g_said;
#undef err
#define err(...) (verif_err(), (void) (g_said = 1))
#include "ovni.h"

#ifndef A5_K
#define A5_K 4
#endif
#ifndef A5_RN
#define A5_RN 4
#endif
#define A5_KMAX 4
#define A5_RNMAX 4
_Static_assert(A5_K >= 1 && A5_K <= A5_KMAX && A5_RN >= 2 && A5_RN <= A5_RNMAX, "bounds of this file");
#define A5_MEM (16 + 28 * A5_K + 12)

/* ------------------------------------------------------------------ the ghost scene */
uint8_t *g_base;               /* the mapped stream == the stream file */
long g_K;                      /* events laid out before `next` */
long g_O[A5_KMAX + 1];         /* g_O[k]: offset of event k; g_O[g_K]: offset of `next` */
long g_P[A5_KMAX + 1];         /* the same AFTER sorting (events of the region have moved) */
long g_perm[A5_KMAX];          /* output event j is input event g_perm[j] (chosen by qsort) */
long g_b;                      /* bad0 is event g_b */
long g_f;                      /* first is event g_f (named by find_destination) */
long g_s, g_bb;                /* observers: an arbitrary INPUT event and an arbitrary byte position inside it */
unsigned char g_oldbyte;       /* that byte before the call */
long g_pos; unsigned char g_posbyte;   /* observer: an arbitrary byte of the mapping, and its value before the call */

/* most general models of the externals that the groups of this file do not replace */
long nondet_long(void);
uint64_t nondet_u64(void);
unsigned g_malloc_fail;
static void *a5_malloc(size_t n)
{
	void *p = nondet_bool() ? NULL : malloc(n);
	if (p == NULL) { g_malloc_fail++; g_die_ok = 1; }
	return p;
}
static void *a5_calloc(size_t n, size_t m)
{
	void *p = nondet_bool() ? NULL : calloc(n, m);
	if (p == NULL) { g_malloc_fail++; g_die_ok = 1; }
	return p;
}

/* ---- pwrite: most general POSIX behaviour for count > 0 (fails, or writes 1..count bytes at `offset`), storing
 * into the mapping (see ASSUMED above); calls logged.  TRUSTED as in the write_stream group of c16_sort.c: a
 * successful pwrite of count > 0 bytes writes at least one byte. */
unsigned long g_pw_calls; int g_pw_fd; long g_pw_first, g_pw_next; unsigned g_pw_gap, g_pw_fail;
ssize_t
pwrite(int fd, const void *buf, size_t count, off_t offset)
{
	if (g_pw_calls == 0) g_pw_first = offset;
	else if (offset != g_pw_next || fd != g_pw_fd) g_pw_gap++;
	g_pw_calls++;
	g_pw_fd = fd;
	if (nondet_bool()) { g_pw_fail++; g_die_ok = 1; return -1; }
	size_t w = nondet_size_t();
	__CPROVER_assume(w <= count && (count == 0 || w >= 1));
	VASSERT(offset >= 0 && (size_t) offset + w <= A5_MEM, "pwrite inside the stream file (its size does not change)");
	if (w > 0) memcpy(g_base + offset, buf, w);
	g_pw_next = offset + (off_t) w;
	return (ssize_t) w;
}

/* ---- qsort: TRUSTED, most general contract of ISO C 7.22.5.2: the table is permuted (g_perm) into an order
 * consistent with the comparison function -- which is CALLED (the real cmp_ev) on every adjacent pair; stability
 * is not assumed unless -DA5_STABLE (glibc's merge sort).  Pure ghost bookkeeping: the output layout g_P. */
unsigned g_qsort_calls;
static int cmp_ev(const void *a, const void *b);
void
qsort(void *base, size_t nmemb, size_t size, int (*compar)(const void *, const void *))
{
	g_qsort_calls++;
	VASSERT(nmemb == (size_t) (g_K - g_f) && size == sizeof(struct ovni_ev *), "qsort on the whole pointer table");
	VASSERT(compar == cmp_ev, "qsort with cmp_ev");
	struct ovni_ev **t = base;
	struct ovni_ev *old[A5_KMAX];
	for (long i = 0; i < A5_K; i++) if (i < (long) nmemb) old[i] = t[i];
	for (long i = 0; i < A5_K; i++) {
		g_P[i] = g_O[i];
		if (i < g_f) g_perm[i] = i;
	}
	for (long i = 0; i < A5_K; i++) {
		if (i >= (long) nmemb) continue;
		long p = nondet_long();
		__CPROVER_assume(0 <= p && p < (long) nmemb);
		for (long j = 0; j < i; j++) __CPROVER_assume(g_perm[g_f + j] != g_f + p);   /* a permutation */
		g_perm[g_f + i] = g_f + p;
		t[i] = old[p];
		g_P[g_f + i + 1] = g_P[g_f + i] + (g_O[g_f + p + 1] - g_O[g_f + p]);
	}
	for (long i = 0; i + 1 < A5_K; i++) {
		if (i + 1 >= (long) nmemb) continue;
		int c = compar(&t[i], &t[i + 1]);
		__CPROVER_assume(c <= 0);                                        /* consistent with the comparison */
#ifdef A5_STABLE
		__CPROVER_assume(c != 0 || g_perm[g_f + i] < g_perm[g_f + i + 1]);
#endif
	}
}
struct stream;
int stream_step(struct stream *stream) { (void) stream; return nondet_int(); }
struct ovni_ev g_cur_ev;
struct ovni_ev *stream_ev(struct stream *stream) { (void) stream; return &g_cur_ev; }

#define malloc(n) a5_malloc(n)
#define calloc(n, m) a5_calloc((n), (m))
#define main ovnisort_main
#include "ovnisort.c"          /* the real /repo/src/emu/ovnisort.c */
#undef main
#undef malloc
#undef calloc
#ifdef A5_REAL_EVSIZE
#include "ovni.c"              /* the real ovni_ev_size / ovni_payload_size on the bytes of the mapping */
#else
int ovni_ev_size(const struct ovni_ev *ev) { (void) ev; __CPROVER_assert(0, "ovni_ev_size is not reached in this group"); return 12; }
uint64_t ovni_ev_get_clock(const struct ovni_ev *ev) { return ev->header.clock; }
#endif

#define RV __CPROVER_return_value
#define OLD(e) __CPROVER_old(e)

/* ------------------------------------------------------------------ the scene, as predicates (spec functions: used in contract clauses only) */
#define MEMB(off) (g_base[(off)])
#define CLKAT(m, off) (*(const uint64_t *) ((const uint8_t *) (m) + (off) + 4))
#define SIZE_OF_FLAGS(fl) (12L + ((((fl) & 0x0f) == 0) ? 0L : (long) ((fl) & 0x0f) + 1L))
/* offsets: g_K events of 12..28 bytes, `next` in the last 12 bytes of the object, >= 16 bytes before event 0 */
static _Bool sc_shape(const long *O)
{
	_Bool ok = (1 <= g_K) & (g_K <= A5_K) & (O[0] >= 16);
	for (long k = 0; k < A5_K; k++)
		if (k < g_K) ok = ok & (O[k + 1] - O[k] >= 12) & (O[k + 1] - O[k] <= 28) & (O[k + 1] - O[k] != 13) & (O[k] >= 16) & (O[k] <= A5_MEM - 24);
	return ok & (O[g_K < 0 || g_K > A5_K ? 0 : g_K] == A5_MEM - 12);
}
/* the flags bytes found in memory `m` (whose byte 0 is offset `m0` of the layout) announce exactly the sizes of the
 * layout, for events from..g_K-1; non-jumbo; clocks below 2^63 */
static _Bool sc_wf(const uint8_t *m, long m0, const long *O, long from)
{
	_Bool ok = 1;
	for (long k = 0; k < A5_K; k++)
		if (k >= from && k < g_K) {
			uint8_t fl = m[O[k] - m0];
			ok = ok & ((fl & OVNI_EV_JUMBO) == 0) & (O[k + 1] - O[k] == SIZE_OF_FLAGS(fl)) & (CLKAT(m, O[k] - m0) < (1UL << 63));
		}
	return ok;
}
static uint64_t sc_clk(long k) { return CLKAT(g_base, g_O[k]); }
/* smallest clock of [bad0, next) */
static uint64_t sc_minclk(void)
{
	uint64_t m = sc_clk(g_b);
	for (long k = 0; k < A5_K; k++) if (k > g_b && k < g_K && sc_clk(k) < m) m = sc_clk(k);
	return m;
}

/* ---- the ring: A5_RN slots; live entries head .. tail-1 (circular) are the LAST count events before `next` */
#define RING_COUNT(h, t, sz) ((t) >= (h) ? (t) - (h) : (t) - (h) + (sz))
#define RING_RANGE(r) (0 <= (r)->head && (r)->head < (r)->size && 0 <= (r)->tail && (r)->tail < (r)->size)
#define RING_INV(r) (RING_RANGE(r) && ((r)->head == 0 || RING_COUNT((r)->head, (r)->tail, (r)->size) == (r)->size - 1))
#define CNT(r) RING_COUNT((r)->head, (r)->tail, (long) A5_RN)
#define DISTP(r, p) RING_COUNT((r)->head, (long) (p), (long) A5_RN)
#define POSJ(r, j) (((r)->head + (j)) % A5_RN)
/* slot p, if live, points to event K - count + dist(p) (of layout O) */
#define SLOT_OK(r, p, O) ((p) >= A5_RN || DISTP(r, p) >= CNT(r) || (r)->ev[(p)] == (struct ovni_ev *) (g_base + (O)[g_K - CNT(r) + DISTP(r, p)]))
#define SLOTS_OK(r, O) (SLOT_OK(r, 0, O) && SLOT_OK(r, 1, O) && SLOT_OK(r, 2, O) && SLOT_OK(r, 3, O))
/* the window never lost an event unless it is full; it cannot hold more events than exist */
#define WINDOW_OK(r) (CNT(r) <= g_K && (CNT(r) == g_K || CNT(r) == A5_RN - 1))
/* live index (0 = oldest) of the most recent window entry whose clock is below `target`; -1 if none */
static long sc_destj(long cnt, uint64_t target)
{
	for (long j = A5_RN - 2; j >= 0; j--)
		if (j < cnt && sc_clk(g_K - cnt + j) < target) return j;
	return -1;
}
