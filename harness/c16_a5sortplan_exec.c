/* C16 (a5) -- execute_sort_plan of the real src/emu/ovnisort.c under contract, by composition.
 *
 * STATEMENT (from the property): when the sort plan (bad0, next, ring) is executed, either a destination is
 * found and the region [first, next) afterwards holds EXACTLY the events that were there -- a permutation of whole
 * events, every byte and therefore every size preserved --, in non-decreasing clock order, with every byte outside
 * [first, next) untouched (the prefix before the earliest affected position and everything from `next` on), the
 * look-back ring re-pointed to the moved events, and everything written to the stream file through sp->fd in one
 * gap-free run of pwrites covering exactly the region; or no destination exists inside the look-back window and
 * the function fails (-1), SAYS SO, and has modified nothing.  `first` is the most recent event of the window whose
 * clock is below the smallest clock of [bad0, next), or the first event of the stream when the window still
 * reaches it.
 *
 * HOW: the body of execute_sort_plan is verified (group a5_execute_sort_plan) with its six callees REPLACED by
 * contracts stated over one ghost description of the scene (below); each callee contract is ENFORCED against the
 * real callee in its own group of this file (a5_leaf_find_min_clock, _find_destination, _sort_buf, _write_stream,
 * _rebuild_ring, _ring_check); sort_buf in turn is verified with its three walkers replaced by contracts enforced
 * in a5_leaf_count_events, _index_events, _write_events.  So nothing is assumed about the unit's own code, and both
 * compositions are loop-free.  c16_a5sortplan_e2e.c re-uses the contract of execute_sort_plan for an end-to-end
 * lemma on stream_winsort.
 *
 * THE SCENE -- the bound of every group of this file, chosen for cost (memcpy with a symbolic length and reads at
 * symbolic offsets are what CBMC pays for here: HOWTO pitfalls, DESIGN 3; the first version of this file with
 * symbolic event sizes produced 9 M clauses for TWO events and did not finish):
 *   - the mapped stream is an object of A5_MEM bytes: 16 arbitrary bytes (earlier events), then K = 1..A5_K whole
 *     NON-JUMBO events whose SIZES ARE COMPILE-TIME CONSTANTS of the group (A5_S0..A5_S3, each one of the sizes a
 *     flags byte can announce: 12, 14..28; default 12, 28, 16, 20; pattern B of the thorough tier: 28, 14, 15),
 *     then `next` (the OU] that closes the region; 12 bytes, only its address matters), then 16 arbitrary bytes;
 *     all CONTENT is arbitrary apart from the flags nibbles announcing these sizes and clocks below 2^63 (known
 *     finding of this plan: cmp_ev compares as signed);
 *   - the ring has A5_RN slots (look-back A5_RN - 1) and holds the last min(K, count) of these events, in any
 *     head/tail position (wrapped or not) admitted by the ring invariant of stream_winsort;
 *   - bad0 is any of the K events.
 *   NOT covered: jumbo events (CBMC checks the 4-byte read of payload.jumbo.size as a 16-byte access, cf. c19_stream.c),
 *   regions of more than 4 events, rings of more than 4 slots.
 * All spec functions (sc_*) read memory at LITERAL offsets only: a symbolic position is matched against its
 * finitely many candidates (the same clauses with byte_extract at a symbolic offset did not finish).
 * Outside the unit (trusted, most general): qsort (leaf sort_buf), pwrite (leaf write_stream), malloc / calloc /
 * free (allocation model below), memcpy (byte-wise model in the groups that say so); ovni_ev_size is the real
 * rt/ovni.c (sizes come from the flags bytes of the events).
 * ASSUMED (DESIGN 4, C16): bytes written with pwrite to the stream file are visible through the MAP_PRIVATE mapping
 * (Linux) -- the code relies on it (rebuild_ring and ring_check re-read the mapping after the write); here the
 * mapping IS the file: the pwrite model stores into it. */
int g_die_ok;     /* die() is legitimate only after malloc/calloc/pwrite failed */
#define VERIF_DIE_HOOK __CPROVER_assert(g_die_ok, "die() reached without a failed malloc/calloc/pwrite")
#include "prelude.h"
int g_said;
#undef err
#define err(...) (verif_err(), (void) (g_said = 1))
#include "ovni.h"

#ifndef A5_K
#define A5_K 4
#endif
#ifndef A5_RN
#define A5_RN 4
#endif
#ifndef A5_S0
#define A5_S0 12
#endif
#ifndef A5_S1
#define A5_S1 28
#endif
#ifndef A5_S2
#define A5_S2 16
#endif
#ifndef A5_S3
#define A5_S3 20
#endif
#define A5_KMAX 4
#define A5_RNMAX 4
#define A5_SIZE_OK(s) ((s) == 12 || ((s) >= 14 && (s) <= 28))
_Static_assert(A5_K >= 1 && A5_K <= A5_KMAX && A5_RN >= 2 && A5_RN <= A5_RNMAX, "bounds of this file");
_Static_assert(A5_SIZE_OK(A5_S0) && A5_SIZE_OK(A5_S1) && A5_SIZE_OK(A5_S2) && A5_SIZE_OK(A5_S3), "sizes a flags byte can announce");
/* (events that a group with A5_K < 4 never lays out take no room) */
#define A5_O0 16L
#define A5_O1 (A5_O0 + A5_S0)
#define A5_O2 (A5_O1 + (A5_K >= 2 ? A5_S1 : 0))
#define A5_O3 (A5_O2 + (A5_K >= 3 ? A5_S2 : 0))
#define A5_O4 (A5_O3 + (A5_K >= 4 ? A5_S3 : 0))
#define A5_MEM (A5_O4 + 12 + 16)
/* offset of input event k (k == K: of `next`); a constant whenever k is */
#define OC(k) ((k) <= 0 ? A5_O0 : (k) == 1 ? A5_O1 : (k) == 2 ? A5_O2 : (k) == 3 ? A5_O3 : A5_O4)
#define SC(k) ((k) <= 0 ? (long) A5_S0 : (k) == 1 ? (long) A5_S1 : (k) == 2 ? (long) A5_S2 : (long) A5_S3)

/* ------------------------------------------------------------------ the ghost scene */
#define A5_REGMAX (A5_O4 - A5_O0)
uint8_t a5_mem[A5_MEM];        /* the mapped stream == the stream file (arbitrary content: statics are havocked) */
long g_K;                      /* events laid out before `next` */
long g_P[A5_KMAX + 1];         /* offset of OUTPUT event j after sorting (events of the region have moved) */
long g_perm[A5_KMAX];          /* output event j is input event g_perm[j] (chosen by qsort) */
long g_b;                      /* bad0 is event g_b */
long g_f;                      /* first is event g_f: the destination the specification names (bound in requires, assigned by nobody) */
long g_s, g_bb;                /* observers: an arbitrary INPUT event and an arbitrary byte position inside it */
unsigned char g_oldbyte;       /* that byte before the call */
long g_pos; unsigned char g_posbyte;   /* observer: an arbitrary byte of the mapping, and its value before the call */
long g_outoff;                 /* == A5_OUTOFF (named for the loop invariant of write_stream, which cannot use macros) */

long nondet_long(void);
uint64_t nondet_u64(void);

/* ---- malloc / calloc / free: TRUSTED model.  Any call may fail (NULL).  Otherwise the block is the LAST n bytes of
 * an object dedicated to that call site, with arbitrary content (calloc: zeroed) -- so an access past the block
 * leaves the object.  (A malloc'ed object of symbolic size costs CBMC far more than a symbolic position inside a
 * fixed object, cf. c19_sort.c.)  Call sites: execute_sort_plan's work buffer -> a5_out; sort_buf's copy of the
 * region -> a5_cpy; sort_buf's pointer table -> a5_tab.  free: only of the pointer handed out, once. */
uint8_t a5_out[A5_REGMAX];
uint8_t a5_cpy[A5_REGMAX];
struct ovni_ev;
struct ovni_ev *a5_tab[A5_KMAX];
#define A5_OUTOFF (A5_REGMAX - (OC(g_K) - OC(g_f)))
#define A5_OUTPTR (a5_out + A5_OUTOFF)
#define A5_TABPTR (a5_tab + (A5_KMAX - (g_K - g_f)))
unsigned g_malloc_fail, g_mcalls, g_ycalls, g_ccalls;     /* blocks handed out: work buffer, copy, table */
void *g_mptr, *g_yptr, *g_cptr; int g_mfreed, g_yfreed, g_cfreed; unsigned g_badfree;
static void *a5_malloc(size_t n)
{
	if (nondet_bool()) { g_malloc_fail++; g_die_ok = 1; return NULL; }
#ifdef A5_LEAF_SORTBUF
	VASSERT(n >= 1 && n <= A5_REGMAX && g_ycalls == 0, "malloc model: one block of at most the largest region per call site");
	g_ycalls++;
	g_yptr = a5_cpy + (A5_REGMAX - n);
	g_yfreed = 0;
	return g_yptr;
#else
	VASSERT(n >= 1 && n <= A5_REGMAX && g_mcalls == 0, "malloc model: one block of at most the largest region per call site");
	g_mcalls++;
	g_mptr = a5_out + (A5_REGMAX - n);
	g_mfreed = 0;
	return g_mptr;
#endif
}
static void *a5_calloc(size_t n, size_t m)
{
	if (nondet_bool()) { g_malloc_fail++; g_die_ok = 1; return NULL; }
	VASSERT(m == sizeof(struct ovni_ev *) && n >= 1 && n <= A5_KMAX && g_ccalls == 0, "calloc model: one table of at most A5_KMAX pointers");
	g_ccalls++;
	a5_tab[0] = NULL; a5_tab[1] = NULL; a5_tab[2] = NULL; a5_tab[3] = NULL;
	g_cptr = a5_tab + (A5_KMAX - n);
	g_cfreed = 0;
	return g_cptr;
}
static void a5_free(void *p)
{
	if (p != NULL && p == g_mptr && !g_mfreed) g_mfreed = 1;
	else if (p != NULL && p == g_yptr && !g_yfreed) g_yfreed = 1;
	else if (p != NULL && p == g_cptr && !g_cfreed) g_cfreed = 1;
	else if (p != NULL) g_badfree++;
}
#ifdef A5_MEMCPY_MODEL
/* memcpy (libc): exact byte-wise model for n <= A5_REGMAX, loop-free */
static void *a5_memcpy(void *d, const void *s, size_t n)
{
#ifndef A5_MEMCPY_MAX
#define A5_MEMCPY_MAX A5_REGMAX
#endif
	VASSERT(n <= A5_MEMCPY_MAX, "memcpy model: at most A5_MEMCPY_MAX bytes");
#define A5_MC1(c) if ((size_t) (c) < n && (c) < A5_MEMCPY_MAX) ((uint8_t *) d)[(c)] = ((const uint8_t *) s)[(c)];
#define A5_MC8(c) A5_MC1(c) A5_MC1((c) + 1) A5_MC1((c) + 2) A5_MC1((c) + 3) A5_MC1((c) + 4) A5_MC1((c) + 5) A5_MC1((c) + 6) A5_MC1((c) + 7)
#define A5_MC32(c) A5_MC8(c) A5_MC8((c) + 8) A5_MC8((c) + 16) A5_MC8((c) + 24)
	_Static_assert(A5_REGMAX <= 128, "unrolled copy covers the largest region");
	A5_MC32(0) A5_MC32(32) A5_MC32(64) A5_MC32(96)
	return d;
}
#endif

/* ---- pwrite: most general POSIX behaviour for count > 0 (fails, or writes 1..count bytes at `offset`), storing
 * into the mapping (see ASSUMED above); calls logged.  TRUSTED as in the write_stream group of c16_sort.c: a
 * successful pwrite of count > 0 bytes writes at least one byte. */
unsigned long g_pw_calls; int g_pw_fd; long g_pw_first, g_pw_next; unsigned g_pw_gap, g_pw_fail;
ssize_t
pwrite(int fd, const void *buf, size_t count, off_t offset)
{
	if (g_pw_calls == 0) g_pw_first = offset;
	else if (offset != g_pw_next || fd != g_pw_fd) g_pw_gap++;
	g_pw_calls++;
	g_pw_fd = fd;
	if (nondet_bool()) { g_pw_fail++; g_die_ok = 1; return -1; }
	size_t w = nondet_size_t();
	__CPROVER_assume(w <= count && (count == 0 || w >= 1));
	VASSERT(offset >= 0 && (size_t) offset + w <= A5_MEM, "pwrite inside the stream file (its size does not change)");
	/* a5_mem[offset .. offset + w) = buf[0 .. w): written out byte by byte at literal positions of the mapping (memcpy
	 * with a symbolic length and offset exhausts the solver here: measured).  In the write_stream leaf `buf` is a loop
	 * variable of a loop under contract: after the havoc CBMC has no value set for it, so the bytes are fetched from
	 * the source OBJECT of that leaf at the position `buf` is ASSERTED to point to. */
#ifdef A5_LEAF_WRITE
	VASSERT((const uint8_t *) buf == a5_out + g_outoff + (offset - OC(g_f)), "pwrite source and file offset advance in lockstep");
#define A5_PWSRC(c) a5_out[g_outoff + ((c) - OC(g_f))]
#else
#define A5_PWSRC(c) ((const uint8_t *) buf)[(c) - offset]
#endif
#define A5_PW1(c) if ((c) < A5_MEM && (c) >= offset && (size_t) ((c) - offset) < w) a5_mem[(c) < A5_MEM ? (c) : 0] = A5_PWSRC(c);
#define A5_PW8(c) A5_PW1(c) A5_PW1((c) + 1) A5_PW1((c) + 2) A5_PW1((c) + 3) A5_PW1((c) + 4) A5_PW1((c) + 5) A5_PW1((c) + 6) A5_PW1((c) + 7)
#define A5_PW64(c) A5_PW8(c) A5_PW8((c) + 8) A5_PW8((c) + 16) A5_PW8((c) + 24) A5_PW8((c) + 32) A5_PW8((c) + 40) A5_PW8((c) + 48) A5_PW8((c) + 56)
	_Static_assert(A5_MEM <= 128, "unrolled store covers the mapping");
	A5_PW64(0) A5_PW64(64)
	g_pw_next = offset + (off_t) w;
	return (ssize_t) w;
}

/* ---- qsort: TRUSTED, most general contract of ISO C 7.22.5.2: the table is permuted (g_perm) into an order
 * consistent with the comparison function -- which is CALLED (the real cmp_ev) on every adjacent pair; stability
 * is not assumed unless -DA5_STABLE (glibc's merge sort).  Pure ghost bookkeeping: the output layout g_P. */
unsigned g_qsort_calls;
static int cmp_ev(const void *a, const void *b);
void
qsort(void *base, size_t nmemb, size_t size, int (*compar)(const void *, const void *))
{
	g_qsort_calls++;
	VASSERT(nmemb == (size_t) (g_K - g_f) && size == sizeof(struct ovni_ev *), "qsort on the whole pointer table");
	VASSERT(compar == cmp_ev, "qsort with cmp_ev");
	struct ovni_ev **t = base;
	struct ovni_ev *old[A5_KMAX];
	for (long i = 0; i < A5_K; i++) if (i < (long) nmemb) old[i] = t[i];
	for (long i = 0; i <= A5_K; i++) {
		if (i <= g_f) g_P[i] = OC(i);
		if (i < g_f && i < A5_K) g_perm[i] = i;
	}
	for (long i = 0; i < A5_K; i++) {
		if (i >= (long) nmemb) continue;
		long p = nondet_long();
		__CPROVER_assume(0 <= p && p < (long) nmemb);
		for (long j = 0; j < i; j++) __CPROVER_assume(g_perm[g_f + j] != g_f + p);   /* a permutation */
		g_perm[g_f + i] = g_f + p;
		t[i] = old[p];
		g_P[g_f + i + 1] = g_P[g_f + i] + SC(g_f + p);
	}
	for (long i = 0; i + 1 < A5_K; i++) {
		if (i + 1 >= (long) nmemb) continue;
		int c = compar(&t[i], &t[i + 1]);
		int c2 = compar(&t[i + 1], &t[i]);
		/* ISO C 7.22.5 p4: the comparison function must be a consistent order -- checked, not assumed (an inconsistent
		 * one would otherwise only cut paths at the assumption below) */
		VASSERT((c < 0) == (c2 > 0) && (c == 0) == (c2 == 0), "qsort: the comparison function orders each pair consistently in both directions");
		__CPROVER_assume(c <= 0);                                        /* consistent with the comparison */
#ifdef A5_STABLE
		__CPROVER_assume(c != 0 || g_perm[g_f + i] < g_perm[g_f + i + 1]);
#endif
	}
}
struct stream;
#ifndef A5_E2E
int stream_step(struct stream *stream) { (void) stream; return nondet_int(); }
struct ovni_ev g_cur_ev;
struct ovni_ev *stream_ev(struct stream *stream) { (void) stream; return &g_cur_ev; }
#else
/* end-to-end lemma (c16_a5sortplan_e2e.c): POSIX calls of stream_winsort, any result, logged */
int g_fd; unsigned g_open_calls, g_sync_calls, g_close_calls; int g_close_fd, g_sync_fd;
static int a5_open(const char *path, int flags) { (void) path; g_open_calls++; VASSERT(flags == O_WRONLY, "opened for writing only"); if (nondet_bool()) { g_die_ok = 1; return -1; } return g_fd; }
#define open(path, flags) a5_open((path), (flags))
int fdatasync(int fd) { g_sync_calls++; g_sync_fd = fd; int r = nondet_int(); if (r < 0) g_die_ok = 1; return r; }
int close(int fd) { g_close_calls++; g_close_fd = fd; int r = nondet_int(); if (r < 0) g_die_ok = 1; return r; }
#endif

#define malloc(n) a5_malloc(n)
#define calloc(n, m) a5_calloc((n), (m))
#define free(p) a5_free(p)
#ifdef A5_MEMCPY_MODEL
#undef memcpy
#define memcpy(d, s, n) a5_memcpy((d), (s), (n))
#endif
#define main ovnisort_main
#include "ovnisort.c"          /* the real /repo/src/emu/ovnisort.c */
#undef main
#undef malloc
#undef calloc
#undef free
#ifdef A5_MEMCPY_MODEL
#undef memcpy
#endif
#ifdef A5_REAL_EVSIZE
#include "ovni.c"              /* the real ovni_ev_size / ovni_payload_size on the bytes of the mapping */
#else
int ovni_ev_size(const struct ovni_ev *ev) { (void) ev; __CPROVER_assert(0, "ovni_ev_size is not reached in this group"); return 12; }
uint64_t ovni_ev_get_clock(const struct ovni_ev *ev) { return ev->header.clock; }
#endif

#define RV __CPROVER_return_value
#define OLD(e) __CPROVER_old(e)

/* ------------------------------------------------------------------ the scene, as predicates (spec functions: used in contract clauses only).
 * Every memory access of a spec function is at a LITERAL offset: symbolic positions (g_f, g_P[j]) are matched against
 * the finitely many candidates. */
#define CLKAT(m, off) (*(const uint64_t *) ((const uint8_t *) (m) + (off) + 4))
#define SIZE_OF_FLAGS(fl) (12L + ((((fl) & 0x0f) == 0) ? 0L : (long) ((fl) & 0x0f) + 1L))
#define SHAPE (1 <= g_K && g_K <= A5_K)
/* byte / clock of the mapping at a symbolic offset; of a buffer (holding a copy of the region) at a symbolic offset */
static uint8_t sc_mb(long off) { for (long c = A5_O0; c < A5_O4; c++) if (off == c) return a5_mem[c]; return 0; }
static uint64_t sc_mc(long off) { for (long c = A5_O0; c < A5_O4; c++) if (off == c) return CLKAT(a5_mem, c); return 0; }
/* byte / clock of the work buffer a5_out (of the copy a5_cpy) at a symbolic position of the OBJECT */
static uint8_t sc_ob(long i) { for (long c = 0; c < A5_REGMAX; c++) if (i == c) return a5_out[c]; return 0; }
static uint64_t sc_oc(long i) { for (long c = 0; c + 12 <= A5_REGMAX; c++) if (i == c) return CLKAT(a5_out, c); return 0; }
static uint8_t sc_yb(long i) { for (long c = 0; c < A5_REGMAX; c++) if (i == c) return a5_cpy[c]; return 0; }
static uint64_t sc_yc(long i) { for (long c = 0; c + 12 <= A5_REGMAX; c++) if (i == c) return CLKAT(a5_cpy, c); return 0; }
/* the flags bytes of the INPUT events from..g_K-1 found in the mapping announce the sizes of the scene; non-jumbo; clocks < 2^63 */
static _Bool sc_wf_in(long from)
{
	_Bool ok = 1;
	for (long k = 0; k < A5_K; k++)
		if (k >= from && k < g_K) {
			uint8_t fl = a5_mem[OC(k)];
			ok = ok & ((fl & OVNI_EV_JUMBO) == 0) & (SC(k) == SIZE_OF_FLAGS(fl)) & (CLKAT(a5_mem, OC(k)) < (1UL << 63));
		}
	return ok;
}
static uint64_t sc_clk(long k) { for (long c = 0; c < A5_K; c++) if (k == c) return CLKAT(a5_mem, OC(c)); return 0; }
/* smallest clock of [bad0, next) */
static uint64_t sc_minclk(void)
{
	uint64_t m = sc_clk(g_b);
	for (long k = 0; k < A5_K; k++) if (k > g_b && k < g_K && CLKAT(a5_mem, OC(k)) < m) m = CLKAT(a5_mem, OC(k));
	return m;
}

/* ---- the ring: A5_RN slots; live entries head .. tail-1 (circular) are the LAST count events before `next` */
#define RING_COUNT(h, t, sz) ((t) >= (h) ? (t) - (h) : (t) - (h) + (sz))
#define RING_RANGE(r) (0 <= (r)->head && (r)->head < (r)->size && 0 <= (r)->tail && (r)->tail < (r)->size)
#define RING_INV(r) (RING_RANGE(r) && ((r)->head == 0 || RING_COUNT((r)->head, (r)->tail, (r)->size) == (r)->size - 1))
#define CNT(r) RING_COUNT((r)->head, (r)->tail, (long) A5_RN)
#define DISTP(r, p) RING_COUNT((r)->head, (long) (p), (long) A5_RN)
#define POSJ(r, j) (((r)->head + (j)) % A5_RN)
/* pointer to input event k / to layout offset off of the mapping, as a selection among literals */
#define EVPTR_O(k) ((struct ovni_ev *) ((k) <= 0 ? a5_mem + A5_O0 : (k) == 1 ? a5_mem + A5_O1 : (k) == 2 ? a5_mem + A5_O2 : (k) == 3 ? a5_mem + A5_O3 : a5_mem + A5_O4))
/* the window never lost an event unless it is full; it cannot hold more events than exist */
#define WINDOW_OK(r) (CNT(r) <= g_K && (CNT(r) == g_K || CNT(r) == A5_RN - 1))
/* live index (0 = oldest) of the most recent window entry whose clock is below `target`; -1 if none */
static long sc_destj(long cnt, uint64_t target)
{
	for (long j = A5_RN - 2; j >= 0; j--)
		if (j < cnt && sc_clk(g_K - cnt + j) < target) return j;
	return -1;
}

/* ------------------------------------------------------------------ scene objects (harness-owned; statics are havocked by DFCC, the harness re-links them) */
struct ring a5_ring;
struct ovni_ev *a5_slots[A5_RNMAX];
struct sortplan a5_sp;
#define R (&a5_ring)
#define RING_SHAPE(r) ((r) == R && R->size == A5_RN && __CPROVER_pointer_equals(R->ev, a5_slots))
static void a5_link(void) { a5_ring.size = A5_RN; a5_ring.ev = a5_slots; a5_sp.r = &a5_ring; a5_sp.base = a5_mem; }
#define INREG(j) ((j) >= g_f && (j) < g_K)
#define SZ_P(j) (g_P[(j) + 1] - g_P[(j)])
#define PERMJ(j) ((g_perm[(j)] >= 0 && g_perm[(j)] < A5_K) ? g_perm[(j)] : 0)
/* slot p of the ring, if live, points to input event K - count + dist(p) */
#define SLOT_OK(r, p) ((p) >= A5_RN || DISTP(r, p) >= CNT(r) || __CPROVER_pointer_equals((r)->ev[(p)], EVPTR_O(g_K - CNT(r) + DISTP(r, p))))
#define SLOTS_OK(r) (SLOT_OK(r, 0) && SLOT_OK(r, 1) && SLOT_OK(r, 2) && SLOT_OK(r, 3))

/* the output layout is the input layout with the events g_f .. g_K-1 permuted */
static _Bool sc_prange(void)
{
	_Bool ok = 1;
	for (long j = 0; j <= A5_KMAX; j++) if (j <= g_K) ok = ok & (0 <= g_P[j]) & (g_P[j] <= A5_MEM);
	return ok;
}
static _Bool sc_perm(void)
{
	if (!sc_prange() || !SHAPE) return 0;
	_Bool ok = (0 <= g_f) & (g_f < g_K);
	for (long j = 0; j <= A5_K; j++) {
		if (j <= g_f) ok = ok & (g_P[j] == OC(j));
		if (j < A5_K && INREG(j)) {
			ok = ok & (g_f <= g_perm[j]) & (g_perm[j] < g_K);
			long pj = PERMJ(j);
			long sz = 0;
			for (long c = 0; c < A5_K; c++) if (pj == c) sz = SC(c);
			ok = ok & (SZ_P(j) == sz);
			for (long i = 0; i < j; i++) if (INREG(i)) ok = ok & (g_perm[i] != g_perm[j]);
		}
	}
	return ok;
}
/* output layout sane even before anything is known about the permutation (what write_stream / rebuild_ring need) */
static _Bool sc_pshape(void)
{
	if (!sc_prange()) return 0;
	_Bool ok = (0 <= g_f) & (g_f < g_K) & SHAPE;
	for (long j = 0; j <= A5_K; j++) {
		if (j <= g_f) ok = ok & (g_P[j] == OC(j));
		if (j < A5_K && INREG(j)) ok = ok & (SZ_P(j) >= 12) & (SZ_P(j) <= 28);
		if (j == g_K) ok = ok & (g_P[j] == OC(j));
	}
	return ok;
}
/* the work buffer (block A5_OUTPTR of a5_out, byte 0 == the start of the region) holds at the OUTPUT layout the events the mapping holds at the INPUT
 * layout, permuted: flags byte, clock and the observed byte of every event of the region */
static _Bool sc_same_buf(void)
{
	_Bool ok = 1;
	for (long j = 0; j < A5_K; j++)
		if (INREG(j)) {
			long rel = g_P[j] - g_P[g_f < 0 || g_f >= A5_K ? 0 : g_f];
			for (long c = 0; c < A5_K; c++) if (PERMJ(j) == c) {
				ok = ok & (sc_ob(A5_OUTOFF + rel) == a5_mem[OC(c)]) & (sc_oc(A5_OUTOFF + rel) == CLKAT(a5_mem, OC(c)));
				if (g_bb < SC(c)) ok = ok & (sc_ob(A5_OUTOFF + rel + g_bb) == sc_mb(OC(c) + g_bb));
			}
		}
	return ok;
}
/* the flags bytes found in buffer `m` / in the mapping at the OUTPUT layout announce the output sizes; non-jumbo; clocks < 2^63 */
static _Bool sc_wf_buf(void)
{
	_Bool ok = 1;
	for (long j = 0; j < A5_K; j++)
		if (INREG(j)) {
			long rel = g_P[j] - g_P[g_f < 0 || g_f >= A5_K ? 0 : g_f];
			uint8_t fl = sc_ob(A5_OUTOFF + rel);
			ok = ok & ((fl & OVNI_EV_JUMBO) == 0) & (SZ_P(j) == SIZE_OF_FLAGS(fl)) & (sc_oc(A5_OUTOFF + rel) < (1UL << 63));
		}
	return ok;
}
static _Bool sc_wf_out(void)
{
	_Bool ok = 1;
	for (long j = 0; j < A5_K; j++)
		if (INREG(j)) {
			uint8_t fl = sc_mb(g_P[j]);
			ok = ok & ((fl & OVNI_EV_JUMBO) == 0) & (SZ_P(j) == SIZE_OF_FLAGS(fl)) & (sc_mc(g_P[j]) < (1UL << 63));
		}
	return ok;
}
/* the mapping holds at the OUTPUT layout exactly what buffer `n` holds there: flags, clock, observed byte */
static _Bool sc_copy(void)
{
	_Bool ok = 1;
	for (long j = 0; j < A5_K; j++)
		if (INREG(j)) {
			long rel = g_P[j] - g_P[g_f < 0 || g_f >= A5_K ? 0 : g_f];
			ok = ok & (sc_mb(g_P[j]) == sc_ob(A5_OUTOFF + rel)) & (sc_mc(g_P[j]) == sc_oc(A5_OUTOFF + rel));
			if (g_bb < SZ_P(j)) ok = ok & (sc_mb(g_P[j] + g_bb) == sc_ob(A5_OUTOFF + rel + g_bb));
		}
	return ok;
}
/* clocks of the region at the output layout are non-decreasing (unsigned): in buffer `m` / in the mapping */
static _Bool sc_sorted_buf(void)
{
	_Bool ok = 1;
	for (long j = 0; j + 1 < A5_K; j++)
		if (INREG(j) && j + 1 < g_K) {
			long f0 = g_P[g_f < 0 || g_f >= A5_K ? 0 : g_f];
			ok = ok & (sc_oc(A5_OUTOFF + g_P[j] - f0) <= sc_oc(A5_OUTOFF + g_P[j + 1] - f0));
		}
	return ok;
}
static _Bool sc_sorted_out(void)
{
	_Bool ok = 1;
	for (long j = 0; j + 1 < A5_K; j++)
		if (INREG(j) && j + 1 < g_K) ok = ok & (sc_mc(g_P[j]) <= sc_mc(g_P[j + 1]));
	return ok;
}
#ifdef A5_STABLE
static _Bool sc_stable_buf(void)
{
	_Bool ok = 1;
	for (long j = 0; j + 1 < A5_K; j++)
		if (INREG(j) && j + 1 < g_K) {
			long f0 = g_P[g_f < 0 || g_f >= A5_K ? 0 : g_f];
			if (sc_oc(A5_OUTOFF + g_P[j] - f0) == sc_oc(A5_OUTOFF + g_P[j + 1] - f0)) ok = ok & (g_perm[j] < g_perm[j + 1]);
		}
	return ok;
}
static _Bool sc_stable_out(void)
{
	_Bool ok = 1;
	for (long j = 0; j + 1 < A5_K; j++)
		if (INREG(j) && j + 1 < g_K && sc_mc(g_P[j]) == sc_mc(g_P[j + 1])) ok = ok & (g_perm[j] < g_perm[j + 1]);
	return ok;
}
#endif
/* slots start, start+1, ... (circular) point to the consecutive events g_f, g_f+1, ... of the OUTPUT layout; `n` of them */
#define RDIST(start, p) RING_COUNT((long) (start), (long) (p), (long) A5_RN)
#define OUTJ(start, p) (g_f + RDIST(start, p) < 0 || g_f + RDIST(start, p) > A5_K ? 0 : g_f + RDIST(start, p))
#define REPOINTED(start, p, n) ((p) >= A5_RN || RDIST(start, p) >= (n) || __CPROVER_pointer_equals(a5_slots[(p)], (struct ovni_ev *) (a5_mem + g_P[OUTJ(start, p)])))
#define REPOINTED_ALL(start, n) (REPOINTED(start, 0, n) && REPOINTED(start, 1, n) && REPOINTED(start, 2, n) && REPOINTED(start, 3, n))
#define KEPT(start, p, n) ((p) >= A5_RN || RDIST(start, p) < (n) || a5_slots[(p)] == OLD(a5_slots[(p)]))
#define KEPT_ALL(start, n) (KEPT(start, 0, n) && KEPT(start, 1, n) && KEPT(start, 2, n) && KEPT(start, 3, n))

/* ================================================================= callee contracts (replace the calls in a5_execute_sort_plan; each ENFORCED in a5_leaf_*) */
uint64_t cr_find_min_clock(uint8_t *src, uint8_t *end)
__CPROVER_requires(SHAPE && 0 <= g_b && g_b < g_K)
__CPROVER_requires(__CPROVER_pointer_equals(src, (uint8_t *) EVPTR_O(g_b)) && __CPROVER_pointer_equals(end, (uint8_t *) EVPTR_O(g_K)))
__CPROVER_requires(sc_wf_in(g_b))
__CPROVER_assigns()
/* the smallest (unsigned) clock of [bad0, next) */
__CPROVER_ensures(RV == sc_minclk())
;
ssize_t cr_find_destination(struct ring *r, uint64_t clock)
__CPROVER_requires(RING_SHAPE(r) && RING_INV(R) && SHAPE && WINDOW_OK(R))
__CPROVER_requires(SLOTS_OK(R))
__CPROVER_requires(g_said == 0 && g_die_ok == 0 && DIAG_PRE)
__CPROVER_assigns(g_said, DIAG_FRAME)
/* the most recent window entry with a clock STRICTLY below the target; none and the window still reaches the first
 * event of the stream: that one (head == 0); none and the window is full: -1, and it says so */
__CPROVER_ensures(RV == (sc_destj(CNT(R), clock) >= 0 ? POSJ(R, sc_destj(CNT(R), clock)) : CNT(R) < A5_RN - 1 ? 0 : -1))
__CPROVER_ensures((RV == -1) == (g_said != 0) && g_err == OLD(g_err) + (RV == -1 ? 2u : 0u) && g_diag == OLD(g_diag) + (RV == -1 ? 2u : 0u) && g_warn == OLD(g_warn))
;
void cr_sort_buf(uint8_t *src, uint8_t *buf, int64_t bufsize)
__CPROVER_requires(SHAPE && 0 <= g_f && g_f < g_K && 0 <= g_bb && g_bb < 28)
__CPROVER_requires(__CPROVER_pointer_equals(src, (uint8_t *) EVPTR_O(g_f)) && bufsize == OC(g_K) - OC(g_f))
__CPROVER_requires(sc_wf_in(g_f))
/* the output buffer is the block execute_sort_plan obtained from malloc (model above) */
__CPROVER_requires(__CPROVER_pointer_equals(buf, A5_OUTPTR) && g_mptr == (void *) A5_OUTPTR && g_ycalls == 0 && g_ccalls == 0 && g_badfree == 0)
__CPROVER_assigns(__CPROVER_object_whole(a5_out), __CPROVER_object_whole(g_P), __CPROVER_object_whole(g_perm), g_qsort_calls, g_malloc_fail, g_die_ok)
__CPROVER_assigns(__CPROVER_object_whole(a5_cpy), __CPROVER_object_whole(a5_tab), g_ycalls, g_ccalls, g_yptr, g_cptr, g_yfreed, g_cfreed, g_badfree, g_died)
/* buf receives the events of [src, src + bufsize): a permutation of whole events (sizes preserved) ... */
__CPROVER_ensures(sc_perm() && sc_same_buf() && sc_wf_buf())
/* ... in non-decreasing clock order */
__CPROVER_ensures(sc_sorted_buf())
#ifdef A5_STABLE
__CPROVER_ensures(sc_stable_buf())
#endif
__CPROVER_ensures(g_qsort_calls == OLD(g_qsort_calls) + 1 && g_die_ok == OLD(g_die_ok))
/* its own two blocks are released, nothing else is; the caller's block is still the caller's */
__CPROVER_ensures(g_badfree == 0 && g_ycalls == 1 && g_yfreed == 1 && g_ccalls == 1 && g_cfreed == 1)
;
void cr_write_stream(int fd, void *base, void *dst, const void *src, size_t size)
__CPROVER_requires(sc_pshape() && 0 <= g_bb && g_bb < 28)
__CPROVER_requires(base == (void *) a5_mem && __CPROVER_pointer_equals(dst, (void *) EVPTR_O(g_f)) && size == (size_t) (OC(g_K) - OC(g_f)))
__CPROVER_requires(__CPROVER_pointer_equals(src, (const void *) A5_OUTPTR) && g_outoff == A5_OUTOFF)
__CPROVER_requires(g_pw_calls == 0 && g_pw_gap == 0 && g_pw_fail == 0 && 0 <= g_pos && g_pos < A5_MEM)
/* frame: the whole mapping is havocked (a constant-size havoc is what CBMC encodes cheaply); that only [dst, dst + size)
 * changes is the clause on the observed byte g_pos below */
__CPROVER_assigns(__CPROVER_object_whole(a5_mem), g_pw_calls, g_pw_fd, g_pw_first, g_pw_next, g_pw_gap, g_pw_fail, g_die_ok, g_died)
/* one gap-free run of successful pwrites on fd covering exactly the region ... */
__CPROVER_ensures(g_pw_fail == 0 && g_pw_gap == 0 && g_pw_calls >= 1 && g_pw_fd == fd && g_pw_first == OC(g_f) && g_pw_next == OC(g_K) && g_die_ok == OLD(g_die_ok))
/* ... after which the file (== the mapping) holds the bytes of src, and no byte outside the region has changed */
__CPROVER_ensures(sc_copy())
__CPROVER_ensures((g_pos >= OC(g_f) && g_pos < OC(g_K)) || a5_mem[g_pos] == OLD(a5_mem[g_pos]))
;
void cr_rebuild_ring(struct ring *r, long long start, struct ovni_ev *first, struct ovni_ev *last)
__CPROVER_requires(RING_SHAPE(r) && RING_RANGE(R) && sc_pshape())
__CPROVER_requires(0 <= start && start < A5_RN && RING_COUNT((long) start, R->tail, (long) A5_RN) == g_K - g_f)
__CPROVER_requires(__CPROVER_pointer_equals(first, EVPTR_O(g_f)) && __CPROVER_pointer_equals(last, EVPTR_O(g_K)))
__CPROVER_requires(sc_wf_out() && g_die_ok == 0)
__CPROVER_assigns(__CPROVER_object_whole(a5_slots))
__CPROVER_ensures(REPOINTED_ALL(start, g_K - g_f) && KEPT_ALL(start, g_K - g_f))
;
void cr_ring_check(struct ring *r, long long start)
__CPROVER_requires(RING_SHAPE(r) && RING_RANGE(R) && sc_pshape())
__CPROVER_requires(0 <= start && start < A5_RN && RING_COUNT((long) start, R->tail, (long) A5_RN) == g_K - g_f)
__CPROVER_requires(REPOINTED_ALL(start, g_K - g_f))
/* "Invariant: the ring buffer is always sorted here": asserted where the call is replaced, so ring_check cannot die */
__CPROVER_requires(sc_sorted_out() && g_die_ok == 0)
__CPROVER_assigns()
;

/* ================================================================= inside sort_buf: contracts of its three walkers (replace the calls in a5_leaf_sort_buf; each ENFORCED in a5_leaf_*) */
/* position in a5_cpy of the copy of input event k (the copy is the LAST bufsize bytes of the object, so it ends where `next` would begin) */
#define CPYI(k) (A5_REGMAX - (OC(g_K) - OC(k)))
#define CPYPTR(k) ((k) <= 0 ? a5_cpy + CPYI(0) : (k) == 1 ? a5_cpy + CPYI(1) : (k) == 2 ? a5_cpy + CPYI(2) : (k) == 3 ? a5_cpy + CPYI(3) : a5_cpy + A5_REGMAX)
/* the flags bytes of the COPIED events from..g_K-1 announce the sizes of the scene; non-jumbo */
static _Bool sc_wf_cpy(long from)
{
	_Bool ok = 1;
	for (long k = 0; k < A5_K; k++)
		if (k >= from && k < g_K) {
			uint8_t fl = sc_yb(CPYI(k));
			ok = ok & ((fl & OVNI_EV_JUMBO) == 0) & (SC(k) == SIZE_OF_FLAGS(fl)) & (sc_yc(CPYI(k)) < (1UL << 63));
		}
	return ok;
}
/* cell q of the table object holds entry t = q - (A5_KMAX - n) of the table, if t >= 0 */
#define TAB_T(q) ((long) (q) - (A5_KMAX - (g_K - g_f)))
#define TAB_INDEXED(q) (TAB_T(q) < 0 || __CPROVER_pointer_equals(a5_tab[(q)], (struct ovni_ev *) CPYPTR(g_f + TAB_T(q))))
#define TAB_PERMUTED(q) (TAB_T(q) < 0 || __CPROVER_pointer_equals(a5_tab[(q)], (struct ovni_ev *) CPYPTR(g_perm[g_f + TAB_T(q) < 0 || g_f + TAB_T(q) >= A5_KMAX ? 0 : g_f + TAB_T(q)])))
/* the work buffer holds at the OUTPUT layout the events the copy holds at the INPUT layout, permuted */
static _Bool sc_same_out_cpy(void)
{
	_Bool ok = 1;
	for (long j = 0; j < A5_K; j++)
		if (INREG(j)) {
			long rel = g_P[j] - g_P[g_f < 0 || g_f >= A5_K ? 0 : g_f];
			for (long c = 0; c < A5_K; c++) if (PERMJ(j) == c) {
				ok = ok & (sc_ob(A5_OUTOFF + rel) == sc_yb(CPYI(c))) & (sc_oc(A5_OUTOFF + rel) == sc_yc(CPYI(c)));
				if (g_bb < SC(c)) ok = ok & (sc_ob(A5_OUTOFF + rel + g_bb) == sc_yb(CPYI(c) + g_bb));
			}
		}
	return ok;
}
long cr_count_events(uint8_t *src, uint8_t *end)
__CPROVER_requires(SHAPE && 0 <= g_f && g_f < g_K)
__CPROVER_requires(__CPROVER_pointer_equals(src, CPYPTR(g_f)) && __CPROVER_pointer_equals(end, a5_cpy + A5_REGMAX))
__CPROVER_requires(sc_wf_cpy(g_f))
__CPROVER_assigns()
__CPROVER_ensures(RV == g_K - g_f)
;
void cr_index_events(struct ovni_ev **table, long n, uint8_t *buf)
__CPROVER_requires(SHAPE && 0 <= g_f && g_f < g_K && n == g_K - g_f)
__CPROVER_requires(__CPROVER_pointer_equals(table, A5_TABPTR) && __CPROVER_pointer_equals(buf, CPYPTR(g_f)))
__CPROVER_requires(sc_wf_cpy(g_f))
__CPROVER_assigns(__CPROVER_object_whole(a5_tab))
/* entry t points to the t-th event of the buffer */
__CPROVER_ensures(TAB_INDEXED(0) && TAB_INDEXED(1) && TAB_INDEXED(2) && TAB_INDEXED(3))
;
void cr_write_events(struct ovni_ev **table, long n, uint8_t *buf)
__CPROVER_requires(SHAPE && 0 <= g_f && g_f < g_K && n == g_K - g_f && 0 <= g_bb && g_bb < 28)
__CPROVER_requires(__CPROVER_pointer_equals(table, A5_TABPTR) && __CPROVER_pointer_equals(buf, A5_OUTPTR))
__CPROVER_requires(sc_perm() && sc_wf_cpy(g_f))
__CPROVER_requires(TAB_PERMUTED(0) && TAB_PERMUTED(1) && TAB_PERMUTED(2) && TAB_PERMUTED(3))
__CPROVER_assigns(__CPROVER_object_whole(a5_out))
/* the events the table points to, in table order, back to back */
__CPROVER_ensures(sc_same_out_cpy())
;

/* ================================================================= execute_sort_plan (composition: loop-free) */
#ifdef A5_EXEC
uint64_t g_min; long g_dj, g_cnt, g_head;   /* pre-state: smallest clock of [bad0, next), destination (live index), window size */
uint64_t g_ck[A5_KMAX];                     /* pre-state: clock of input event k */
static _Bool sc_ck_bound(void)
{
	_Bool ok = 1;
	for (long k = 0; k < A5_K; k++) if (k < g_K) ok = ok & (g_ck[k] == CLKAT(a5_mem, OC(k)));
	return ok;
}
/* output event j carries the clock input event g_perm[j] had */
static _Bool sc_ck_same(void)
{
	_Bool ok = 1;
	for (long j = 0; j < A5_K; j++)
		if (INREG(j)) for (long c = 0; c < A5_K; c++) if (PERMJ(j) == c) ok = ok & (sc_mc(g_P[j]) == g_ck[c]);
	return ok;
}
#ifndef A5_E2E
int g_fd;
#endif
long w_K, w_b, w_cnt, w_head, w_dj;
WITNESS(execute_sort_plan);
int c_execute_sort_plan(struct sortplan *sp)
__CPROVER_requires(__CPROVER_pointer_equals(sp->r, R) && __CPROVER_pointer_equals(sp->base, a5_mem) && sp->fd == g_fd)
__CPROVER_requires(RING_SHAPE(R) && RING_INV(R) && SHAPE && WINDOW_OK(R))
__CPROVER_requires(SLOTS_OK(R))
__CPROVER_requires(sc_wf_in(0))
__CPROVER_requires(0 <= g_b && g_b < g_K && __CPROVER_pointer_equals(sp->bad0, EVPTR_O(g_b)) && __CPROVER_pointer_equals(sp->next, EVPTR_O(g_K)))
/* pre-state facts named for the postconditions */
__CPROVER_requires(g_min == sc_minclk() && g_cnt == CNT(R) && g_head == R->head && g_dj == sc_destj(CNT(R), g_min) && sc_ck_bound())
/* SPECIFICATION of `first`: the most recent window entry strictly earlier than the region, else the oldest entry */
__CPROVER_requires(g_f == g_K - g_cnt + (g_dj >= 0 ? g_dj : 0))
/* observers */
__CPROVER_requires(0 <= g_s && g_s < g_K && 0 <= g_bb && g_bb < SC(g_s) && g_oldbyte == sc_mb(OC(g_s) + g_bb))
__CPROVER_requires(0 <= g_pos && g_pos < A5_MEM && g_posbyte == a5_mem[g_pos])
__CPROVER_requires(g_pw_calls == 0 && g_pw_gap == 0 && g_pw_fail == 0 && g_said == 0 && g_die_ok == 0 && g_malloc_fail == 0 && g_qsort_calls == 0 && DIAG_PRE)
__CPROVER_requires(g_outoff == A5_OUTOFF && g_mcalls == 0 && g_ycalls == 0 && g_ccalls == 0 && g_badfree == 0)
__CPROVER_requires(WBIND(execute_sort_plan, w_K == g_K && w_b == g_b && w_cnt == g_cnt && w_head == g_head && w_dj == g_dj))
__CPROVER_assigns(__CPROVER_object_whole(a5_mem), __CPROVER_object_whole(a5_slots), __CPROVER_object_whole(g_P), __CPROVER_object_whole(g_perm))
__CPROVER_assigns(g_pw_calls, g_pw_fd, g_pw_first, g_pw_next, g_pw_gap, g_pw_fail, g_said, DIAG_FRAME, g_die_ok, g_malloc_fail, g_qsort_calls, g_died)
__CPROVER_assigns(__CPROVER_object_whole(a5_out), __CPROVER_object_whole(a5_cpy), __CPROVER_object_whole(a5_tab), g_mcalls, g_ycalls, g_ccalls, g_mptr, g_yptr, g_cptr, g_mfreed, g_yfreed, g_cfreed, g_badfree)
__CPROVER_ensures(RV == 0 || RV == -1)
/* every block obtained is released exactly once (nothing is allocated on the failure path) */
__CPROVER_ensures(g_badfree == 0 && (RV == 0 ? (g_mcalls == 1 && g_mfreed == 1) : g_mcalls == 0))
/* fails exactly when no window entry is earlier than the region and the window no longer reaches the start of the
 * stream; then it says so and has modified nothing */
__CPROVER_ensures((RV == -1) == (g_dj < 0 && g_cnt >= A5_RN - 1))
__CPROVER_ensures((RV == -1) == (g_said != 0) && (RV == 0 ? g_err == OLD(g_err) : g_err > OLD(g_err)))
__CPROVER_ensures(RV != -1 || (a5_mem[g_pos] == g_posbyte && g_pw_calls == 0 && KEPT_ALL(0, 0)))
/* (success: that `first` is event g_f is asserted where sort_buf / write_stream / rebuild_ring are replaced) */
/* every byte outside [first, next) is untouched */
__CPROVER_ensures(RV != 0 || (g_pos >= OC(g_f) && g_pos < OC(g_K)) || a5_mem[g_pos] == g_posbyte)
/* the region holds a permutation of the whole events that were there: sizes preserved (layout g_P, and the flags
 * bytes found in memory announce exactly these sizes), and the observed byte of the observed input event sits at the
 * same position inside the output event that the permutation assigns to it */
__CPROVER_ensures(RV != 0 || (sc_perm() && sc_wf_out() && sc_ck_same()))
__CPROVER_ensures(RV != 0 || !(g_s >= g_f) || ((INREG(0) && g_perm[0] == g_s) || (INREG(1) && g_perm[1] == g_s) || (INREG(2) && g_perm[2] == g_s) || (INREG(3) && g_perm[3] == g_s)))
__CPROVER_ensures(RV != 0 || !(INREG(0) && g_perm[0] == g_s) || sc_mb(g_P[0] + g_bb) == g_oldbyte)
__CPROVER_ensures(RV != 0 || !(INREG(1) && g_perm[1] == g_s) || sc_mb(g_P[1] + g_bb) == g_oldbyte)
__CPROVER_ensures(RV != 0 || !(INREG(2) && g_perm[2] == g_s) || sc_mb(g_P[2] + g_bb) == g_oldbyte)
__CPROVER_ensures(RV != 0 || !(INREG(3) && g_perm[3] == g_s) || sc_mb(g_P[3] + g_bb) == g_oldbyte)
/* in non-decreasing clock order; the destination event itself (strictly earlier than the region) does not move */
__CPROVER_ensures(RV != 0 || sc_sorted_out())
__CPROVER_ensures(RV != 0 || g_dj < 0 || g_perm[g_f] == g_f)
#ifdef A5_STABLE
__CPROVER_ensures(RV != 0 || sc_stable_out())
#endif
/* the window entries from the destination on point to the moved events, the others are kept; head/tail are not in the frame */
__CPROVER_ensures(RV != 0 || (REPOINTED_ALL(POSJ(R, (g_dj >= 0 ? g_dj : 0)), g_K - g_f) && KEPT_ALL(POSJ(R, (g_dj >= 0 ? g_dj : 0)), g_K - g_f)))
/* written to the stream file through sp->fd: one gap-free run of pwrites covering exactly the region */
__CPROVER_ensures(RV != 0 || (g_pw_fail == 0 && g_pw_gap == 0 && g_pw_calls >= 1 && g_pw_fd == g_fd && g_pw_first == OC(g_f) && g_pw_next == OC(g_K)))
;
void h_execute_sort_plan(void)
{
	a5_link();
	WITNESS_ON(execute_sort_plan);
	int r = execute_sort_plan(&a5_sp);
	if (r == -1 && w_cnt == w_K) REACH("window full, nothing earlier: cannot sort, says so");
#if A5_K >= A5_RN
	if (r == -1 && w_cnt < w_K) REACH("region longer than the look-back window: cannot sort");
#endif
	if (r == 0 && w_dj < 0) REACH("window reaches the first event of the stream: sorted from there");
#if A5_K >= 3 && A5_RN >= 4
	if (r == 0 && w_dj == 0 && w_b == 1 && w_K == 3 && g_perm[1] == 2 && g_perm[2] == 1) REACH("two events of different sizes exchanged");
	if (r == 0 && w_head == 2 && w_cnt == 3 && w_dj >= 0) REACH("wrapped ring");
#endif
}
#endif

/* ================================================================= leaves: each callee contract ENFORCED against the real callee */
#ifdef A5_LEAF_MINCLK
void h_leaf_find_min_clock(void)
{
	__CPROVER_assume(SHAPE && 0 <= g_b && g_b < g_K);
	uint64_t m = find_min_clock((uint8_t *) EVPTR_O(g_b), (uint8_t *) EVPTR_O(g_K));
	if (g_K == A5_K && g_b == 0) REACH("minimum over all events of the scene");
	if (g_b == g_K - 1) REACH("region of one event");
	if (g_K >= 2 && g_b == 0 && m < CLKAT(a5_mem, A5_O0)) REACH("a later event is the earliest");
}
#endif
#ifdef A5_LEAF_DEST
void h_leaf_find_destination(void)
{
	a5_link();
	uint64_t clock = nondet_u64();
	ssize_t i = find_destination(R, clock);
	long cnt = CNT(R);
	if (i == -1) REACH("not found in a full window");
	if (i >= 0 && sc_destj(cnt, clock) < 0) REACH("not found, window reaches the start of the stream");
	if (i >= 0 && sc_destj(cnt, clock) == 0 && cnt == A5_RN - 1) REACH("found at the oldest entry");
	if (i >= 0 && R->tail < R->head) REACH("found in a wrapped ring");
}
#endif
#ifdef A5_LEAF_REBUILD
void h_leaf_rebuild_ring(void)
{
	a5_link();
	long long start = nondet_long();
	__CPROVER_assume(SHAPE && 0 <= g_f && g_f < g_K);
	rebuild_ring(R, start, EVPTR_O(g_f), EVPTR_O(g_K));
	REACH("rebuild_ring returns");
	if (g_K - g_f == A5_RN - 1) REACH("whole window re-pointed");
	if (R->tail < start) REACH("positions wrap around the end of the ring");
}
#endif
#ifdef A5_LEAF_CHECK
void h_leaf_ring_check(void)
{
	a5_link();
	long long start = nondet_long();
	ring_check(R, start);
	REACH("ring_check returns on a sorted window");
	if (g_K - g_f == A5_RN - 1 && R->tail < start) REACH("whole window checked, wrapped");
}
#endif
#ifdef A5_LEAF_WRITE
void h_leaf_write_stream(void)
{
	a5_link();
	__CPROVER_assume(0 <= g_f && g_f < g_K && g_K <= A5_K);
	size_t size = (size_t) (OC(g_K) - OC(g_f));
	int fd = nondet_int();
	g_outoff = A5_OUTOFF;
	write_stream(fd, a5_mem, EVPTR_O(g_f), A5_OUTPTR, size);
	REACH("write_stream returns");
	if (g_pw_calls >= 3) REACH("three or more short writes");
	if (g_K - g_f == A5_K && g_pw_calls == 1) REACH("largest region written at once");
	if (g_pos >= OC(g_f) && g_pos < OC(g_K)) REACH("observer inside the region");
	if (g_pos >= OC(g_K)) REACH("observer after the region");
}
#endif

#ifdef A5_LEAF_COUNT
void h_leaf_count_events(void)
{
	__CPROVER_assume(SHAPE && 0 <= g_f && g_f < g_K);
	long n = count_events(CPYPTR(g_f), a5_cpy + A5_REGMAX);
	if (n == A5_K) REACH("all events of the scene counted");
	if (n == 1) REACH("one event");
}
#endif
#ifdef A5_LEAF_INDEX
void h_leaf_index_events(void)
{
	__CPROVER_assume(SHAPE && 0 <= g_f && g_f < g_K);
	index_events(A5_TABPTR, g_K - g_f, CPYPTR(g_f));
	REACH("index_events returns");
	if (g_K - g_f == A5_K) REACH("all events of the scene indexed");
}
#endif
#ifdef A5_LEAF_WEVENTS
void h_leaf_write_events(void)
{
	__CPROVER_assume(SHAPE && 0 <= g_f && g_f < g_K);
	write_events(A5_TABPTR, g_K - g_f, A5_OUTPTR);
	REACH("write_events returns");
#if A5_K >= 3
	if (g_K - g_f == 3 && g_perm[g_f] == g_f + 2 && g_perm[g_f + 1] == g_f) REACH("three events written in another order");
#endif
}
#endif
#ifdef A5_LEAF_SORTBUF
void h_leaf_sort_buf(void)
{
	__CPROVER_assume(SHAPE && 0 <= g_f && g_f < g_K);
	g_mptr = A5_OUTPTR; g_mfreed = 0;     /* the caller's block */
	sort_buf((uint8_t *) EVPTR_O(g_f), A5_OUTPTR, OC(g_K) - OC(g_f));
	REACH("sort_buf returns");
#if A5_K >= 2
	if (g_K == 2 && g_f == 0 && g_perm[0] == 1 && CLKAT(a5_mem, A5_O1) < CLKAT(a5_mem, A5_O0)) REACH("two events with different clocks exchanged");
#endif
#if A5_K >= 3
	if (g_K - g_f == 3 && g_perm[g_f] == g_f + 2 && g_perm[g_f + 1] == g_f && g_perm[g_f + 2] == g_f + 1) REACH("last event moved to the front");
	if (g_K - g_f == 3 && g_perm[g_f] == g_f && g_perm[g_f + 1] == g_f + 1) REACH("already sorted");
#ifndef A5_STABLE
	if (g_K - g_f >= 2 && CLKAT(a5_mem, OC(g_f < 0 || g_f > 3 ? 0 : g_f)) == CLKAT(a5_mem, OC(g_f < 0 || g_f > 2 ? 1 : g_f + 1)) && g_perm[g_f] == g_f + 1 && g_perm[g_f + 1] == g_f) REACH("an unstable qsort may swap equal clocks");
#else
	if (g_K - g_f >= 2 && CLKAT(a5_mem, OC(g_f < 0 || g_f > 3 ? 0 : g_f)) == CLKAT(a5_mem, OC(g_f < 0 || g_f > 2 ? 1 : g_f + 1)) && g_perm[g_f] == g_f && g_perm[g_f + 1] == g_f + 1) REACH("equal clocks kept in order by a stable qsort");
#endif
#endif
}
#endif
