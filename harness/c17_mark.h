/* C17 -- shared front matter of the emulator-side units (real src/emu/ovni/mark.c).
 *
 * Trusted base of these units (each item is listed in plan/C17.json "trusted"):
 *  - uthash: HASH_ADD / HASH_ADD_LONG (used inline by create_mark_type / add_label)
 *    are rebound to a ghost insertion log; an empty table's head becomes the item and
 *    the item's hh.next is NULL (what uthash does), a non-empty head is left alone.
 *    HASH_FIND wrappers (find_mark_type, find_label) are replaced by ASSUMED one-cell
 *    map contracts.
 *  - calloc: may fail, zero-filled.  snprintf(buf, n, "%s", s): see C17_STR below.
 *  - chan_init / track_init are variadic (DFCC cannot instrument variadic calls): the
 *    calls are rebound BY MACRO to fixed-arity logging stubs (format arguments dropped).
 */
#ifndef C17_MARK_H
#define C17_MARK_H
#include "prelude.h"

#define RV __CPROVER_return_value
#define OLD(x) __CPROVER_old(x)

/* ---- uthash insertion log ---- */
#include "uthash.h"
struct c17_hlog {
	unsigned n;          /* insertions so far */
	void *head;          /* &head of the last insertion */
	void *item;          /* item of the last insertion */
	long long key;       /* key of the last insertion */
	unsigned long keylen;
} g_hl;
#undef HASH_ADD
#define HASH_ADD(hh_, head_, field_, keylen_, add_) { g_hl.n++; g_hl.head = (void *) &(head_); \
	g_hl.item = (void *) (add_); g_hl.key = (long long) (add_)->field_; g_hl.keylen = (keylen_); \
	(add_)->hh_.next = NULL; if ((head_) == NULL) (head_) = (add_); }
#define HLOG_PRE (g_hl.n < 1000000u)
#define HLOG_FRAME g_hl

/* ---- call logs: the k-th call of a stubbed function and its arguments ---- */
struct c17_call { void *obj; long a, b, c; void *p, *q; };
#define C17_LOGN 4
struct c17_clog { unsigned n; struct c17_call c[C17_LOGN]; };
/* DFCC checks every assignment against every assigns target (a loop over the write set):
 * all logs live in ONE struct (one target) and a log entry is written by ONE struct assignment. */
struct c17_logs {
	struct c17_clog calloc_, chan_init, track_init, prop, bayreg, connect, prvreg, select, input, pcftype, pcfval, cputh, getout;
} g_L;
#define g_l_calloc g_L.calloc_
#define g_l_chan_init g_L.chan_init
#define g_l_track_init g_L.track_init
#define g_l_prop g_L.prop
#define g_l_bayreg g_L.bayreg
#define g_l_connect g_L.connect
#define g_l_prvreg g_L.prvreg
#define g_l_select g_L.select
#define g_l_input g_L.input
#define g_l_pcftype g_L.pcftype
#define g_l_pcfval g_L.pcfval
#define g_l_cputh g_L.cputh
#define g_l_getout g_L.getout
static inline void c17_log(struct c17_clog *l, void *obj, long a, long b, long c, void *p, void *q)
{
	if (l->n < C17_LOGN) {
		struct c17_call e; e.obj = obj; e.a = a; e.b = b; e.c = c; e.p = p; e.q = q;
		l->c[l->n] = e;
	}
	l->n++;
}

/* ---- lower-layer failures (calloc returns NULL, snprintf truncates) ---- */
unsigned g_lowfail;
#define LOW_PRE (g_lowfail < 1000000u)
void *calloc(size_t n, size_t sz)
{
	if (nondet_bool()) { g_lowfail++; return NULL; }
	size_t tot = n * sz;
	if (n != 0 && tot / n != sz) { g_lowfail++; return NULL; }
	char *p = malloc(tot);
	if (p == NULL) { g_lowfail++; return NULL; }
	if (tot > 0) __CPROVER_array_set(p, 0);
	c17_log(&g_l_calloc, p, (long) n, (long) sz, 0, NULL, NULL);
	return p;
}
#define CALLOC_FRAME g_lowfail, g_L

/* ---- variadic emulator functions called by mark.c: fixed-arity logging stubs ---- */
#include "chan.h"
#include "track.h"
#include "bay.h"
#include "cpu.h"
#include "emu.h"
#include "emu_ev.h"
#include "emu_prv.h"
#include "ovni.h"
#include "ovni/ovni_priv.h"
#include "parson.h"
#include "pv/pcf.h"
#include "pv/prv.h"
#include "pv/pvt.h"
#include "thread.h"
static inline void c17_chan_init(struct chan *ch, enum chan_type type)
{
	c17_log(&g_l_chan_init, ch, (long) type, 0, 0, NULL, NULL);
}
static inline int c17_track_init(struct track *tr, struct bay *bay, enum track_type type, int mode)
{
	c17_log(&g_l_track_init, tr, (long) type, (long) mode, 0, bay, NULL);
	if (nondet_bool()) { g_lowfail++; return -1; }
	return 0;
}
#define chan_init(ch, type, ...) c17_chan_init((ch), (type))
#define track_init(tr, bay, type, mode, ...) c17_track_init((tr), (bay), (type), (mode))

/* (after every header mark.c includes: value.h has its own inline snprintf uses) */
/* ---- snprintf(buf, n, "%s", s): the only form used by mark.c ----
 * default: the prelude's model (formatting dropped, any length returned; the
 *   caller's `>= size` truncation check stays live), truncation counted;
 * C17_STR: exact model of the "%s" conversion (copies min(len, n-1) bytes, NUL
 *   terminates, returns len) so that the stored title/label can be compared with
 *   the given one; strings are then bounded (group kind "bounded"). */
#undef snprintf
#ifdef C17_STR
static inline int c17_snprintf_s(char *buf, size_t n, const char *s)
{
	size_t len = strlen(s);
	if (n > 0) {
		size_t k = 0;
		for (; k < len && k + 1 < n; k++)
			buf[k] = s[k];
		buf[k] = '\0';
	}
	if (len >= n) g_lowfail++;   /* output truncated */
	return (int) len;
}
#define snprintf(buf, n, fmt, s) c17_snprintf_s((buf), (n), (s))
#else
static inline int c17_snprintf(char *s, size_t n)
{
	int r = verif_snprintf(s, n);
	if (n > 0 && (size_t) r >= n) g_lowfail++;   /* output truncated */
	return r;
}
#define snprintf(s, n, ...) c17_snprintf((s), (n))
#endif


/* ---- C17_ORACLE: strcmp between two NON-LITERAL strings (stored title/label vs. given one)
 * is answered by an oracle: the arguments are logged, the answer g_cmp_result is arbitrary.
 * Comparisons with string literals ("single", "stack", JSON key names) keep CBMC's strcmp
 * model (they terminate at the literal's NUL, so the other string is unbounded).  Dispatch
 * by the type of &(second argument): char (*)[N] for a literal. ---- */
#ifdef C17_ORACLE
struct c17_cmp { unsigned n; const char *a, *b; } g_cmp;
int g_cmp_result;
static inline int c17_strcmp_oracle(const char *a, const char *b) { g_cmp.n++; g_cmp.a = a; g_cmp.b = b; return g_cmp_result; }
#define strcmp(a, b) _Generic(&(b), char (*)[6]: strcmp, char (*)[7]: strcmp, char (*)[10]: strcmp, default: c17_strcmp_oracle)((a), (b))
#define CMP_FRAME , g_cmp
#else
#define CMP_FRAME
#endif

#endif
