/* C19 -- SPEC_WF: what ev_spec_compile produces (parse_arg): at most MAX_ARGS arguments;
 * each has a type below MAX_TYPE, the size of its type (0 for str) and lies inside the
 * declared payload: offset + size <= payload_size; the declared payload size is bounded by
 * 4 + 16*8.  Argument names are NUL-terminated inside their 64-byte array (snprintf check
 * in parse_arg).
 * Written with the non-short-circuit operators & and | on 0/1 values: every operand is safe
 * to evaluate (constant indices, unsigned arithmetic), and CBMC's symbolic execution forks
 * on each || / && / ?: of a requires clause (measured: 4 arguments with || never finish). */
#ifndef C19_SPECWF_H
#define C19_SPECWF_H
#include "ev_spec.h"
#define B(e) ((unsigned) ((e) != 0))
#define SIZE_MATCHES(t, z) ( \
	(B((t) == U8) | B((t) == I8)) & B((z) == 1) | (B((t) == U16) | B((t) == I16)) & B((z) == 2) | \
	(B((t) == U32) | B((t) == I32)) & B((z) == 4) | (B((t) == U64) | B((t) == I64)) & B((z) == 8) | \
	B((t) == STR) & B((z) == 0))
#define ARG_WF(s, i) (B((i) >= (s)->nargs) | ( \
	B((unsigned) (s)->args[i].type < (unsigned) MAX_TYPE) & SIZE_MATCHES((s)->args[i].type, (s)->args[i].size) & \
	B((s)->args[i].offset <= (s)->payload_size) & B((s)->args[i].size <= (s)->payload_size - (s)->args[i].offset) & \
	B((s)->args[i].name[63] == 0)))
_Static_assert(MAX_ARGS == 16, "SPEC_WF enumerates 16 arguments");
#define SPEC_WF(s) ((B((s)->nargs >= 0) & B((s)->nargs <= MAX_ARGS) & (B((s)->is_jumbo == 0) | B((s)->is_jumbo == 1)) & \
	B((s)->payload_size <= 4 + 8 * MAX_ARGS) & \
	ARG_WF(s, 0) & ARG_WF(s, 1) & ARG_WF(s, 2) & ARG_WF(s, 3) & ARG_WF(s, 4) & ARG_WF(s, 5) & ARG_WF(s, 6) & ARG_WF(s, 7) & \
	ARG_WF(s, 8) & ARG_WF(s, 9) & ARG_WF(s, 10) & ARG_WF(s, 11) & ARG_WF(s, 12) & ARG_WF(s, 13) & ARG_WF(s, 14) & ARG_WF(s, 15)) != 0)
/* what check_payload adds for an event: every declared string starts inside the payload
 * (and has its NUL inside it: single-cell observer in c19_model.c) */
#define STR_IN(s, i, psz) (B((i) >= (s)->nargs) | B((s)->args[i].type != STR) | B((s)->args[i].offset < (psz)))
#define STRINGS_INSIDE(s, psz) ((STR_IN(s, 0, psz) & STR_IN(s, 1, psz) & STR_IN(s, 2, psz) & STR_IN(s, 3, psz) & STR_IN(s, 4, psz) & \
	STR_IN(s, 5, psz) & STR_IN(s, 6, psz) & STR_IN(s, 7, psz) & STR_IN(s, 8, psz) & STR_IN(s, 9, psz) & STR_IN(s, 10, psz) & \
	STR_IN(s, 11, psz) & STR_IN(s, 12, psz) & STR_IN(s, 13, psz) & STR_IN(s, 14, psz) & STR_IN(s, 15, psz)) != 0)
#define NAME_T(s, i) B((s)->args[i].name[63] == 0)
#define SPEC_NAMES_TERMINATED(s) ((NAME_T(s, 0) & NAME_T(s, 1) & NAME_T(s, 2) & NAME_T(s, 3) & NAME_T(s, 4) & NAME_T(s, 5) & \
	NAME_T(s, 6) & NAME_T(s, 7) & NAME_T(s, 8) & NAME_T(s, 9) & NAME_T(s, 10) & NAME_T(s, 11) & NAME_T(s, 12) & \
	NAME_T(s, 13) & NAME_T(s, 14) & NAME_T(s, 15)) != 0)
#endif
