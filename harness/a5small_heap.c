/* A5 (function coverage, plan C03) -- heap_max of the real src/include/heap.h: the element the
 * player would replay next.  It is the ROOT of the heap (NULL for an empty heap), read without
 * writing anything: not the size, not the root link, no node.  That the root carries a maximal
 * key is the heap-order invariant which the size-indexed family of harness/c03_heap.c
 * (heap_insert / heap_pop_max) re-establishes; here: exact value + empty frame, for an arbitrary
 * head (any size field, root absent or any node with arbitrary links). */
#include "prelude.h"
#include "heap.h"          /* the real /repo/src/include/heap.h */

#define RV __CPROVER_return_value

WITNESS(heap_max);
int w_empty; unsigned long w_size;
heap_node_t *c_heap_max(heap_head_t *head)
__CPROVER_requires(__CPROVER_is_fresh(head, sizeof(*head)))
__CPROVER_requires(head->root == NULL || __CPROVER_is_fresh(head->root, sizeof(heap_node_t)))
__CPROVER_requires(WBIND(heap_max, w_empty == (head->root == NULL) && w_size == head->size))
__CPROVER_assigns()
__CPROVER_ensures(RV == head->root)
;
void h_heap_max(void)
{
	heap_head_t *head;
	WITNESS_ON(heap_max);
	heap_node_t *r = heap_max(head);
	if (r == NULL && w_empty) REACH("empty heap has no maximum");
	if (r != NULL && w_size == 1) REACH("single element");
	if (r != NULL && w_size == 0xffffffffffffffffUL) REACH("root handed out whatever the size field says");
}
