/* C16 / C19 -- ovnisort.c sort_buf with count_events, index_events, write_events verified INLINE -- UNBOUNDED:
 * region of symbolic size (12 .. 2^40 bytes) with ARBITRARY bytes, any number of events of any legal size, the
 * three loops under their loop contracts (loops/c16_a5c16unb_sortbuf.json = the invariants of
 * c16_a5c16unb_walk.json / c16_a5c16unb_write.json), sort_buf itself loop-free.
 *
 * Caller's guarantee (execute_sort_plan): src[0 .. bufsize) is a concatenation of WHOLE events delivered by
 * stream_step (REGION_WF, see c16_a5c16unb_walk.c), bufsize > 0, buf has bufsize bytes.
 * Outside the unit (stubs / monitors, all listed in the plan):
 *   malloc / calloc / free   may fail (NULL); hand out the two pre-allocated working objects g_reg (exactly
 *                            bufsize bytes) and g_table (exactly n pointers, n = number of events), assert the
 *                            requested sizes, log the calls;
 *   memcpy                   phase 0: the working copy (array copy, asserts the arguments); phase 3: the
 *                            one-byte-observer copy of c16_a5c16unb_write.c;
 *   ovni_ev_size             phases 1, 2: the region monitor of c16_a5c16unb_walk.c on the working copy (supplies
 *                            REGION_WF lazily); phase 3: the table monitor of c16_a5c16unb_write.c (supplies
 *                            lazily HYP-T: table[i] points at a whole event of the working copy, HYP-S: the sizes
 *                            of table[0..i] sum to at most bufsize -- both are consequences of "index_events
 *                            stored the n event boundaries and qsort permuted them", a quantified fact that is
 *                            NOT proved here, see the plan);
 *   qsort                    ASSUMED to return a permutation of the table: the table is havocked, then the
 *                            observed cell g_q receives the old content of some cell g_pi (chosen by qsort);
 *                            asserts (table, n, 8, cmp_ev).  Order is not used in this group (cmp_ev and the
 *                            sortedness clause: groups cmp_ev*, sort_buf_k*).
 * Phases: 0 copy, 1 count, 2 index, 3 write.  Observers: event index g_k (start g_kpos, size g_ksz in the region),
 * table cell g_q, output byte g_opos. */
int g_no_die;
int g_alloc_failed;
#ifdef A5_DIE_REACH
#define VERIF_DIE_HOOK do { __CPROVER_assert(g_alloc_failed, "die() reached although no allocation failed"); __CPROVER_assert(0, "REACH: die() reached after a failed allocation"); } while (0)
#else
#define VERIF_DIE_HOOK __CPROVER_assert(g_alloc_failed, "die() reached although no allocation failed")
#endif
#include "prelude.h"
#include "ovni.h"

_Static_assert(sizeof(struct ovni_ev_header) == 12, "header layout");
_Static_assert(offsetof(struct ovni_ev, payload.jumbo.size) == 12, "jumbo size field");

#define A5_MAXBYTES (1L << 40)
#define RD32(p) (*(const uint32_t *) (p))
#define RD64(p) (*(const uint64_t *) (p))
#define NORMAL_SIZE(fl) (12L + ((fl) & 0x0f) + (((fl) & 0x0f) != 0))

uint8_t *g_src;                       /* the caller's region: ONE object of exactly g_total bytes */
uint8_t *g_reg;  long g_total;        /* the working copy handed out by malloc: exactly g_total bytes */
uint8_t *g_obuf; long g_cap;          /* the output buffer: exactly g_cap == g_total bytes */
struct ovni_ev **g_table; long g_n;   /* the table handed out by calloc: exactly g_n pointers */
int g_phase;
unsigned g_malloc_calls, g_calloc_calls, g_free_calls, g_qsort_calls, g_copy_calls;
/* region monitor (phases 1, 2) */
long g_chain, g_cnt; uint64_t g_min; long g_min_at, g_njumbo;
long g_k; int g_khit; long g_kpos, g_ksz; uint64_t g_kclk;
/* qsort */
long g_q, g_pi;
/* table monitor (phase 3) */
long g_out; int g_pending; long g_cur_off, g_cur_sz;
long g_opos; uint8_t g_oold; int g_ohit; long g_oi, g_ostart, g_ooff;

static void *
a5_malloc(size_t size)
{
	g_malloc_calls++;
	VASSERT(g_phase == 0 && g_malloc_calls == 1 && (long) size == g_total, "one working copy of exactly bufsize bytes");
	if (nondet_bool()) { g_alloc_failed = 1; return NULL; }
	return g_reg;
}
static void *
a5_calloc(size_t nmemb, size_t size)
{
	g_calloc_calls++;
	VASSERT(g_phase == 1 && g_chain == g_total && g_cnt == g_n, "the table is allocated after the whole copy has been counted");
	VASSERT(g_calloc_calls == 1 && (long) nmemb == g_n && size == sizeof(struct ovni_ev *), "a table of exactly one pointer per event");
	if (nondet_bool()) { g_alloc_failed = 1; return NULL; }
	g_phase = 2; g_chain = 0; g_cnt = 0; g_khit = 0; g_njumbo = 0;
	return g_table;
}
static void
a5_free(void *p)
{
	g_free_calls++;
	VASSERT(g_phase == 3 && g_cnt == g_n && g_pending == 0, "freed after the last event has been written");
	VASSERT((g_free_calls == 1 && p == (void *) g_table) || (g_free_calls == 2 && p == (void *) g_reg), "the table, then the working copy, once each");
}
#define malloc a5_malloc
#define calloc a5_calloc
#define free a5_free

static int cmp_ev(const void *a, const void *b);
void
qsort(void *base, size_t nmemb, size_t size, int (*compar)(const void *, const void *))
{
	g_qsort_calls++;
	VASSERT(g_phase == 2 && g_cnt == g_n && g_chain == g_total, "sorted after every event has been indexed");
	VASSERT(g_qsort_calls == 1 && base == (void *) g_table && (long) nmemb == g_n && size == sizeof(struct ovni_ev *), "qsort on the whole pointer table");
	VASSERT(compar == cmp_ev, "qsort with cmp_ev");
	long pi = nondet_long();
	__CPROVER_assume(0 <= pi && pi < g_n);
	struct ovni_ev *picked = g_table[pi];
	__CPROVER_havoc_slice(g_table, (size_t) g_n * sizeof(struct ovni_ev *));
	g_table[g_q] = picked;          /* a permutation: the new cell g_q holds the old cell g_pi */
	g_pi = pi;
	g_phase = 3; g_cnt = 0; g_out = 0; g_pending = 0; g_njumbo = 0;
}

int
ovni_ev_size(const struct ovni_ev *ev)
{
	if (g_phase == 1 || g_phase == 2) {
		VASSERT(g_chain < g_total, "the size is asked only of an event that starts inside the region");
		VASSERT((const uint8_t *) ev == g_reg + g_chain, "the walk visits exactly the event boundaries, in order");
		long avail = g_total - g_chain;
		/* REGION_WF conjunct at g_chain (the working copy holds the caller's bytes) */
		__CPROVER_assume(avail >= 12);
		const uint8_t *q = g_reg + g_chain;
		uint8_t fl = q[0];
		long sz;
		if (fl & OVNI_EV_JUMBO) {
			__CPROVER_assume(avail >= 16);
			sz = 16L + (long) RD32(q + 12);
			g_njumbo++;
		} else {
			sz = NORMAL_SIZE(fl);
		}
		__CPROVER_assume(sz <= avail && sz <= INT32_MAX);
		__CPROVER_assume(sz == avail || avail - sz >= 12);
		__CPROVER_assume((g_cnt + 1 == g_n) == (sz == avail));
		if (g_cnt == g_k) {
			g_khit = 1; g_kpos = g_chain; g_ksz = sz;
		}
		g_chain += sz;
		g_cnt++;
		return (int) sz;
	}
	VASSERT(g_phase == 3, "no size is asked before the working copy exists");
	VASSERT(g_pending == 0, "one size query per event, then its copy");
	VASSERT(g_cnt < g_n, "size asked for a table entry below n");
	VASSERT(ev == g_table[g_cnt], "the entries are taken in table order");
	long off = nondet_long();
	__CPROVER_assume(0 <= off && off <= g_total - 12);
	__CPROVER_assume((const uint8_t *) ev == g_reg + off);          /* HYP-T */
	uint8_t fl = g_reg[off];
	long sz;
	if (fl & OVNI_EV_JUMBO) {
		__CPROVER_assume(off <= g_total - 16);
		sz = 16L + (long) RD32(g_reg + off + 12);
		g_njumbo++;
	} else {
		sz = NORMAL_SIZE(fl);
	}
	__CPROVER_assume(sz <= g_total - off && sz <= INT32_MAX);
	__CPROVER_assume(sz <= g_cap - g_out);                            /* HYP-S */
	g_pending = 1; g_cur_off = off; g_cur_sz = sz;
	return (int) sz;
}

void *
memcpy(void *dst, const void *src, size_t n)
{
	if (g_phase == 0) {
		g_copy_calls++;
		VASSERT(g_copy_calls == 1 && g_malloc_calls == 1, "one working copy");
		VASSERT((uint8_t *) dst == g_reg && (const uint8_t *) src == g_src && (long) n == g_total, "the whole region is copied to the working buffer");
		__CPROVER_array_copy(g_reg, g_src);
		g_phase = 1; g_chain = 0; g_cnt = 0; g_khit = 0; g_njumbo = 0;
		return dst;
	}
	VASSERT(g_phase == 3 && g_pending == 1 && (long) n == g_cur_sz, "exactly the bytes of the event whose size was asked are copied");
	VASSERT((const uint8_t *) src == g_reg + g_cur_off, "copied from the start of that event");
	VASSERT((uint8_t *) dst == g_obuf + g_out, "copied to the current end of the output (no gap, no overlap)");
	VASSERT(__CPROVER_r_ok(g_reg + g_cur_off, n), "source range inside the working copy");
	VASSERT(__CPROVER_w_ok(g_obuf + g_out, n), "destination range inside the output buffer");
	__CPROVER_havoc_slice(g_obuf + g_out, n);
	if (g_out <= g_opos && g_opos - g_out < (long) n) {
		g_obuf[g_opos] = g_reg[g_cur_off + (g_opos - g_out)];
		g_ohit = 1; g_oi = g_cnt; g_ostart = g_out; g_ooff = g_cur_off;
	}
	g_out += (long) n;
	g_cnt++;
	g_pending = 0;
	return dst;
}
ssize_t pwrite(int fd, const void *buf, size_t count, off_t offset) { (void) fd; (void) buf; (void) offset; (void) count; return nondet_long(); }
struct stream;
int stream_step(struct stream *stream) { (void) stream; return nondet_int(); }
struct ovni_ev g_cur_ev;
struct ovni_ev *stream_ev(struct stream *stream) { (void) stream; return &g_cur_ev; }
uint64_t ovni_ev_get_clock(const struct ovni_ev *ev) { return ev->header.clock; }

#define main ovnisort_main
#include "ovnisort.c"          /* the real /repo/src/emu/ovnisort.c */
#undef main

/* ================================================================= sort_buf */
/* Returns iff no allocation failed.  Then: one working copy of the whole region, counted, indexed (a table of
 * exactly one cell per event), sorted by qsort with cmp_ev, written out in table order, both buffers freed;
 * the byte at the arbitrary output position g_opos (below the total written) is byte (g_opos - g_ostart) of the
 * event that starts at offset g_ooff of the CALLER's region src, which is the event the table maps there (cell
 * g_oi); when that cell is the observed cell g_q and qsort filled it from the old cell g_k, the event is the
 * g_k-th event of the region (start g_kpos).
 * src is not written; bytes of buf at or after the total written keep their value. */
long w_total, w_n;
WITNESS(sort_buf);
void c_sort_buf(uint8_t *src, uint8_t *buf, int64_t bufsize)
__CPROVER_requires(12 <= g_total && g_total <= A5_MAXBYTES && g_cap == g_total && 1 <= g_n && g_n <= g_total / 12)
__CPROVER_requires(__CPROVER_is_fresh(g_src, (size_t) g_total))
__CPROVER_requires(__CPROVER_is_fresh(g_reg, (size_t) g_total))
__CPROVER_requires(__CPROVER_is_fresh(g_obuf, (size_t) g_total))
__CPROVER_requires(__CPROVER_is_fresh(g_table, (size_t) g_n * sizeof(struct ovni_ev *)))
__CPROVER_requires(__CPROVER_pointer_equals(src, g_src))
__CPROVER_requires(__CPROVER_pointer_equals(buf, g_obuf))
__CPROVER_requires(bufsize == g_total && g_phase == 0 && g_alloc_failed == 0)
__CPROVER_requires(g_malloc_calls == 0 && g_calloc_calls == 0 && g_free_calls == 0 && g_qsort_calls == 0 && g_copy_calls == 0)
__CPROVER_requires(g_pending == 0 && g_ohit == 0 && g_khit == 0 && g_out == 0 && g_cnt == 0 && g_chain == 0 && g_njumbo == 0)
__CPROVER_requires(0 <= g_k && g_k < g_n && 0 <= g_q && g_q < g_n && 0 <= g_opos && g_opos < g_total && g_oold == g_obuf[g_opos])
__CPROVER_requires(WBIND(sort_buf, w_total == g_total && w_n == g_n))
__CPROVER_assigns(__CPROVER_object_whole(g_reg), __CPROVER_object_whole(g_table), __CPROVER_object_whole(g_obuf))
__CPROVER_assigns(g_phase, g_alloc_failed, g_malloc_calls, g_calloc_calls, g_free_calls, g_qsort_calls, g_copy_calls, g_died)
__CPROVER_assigns(g_chain, g_cnt, g_min, g_min_at, g_njumbo, g_khit, g_kpos, g_ksz, g_kclk, g_pi)
__CPROVER_assigns(g_out, g_pending, g_cur_off, g_cur_sz, g_ohit, g_oi, g_ostart, g_ooff)
__CPROVER_ensures(g_alloc_failed == 0 && g_phase == 3)
__CPROVER_ensures(g_malloc_calls == 1 && g_copy_calls == 1 && g_calloc_calls == 1 && g_qsort_calls == 1 && g_free_calls == 2)
__CPROVER_ensures(g_cnt == g_n && g_pending == 0 && 12 * g_cnt <= g_out && g_out <= g_total)
__CPROVER_ensures((g_ohit == 1) == (g_opos < g_out))
__CPROVER_ensures(g_ohit == 0 || (0 <= g_oi && g_oi < g_n && 0 <= g_ostart && g_ostart <= g_opos && 0 <= g_ooff && g_opos - g_ostart < g_total - g_ooff))
__CPROVER_ensures(g_ohit == 0 || g_obuf[g_opos] == g_src[g_ooff + (g_opos - g_ostart)])
__CPROVER_ensures(g_ohit == 1 || g_obuf[g_opos] == g_oold)
__CPROVER_ensures(!(g_ohit == 1 && g_oi == g_q && g_pi == g_k) || (g_khit == 1 && g_ooff == g_kpos))
;
void h_sort_buf(void)
{
	uint8_t *src, *buf; int64_t bufsize;
	WITNESS_ON(sort_buf);
	sort_buf(src, buf, bufsize);
	REACH("sort_buf returns");
	if (w_n >= 1000 && g_ohit && g_oi == g_q && g_pi == g_k && g_q == 3 && g_k == 900 && g_njumbo >= 1 && g_opos - g_ostart == 13) REACH("event 900 of a thousand or more moved to the 4th place, observed at its byte 13");
}
