/* C03 -- src/include/heap.h: the intrusive binary heap the player merges with.
 *
 * (a) heap_get_move: contract over ALL node numbers >= 2 (loop-free, unbounded).
 * (b) heap_get: path walk for every 64-bit node number, by a loop contract
 *     (induction over the steps; unbounded).
 * (c) size-indexed family (bounded): the shape of this heap is a function of its
 *     size, so for size S = HEAP_S the harness builds THE complete tree of S nodes
 *     (each node its own object) with symbolic keys in heap order and runs ONE
 *     operation on it.  These runs validate the abstract heap contract that
 *     step_stream / player_step / player_init are proved against in c03_player.c:
 *     "insert adds one member; pop removes and returns a member whose key is
 *      maximal; size counts the members; nothing else changes".
 *
 * heap.h is generic (container_of via heap_elem + comparator), so the family runs
 * on a small element type with an int64 key; the comparator has the result
 * convention of player.c's stream_cmp (+1 / -1 / 0). */
#include "prelude.h"
#include "heap.h"          /* the real /repo/src/include/heap.h */

/* ======================= (a) heap_get_move ======================= */
/* Read from the code: for a node number n >= 2 whose most significant set bit
 * is bit k (k >= 1), the function returns bit k-1 of n (0 = go left, 1 = go
 * right) and stores n with bit k cleared and bit k-1 SET: bit k-1 becomes the
 * new leading "sentinel" bit, the path bits below it are untouched.  So the
 * successive calls of heap_get consume the path bits of n from the top down
 * until the number is 1.  k is specified without clz: it is the unique shift
 * with n >> k == 1.  (n == 0 would be __builtin_clzl(0): undefined; heap_get is
 * never reached with 0 or 1 entering the loop body, see group heap_get.) */
unsigned long g_n0;         /* *node on entry */
int g_msb;                  /* k */
unsigned long w_node;
WITNESS(heap_get_move);

int c_heap_get_move(size_t *node)
__CPROVER_requires(__CPROVER_is_fresh(node, sizeof(*node)))
__CPROVER_requires(*node >= 2 && g_n0 == *node)
__CPROVER_requires(g_msb >= 1 && g_msb <= 63 && (g_n0 >> g_msb) == 1UL)
__CPROVER_requires(WBIND(heap_get_move, w_node == *node))
__CPROVER_assigns(*node)
__CPROVER_ensures(__CPROVER_return_value == (int) ((g_n0 >> (g_msb - 1)) & 1UL))
__CPROVER_ensures(*node == ((g_n0 & ~(1UL << g_msb)) | (1UL << (g_msb - 1))))
/* the same in arithmetic: left keeps the low bits under a leading 1 one level up */
__CPROVER_ensures((*node >> (g_msb - 1)) == 1UL)
__CPROVER_ensures((*node & ((1UL << (g_msb - 1)) - 1UL)) == (g_n0 & ((1UL << (g_msb - 1)) - 1UL)))
;

void h_heap_get_move(void)
{
	size_t *node;
	WITNESS_ON(heap_get_move);
	int r = heap_get_move(node);
	if (r == 0) REACH("move left");
	if (r == 1) REACH("move right");
	if (g_msb == 63 && r == 1) REACH("node number with the top bit set");
	if (g_n0 == 2) REACH("node 2");
	if (g_n0 == 3) REACH("node 3");
}

/* ========================== (b) heap_get ========================== */
/* Node number n (>= 1) with leading bit k names the node reached from the root
 * by reading bits k-1 .. 0 of n: 0 = left, 1 = right.  The harness lays a chain
 * g_chain[0] (root) .. g_chain[k] along exactly that path; every pointer OFF the
 * path is NULL, so a wrong turn or an extra / missing step dereferences NULL or
 * returns a different node.  n is fully symbolic (all 2^64 - 1 values).
 * The loop of heap_get is proved by INDUCTION (loop contract in
 * loops/c03_heap.json, no unwinding of heap_get): after j steps
 *     current == &g_chain[j]  and  node == (n mod 2^(k-j)) + 2^(k-j),
 * i.e. the unread path bits under a leading sentinel bit; `node` decreases. */
#define GET_DEPTH 64
struct chain_cell { heap_node_t n; void *pad; } g_chain[GET_DEPTH];   /* 32-byte cells: index = offset >> 5 */
unsigned long g_get_n;      /* the node number asked for */
int g_get_k;                /* position of its leading bit */
unsigned long w_get_n;      /* replay witness */
_Static_assert(sizeof(struct chain_cell) == 32 && offsetof(struct chain_cell, n) == 0, "loop invariant of heap_get divides the pointer offset by 32");
void h_heap_get(void)
{
	heap_head_t head;
	size_t n = nondet_size_t();
	__CPROVER_assume(n >= 1);
	int k = 0;
	for (int j = 1; j < GET_DEPTH; j++)
		if ((n >> j) != 0)
			k = j;
	g_get_n = n;
	g_get_k = k;
	w_get_n = n;
	size_t m = n << (63 - k);         /* n with its leading bit moved to bit 63 */
	for (int j = 0; j < GET_DEPTH; j++) {
		g_chain[j].n.parent = NULL;
		g_chain[j].n.left = NULL;
		g_chain[j].n.right = NULL;
		if (j < k) {
			/* bit k-1-j of n == bit 62-j of m (one symbolic shift instead of 64) */
			if ((m >> (62 - j)) & 1UL)
				g_chain[j].n.right = &g_chain[j + 1].n;
			else
				g_chain[j].n.left = &g_chain[j + 1].n;
		}
	}
	head.root = &g_chain[0].n;
	head.size = nondet_size_t();      /* heap_get does not look at the size */
	heap_node_t *r = heap_get(&head, n);
	VASSERT(r == &g_chain[k].n, "heap_get returns the node at the end of the path spelled by the bits below the MSB");
	if (k == 0) REACH("node 1 is the root");
	if (k == 63) REACH("path of depth 63");
	if (k == 5 && r == &g_chain[5].n) REACH("path of depth 5");
}

/* ==================== (c) size-indexed family ==================== */
#ifndef HEAP_S
#define HEAP_S 3
#endif
#define MAXN (HEAP_S + 1)

struct tn {
	int64_t key;
	heap_node_t hh;
	int64_t pad;
};
#define TN(n) heap_elem(n, struct tn, hh)

static int
tn_cmp(heap_node_t *a, heap_node_t *b)
{
	int64_t ka = TN(a)->key;
	int64_t kb = TN(b)->key;
	if (ka > kb)
		return +1;
	else if (ka < kb)
		return -1;
	else
		return 0;
}

static struct tn *g_node[MAXN + 1];   /* [1..S]: node placed at position i; [S+1]: the node to insert */
static int64_t g_key[MAXN + 1];       /* its key when the tree was built */
long w_key1, w_key2, w_key3, w_key4, w_key5, w_key6, w_key7, w_keynew;   /* replay witnesses */
long w_key8, w_key9, w_key10, w_key11, w_key12, w_key13, w_key14, w_key15; int w_s;

/* THE complete tree of S nodes; keys arbitrary subject to heap order, except
 * that position 1 is exempt when `root_free` (precondition of heap_max_heapify) */
static void
build(heap_head_t *h, int root_free)
{
	for (int i = 1; i <= MAXN; i++) {
		g_node[i] = malloc(sizeof(struct tn));
		__CPROVER_assume(g_node[i] != NULL);
		g_key[i] = g_node[i]->key;
	}
	for (int i = 1; i <= HEAP_S; i++) {
		g_node[i]->hh.parent = i > 1 ? &g_node[i / 2]->hh : NULL;
		g_node[i]->hh.left = 2 * i <= HEAP_S ? &g_node[2 * i]->hh : NULL;
		g_node[i]->hh.right = 2 * i + 1 <= HEAP_S ? &g_node[2 * i + 1]->hh : NULL;
	}
	for (int i = 2; i <= HEAP_S; i++)
		if (!(root_free && i / 2 == 1))
			__CPROVER_assume(g_key[i / 2] >= g_key[i]);   /* precondition: heap order */
	h->root = HEAP_S >= 1 ? &g_node[1]->hh : NULL;
	h->size = HEAP_S;
	w_key1 = HEAP_S >= 1 ? g_key[1] : 0; w_key2 = HEAP_S >= 2 ? g_key[2] : 0;
	w_key3 = HEAP_S >= 3 ? g_key[3] : 0; w_key4 = HEAP_S >= 4 ? g_key[4] : 0;
	w_key5 = HEAP_S >= 5 ? g_key[5] : 0; w_key6 = HEAP_S >= 6 ? g_key[6] : 0;
	w_key7 = HEAP_S >= 7 ? g_key[7] : 0; w_keynew = g_key[MAXN];
	w_key8 = HEAP_S >= 8 ? g_key[8] : 0; w_key9 = HEAP_S >= 9 ? g_key[9] : 0;
	w_key10 = HEAP_S >= 10 ? g_key[10] : 0; w_key11 = HEAP_S >= 11 ? g_key[11] : 0;
	w_key12 = HEAP_S >= 12 ? g_key[12] : 0; w_key13 = HEAP_S >= 13 ? g_key[13] : 0;
	w_key14 = HEAP_S >= 14 ? g_key[14] : 0; w_key15 = HEAP_S >= 15 ? g_key[15] : 0;
	w_s = HEAP_S;
}

/* The heap `h` is the complete tree of n nodes, in heap order, with mutually
 * consistent links, and its nodes are exactly g_node[first..last], each once;
 * no key was touched.  Positions are read with the harness's own path rule
 * (child 2i is left, 2i+1 is right), not with heap_get. */
static void
check(heap_head_t *h, int n, int first, int last)
{
	heap_node_t *p[MAXN + 2];
	VASSERT(h->size == (size_t) n, "size counts the members");
	VASSERT((h->root == NULL) == (n == 0), "root is NULL exactly when the heap is empty");
	if (n >= 1) {
		p[1] = h->root;
		VASSERT(p[1]->parent == NULL, "root has no parent");
	}
	for (int i = 2; i <= n; i++) {
		p[i] = (i & 1) ? p[i / 2]->right : p[i / 2]->left;
		VASSERT(p[i] != NULL, "shape: position i <= size is occupied");
		VASSERT(p[i]->parent == p[i / 2], "links: child's parent is the node it hangs from");
	}
	for (int i = 1; i <= n; i++) {
		if (2 * i > n)
			VASSERT(p[i]->left == NULL, "shape: no left child beyond size");
		if (2 * i + 1 > n)
			VASSERT(p[i]->right == NULL, "shape: no right child beyond size");
	}
	for (int i = 2; i <= n; i++)
		VASSERT(TN(p[i / 2])->key >= TN(p[i])->key, "heap order: parent key >= child key");
	for (int j = first; j <= last; j++) {
		int cnt = 0;
		for (int i = 1; i <= n; i++)
			if (p[i] == &g_node[j]->hh)
				cnt++;
		VASSERT(cnt == 1, "every member appears exactly once");
	}
	for (int j = 1; j <= MAXN; j++)
		VASSERT(g_node[j]->key == g_key[j], "keys are not touched");
}

/* insert into the heap of size S  =>  the heap of size S+1 over old nodes + new */
void h_heap_insert(void)
{
	heap_head_t head;
	build(&head, 0);
	struct tn *x = g_node[MAXN];          /* links of x: arbitrary garbage */
	heap_insert(&head, &x->hh, tn_cmp);
	check(&head, HEAP_S + 1, 1, HEAP_S + 1);
#if HEAP_S == 0
	REACH("inserted into the empty heap");
#else
	if (g_key[MAXN] > g_key[1]) REACH("new node becomes the root");
	if (g_key[MAXN] == g_key[1]) REACH("new key equal to the maximum");
	if (g_key[MAXN] <= g_key[(HEAP_S + 1) / 2]) REACH("new node stays where it was linked");
#endif
}

/* pop from the heap of size S  =>  the root, and the heap of size S-1 over the rest */
void h_heap_pop(void)
{
	heap_head_t head;
	build(&head, 0);
	heap_node_t *m = heap_pop_max(&head, tn_cmp);
#if HEAP_S == 0
	VASSERT(m == NULL, "pop on the empty heap returns NULL");
	check(&head, 0, 1, 0);
	REACH("pop on the empty heap");
#else
	VASSERT(m == &g_node[1]->hh, "pop returns the root");
	for (int j = 1; j <= HEAP_S; j++)
		VASSERT(TN(m)->key >= g_key[j], "the popped key is maximal");
	check(&head, HEAP_S - 1, 2, HEAP_S);
	REACH("popped");
#if HEAP_S >= 4
	if (head.root == &g_node[HEAP_S]->hh) REACH("last leaf stays on top");
	if (head.root == &g_node[2]->hh) REACH("left child becomes the root");
	if (head.root == &g_node[3]->hh) REACH("right child becomes the root");
#endif
#endif
}

/* heap_max_heapify on the root of a tree whose two subtrees are heaps */
void h_heap_heapify(void)
{
#if HEAP_S >= 1
	heap_head_t head;
	build(&head, 1);
	heap_max_heapify(&head, head.root, tn_cmp);
	check(&head, HEAP_S, 1, HEAP_S);
	if (head.root == &g_node[1]->hh) REACH("root already in place");
#if HEAP_S >= 3
	if (head.root == &g_node[2]->hh) REACH("root sinks to the left");
	if (head.root == &g_node[3]->hh) REACH("root sinks to the right");
#endif
#endif
}
