/* C20 -- breakdown rows: sort_cb_input on the real src/emu/sort.c against SORT_WF
 *
 * SORT_WF(sort), once the sorted copy exists (sort->copied):
 *   sorted[] is non-decreasing, sorted[] is a permutation of values[] (counting observer g_v),
 *   and output channel k shows the int64 value sorted[k], for every row k.
 *
 * sort_cb_input(in_chan, input): new := the int64 shown by in_chan (0 if it is not an int64).
 *   new == values[index]  ==> returns 0, nothing is written (no chan_set, values/sorted untouched);
 *   otherwise values[index] = new (no other cell), sorted[] is again the sorted permutation of values[],
 *   and chan_set is called on row k  IFF  the value row k showed differs from (int64) sorted'[k] --
 *   exactly once, with exactly that value, never on an unchanged row ("updates only the rows needed");
 *   returns 0 iff no chan_set failed, and then SORT_WF holds again; a failure is reported (err, -1).
 *
 * BOUNDED: one group per row count SC_N (constant: the real outputs[] is an array of 17 KB structs
 * and is indexed with constants only -- HOWTO pitfall 8); values are full 64-bit.
 * sort_replace is the real one (inlined, loops unwound).  Outside the unit: chan_set (operation-log
 * stub, may fail at any call) and qsort (first-use path; assumed: any sorted permutation). */
#include "prelude.h"
#include "value.h"
_Static_assert(sizeof(struct value) == 16, "struct value has no padding");
/* HOWTO pitfall 9: memcmp over struct value -> field equality (same relation on this ABI) */
#undef value_is_equal
#define value_is_equal(a, b) ((a)->type == (b)->type && (a)->i == (b)->i)
#include "chan.h"

#ifndef SC_N
#define SC_N 3
#endif
#define SC_MAX 6
_Static_assert(SC_N >= 1 && SC_N <= SC_MAX, "row count of this group");

/* ---- spec readers (struct copy, never the direct union path: HOWTO pitfall 9) ---- */
static inline int64_t spec_t(struct chan *c) { struct value v = c->data.value; return v.type; }
static inline int64_t spec_i(struct chan *c) { struct value v = c->data.value; return v.i; }

/* ---- chan_set: outside the unit.  Most general behaviour: any call may fail (then nothing is written);
 * a successful call stores the value and marks the channel dirty.  Every call is logged per row. ---- */
struct chan *g_outputs;            /* = sort->outputs (bound in requires; only compared, never dereferenced) */
unsigned g_set_cnt[SC_MAX];        /* number of chan_set calls on row k */
int64_t g_set_t[SC_MAX], g_set_i[SC_MAX]; /* value of the last call on row k */
unsigned g_set_n;                  /* total number of chan_set calls */
unsigned g_set_other;              /* calls on a channel that is not an output row */
unsigned g_set_fail;               /* number of failed chan_set calls */
long g_set_lastrow;                /* row of the previous call (-1: none); calls come in increasing row order */
unsigned g_set_disorder;
#define SETLOG_FRAME __CPROVER_object_whole(g_set_cnt), __CPROVER_object_whole(g_set_t), __CPROVER_object_whole(g_set_i), \
	g_set_n, g_set_other, g_set_fail, g_set_lastrow, g_set_disorder
#define LOGROW(k) if ((k) < SC_N && chan == &g_outputs[(k)]) { row = (k); g_set_cnt[(k)]++; g_set_t[(k)] = value.type; g_set_i[(k)] = value.i; }
int
chan_set(struct chan *chan, struct value value)
{
	long row = -1;
	g_set_n++;
	LOGROW(0) LOGROW(1) LOGROW(2) LOGROW(3) LOGROW(4) LOGROW(5)
	if (row < 0) g_set_other++;
	if (row <= g_set_lastrow) g_set_disorder++;
	g_set_lastrow = row;
	if (nondet_bool()) { g_set_fail++; return -1; }
	chan->data.value = value;
	chan->is_dirty = 1;
	return 0;
}

/* count of v in a[0..SC_N): constant-bound sum */
#define C1(a, v, k) ((long) ((k) < SC_N && (a)[(k)] == (v)))
#define COUNT(a, v) (C1(a, v, 0) + C1(a, v, 1) + C1(a, v, 2) + C1(a, v, 3) + C1(a, v, 4) + C1(a, v, 5))
#define S1(a, k) (!((k) + 1 < SC_N) || (a)[(k)] <= (a)[(k) + 1])
#define SORTED_ADJ(a) (S1(a, 0) && S1(a, 1) && S1(a, 2) && S1(a, 3) && S1(a, 4))

/* ---- qsort: outside the unit (libc; CBMC has no model).  ASSUMED: the array becomes a sorted
 * permutation of itself -- any one (stability is not assumed); the permutation is stated at the two
 * values the contract observes (g_v and the replaced value).  Only the first-use path calls it. ---- */
int64_t g_v;                       /* counting observer */
int64_t g_v2;                      /* second counting observer (bound to the old value of the changed input) */
unsigned g_qsort_calls;
int64_t nondet_i64(void);
void
qsort(void *base, size_t nmemb, size_t size, int (*compar)(const void *, const void *))
{
	(void) compar;
	int64_t *a = base;
	g_qsort_calls++;
	VASSERT(nmemb == SC_N && size == sizeof(int64_t), "qsort called on the whole int64 array");
	long c1 = COUNT(a, g_v), c2 = COUNT(a, g_v2);
#define HAVOC(k) if ((k) < SC_N) a[(k)] = nondet_i64();
	HAVOC(0) HAVOC(1) HAVOC(2) HAVOC(3) HAVOC(4) HAVOC(5)
	__CPROVER_assume(SORTED_ADJ(a) && COUNT(a, g_v) == c1 && COUNT(a, g_v2) == c2);   /* the assumed contract of qsort */
}

#include "sort.c"          /* the real /repo/src/emu/sort.c */

/* ---- SORT_WF ---- */
#define INP ((struct sort_input *) ptr)
#define SRT (INP->sort)
#define SHOWS(s, k) ((k) >= SC_N || ((s)->outputs[(k)].type == CHAN_SINGLE && spec_t(&(s)->outputs[(k)]) == VALUE_INT64 && spec_i(&(s)->outputs[(k)]) == (s)->sorted[(k)]))
#define SHOWS_ALL(s) (SHOWS(s, 0) && SHOWS(s, 1) && SHOWS(s, 2) && SHOWS(s, 3) && SHOWS(s, 4) && SHOWS(s, 5))
#define SINGLE(s, k) ((k) >= SC_N || (s)->outputs[(k)].type == CHAN_SINGLE)
#define SINGLE_ALL(s) (SINGLE(s, 0) && SINGLE(s, 1) && SINGLE(s, 2) && SINGLE(s, 3) && SINGLE(s, 4) && SINGLE(s, 5))
#define SORT_WF(s) (SORTED_ADJ((s)->sorted) && COUNT((s)->values, g_v) == COUNT((s)->sorted, g_v) && SHOWS_ALL(s))

/* pre-state ghosts */
int64_t g_pre_t[SC_MAX], g_pre_i[SC_MAX];  /* what row k showed */
int64_t g_old, g_new;                      /* values[index] before; the value the input now shows */
long g_c; int64_t g_vc, g_sc;              /* cell observer on values[] and sorted[] */
int g_copied;
long g_cntv, g_cntv2;                      /* count of g_v / g_v2 in values[] before */
#define BINDROW(s, k) ((k) >= SC_N || (g_pre_t[(k)] == spec_t(&(s)->outputs[(k)]) && g_pre_i[(k)] == spec_i(&(s)->outputs[(k)])))
#define BINDROWS(s) (BINDROW(s, 0) && BINDROW(s, 1) && BINDROW(s, 2) && BINDROW(s, 3) && BINDROW(s, 4) && BINDROW(s, 5))
static inline int64_t stack_top_t(struct chan *c) { struct value v = c->data.stack.values[c->data.stack.n - 1]; return v.type; }
static inline int64_t stack_top_i(struct chan *c) { struct value v = c->data.stack.values[c->data.stack.n - 1]; return v.i; }
static inline int64_t spec_cur_t(struct chan *c)
{
	if (c->type == CHAN_SINGLE) return spec_t(c);
	if (c->data.stack.n > 0) return stack_top_t(c);
	return VALUE_NULL;
}
static inline int64_t spec_cur_i(struct chan *c)
{
	if (c->type == CHAN_SINGLE) return spec_i(c);
	if (c->data.stack.n > 0) return stack_top_i(c);
	return 0;
}
#define CHAN_WF(c) ((c)->type == CHAN_SINGLE || ((c)->type == CHAN_STACK && (c)->data.stack.n >= 0 && (c)->data.stack.n <= MAX_CHAN_STACK))

/* row k needs an update iff what it showed differs from (int64) sorted'[k] */
#define DIFFERS(s, k) (!(g_pre_t[(k)] == VALUE_INT64 && g_pre_i[(k)] == (s)->sorted[(k)]))
/* on success: chan_set exactly once on the rows that differ, with the new value; never on the others */
#define ROW_OK(s, k) ((k) >= SC_N || ( \
	g_set_cnt[(k)] == (DIFFERS(s, k) ? 1u : 0u) && \
	(g_set_cnt[(k)] == 0 || (g_set_t[(k)] == VALUE_INT64 && g_set_i[(k)] == (s)->sorted[(k)]))))
#define ROWS_OK(s) (ROW_OK(s, 0) && ROW_OK(s, 1) && ROW_OK(s, 2) && ROW_OK(s, 3) && ROW_OK(s, 4) && ROW_OK(s, 5))
/* always (also when a chan_set failed half way): no unchanged row is ever written, no row twice */
#define ROW_LE(s, k) ((k) >= SC_N || ( \
	g_set_cnt[(k)] <= (DIFFERS(s, k) ? 1u : 0u) && \
	(g_set_cnt[(k)] == 0 || (g_set_t[(k)] == VALUE_INT64 && g_set_i[(k)] == (s)->sorted[(k)]))))
#define ROWS_LE(s) (ROW_LE(s, 0) && ROW_LE(s, 1) && ROW_LE(s, 2) && ROW_LE(s, 3) && ROW_LE(s, 4) && ROW_LE(s, 5))
#define NOSETS(k) (g_set_cnt[(k)] == 0)

/* witnesses */
long w_index; int w_copied; int64_t w_old, w_new, w_v0, w_v1, w_v2, w_v3, w_s0, w_s1, w_s2, w_s3;
long w_n; int64_t w_v4, w_v5, w_s4, w_s5;   /* (the replay driver gets no -DSC_N: the row count is a witness too) */
WITNESS(sort_cb_input);
#define WV(k, w, a) ((k) >= SC_N || (w) == (a)[(k)])

int c_sort_cb_input(struct chan *in_chan, void *ptr)
__CPROVER_requires(__CPROVER_is_fresh(in_chan, sizeof(struct chan)) && CHAN_WF(in_chan))
__CPROVER_requires(__CPROVER_is_fresh(ptr, sizeof(struct sort_input)))
__CPROVER_requires(__CPROVER_is_fresh(INP->sort, sizeof(struct sort)) && SRT->n == SC_N)
__CPROVER_requires(__CPROVER_is_fresh(SRT->values, SC_N * sizeof(int64_t)))
__CPROVER_requires(__CPROVER_is_fresh(SRT->sorted, SC_N * sizeof(int64_t)))
__CPROVER_requires(__CPROVER_is_fresh(SRT->outputs, SC_N * sizeof(struct chan)))
__CPROVER_requires(0 <= INP->index && INP->index < SC_N)
/* the invariant (or, before the first change, just single output channels) */
__CPROVER_requires(SINGLE_ALL(SRT) && (!SRT->copied || SORT_WF(SRT)))
/* the permutation also at the value that is about to be replaced */
__CPROVER_requires(g_v2 == SRT->values[INP->index] && (!SRT->copied || COUNT(SRT->values, g_v2) == COUNT(SRT->sorted, g_v2)))
/* pre-state bindings */
__CPROVER_requires(g_outputs == SRT->outputs && BINDROWS(SRT) && g_copied == SRT->copied)
__CPROVER_requires(g_old == SRT->values[INP->index] && g_new == ((spec_cur_t(in_chan) == VALUE_INT64) ? spec_cur_i(in_chan) : 0))
__CPROVER_requires(0 <= g_c && g_c < SC_N && g_vc == SRT->values[g_c] && g_sc == SRT->sorted[g_c])
__CPROVER_requires(g_cntv == COUNT(SRT->values, g_v) && g_cntv2 == COUNT(SRT->values, g_v2))
__CPROVER_requires(g_set_n == 0 && g_set_other == 0 && g_set_fail == 0 && g_set_disorder == 0 && g_set_lastrow == -1 && g_qsort_calls == 0)
__CPROVER_requires(NOSETS(0) && NOSETS(1) && NOSETS(2) && NOSETS(3) && NOSETS(4) && NOSETS(5))
__CPROVER_requires(DIAG_PRE)
__CPROVER_requires(WBIND(sort_cb_input, w_index == INP->index && w_copied == SRT->copied && w_old == g_old && w_new == g_new &&
	WV(0, w_v0, SRT->values) && WV(1, w_v1, SRT->values) && WV(2, w_v2, SRT->values) && WV(3, w_v3, SRT->values) &&
	WV(0, w_s0, SRT->sorted) && WV(1, w_s1, SRT->sorted) && WV(2, w_s2, SRT->sorted) && WV(3, w_s3, SRT->sorted) &&
	w_n == SC_N && WV(4, w_v4, SRT->values) && WV(5, w_v5, SRT->values) && WV(4, w_s4, SRT->sorted) && WV(5, w_s5, SRT->sorted)))
__CPROVER_assigns(SRT->values[INP->index], __CPROVER_object_whole(SRT->sorted), SRT->copied, __CPROVER_object_whole(SRT->outputs))
__CPROVER_assigns(SETLOG_FRAME, g_qsort_calls, DIAG_FRAME, g_died)
__CPROVER_ensures(__CPROVER_return_value == 0 || __CPROVER_return_value == -1)
/* unchanged value: nothing at all is written */
__CPROVER_ensures(g_new != g_old || (__CPROVER_return_value == 0 && g_set_n == 0 && g_qsort_calls == 0 &&
	SRT->values[g_c] == g_vc && SRT->sorted[g_c] == g_sc && SRT->copied == g_copied))
/* changed value: exactly cell `index` of values[] changes */
__CPROVER_ensures(g_new == g_old || SRT->values[g_c] == ((g_c == INP->index) ? g_new : g_vc))
/* ... sorted[] is again sorted and a permutation of values[] (arbitrary g_v); the copy exists */
__CPROVER_ensures(g_new == g_old || (SORTED_ADJ(SRT->sorted) && SRT->copied != 0 && (g_copied != 0 || SRT->copied == 1) &&
	COUNT(SRT->sorted, g_v) == COUNT(SRT->values, g_v) &&
	COUNT(SRT->values, g_v) == g_cntv - (g_v == g_old) + (g_v == g_new)))
/* ... chan_set only on output rows, in row order, each needed row at most once with its new value, no other row */
__CPROVER_ensures(g_set_other == 0 && g_set_disorder == 0 && ROWS_LE(SRT))
/* ... success iff no chan_set failed; then exactly the rows that differ were written and SORT_WF holds */
__CPROVER_ensures((__CPROVER_return_value == 0) == (g_set_fail == 0))
__CPROVER_ensures(__CPROVER_return_value != 0 || g_new == g_old || (ROWS_OK(SRT) && SORT_WF(SRT)))
__CPROVER_ensures(__CPROVER_return_value == 0 || (g_err > __CPROVER_old(g_err) && g_set_fail == 1))
/* a real change of a well-formed sorter always rewrites at least one row */
__CPROVER_ensures(!(__CPROVER_return_value == 0 && g_new != g_old && g_copied) || g_set_n >= 1)
/* qsort only on the first-use path */
__CPROVER_ensures(g_qsort_calls == ((g_new != g_old && !g_copied) ? 1u : 0u))
;

void h_sort_cb_input(void)
{
	struct chan *in_chan; void *ptr;
	WITNESS_ON(sort_cb_input);
	int r = sort_cb_input(in_chan, ptr);
	if (r == 0 && w_new == w_old) REACH("unchanged value: nothing to do");
	if (r == 0 && w_new != w_old && w_copied && g_set_n == 1) REACH("changed value, exactly one row rewritten");
	if (r == 0 && w_new != w_old && !w_copied) REACH("first change: sorted copy created");
	if (r != 0) REACH("a chan_set failed");
#if SC_N >= 2
	if (r == 0 && w_copied && g_set_n == SC_N) REACH("all rows rewritten");
#endif
}
