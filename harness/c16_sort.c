/* C16 -- ovnisort: helper contracts on the real src/emu/ovnisort.c
 *
 * ring (look-back window): positions head .. tail-1 (circular) hold the last events seen; capacity size-1.
 *   RING_INV: 0 <= head,tail < size and (never wrapped: head == 0) or (full: tail+1 == head mod size).
 * Outside the unit (stubs / assumed): pwrite, stream_step, stream_ev, ovni_ev_get_clock, ovni_ev_size, qsort. */
/* die(): some contracts exclude it altogether (their harness sets g_no_die) */
int g_no_die;
#define VERIF_DIE_HOOK __CPROVER_assert(!g_no_die, "die() reached although the contract excludes it")
#include "prelude.h"
/* "says so": a sticky flag next to the wrapping counters of the prelude (a loop may report any number of times) */
int g_said;
#undef err
#define err(...) (verif_err(), (void) (g_said = 1))

/* ---- ghost file: observed at ONE arbitrary offset g_pos (single-cell observer) ---- */
long g_pos;                 /* arbitrary file offset */
unsigned char g_byte;       /* the byte the file holds at g_pos */
unsigned long g_pw_calls;   /* number of pwrite calls */
int g_pw_fd;                /* fd of the last pwrite */
long g_pw_next;             /* file offset right after the last successful pwrite */
unsigned g_pw_gap;          /* a pwrite did not start where the previous one ended */
unsigned g_pw_fail;
/* pwrite: most general POSIX behaviour for count > 0: fails (-1) or writes 1..count bytes at `offset`.
 * (TRUSTED: a successful pwrite of count > 0 bytes writes at least one byte, as in C01's write model;
 * the real loop has no guard against a 0 return.) */
ssize_t
pwrite(int fd, const void *buf, size_t count, off_t offset)
{
	g_pw_calls++;
	g_pw_fd = fd;
	if (g_pw_calls > 1 && offset != g_pw_next) g_pw_gap++;
	if (nondet_bool()) { g_pw_fail++; return -1; }
	size_t w = nondet_size_t();
	__CPROVER_assume(w <= count && (count == 0 || w >= 1));
	if (g_pos >= offset && (size_t) (g_pos - offset) < w)
		g_byte = ((const unsigned char *) buf)[g_pos - offset];
	g_pw_next = offset + (off_t) w;
	return (ssize_t) w;
}

/* ---- abstract event iterator (stream.c is outside the unit): any sequence of events, any clocks,
 * may end (1) or fail (-1) at any step.  The specification of "some clock decreases" is recorded here. */
#include "ovni.h"
struct stream;
struct ovni_ev g_cur_ev;        /* the event stream_ev() returns */
int g_has_prev;                 /* an event has been delivered before */
uint64_t g_prev_clock;          /* clock of the previously delivered event */
int g_decreased;                /* SPEC: some event had a smaller clock than its predecessor */
int g_step_failed;
unsigned long g_steps;
unsigned long g_remaining;      /* events still to come: arbitrary, finite */
uint64_t nondet_u64(void);
int
stream_step(struct stream *stream)
{
	(void) stream;
	int k = nondet_int();
	if (k < 0) { g_step_failed = 1; return -1; }
	if (k > 0 || g_remaining == 0) return 1;
	g_remaining--;
	uint64_t c = nondet_u64();
	if (g_has_prev && c < g_prev_clock) g_decreased = 1;
	g_has_prev = 1;
	g_prev_clock = c;
	g_cur_ev.header.clock = c;
	g_steps++;
	return 0;
}
struct ovni_ev *stream_ev(struct stream *stream) { (void) stream; return &g_cur_ev; }
/* rt/ovni.c is outside the unit: the documented getter (TRUSTED, one line) */
uint64_t ovni_ev_get_clock(const struct ovni_ev *ev) { return ev->header.clock; }

#define main ovnisort_main
#include "ovnisort.c"          /* the real /repo/src/emu/ovnisort.c */
#undef main

#define RV __CPROVER_return_value
#define OLD(e) __CPROVER_old(e)

/* ================================================================= ring_reset / ring_add (unbounded) */
#define RING_MAXSIZE (1L << 40)
#define RING_OBJ(r) (__CPROVER_is_fresh(r, sizeof(struct ring)) && 1 <= (r)->size && (r)->size <= RING_MAXSIZE && \
	__CPROVER_is_fresh((r)->ev, (size_t) (r)->size * sizeof(struct ovni_ev *)))
#define RING_RANGE(r) (0 <= (r)->head && (r)->head < (r)->size && 0 <= (r)->tail && (r)->tail < (r)->size)
/* number of entries: (tail - head) mod size, without % on a possibly negative value */
#define RING_COUNT(h, t, sz) ((t) >= (h) ? (t) - (h) : (t) - (h) + (sz))
#define RING_INV(r) (RING_RANGE(r) && ((r)->head == 0 || RING_COUNT((r)->head, (r)->tail, (r)->size) == (r)->size - 1))

long w_head, w_tail, w_size;
WITNESS(ring_add);
long g_k; struct ovni_ev *g_kev;   /* cell observer on the ring array */

void c_ring_reset(struct ring *r)
__CPROVER_requires(__CPROVER_is_fresh(r, sizeof(struct ring)))
__CPROVER_assigns(r->head, r->tail)
__CPROVER_ensures(r->head == 0 && r->tail == 0)
;
void h_ring_reset(void) { struct ring *r; ring_reset(r); REACH("ring_reset returns"); }

#define NEXT(x, sz) ((x) + 1 >= (sz) ? 0 : (x) + 1)
void c_ring_add(struct ring *r, struct ovni_ev *ev)
__CPROVER_requires(RING_OBJ(r) && RING_RANGE(r))
__CPROVER_requires(0 <= g_k && g_k < r->size && g_kev == r->ev[g_k])
__CPROVER_requires(WBIND(ring_add, w_head == r->head && w_tail == r->tail && w_size == r->size))
__CPROVER_assigns(r->head, r->tail, r->ev[r->tail])
/* the event is stored at the old tail, no other cell changes */
__CPROVER_ensures(r->ev[OLD(r->tail)] == ev && (g_k == OLD(r->tail) || r->ev[g_k] == g_kev))
/* tail advances circularly */
__CPROVER_ensures(r->tail == NEXT(OLD(r->tail), r->size))
/* the oldest entry is dropped exactly when the tail catches up with the head */
__CPROVER_ensures(r->head == ((OLD(r->head) == r->tail) ? NEXT(r->tail, r->size) : OLD(r->head)))
__CPROVER_ensures(RING_RANGE(r) && (r->size == 1 || r->head != r->tail))
/* one more entry, saturating at size-1 */
__CPROVER_ensures(r->size == 1 || RING_COUNT(r->head, r->tail, r->size) ==
	((RING_COUNT(OLD(r->head), OLD(r->tail), r->size) < r->size - 1) ? RING_COUNT(OLD(r->head), OLD(r->tail), r->size) + 1 : r->size - 1))
;
void h_ring_add(void)
{
	struct ring *r; struct ovni_ev *ev;
	WITNESS_ON(ring_add);
	ring_add(r, ev);
	REACH("ring_add returns");
	if (w_size >= 3 && w_head == NEXT(w_tail, w_size)) REACH("ring full: oldest entry dropped");
	if (w_size >= 3 && w_head == 0 && w_tail == 0) REACH("first entry");
	if (w_tail == w_size - 1 && w_head == 0 && w_size >= 2) REACH("tail wraps and meets the head");
	if (w_size == 1) REACH("degenerate ring of size 1 (always empty)");
	if (w_size == RING_MAXSIZE) REACH("largest admitted ring");
}
/* the invariant used by find_destination is preserved (replaceable form: no ghost bindings) */
void cr_ring_add(struct ring *r, struct ovni_ev *ev)
__CPROVER_requires(RING_OBJ(r) && RING_INV(r))
__CPROVER_assigns(r->head, r->tail, r->ev[r->tail])
__CPROVER_ensures(RING_INV(r) && r->ev[OLD(r->tail)] == ev)
;
void h_r_ring_add(void)
{
	struct ring *r; struct ovni_ev *ev;
	WITNESS_OFF(ring_add);
	ring_add(r, ev);
	REACH("ring_add returns with the invariant");
}

/* ================================================================= cmp_ev, region markers (unbounded) */
#define EVP(pp) (*(struct ovni_ev *const *) (pp))
#define PEV_OK(pp) (__CPROVER_is_fresh(pp, sizeof(struct ovni_ev *)) && __CPROVER_is_fresh(EVP(pp), sizeof(struct ovni_ev_header)))
uint64_t w_c1, w_c2;
WITNESS(cmp_ev);
/* exactly what the code does: three-way comparison of the clocks READ AS SIGNED 64-bit */
int c_cmp_ev(const void *a, const void *b)
__CPROVER_requires(PEV_OK(a) && PEV_OK(b))
#ifndef CMP_FULL
/* FINDING carve-out: for a clock >= 2^63 the conversion (int64_t) clock changes the value (flagged by the
 * conversion check) and cmp_ev's order becomes the reverse of the unsigned order used by find_destination,
 * ring_check and stream_check.  Group cmp_ev_full proves the exact (signed) behaviour on all clocks with
 * the conversion check off and shows the disagreement reachable. */
__CPROVER_requires(EVP(a)->header.clock < (1UL << 63) && EVP(b)->header.clock < (1UL << 63))
#endif
__CPROVER_requires(WBIND(cmp_ev, w_c1 == EVP(a)->header.clock && w_c2 == EVP(b)->header.clock))
__CPROVER_assigns()
__CPROVER_ensures(RV == (((int64_t) EVP(a)->header.clock < (int64_t) EVP(b)->header.clock) ? -1 :
	((int64_t) EVP(a)->header.clock > (int64_t) EVP(b)->header.clock) ? 1 : 0))
/* on clocks below 2^63 this IS the (unsigned) clock order every other function of the file uses */
__CPROVER_ensures(!(EVP(a)->header.clock < (1UL << 63) && EVP(b)->header.clock < (1UL << 63)) ||
	RV == ((EVP(a)->header.clock < EVP(b)->header.clock) ? -1 : (EVP(a)->header.clock > EVP(b)->header.clock) ? 1 : 0))
;
void h_cmp_ev(void)
{
	const void *a, *b;
	WITNESS_ON(cmp_ev);
	int r = cmp_ev(a, b);
	if (r < 0) REACH("earlier");
	if (r > 0) REACH("later");
	if (r == 0) REACH("equal clocks");
	/* FINDING (reported): beyond 2^63 the order of cmp_ev is the reverse of the unsigned order used by
	 * find_destination / ring_check / stream_check */
#ifdef CMP_FULL
	if (r < 0 && w_c1 > w_c2) REACH("cmp_ev says earlier although the unsigned clock is larger (clock >= 2^63)");
#endif
}
/* total preorder, on three arbitrary events through the real function */
void h_cmp_ev_laws(void)
{
	struct ovni_ev x, y, z; struct ovni_ev *px = &x, *py = &y, *pz = &z;
	int xy = cmp_ev(&px, &py), yx = cmp_ev(&py, &px), yz = cmp_ev(&py, &pz), xz = cmp_ev(&px, &pz);
	VASSERT(xy == -yx, "antisymmetric up to equal clocks");
	VASSERT((xy == 0) == (x.header.clock == y.header.clock), "zero exactly on equal clocks (whatever the other bytes)");
	VASSERT(!(xy <= 0 && yz <= 0) || xz <= 0, "transitive");
	VASSERT(xy == -1 || xy == 0 || xy == 1, "three results");
	if (xy == 0 && x.header.value != y.header.value) REACH("different events with equal clocks compare equal");
	if (xy < 0 && yz < 0) REACH("strictly increasing triple");
}

int c_starts_unsorted_region(struct ovni_ev *ev)
__CPROVER_requires(__CPROVER_is_fresh(ev, sizeof(struct ovni_ev_header)))
__CPROVER_assigns()
__CPROVER_ensures((RV != 0) == (ev->header.model == 'O' && ev->header.category == 'U' && ev->header.value == '['))
__CPROVER_ensures(RV == 0 || RV == 1)
;
int c_ends_unsorted_region(struct ovni_ev *ev)
__CPROVER_requires(__CPROVER_is_fresh(ev, sizeof(struct ovni_ev_header)))
__CPROVER_assigns()
__CPROVER_ensures((RV != 0) == (ev->header.model == 'O' && ev->header.category == 'U' && ev->header.value == ']'))
__CPROVER_ensures(RV == 0 || RV == 1)
;
void h_starts_unsorted_region(void) { struct ovni_ev *ev; int r = starts_unsorted_region(ev); if (r) REACH("OU["); if (!r) REACH("not OU["); }
void h_ends_unsorted_region(void) { struct ovni_ev *ev; int r = ends_unsorted_region(ev); if (r) REACH("OU]"); if (!r) REACH("not OU]"); }

/* ================================================================= write_stream (unbounded, loop contract) */
/* every byte of src[0..size) lands in the file at offset (dst - base) + k, in order, whatever the
 * short-write pattern; each pwrite continues where the previous one ended; returns only if none failed */
long g_off0;                 /* pre-state: dst - base */
unsigned long w_ws_size;
WITNESS(write_stream);
void c_write_stream(int fd, void *base, void *dst, const void *src, size_t size)
__CPROVER_requires(size <= (1UL << 40) && __CPROVER_is_fresh(src, size))
__CPROVER_requires(0 <= g_off0 && g_off0 <= (1L << 40) && __CPROVER_is_fresh(base, (size_t) g_off0 + size + 1) && dst == (void *) ((uint8_t *) base + g_off0))
__CPROVER_requires(g_pw_calls == 0 && g_pw_gap == 0 && g_pw_fail == 0)
__CPROVER_requires(WBIND(write_stream, w_ws_size == size))
__CPROVER_assigns(g_byte, g_pw_calls, g_pw_fd, g_pw_next, g_pw_gap, g_pw_fail, g_died)
__CPROVER_ensures(g_pw_fail == 0 && g_pw_gap == 0)
__CPROVER_ensures(size == 0 ? g_pw_calls == 0 : (g_pw_calls >= 1 && g_pw_calls <= size && g_pw_fd == fd && g_pw_next == g_off0 + (long) size))
__CPROVER_ensures(!(g_pos >= g_off0 && g_pos - g_off0 < (long) size) || g_byte == ((const unsigned char *) src)[g_pos - g_off0])
__CPROVER_ensures((g_pos >= g_off0 && g_pos - g_off0 < (long) size) || g_byte == OLD(g_byte))
;
void h_write_stream(void)
{
	int fd; void *base, *dst; const void *src; size_t size;
	WITNESS_ON(write_stream);
	g_no_die = 0;    /* a failed pwrite is fatal */
	write_stream(fd, base, dst, src, size);
	REACH("write_stream returns");
	if (w_ws_size == 0) REACH("nothing to write");
	if (g_pw_calls >= 3) REACH("three or more short writes");
	if (g_pos >= g_off0 && g_pos - g_off0 < (long) w_ws_size) REACH("observer inside the written range");
	if (g_pos < g_off0) REACH("observer before the written range");
}

/* ================================================================= stream_check (unbounded, loop contract) */
/* returns -1 iff the iterator failed or some event has a smaller clock than its predecessor; 0 otherwise */
int c_stream_check(struct stream *stream)
__CPROVER_requires(__CPROVER_is_fresh(stream, sizeof(struct stream)))
__CPROVER_requires(g_has_prev == 0 && g_decreased == 0 && g_step_failed == 0 && g_steps == 0 && g_said == 0)
__CPROVER_assigns(g_cur_ev, g_has_prev, g_prev_clock, g_decreased, g_step_failed, g_steps, g_remaining, g_said, DIAG_FRAME)
__CPROVER_ensures(RV == 0 || RV == -1)
__CPROVER_ensures((RV == -1) == (g_step_failed || g_decreased))
/* it says so exactly when it fails */
__CPROVER_ensures((RV == -1) == (g_said != 0))
;
void h_stream_check(void)
{
	struct stream *stream;
	int r = stream_check(stream);
	if (r == 0 && g_steps == 0) REACH("empty stream passes");
	if (r == 0 && g_steps >= 3) REACH("sorted stream of three or more events passes");
	if (r != 0 && g_decreased && !g_step_failed) REACH("backwards jump reported");
	if (r != 0 && g_step_failed && !g_decreased) REACH("iterator failure reported");
}

/* ================================================================= find_destination (BOUNDED: ring size RG_N) */
/* Ring entries are separate event objects; entries outside head..tail-1 are arbitrary (stale) pointers, so
 * the proof also shows they are never dereferenced.
 * Result: the position of the LAST (most recent) live entry whose clock is STRICTLY below the target -- every
 * later live entry has clock >= target, so events with a clock EQUAL to the target stay inside the region that
 * is re-sorted (their relative order then depends on qsort being stable); if there is none: the head (== 0)
 * when the ring never wrapped (the window reaches back to the first event of the stream), else -1 with a
 * diagnostic.  Never dies under RING_INV. */
#ifndef RG_N
#define RG_N 3
#endif
#define RG_MAX 5
_Static_assert(RG_N >= 1 && RG_N <= RG_MAX, "ring size of this group");
uint64_t g_clk[RG_MAX];
#define DIST(r, k) RING_COUNT((r)->head, (k), (r)->size)
#define COUNT_R(r) RING_COUNT((r)->head, (r)->tail, (r)->size)
#define LIVE(r, k) ((k) < RG_N && DIST(r, k) < COUNT_R(r))
#define ENTRY(r, k) (!LIVE(r, k) || (__CPROVER_is_fresh((r)->ev[(k)], sizeof(struct ovni_ev_header)) && g_clk[(k)] == (r)->ev[(k)]->header.clock))
#define EARLIER(r, k) (LIVE(r, k) && g_clk[(k)] < clock)
#define FOUND(r) (EARLIER(r, 0) || EARLIER(r, 1) || EARLIER(r, 2) || EARLIER(r, 3) || EARLIER(r, 4))
/* every live entry after position p has clock >= target */
#define LATER_GE(r, p, k) (!(LIVE(r, k) && DIST(r, k) > DIST(r, p)) || g_clk[(k)] >= clock)
long w_fd_head, w_fd_tail; uint64_t w_fd_clock;
long w_fd_n; uint64_t w_fd_c0, w_fd_c1, w_fd_c2, w_fd_c3, w_fd_c4;   /* replay: ring size and the clocks of the live entries */
#define WCLK(r, k, w) (!LIVE(r, k) || (w) == g_clk[(k)])
WITNESS(find_destination);
ssize_t c_find_destination(struct ring *r, uint64_t clock)
__CPROVER_requires(__CPROVER_is_fresh(r, sizeof(struct ring)) && r->size == RG_N && __CPROVER_is_fresh(r->ev, RG_N * sizeof(struct ovni_ev *)))
__CPROVER_requires(RING_INV(r))
__CPROVER_requires(ENTRY(r, 0) && ENTRY(r, 1) && ENTRY(r, 2) && ENTRY(r, 3) && ENTRY(r, 4))
__CPROVER_requires(g_said == 0 && DIAG_PRE)
__CPROVER_requires(WBIND(find_destination, w_fd_head == r->head && w_fd_tail == r->tail && w_fd_clock == clock && w_fd_n == RG_N &&
	WCLK(r, 0, w_fd_c0) && WCLK(r, 1, w_fd_c1) && WCLK(r, 2, w_fd_c2) && WCLK(r, 3, w_fd_c3) && WCLK(r, 4, w_fd_c4)))
__CPROVER_assigns(g_said, DIAG_FRAME, g_died)
__CPROVER_ensures(-1 <= RV && RV < RG_N)
/* found: the most recent entry strictly earlier than the target */
__CPROVER_ensures(!FOUND(r) || (RV >= 0 && LIVE(r, RV) && g_clk[RV >= 0 ? RV : 0] < clock &&
	LATER_GE(r, RV, 0) && LATER_GE(r, RV, 1) && LATER_GE(r, RV, 2) && LATER_GE(r, RV, 3) && LATER_GE(r, RV, 4)))
/* not found, window reaches the start of the stream: the first event */
__CPROVER_ensures(!(!FOUND(r) && COUNT_R(r) < RG_N - 1) || (RV == r->head && RV == 0))
/* not found, window full: cannot sort, and says so */
__CPROVER_ensures((RV == -1) == (!FOUND(r) && COUNT_R(r) >= RG_N - 1))
__CPROVER_ensures((RV == -1) == (g_said != 0))
;
void h_find_destination(void)
{
	struct ring *r; uint64_t clock;
	WITNESS_ON(find_destination);
	g_no_die = 1;
	ssize_t i = find_destination(r, clock);
	if (i == -1) REACH("not found in a full window");
#if RG_N >= 3
	if (i >= 0 && w_fd_head == 0 && g_clk[0] >= w_fd_clock) REACH("not found, ring never wrapped: first event");
	if (i >= 0 && g_clk[i] < w_fd_clock && i != w_fd_tail - 1 && w_fd_tail >= 1) REACH("found some entries back");
	if (i >= 0 && g_clk[i] < w_fd_clock && w_fd_tail < w_fd_head) REACH("found in a wrapped ring");
	if (i >= 0 && g_clk[i] < w_fd_clock && g_clk[(i + 1) % RG_N] == w_fd_clock && (i + 1) % RG_N != w_fd_tail) REACH("an entry with the same clock as the target stays after the destination");
#endif
}
