/* C08 -- "in lint mode a trace that ends with open subsystem or function regions is rejected":
 * model_<m>_finish (src/emu/<m>/setup.c) runs the end-of-trace lint check exactly when the
 * emulator runs in linter mode, and a lint failure makes the model's finish hook (hence the
 * emulation) fail.  For nOS-V and Nanos6 the hook first writes the task-type labels of both traces
 * and the breakdown labels; a failure there fails the hook too and the lint check is not reached.
 * end_lint itself is proved in the end_lint_<m> groups; here it is replaced by a logging contract. */
#include "prelude.h"
#include "value.h"
#include "extend.c"
#if defined(C08_NOSV)
#  include "nosv/setup.c"
#  define FINISH model_nosv_finish
#  define HAS_PVT 1
#  define BD_FINISH model_nosv_breakdown_finish
#elif defined(C08_NANOS6)
#  include "nanos6/setup.c"
#  define FINISH model_nanos6_finish
#  define HAS_PVT 1
#  define BD_FINISH model_nanos6_breakdown_finish
#elif defined(C08_NODES)
#  include "nodes/setup.c"
#  define FINISH model_nodes_finish
#  define HAS_PVT 0
#elif defined(C08_MPI)
#  include "mpi/setup.c"
#  define FINISH model_mpi_finish
#  define HAS_PVT 0
#elif defined(C08_TAMPI)
#  include "tampi/setup.c"
#  define FINISH model_tampi_finish
#  define HAS_PVT 0
#elif defined(C08_OPENMP)
#  include "openmp/setup.c"
#  define FINISH model_openmp_finish
#  define HAS_PVT 0
#endif

unsigned g_lint_calls, g_pvt_calls, g_bd_calls; int g_lint_failed, g_pvt_failed, g_bd_failed;
unsigned g_order_bad;   /* lint reached after an earlier stage failed */
int cr_end_lint(struct emu *emu)
__CPROVER_requires(g_lint_calls < 1000u)
__CPROVER_assigns(g_lint_calls, g_lint_failed, g_order_bad, DIAG_FRAME)
__CPROVER_ensures(g_lint_calls == __CPROVER_old(g_lint_calls) + 1)
__CPROVER_ensures(__CPROVER_return_value == 0 || __CPROVER_return_value == -1)
__CPROVER_ensures(g_lint_failed == (__CPROVER_old(g_lint_failed) || __CPROVER_return_value != 0))
__CPROVER_ensures(g_order_bad == (__CPROVER_old(g_order_bad) + ((g_pvt_failed || g_bd_failed) ? 1u : 0u)))
__CPROVER_ensures(g_err >= __CPROVER_old(g_err) && g_err <= __CPROVER_old(g_err) + 8u && g_diag >= __CPROVER_old(g_diag) && g_warn >= __CPROVER_old(g_warn))
;
#if HAS_PVT
int cr_finish_pvt(struct emu *emu, const char *name)
__CPROVER_requires(g_pvt_calls < 1000u)
__CPROVER_assigns(g_pvt_calls, g_pvt_failed, DIAG_FRAME)
__CPROVER_ensures(g_pvt_calls == __CPROVER_old(g_pvt_calls) + 1)
__CPROVER_ensures(g_pvt_failed == (__CPROVER_old(g_pvt_failed) || __CPROVER_return_value != 0))
__CPROVER_ensures(g_err >= __CPROVER_old(g_err) && g_err <= __CPROVER_old(g_err) + 8u && g_diag >= __CPROVER_old(g_diag) && g_warn >= __CPROVER_old(g_warn))
;
int BD_FINISH(struct emu *emu, const struct pcf_value_label **labels)
{
	(void) emu; (void) labels;
	g_bd_calls++;
	int r = nondet_int();
	if (r != 0) g_bd_failed = 1;
	return r;
}
#endif

int w_linter;
WITNESS(FINISH);
int c_model_finish(struct emu *emu)
__CPROVER_requires(__CPROVER_is_fresh(emu, sizeof(*emu)) && DIAG_PRE)
__CPROVER_requires(g_lint_calls == 0 && g_pvt_calls == 0 && g_bd_calls == 0 && !g_lint_failed && !g_pvt_failed && !g_bd_failed && g_order_bad == 0)
__CPROVER_requires(WBIND(FINISH, w_linter == (emu->args.linter_mode != 0)))
__CPROVER_assigns(g_lint_calls, g_lint_failed, g_pvt_calls, g_pvt_failed, g_bd_calls, g_bd_failed, g_order_bad, DIAG_FRAME)
/* the lint check runs exactly once in linter mode (if the earlier stages succeeded), never otherwise */
__CPROVER_ensures(g_lint_calls == ((emu->args.linter_mode && !g_pvt_failed && !g_bd_failed) ? 1u : 0u))
__CPROVER_ensures(g_order_bad == 0)
/* the hook fails exactly when a stage it ran failed */
__CPROVER_ensures((__CPROVER_return_value != 0) == (g_pvt_failed || g_bd_failed || g_lint_failed))
__CPROVER_ensures(__CPROVER_return_value == 0 || g_err > __CPROVER_old(g_err))
#if HAS_PVT
__CPROVER_ensures(g_pvt_failed || (g_pvt_calls == 2 && g_bd_calls == 1))
#endif
;
void h_model_finish(void)
{
	struct emu *emu;
	WITNESS_ON(FINISH);
	int r = FINISH(emu);
	if (r != 0 && g_lint_failed) REACH("open region at the end of the trace makes the hook fail in lint mode");
	if (r == 0 && w_linter) REACH("lint mode, nothing open");
	if (r == 0 && !w_linter) REACH("not in lint mode");
}
