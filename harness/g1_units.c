/* G1 (gap closure, property C15) -- small functions of proc.c / thread.c / cpu.c the system
 * hierarchy rests on: proc_find_thread, thread_set_gindex, thread_init_end, set_name,
 * cpu_init_end.  One TU per real file, selected by -DG1_PROC / -DG1_THREAD / -DG1_CPU.
 *
 * Trusted: chan.c is another unit: chan_init (variadic) and chan_prop_set are logging stubs;
 * uthash HASH_FIND_INT is an argument log with arbitrary result; snprintf is logged with
 * its format and returns any non-negative length; loom_get_gindex (loom.c) returns the
 * loom's gindex field (logged). */
#include "prelude.h"
#include "uthash.h"
#include "chan.h"

#define RV __CPROVER_return_value
#define OLD(e) __CPROVER_old(e)

/* ---- chan.c (other unit): call log, in one sequence so that order is visible ---- */
#define G1_NLOG 12
unsigned g_cl_n;                       /* calls so far (chan_init and chan_prop_set together) */
struct chan *g_cl_ch[G1_NLOG]; int g_cl_kind[G1_NLOG], g_cl_a[G1_NLOG], g_cl_b[G1_NLOG];
enum { G1_CL_INIT = 1, G1_CL_PROP = 2 };
static void g1_chan_init(struct chan *ch, enum chan_type type)
{
	unsigned k = g_cl_n++;
	if (k < G1_NLOG) { g_cl_ch[k] = ch; g_cl_kind[k] = G1_CL_INIT; g_cl_a[k] = (int) type; g_cl_b[k] = 0; }
}
#define chan_init(ch, type, ...) g1_chan_init((ch), (type))
void chan_prop_set(struct chan *ch, enum chan_prop prop, int value)
{
	unsigned k = g_cl_n++;
	if (k < G1_NLOG) { g_cl_ch[k] = ch; g_cl_kind[k] = G1_CL_PROP; g_cl_a[k] = (int) prop; g_cl_b[k] = value; }
}
#define CL_IS(k, ch, kind, a, b) (g_cl_ch[k] == (ch) && g_cl_kind[k] == (kind) && g_cl_a[k] == (int) (a) && g_cl_b[k] == (b))

/* ---- uthash HASH_FIND_INT (not verified): argument log, arbitrary result ---- */
unsigned g_hf_n; void *g_hf_head; int g_hf_key; void *g_hf_out;
#undef HASH_FIND_INT
#define HASH_FIND_INT(head, findint, out) { g_hf_n++; g_hf_head = (void *) (head); g_hf_key = *(findint); (out) = g_hf_out; }

/* =================================== proc.c =================================== */
#ifdef G1_PROC
#include "proc.c"                 /* the real /repo/src/emu/proc.c */
int w_tid;
WITNESS(proc_find_thread);
/* the look-up of tid in THIS process's thread table; result passed through; no write */
struct thread *c_proc_find_thread(struct proc *proc, int tid)
__CPROVER_requires(__CPROVER_is_fresh(proc, sizeof(*proc)))
__CPROVER_requires(g_hf_n < 1000000u && WBIND(proc_find_thread, w_tid == tid))
__CPROVER_assigns(g_hf_n, g_hf_head, g_hf_key)
__CPROVER_ensures(g_hf_n == OLD(g_hf_n) + 1 && g_hf_head == (void *) proc->threads && g_hf_key == tid)
__CPROVER_ensures(RV == (struct thread *) g_hf_out)
;
void h_proc_find_thread(void)
{
	struct proc *proc; int tid;
	WITNESS_ON(proc_find_thread);
	struct thread *t = proc_find_thread(proc, tid);
	if (t == NULL) REACH("tid not in the process");
	if (t != NULL) REACH("tid found");
}
#endif

/* =================================== thread.c =================================== */
#ifdef G1_THREAD
#include "thread.c"               /* the real /repo/src/emu/thread.c */

void c_thread_set_gindex(struct thread *th, int64_t gindex)
__CPROVER_requires(__CPROVER_is_fresh(th, sizeof(*th)))
__CPROVER_assigns(th->gindex)
__CPROVER_ensures(th->gindex == gindex)
;
void h_thread_set_gindex(void)
{
	struct thread *th; int64_t g;
	thread_set_gindex(th, g);
	REACH("gindex set");
}

/* thread_init_end: accepted exactly when the global index was assigned and the metadata
 * was loaded; then the three thread channels are (re)initialised as single-value channels,
 * in order, the TID channel ignores duplicates (set AFTER its initialisation), and the
 * thread is marked initialised.  Refused: diagnosed, nothing touched. */
int w_gindex_ok, w_has_meta;
WITNESS(thread_init_end);
int c_thread_init_end(struct thread *th)
__CPROVER_requires(__CPROVER_is_fresh(th, sizeof(*th)))
__CPROVER_requires(DIAG_PRE && g_cl_n == 0)
__CPROVER_requires(WBIND(thread_init_end, w_gindex_ok == (th->gindex >= 0) && w_has_meta == (th->meta != NULL)))
__CPROVER_assigns(th->is_init, DIAG_FRAME, g_cl_n, __CPROVER_object_whole(g_cl_ch), __CPROVER_object_whole(g_cl_kind),
	__CPROVER_object_whole(g_cl_a), __CPROVER_object_whole(g_cl_b))
__CPROVER_ensures((RV == 0) == (th->gindex >= 0 && th->meta != NULL))
__CPROVER_ensures(RV == 0 || (RV == -1 && g_err > OLD(g_err) && g_cl_n == 0 && th->is_init == OLD(th->is_init)))
__CPROVER_ensures(RV != 0 || (th->is_init == 1 && g_err == OLD(g_err) && g_cl_n == 4 &&
	CL_IS(0, &th->chan[0], G1_CL_INIT, CHAN_SINGLE, 0) &&
	CL_IS(1, &th->chan[1], G1_CL_INIT, CHAN_SINGLE, 0) &&
	CL_IS(2, &th->chan[2], G1_CL_INIT, CHAN_SINGLE, 0) &&
	CL_IS(3, &th->chan[TH_CHAN_TID], G1_CL_PROP, CHAN_IGNORE_DUP, 1)))
;
_Static_assert(TH_CHAN_MAX == 3, "thread channels");
void h_thread_init_end(void)
{
	struct thread *th;
	WITNESS_ON(thread_init_end);
	int r = thread_init_end(th);
	if (r == 0) REACH("thread initialised");
	if (r != 0 && !w_gindex_ok) REACH("no global index: refused");
	if (r != 0 && w_gindex_ok && !w_has_meta) REACH("no metadata: refused");
}
#endif

/* =================================== cpu.c =================================== */
#ifdef G1_CPU
#include "loom.h"
unsigned g_lgg_n; struct loom *g_lgg_loom;
int64_t loom_get_gindex(struct loom *loom) { g_lgg_n++; g_lgg_loom = loom; return loom->gindex; }
unsigned g_snp_n; char *g_snp_dst; size_t g_snp_size; const char *g_snp_fmt; int g_snp_ret;
static int g1_snprintf(char *s, size_t n, const char *fmt)
{
	g_snp_n++; g_snp_dst = s; g_snp_size = n; g_snp_fmt = fmt;
	g_snp_ret = nondet_int();
	__CPROVER_assume(g_snp_ret >= 0);
#ifndef G1_SNP_NOWRITE
	if (n > 0) __CPROVER_havoc_slice(s, n);   /* any text */
#endif
	return g_snp_ret;
}
#undef snprintf
#define snprintf(s, n, fmt, ...) g1_snprintf((s), (n), (fmt))
#include "cpu.c"                  /* the real /repo/src/emu/cpu.c */

/* set_name / cpu_init_end: assume/assert harness on the real code (typed objects: a contract
 * over is_fresh byte objects of 50+60 KB took > 100 s).
 * set_name: the name is formatted once into cpu->name (PATH_MAX), "vCPU <loom>.*" for the
 * virtual CPU and " CPU <loom>.<phyid>" otherwise, with the gindex of the CPU's loom;
 * refused (diagnosed) exactly when it does not fit.
 * cpu_init_end: accepted exactly when the global index was assigned, the loom is known and
 * the name fits; then the five CPU channels are initialised as single-value channels and
 * every one ignores duplicates (set after the initialisation), and the CPU is initialised. */
_Static_assert(CPU_CHAN_MAX == 5, "cpu channels");
static int fmt_ok(const char *fmt, int is_virtual)
{
	return is_virtual ? (fmt[0] == 'v' && fmt[1] == 'C' && fmt[8] == '.' && fmt[9] == '*')
	                  : (fmt[0] == ' ' && fmt[1] == 'C' && fmt[8] == '.' && fmt[9] == '%');
}
void h_set_name(void)
{
	struct cpu *cpu = malloc(sizeof(struct cpu));
	struct loom *loom = malloc(sizeof(struct loom));
	__CPROVER_assume(cpu && loom);
	cpu->loom = loom;
	int is_virtual = cpu->is_virtual;
	int phyid = cpu->phyid, index = cpu->index; int64_t gindex = cpu->gindex;
	g_err = 0; g_snp_n = 0; g_lgg_n = 0;
	int r = set_name(cpu);
	VASSERT(g_snp_n == 1 && g_snp_dst == cpu->name && g_snp_size == PATH_MAX, "the name is formatted once, into cpu->name, bounded by PATH_MAX");
	VASSERT(g_lgg_n == 1 && g_lgg_loom == loom, "with the global index of the CPU's own loom");
	VASSERT(fmt_ok(g_snp_fmt, is_virtual), "virtual CPUs are named 'vCPU <loom>.*', physical ones ' CPU <loom>.<phyid>'");
	VASSERT((r == 0) == (g_snp_ret < PATH_MAX), "refused exactly when the name does not fit");
	VASSERT(r == 0 ? g_err == 0 : (r == -1 && g_err > 0), "a refusal is diagnosed");
	VASSERT(cpu->loom == loom && cpu->is_virtual == is_virtual && cpu->phyid == phyid && cpu->index == index && cpu->gindex == gindex, "identity fields untouched");
	if (r == 0 && is_virtual) REACH("virtual CPU named");
	if (r == 0 && !is_virtual) REACH("physical CPU named");
	if (r != 0) REACH("name too long");
}
void h_cpu_init_end(void)
{
	struct cpu *cpu = malloc(sizeof(struct cpu));
	struct loom *loom = malloc(sizeof(struct loom));
	__CPROVER_assume(cpu && loom);
	if (nondet_bool()) cpu->loom = loom; else cpu->loom = NULL;
	int has_loom = cpu->loom != NULL;
	int is_virtual = cpu->is_virtual, was_init = cpu->is_init;
	int phyid = cpu->phyid, index = cpu->index; int64_t gindex = cpu->gindex;
	g_err = 0; g_snp_n = 0; g_lgg_n = 0; g_cl_n = 0; g_snp_ret = 0;
	int r = cpu_init_end(cpu);
	int fits = g_snp_ret < PATH_MAX;
	VASSERT((r == 0) == (gindex >= 0 && has_loom && fits), "accepted exactly when the global index is set, the loom is known and the name fits");
	VASSERT(r == 0 ? g_err == 0 : (r == -1 && g_err > 0), "a refusal is diagnosed");
	VASSERT(cpu->is_virtual == is_virtual && cpu->phyid == phyid && cpu->index == index && cpu->gindex == gindex && (cpu->loom != NULL) == has_loom, "identity fields untouched");
	if (r == 0) {
		VASSERT(cpu->is_init == 1, "the CPU is marked initialised");
		VASSERT(g_snp_n == 1 && g_snp_dst == cpu->name && fmt_ok(g_snp_fmt, is_virtual), "the CPU got its name");
		VASSERT(g_cl_n == 10, "five channel initialisations and five property settings");
		for (int i = 0; i < 5; i++)
			VASSERT(CL_IS(i, &cpu->chan[i], G1_CL_INIT, CHAN_SINGLE, 0), "channel i is initialised as a single-value channel, in order");
		for (int i = 0; i < 5; i++) {
			int seen = 0;
			for (int k = 5; k < 10; k++) if (CL_IS(k, &cpu->chan[i], G1_CL_PROP, CHAN_IGNORE_DUP, 1)) seen++;
			VASSERT(seen == 1, "every CPU channel ignores duplicates, set once, after its initialisation");
		}
		REACH("CPU initialised");
		if (is_virtual) REACH("virtual CPU initialised");
	} else {
		VASSERT(cpu->is_init == was_init && g_cl_n == 0, "refused: not initialised, no channel touched");
		if (gindex < 0) REACH("no global index: refused");
		if (gindex >= 0 && !has_loom) REACH("no loom: refused");
		if (gindex >= 0 && has_loom && !fits) REACH("name too long: refused");
	}
}
#endif
