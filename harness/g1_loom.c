/* G1 (gap closure, properties C03/C15) -- src/emu/loom.c: set_hostname, loom_init_begin,
 * loom_find_proc, loom_find_thread.
 *
 * C03 speaks about "the clock offset of the stream's HOST": the host of a loom is
 * loom->hostname, which parse_clkoff_entry (system.c) matches against the table.  It is
 * set once, by set_hostname(): the loom name up to (not including) the first '.'.
 *
 * Trusted here: snprintf("%s") is modelled as a bounded string copy with the ISO return
 * value (G1_SNPRINTF_S); strchr = CBMC's model; cpu_init_begin / cpu_set_loom (cpu.c, proved
 * in plan C15 group cpu_init_begin) are logging stubs; uthash HASH_FIND_INT is rebound to an
 * argument log with an arbitrary result; proc_find_thread (proc.c) is a logging stub. */
#include "prelude.h"
#include "uthash.h"
#include "cpu.h"
#include "proc.h"

/* ---- snprintf(dst, n, "%s", src): ISO semantics for this one format ---- */
#ifndef G1_STRMAX
#define G1_STRMAX 6
#endif
unsigned g_snp_n; const char *g_snp_fmt; int g_snp_ret;
static int g1_snprintf_s(char *dst, size_t n, const char *fmt, const char *src)
{
	g_snp_n++; g_snp_fmt = fmt;
	size_t len = 0;
	while (len < G1_STRMAX && src[len] != '\0') len++;
	__CPROVER_assert(src[len] == '\0', "G1 bound: source string fits the snprintf model");
	if (n > 0) {
		size_t k;
		for (k = 0; k < len && k + 1 < n; k++) dst[k] = src[k];
		dst[k] = '\0';
	}
	g_snp_ret = (int) len;
	return (int) len;
}
#undef snprintf
#define snprintf(s, n, fmt, arg) g1_snprintf_s((s), (n), (fmt), (arg))

/* ---- cpu.c (other unit): call log ---- */
unsigned g_cib_n; struct cpu *g_cib_cpu; int g_cib_index, g_cib_phyid, g_cib_virtual;
void cpu_init_begin(struct cpu *cpu, int index, int phyid, int is_virtual)
{
	g_cib_n++; g_cib_cpu = cpu; g_cib_index = index; g_cib_phyid = phyid; g_cib_virtual = is_virtual;
}
unsigned g_csl_n; struct cpu *g_csl_cpu; struct loom *g_csl_loom; unsigned g_csl_after_cib;
void cpu_set_loom(struct cpu *cpu, struct loom *loom)
{
	g_csl_n++; g_csl_cpu = cpu; g_csl_loom = loom; g_csl_after_cib = g_cib_n;
}

/* ---- proc.c (other unit): proc_find_thread logging stub, up to 3 calls ---- */
unsigned g_pft_n; struct proc *g_pft_proc[3]; int g_pft_tid[3]; struct thread *g_pft_ret[3];
struct thread *proc_find_thread(struct proc *proc, int tid)
{
	unsigned k = g_pft_n++;
	if (k < 3) { g_pft_proc[k] = proc; g_pft_tid[k] = tid; return g_pft_ret[k]; }
	return NULL;
}

/* ---- uthash HASH_FIND_INT (not verified): argument log, arbitrary result ---- */
unsigned g_hf_n; void *g_hf_head; int g_hf_key; void *g_hf_out;
#undef HASH_FIND_INT
#define HASH_FIND_INT(head, findint, out) { g_hf_n++; g_hf_head = (void *) (head); g_hf_key = *(findint); (out) = g_hf_out; }

#include "loom.c"                 /* the real /repo/src/emu/loom.c */

#define RV __CPROVER_return_value
#define OLD(e) __CPROVER_old(e)

/* ------------------------------------------------------------------------------------
 * set_hostname: host = name up to the first '.' or NUL (at most PATH_MAX-1 characters).
 * The 4095-iteration loop is unwound COMPLETELY over a fully symbolic name[PATH_MAX]:
 * exhaustive for the real buffer size.  The cut position is recomputed by the harness. */
#ifdef H_SET_HOSTNAME
/* BOUNDED stand-in for the quick tier (the unbounded proof below takes minutes): loom names
 * whose first '.' or NUL is within the first G1_HOSTLEN characters. */
#ifndef G1_HOSTLEN
#define G1_HOSTLEN 8
#endif
void h_set_hostname(void)
{
	char name[PATH_MAX];          /* arbitrary bytes (uninitialised local = nondet) */
	char host[PATH_MAX];          /* arbitrary previous contents */
	int k = nondet_int();         /* the property is observed at the arbitrary cell k */
	__CPROVER_assume(k >= 0 && k < PATH_MAX);
	char pre = host[k];
	/* specification: cut = first index with '.' or NUL */
	int cut = 0;
	while (cut < G1_HOSTLEN && name[cut] != '.' && name[cut] != '\0') cut++;
	__CPROVER_assume(name[cut] == '.' || name[cut] == '\0');   /* the bound */
	set_hostname(host, name);
	VASSERT(host[cut] == '\0', "hostname ends where the loom name has its first '.' (or ends)");
	VASSERT(k >= cut || (host[k] == name[k] && host[k] != '\0' && host[k] != '.'), "hostname is the loom name up to the first '.', character by character");
	VASSERT(k <= cut || host[k] == pre, "nothing is written after the terminator");
	if (cut == 0) REACH("empty host (name starts with '.')");
	if (cut == 3 && name[3] == '.') REACH("name with a domain: cut at the first dot");
	if (cut == 3 && name[3] == '\0' ) REACH("name without dot: whole name");
	if (cut == 2 && name[2] == '.' && name[4] == '.') REACH("two dots: cut at the FIRST one");
	if (cut == G1_HOSTLEN && name[1] == '-' && name[2] == '_' && name[3] == '/') REACH("other punctuation is part of the host name");
}
#endif

/* Short names only (NUL within the first 6 characters), every loop -- the function's own or a library
 * model's (strrchr, strlen) -- unwound 8 times with unwinding assertions: decides a body that is NOT the
 * byte loop (wave-6 seed C03_w6_1: strrchr + memcpy), where the groups above do not finish. */
#ifdef H_SET_HOSTNAME_S
void h_set_hostname_s(void)
{
	char name[PATH_MAX];
	char host[PATH_MAX];
	int len = nondet_int();
	__CPROVER_assume(len >= 0 && len <= 5);
	name[len] = '\0';
	__CPROVER_assume(len < 1 || name[0] != '\0'); __CPROVER_assume(len < 2 || name[1] != '\0');
	__CPROVER_assume(len < 3 || name[2] != '\0'); __CPROVER_assume(len < 4 || name[3] != '\0');
	__CPROVER_assume(len < 5 || name[4] != '\0');
	int cut = 0;
	while (cut < 6 && name[cut] != '.' && name[cut] != '\0') cut++;
	int k = nondet_int();
	__CPROVER_assume(k >= 0 && k < 6);
	set_hostname(host, name);
	VASSERT(host[cut] == '\0', "short name: hostname ends where the loom name has its FIRST '.' (or ends)");
	VASSERT(k >= cut || host[k] == name[k], "short name: hostname is the loom name up to the first '.'");
	if (len == 5 && name[1] == '.' && name[3] == '.') REACH("a.b.c: cut at the first dot");
	if (len == 3 && cut == 3) REACH("no dot: whole name");
}
#endif

/* ------------------------------------------------------------------------------------
 * set_hostname, UNBOUNDED (loop contract loops/g1_loom.json): g_c is the position of the
 * first '.' or NUL of the name (PATH_MAX-1 if there is none): cell g_c is a terminator and
 * no earlier cell is.  Then host[g_c] == NUL, every earlier cell is copied, every later
 * cell is untouched (observed at the arbitrary cell g_k). */
#ifdef H_SET_HOSTNAME_U
int g_k, g_c; char g_pre;
void c_set_hostname(char host[PATH_MAX], const char name[PATH_MAX])
__CPROVER_requires(__CPROVER_is_fresh(host, PATH_MAX))
__CPROVER_requires(__CPROVER_is_fresh(name, PATH_MAX))
__CPROVER_requires(0 <= g_k && g_k < PATH_MAX && 0 <= g_c && g_c <= PATH_MAX - 1)
__CPROVER_requires(g_c == PATH_MAX - 1 || name[g_c] == '.' || name[g_c] == '\0')
__CPROVER_requires(__CPROVER_forall { int j; (0 <= j && j < PATH_MAX - 1) ==> (j >= g_c || (name[j] != '.' && name[j] != '\0')) })
__CPROVER_requires(g_pre == host[g_k])
__CPROVER_assigns(__CPROVER_object_whole(host))
__CPROVER_ensures(host[g_c] == '\0')
__CPROVER_ensures(g_k >= g_c || (host[g_k] == name[g_k] && host[g_k] != '.' && host[g_k] != '\0'))
__CPROVER_ensures(g_k <= g_c || host[g_k] == g_pre)
;
void h_set_hostname_u(void)
{
	char *host; const char *name;
	set_hostname(host, name);
	if (g_c == 0) REACH("empty host");
	if (g_c == 5 && g_k == 4) REACH("copied cell of a short host name");
	if (g_c == PATH_MAX - 1) REACH("no terminator: truncated to PATH_MAX-1 characters");
}
#endif

/* ------------------------------------------------------------------------------------
 * loom_init_begin (bounded: names of at most G1_STRMAX-1 characters; assume/assert harness).
 * Accepted exactly when the name has no '/'; the loom then carries the name, the host name
 * cut at the first '.', id == name, no clock offset, no rank, an initialised virtual CPU that
 * belongs to this loom, and empty tables. */
#ifdef H_LOOM_INIT_BEGIN
void h_loom_init_begin(void)
{
	struct loom *loom = malloc(sizeof(struct loom));
	__CPROVER_assume(loom != NULL);
	char name[G1_STRMAX];
	name[G1_STRMAX - 1] = '\0';
	int has_slash = 0, len = 0, cut = -1;
	for (int j = 0; j < G1_STRMAX; j++) {
		if (name[j] == '\0') break;
		if (name[j] == '/') has_slash = 1;
		if (name[j] == '.' && cut < 0) cut = j;
		len++;
	}
	if (cut < 0) cut = len;
	g_err = 0; g_cib_n = 0; g_csl_n = 0; g_snp_n = 0;
	int r = loom_init_begin(loom, name);
	VASSERT((r == 0) == !has_slash, "a loom name is accepted exactly when it has no '/'");
	VASSERT(r == 0 || (r == -1 && g_err > 0), "a refusal is diagnosed");
	if (r == 0) {
		for (int j = 0; j < G1_STRMAX; j++) {
			if (j <= len) VASSERT(loom->name[j] == name[j], "the loom keeps its name");
			if (j < cut) VASSERT(loom->hostname[j] == name[j], "host name = loom name up to the first '.'");
		}
		VASSERT(loom->hostname[cut] == '\0', "host name ends at the first '.'");
		VASSERT(loom->id == loom->name, "the loom id is its name");
		VASSERT(loom->clock_offset == 0, "a new loom has no clock offset yet");
		VASSERT(loom->rank_min == INT_MAX && loom->rank_enabled == 0, "a new loom has no rank information");
		VASSERT(loom->is_init == 0 && loom->gindex == 0 && loom->ncpus == 0 && loom->nprocs == 0 && loom->max_ncpus == 0 && loom->max_phyid == 0 && loom->offset_ncpus == 0, "counters start at zero");
		VASSERT(loom->cpus == NULL && loom->cpus_array == NULL && loom->procs == NULL && loom->next == NULL && loom->prev == NULL, "tables and links start empty");
		VASSERT(g_cib_n == 1 && g_cib_cpu == &loom->vcpu && g_cib_index == -1 && g_cib_phyid == -1 && g_cib_virtual == 1, "the virtual CPU is initialised once: index -1, phyid -1, virtual");
		VASSERT(g_csl_n == 1 && g_csl_cpu == &loom->vcpu && g_csl_loom == loom && g_csl_after_cib == 1, "... and then attached to this loom");
		VASSERT(g_snp_n == 1, "the name is formatted once");
		REACH("loom accepted");
		if (cut < len) REACH("name with a domain");
		if (len == 0) REACH("empty name accepted");
		if (len == G1_STRMAX - 1 && cut == len) REACH("longest name of the bound, no dot");
	} else {
		REACH("name with '/' refused");
	}
}
#endif

/* ------------------------------------------------------------------------------------
 * loom_find_proc (unbounded): the look-up of pid in THIS loom's process table, result
 * passed through, nothing written. */
#ifdef H_LOOM_FIND_PROC
int w_pid;
WITNESS(loom_find_proc);
struct proc *c_loom_find_proc(struct loom *loom, int pid)
__CPROVER_requires(__CPROVER_is_fresh(loom, sizeof(*loom)))
__CPROVER_requires(g_hf_n < 1000000u && WBIND(loom_find_proc, w_pid == pid))
__CPROVER_assigns(g_hf_n, g_hf_head, g_hf_key)
__CPROVER_ensures(g_hf_n == OLD(g_hf_n) + 1 && g_hf_head == (void *) loom->procs && g_hf_key == pid)
__CPROVER_ensures(RV == (struct proc *) g_hf_out)
;
void h_loom_find_proc(void)
{
	struct loom *loom; int pid;
	WITNESS_ON(loom_find_proc);
	struct proc *p = loom_find_proc(loom, pid);
	if (p == NULL) REACH("pid not in the loom");
	if (p != NULL) REACH("pid found");
}
#endif

/* ------------------------------------------------------------------------------------
 * loom_find_thread (bounded: <= 3 processes): every process of the loom is asked for the
 * SAME tid in table order until one has it; the result is that thread, NULL iff none has. */
#ifdef H_LOOM_FIND_THREAD
void h_loom_find_thread(void)
{
	struct loom *loom = malloc(sizeof(struct loom));
	struct proc *p0 = malloc(sizeof(struct proc)), *p1 = malloc(sizeof(struct proc)), *p2 = malloc(sizeof(struct proc));
	__CPROVER_assume(loom && p0 && p1 && p2);
	struct proc *P[3] = { p0, p1, p2 };
	int n = nondet_int(); __CPROVER_assume(n >= 0 && n <= 3);
	for (int j = 0; j < 3; j++) P[j]->hh.next = (j + 1 < n) ? P[j + 1] : NULL;
	loom->procs = n > 0 ? p0 : NULL;
	int tid = nondet_int();
	g_pft_n = 0;
	{ struct thread *r0, *r1, *r2; g_pft_ret[0] = r0; g_pft_ret[1] = r1; g_pft_ret[2] = r2; }   /* arbitrary answers */
	/* expected: first process whose look-up answers */
	int first = -1;
	for (int j = 0; j < 3; j++) if (j < n && first < 0 && g_pft_ret[j] != NULL) first = j;
	struct thread *t = loom_find_thread(loom, tid);
	VASSERT((t == NULL) == (first < 0), "NULL exactly when no process of the loom has the tid");
	VASSERT(first < 0 || t == g_pft_ret[first], "the thread of the first process that has it");
	VASSERT(g_pft_n == (unsigned) (first < 0 ? n : first + 1), "processes are asked in table order, until found");
	for (int j = 0; j < 3; j++)
		if ((unsigned) j < g_pft_n) VASSERT(g_pft_proc[j] == P[j] && g_pft_tid[j] == tid, "call j asks process j for the same tid");
	if (n == 3 && first == 2) REACH("found in the third process");
	if (n == 3 && first == 0) REACH("found in the first process");
	if (n == 2 && first < 0) REACH("not found in two processes");
	if (n == 0) REACH("loom without processes");
}
#endif
