/* c09_fs.h -- GHOST FILE SYSTEM for C09 (crash consistency) and C10 (I/O faults).
 * Trusted model; included BEFORE the real src/rt/ovni.c.
 *
 * Abstraction
 *  - Two directory trees: T_TMP (where the thread writes: rproc.procdir/thread.N) and
 *    T_FIN (the final trace directory: rproc.procdir_final/thread.N).  In direct mode
 *    (no OVNI_TMPDIR) procdir IS the final directory: both are tagged T_FIN.
 *  - Three regular files per tree: F_OBS (stream.obs), F_JSON (stream.json), F_AUX (one
 *    more entry "stream.<anything>"); plus at most one non-stream directory entry.
 *  - Paths: snprintf is rebound (formatting is what the prelude drops) to an ENCODER:
 *    out = { tree tag of the first %s argument, file tag, NUL }.  Directory strings are
 *    "T" / "F".  So which file a call touches is decided by the real argument flow.
 *  - Each file has an ORIGINAL content (length g_len[id], observed at ONE arbitrary
 *    position g_pos: byte g_obyte[id]) and a state:
 *      S_ABSENT   no directory entry
 *      S_PARTIAL  exists, NOT known to hold the original (truncated / short / wrong byte)
 *      S_MAYBE    every byte of the original was handed to stdio, in order, byte-exact at
 *                 g_pos, but no successful fclose yet: may or may not be on disk
 *      S_COMPLETE holds the original and was closed successfully (or is the original)
 *  - Every stub may fail (nondet), fread/fwrite may be short, fclose may fail (data then
 *    NOT guaranteed on disk: state stays S_MAYBE/S_PARTIAL), readdir order is arbitrary.
 *  - KILL: every stub starts with CRASH_POINT(): the process may die there; the point
 *    invariant C09_POINT_INV is asserted at that moment.  die() asserts it too.
 *    What survives a kill: the ghost state as it is (bytes handed to write(2) survive;
 *    stdio-buffered bytes are only S_MAYBE).  Each stub is atomic w.r.t. a kill, except
 *    json_serialize_to_file_pretty, which has inner crash points (open/write/close). */
#ifndef C09_FS_H
#define C09_FS_H

static void c09_die_hook(void);
#define VERIF_DIE_HOOK c09_die_hook()
#include "prelude.h"

/* write(2) + symbolic capacity: the trusted model of rt_common.h, wrapped with a crash point */
#define write verif_rt_write
#include "rt_common.h"
#undef write
#define VERIF_OWN_JSON_STORE
#include "rt_parson_stub.h"
extern int __CPROVER_errno;

enum { T_TMP = 0, T_FIN = 1 };
enum { F_OBS = 0, F_JSON = 1, F_AUX = 2, F_NONE = 3 };
enum { S_ABSENT = 0, S_PARTIAL = 1, S_MAYBE = 2, S_COMPLETE = 3 };
#define TAG_TMP 'T'
#define TAG_FIN 'F'

int g_st[2][3];              /* state of each file */
int g_jfin[2];               /* the content (being) stored in <tree>/stream.json carries ovni.finished = 1 */
unsigned long g_len[3];      /* length of the original of each file */
unsigned char g_obyte[3];    /* original[id][g_pos], meaningful iff g_pos < g_len[id] */
int g_had[3];                /* the original existed, complete, in T_TMP when the function under proof started */
int g_dir[2];                /* the thread directory of the tree exists */
int g_fsfault;               /* some FS stub reported a failure (or a short count) */
unsigned long g_total;       /* direct mode: number of stream bytes the thread has produced (file + buffer) */
int g_fd_open;               /* the stream fd is open */

/* extra directory entry of T_TMP: 0 none, 1 a stream.* file (= F_AUX), 2 a non-stream entry */
int g_xkind;
char g_xname[12];
#define XNAME_PREFIX (g_xname[0] == 's' && g_xname[1] == 't' && g_xname[2] == 'r' && g_xname[3] == 'e' \
	&& g_xname[4] == 'a' && g_xname[5] == 'm' && g_xname[6] == '.')
/* kind 1 <=> the name has the prefix the runtime looks for; it is neither of the two fixed names */
#define XNAME_IS_OBS (XNAME_PREFIX && g_xname[7] == 'o' && g_xname[8] == 'b' && g_xname[9] == 's' && g_xname[10] == 0)
#define XNAME_IS_JSON (XNAME_PREFIX && g_xname[7] == 'j' && g_xname[8] == 's' && g_xname[9] == 'o' && g_xname[10] == 'n')
#define XNAME_WF (g_xname[11] == 0 && g_xname[0] != 0 && !XNAME_IS_OBS && !XNAME_IS_JSON)

/* ---- the invariants asserted at every crash point / die ---- */
/* C09: a finished-looking stream.json in the final directory implies complete events there */
static int c09_obs_final_ok(void);   /* defined by the harness, after ovni.c (reads rproc / rthread) */
static int c09_state(int tree, int id);
#define INV_CRASH (!(c09_state(T_FIN, F_JSON) >= S_MAYBE && g_jfin[T_FIN]) || c09_obs_final_ok())
/* C10: never delete / truncate the only complete copy */
#define NOLOSS(id) (!g_had[id] || c09_state(T_TMP, id) == S_COMPLETE || c09_state(T_FIN, id) == S_COMPLETE)
#define INV_NOLOSS (NOLOSS(F_OBS) && NOLOSS(F_JSON) && NOLOSS(F_AUX))

#ifdef C09_CRASH
#define C09_POINT_ASSERT(what) VASSERT(INV_CRASH, "C09 crash invariant at " what)
#else
#define C09_POINT_ASSERT(what) VASSERT(INV_NOLOSS, "C10 no-loss invariant at " what)
#endif
#define CRASH_POINT(what) do { if (nondet_bool()) { C09_POINT_ASSERT(what); __CPROVER_assume(0); } } while (0)
static void c09_die_hook(void) { C09_POINT_ASSERT("die()"); }

#define ST_WF1(s) ((s) >= S_ABSENT && (s) <= S_COMPLETE)
#define FS_WF (ST_WF1(g_st[0][0]) && ST_WF1(g_st[0][1]) && ST_WF1(g_st[0][2]) \
	&& ST_WF1(g_st[1][0]) && ST_WF1(g_st[1][1]) && ST_WF1(g_st[1][2]) \
	&& g_pos < (1UL << 62) && g_len[0] < (1UL << 62) && g_len[1] < (1UL << 62) && g_len[2] < (1UL << 62))
#define FS_FRAME g_st, g_jfin, g_fsfault, g_dirent, g_dmask, __CPROVER_errno, \
	g_in_open, g_in_tree, g_in_id, g_in_err, g_in_pos, g_in_len, g_in_byte, g_in_gen, \
	g_out_open, g_out_tree, g_out_id, g_out_err, g_out_pos, g_out_match, g_out_gen
#define FS_QUIET (!g_out_open && g_fsfault == 0)   /* no output stream open: g_st is the whole truth */

/* ---- path encoder (replaces the formatting the prelude drops) ---- */
#define C09_STREAM_PFX(p) ((p)[0] == 's' && (p)[1] == 't' && (p)[2] == 'r' && (p)[3] == 'e' && (p)[4] == 'a' && (p)[5] == 'm' && (p)[6] == '.')
static int c09_name_id(const char *p)
{
	if (C09_STREAM_PFX(p) && p[7] == 'o' && p[8] == 'b' && p[9] == 's' && p[10] == 0) return F_OBS;
	if (C09_STREAM_PFX(p) && p[7] == 'j' && p[8] == 's' && p[9] == 'o' && p[10] == 'n' && p[11] == 0) return F_JSON;
	return F_AUX;
}
static char c09_id_tag(int id) { return id == F_OBS ? 'o' : id == F_JSON ? 'j' : 'a'; }
/* fmt with one string argument (plus, possibly, integers that are dropped) */
static int c09_snp(char *s, size_t n, const char *fmt, const char *a0, const char *a1)
{
	int r = nondet_int();
	__CPROVER_assume(r >= 0);
	if ((size_t) r >= n) g_fsfault = 1;   /* "path too long" is reported by the callers like an I/O fault */
	if (s == NULL || n < 3) return r;
	s[0] = a0 != NULL ? a0[0] : 0;
	if (strcmp(fmt, "%s/%s") == 0)
		s[1] = c09_id_tag(c09_name_id(a1));
	else if (strcmp(fmt, "%s/stream.json") == 0 || strcmp(fmt, "%s/thread.%d/stream.json") == 0)
		s[1] = 'j';
	else if (strcmp(fmt, "%s/thread.%d/stream.obs") == 0)
		s[1] = 'o';
	else
		s[1] = 0;   /* "%s/thread.%d": the thread directory of the same tree */
	s[2] = 0;
	return r;
}
/* pick the string arguments: integers (tid) are dropped */
#define C09_STR(x) _Generic((x), int: (const char *) 0, default: (x))
#define C09_PICK(_1, _2, _3, _4, NAME, ...) NAME
#define c09_snp1(s, n, fmt)        c09_snp((s), (n), (fmt), (const char *) 0, (const char *) 0)
#define c09_snp2(s, n, fmt, a)     c09_snp((s), (n), (fmt), C09_STR(a), (const char *) 0)
#define c09_snp3(s, n, fmt, a, b)  c09_snp((s), (n), (fmt), C09_STR(a), C09_STR(b))
#undef snprintf
#define c09_snp4(s, n, fmt, a, b, c)  c09_snp((s), (n), (fmt), C09_STR(a), C09_STR(b))
#define snprintf(s, n, ...) C09_PICK(__VA_ARGS__, c09_snp4, c09_snp3, c09_snp2, c09_snp1)((s), (n), __VA_ARGS__)

static int c09_tree(const char *path) { return path[0] == TAG_TMP ? T_TMP : T_FIN; }
static int c09_file(const char *path)
{
	return path[1] == 'o' ? F_OBS : path[1] == 'j' ? F_JSON : path[1] == 'a' ? F_AUX : F_NONE;
}
#define PATH_WF(p) (((p)[0] == TAG_TMP || (p)[0] == TAG_FIN) && ((p)[1] == 0 || (((p)[1] == 'o' || (p)[1] == 'j' || (p)[1] == 'a') && (p)[2] == 0)))

/* ---- stdio streams ----
 * The runtime has at most one input and one output stream in use at a time; their state
 * lives in two global slots (so that loop invariants can name it).  A FILE* is a heap
 * handle carrying the generation of the slot: using a handle after fclose is a pointer
 * error, using a stale (leaked, superseded) handle fails the generation check.
 * While an output stream is open on a file, that file's state is DERIVED from the slot
 * (c09_state); fclose writes it back to g_st. */
struct c09_handle { int wr; unsigned gen; };
int g_in_open, g_in_tree, g_in_id, g_in_err;
unsigned long g_in_pos;      /* bytes read so far */
unsigned long g_in_len;      /* length of what is being read */
unsigned char g_in_byte;     /* its byte at g_pos */
unsigned g_in_gen;
int g_out_open, g_out_tree, g_out_id, g_out_err;
unsigned long g_out_pos;     /* bytes accepted by fwrite so far */
int g_out_match;             /* no wrong byte at g_pos so far */
unsigned g_out_gen;

static int c09_state(int tree, int id)
{
	if (g_out_open && g_out_tree == tree && g_out_id == id)
		return (g_out_pos == g_len[id] && g_out_match) ? S_MAYBE : S_PARTIAL;
	return g_st[tree][id];
}

FILE *fopen(const char *path, const char *mode)
{
	CRASH_POINT("fopen");
	VASSERT(PATH_WF(path) && path[1] != 0, "fopen: path names a stream file");
	int tree = c09_tree(path), id = c09_file(path);
	int wr = (mode[0] == 'w');
	if (nondet_bool() || (!wr && c09_state(tree, id) == S_ABSENT)) { g_fsfault = 1; __CPROVER_errno = nondet_int(); return NULL; }
	struct c09_handle *h = malloc(sizeof(*h));
	__CPROVER_assume(h != NULL);
	h->wr = wr;
	if (wr) {
		VASSERT(!g_out_open, "fopen(w): model has one output stream at a time");
		VASSERT(!(g_in_open && g_in_tree == tree && g_in_id == id), "fopen(w) on the file being read");
		/* created or truncated: whatever was there is gone (state derived from the slot from now on) */
		g_out_open = 1; g_out_tree = tree; g_out_id = id; g_out_pos = 0; g_out_match = 1; g_out_err = 0;
		h->gen = ++g_out_gen;
		/* the json written through stdio is a copy of the other tree's json (byte-exactness is checked) */
		if (id == F_JSON) g_jfin[tree] = g_jfin[1 - tree];
	} else {
		g_in_open = 1; g_in_tree = tree; g_in_id = id; g_in_pos = 0; g_in_err = 0;
		h->gen = ++g_in_gen;
		if (c09_state(tree, id) == S_COMPLETE) {
			g_in_len = g_len[id]; g_in_byte = g_obyte[id];
		} else {
			/* a file that is not known to hold the original: any length, any content */
			unsigned long l = nondet_size_t();
			__CPROVER_assume(l < (1UL << 62));
			g_in_len = l; g_in_byte = nondet_uchar();
		}
	}
	return (FILE *) h;
}

size_t fread(void *buf, size_t size, size_t n, FILE *f)
{
	CRASH_POINT("fread");
	struct c09_handle *h = (struct c09_handle *) f;
	VASSERT(size == 1, "fread model: element size 1");
	VASSERT(!h->wr && g_in_open && h->gen == g_in_gen, "fread on the open input stream");
	size_t k = nondet_size_t();
	unsigned long left = g_in_len - g_in_pos;
	__CPROVER_assume(k <= n && k <= left);
	if (nondet_bool()) g_in_err = 1;
	/* a zero count means end of file or error */
	__CPROVER_assume(k > 0 || left == 0 || n == 0 || g_in_err);
	if (g_in_err) g_fsfault = 1;
	if (k > 0 && g_pos >= g_in_pos && g_pos - g_in_pos < k)
		((unsigned char *) buf)[g_pos - g_in_pos] = g_in_byte;
	g_in_pos += k;
	return k;
}

size_t fwrite(const void *buf, size_t size, size_t n, FILE *f)
{
	CRASH_POINT("fwrite");
	struct c09_handle *h = (struct c09_handle *) f;
	VASSERT(size == 1, "fwrite model: element size 1");
	VASSERT(h->wr && g_out_open && h->gen == g_out_gen, "fwrite on the open output stream");
	size_t m = nondet_size_t();
	__CPROVER_assume(m <= n);
	if (m < n) { g_out_err = 1; g_fsfault = 1; }
	if (m > 0 && g_pos >= g_out_pos && g_pos - g_out_pos < m)
		g_out_match = (((const unsigned char *) buf)[g_pos - g_out_pos] == g_obyte[g_out_id]);
	g_out_pos += m;
	return m;
}

int ferror(FILE *f)
{
	struct c09_handle *h = (struct c09_handle *) f;
	VASSERT(h->wr ? (g_out_open && h->gen == g_out_gen) : (g_in_open && h->gen == g_in_gen), "ferror on an open stream");
	return h->wr ? g_out_err : g_in_err;
}

int fclose(FILE *f)
{
	CRASH_POINT("fclose");
	struct c09_handle *h = (struct c09_handle *) f;
	int wr = h->wr;
	VASSERT(wr ? (g_out_open && h->gen == g_out_gen) : (g_in_open && h->gen == g_in_gen), "fclose on an open stream");
	free(h);
	if (!wr) {
		g_in_open = 0;
		return nondet_bool() ? EOF : 0;   /* nothing is lost when closing an input stream fails */
	}
	int st = c09_state(g_out_tree, g_out_id);
	g_out_open = 0;
	if (nondet_bool()) {
		/* buffered data not guaranteed on disk */
		g_st[g_out_tree][g_out_id] = st;
		g_fsfault = 1; __CPROVER_errno = nondet_int();
		return EOF;
	}
	g_st[g_out_tree][g_out_id] = (st == S_MAYBE) ? S_COMPLETE : st;
	return 0;
}

static int c09_tree_empty(int tree)
{
	return c09_state(tree, F_OBS) == S_ABSENT && c09_state(tree, F_JSON) == S_ABSENT && c09_state(tree, F_AUX) == S_ABSENT
		&& !(tree == T_TMP && g_xkind == 2);
}

int remove(const char *path)
{
	CRASH_POINT("remove");
	VASSERT(PATH_WF(path), "remove: encoded path");
	int tree = c09_tree(path), id = c09_file(path);
	if (nondet_bool()) { g_fsfault = 1; __CPROVER_errno = nondet_int(); return -1; }
	if (id == F_NONE) {
		if (!g_dir[tree] || !c09_tree_empty(tree)) { g_fsfault = 1; return -1; }
		g_dir[tree] = 0;
		return 0;
	}
	if (c09_state(tree, id) == S_ABSENT) { g_fsfault = 1; __CPROVER_errno = ENOENT; return -1; }
	VASSERT(!(g_out_open && g_out_tree == tree && g_out_id == id), "remove of the file open for writing is not modelled");
	g_st[tree][id] = S_ABSENT;
	return 0;
}

int rmdir(const char *path)
{
	CRASH_POINT("rmdir");
	int tree = c09_tree(path);
	/* only an empty directory can be removed */
	if (nondet_bool() || path[1] != 0 || !g_dir[tree] || !c09_tree_empty(tree)) {
		__CPROVER_errno = nondet_int();
		return -1;
	}
	g_dir[tree] = 0;
	return 0;
}

int close(int fd)
{
	(void) fd;
	CRASH_POINT("close");
	g_fd_open = 0;
	/* the result is ignored by ovni_thread_free; bytes handed to write(2) survive anyway */
	return nondet_int();
}

ssize_t write(int fd, const void *buf, size_t n)
{
	CRASH_POINT("write");
	return verif_rt_write(fd, buf, n);
}

static int c09_open(const char *path, int flags, int mode)
{
	(void) mode;
	CRASH_POINT("open");
	VASSERT(PATH_WF(path) && path[1] != 0, "open: path names a stream file");
	int tree = c09_tree(path), id = c09_file(path);
	int fd = nondet_int();
	__CPROVER_assume(fd >= -1);
	if (fd == -1) { g_fsfault = 1; __CPROVER_errno = nondet_int(); return -1; }
	if ((flags & O_CREAT) && g_st[tree][id] == S_ABSENT) g_st[tree][id] = S_COMPLETE; /* empty file, original = what write(2) gets */
	g_fd_open = 1;
	return fd;
}
#define open(p, f, m) c09_open((p), (f), (m))

/* ---- directory streams ---- */
struct dirent g_dirent;
unsigned g_dmask;            /* entries of the open directory not yet returned: bit id, bit 3 = non-stream entry */
static char c09_dirobj;

DIR *opendir(const char *path)
{
	CRASH_POINT("opendir");
	VASSERT(PATH_WF(path) && path[1] == 0, "opendir: path names a thread directory");
	int tree = c09_tree(path);
	if (nondet_bool() || !g_dir[tree]) { g_fsfault = 1; __CPROVER_errno = nondet_int(); return NULL; }
	g_dmask = 0;
	if (c09_state(tree, F_OBS) != S_ABSENT) g_dmask |= 1u;
	if (c09_state(tree, F_JSON) != S_ABSENT) g_dmask |= 2u;
	if (c09_state(tree, F_AUX) != S_ABSENT) g_dmask |= 4u;
	if (tree == T_TMP && g_xkind == 2) g_dmask |= 8u;
	return (DIR *) &c09_dirobj;
}

struct dirent *readdir(DIR *d)
{
	CRASH_POINT("readdir");
	VASSERT(d == (DIR *) &c09_dirobj, "readdir on the open directory");
#ifdef C09_READDIR_MAY_FAIL
	if (nondet_bool()) { g_fsfault = 1; __CPROVER_errno = nondet_int(); return NULL; }
#endif
	if (g_dmask == 0) return NULL;
	/* any entry not yet returned, in any order */
	unsigned k = nondet_uchar() & 3u;
	__CPROVER_assume(g_dmask & (1u << k));
	g_dmask &= ~(1u << k);
	if (k == 0) strcpy(g_dirent.d_name, "stream.obs");
	else if (k == 1) strcpy(g_dirent.d_name, "stream.json");
	else memcpy(g_dirent.d_name, g_xname, sizeof(g_xname));
	return &g_dirent;
}

int closedir(DIR *d) { (void) d; CRASH_POINT("closedir"); return nondet_int(); }

/* ---- parson: serialize the thread metadata to <procdir>/thread.N/stream.json ----
 * parson does fopen("w") / fputs / fclose on the target itself (no temporary + rename),
 * so the old content is gone as soon as the file is opened. */
JSON_Status json_serialize_to_file_pretty(const JSON_Value *v, const char *path)
{
	(void) v;
	g_store_calls++;
	CRASH_POINT("json store: before open");
	VASSERT(PATH_WF(path) && c09_file(path) == F_JSON, "metadata is stored to stream.json");
	int tree = c09_tree(path);
	if (nondet_bool()) { g_store_failed = 1; g_fsfault = 1; return JSONFailure; }   /* serialization or fopen failed */
	g_st[tree][F_JSON] = S_PARTIAL;
	g_jfin[tree] = ((g_keys & K_FINISHED) && g_v_finished == 1.0);
	g_keys_at_store = g_keys;
	g_finished_at_store = g_v_finished;
	CRASH_POINT("json store: opened");
	if (nondet_bool()) { g_store_failed = 1; g_fsfault = 1; return JSONFailure; }   /* fputs failed */
	g_st[tree][F_JSON] = S_MAYBE;
	CRASH_POINT("json store: written");
	if (nondet_bool()) { g_store_failed = 1; g_fsfault = 1; return JSONFailure; }   /* fclose failed */
	g_st[tree][F_JSON] = S_COMPLETE;
	CRASH_POINT("json store: closed");
	return JSONSuccess;
}

/* ---- mkpath (src/common.c, outside the unit): abstract image of the contract proved in
 * group mkpath: returns 0 only if the directory exists afterwards ---- */
int g_mkpath_failed;
int mkpath(const char *path, mode_t mode, int is_dir)
{
	(void) mode; (void) is_dir;
	CRASH_POINT("mkpath");
	VASSERT(PATH_WF(path) && path[1] == 0, "mkpath: path names a thread directory");
	if (nondet_bool()) { g_mkpath_failed = 1; g_fsfault = 1; return -1; }
	g_dir[c09_tree(path)] = 1;
	return 0;
}

#endif
