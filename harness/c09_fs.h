/* c09_fs.h -- GHOST FILE SYSTEM for C09 (crash consistency) and C10 (I/O faults).
 * Trusted model; included BEFORE the real src/rt/ovni.c.
 *
 * Abstraction
 *  - Two directory trees: T_TMP (where the thread writes: rproc.procdir/thread.N) and
 *    T_FIN (the final trace directory: rproc.procdir_final/thread.N).  In direct mode
 *    (no OVNI_TMPDIR) procdir IS the final directory: both are tagged T_FIN.
 *  - Three regular files per tree: F_OBS (stream.obs), F_JSON (stream.json), F_AUX (one
 *    more entry "stream.<anything>"); plus at most one non-stream directory entry.
 *  - Paths: snprintf is rebound (formatting is what the prelude drops) to an ENCODER:
 *    out = { tree tag of the first %s argument, file tag, NUL, level, tid (4 bytes) }.
 *    Directory strings are "T" / "F".  So which file a call touches is decided by the real
 *    argument flow.  After the NUL the encoding carries WHOSE path it is: level 'p' for a
 *    process-level directory (procdir, procdir_final, loom dir...), level 't' for a per-thread
 *    path, and then the INTEGER that the code formatted into "thread.%d" (for "%s/%s" and
 *    "%s/stream.json": the integer of the thread directory string the path was formed from).
 *    A "thread.%d" path formed from anything but a process-level directory, or a file path
 *    formed from anything but a thread directory, gets level '!' (malformed).
 *    The ghost FS models the two directories of ONE thread, g_fs_tid: every stub that takes a
 *    per-thread path asserts PATH_MINE (level 't' and formatted integer == g_fs_tid); contracts
 *    bind g_fs_tid to the thread's own tid (rthread.tid / the tid parameter).  A path formatted
 *    with any other integer (pid, tid + 1...) names another thread's directory: assertion fails.
 *  - Each file has an ORIGINAL content (length g_len[id], observed at ONE arbitrary
 *    position g_pos: byte g_obyte[id]) and a state:
 *      S_ABSENT   no directory entry
 *      S_PARTIAL  exists, NOT known to hold the original (truncated / short / wrong byte)
 *      S_MAYBE    every byte of the original was handed to stdio, in order, byte-exact at
 *                 g_pos, but no successful fclose yet: may or may not be on disk
 *      S_COMPLETE holds the original and was closed successfully (or is the original)
 *  - Every stub may fail (nondet), fread/fwrite may be short, fclose may fail (data then
 *    NOT guaranteed on disk: state stays S_MAYBE/S_PARTIAL), readdir returns the entries
 *    in any order and may fail (NULL, errno != 0) at any call.
 *  - KILL: every stub starts with CRASH_POINT(): the process may die there; the point
 *    invariant (C09_POINT_ASSERT: INV_CRASH with -DC09_CRASH, else INV_NOLOSS) is asserted
 *    at that moment.  die() asserts it too (VERIF_DIE_HOOK).
 *    What survives a kill: the ghost state as it is (bytes handed to write(2) survive;
 *    stdio-buffered bytes are only S_MAYBE).  Each stub is atomic w.r.t. a kill, except
 *    json_serialize_to_file_pretty, which has inner crash points (open/write/close).
 * This file: ghost state, invariants, path encoder.  The stubs themselves are in
 * c09_fs_post.h, included AFTER ovni.c (the invariants read rproc / rthread). */
#ifndef C09_FS_H
#define C09_FS_H

static void c09_die_hook(void);
#define VERIF_DIE_HOOK c09_die_hook()
#include "prelude.h"

/* write(2) + symbolic capacity: the trusted model of rt_common.h, wrapped with a crash point */
#define write verif_rt_write
#include "rt_common.h"
#undef write
#ifndef C09_REAL_PARSON
#define VERIF_OWN_JSON_STORE
#include "rt_parson_stub.h"
#else
#include "parson.h"
#endif
extern int __CPROVER_errno;

enum { T_TMP = 0, T_FIN = 1 };
enum { F_OBS = 0, F_JSON = 1, F_AUX = 2, F_NONE = 3 };
enum { S_ABSENT = 0, S_PARTIAL = 1, S_MAYBE = 2, S_COMPLETE = 3 };
#define TAG_TMP 'T'
#define TAG_FIN 'F'

int g_st[2][3];              /* state of each file */
int g_jfin[2];               /* the content (being) stored in <tree>/stream.json carries ovni.finished = 1 */
unsigned long g_len[3];      /* length of the original of each file */
unsigned char g_obyte[3];    /* original[id][g_pos], meaningful iff g_pos < g_len[id] */
int g_had[3];                /* the original existed, complete, in T_TMP when the function under proof started */
int g_dir[2];                /* the thread directory of the tree exists */
unsigned g_fsfault;          /* number of FS calls that reported a failure (or a short count) so far */
unsigned long g_total;       /* direct mode: number of stream bytes the thread has produced (file + buffer) */
int g_fd_open;               /* the stream fd is open */

/* extra directory entry of T_TMP: 0 none, 1 a stream.* file (= F_AUX), 2 a non-stream entry */
int g_xkind;
char g_xname[12];
#define XNAME_PREFIX (g_xname[0] == 's' && g_xname[1] == 't' && g_xname[2] == 'r' && g_xname[3] == 'e' \
	&& g_xname[4] == 'a' && g_xname[5] == 'm' && g_xname[6] == '.')
/* kind 1 <=> the name has the prefix the runtime looks for; it is neither of the two fixed names */
#define XNAME_IS_OBS (XNAME_PREFIX && g_xname[7] == 'o' && g_xname[8] == 'b' && g_xname[9] == 's' && g_xname[10] == 0)
#define XNAME_IS_JSON (XNAME_PREFIX && g_xname[7] == 'j' && g_xname[8] == 's' && g_xname[9] == 'o' && g_xname[10] == 'n')
#define XNAME_WF (g_xname[11] == 0 && g_xname[0] != 0 && !XNAME_IS_OBS && !XNAME_IS_JSON)

/* ---- the invariants asserted at every crash point / die ---- */
/* C09: a finished-looking stream.json in the final directory implies complete events there */
/* All of these are plain expressions (no calls: they are used in contract clauses).
 * While an output stream is open on a file, that file's state is derived from the stream slot. */
#define C09_STATE(tree, id) ((g_out_open && g_out_tree == (tree) && g_out_id == (id)) \
	? ((g_out_pos == g_len[id] && g_out_match) ? S_MAYBE : S_PARTIAL) : g_st[tree][id])
/* final/stream.obs holds every flushed byte.  tmpdir mode: it is a complete copy.  Direct mode:
 * every byte the thread produced has been handed to write(2) and none is pending in the buffer.
 * (rproc / rthread: the real globals of ovni.c, included after this header) */
/* C09_MOVE_TO_FINAL / C09_EVLEN: the two runtime variables the invariant reads (harness/c09_parson.c,
 * which has no ovni.c in its TU, binds them to ghosts) */
#ifndef C09_MOVE_TO_FINAL
#define C09_MOVE_TO_FINAL rproc.move_to_final
#define C09_EVLEN rthread.evlen
#endif
#define OBS_FINAL_OK (C09_MOVE_TO_FINAL ? C09_STATE(T_FIN, F_OBS) == S_COMPLETE \
	: (g_file_len == g_total && C09_EVLEN == 0))
#define INV_CRASH (!(C09_STATE(T_FIN, F_JSON) >= S_MAYBE && g_jfin[T_FIN]) || OBS_FINAL_OK)
/* C10: never delete / truncate the only complete copy */
#define NOLOSS(id) (!g_had[id] || C09_STATE(T_TMP, id) == S_COMPLETE || C09_STATE(T_FIN, id) == S_COMPLETE)
#define INV_NOLOSS (NOLOSS(F_OBS) && NOLOSS(F_JSON) && NOLOSS(F_AUX))

#ifdef C09_CRASH
#define C09_POINT_ASSERT(what) VASSERT(INV_CRASH, "C09 crash invariant at " what)
#else
#define C09_POINT_ASSERT(what) VASSERT(INV_NOLOSS, "C10 no-loss invariant at " what)
#endif
#define CRASH_POINT(what) if (nondet_bool()) { C09_POINT_ASSERT(what); __CPROVER_assume(0); }
/* c09_die_hook is defined in c09_fs_post.h (after ovni.c) */

#define ST_WF1(s) ((s) >= S_ABSENT && (s) <= S_COMPLETE)
#define FS_WF (ST_WF1(g_st[0][0]) && ST_WF1(g_st[0][1]) && ST_WF1(g_st[0][2]) \
	&& ST_WF1(g_st[1][0]) && ST_WF1(g_st[1][1]) && ST_WF1(g_st[1][2]) \
	&& g_pos < (1UL << 62) && g_len[0] < (1UL << 62) && g_len[1] < (1UL << 62) && g_len[2] < (1UL << 62))
#define FS_FRAME_FILES g_st, g_jfin, g_fsfault, __CPROVER_errno, \
	g_in_open, g_in_tree, g_in_id, g_in_err, g_in_pos, g_in_len, g_in_byte, g_in_gen, \
	g_out_open, g_out_tree, g_out_id, g_out_err, g_out_pos, g_out_match, g_out_gen
#define FS_FRAME g_st, g_jfin, g_fsfault, g_dirent, g_dmask, g_rmdir_errno, g_rmdir_tree, __CPROVER_errno, \
	g_in_open, g_in_tree, g_in_id, g_in_err, g_in_pos, g_in_len, g_in_byte, g_in_gen, \
	g_out_open, g_out_tree, g_out_id, g_out_err, g_out_pos, g_out_match, g_out_gen
/* no output stream open: g_st is the whole truth; counters cannot wrap (tiered: a caller's bound implies its callees') */
#define FS_QUIET_N(n) (!g_out_open && g_fsfault < (n) && g_diag < (n) && g_err < (n) && g_warn < (n))

/* ---- path encoder (replaces the formatting the prelude drops) ---- */
#define C09_STREAM_PFX(p) ((p)[0] == 's' && (p)[1] == 't' && (p)[2] == 'r' && (p)[3] == 'e' && (p)[4] == 'a' && (p)[5] == 'm' && (p)[6] == '.')
static int c09_name_id(const char *p)
{
	if (C09_STREAM_PFX(p) && p[7] == 'o' && p[8] == 'b' && p[9] == 's' && p[10] == 0) return F_OBS;
	if (C09_STREAM_PFX(p) && p[7] == 'j' && p[8] == 's' && p[9] == 'o' && p[10] == 'n' && p[11] == 0) return F_JSON;
	return F_AUX;
}
static char c09_id_tag(int id) { return id == F_OBS ? 'o' : id == F_JSON ? 'j' : 'a'; }
/* ---- whose path: level byte and formatted thread id, after the NUL ---- */
#define PATH_BYTES 8
int g_fs_tid;                /* the thread whose directories (tmp/thread.N, final/thread.N) the ghost FS models */
int g_fmt_tid;               /* the integer most recently formatted into a "...thread.%d..." path */
unsigned g_fmt_n;            /* number of "...thread.%d..." paths formatted so far */
#define PATH_TID(p) (*(const int *) ((p) + 4))
#define PATH_THR(p) ((p)[3] == 't')
#define PATH_PROC(p) ((p)[3] == 'p')
#define PATH_MINE(p) (PATH_THR(p) && PATH_TID(p) == g_fs_tid)
/* the string arguments (a0, a1) and the first integer argument after a0 (i1) */
static int c09_snp(char *s, size_t n, const char *fmt, const char *a0, const char *a1, int i1)
{
	int r = nondet_int();
	__CPROVER_assume(r >= 0);
	if ((size_t) r >= n) g_fsfault++;   /* "path too long" is reported by the callers like an I/O fault */
	if (s == NULL || n < PATH_BYTES) return r;
	int fmt_thread = 0;   /* the format has "thread.%d": a0 must be a process-level directory */
	int fmt_entry = 0;    /* the format appends a file name to a0, which must be a thread directory */
	s[0] = a0 != NULL ? a0[0] : 0;
	if (strcmp(fmt, "%s/%s") == 0) {
		s[1] = c09_id_tag(c09_name_id(a1)); fmt_entry = 1;
	} else if (strcmp(fmt, "%s/stream.json") == 0) {
		s[1] = 'j'; fmt_entry = 1;
	} else if (strcmp(fmt, "%s/thread.%d/stream.json") == 0) {
		s[1] = 'j'; fmt_thread = 1;
	} else if (strcmp(fmt, "%s/thread.%d/stream.obs") == 0) {
		s[1] = 'o'; fmt_thread = 1;
	} else if (strcmp(fmt, "%s/thread.%d") == 0) {
		s[1] = 0; fmt_thread = 1;   /* the thread directory of the same tree */
	} else {
		s[1] = 0;                   /* any other format: a process-level directory (or a metadata key) */
	}
	s[2] = 0;
	if (fmt_thread) {
		s[3] = (a0 != NULL && PATH_PROC(a0)) ? 't' : '!';
		*(int *) (s + 4) = i1;
		g_fmt_tid = i1;
		g_fmt_n++;
	} else if (fmt_entry) {
		s[3] = (a0 != NULL && PATH_THR(a0)) ? 't' : '!';
		*(int *) (s + 4) = a0 != NULL ? PATH_TID(a0) : 0;
	} else {
		s[3] = 'p';
		*(int *) (s + 4) = 0;
	}
	return r;
}
/* pick the string arguments and the integer (tid / pid) arguments */
#define C09_STR(x) _Generic((x), int: (const char *) 0, default: (x))
#define C09_INT(x) _Generic((x), int: (x), default: 0)
#define C09_PICK(_1, _2, _3, _4, NAME, ...) NAME
#define c09_snp1(s, n, fmt)        c09_snp((s), (n), (fmt), (const char *) 0, (const char *) 0, 0)
#define c09_snp2(s, n, fmt, a)     c09_snp((s), (n), (fmt), C09_STR(a), (const char *) 0, 0)
#define c09_snp3(s, n, fmt, a, b)  c09_snp((s), (n), (fmt), C09_STR(a), C09_STR(b), C09_INT(b))
#undef snprintf
#define c09_snp4(s, n, fmt, a, b, c)  c09_snp((s), (n), (fmt), C09_STR(a), C09_STR(b), C09_INT(b))
#define snprintf(s, n, ...) C09_PICK(__VA_ARGS__, c09_snp4, c09_snp3, c09_snp2, c09_snp1)((s), (n), __VA_ARGS__)

static int c09_tree(const char *path) { return path[0] == TAG_TMP ? T_TMP : T_FIN; }
static int c09_file(const char *path)
{
	return path[1] == 'o' ? F_OBS : path[1] == 'j' ? F_JSON : path[1] == 'a' ? F_AUX : F_NONE;
}
#define PATH_WF(p) (((p)[0] == TAG_TMP || (p)[0] == TAG_FIN) && ((p)[1] == 0 || (((p)[1] == 'o' || (p)[1] == 'j' || (p)[1] == 'a') && (p)[2] == 0)))

static int c09_open(const char *path, int flags, int mode);
#define open(p, f, m) c09_open((p), (f), (m))

#endif
