/* C13 -- Paraver .row writer: contracts on the real src/emu/pv/prf.c
 *
 * Observable output = the fprintf calls of prf_close (c13_io.h): three fixed lines,
 * "LEVEL THREAD SIZE %ld" with the row count, then one "%s\n" line per row with the row label
 * (the label pointer is kept: the k-th label line must print rows[k].label). */
#include "prelude.h"
#include "c13_io.h"

unsigned g_seq;                 /* I/O operations so far */
long g_row_n;                   /* "%s\n" label lines written */
long g_k;                       /* observed row: arbitrary index */
long g_k_label; FILE *g_k_f;    /* argument and FILE of label line number g_k */
unsigned g_lvl_n; long g_lvl_val; unsigned g_lvl_seq; FILE *g_lvl_f;   /* "LEVEL THREAD SIZE n" */
unsigned g_fix_n;               /* the other (argument-less) lines */
unsigned g_first_row_seq;       /* sequence number of the first label line */
#define OUT_FRAME g_seq, g_row_n, g_k_label, g_k_f, g_lvl_n, g_lvl_val, g_lvl_seq, g_lvl_f, g_fix_n, g_first_row_seq

static int
c13_print(int nargs, FILE *f, const char *fmt, long a, long b, long c, long d)
{
	(void) b; (void) c; (void) d;
	g_seq++;
	if (nargs == 3 && fmt[0] == '%' && fmt[1] == 's') {
		if (g_row_n == 0) g_first_row_seq = g_seq;
		if (g_row_n == g_k) { g_k_label = a; g_k_f = f; }
		g_row_n++;
	} else if (nargs == 3 && fmt[0] == 'L') {
		g_lvl_n++; g_lvl_val = a; g_lvl_seq = g_seq; g_lvl_f = f;
	} else {
		g_fix_n++;
	}
	return nondet_int();
}

unsigned g_close_n, g_close_seq; FILE *g_close_f;
unsigned g_open_n; FILE *g_open_ret; char g_open_mode;
static char g_file_obj;
int fclose(FILE *f)
{
	g_seq++; g_close_n++; g_close_seq = g_seq; g_close_f = f;
	return nondet_int();
}
FILE *fopen(const char *path, const char *mode)
{
	(void) path;
	g_open_n++; g_open_mode = mode[0];
	if (nondet_bool()) { g_lowfail++; g_open_ret = NULL; return NULL; }
	g_open_ret = (FILE *) &g_file_obj;
	return g_open_ret;
}

/* snprintf for this unit: any length; the destination buffer and its size are RECORDED and checked
 * in the contract of prf_add (label of the target row, MAX_PRF_LABEL) -- libc then guarantees the
 * write stays inside [buf, buf+size), i.e. inside the frame of prf_add.  Only buf[0] is actually
 * written here (any char): the prelude model (NUL at an arbitrary cell) makes the row table
 * (stride 516, symbolic index, symbolic size) intractable: 30 s .. > 240 s depending on solver luck.
 * No clause of C13 depends on label contents. */
char *g_snp_buf; size_t g_snp_size;
static inline int prf_snprintf(char *s, size_t n)
{
	int r = nondet_int();
	__CPROVER_assume(r >= 0);
	g_snp_ret = r; g_snp_n++; g_snp_buf = s; g_snp_size = n;
	if (n > 0 && (size_t) r >= n) g_lowfail++;
	if (n > 0 && s != NULL) s[0] = nondet_char();
	return r;
}
#undef snprintf
#define snprintf(s, n, ...) prf_snprintf((s), (n))

#include "pv/prf.c"        /* the real /repo/src/emu/pv/prf.c */

#define ROWSZ sizeof(struct prf_row)
#ifndef MAXROWS
#define MAXROWS INT_MAX       /* the row count is printed by prv.c as int */
#endif
/* FIXEDROWS: the table object has the concrete size MAXROWS (bounded groups), else exactly nrows rows */
#ifdef FIXEDROWS
#define ROWS_BYTES(n) ((size_t) MAXROWS * ROWSZ)
#else
#define ROWS_BYTES(n) ((size_t) (n) * ROWSZ)
#endif
#ifdef EXACTROWS
#define NROWS_OK(prf) ((prf)->nrows == MAXROWS)
#else
#define NROWS_OK(prf) ((prf)->nrows >= 0 && (prf)->nrows <= MAXROWS)
#endif
#define PRF_OBJ(prf) (__CPROVER_is_fresh(prf, sizeof(struct prf)) && NROWS_OK(prf) && \
	__CPROVER_is_fresh((prf)->rows, ROWS_BYTES((prf)->nrows)))
#define INR(prf, x) ((x) >= 0 && (x) < (prf)->nrows)
/* g_k observes one arbitrary row (any row when the table is not empty) */
#define OBS_K(prf) ((prf)->nrows == 0 || INR(prf, g_k))

/* =====================================================================================
 * prf_add: row inside the declared count, not named yet, label fits
 * ===================================================================================== */
WITNESS(prf_add);
long w_index, w_nrows; int w_set;
int g_pre_set;       /* rows[index].set before the call (0 when out of range) */
int c_prf_add(struct prf *prf, long index, const char *label)
__CPROVER_requires(PRF_OBJ(prf) && DIAG_PRE && LOW_PRE && g_snp_n < 1000000u)
__CPROVER_requires((INR(prf, index) && g_pre_set == prf->rows[index].set) || (!INR(prf, index) && g_pre_set == 0))
__CPROVER_requires(WBIND(prf_add, w_index == index && w_nrows == prf->nrows && w_set == g_pre_set))
__CPROVER_assigns(DIAG_FRAME, g_lowfail, g_snp_ret, g_snp_n, g_snp_buf, g_snp_size)
/* frame = "no overwrite": the only row that may change is the target, and only while it has no
 * name yet; rows outside [0,nrows), other rows and already named rows are not assignable at all
 * (observing one byte of another row instead is intractable: stride 516 is not a power of two) */
__CPROVER_assigns(INR(prf, index) && prf->rows[index].set == 0: prf->rows[index].set,
	__CPROVER_object_upto(prf->rows[index].label, MAX_PRF_LABEL))
/* accepted exactly when the row exists, is not named yet and the label fits */
__CPROVER_ensures((RV == 0) == (INR(prf, index) && g_pre_set == 0 && g_lowfail == OLD(g_lowfail)))
__CPROVER_ensures(RV == 0 || (RV == -1 && g_err > OLD(g_err)))
__CPROVER_ensures(RV != 0 || (prf->rows[index].set == 1 && g_snp_ret < MAX_PRF_LABEL))
/* the name is formatted exactly once, into the label of the target row, bounded by its size */
__CPROVER_ensures(RV != 0 || (g_snp_n == OLD(g_snp_n) + 1 && g_snp_buf == prf->rows[index].label && g_snp_size == MAX_PRF_LABEL))
/* a row that is out of range or already named is refused before anything is formatted */
__CPROVER_ensures((INR(prf, index) && g_pre_set == 0) || g_snp_n == OLD(g_snp_n))
/* a refused call does not mark the row as named */
__CPROVER_ensures(RV == 0 || !INR(prf, index) || prf->rows[index].set == g_pre_set)
;
void h_prf_add(void)
{
	struct prf *prf; long index; const char *label;
	WITNESS_ON(prf_add);
	int r = prf_add(prf, index, label);
	if (r == 0) REACH("row named");
	if (r == 0 && w_index == w_nrows - 1 && w_index > 0) REACH("last row named");
	if (r != 0 && w_index < 0) REACH("negative index refused");
	if (r != 0 && w_index >= w_nrows) REACH("index beyond the declared rows refused");
	if (r != 0 && w_index >= 0 && w_index < w_nrows && w_set) REACH("second name for the same row refused");
	if (r != 0 && w_index >= 0 && w_index < w_nrows && !w_set) REACH("label too long refused");
}

/* =====================================================================================
 * prf_close (unbounded, loop contracts in loops/c13_prf.json):
 *   success => every row is named, the file holds exactly nrows label lines, line k is row k
 * ===================================================================================== */
#define OUT_ZERO (g_seq == 0 && g_row_n == 0 && g_lvl_n == 0 && g_fix_n == 0 && g_close_n == 0)
WITNESS(prf_close);
int c_prf_close(struct prf *prf)
__CPROVER_requires(PRF_OBJ(prf) && OBS_K(prf) && DIAG_PRE && OUT_ZERO)
__CPROVER_requires(WBIND(prf_close, w_nrows == prf->nrows))
__CPROVER_assigns(DIAG_FRAME, OUT_FRAME, g_close_n, g_close_seq, g_close_f)
__CPROVER_ensures(RV == 0 || (RV == -1 && g_err > OLD(g_err)))
/* accepted => the observed (arbitrary) row is named, hence all of them */
__CPROVER_ensures(RV != 0 || prf->nrows == 0 || prf->rows[g_k].set != 0)
/* accepted => header says nrows, exactly nrows label lines follow it, then the file is closed */
__CPROVER_ensures(RV != 0 || (g_lvl_n == 1 && g_lvl_val == prf->nrows && g_lvl_f == prf->f && g_fix_n == 3 &&
	g_row_n == prf->nrows && g_close_n == 1 && g_close_f == prf->f && g_close_seq == g_seq &&
	(prf->nrows == 0 || g_lvl_seq < g_first_row_seq)))
/* accepted => label line number k prints the name of row k, for the observed k */
__CPROVER_ensures(RV != 0 || prf->nrows == 0 || (g_k_label == (long) prf->rows[g_k].label && g_k_f == prf->f))
/* refused => nothing was written */
__CPROVER_ensures(RV == 0 || (g_seq == 0 && g_row_n == 0 && g_lvl_n == 0 && g_fix_n == 0 && g_close_n == 0))
;
void h_prf_close(void)
{
	struct prf *prf;
	WITNESS_ON(prf_close);
	int r = prf_close(prf);
	if (r == 0 && w_nrows == 0) REACH("close of an empty table");
	if (r == 0 && w_nrows == 1) REACH("close with one row");
	if (r == 0 && w_nrows > 1000) REACH("close with many rows");
	if (r != 0) REACH("close refused: a row has no name");
}

/* prf_close, exact both directions for nrows <= 4 (bounded: "all rows named" needs a quantifier) */
#define SETK(prf, k) ((prf)->nrows <= (k) || (prf)->rows[k].set != 0)
#define ALLSET4(prf) (SETK(prf, 0) && SETK(prf, 1) && SETK(prf, 2) && SETK(prf, 3))
int g_allset;
int c4_prf_close(struct prf *prf)
__CPROVER_requires(PRF_OBJ(prf) && prf->nrows <= 4 && OBS_K(prf) && DIAG_PRE && OUT_ZERO)
__CPROVER_requires(g_allset == ALLSET4(prf))
__CPROVER_requires(WBIND(prf_close, w_nrows == prf->nrows))
__CPROVER_assigns(DIAG_FRAME, OUT_FRAME, g_close_n, g_close_seq, g_close_f)
__CPROVER_ensures((RV == 0) == (g_allset != 0))
__CPROVER_ensures(RV != 0 || (g_row_n == prf->nrows && g_lvl_val == prf->nrows && g_close_n == 1))
__CPROVER_ensures(RV == 0 || (g_seq == 0 && g_err > OLD(g_err)))
;
void h_prf_close4(void)
{
	struct prf *prf;
	WITNESS_ON(prf_close);
	int r = prf_close(prf);
	if (r == 0 && w_nrows == 4) REACH("close with four named rows");
	if (r == 0 && w_nrows == 0) REACH("close of an empty table");
	if (r != 0 && w_nrows == 4) REACH("close refused with four rows");
	if (r != 0 && w_nrows == 1) REACH("close refused with one row");
}

/* =====================================================================================
 * prf_open: the declared row count is recorded, no row is named
 * ===================================================================================== */
int c_prf_open(struct prf *prf, const char *path, long nrows)
__CPROVER_requires(__CPROVER_is_fresh(prf, sizeof(struct prf)) && nrows >= 0 && nrows <= MAXROWS && DIAG_PRE && LOW_PRE)
__CPROVER_requires(nrows == 0 || (g_k >= 0 && g_k < nrows))
__CPROVER_requires(w_nrows == nrows)      /* witness for the native replay driver */
__CPROVER_assigns(*prf, DIAG_FRAME, g_lowfail, g_open_n, g_open_ret, g_open_mode)
__CPROVER_ensures((RV == 0) == (g_lowfail == OLD(g_lowfail)))
__CPROVER_ensures(RV == 0 || (RV == -1 && g_err > OLD(g_err)))
__CPROVER_ensures(g_open_n == OLD(g_open_n) + 1 && g_open_mode == 'w')
__CPROVER_ensures(RV != 0 || (prf->nrows == nrows && prf->f == g_open_ret && g_open_ret != NULL))
/* a fresh table of exactly nrows rows, none of them named (observed at the arbitrary row g_k) */
__CPROVER_ensures(RV != 0 || __CPROVER_is_fresh(prf->rows, (size_t) nrows * ROWSZ))
__CPROVER_ensures(RV != 0 || nrows == 0 || prf->rows[g_k].set == 0)
;
void h_prf_open(void)
{
	struct prf *prf; const char *path; long nrows;
	int r = prf_open(prf, path, nrows);
	if (r == 0) REACH("open accepted");
	if (r != 0) REACH("open refused: fopen or calloc failed");
}
