/* C20 -- sort_cb_input of the real src/emu/sort.c, UNBOUNDED row count (1 <= n <= 2^20, symbolic-size values[]):
 * the "no change" half of "updates only the rows needed".
 *
 *   If the value the input channel now shows (0 when it is not an int64) equals values[index], sort_cb_input
 *   returns 0 and writes NOTHING: the contract's frame is empty, so values[], sorted[], copied, every output
 *   channel and every ghost of the stubs are untouched; sort_replace, chan_set and qsort are not called
 *   (sort_replace is replaced by a contract with requires(false): the call site is proved unreachable; a call of
 *   the chan_set / qsort stubs would write their call counters, which the empty frame forbids).
 *
 * The other half (a changed value: rows rewritten exactly where the shown value differs) stays BOUNDED
 * (sort_cb_input_n1..n6): under a loop contract the row index is havocked, and the real chan_read(&outputs[i])
 * (static inline, part of the unit) is memory-safe only if row i is a well-formed channel -- "every row not yet
 * visited is still a well-formed single channel" is a universally quantified fact about the object the loop
 * writes, needed as an ASSUMPTION at the havocked index (same obstacle as for sort_replace; and a symbolic-size
 * array of struct chan crashes CBMC 6.11, DESIGN 4/C20). */
#include "prelude.h"
#include "value.h"
_Static_assert(sizeof(struct value) == 16, "struct value has no padding");
#undef value_is_equal
#define value_is_equal(a, b) ((a)->type == (b)->type && (a)->i == (b)->i)
#include "chan.h"

unsigned g_set_n, g_qsort_calls;
int
chan_set(struct chan *chan, struct value value)
{
	(void) value;
	g_set_n++;
	if (nondet_bool()) return -1;
	chan->is_dirty = 1;
	return 0;
}
void
qsort(void *base, size_t nmemb, size_t size, int (*compar)(const void *, const void *))
{
	(void) base; (void) nmemb; (void) size; (void) compar;
	g_qsort_calls++;
}

#include "sort.c"          /* the real /repo/src/emu/sort.c */

#define SCS_NMAX (1L << 20)
#define INP ((struct sort_input *) ptr)
#define SRT (INP->sort)
static inline int64_t spec_t(struct chan *c) { struct value v = c->data.value; return v.type; }
static inline int64_t spec_i(struct chan *c) { struct value v = c->data.value; return v.i; }
static inline int64_t stack_top_t(struct chan *c) { struct value v = c->data.stack.values[c->data.stack.n - 1]; return v.type; }
static inline int64_t stack_top_i(struct chan *c) { struct value v = c->data.stack.values[c->data.stack.n - 1]; return v.i; }
static inline int64_t spec_cur_t(struct chan *c)
{
	if (c->type == CHAN_SINGLE) return spec_t(c);
	if (c->data.stack.n > 0) return stack_top_t(c);
	return VALUE_NULL;
}
static inline int64_t spec_cur_i(struct chan *c)
{
	if (c->type == CHAN_SINGLE) return spec_i(c);
	if (c->data.stack.n > 0) return stack_top_i(c);
	return 0;
}
#define CHAN_WF(c) ((c)->type == CHAN_SINGLE || ((c)->type == CHAN_STACK && (c)->data.stack.n >= 0 && (c)->data.stack.n <= MAX_CHAN_STACK))

/* sort_replace must not be reached on this path */
void cr_sort_replace_unreachable(int64_t *arr, int64_t n, int64_t old, int64_t new)
__CPROVER_requires(0)
__CPROVER_assigns()
;

int64_t g_new;
long w_n, w_index; int w_copied, w_is_int; int64_t w_new;
WITNESS(sort_cb_input);

int c_sort_cb_input_same(struct chan *in_chan, void *ptr)
__CPROVER_requires(__CPROVER_is_fresh(in_chan, sizeof(struct chan)) && CHAN_WF(in_chan))
__CPROVER_requires(__CPROVER_is_fresh(ptr, sizeof(struct sort_input)))
__CPROVER_requires(__CPROVER_is_fresh(INP->sort, sizeof(struct sort)) && 1 <= SRT->n && SRT->n <= SCS_NMAX)
__CPROVER_requires(__CPROVER_is_fresh(SRT->values, SRT->n * sizeof(int64_t)))
__CPROVER_requires(0 <= INP->index && INP->index < SRT->n)
/* the input shows what values[index] already holds */
__CPROVER_requires(g_new == ((spec_cur_t(in_chan) == VALUE_INT64) ? spec_cur_i(in_chan) : 0) && g_new == SRT->values[INP->index])
__CPROVER_requires(WBIND(sort_cb_input, w_n == SRT->n && w_index == INP->index && w_copied == SRT->copied && w_new == g_new &&
	w_is_int == (spec_cur_t(in_chan) == VALUE_INT64)))
/* sorted[] and outputs[] are arbitrary (even invalid) pointers: they must not be touched */
__CPROVER_assigns()
__CPROVER_ensures(__CPROVER_return_value == 0)
;

void h_sort_cb_input_same(void)
{
	struct chan *in_chan; void *ptr;
	WITNESS_ON(sort_cb_input);
	int r = sort_cb_input(in_chan, ptr);
	if (r == 0) REACH("unchanged value: returns 0");
	if (r == 0 && w_n == SCS_NMAX && w_index == SCS_NMAX - 1) REACH("2^20 rows, last input");
	if (r == 0 && !w_is_int && w_new == 0) REACH("input shows a non-int64 value, row holds 0");
	if (r == 0 && w_is_int && w_new != 0 && !w_copied) REACH("int64 value, no sorted copy yet");
}
