/* C01/C10 -- write_evbuf, flush_evbuf, write_stream_header on the real ovni.c */
#include "rt_common.h"
#include "ovni.c"

unsigned char g_src;     /* pre-state: byte of the source buffer that lands at g_pos */
unsigned long w_size, w_len0;
WITNESS(write_evbuf);
WITNESS(flush_evbuf);

/* write_evbuf: every byte of buf[0..size) is appended to the file, in order, for
 * every short-write pattern; returns only if no write failed (else die). */
void c_write_evbuf(uint8_t *buf, size_t size)
__CPROVER_requires(CAP_OK && FILE_PRE && size <= g_cap)
__CPROVER_requires(__CPROVER_is_fresh(buf, size))
__CPROVER_requires(WBIND(write_evbuf, w_size == size && w_len0 == g_file_len))
__CPROVER_assigns(g_file_len, g_byte, g_died)
__CPROVER_ensures(g_file_len == __CPROVER_old(g_file_len) + size)
/* buf is outside the frame, so its post-state content is its pre-state content */
__CPROVER_ensures(!(g_pos >= __CPROVER_old(g_file_len) && g_pos < g_file_len) || g_byte == buf[g_pos - __CPROVER_old(g_file_len)])
__CPROVER_ensures((g_pos >= __CPROVER_old(g_file_len) && g_pos < g_file_len) || g_byte == __CPROVER_old(g_byte))
;

void h_write_evbuf(void)
{
	uint8_t *buf; size_t size;
	WITNESS_ON(write_evbuf);
	write_evbuf(buf, size);
	REACH("write_evbuf returns");
	if (w_size == 0) REACH("write_evbuf of zero bytes returns");
	if (g_pos >= w_len0 && g_pos < g_file_len) REACH("observer inside the written range");
	if (g_pos < w_len0) REACH("observer before the written range");
}

/* flush_evbuf: the whole buffer goes to the file, the buffer becomes empty */
unsigned long w_evlen;
void c_flush_evbuf(void)
__CPROVER_requires(CAP_OK && FILE_PRE && rthread.evlen <= g_cap)
__CPROVER_requires(__CPROVER_is_fresh(rthread.evbuf, g_cap))
__CPROVER_requires(WBIND(flush_evbuf, w_evlen == rthread.evlen && w_len0 == g_file_len))
__CPROVER_assigns(g_file_len, g_byte, g_died, rthread.evlen)
__CPROVER_ensures(g_file_len == __CPROVER_old(g_file_len) + __CPROVER_old(rthread.evlen) && rthread.evlen == 0)
__CPROVER_ensures(!(g_pos >= __CPROVER_old(g_file_len) && g_pos < g_file_len) || g_byte == rthread.evbuf[g_pos - __CPROVER_old(g_file_len)])
__CPROVER_ensures((g_pos >= __CPROVER_old(g_file_len) && g_pos < g_file_len) || g_byte == __CPROVER_old(g_byte))
;

void h_flush_evbuf(void)
{
	WITNESS_ON(flush_evbuf); WITNESS_OFF(write_evbuf);
	flush_evbuf();
	REACH("flush_evbuf returns");
	if (w_evlen > 0 && g_pos >= w_len0 && g_pos < g_file_len) REACH("observer inside the flushed range");
}
