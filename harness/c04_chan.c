/* C04 -- chan_set: the contract used by the thread.c groups, enforced on the real chan.c */
#include "prelude.h"
#include "c04_spec.h"
#include "chan.c"          /* the real /repo/src/emu/chan.c */

char value_buffers[VALUE_NBUF][VALUE_BUFSIZE];   /* defined in value.c (not part of the unit) */
size_t value_nextbuf;

void h_chan_set(void)
{
	struct chan *chan;
	struct value value;
	int (*cb)(struct chan *, void *) = stub_dirty_cb;   /* candidate target for --remove-function-pointers */
	(void) cb;
	WITNESS_ON(chan_set);
	unsigned calls0 = g_cb_calls;
	int r = chan_set(chan, value);
	if (r == 0) REACH("chan_set accepted");
	if (r != 0) REACH("chan_set refused");
	if (r == 0 && g_cb_calls != calls0) REACH("chan_set accepted after calling the dirty callback");
	if (r != 0 && g_cb_calls != calls0) REACH("chan_set refused by the dirty callback");
	if (r == 0 && g_cb_calls == calls0) REACH("chan_set accepted without callback");
}
