/* C18 -- decoding a listed event (ovnidump): model.c model_event_print -> check_payload ->
 * ev_spec.c ev_spec_print -> format_region -> print_arg, for ONE definition at a time.
 *
 * The definition is produced INSIDE the harness by the real ev_spec_compile from the REAL
 * declaration: the entry of the real model_evlist[] of ovni/setup.c ("OAr(i32 cpu, i32 tid)")
 * or nosv/setup.c ("VYc+(u32 typeid, str label)"), found by its code;
 * the event's payload is an object of EXACTLY payload_size bytes with arbitrary contents, so
 * any read outside the event's payload is a pointer-check failure.
 *
 * Proved per definition:
 *   - refused (-1) when the payload is shorter than the declared arguments, or a declared
 *     string is not terminated inside the payload; nothing is read from the payload then;
 *   - accepted => every payload read is exactly (offset, size) of the argument named in the
 *     description, in description order (ghost read log);
 *   - no read/write outside payload / output buffer (CBMC pointer checks).
 * NOT decided: the text produced for a numeric argument (libc formatting; the model returns an
 * arbitrary length).  "%s" is modelled faithfully (copy, C99 7.19.6.5).
 *
 * Trusted stubs: strtok_r (POSIX hand model), snprintf (see above), memchr (C99 7.21.5.1),
 * isgraph/isalnum (C locale), model_evspec_find (uthash lookup: returns the definition
 * registered for the code, or NULL).
 */
#include "prelude.h"
#include "emu_ev.h"

#if !defined(C18_SHAPE_OAR) && !defined(C18_SHAPE_VYC)
#define C18_SHAPE_OAR 1
#endif
#if defined(C18_SHAPE_OAR)
#define C18_MCV "OAr"      /* looked up in the real ovni/setup.c model_evlist[] */
#else
#define C18_MCV "VYc"      /* looked up in the real nosv/setup.c model_evlist[] */
#endif
#define C18_MAXSTR 64      /* concrete strings of this harness (signature, description, formats) */
#ifndef C18_MAXPAY
#define C18_MAXPAY 24      /* jumbo shape: payload bytes (bounded) */
#endif

/* ---- ghost: the payload object and the log of reads from it ---- */
const uint8_t *g_payload; unsigned long g_psize;
#define RDN 4
struct c18_rdlog { unsigned n; unsigned long off[RDN], size[RDN]; } g_rd;
static void c18_log_read(const void *p, unsigned long n)
{
	if (g_payload != NULL && __CPROVER_same_object(p, g_payload)) {
		if (g_rd.n < RDN) {
			g_rd.off[g_rd.n] = (unsigned long) ((const uint8_t *) p - g_payload);
			g_rd.size[g_rd.n] = n;
		}
		g_rd.n++;
	}
}

/* ---- libc models ---- */
#undef isgraph
#define isgraph(c) ((c) > 0x20 && (c) < 0x7f)
#undef isalnum
#define isalnum(c) (((c) >= '0' && (c) <= '9') || ((c) >= 'a' && (c) <= 'z') || ((c) >= 'A' && (c) <= 'Z'))

static int c18_is_delim(char c, const char *delim)
{
	return c != '\0' && (c == delim[0] || (delim[0] != '\0' && c == delim[1]));
}
char *strtok_r(char *s, const char *delim, char **save)
{
	__CPROVER_assert(delim[0] != '\0' && (delim[1] == '\0' || delim[2] == '\0'), "strtok_r model: one or two delimiters");
	if (s == NULL)
		s = *save;
	for (int k = 0; k < C18_MAXSTR; k++) {
		if (!c18_is_delim(*s, delim))
			break;
		s++;
	}
	if (*s == '\0') {
		*save = s;
		return NULL;
	}
	char *tok = s;
	for (int k = 0; k < C18_MAXSTR; k++) {
		if (*s == '\0' || c18_is_delim(*s, delim))
			break;
		s++;
	}
	if (*s == '\0') {
		*save = s;
		return tok;
	}
	*s = '\0';
	*save = s + 1;
	return tok;
}

void *memchr(const void *s, int c, size_t n)
{
	const unsigned char *p = s;
	for (size_t i = 0; i < C18_MAXPAY; i++) {
		if (i >= n)
			return NULL;
		if (p[i] == (unsigned char) c)
			return (void *) (p + i);
	}
	__CPROVER_assert(n <= C18_MAXPAY, "memchr model: within the bound");
	return NULL;
}

static void *c18_memcpy(void *d, const void *s, size_t n)
{
	c18_log_read(s, n);
	return (memcpy)(d, s, n);
}

/* snprintf(s, n, fmt, one argument), selected by the argument's type (no pointer/integer casts: they would
 * cost CBMC the constant propagation of the concrete strings).
 *   string argument: "%s" is modelled faithfully (copy with truncation, returns strlen: C99 7.19.6.5);
 *   integer argument: the argument was already fetched by the caller; the length of its text is arbitrary. */
static int c18_snprintf_s(char *s, size_t n, const char *fmt, const char *arg)
{
	__CPROVER_assert(fmt[0] == '%' && fmt[1] == 's' && fmt[2] == '\0', "snprintf model: a string is printed with %s");
	size_t len = 0;
	for (int k = 0; k < C18_MAXSTR; k++) {
		if (arg[len] == '\0')
			break;
		len++;
	}
	__CPROVER_assert(arg[len] == '\0', "snprintf model: string within the bound");
	c18_log_read(arg, len + 1);
	if (n > 0) {
		size_t m = len < n - 1 ? len : n - 1;
		for (size_t i = 0; i < C18_MAXSTR; i++) {
			if (i >= m)
				break;
			s[i] = arg[i];
		}
		s[m] = '\0';
	}
	return (int) len;
}
static int c18_snprintf_u(char *s, size_t n, const char *fmt, uint64_t a) { (void) fmt; (void) a; return verif_snprintf(s, n); }
static int c18_snprintf_i(char *s, size_t n, const char *fmt, int64_t a) { (void) fmt; (void) a; return verif_snprintf(s, n); }
#define C18_SNPRINTF(s, n, fmt, a) _Generic((a), char *: c18_snprintf_s, const char *: c18_snprintf_s, \
	uint8_t: c18_snprintf_u, uint16_t: c18_snprintf_u, uint32_t: c18_snprintf_u, uint64_t: c18_snprintf_u, \
	default: c18_snprintf_i)((s), (n), (fmt), (a))
/* the one-argument snprintf model is bound around ev_spec.c only (headers pulled in by model.c / setup.c
 * have other snprintf uses: they keep the prelude's binding) */
#undef snprintf
#define snprintf(s, n, fmt, a) C18_SNPRINTF(s, n, fmt, a)
#define memcpy(d, s, n) c18_memcpy((d), (s), (n))
#include "ev_spec.c"         /* the real /repo/src/emu/ev_spec.c */
#undef memcpy
#undef snprintf
#define snprintf(s, n, ...) verif_snprintf((s), (n))
#include "model_evspec.c"    /* model_evspec_find: replaced by its contract below */
#include "model.c"           /* the real /repo/src/emu/model.c: model_event_print, check_payload */
#include "spec/c18_shapes.h"
#if defined(C18_SHAPE_OAR)
#define C18_DECL_SIG C18_OAR_SIG
#define C18_DECL_DESC C18_OAR_DESC
#else
#define C18_DECL_SIG C18_VYC_SIG
#define C18_DECL_DESC C18_VYC_DESC
#endif
#ifdef C18_REAL_EVLIST
#if defined(C18_SHAPE_OAR)
#include "ovni/setup.c"      /* the real catalogue of the ovni model */
#else
#include "nosv/setup.c"      /* the real catalogue of the nosv model */
#endif
#endif

#define RET __CPROVER_return_value
#define IMPLIES(a, b) (!(a) || (b))

/* ---- the definition under test, compiled by the harness ---- */
struct ev_spec g_es;
struct ev_spec *g_find;      /* what the catalogue lookup answers: &g_es, or NULL (unlisted code) */
int g_find_null;

struct ev_spec *cr_model_evspec_find(struct model_evspec *evspec, char *mcv)
__CPROVER_requires(mcv != NULL)
__CPROVER_assigns()
__CPROVER_ensures((g_find_null && RET == NULL) || (!g_find_null && __CPROVER_pointer_equals(RET, g_find)))
;

/* has the payload a NUL in [from, size) ? (bounded scan, harness-side specification) */
static int c18_has_nul(const uint8_t *p, unsigned long from, unsigned long size)
{
	for (unsigned long i = 0; i < C18_MAXPAY; i++)
		if (i >= from && i < size && p[i] == 0)
			return 1;
	return 0;
}
/* index of the first NUL at or after from (size if none) */
static unsigned long c18_first_nul(const uint8_t *p, unsigned long from, unsigned long size)
{
	for (unsigned long i = 0; i < C18_MAXPAY; i++)
		if (i >= from && i < size && p[i] == 0)
			return i;
	return size;
}

unsigned long w_psize; int w_find_null, w_buflen;
WITNESS(model_event_print);

#define PRINT_PRE \
	__CPROVER_requires(__CPROVER_is_fresh(model, sizeof(*model)) && __CPROVER_is_fresh(ev, sizeof(*ev)) && DIAG_PRE) \
	__CPROVER_requires(model->registered[ev->m] == 1 && __CPROVER_is_fresh(model->spec[ev->m], sizeof(struct model_spec))) \
	__CPROVER_requires(buflen >= 1 && buflen <= 4096 && __CPROVER_is_fresh(buf, (size_t) buflen)) \
	__CPROVER_requires(ev->payload_size == g_psize && g_psize <= C18_PSIZE_MAX) \
	__CPROVER_requires((g_psize == 0 && ev->payload == NULL) || (g_psize > 0 && __CPROVER_is_fresh(ev->payload, g_psize))) \
	__CPROVER_requires(g_payload == (const uint8_t *) ev->payload && g_rd.n == 0) \
	__CPROVER_requires(WBIND(model_event_print, w_psize == g_psize && w_find_null == g_find_null && w_buflen == buflen)) \
	__CPROVER_assigns(__CPROVER_object_whole(buf), DIAG_FRAME, g_rd) \
	__CPROVER_ensures(RET == 0 || RET == -1) \
	__CPROVER_ensures(IMPLIES(g_find_null, RET == -1 && g_rd.n == 0))          /* unlisted code: no description */ \
	__CPROVER_ensures(IMPLIES(RET != 0, g_err > __CPROVER_old(g_err)))

#if defined(C18_SHAPE_OAR)
/* "OAr(i32 cpu, i32 tid)" / "... thread %{tid} to CPU %{cpu}": two i32 at 0 and 4; printed tid first */
#define C18_PSIZE_MAX (1UL << 20)
int c_model_event_print(struct model *model, struct emu_ev *ev, char *buf, int buflen)
PRINT_PRE
/* payload shorter than declared: refused, nothing read */
__CPROVER_ensures(IMPLIES(g_psize < 8, RET == -1 && g_rd.n == 0))
/* accepted: exactly the two declared arguments were fetched, each at its offset with its size */
__CPROVER_ensures(IMPLIES(RET == 0, g_psize >= 8 && g_rd.n == 2 && g_rd.off[0] == 4 && g_rd.size[0] == 4 && g_rd.off[1] == 0 && g_rd.size[1] == 4))
/* in any case: at most these reads, in this order */
__CPROVER_ensures(g_rd.n <= 2 && IMPLIES(g_rd.n >= 1, g_rd.off[0] == 4 && g_rd.size[0] == 4) && IMPLIES(g_rd.n == 2, g_rd.off[1] == 0 && g_rd.size[1] == 4))
;
#elif defined(C18_SHAPE_VYC)
/* "VYc+(u32 typeid, str label)": u32 jumbo size | u32 typeid at 4 | string at 8 */
#define C18_PSIZE_MAX C18_MAXPAY
int c_model_event_print(struct model *model, struct emu_ev *ev, char *buf, int buflen)
PRINT_PRE
__CPROVER_ensures(IMPLIES(g_psize <= 8, RET == -1 && g_rd.n == 0))                                       /* no room for the string */
__CPROVER_ensures(IMPLIES(g_psize > 8 && !c18_has_nul(g_payload, 8, g_psize), RET == -1 && g_rd.n == 0)) /* unterminated string */
__CPROVER_ensures(IMPLIES(RET == 0, g_psize > 8 && c18_has_nul(g_payload, 8, g_psize)))
/* accepted: typeid fetched at (4,4), then the string from 8 up to and including its first NUL */
__CPROVER_ensures(IMPLIES(RET == 0, g_rd.n == 2 && g_rd.off[0] == 4 && g_rd.size[0] == 4 && g_rd.off[1] == 8 &&
	g_rd.size[1] == c18_first_nul(g_payload, 8, g_psize) - 8 + 1))
__CPROVER_ensures(g_rd.n <= 2 && IMPLIES(g_rd.n >= 1, g_rd.off[0] == 4 && g_rd.size[0] == 4) && IMPLIES(g_rd.n == 2, g_rd.off[1] == 8))
;
#else
#error "define C18_SHAPE_OAR or C18_SHAPE_VYC"
#endif

void h_model_event_print(void)
{
#ifdef C18_REAL_EVLIST
	struct ev_decl *decl = NULL;
	for (int i = 0; i < 128 && model_evlist[i].signature != NULL; i++) {
		const char *sg = model_evlist[i].signature;
		if (sg[0] == C18_MCV[0] && sg[1] == C18_MCV[1] && sg[2] == C18_MCV[2])
			decl = &model_evlist[i];
	}
	__CPROVER_assert(decl != NULL, "the event is listed in the real model_evlist");
#else
	struct ev_decl decl0 = { C18_DECL_SIG, C18_DECL_DESC }, *decl = &decl0;
#endif
	int rc = ev_spec_compile(&g_es, decl);            /* the real compiler on the declaration */
	__CPROVER_assert(rc == 0, "the declaration compiles");
	g_find = &g_es;
	g_find_null = nondet_bool();
	struct model *model; struct emu_ev *ev; char *buf; int buflen;
	WITNESS_ON(model_event_print);
	int r = model_event_print(model, ev, buf, buflen);
	if (r == 0) REACH("event decoded");
#if defined(C18_SHAPE_OAR)
	if (r == 0 && w_psize == 8) REACH("payload of exactly the declared size decoded");
	if (r == 0 && w_psize == 16) REACH("longer payload decoded");
	if (r != 0 && w_psize == 7 && !w_find_null) REACH("short payload refused");
	if (r != 0 && w_psize == 0 && !w_find_null) REACH("missing payload refused");
#else
	if (r == 0 && w_psize == 9) REACH("empty label decoded");
	if (r == 0 && w_psize == C18_MAXPAY) REACH("longest label decoded");
	if (r != 0 && w_psize == 12 && !w_find_null && w_buflen == 4096) REACH("unterminated label refused");
	if (r != 0 && w_psize == 8 && !w_find_null) REACH("payload without string refused");
#endif
	if (r != 0 && w_find_null) REACH("unlisted code refused");
	if (r != 0 && !w_find_null && w_psize == 16 && w_buflen == 8) REACH("output buffer too small refused");
}
