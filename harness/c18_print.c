/* C18 -- decoding a listed event (ovnidump): model.c check_payload and ev_spec.c print_arg,
 * the two functions of model_event_print -> check_payload -> ev_spec_print -> format_region ->
 * print_arg that look at the event's payload.
 *
 * For an ARBITRARY definition shape (check_payload: 0..2 arguments of any type at any offset; print_arg: any one
 * argument -- this includes
 * every compiled definition, in particular "OAr(i32 cpu, i32 tid)" and the jumbo
 * "VYc+(u32 typeid, str label)" which the harness reaches explicitly) and a payload OBJECT of
 * EXACTLY payload_size arbitrary bytes (so any access outside the event's payload is a
 * pointer-check failure):
 *   check_payload  accepts iff the payload is at least as long as the declared arguments and every
 *                  declared string starts and ends (NUL) inside the payload;
 *   print_arg      under what check_payload and the compiler (parse_arg contract: size = size of
 *                  the type, offset + size <= declared payload size) guarantee: fetches EXACTLY the
 *                  bytes [offset, offset + size) of a numeric argument (one read, ghost read log),
 *                  a string from offset up to and including its first NUL, and nothing else.
 * BOUNDED: payload <= C18_MAXPAY bytes (memchr / string scans are loops).
 *
 * An end-to-end group (real ev_spec_compile of the concrete declaration, then the real
 * model_event_print on a symbolic payload) does NOT finish: after the first format_region the input
 * cursor is a merge of "failed" and "advanced" positions, the walk over the description is no longer
 * concrete and every parsing loop unwinds to its bound (> 150 s in symbolic execution).  The
 * composition is evaluated natively for every listed event of every model (print_listed).
 * NOT decided: the text produced for an argument (libc formatting).
 *
 * Trusted stubs: snprintf (string argument: scans it to its NUL; numeric argument: already fetched by
 * the caller; result length arbitrary), memchr (C99 7.21.5.1), strtok_r (not reached), isalnum/isgraph.
 */
#include "prelude.h"
#include "emu_ev.h"

#ifndef C18_MAXPAY
#define C18_MAXPAY 24
#endif
#ifndef C18_MAXARGS
#define C18_MAXARGS 2      /* check_payload group: arguments per definition (each string scan is a symbolic-offset walk:
                            * 4 arguments x 24 bytes = 1 M variables, no answer in 150 s; 2 x 24: 47 s) */
#endif

/* ---- ghost: the payload object and the log of reads from it ---- */
const uint8_t *g_payload; unsigned long g_psize;
#define RDN 2
struct c18_rdlog { unsigned n; unsigned long off[RDN], size[RDN]; } g_rd;
static void c18_log_read(const void *p, unsigned long n)
{
	if (g_payload != NULL && __CPROVER_same_object(p, g_payload)) {
		if (g_rd.n < RDN) {
			g_rd.off[g_rd.n] = (unsigned long) ((const uint8_t *) p - g_payload);
			g_rd.size[g_rd.n] = n;
		}
		g_rd.n++;
	}
}

/* ---- libc models ---- */
#undef isgraph
#define isgraph(c) ((c) > 0x20 && (c) < 0x7f)
#undef isalnum
#define isalnum(c) (((c) >= '0' && (c) <= '9') || ((c) >= 'a' && (c) <= 'z') || ((c) >= 'A' && (c) <= 'Z'))

char *strtok_r(char *s, const char *delim, char **save)
{
	(void) s; (void) delim; (void) save;
	__CPROVER_assert(0, "strtok_r: the compile path is not part of these groups");
	return NULL;
}

void *memchr(const void *s, int c, size_t n)
{
	const unsigned char *p = s;
	__CPROVER_assert(n <= C18_MAXPAY, "memchr model: within the bound");
	for (size_t i = 0; i < C18_MAXPAY; i++) {
		if (i >= n)
			return NULL;
		if (p[i] == (unsigned char) c)
			return (void *) (p + i);
	}
	return NULL;
}

static void *c18_memcpy(void *d, const void *s, size_t n)
{
	c18_log_read(s, n);
	return (memcpy)(d, s, n);
}

/* snprintf(s, n, fmt, one argument), selected by the argument's type */
static int c18_snprintf_s(char *s, size_t n, const char *fmt, const char *arg)
{
	(void) fmt;
	size_t len = 0;
	for (int k = 0; k < C18_MAXPAY; k++) {
		if (arg[len] == '\0')
			break;
		len++;
	}
	__CPROVER_assert(arg[len] == '\0', "snprintf model: string within the bound");
	c18_log_read(arg, len + 1);          /* a %s conversion reads the string up to and including its NUL */
	return verif_snprintf(s, n);
}
static int c18_snprintf_u(char *s, size_t n, const char *fmt, uint64_t a) { (void) fmt; (void) a; return verif_snprintf(s, n); }
static int c18_snprintf_i(char *s, size_t n, const char *fmt, int64_t a) { (void) fmt; (void) a; return verif_snprintf(s, n); }
#undef snprintf
#define snprintf(s, n, fmt, a) _Generic((a), char *: c18_snprintf_s, const char *: c18_snprintf_s, \
	uint8_t: c18_snprintf_u, uint16_t: c18_snprintf_u, uint32_t: c18_snprintf_u, uint64_t: c18_snprintf_u, \
	default: c18_snprintf_i)((s), (n), (fmt), (a))
#define memcpy(d, s, n) c18_memcpy((d), (s), (n))
#include "ev_spec.c"         /* the real /repo/src/emu/ev_spec.c */
#undef memcpy
#undef snprintf
#define snprintf(s, n, ...) verif_snprintf((s), (n))
#include "model.c"           /* the real /repo/src/emu/model.c: check_payload, model_event_print */

#define RET __CPROVER_return_value
#define IMPLIES(a, b) (!(a) || (b))
#define SIZE_OF_TYPE(t) ((t) == U8 || (t) == I8 ? 1u : (t) == U16 || (t) == I16 ? 2u : (t) == U32 || (t) == I32 ? 4u : \
	(t) == U64 || (t) == I64 ? 8u : 0u)

/* ---- specification helpers (bounded scans) ---- */
static int c18_has_nul(const uint8_t *p, unsigned long from, unsigned long size)
{
	for (unsigned long i = 0; i < C18_MAXPAY; i++)
		if (i >= from && i < size && p[i] == 0)
			return 1;
	return 0;
}
static unsigned long c18_first_nul(const uint8_t *p, unsigned long from, unsigned long size)
{
	for (unsigned long i = 0; i < C18_MAXPAY; i++)
		if (i >= from && i < size && p[i] == 0)
			return i;
	return size;
}
/* every declared string starts inside the payload and is terminated inside it */
static int c18_strings_ok(const struct ev_spec *es, const uint8_t *p, unsigned long size)
{
	for (int k = 0; k < C18_MAXARGS; k++)
		if (k < es->nargs && es->args[k].type == STR && (es->args[k].offset >= size || !c18_has_nul(p, es->args[k].offset, size)))
			return 0;
	return 1;
}

/* the payload bytes are always read through the event (a ghost pointer only ASSUMED equal to it does not
 * dereference to the same object: HOWTO pitfall 1); g_payload serves for same-object / offset arithmetic only */
#define EVP(ev) ((const uint8_t *) (ev)->payload)
#define EV_PRE(ev) (__CPROVER_is_fresh(ev, sizeof(*ev)) && ev->payload_size == g_psize && g_psize <= C18_MAXPAY && \
	((g_psize == 0 && ev->payload == NULL) || (g_psize > 0 && __CPROVER_is_fresh(ev->payload, g_psize))) && \
	g_payload == (const uint8_t *) ev->payload && g_rd.n == 0)

/* ====================================================================================
 * check_payload
 * ==================================================================================== */
unsigned long w_psize, w_declared; int w_nargs, w_type0, w_type1; unsigned long w_off1;
int c_check_payload(struct ev_spec *es, struct emu_ev *ev)
__CPROVER_requires(__CPROVER_is_fresh(es, sizeof(*es)) && es->nargs >= 0 && es->nargs <= C18_MAXARGS && DIAG_PRE)
__CPROVER_requires(EV_PRE(ev))
__CPROVER_requires(w_psize == g_psize && w_declared == es->payload_size && w_nargs == es->nargs && w_type0 == (int) es->args[0].type &&
	w_type1 == (int) es->args[1].type && w_off1 == es->args[1].offset)
__CPROVER_assigns(DIAG_FRAME, g_rd)
__CPROVER_ensures(RET == 0 || RET == -1)
__CPROVER_ensures((RET == 0) == ((g_psize >= es->payload_size && c18_strings_ok(es, EVP(ev), g_psize)) ? 1 : 0))
__CPROVER_ensures(IMPLIES(RET != 0, g_err > __CPROVER_old(g_err)))
;
void h_check_payload(void)
{
	struct ev_spec *es; struct emu_ev *ev;
	int r = check_payload(es, ev);
	/* the shape of OAr(i32 cpu, i32 tid): 8 declared bytes */
	if (r == 0 && w_declared == 8 && w_psize == 8 && w_nargs == 2 && w_type0 == I32 && w_type1 == I32) REACH("OAr: payload of exactly the declared size accepted");
	if (r != 0 && w_declared == 8 && w_psize == 7 && w_nargs == 2 && w_type0 == I32 && w_type1 == I32) REACH("OAr: payload one byte short refused");
	if (r != 0 && w_declared == 8 && w_psize == 0) REACH("missing payload refused");
	/* the shape of VYc+(u32 typeid, str label): 8 declared bytes, string at 8 */
	if (r == 0 && w_declared == 8 && w_psize == 9 && w_nargs == 2 && w_type0 == U32 && w_type1 == STR && w_off1 == 8) REACH("VYc: empty label accepted");
	if (r == 0 && w_declared == 8 && w_psize == C18_MAXPAY && w_nargs == 2 && w_type1 == STR && w_off1 == 8) REACH("VYc: longest label accepted");
	if (r != 0 && w_declared == 8 && w_psize == 12 && w_nargs == 2 && w_type1 == STR && w_off1 == 8) REACH("VYc: unterminated label refused");
	if (r != 0 && w_declared == 8 && w_psize == 8 && w_nargs == 2 && w_type1 == STR && w_off1 == 8) REACH("VYc: no room for the label refused");
}

/* ====================================================================================
 * print_arg
 * ==================================================================================== */
int w_type; unsigned long w_off; int g_len0;
int c_print_arg(struct ev_arg *arg, const char *fmt, struct cursor *c, struct emu_ev *ev)
__CPROVER_requires(__CPROVER_is_fresh(arg, sizeof(*arg)) && __CPROVER_is_fresh(fmt, 8) && __CPROVER_is_fresh(c, sizeof(*c)) && DIAG_PRE)
__CPROVER_requires(EV_PRE(ev))
/* what the compiler guarantees for the argument (parse_arg contract) ... */
__CPROVER_requires((unsigned) arg->type < MAX_TYPE && arg->size == SIZE_OF_TYPE(arg->type))
/* ... and what check_payload has established: numeric argument inside the payload, string started and terminated inside */
__CPROVER_requires(arg->offset <= C18_MAXPAY && arg->offset + arg->size <= g_psize)
__CPROVER_requires(arg->type != STR || (arg->offset < g_psize && c18_has_nul(EVP(ev), arg->offset, g_psize)))
__CPROVER_requires(c->len >= 0 && c->len <= 4096 && __CPROVER_is_fresh(c->out, (size_t) c->len + 1) && g_len0 == c->len)
__CPROVER_requires(w_type == (int) arg->type && w_off == arg->offset && w_psize == g_psize)
__CPROVER_assigns(c->out, c->len, __CPROVER_object_whole(c->out), DIAG_FRAME, g_rd)
__CPROVER_ensures(RET == 0 || RET == -1)
/* exactly one fetch from the payload: the declared bytes of the argument */
__CPROVER_ensures(g_rd.n == 1 && g_rd.off[0] == arg->offset)
__CPROVER_ensures(IMPLIES(arg->type != STR, g_rd.size[0] == arg->size && g_rd.size[0] == SIZE_OF_TYPE(arg->type)))
__CPROVER_ensures(IMPLIES(arg->type == STR, g_rd.size[0] == c18_first_nul(EVP(ev), arg->offset, g_psize) - arg->offset + 1))
__CPROVER_ensures(IMPLIES(RET == 0, c->len >= 0 && c->len <= g_len0))
__CPROVER_ensures(IMPLIES(RET != 0, g_err > __CPROVER_old(g_err)))
;
void h_print_arg(void)
{
	struct ev_arg *arg; const char *fmt; struct cursor *c; struct emu_ev *ev;
	int r = print_arg(arg, fmt, c, ev);
	if (r == 0 && w_type == I32 && w_off == 4 && w_psize == 8) REACH("OAr: tid (i32 at 4) of an 8-byte payload printed");
	if (r == 0 && w_type == I64 && w_off == 0 && w_psize == 12) REACH("OM[: value (i64 at 0) printed");
	if (r == 0 && w_type == U8) REACH("u8 printed");
	if (r == 0 && w_type == STR && w_off == 8 && w_psize == C18_MAXPAY) REACH("VYc: label (str at 8) printed");
	if (r != 0) REACH("no room in the output refused");
}
