/* C12 -- model_event (real model.c): an event of a model that is not registered,
 * or registered but not enabled (the trace did not require it), is refused and the
 * model's handler is NOT called; otherwise the handler is called exactly once with
 * the emulator and its failure is propagated. */
#include "prelude.h"
#include "model.c"           /* real /repo/src/emu/model.c */

/* the only candidate target of spec->event (address taken in the harness body) */
unsigned g_ev_calls;
int g_ev_ret;
struct emu *g_ev_arg;
int w_evret;                 /* witness: result of the handler, for the native replay */
int stub_event(struct emu *emu)
{
	g_ev_calls++;
	g_ev_arg = emu;
	g_ev_ret = nondet_int();
	w_evret = g_ev_ret;
	return g_ev_ret;
}

int w_index, w_registered, w_enabled, w_has_event;
WITNESS(model_event);
#define REG(m, i) ((m)->registered[i] != 0)
#define ENA(m, i) ((m)->enabled[i] != 0)

int c_model_event(struct model *model, struct emu *emu, int index)
__CPROVER_requires(__CPROVER_is_fresh(model, sizeof(*model)))
__CPROVER_requires(__CPROVER_is_fresh(emu, sizeof(*emu)))
__CPROVER_requires(index >= 0 && index < MAX_MODELS)
/* model_register stores the spec before it marks the model registered */
__CPROVER_requires(!REG(model, index) || __CPROVER_is_fresh(model->spec[index], sizeof(struct model_spec)))
__CPROVER_requires(!REG(model, index) || model->spec[index]->event == NULL || model->spec[index]->event == stub_event)
__CPROVER_requires(DIAG_PRE && g_ev_calls < 1000000u)
__CPROVER_requires(WBIND(model_event, w_index == index && w_registered == REG(model, index) && w_enabled == ENA(model, index) &&
	(!REG(model, index) || w_has_event == (model->spec[index]->event != NULL))))
__CPROVER_assigns(DIAG_FRAME, g_ev_calls, g_ev_ret, g_ev_arg, w_evret)
__CPROVER_ensures(__CPROVER_return_value == 0 || __CPROVER_return_value == -1)
/* not registered, or not enabled: refused with a diagnostic, handler not called */
__CPROVER_ensures((REG(model, index) && ENA(model, index)) ||
	(__CPROVER_return_value == -1 && g_ev_calls == __CPROVER_old(g_ev_calls) && g_err > __CPROVER_old(g_err)))
/* enabled model without event handler: accepted, nothing called */
__CPROVER_ensures(!(REG(model, index) && ENA(model, index) && model->spec[index]->event == NULL) ||
	(__CPROVER_return_value == 0 && g_ev_calls == __CPROVER_old(g_ev_calls)))
/* enabled model with handler: called exactly once, with this emulator; 0 iff the handler returned 0 */
__CPROVER_ensures(!(REG(model, index) && ENA(model, index) && model->spec[index]->event != NULL) ||
	(g_ev_calls == __CPROVER_old(g_ev_calls) + 1 && g_ev_arg == emu &&
	 (__CPROVER_return_value == 0) == (g_ev_ret == 0)))
;

void h_model_event(void)
{
	struct model *model; struct emu *emu; int index;
	emu_hook_t *cand = stub_event;   /* candidate target for --remove-function-pointers */
	(void) cand;
	WITNESS_ON(model_event);
	int r = model_event(model, emu, index);
	if (r == -1 && !w_registered) REACH("event of an unregistered model refused");
	if (r == -1 && w_registered && !w_enabled) REACH("event of a model the trace did not require refused");
	if (r == 0 && w_registered && w_enabled && !w_has_event) REACH("model without handler accepted");
	if (r == 0 && w_registered && w_enabled && w_has_event) REACH("handler called and succeeded");
	if (r == -1 && w_registered && w_enabled && w_has_event) REACH("handler failure propagated");
	if (r == 0 && w_index == 'O') REACH("model O");
}
