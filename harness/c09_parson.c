/* C10 / C09 -- the REAL json_serialize_to_file_pretty and json_serialize_to_file of src/parson.c
 * (the functions thread_metadata_store relies on to write stream.json) on the ghost file system of
 * c09_fs.h: fopen / fputs / fclose are the FS stubs (each may fail, each starts with a kill point).
 *
 * Outside the unit (trusted, most general, bound by "replace"): json_serialize_to_string[_pretty]
 * (may return NULL; otherwise THE serialized text: the harness object c09_text, whose content is
 * the original of stream.json in the ghost FS sense: g_len[F_JSON] bytes, byte g_obyte[F_JSON] at
 * g_pos) and json_free_serialized_string (must be given that text; counted).
 * The rest of parson.c (2.5 kLoC: parser, value tree, serializer) is in the TU but not reachable
 * from the two functions once those three are replaced; its two sprintf calls are rebound (DFCC
 * cannot instrument variadic calls) -- unreachable code.
 *
 * Contract (both functions):
 *   returns JSONSuccess  <=>  the text was produced  AND  no FS call failed (fopen succeeded, fputs did
 *                             not return EOF, fclose returned 0);           otherwise JSONFailure
 *   JSONSuccess ==> <filename> is COMPLETE (every byte handed to stdio, closed successfully) and
 *                   carries the finished mark of the value serialized
 *   no text / fopen failed ==> the file is untouched;  opened but failed ==> truncated: PARTIAL or MAYBE
 *   the stream is closed and the text freed exactly once on every path; no other file changes state
 *   at every FS call (kill point): C10 no-loss invariant / C09 crash invariant
 * This is the behaviour the stub json_serialize_to_file_pretty of c09_fs_post.h gives to the runtime
 * groups (its three failure outcomes: untouched / PARTIAL / MAYBE, success: COMPLETE; its inner
 * crash points are the entries of fopen / fputs / fclose here); the stub adds only ghost bookkeeping
 * (g_had, g_store_calls, key snapshots). */
#define C09_REAL_PARSON 1
int g_mtf;                   /* stands for rproc.move_to_final in the crash invariant */
unsigned long g_evlen0;      /* stands for rthread.evlen */
#define C09_MOVE_TO_FINAL g_mtf
#define C09_EVLEN g_evlen0
int g_new_jfin;              /* the value being serialized carries ovni.finished = 1 */
#define C09_JFIN_SRC(tree) g_new_jfin
#include "c09_fs.h"
#undef sprintf
#define sprintf(...) nondet_int()
#include "parson.c"
#include "c09_fs_post.h"

#define OLD(x) __CPROVER_old(x)
#define RV __CPROVER_return_value
#define UNTOUCHED(id) (g_st[T_TMP][id] == OLD(g_st[T_TMP][id]) && g_st[T_FIN][id] == OLD(g_st[T_FIN][id]))

unsigned g_text_made, g_text_freed;

/* trusted: the serializers -- NULL, or the text */
char *cr_json_text_pretty(const JSON_Value *value)
__CPROVER_requires(g_text_made < 1000u)
__CPROVER_assigns(g_text_made)
__CPROVER_ensures(RV == NULL || __CPROVER_pointer_equals(RV, c09_text))
__CPROVER_ensures(g_text_made == OLD(g_text_made) + (unsigned) (RV != NULL))
;
char *cr_json_text(const JSON_Value *value)
__CPROVER_requires(g_text_made < 1000u)
__CPROVER_assigns(g_text_made)
__CPROVER_ensures(RV == NULL || __CPROVER_pointer_equals(RV, c09_text))
__CPROVER_ensures(g_text_made == OLD(g_text_made) + (unsigned) (RV != NULL))
;
/* trusted: the text is released (it must be the text, and still allocated) */
void cr_json_free_text(char *string)
__CPROVER_requires(string == c09_text && g_text_freed < g_text_made)
__CPROVER_assigns(g_text_freed)
__CPROVER_ensures(g_text_freed == OLD(g_text_freed) + 1)
;

#define JT_TMP (filename[0] == TAG_TMP)
#define J_ST (JT_TMP ? g_st[T_TMP][F_JSON] : g_st[T_FIN][F_JSON])
#define J_SAME (g_st[T_TMP][F_JSON] == OLD(g_st[T_TMP][F_JSON]) && g_st[T_FIN][F_JSON] == OLD(g_st[T_FIN][F_JSON]) \
	&& g_jfin[T_TMP] == OLD(g_jfin[T_TMP]) && g_jfin[T_FIN] == OLD(g_jfin[T_FIN]))
#ifdef C09_CRASH
/* C09: metadata with the finished mark goes to the final tree only when the events are complete there */
#define STORE_INV_PRE (INV_CRASH && (JT_TMP || !g_new_jfin || OBS_FINAL_OK))
#define STORE_INV_POST INV_CRASH
#else
#define STORE_INV_PRE 1
#define STORE_INV_POST 1
#endif
#define STORE_CONTRACT \
__CPROVER_requires(__CPROVER_is_fresh(filename, PATH_BYTES)) \
__CPROVER_requires(PATH_WF(filename) && filename[1] == 'j' && PATH_MINE(filename)) \
__CPROVER_requires(FS_WF && FS_QUIET_N(1000000u) && !g_in_open && g_text_made < 1000u && g_text_freed == g_text_made) \
__CPROVER_requires((g_new_jfin == 0 || g_new_jfin == 1) && (g_mtf == 0 || g_mtf == 1)) \
/* the old metadata is deliberately replaced: it is not an original to preserve */ \
__CPROVER_requires(g_had[F_JSON] == 0 && INV_NOLOSS && STORE_INV_PRE) \
__CPROVER_requires(WBIND(json_store, w_tmp == JT_TMP && w_st0 == J_ST && w_fault0 == g_fsfault && w_made0 == g_text_made)) \
__CPROVER_assigns(FS_FRAME_FILES, g_text_made, g_text_freed) \
__CPROVER_ensures(RV == JSONSuccess || RV == JSONFailure) \
__CPROVER_ensures((RV == JSONSuccess) == (g_text_made == OLD(g_text_made) + 1 && g_fsfault == OLD(g_fsfault))) \
__CPROVER_ensures(g_text_made == OLD(g_text_made) || g_text_made == OLD(g_text_made) + 1) \
__CPROVER_ensures(g_text_freed == g_text_made) \
__CPROVER_ensures(!g_out_open && FS_WF) \
__CPROVER_ensures(RV != JSONSuccess || (J_ST == S_COMPLETE && (JT_TMP ? g_jfin[T_TMP] : g_jfin[T_FIN]) == g_new_jfin)) \
/* no text, or fopen failed: nothing was opened, the file is untouched */ \
__CPROVER_ensures(g_text_made != OLD(g_text_made) || g_out_gen == OLD(g_out_gen)) \
__CPROVER_ensures(g_out_gen != OLD(g_out_gen) || J_SAME) \
/* opened: exactly one stream; if the store then failed the file is truncated (not known to be complete) */ \
__CPROVER_ensures(g_out_gen == OLD(g_out_gen) || g_out_gen == OLD(g_out_gen) + 1) \
__CPROVER_ensures(g_out_gen == OLD(g_out_gen) || RV == JSONSuccess || J_ST == S_PARTIAL || J_ST == S_MAYBE) \
__CPROVER_ensures(UNTOUCHED(F_OBS) && UNTOUCHED(F_AUX)) \
__CPROVER_ensures(JT_TMP ? (g_st[T_FIN][F_JSON] == OLD(g_st[T_FIN][F_JSON]) && g_jfin[T_FIN] == OLD(g_jfin[T_FIN])) \
	: (g_st[T_TMP][F_JSON] == OLD(g_st[T_TMP][F_JSON]) && g_jfin[T_TMP] == OLD(g_jfin[T_TMP]))) \
__CPROVER_ensures(INV_NOLOSS && STORE_INV_POST)

int w_tmp, w_st0;
unsigned w_fault0, w_made0;
WITNESS(json_store);
JSON_Status c_json_serialize_to_file_pretty(const JSON_Value *value, const char *filename)
STORE_CONTRACT
;
JSON_Status c_json_serialize_to_file(const JSON_Value *value, const char *filename)
STORE_CONTRACT
;

#define STORE_REACH(r) do { \
	int st = w_tmp ? g_st[T_TMP][F_JSON] : g_st[T_FIN][F_JSON]; \
	if ((r) == JSONSuccess) REACH("stored: complete"); \
	if ((r) == JSONSuccess && w_st0 == S_COMPLETE) REACH("stored over an older complete stream.json"); \
	if ((r) != JSONSuccess && g_text_made == w_made0) REACH("serialization failed: nothing opened"); \
	if ((r) != JSONSuccess && g_text_made != w_made0 && st == w_st0 && st == S_COMPLETE) REACH("fopen failed: old file intact"); \
	if ((r) != JSONSuccess && st == S_PARTIAL && w_st0 == S_COMPLETE) REACH("fputs failed: truncated"); \
	if ((r) != JSONSuccess && st == S_MAYBE && g_fsfault == w_fault0 + 1) REACH("only fclose failed: all bytes handed to stdio, not known on disk"); \
	if ((r) != JSONSuccess && g_fsfault == w_fault0 + 2) REACH("fputs and fclose both failed"); \
} while (0)

void h_json_store_pretty(void)
{
	const JSON_Value *value; const char *filename;
	WITNESS_ON(json_store);
	JSON_Status r = json_serialize_to_file_pretty(value, filename);
	STORE_REACH(r);
}
void h_json_store(void)
{
	const JSON_Value *value; const char *filename;
	WITNESS_ON(json_store);
	JSON_Status r = json_serialize_to_file(value, filename);
	STORE_REACH(r);
}
