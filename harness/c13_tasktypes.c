/* C13 -- task-type labels (src/emu/{nosv,nanos6}/setup.c finish_pvt): every non-zero value printed
 * on a task-type timeline has a label because, when the trace is finished, the task types of
 * EVERY process of the system (the global process list) are written into the task-type PCF type
 * of the named Paraver trace.  Bounded: <= 3 processes.  Assume/assert harness on the real code;
 * recorder/pvt/pcf/task are other units: logging stubs. */
#include "prelude.h"
#include "value.h"
#include "extend.c"           /* the real extend_get / extend_set */
#if defined(C13_NOSV)
#  include "nosv/setup.c"
#  define PROC_T struct nosv_proc
#  define CHECKS_FINISHED 1
#  define CHECKS_TYPE_FOUND 1
#elif defined(C13_NANOS6)
#  include "nanos6/setup.c"
#  define PROC_T struct nanos6_proc
/* PINNED (differs from nosv, reported as an observation): the Nanos6 variant runs for unfinished
 * traces too and hands whatever pcf_find_type returned (possibly NULL) to task_create_pcf_types */
#  define CHECKS_FINISHED 0
#  define CHECKS_TYPE_FOUND 0
#endif

struct pvt *g_pvt; struct pcf *g_pcf; struct pcf_type *g_pcftype;
const char *g_find_name; int g_find_typeid; struct pcf *g_find_pcf;
struct pcf_type *g_tc_type[4]; struct task_type *g_tc_types[4]; int g_ntc; int g_tc_failed;

struct pvt *recorder_find_pvt(struct recorder *rec, const char *name) { (void) rec; g_find_name = name; return nondet_bool() ? NULL : g_pvt; }
struct pcf *pvt_get_pcf(struct pvt *pvt) { (void) pvt; return g_pcf; }
struct pcf_type *g_found_type;
struct pcf_type *pcf_find_type(struct pcf *pcf, int type) { g_find_pcf = pcf; g_find_typeid = type; g_found_type = nondet_bool() ? NULL : g_pcftype; return g_found_type; }
int task_create_pcf_types(struct pcf_type *pcftype, struct task_type *types)
{
	if (g_ntc < 4) { g_tc_type[g_ntc] = pcftype; g_tc_types[g_ntc] = types; }
	g_ntc++;
	int r = nondet_int();
	if (r != 0) g_tc_failed = 1;
	return r;
}

#ifdef H_FINISH_PVT
void h_finish_pvt(void)
{
	struct emu *emu = malloc(sizeof(*emu));
	struct proc *p0 = malloc(sizeof(struct proc)), *p1 = malloc(sizeof(struct proc)), *p2 = malloc(sizeof(struct proc));
	PROC_T *m0 = malloc(sizeof(PROC_T)), *m1 = malloc(sizeof(PROC_T)), *m2 = malloc(sizeof(PROC_T));
	static char pvtobj[8], pcfobj[8], typeobj[8];
	__CPROVER_assume(emu && p0 && p1 && p2 && m0 && m1 && m2);
	g_pvt = (struct pvt *) pvtobj; g_pcf = (struct pcf *) pcfobj; g_pcftype = (struct pcf_type *) typeobj;
	struct proc *P[3] = { p0, p1, p2 }; PROC_T *M[3] = { m0, m1, m2 };
	int np = nondet_int(); __CPROVER_assume(np >= 0 && np <= 3);
	for (int i = 0; i < 3; i++) {
		P[i]->gnext = (i + 1 < np) ? P[i + 1] : NULL;
		/* the per-loom hash chain is a DIFFERENT list (arbitrary here): it must not be used */
		P[i]->hh.next = nondet_bool() ? NULL : (void *) P[(i + 2) % 3];
		P[i]->ext.ctx[model_id] = M[i];
	}
	emu->system.procs = np > 0 ? p0 : NULL;
	emu->finished = nondet_int();
	g_ntc = 0; g_tc_failed = 0; g_err = 0;
	const char *name = nondet_bool() ? "thread" : "cpu";
	int r = finish_pvt(emu, name);
	if (CHECKS_FINISHED && !emu->finished) {
		VASSERT(r == 0 && g_ntc == 0, "unfinished trace: nothing to do");
#if CHECKS_FINISHED
		REACH("trace not finished");
#endif
		return;
	}
	if (r == 0) {
		VASSERT(g_find_name == name && g_find_pcf == g_pcf && g_find_typeid == pvt_type[CH_TYPE], "labels go to the task-type PCF type of the named trace");
		VASSERT(g_ntc == np && !g_tc_failed, "one label pass per process of the system");
		for (int i = 0; i < 3; i++) {
			if (i >= np) continue;
			VASSERT(g_tc_type[i] == g_found_type && (!CHECKS_TYPE_FOUND || g_found_type == g_pcftype) && g_tc_types[i] == M[i]->task_info.types, "process i of the GLOBAL list contributes its task types");
		}
		REACH("labels written");
		if (np == 3) REACH("three processes");
	} else {
		VASSERT(g_err > 0, "a refusal is diagnosed");
		REACH("refused");
	}
}
#endif
