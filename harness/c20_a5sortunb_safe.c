/* C20 -- sort_replace of the real src/emu/sort.c, UNBOUNDED row count (1 <= n <= 2^20, symbolic-size array,
 * full 64-bit values), CBMC loop contracts on the four real loops, quantifier-free.
 *
 * What closes unboundedly is the part of the behaviour that needs NO universally quantified hypothesis:
 *   for ANY array (sorted or not) that holds old at some cell g_p, and -- the only use of the order -- is ordered
 *   at the one pair (g_p, n/2) the "jump to the middle" test looks at:
 *   - every access stays inside arr[0..n) (bounds / pointer checks on the real loops),
 *   - all four loops terminate (decreases clauses),
 *   - the function returns iff old != new (dies otherwise),
 *   - it writes nothing but cells of arr (frame), and of those
 *       new < old: no cell above g_p                     (observer g_k)
 *       old < new: no cell below the start of the search (0, or n/2 when arr[n/2] < old),
 *   - no foreign value enters a cell: arr'[k] is arr[k], the pre-state content of the neighbour the hole moves
 *     towards (arr[k+1] when old < new, arr[k-1] when new < old), or new   (observer g_k),
 *   - new is correctly located ("sits between its neighbours"): whenever the observed cell can be recognised
 *     in the post-state as the landing cell (it holds new, and neither its own nor the moving neighbour's
 *     pre-state content was new), its left neighbour is <= new and its right neighbour is > new.  (new < old,
 *     right neighbour: unless new lands, without any shift, on a cell strictly below g_p -- impossible in a
 *     sorted array when g_p is the first position of old, but that needs the quantified hypothesis.)
 *     This part only uses what the real loops themselves test on the cells next to the hole.
 * Groups a5_sort_replace_safe_up (old <= new) and a5_sort_replace_safe_down (new <= old), together exhaustive.
 *
 * What does NOT close unboundedly (measured: see the group notes in plan/C20.json): the positional ("shift")
 * specification, sortedness and the multiset.  Both search loops stop at a data-dependent cell, so the proof of
 * "the loop stops at P" needs the hypothesis "every cell before P is < old" AT THE HAVOCKED loop index; the
 * shifting loops read ahead of the hole inside the region the loop contract havocs.  These are universally
 * quantified ASSUMPTIONS; ghost observers only replace quantifiers in proved position.  The bounded groups
 * sort_replace_n1..n8 (harness/c20_sort.c) keep that part. */
#include "prelude.h"
#include "sort.c"          /* the real /repo/src/emu/sort.c */

#define SRS_NMAX (1L << 20)
/* exhaustive split of the input space into two groups: SRS_CASE=1 old <= new, SRS_CASE=2 new <= old */
#ifndef SRS_CASE
#define SRS_SPLIT 1
#elif SRS_CASE == 1
#define SRS_SPLIT (old <= new)
#else
#define SRS_SPLIT (new <= old)
#endif

long g_p;                  /* some cell holding old */
long g_lo;                 /* where the search of the old < new branch starts */
long g_k; int64_t g_vk, g_vk1, g_vkm1; /* observer cell; pre-state content of cells g_k, g_k+1, g_k-1 */
long w_n, w_p, w_k, w_lo; int64_t w_old, w_new;
WITNESS(sort_replace);

/* the observed cell is recognisably the landing cell of new */
#define LANDED_UP   (arr[g_k] == new && g_vk != new && (g_k + 1 >= n || g_vk1 != new))
#define LANDED_DOWN (arr[g_k] == new && g_vk != new && (g_k == 0 || g_vkm1 != new))

void c_sort_replace_safe(int64_t *arr, int64_t n, int64_t old, int64_t new)
__CPROVER_requires(1 <= n && n <= SRS_NMAX)
__CPROVER_requires(SRS_SPLIT)
__CPROVER_requires(__CPROVER_is_fresh(arr, n * sizeof(int64_t)))
/* old is in arr */
__CPROVER_requires(0 <= g_p && g_p < n && arr[g_p] == old)
/* the instances of "arr is sorted" that are used: the pair (g_p, n/2) the jump to the middle relies on, and the
 * adjacent pair (g_p, g_p + 1) (in-place replacement, new < old) */
__CPROVER_requires(!(g_p < n / 2) || arr[g_p] <= arr[n / 2])
__CPROVER_requires(g_p + 1 >= n || arr[g_p] <= arr[g_p + 1])
__CPROVER_requires(g_lo == ((arr[n / 2] < old) ? n / 2 : 0))
__CPROVER_requires(0 <= g_k && g_k < n && g_vk == arr[g_k] && (g_k + 1 >= n || g_vk1 == arr[g_k + 1]) && (g_k == 0 || g_vkm1 == arr[g_k - 1]))
__CPROVER_requires(WBIND(sort_replace, w_n == n && w_p == g_p && w_k == g_k && w_lo == g_lo && w_old == old && w_new == new))
__CPROVER_assigns(__CPROVER_object_whole(arr), g_died)
__CPROVER_ensures(old != new)
__CPROVER_ensures(!(new < old && g_k > g_p) || arr[g_k] == g_vk)
__CPROVER_ensures(!(old < new && g_k < g_lo) || arr[g_k] == g_vk)
__CPROVER_ensures(!(old < new) || arr[g_k] == g_vk || (g_k + 1 < n && arr[g_k] == g_vk1) || arr[g_k] == new)
__CPROVER_ensures(!(new < old) || arr[g_k] == g_vk || (g_k > 0 && arr[g_k] == g_vkm1) || arr[g_k] == new)
/* new is correctly located */
__CPROVER_ensures(!(old < new && LANDED_UP) || ((g_k == 0 || arr[g_k - 1] <= new) && (g_k + 1 >= n || arr[g_k + 1] > new)))
__CPROVER_ensures(!(new < old && LANDED_DOWN) || ((g_k == 0 || arr[g_k - 1] <= new) &&
	(g_k + 1 >= n || arr[g_k + 1] > new || (g_k < g_p && arr[g_k + 1] == g_vk1))))
;

void h_sort_replace_safe(void)
{
	int64_t *arr; int64_t n, old, new;
	WITNESS_ON(sort_replace);
	sort_replace(arr, n, old, new);
	REACH("sort_replace returns");
	if (w_n == SRS_NMAX) REACH("2^20 rows");
	if (w_n == 1) REACH("a single row");
#if !defined(SRS_CASE) || SRS_CASE == 1
	if (w_old < w_new && w_lo > 0 && w_k < w_lo) REACH("old < new: search starts at the middle, observer below it");
	if (w_old < w_new && g_vk != w_new && g_vk1 != w_new && w_k > w_p + 1 && w_k + 1 < w_n && g_vk1 > w_new && g_vk <= w_new) REACH("old < new: observer is the landing cell, two cells above old");
#endif
#if !defined(SRS_CASE) || SRS_CASE == 2
	if (w_new < w_old && g_vk != w_new && g_vkm1 != w_new && w_k + 1 < w_p && w_k > 0 && g_vkm1 <= w_new && g_vk > w_new) REACH("new < old: observer is the landing cell, two cells below old");
#endif
}
