/* C01 -- ovni_thread_init: a freshly initialised thread's stream is exactly the documented
 * 8-byte header (on disk), the buffer is empty, and the initial metadata was stored.
 * parson / directory creation / open are trusted most-general stubs. */
#include "rt_common.h"
#include "rt_parson_stub.h"

unsigned g_open_calls, g_mkpath_calls;
/* libc strpbrk has no CBMC body: pure, returns NULL or some pointer (only compared with NULL) */
char *strpbrk(const char *s, const char *accept) { (void) accept; return nondet_bool() ? NULL : (char *) s; }
int verif_open(const char *path, int flags, int mode)
{
	(void) path; (void) flags; (void) mode;
	g_open_calls++;
	return nondet_bool() ? -1 : 7;
}
#define open(p, f, m) verif_open((p), (f), (m))
int mkpath(const char *path, mode_t mode, int is_dir)
{
	(void) path; (void) mode; (void) is_dir;
	g_mkpath_calls++;
	return nondet_int();
}

#include "ovni.c"

/* the header contract of c01_rt.c, restated (proved there on the same function) */
#define HDR_BYTE(r) ((r) == 0 ? 'o' : (r) == 1 ? 'v' : (r) == 2 ? 'n' : (r) == 3 ? 'i' : (r) == 4 ? 1 : 0)
void cr_write_stream_header(void)
__CPROVER_requires(CAP_OK && FILE_PRE && g_file_len == 0)
__CPROVER_requires(__CPROVER_is_fresh(rthread.evbuf, g_cap))
__CPROVER_assigns(g_file_len, g_byte, g_died, rthread.evlen, __CPROVER_object_upto(rthread.evbuf, 8))
__CPROVER_ensures(g_file_len == 8 && rthread.evlen == 0)
__CPROVER_ensures(!(g_pos < 8) || g_byte == HDR_BYTE(g_pos))
;
/* version_parse (version.h) is proved in plan C14; here only its frame matters */
int cr_version_parse(const char *version, int tuple[3])
__CPROVER_requires(1)
__CPROVER_assigns(__CPROVER_object_upto(tuple, 3 * sizeof(int)), DIAG_FRAME)
__CPROVER_ensures(1)
;

void c_ovni_thread_init(pid_t tid)
__CPROVER_requires(CAP_OK && g_pos < (1UL << 62) && g_file_len == 0)
__CPROVER_requires(!rthread.ready && g_keys == 0 && g_store_calls == 0 && g_store_failed == 0)
__CPROVER_assigns(rthread, g_file_len, g_byte, g_died, DIAG_FRAME, g_open_calls, g_mkpath_calls,
	g_keys, g_v_version, g_v_tid, g_v_pid, g_v_appid, g_part_is_thread, g_v_loom, g_parson_failed,
	g_store_calls, g_keys_at_store, g_finished_at_store, g_store_failed)
/* returns only for a usable state: not finished before, tid != 0, process READY */
__CPROVER_ensures(tid != 0 && rproc.st == ST_READY)
__CPROVER_ensures(rthread.ready == 1 && rthread.finished == 0 && rthread.tid == tid)
/* the stream is exactly the 8-byte header, already on disk; the buffer is empty */
__CPROVER_ensures(g_file_len == 8 && rthread.evlen == 0)
__CPROVER_ensures(!(g_pos < 8) || g_byte == HDR_BYTE(g_pos))
/* the initial metadata (complete, NOT finished) was stored exactly once */
__CPROVER_ensures(g_store_calls == 1 && !g_store_failed && (g_keys_at_store & (K_MANDATORY | K_FINISHED)) == K_MANDATORY)
__CPROVER_ensures(g_open_calls == __CPROVER_old(g_open_calls) + 1)
;
void h_ovni_thread_init(void)
{
	pid_t tid;
	ovni_thread_init(tid);
	REACH("ovni_thread_init returns");
	if (g_pos == 4) REACH("observer on the version byte");
}
