/* C01 -- ovni_thread_init: a freshly initialised thread's stream is exactly the documented
 * 8-byte header (on disk), the buffer is empty, and the initial metadata was stored.
 * parson / directory creation / open are trusted most-general stubs. */
#include "rt_common.h"
#include "rt_parson_stub.h"

unsigned g_open_calls, g_mkpath_calls;
/* libc strpbrk has no CBMC body: pure, returns NULL or some pointer (only compared with NULL) */
char *strpbrk(const char *s, const char *accept) { (void) accept; return nondet_bool() ? NULL : (char *) s; }
int verif_open(const char *path, int flags, int mode)
{
	(void) path; (void) mode;
	g_open_calls++;
	/* applicability of the write(2) model of rt_common.h (bytes land at the descriptor's own offset, which
	 * starts at 0, so the file is exactly the bytes written): the file is opened for writing, created if
	 * missing, and positioned at 0 -- O_APPEND would place every byte after whatever the file already holds,
	 * unless the file is known to be empty at open (O_TRUNC, or O_EXCL creation) */
	VASSERT((flags & O_ACCMODE) == O_WRONLY || (flags & O_ACCMODE) == O_RDWR, "open: the stream is opened for writing");
	VASSERT((flags & O_CREAT) != 0, "open: the stream file is created when missing");
	VASSERT((flags & O_APPEND) == 0 || (flags & O_TRUNC) != 0 || (flags & O_EXCL) != 0,
		"open: bytes land at the descriptor's own offset from 0 (no O_APPEND onto a file that may hold stale bytes)");
	return nondet_bool() ? -1 : 7;
}
#define open(p, f, m) verif_open((p), (f), (m))
int mkpath(const char *path, mode_t mode, int is_dir)
{
	(void) path; (void) mode; (void) is_dir;
	g_mkpath_calls++;
	return nondet_int();
}

#include "ovni.c"

/* the header contract of c01_rt.c, restated (proved there on the same function) */
#define HDR_BYTE(r) ((r) == 0 ? 'o' : (r) == 1 ? 'v' : (r) == 2 ? 'n' : (r) == 3 ? 'i' : (r) == 4 ? 1 : 0)
void cr_write_stream_header(void)
__CPROVER_requires(CAP_OK && FILE_PRE && g_file_len == 0)
__CPROVER_requires(__CPROVER_is_fresh(rthread.evbuf, g_cap))
__CPROVER_assigns(g_file_len, g_byte, g_died, rthread.evlen, __CPROVER_object_upto(rthread.evbuf, 8))
__CPROVER_ensures(g_file_len == 8 && rthread.evlen == 0)
__CPROVER_ensures(!(g_pos < 8) || g_byte == HDR_BYTE(g_pos))
;
/* version_parse (version.h) is proved in plan C14; here only its frame matters */
int cr_version_parse(const char *version, int tuple[3])
__CPROVER_requires(1)
__CPROVER_assigns(__CPROVER_object_upto(tuple, 3 * sizeof(int)), DIAG_FRAME)
__CPROVER_ensures(1)
;

void c_ovni_thread_init(pid_t tid)
__CPROVER_requires(CAP_OK && g_pos < (1UL << 62) && g_file_len == 0)
__CPROVER_requires(!rthread.ready && g_keys == 0 && g_store_calls == 0 && g_store_failed == 0)
__CPROVER_assigns(rthread, g_file_len, g_byte, g_died, DIAG_FRAME, g_open_calls, g_mkpath_calls,
	g_keys, g_v_version, g_v_tid, g_v_pid, g_v_appid, g_part_is_thread, g_v_loom, g_parson_failed,
	g_store_calls, g_keys_at_store, g_finished_at_store, g_store_failed)
/* returns only for a usable state: not finished before, tid != 0, process READY */
__CPROVER_ensures(tid != 0 && rproc.st == ST_READY)
__CPROVER_ensures(rthread.ready == 1 && rthread.finished == 0 && rthread.tid == tid)
/* the stream is exactly the 8-byte header, already on disk; the buffer is empty */
__CPROVER_ensures(g_file_len == 8 && rthread.evlen == 0)
__CPROVER_ensures(!(g_pos < 8) || g_byte == HDR_BYTE(g_pos))
/* the initial metadata (complete, NOT finished) was stored exactly once */
__CPROVER_ensures(g_store_calls == 1 && !g_store_failed && (g_keys_at_store & (K_MANDATORY | K_FINISHED)) == K_MANDATORY)
__CPROVER_ensures(g_open_calls == __CPROVER_old(g_open_calls) + 1)
;
#ifndef H_INIT_AGAIN
void h_ovni_thread_init(void)
{
	pid_t tid;
	ovni_thread_init(tid);
	REACH("ovni_thread_init returns");
	if (g_pos == 4) REACH("observer on the version byte");
}
#else
/* a repeated ovni_thread_init on a thread that is already tracing is IGNORED with a warning
 * (doc/user/runtime/index.md): the frame is the diagnostic counters only, so the buffered events,
 * the CPUs, the metadata, the descriptor and the bytes already on disk are all untouched --
 * nothing the thread emitted so far is forgotten or overwritten (C01 exactly once, C02, C11) */
void c_ovni_thread_init_again(pid_t tid)
__CPROVER_requires(rthread.ready != 0 && DIAG_PRE)
__CPROVER_assigns(DIAG_FRAME)
__CPROVER_ensures(g_warn == __CPROVER_old(g_warn) + 1 && g_err == __CPROVER_old(g_err))
;
void h_ovni_thread_init_again(void)
{
	pid_t tid;
	ovni_thread_init(tid);
	REACH("repeated ovni_thread_init returns");
	if (rthread.evlen > 0) REACH("repeated ovni_thread_init with events still buffered");
}
#endif
