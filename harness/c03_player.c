/* C03 -- the merge: src/emu/player.c on top of stream.c / emu_ev.c (real files).
 *
 * Proved here (all over full-width symbolic clocks):
 *   stream_cmp        sign mirrors lastclock (heap "max" = smallest corrected clock)
 *   stream_evclock    corrected time = event clock + clock offset of the stream
 *   stream_clkoff_set the offset is set once, before the first event is loaded
 *   update_clocks     sorted mode refuses every backwards jump; Paraver time
 *                     (deltaclock) = corrected time - corrected time of the first event
 *   step_stream, player_step, player_init
 *                     against the ABSTRACT heap contract ca_heap_insert /
 *                     ca_heap_pop_max (validated on the real heap.h for every heap
 *                     size S <= 7 / 15 by the family in c03_heap.c) and the assumed
 *                     abstraction ca_stream_step of stream_step (proved against the
 *                     real body in plans C12 / C19, contract c_stream_step).
 */
#include "prelude.h"
#include "ovni.c"          /* ovni_payload_size / ovni_ev_get_clock used by emu_ev, stream_evclock */
#include "stream.c"        /* real /repo/src/emu/stream.c */
#include "emu_ev.c"        /* real /repo/src/emu/emu_ev.c */
/* heap.h (already included through stream.h) stays the real one for the family in
 * c03_heap.c; the two heap calls of player.c are bound to the ABSTRACT heap below */
static void abs_heap_insert(heap_head_t *head, heap_node_t *node, heap_node_compare_t cmp);
static heap_node_t *abs_heap_pop_max(heap_head_t *head, heap_node_compare_t cmp);
#define heap_insert(h, n, c) abs_heap_insert((h), (n), (c))
#define heap_pop_max(h, c) abs_heap_pop_max((h), (c))
#include "player.c"        /* real /repo/src/emu/player.c */
#undef heap_insert
#undef heap_pop_max

#define RV __CPROVER_return_value
#define I64_MAX 0x7fffffffffffffffL
#define I64_MIN (-I64_MAX - 1L)
#define ADD_OVF(a, b) (((b) > 0 && (a) > I64_MAX - (b)) || ((b) < 0 && (a) < I64_MIN - (b)))
#define SUB_OVF(a, b) (((b) < 0 && (a) > I64_MAX + (b)) || ((b) > 0 && (a) < I64_MIN + (b)))

/* Range assumption of the step/init groups (plan "assumptions"): event clocks as
 * stored are <= 2^60 ns, clock offsets within +-2^60, hence corrected clocks
 * within +-2^61 and no difference of two corrected clocks overflows.  The exact
 * overflow conditions are carved out (and reported) at update_clocks and
 * stream_evclock below, which have NO range assumption. */
#define P60 (1L << 60)
#define P61 (1L << 61)
#define CLK_OK(c) ((c) >= -P61 && (c) <= P61)
#define RAW_OK(c) ((c) <= (uint64_t) P60)
#define OFF_OK(o) ((o) >= -P60 && (o) <= P60)

/* ============================ stream_cmp ============================ */
struct stream *g_sa, *g_sb;       /* the streams the two heap nodes live in */
long w_ca, w_cb;
int w_same;
WITNESS(stream_cmp);

int c_stream_cmp(heap_node_t *a, heap_node_t *b)
__CPROVER_requires(__CPROVER_is_fresh(g_sa, sizeof(struct stream)))
__CPROVER_requires(__CPROVER_pointer_equals(g_sb, g_sa) || __CPROVER_is_fresh(g_sb, sizeof(struct stream)))
__CPROVER_requires(__CPROVER_pointer_equals(a, &g_sa->hh) && __CPROVER_pointer_equals(b, &g_sb->hh))
__CPROVER_requires(WBIND(stream_cmp, w_ca == g_sa->lastclock && w_cb == g_sb->lastclock && w_same == (g_sa == g_sb)))
__CPROVER_assigns()
/* > 0 exactly when a's corrected clock is SMALLER: with this comparator the
 * max-heap of heap.h keeps the stream with the smallest lastclock at the root */
__CPROVER_ensures((RV > 0) == (g_sa->lastclock < g_sb->lastclock))
__CPROVER_ensures((RV < 0) == (g_sa->lastclock > g_sb->lastclock))
__CPROVER_ensures((RV == 0) == (g_sa->lastclock == g_sb->lastclock))
__CPROVER_ensures(RV == 1 || RV == 0 || RV == -1)
;

void h_stream_cmp(void)
{
	heap_node_t *a, *b;
	WITNESS_ON(stream_cmp);
	int r = stream_cmp(a, b);
	if (r > 0) REACH("a earlier than b");
	if (r < 0) REACH("a later than b");
	if (r == 0 && !w_same) REACH("two streams with equal clocks");
	if (w_same) REACH("same node");
	if (r > 0 && w_ca == I64_MIN && w_cb == I64_MAX) REACH("extreme clocks compared without overflow");
}

/* order laws on three arbitrary streams, by calling the real comparator */
long w_c1, w_c2, w_c3;
void h_stream_cmp_laws(void)
{
	struct stream *x = malloc(sizeof(struct stream));
	struct stream *y = malloc(sizeof(struct stream));
	struct stream *z = malloc(sizeof(struct stream));
	__CPROVER_assume(x != NULL && y != NULL && z != NULL);
	w_c1 = x->lastclock; w_c2 = y->lastclock; w_c3 = z->lastclock;
	int xx = stream_cmp(&x->hh, &x->hh);
	int xy = stream_cmp(&x->hh, &y->hh);
	int yx = stream_cmp(&y->hh, &x->hh);
	int yz = stream_cmp(&y->hh, &z->hh);
	int xz = stream_cmp(&x->hh, &z->hh);
	VASSERT(xx == 0, "reflexive: cmp(x,x) == 0");
	VASSERT((xy > 0) == (yx < 0) && (xy < 0) == (yx > 0) && (xy == 0) == (yx == 0), "antisymmetric");
	VASSERT(!(xy >= 0 && yz >= 0) || xz >= 0, "transitive (>=)");
	VASSERT(!(xy > 0 && yz >= 0) || xz > 0, "transitive (strict, left)");
	VASSERT(!(xy >= 0 && yz > 0) || xz > 0, "transitive (strict, right)");
	VASSERT(!(xy == 0 && yz == 0) || xz == 0, "equivalence of equal clocks is transitive");
	VASSERT((xy >= 0) == (x->lastclock <= y->lastclock), "cmp(x,y) >= 0 exactly when x is not later than y");
	VASSERT(xy >= 0 || yx >= 0, "total");
	if (xy > 0 && yz > 0) REACH("strict chain");
	if (xy == 0 && yz == 0) REACH("three equal clocks");
	if (xy < 0) REACH("x later than y");
}

/* ========================== stream_evclock ========================== */
/* corrected time := clock stored in the event + clock offset of the stream
 * (set from the offset of the stream's loom, system.c init_offsets).  The
 * addition is signed on two file-controlled values: the inputs on which it is
 * not defined are carved out here (same carve-out as C12 stream_step). */
unsigned long w_rawclk; long w_clkoff;
WITNESS(stream_evclock);
int64_t c_stream_evclock(struct stream *stream, struct ovni_ev *ev)
__CPROVER_requires(__CPROVER_is_fresh(stream, sizeof(*stream)))
__CPROVER_requires(__CPROVER_is_fresh(ev, sizeof(ev->header)))
__CPROVER_requires(ev->header.clock <= (uint64_t) I64_MAX && !ADD_OVF((long) ev->header.clock, stream->clock_offset))
__CPROVER_requires(WBIND(stream_evclock, w_rawclk == ev->header.clock && w_clkoff == stream->clock_offset))
__CPROVER_assigns()
__CPROVER_ensures(RV == (int64_t) ev->header.clock + stream->clock_offset)
;
void h_stream_evclock(void)
{
	struct stream *s; struct ovni_ev *ev;
	WITNESS_ON(stream_evclock);
	int64_t c = stream_evclock(s, ev);
	if (w_clkoff < 0 && c < 0) REACH("negative corrected time");
	if (w_clkoff > 0) REACH("positive offset");
	if (w_clkoff == 0 && c == (long) w_rawclk) REACH("no offset");
}

/* ========================= stream_clkoff_set ========================= */
long w_old_off; int w_started;
WITNESS(stream_clkoff_set);
int c_stream_clkoff_set(struct stream *stream, int64_t clkoff)
__CPROVER_requires(__CPROVER_is_fresh(stream, sizeof(*stream)) && DIAG_PRE)
__CPROVER_requires(WBIND(stream_clkoff_set, w_old_off == stream->clock_offset && w_started == (stream->cur_ev != NULL)))
__CPROVER_assigns(stream->clock_offset, DIAG_FRAME)
/* accepted exactly when no event was loaded yet and no offset was set before */
__CPROVER_ensures((RV == 0) == (__CPROVER_old(stream->cur_ev) == NULL && __CPROVER_old(stream->clock_offset) == 0))
__CPROVER_ensures(RV == 0 || RV == -1)
__CPROVER_ensures(RV != 0 || stream->clock_offset == clkoff)
__CPROVER_ensures(RV == 0 || (stream->clock_offset == __CPROVER_old(stream->clock_offset) && g_err > __CPROVER_old(g_err)))
;
void h_stream_clkoff_set(void)
{
	struct stream *s; int64_t off;
	WITNESS_ON(stream_clkoff_set);
	int r = stream_clkoff_set(s, off);
	if (r == 0) REACH("offset set");
	if (r != 0 && w_started) REACH("refused: stream already started");
	if (r != 0 && !w_started && w_old_off != 0) REACH("refused: offset already set");
}

/* =========================== update_clocks =========================== */
/* Carve-out (reported as a finding): lastclock - firstclock is a signed
 * subtraction of two corrected clocks; it overflows when the trace spans 2^63 ns
 * or more (only possible with hostile clock values / offsets). */
long w_sclock, w_plast, w_pfirst; int w_first, w_unsorted;
WITNESS(update_clocks);
#define UC_FIRST(p, s) ((p)->first_event ? (s)->lastclock : (p)->firstclock)

int c_update_clocks(struct player *player, struct stream *stream)
__CPROVER_requires(__CPROVER_is_fresh(player, sizeof(*player)) && __CPROVER_is_fresh(stream, sizeof(*stream)) && DIAG_PRE)
__CPROVER_requires(WBIND(update_clocks, w_sclock == stream->lastclock && w_first == player->first_event &&
	w_plast == player->lastclock && w_pfirst == player->firstclock && w_unsorted == player->unsorted))
__CPROVER_requires(!SUB_OVF(stream->lastclock, UC_FIRST(player, stream)))
__CPROVER_assigns(player->first_event, player->firstclock, player->lastclock, player->deltaclock, DIAG_FRAME)
__CPROVER_ensures(RV == 0 || RV == -1)
/* refused exactly on a backwards jump in sorted mode (never on the first event) */
__CPROVER_ensures((RV == 0) == (__CPROVER_old(player->first_event) != 0 || player->unsorted != 0 ||
	stream->lastclock >= __CPROVER_old(player->lastclock)))
/* accepted: the emulation clock is the corrected clock of this stream's event; the
 * first event fixes the origin; Paraver time = corrected time - origin */
__CPROVER_ensures(RV != 0 || (player->lastclock == stream->lastclock && player->first_event == 0 &&
	player->firstclock == (__CPROVER_old(player->first_event) != 0 ? stream->lastclock : __CPROVER_old(player->firstclock)) &&
	player->deltaclock == player->lastclock - player->firstclock))
__CPROVER_ensures(RV != 0 || __CPROVER_old(player->first_event) == 0 || player->deltaclock == 0)
/* sorted mode: the sequence of accepted clocks is non-decreasing */
__CPROVER_ensures(RV != 0 || __CPROVER_old(player->first_event) != 0 || player->unsorted != 0 ||
	player->lastclock >= __CPROVER_old(player->lastclock))
/* refused: nothing moves, and it says why */
__CPROVER_ensures(RV == 0 || (player->lastclock == __CPROVER_old(player->lastclock) &&
	player->firstclock == __CPROVER_old(player->firstclock) && player->deltaclock == __CPROVER_old(player->deltaclock) &&
	player->first_event == 0 && g_err > __CPROVER_old(g_err)))
/* every backwards jump is diagnosed, also in unsorted mode */
__CPROVER_ensures(__CPROVER_old(player->first_event) != 0 || stream->lastclock >= __CPROVER_old(player->lastclock) ||
	g_err > __CPROVER_old(g_err))
;
void h_update_clocks(void)
{
	struct player *p; struct stream *s;
	WITNESS_ON(update_clocks);
	int r = update_clocks(p, s);
	if (r == 0 && w_first) REACH("first event fixes the origin");
	if (r == 0 && !w_first && w_sclock > w_plast) REACH("time advances");
	if (r == 0 && !w_first && w_sclock == w_plast) REACH("equal clock accepted");
	if (r == 0 && !w_first && w_sclock < w_plast) REACH("unsorted mode: backwards jump accepted");
	if (r != 0) REACH("sorted mode: backwards jump refused");
	if (r == 0 && !w_first && w_pfirst < 0 && w_sclock > 0) REACH("negative origin");
}

/* ===================================================================== *
 *   abstractions used by step_stream / player_step / player_init        *
 * ===================================================================== */
/* ---- the streams a step can tell apart ----
 *   g_ucur : the stream of the current event (player->stream; may be NULL)
 *   g_ua   : a second stream     g_ub : a third stream (arbitrary observer)
 * g_mcur / g_ma / g_mb say whether that stream is a MEMBER of player->heap;
 * g_others counts the members that are none of the three.  Naming convention
 * (WLOG, see plan "assumptions"): when g_others > 0, a member with the smallest
 * key is one of the three named streams. */
struct stream *g_ucur, *g_ua, *g_ub;
int g_mcur, g_ma, g_mb;
long g_others;
unsigned g_nins, g_npop;          /* calls of heap_insert / heap_pop_max so far */
heap_node_t *g_ins_node;          /* node of the last insertion */
int g_pop_which;                  /* what the last pop returned: 0 NULL, 1 g_ucur, 2 g_ua, 3 g_ub */
unsigned g_ss_n, g_ss_nfail;      /* calls of stream_step so far / of them failed */
struct stream *g_ss_stream;       /* stream of the last stream_step */
int g_ss_ret;                     /* its result */

#define IS_NODE(n, s) ((s) != NULL && (n) == &(s)->hh)
#define NMEMB ((long) g_mcur + (long) g_ma + (long) g_mb + g_others)
#define FLAGS_OK ((g_mcur == 0 || g_mcur == 1) && (g_ma == 0 || g_ma == 1) && (g_mb == 0 || g_mb == 1) && \
	(g_mcur == 0 || g_ucur != NULL) && g_others >= 0 && g_others < (1L << 40))
/* abstract heap invariant: size counts the members, root is NULL iff empty */
#define HEAP_ABS_INV(h) (FLAGS_OK && (h)->size == (size_t) NMEMB && ((h)->root == NULL) == ((h)->size == 0))
#define LOG_PRE (g_nins < 1000000u && g_npop < 1000000u && g_ss_n < 1000000u && g_ss_nfail < 1000000u)
#define ABS_FRAME g_mcur, g_ma, g_mb, g_nins, g_npop, g_ins_node, g_pop_which, g_ss_n, g_ss_nfail, g_ss_stream, g_ss_ret

/* ---- abstract heap (ASSUMED here; validated by c03_heap.c) ----
 * "insert adds one member; pop removes and returns a member whose key is maximal
 *  for stream_cmp (= whose lastclock is minimal), NULL exactly when there is no
 *  member; size counts the members; nothing else changes."
 * The link fields `hh` of the streams are private to the heap: left unspecified
 * (havocked).  The VASSERTs are the preconditions, checked at every call. */
heap_node_t *nondet_hnode(void);
static void abs_havoc_links(void)
{
	if (g_ucur != NULL) { g_ucur->hh.parent = nondet_hnode(); g_ucur->hh.left = nondet_hnode(); g_ucur->hh.right = nondet_hnode(); }
	g_ua->hh.parent = nondet_hnode(); g_ua->hh.left = nondet_hnode(); g_ua->hh.right = nondet_hnode();
	g_ub->hh.parent = nondet_hnode(); g_ub->hh.left = nondet_hnode(); g_ub->hh.right = nondet_hnode();
}
static void abs_heap_insert(heap_head_t *head, heap_node_t *node, heap_node_compare_t cmp)
{
	VASSERT(cmp == stream_cmp, "abstract heap: the comparator is stream_cmp");
	VASSERT(HEAP_ABS_INV(head), "abstract heap: invariant holds when heap_insert is called");
	VASSERT(IS_NODE(node, g_ucur) || IS_NODE(node, g_ua) || IS_NODE(node, g_ub), "abstract heap: the inserted node is the hh of a known stream");
	VASSERT(!(IS_NODE(node, g_ucur) && g_mcur) && !(IS_NODE(node, g_ua) && g_ma) && !(IS_NODE(node, g_ub) && g_mb),
		"abstract heap: a node is never inserted twice");
	if (IS_NODE(node, g_ucur)) g_mcur = 1;
	else if (IS_NODE(node, g_ua)) g_ma = 1;
	else g_mb = 1;
	head->size++;
	heap_node_t *r = nondet_hnode();
	__CPROVER_assume(r != NULL);
	head->root = r;
	abs_havoc_links();
	g_nins++;
	g_ins_node = node;
}
#define POP_MIN(X) ((!g_mcur || (X)->lastclock <= g_ucur->lastclock) && \
	(!g_ma || (X)->lastclock <= g_ua->lastclock) && (!g_mb || (X)->lastclock <= g_ub->lastclock))
static heap_node_t *abs_heap_pop_max(heap_head_t *head, heap_node_compare_t cmp)
{
	VASSERT(cmp == stream_cmp, "abstract heap: the comparator is stream_cmp");
	VASSERT(HEAP_ABS_INV(head), "abstract heap: invariant holds when heap_pop_max is called");
	/* naming convention: a minimal member is one of the named streams */
	VASSERT(g_others == 0 || g_mcur || g_ma || g_mb, "abstract heap: a minimal member is named");
	g_npop++;
	if (head->size == 0) {
		g_pop_which = 0;
		return NULL;
	}
	int w = nondet_int();
	__CPROVER_assume((w == 1 && g_mcur && POP_MIN(g_ucur)) || (w == 2 && g_ma && POP_MIN(g_ua)) || (w == 3 && g_mb && POP_MIN(g_ub)));
	g_pop_which = w;
	head->size--;
	heap_node_t *r = nondet_hnode();
	__CPROVER_assume((r == NULL) == (head->size == 0));
	head->root = r;
	abs_havoc_links();
	if (w == 1) { g_mcur = 0; return &g_ucur->hh; }
	if (w == 2) { g_ma = 0; return &g_ua->hh; }
	g_mb = 0;
	return &g_ub->hh;
}

/* ---- abstraction of stream_step (ASSUMED here; every clause follows from
 * c_stream_step, proved on the real body in plan C12 / C19, plus the range
 * assumption RAW_OK/OFF_OK).  A loaded event is modelled as an object of
 * sizeof(struct ovni_ev) bytes (the real one lies inside the mapped stream). */
/* (the event fits in the stream and its size fits an int: sp_fits of C12) */
#define EVENT_LOADED(s) ((s)->active != 0 && RAW_OK((s)->cur_ev->header.clock) && OFF_OK((s)->clock_offset) && \
	(s)->lastclock == (long) (s)->cur_ev->header.clock + (s)->clock_offset && \
	(!((s)->cur_ev->header.flags & OVNI_EV_JUMBO) || (s)->cur_ev->payload.jumbo.size <= 0x7fffffffu - 16u))
int ca_stream_step(struct stream *stream)
__CPROVER_requires(__CPROVER_rw_ok(stream, sizeof(*stream)) && OFF_OK(stream->clock_offset))
__CPROVER_assigns(stream->offset, stream->active, stream->cur_ev, stream->lastclock, stream->deltaclock,
	DIAG_FRAME, g_ss_n, g_ss_nfail, g_ss_stream, g_ss_ret)
__CPROVER_ensures(RV == 0 || RV == -1 || RV == 1)
/* (pointer_equals, not ==: a havocked pointer that is merely assumed equal makes a
 * SECOND call of the contract infeasible -- measured, HOWTO pitfall 1) */
__CPROVER_ensures(g_ss_n == __CPROVER_old(g_ss_n) + 1 && __CPROVER_pointer_equals(g_ss_stream, stream) && g_ss_ret == RV)
__CPROVER_ensures(g_ss_nfail == __CPROVER_old(g_ss_nfail) + (RV == -1 ? 1 : 0))
/* an inactive stream cannot be stepped */
__CPROVER_ensures(__CPROVER_old(stream->active) != 0 || RV == -1)
/* +1: the loaded event was the last one; the stream becomes inactive */
__CPROVER_ensures(RV != 1 || (stream->active == 0 && stream->cur_ev == NULL && stream->lastclock == __CPROVER_old(stream->lastclock)))
/* 0: the next event is loaded; lastclock is its corrected clock; in a sorted
 * stream it is not smaller than the previous one */
__CPROVER_ensures(RV != 0 || (__CPROVER_is_fresh(stream->cur_ev, sizeof(struct ovni_ev)) &&
	stream->active == __CPROVER_old(stream->active) && EVENT_LOADED(stream) &&
	(stream->unsorted != 0 || stream->lastclock >= __CPROVER_old(stream->lastclock))))
/* -1: says why (one err() on every failing path, none otherwise -- read from the
 * code; C12 proves "> old" only), clock untouched */
__CPROVER_ensures(RV != -1 || (g_err > __CPROVER_old(g_err) && stream->lastclock == __CPROVER_old(stream->lastclock)))
__CPROVER_ensures(g_err >= __CPROVER_old(g_err) && g_err <= __CPROVER_old(g_err) + 1 && g_warn == __CPROVER_old(g_warn) &&
	g_diag >= __CPROVER_old(g_diag) && g_diag <= __CPROVER_old(g_diag) + 1)
;

/* a heap member always has an event loaded */
/* stream invariant (C12 REQ_STREAM_SHAPE): cur_ev is NULL or points to a loaded event */
#define CUR_EV_OK(s) ((s)->cur_ev == NULL || __CPROVER_is_fresh((s)->cur_ev, sizeof(struct ovni_ev)))
#define MEMBER_OK(m, s) (!(m) || ((s)->cur_ev != NULL && EVENT_LOADED(s)))
#define STEP_FRAME(s) (s)->offset, (s)->active, (s)->cur_ev, (s)->lastclock, (s)->deltaclock, (s)->hh

/* ============================ step_stream ============================ */
int w_ss_active;
WITNESS(step_stream);
int c_step_stream(struct player *player, struct stream *stream)
__CPROVER_requires(__CPROVER_is_fresh(player, sizeof(*player)) && __CPROVER_is_fresh(stream, sizeof(*stream)))
__CPROVER_requires(__CPROVER_pointer_equals(g_ua, stream) && __CPROVER_is_fresh(g_ub, sizeof(struct stream)) && g_ucur == NULL)
__CPROVER_requires(DIAG_PRE && LOG_PRE && g_mcur == 0 && g_ma == 0 && HEAP_ABS_INV(&player->heap))
__CPROVER_requires(OFF_OK(stream->clock_offset) && player->nprocessed >= 0 && player->nprocessed < I64_MAX)
__CPROVER_requires(WBIND(step_stream, w_ss_active == stream->active))
__CPROVER_assigns(player->heap.root, player->heap.size, player->nprocessed, STEP_FRAME(stream), g_ub->hh, DIAG_FRAME, ABS_FRAME)
__CPROVER_ensures(RV == 0 || RV == 1 || RV == -1)
/* an inactive stream is neither stepped nor inserted */
__CPROVER_ensures(__CPROVER_old(stream->active) != 0 || (RV == 1 && g_ss_n == __CPROVER_old(g_ss_n) &&
	g_nins == __CPROVER_old(g_nins) && g_ma == 0 && player->heap.size == __CPROVER_old(player->heap.size) &&
	player->nprocessed == __CPROVER_old(player->nprocessed) && stream->active == 0))
/* an active stream is stepped exactly once; it is inserted exactly when the step loaded an event */
__CPROVER_ensures(__CPROVER_old(stream->active) == 0 || (g_ss_n == __CPROVER_old(g_ss_n) + 1 && g_ss_stream == stream &&
	RV == g_ss_ret))
__CPROVER_ensures(__CPROVER_old(stream->active) == 0 || g_ss_ret != 0 || (g_nins == __CPROVER_old(g_nins) + 1 &&
	g_ins_node == &stream->hh && g_ma == 1 && player->heap.size == __CPROVER_old(player->heap.size) + 1 &&
	player->nprocessed == __CPROVER_old(player->nprocessed) + 1 && stream->active != 0))
__CPROVER_ensures(__CPROVER_old(stream->active) == 0 || g_ss_ret == 0 || (g_nins == __CPROVER_old(g_nins) && g_ma == 0 &&
	player->heap.size == __CPROVER_old(player->heap.size) && player->nprocessed == __CPROVER_old(player->nprocessed)))
__CPROVER_ensures(RV != -1 || g_err > __CPROVER_old(g_err))
__CPROVER_ensures(g_npop == __CPROVER_old(g_npop) && g_mb == __CPROVER_old(g_mb) && HEAP_ABS_INV(&player->heap))
;
void h_step_stream(void)
{
	struct player *p; struct stream *s;
	heap_node_compare_t f = stream_cmp; (void) f;
	WITNESS_ON(step_stream);
	int r = step_stream(p, s);
	if (r == 0) REACH("stepped and inserted");
	if (r == 1 && !w_ss_active) REACH("inactive stream skipped");
	if (r == 1 && w_ss_active) REACH("stream exhausted");
	if (r == -1) REACH("step failed");
}

/* ============================ player_step ============================ */
int g_inv;            /* pre-state: merge invariant I (below) holds */
int g_cur_sorted;     /* pre-state: the current stream is in sorted mode */
int g_cur_active;     /* pre-state: there is a current stream and it is active */
int w_has_cur, w_cur_active, w_ma, w_mb, w_first_event, w_punsorted;
long w_others, w_plastclock, w_cur_clock, w_a_clock, w_b_clock;
WITNESS(player_step);

/* I: the emulation clock is not ahead of any stream still to be merged */
#define MERGE_INV(p) ((p)->first_event != 0 || ( \
	(g_ucur == NULL || (p)->lastclock <= g_ucur->lastclock) && \
	(!g_ma || (p)->lastclock <= g_ua->lastclock) && (!g_mb || (p)->lastclock <= g_ub->lastclock)))
#define INSERTED (g_nins != __CPROVER_old(g_nins))
/* the event the step emits is the loaded event of stream X, stamped with X's
 * corrected clock and with the Paraver time */
#define EMITS(p, X) ((p)->stream == (X) && (p)->lastclock == (X)->lastclock && \
	(p)->ev.sclock == (X)->lastclock && (p)->ev.dclock == (p)->deltaclock && \
	(p)->deltaclock == (p)->lastclock - (p)->firstclock && \
	(p)->ev.m == (X)->cur_ev->header.model && (p)->ev.c == (X)->cur_ev->header.category && \
	(p)->ev.v == (X)->cur_ev->header.value && (p)->ev.rclock == (int64_t) (X)->cur_ev->header.clock && \
	(p)->ev.sclock == (p)->ev.rclock + (X)->clock_offset && \
	((p)->ev.payload == NULL || (p)->ev.payload == &(X)->cur_ev->payload))
/* X has the smallest corrected clock among the members (after the re-insertion) */
#define IS_MIN(X) ((!INSERTED || (X)->lastclock <= g_ucur->lastclock) && \
	(!__CPROVER_old(g_ma) || (X)->lastclock <= g_ua->lastclock) && \
	(!__CPROVER_old(g_mb) || (X)->lastclock <= g_ub->lastclock))

int c_player_step(struct player *player)
__CPROVER_requires(__CPROVER_is_fresh(player, sizeof(*player)))
__CPROVER_requires(player->stream == NULL || __CPROVER_is_fresh(player->stream, sizeof(struct stream)))
__CPROVER_requires(__CPROVER_pointer_equals(g_ucur, player->stream))
__CPROVER_requires(__CPROVER_is_fresh(g_ua, sizeof(struct stream)) && __CPROVER_is_fresh(g_ub, sizeof(struct stream)))
__CPROVER_requires(DIAG_PRE && LOG_PRE && g_mcur == 0 && HEAP_ABS_INV(&player->heap))
/* naming convention: if there are members besides the named ones, g_ua is a minimal member */
__CPROVER_requires(g_others == 0 || g_ma)
__CPROVER_requires(CUR_EV_OK(g_ua))
__CPROVER_requires(CUR_EV_OK(g_ub))
__CPROVER_requires(g_ucur == NULL || CUR_EV_OK(g_ucur))
__CPROVER_requires(MEMBER_OK(g_ma, g_ua))
__CPROVER_requires(MEMBER_OK(g_mb, g_ub))
__CPROVER_requires(g_ucur == NULL || (OFF_OK(g_ucur->clock_offset) && CLK_OK(g_ucur->lastclock)))
__CPROVER_requires(CLK_OK(player->lastclock) && CLK_OK(player->firstclock))
__CPROVER_requires(player->nprocessed >= 0 && player->nprocessed < I64_MAX)
__CPROVER_requires(g_inv == MERGE_INV(player) && g_cur_sorted == (g_ucur == NULL || g_ucur->unsorted == 0))
__CPROVER_requires(g_cur_active == (g_ucur != NULL && g_ucur->active != 0))
__CPROVER_requires(WBIND(player_step, w_has_cur == (g_ucur != NULL) && (g_ucur == NULL || (w_cur_active == g_ucur->active && w_cur_clock == g_ucur->lastclock)) &&
	w_ma == g_ma && w_mb == g_mb && w_others == g_others && w_first_event == player->first_event && w_punsorted == player->unsorted &&
	w_plastclock == player->lastclock && w_a_clock == g_ua->lastclock && w_b_clock == g_ub->lastclock))
__CPROVER_assigns(player->heap.root, player->heap.size, player->nprocessed, player->stream, player->first_event,
	player->firstclock, player->lastclock, player->deltaclock, player->ev, g_ua->hh, g_ub->hh, DIAG_FRAME, ABS_FRAME)
__CPROVER_assigns(g_ucur != NULL: STEP_FRAME(g_ucur))
__CPROVER_ensures(RV == 0 || RV == 1 || RV == -1)
/* (1) the stream of the previous event -- and only it -- is advanced, exactly once, iff it was active */
__CPROVER_ensures(g_ss_n == __CPROVER_old(g_ss_n) + (g_cur_active ? 1 : 0))
__CPROVER_ensures(g_ss_n == __CPROVER_old(g_ss_n) || g_ss_stream == g_ucur)
/* (2) it is put back exactly when it is still active (has a next event); nothing else is inserted */
__CPROVER_ensures(g_nins == __CPROVER_old(g_nins) || (g_nins == __CPROVER_old(g_nins) + 1 && g_ucur != NULL && g_ins_node == &g_ucur->hh))
__CPROVER_ensures(RV == -1 || INSERTED == (g_ucur != NULL && g_ucur->active != 0))
__CPROVER_ensures(INSERTED == (g_ss_n != __CPROVER_old(g_ss_n) && g_ss_ret == 0))
__CPROVER_ensures(player->nprocessed == __CPROVER_old(player->nprocessed) + (INSERTED ? 1 : 0))
/* (3) +1 exactly when no stream is left */
__CPROVER_ensures(RV == -1 || (RV == 1) == (!INSERTED && !__CPROVER_old(g_ma) && !__CPROVER_old(g_mb) && g_others == 0))
__CPROVER_ensures(RV != 1 || (player->stream == g_ucur && player->heap.size == 0 && g_npop == __CPROVER_old(g_npop) + 1))
/* (4) otherwise the member with the smallest corrected clock is removed and its
 * loaded event is emitted, once (one pop, one emu_ev) */
__CPROVER_ensures(RV != 0 || (g_npop == __CPROVER_old(g_npop) + 1 &&
	player->heap.size == __CPROVER_old(player->heap.size) + (INSERTED ? 1 : 0) - 1))
__CPROVER_ensures(RV != 0 ||
	(INSERTED && g_pop_which == 1 && EMITS(player, g_ucur) && IS_MIN(g_ucur) &&
		g_mcur == 0 && g_ma == __CPROVER_old(g_ma) && g_mb == __CPROVER_old(g_mb)) ||
	(__CPROVER_old(g_ma) && g_pop_which == 2 && EMITS(player, g_ua) && IS_MIN(g_ua) &&
		g_ma == 0 && g_mcur == (INSERTED ? 1 : 0) && g_mb == __CPROVER_old(g_mb)) ||
	(__CPROVER_old(g_mb) && g_pop_which == 3 && EMITS(player, g_ub) && IS_MIN(g_ub) &&
		g_mb == 0 && g_mcur == (INSERTED ? 1 : 0) && g_ma == __CPROVER_old(g_ma)))
/* (5) non-decreasing emulation clock in sorted mode; first event fixes the origin */
__CPROVER_ensures(RV != 0 || __CPROVER_old(player->first_event) != 0 || player->unsorted != 0 ||
	player->lastclock >= __CPROVER_old(player->lastclock))
__CPROVER_ensures(RV != 0 || (player->first_event == 0 &&
	player->firstclock == (__CPROVER_old(player->first_event) != 0 ? player->lastclock : __CPROVER_old(player->firstclock))))
/* (6) failure: only a failed stream_step or a backwards jump in sorted mode; under
 * the merge invariant with a sorted current stream the second cannot happen */
__CPROVER_ensures(RV != -1 || g_err > __CPROVER_old(g_err))
__CPROVER_ensures(g_ss_nfail == __CPROVER_old(g_ss_nfail) || RV == -1)
__CPROVER_ensures(RV != -1 || g_ss_nfail != __CPROVER_old(g_ss_nfail) ||
	(player->unsorted == 0 && __CPROVER_old(player->first_event) == 0 && (!g_inv || !g_cur_sorted)))
__CPROVER_ensures(!(g_inv && g_cur_sorted) || (RV == -1) == (g_ss_nfail != __CPROVER_old(g_ss_nfail)))
/* (7) invariants re-established: abstract heap invariant; I for the new current stream */
__CPROVER_ensures(RV == -1 || HEAP_ABS_INV(&player->heap))
__CPROVER_ensures(RV != 0 || ((!g_mcur || player->lastclock <= g_ucur->lastclock) &&
	(!g_ma || player->lastclock <= g_ua->lastclock) && (!g_mb || player->lastclock <= g_ub->lastclock) &&
	player->lastclock == player->stream->lastclock))
__CPROVER_ensures(RV != 0 || ((!g_mcur || g_ucur->active != 0) && (!g_ma || g_ua->active != 0) && (!g_mb || g_ub->active != 0) &&
	player->stream->active != 0 && player->stream->cur_ev != NULL))
;
void h_player_step(void)
{
	struct player *p;
	heap_node_compare_t f = stream_cmp; (void) f;
	WITNESS_ON(player_step);
	int r = player_step(p);
	if (r == 0 && g_pop_which == 1) REACH("the stepped stream is the earliest again");
	if (r == 0 && g_pop_which == 2 && g_mcur) REACH("another stream is earlier; stepped stream waits in the heap");
	if (r == 0 && g_pop_which == 2 && !g_mcur && w_has_cur && w_cur_active) REACH("stepped stream exhausted, another stream continues");
	if (r == 0 && g_pop_which == 3) REACH("third stream popped");
	if (r == 0 && !w_has_cur && w_first_event) REACH("first event of the replay");
	if (r == 0 && w_others > 0) REACH("heap with further members");
	if (r == 0 && g_pop_which == 2 && g_mcur && w_a_clock == w_cur_clock) REACH("equal clocks in two streams");
	if (r == 1 && w_has_cur) REACH("last stream exhausted: end of replay");
	if (r == 1 && !w_has_cur) REACH("no stream at all");
	if (r == -1 && g_cur_active && g_ss_ret == -1) REACH("stream_step failed");
	if (r == -1 && !(g_cur_active && g_ss_ret == -1) && !g_inv) REACH("backwards jump refused (merge invariant not assumed)");
	if (r == -1 && !(g_cur_active && g_ss_ret == -1) && g_inv && !g_cur_sorted) REACH("backwards jump refused (unsorted stream in a sorted replay)");
}

/* ============================ player_init ============================ */
/* BOUNDED: the trace list holds n <= 3 streams (DL_FOREACH is unwound).  The
 * harness builds the list itself (concrete pointers: 3x faster than a contract
 * with the list shape in `requires`) and checks the postconditions by assertions
 * (no frame check in this group); heap calls go to the abstract heap,
 * stream_step to ca_stream_step.
 * The three named streams are the three list candidates: g_ucur = s0, g_ua = s1,
 * g_ub = s2; the first n of them are linked into trace->streams. */
#define GATE (3600L * 1000L * 1000L * 1000L)
#define FAR(x, y) ((x)->lastclock - (y)->lastclock > GATE || (y)->lastclock - (x)->lastclock > GATE)
/* some active stream starts more than one hour away from the first active one */
#define GATE_VIOLATED ((g_mcur && g_ma && FAR(g_ucur, g_ua)) || (g_mcur && g_mb && FAR(g_ucur, g_ub)) || \
	(!g_mcur && g_ma && g_mb && FAR(g_ua, g_ub)))
#define NINS ((g_mcur ? 1 : 0) + (g_ma ? 1 : 0) + (g_mb ? 1 : 0))
int w_pi_n, w_pi_unsorted, w_pi_act0, w_pi_act1, w_pi_act2;

static struct stream *pi_new_stream(void)
{
	struct stream *s = malloc(sizeof(struct stream));
	__CPROVER_assume(s != NULL);
	/* stream invariant: cur_ev is NULL or a loaded event */
	if (nondet_bool()) {
		s->cur_ev = NULL;
	} else {
		s->cur_ev = malloc(sizeof(struct ovni_ev));
		__CPROVER_assume(s->cur_ev != NULL);
	}
	__CPROVER_assume(OFF_OK(s->clock_offset));
	return s;
}

void h_player_init(void)
{
	heap_node_compare_t f = stream_cmp; (void) f;
	struct player *p = malloc(sizeof(struct player));
	struct trace *t = malloc(sizeof(struct trace));
	__CPROVER_assume(p != NULL && t != NULL);
	struct stream *s0 = pi_new_stream(), *s1 = pi_new_stream(), *s2 = pi_new_stream();
	int n = nondet_int(), unsorted = nondet_int();
	__CPROVER_assume(n >= 0 && n <= 3);
	t->streams = n >= 1 ? s0 : NULL;
	s0->next = n >= 2 ? s1 : NULL;
	s1->next = n >= 3 ? s2 : NULL;
	s2->next = NULL;
	g_ucur = s0; g_ua = s1; g_ub = s2;
	g_mcur = 0; g_ma = 0; g_mb = 0; g_others = 0;
	__CPROVER_assume(DIAG_PRE && LOG_PRE);
	/* pre-state */
	int act0 = n >= 1 && s0->active != 0, act1 = n >= 2 && s1->active != 0, act2 = n >= 3 && s2->active != 0;
	int uns0 = s0->unsorted, uns1 = s1->unsorted, uns2 = s2->unsorted;
	unsigned ss_n0 = g_ss_n, ss_nfail0 = g_ss_nfail, nins0 = g_nins, npop0 = g_npop, err0 = g_err;
	w_pi_n = n; w_pi_unsorted = unsorted; w_pi_act0 = act0; w_pi_act1 = act1; w_pi_act2 = act2;

	int r = player_init(p, t, unsorted);

	VASSERT(r == 0 || r == -1, "player_init returns 0 or -1");
	/* initial player state: no current stream, first event pending */
	VASSERT(r != 0 || (p->first_event == 1 && p->stream == NULL && p->trace == t && p->unsorted == unsorted && g_npop == npop0),
		"accepted: no current stream, first event pending, nothing popped");
	/* every initially active stream is stepped exactly once, inactive ones never */
	VASSERT(r != 0 || g_ss_n == ss_n0 + (unsigned) (act0 + act1 + act2), "each initially active stream is stepped exactly once, no other");
	/* a stream is in the heap exactly when its first event got loaded */
	VASSERT(r != 0 || (g_mcur == (n >= 1 && s0->active != 0) && g_ma == (n >= 2 && s1->active != 0) && g_mb == (n >= 3 && s2->active != 0)),
		"a stream is a heap member exactly when it is (still) active");
	VASSERT(r != 0 || ((!g_mcur || (act0 && s0->cur_ev != NULL)) && (!g_ma || (act1 && s1->cur_ev != NULL)) && (!g_mb || (act2 && s2->cur_ev != NULL))),
		"every heap member has its first event loaded");
	VASSERT(r != 0 || (HEAP_ABS_INV(&p->heap) && p->heap.size == (size_t) NINS && p->nprocessed == NINS && g_nins == nins0 + (unsigned) NINS),
		"heap size = number of insertions = nprocessed");
	/* unsorted replay marks every stream unsorted; sorted replay leaves the flags alone */
	VASSERT(r != 0 || unsorted == 0 || ((n < 1 || s0->unsorted == 1) && (n < 2 || s1->unsorted == 1) && (n < 3 || s2->unsorted == 1)),
		"unsorted replay: every stream of the trace is marked unsorted");
	VASSERT(unsorted != 0 || (s0->unsorted == uns0 && s1->unsorted == uns1 && s2->unsorted == uns2), "sorted replay: unsorted flags untouched");
	VASSERT((n >= 1 || s0->unsorted == uns0) && (n >= 2 || s1->unsorted == uns1) && (n >= 3 || s2->unsorted == uns2), "streams outside the trace untouched");
	/* failure exactly when a stream_step failed or (sorted replay) the clock gate is exceeded */
	VASSERT(r != -1 || g_err > err0, "failure is diagnosed");
	VASSERT(g_ss_nfail == ss_nfail0 || r == -1, "a failed stream_step fails player_init");
	VASSERT(g_ss_nfail != ss_nfail0 || (r == -1) == (unsorted == 0 && GATE_VIOLATED),
		"without step failure: refused exactly when (sorted replay) a first clock is more than 1 h away from the first stream's");

	if (r == 0 && n == 0) REACH("empty trace");
	if (r == 0 && n == 3 && g_mcur && g_ma && g_mb) REACH("three streams loaded");
	if (r == 0 && n == 3 && g_mcur && !g_ma && g_mb && act1) REACH("middle stream has no event");
	if (r == 0 && n == 2 && !act0 && g_ma) REACH("inactive stream skipped");
	if (r == 0 && unsorted && g_mcur && g_ma) REACH("unsorted replay");
	if (r == -1 && g_ss_nfail != ss_nfail0) REACH("a first step failed");
	if (r == -1 && g_ss_nfail == ss_nfail0 && g_mcur && g_ma) REACH("clock gate exceeded");
	if (r == 0 && !unsorted && g_mcur && g_ma && s0->lastclock != s1->lastclock) REACH("two streams within the gate");
}
