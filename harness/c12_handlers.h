/* C12 -- shared by the handler payload-size groups (c12_ovni_event.c, c12_mark.c,
 * c12_nosv.c, c12_nanos6.c).  Included after prelude.h and BEFORE the real model file. */
#ifndef C12_HANDLERS_H
#define C12_HANDLERS_H
#include "emu.h"
#include "emu_ev.h"
#include "thread.h"
#include "proc.h"
#include "loom.h"
#include "cpu.h"
#include "ovni.h"

/* number of calls into other modules (stubs increment it).  It is in a handler's
 * write frame only when the payload size is acceptable: on a wrong-size path a
 * single call is a frame violation ("touches nothing"). */
unsigned g_calls;
#define CALLS_PRE (g_calls < 1000000u)

/* witnesses */
unsigned long w_psize, w_jsize;
int w_state, w_is_jumbo;
unsigned char w_v, w_c;
unsigned long w_pobj;   /* size of the object holding the payload */

/* The current event as emu_ev() leaves it (contract c_emu_ev in c12_stream.c):
 * payload NULL iff payload_size 0, has_payload iff payload_size > 0, is_jumbo 0/1,
 * a jumbo payload is the u32 size followed by that many bytes.  payload_size is
 * otherwise ARBITRARY (more general than the 0/2..16 the format allows).  The
 * payload object has at least the 16 bytes of union ovni_ev_payload (CBMC checks
 * member accesses against the whole union); exact payload bounds are C19's claim. */
#define REQ_EMU_EV(emu) \
	__CPROVER_requires(__CPROVER_is_fresh(emu, sizeof(*(emu)))) \
	__CPROVER_requires(__CPROVER_is_fresh((emu)->ev, sizeof(struct emu_ev))) \
	__CPROVER_requires((emu)->ev->payload_size <= (1UL << 33) && \
		((emu)->ev->is_jumbo == 0 || (emu)->ev->is_jumbo == 1) && \
		(emu)->ev->has_payload == ((emu)->ev->payload_size > 0) && \
		(!(emu)->ev->is_jumbo || (emu)->ev->payload_size >= 4)) \
	__CPROVER_requires(w_pobj == ((emu)->ev->payload_size < 16 ? 16 : (emu)->ev->payload_size)) \
	__CPROVER_requires(((emu)->ev->payload_size == 0 && (emu)->ev->payload == NULL) || \
		((emu)->ev->payload_size != 0 && __CPROVER_is_fresh((emu)->ev->payload, w_pobj))) \
	__CPROVER_requires(!(emu)->ev->is_jumbo || \
		(unsigned long) (emu)->ev->payload->jumbo.size + 4UL == (emu)->ev->payload_size)

#endif
