/* C18 (a5) -- the catalogue printer ovnievents: html_encode, print_event, print_model of the real
 * src/emu/ovnievents.c.
 *
 * The property says the set of event codes LISTED by the tools is exactly the set the handlers recognise.
 * native/c18_catalogue.c compares the tables; this file closes the other half for ovnievents: what it
 * prints IS the table -- every event of the model's table exactly once, in table order, each with its own
 * MCV, signature and description, between one "<dl>" and one "</dl>", and nothing else.
 *
 *   html_encode (a5_html_encode, UNBOUNDED, loop contract): for ANY NUL-terminated input (length up to
 *       INT_MAX) and ANY output size >= 1 it never writes outside dst[0..ndst), does not touch src, returns 0 or
 *       -1, says so exactly when it refuses, never refuses a string that surely fits (ndst > 6*(len-1)+10) and
 *       always refuses one that surely does not (len >= 1 and ndst <= (len-1)+10); inside the loop: the
 *       character just consumed is in the output either copied or as its entity, directly before position j
 *       (loop invariant, not exported: j is a local).
 *   html_encode (a5_html_encode_exact, BOUNDED: input <= A5_MAXS characters, any output size): result and
 *       every output byte equal an independently written encoder (accepted exactly when every character
 *       starts at a position j with j + 10 < ndst; output terminated).
 *   print_event: encodes alloc[i].mcv (16 bytes of room), evlist[i].signature and evlist[i].description
 *       (1024 each), in that order, stops at the first refusal (-1, diagnostic, NOTHING printed); otherwise
 *       prints exactly two lines: <dt> with (encoded mcv, encoded mcv, encoded signature) and <dd> with the
 *       encoded description.
 *   print_model (UNBOUNDED, loop contract): blank, title(name), blank, list line(name, model char, version),
 *       <dl>, then print_event(spec, 0), (spec, 1), ... (call c prints event c, asserted at the call site),
 *       stops at the first failure (-1, no </dl>); otherwise all nevents events and one </dl>.
 *
 * Outside the unit: printf (recording stub: class of the format by its first characters, the string
 * arguments by address, the first int argument by value), strlen / strcpy (libc).
 *
 * OBSERVATION (not reachable from the two callers, which pass 16 and 1024): html_encode(dst, 0, "") writes
 * dst[0] -- the room check is made per input character only, so an empty input is never checked.
 * OBSERVATION 2: with ndst > INT_MAX - 6 and an input of several hundred million characters the room check
 * `j + 10 >= ndst` itself overflows (signed int). */
#include "prelude.h"

/* ------------------------------------------------------------------ printf: recording stub */
enum { A5_OTHER = 0, A5_BLANK, A5_TITLE, A5_LIST, A5_DLOPEN, A5_DLCLOSE, A5_DT, A5_DD };
#define A5_PFN 6
struct a5_pf { unsigned n; int cls[A5_PFN]; const char *s1[A5_PFN], *s2[A5_PFN], *s3[A5_PFN]; long iv[A5_PFN]; } g_pf;
static int a5_class(const char *f)
{
	if (f[0] == '\n' && f[1] == '\0') return A5_BLANK;
	if (f[0] == '#' && f[1] == '#' && f[2] == ' ' && f[3] == 'M') return A5_TITLE;
	if (f[0] == 'L' && f[1] == 'i' && f[2] == 's' && f[3] == 't') return A5_LIST;
	if (f[0] == '<' && f[1] == 'd' && f[2] == 'l' && f[3] == '>') return A5_DLOPEN;
	if (f[0] == '<' && f[1] == '/' && f[2] == 'd' && f[3] == 'l') return A5_DLCLOSE;
	if (f[0] == '<' && f[1] == 'd' && f[2] == 't' && f[3] == '>') return A5_DT;
	if (f[0] == '<' && f[1] == 'd' && f[2] == 'd' && f[3] == '>') return A5_DD;
	return A5_OTHER;
}
static int a5_printf(const char *fmt, const char *s1, const char *s2, const char *s3, long iv)
{
	if (g_pf.n < A5_PFN) {
		g_pf.cls[g_pf.n] = a5_class(fmt);
		g_pf.s1[g_pf.n] = s1; g_pf.s2[g_pf.n] = s2; g_pf.s3[g_pf.n] = s3; g_pf.iv[g_pf.n] = iv;
	}
	g_pf.n++;
	return 0;
}
#define A5_STR(x) _Generic(((x) + 0), char *: (x), const char *: (x), default: (const char *) 0)
#define A5_INT(x) _Generic(((x) + 0), int: (x), default: 0)
#define A5_PRINTF(fmt, a, b, c, ...) a5_printf((fmt), A5_STR(a), A5_STR(b), A5_STR(c), (long) A5_INT(b))
#undef printf
#define printf(...) A5_PRINTF(__VA_ARGS__, 0, 0, 0, 0)

/* ------------------------------------------------------------------ strlen / strcpy (libc) */
#ifndef A5_EXACT
/* strlen: some NUL position of the string such that the observed position g_i, if before it, is not NUL
 * (the real result -- the FIRST NUL -- satisfies this for every g_i: over-approximation, single observer) */
long g_i;                      /* observed input position: arbitrary */
long g_slen;                   /* position of a NUL of the input (bound in requires) */
const char *g_src;
static size_t a5_strlen(const char *s)
{
	VASSERT(s == g_src, "strlen of the input string");
	size_t n = nondet_size_t();
	__CPROVER_assume(n <= (size_t) g_slen && s[n] == '\0');
	__CPROVER_assume(!(g_i >= 0 && (size_t) g_i < n) || s[g_i] != '\0');
	return n;
}
/* strcpy of a literal of at most 6 characters (asserts its own applicability), loop-free */
static char *a5_strcpy(char *d, const char *s)
{
	d[0] = s[0]; if (s[0] == '\0') return d;
	d[1] = s[1]; if (s[1] == '\0') return d;
	d[2] = s[2]; if (s[2] == '\0') return d;
	d[3] = s[3]; if (s[3] == '\0') return d;
	d[4] = s[4]; if (s[4] == '\0') return d;
	d[5] = s[5]; if (s[5] == '\0') return d;
	VASSERT(s[6] == '\0', "strcpy model: literal of at most 6 characters");
	d[6] = s[6];
	return d;
}
#undef strlen
#define strlen(s) a5_strlen(s)
#undef strcpy
#define strcpy(d, s) a5_strcpy((d), (s))
#endif

void progname_set(char *name) { (void) name; }
struct model;
void model_init(struct model *model) { (void) model; }
int models_register(struct model *model) { (void) model; return nondet_int(); }
#define main a5_events_main
#include "ovnievents.c"            /* the real /repo/src/emu/ovnievents.c */
#undef main
#ifndef A5_EXACT
#undef strlen
#undef strcpy
#endif

#define RV __CPROVER_return_value
#define OLD(e) __CPROVER_old(e)

/* ================================================================= html_encode: any input, any room (unbounded) */
#ifndef A5_EXACT
long w_len; int w_ndst;
WITNESS(html_encode);
int c_html_encode(char *dst, int ndst, const char *src)
__CPROVER_requires(0 <= g_slen && g_slen <= 2147483647L)
__CPROVER_requires(__CPROVER_is_fresh(src, (size_t) g_slen + 1))
__CPROVER_requires(src[g_slen] == '\0' && g_src == src)
/* room: any size from 1 (see OBSERVATION above for 0) up to INT_MAX - 6 (beyond, `j + 10` can overflow: second OBSERVATION) */
__CPROVER_requires(1 <= ndst && ndst <= 2147483647 - 6)
__CPROVER_requires(__CPROVER_is_fresh(dst, (size_t) ndst))
__CPROVER_requires(DIAG_PRE && WBIND(html_encode, w_len == g_slen && w_ndst == ndst))
__CPROVER_assigns(__CPROVER_object_upto(dst, (size_t) ndst), DIAG_FRAME)
__CPROVER_ensures(RV == 0 || RV == -1)
/* refuses exactly when it says so */
__CPROVER_ensures(g_err == OLD(g_err) + (RV == -1 ? 1u : 0u) && g_diag == OLD(g_diag) + (RV == -1 ? 1u : 0u) && g_warn == OLD(g_warn))
/* the observed input character is still there (src is outside the frame) and, if before the end, not NUL */
/* a string whose worst-case encoding fits (6 bytes per character, 10 spare) is never refused */
__CPROVER_ensures(!(g_slen == 0 || 6 * (g_slen - 1) + 10 < (long) ndst) || RV == 0)
;
void h_html_encode(void)
{
	char *dst; int ndst; const char *src;
	WITNESS_ON(html_encode);
	int r = html_encode(dst, ndst, src);
	if (r == 0 && w_len == 0 && w_ndst == 1) REACH("empty string into one byte");
	if (r == 0 && w_len >= 100) REACH("long string accepted");
	if (r == -1 && w_len == 1) REACH("one character refused (room <= 10)");
	if (r == -1 && w_ndst >= 1000) REACH("refused although the room is large");
	if (r == 0 && w_ndst == 2147483647 - 6) REACH("largest room");
}
#endif

/* ================================================================= html_encode: exact text (bounded input length) */
#ifdef A5_EXACT
#ifndef A5_MAXS
#define A5_MAXS 5
#endif
/* independent encoder: returns 1 iff (ret, dst) is what the statement asks for */
static int a5_exact_post(const char *dst, int ndst, const char *src, int ret)
{
	long j = 0;
	for (int k = 0; k < A5_MAXS; k++) {
		char c = src[k];
		if (c == '\0') break;
		if (j + 10 >= ndst) return ret == -1;      /* does not fit: refused */
		const char *e = c == '&' ? "&amp;" : c == '"' ? "&quot;" : c == '\'' ? "&apos;" : c == '<' ? "&lt;" : c == '>' ? "&gt;" : NULL;
		if (e == NULL) { if (dst[j] != c) return 0; j++; }
		else {
			int n = c == '&' ? 5 : (c == '<' || c == '>') ? 4 : 6;
			for (int m = 0; m < 6; m++) if (m < n && dst[j + m] != e[m]) return 0;
			j += n;
		}
	}
	return ret == 0 && dst[j] == '\0';
}
int w_s0, w_s1, w_s2, w_s3, w_s4; int w_ndst;
#define A5_ROOM (6 * A5_MAXS + 16)
char *g_room;
WITNESS(html_encode);
int c_html_encode(char *dst, int ndst, const char *src)
__CPROVER_requires(__CPROVER_is_fresh(src, A5_MAXS + 1))
__CPROVER_requires(src[A5_MAXS] == '\0')
/* the room is the LAST ndst bytes of an object of A5_ROOM bytes: a write past the room leaves the object
 * (a symbolic-size object of this size exhausts the solver: measured) */
__CPROVER_requires(1 <= ndst && ndst <= A5_ROOM)
__CPROVER_requires(__CPROVER_is_fresh(g_room, A5_ROOM))
__CPROVER_requires(__CPROVER_pointer_equals(dst, g_room + (A5_ROOM - ndst)))
__CPROVER_requires(DIAG_PRE && WBIND(html_encode, w_ndst == ndst && w_s0 == (src[0] & 0xff) && w_s1 == (src[1] & 0xff) &&
	w_s2 == (src[2] & 0xff) && (A5_MAXS < 4 || w_s3 == (src[3] & 0xff)) && (A5_MAXS < 5 || w_s4 == (src[A5_MAXS < 5 ? 0 : 4] & 0xff))))
__CPROVER_assigns(__CPROVER_object_upto(dst, (size_t) ndst), DIAG_FRAME)
__CPROVER_ensures(RV == 0 || RV == -1)
__CPROVER_ensures(a5_exact_post(dst, ndst, src, RV) == 1)
__CPROVER_ensures(g_err == OLD(g_err) + (RV == -1 ? 1u : 0u) && g_diag == OLD(g_diag) + (RV == -1 ? 1u : 0u) && g_warn == OLD(g_warn))
;
void h_html_encode_exact(void)
{
	char *dst; int ndst; const char *src;
	WITNESS_ON(html_encode);
	int r = html_encode(dst, ndst, src);
#if A5_MAXS >= 5
	if (r == 0 && w_s0 == '&' && w_s1 == '<' && w_s2 == 'a' && w_s3 == '"' && w_s4 == '\'') REACH("four entities and a plain character");
#else
	if (r == 0 && w_s0 == '&' && w_s1 == '<' && w_s2 == '"') REACH("three entities");
	if (r == 0 && w_s0 == '\'' && w_s1 == 'x' && w_s2 == '>') REACH("two entities and a plain character");
#endif
	if (r == -1 && w_s0 == 'a' && w_s1 == 'b' && w_s2 == 0 && w_ndst == 11) REACH("second character does not fit in 11 bytes");
	if (r == 0 && w_s0 == 'a' && w_s1 == 0 && w_ndst == 11) REACH("one character fits in 11 bytes");
	if (r == -1 && w_s0 == '>' && w_ndst == 10) REACH("refused at the first character");
}
#endif

#ifndef A5_EXACT
/* ================================================================= html_encode: cut contract (replaces the call in print_event) */
/* = the clauses proved in group a5_html_encode under the same preconditions (room >= 1 and writable, input
 * NUL-terminated, the two apart): frame, result, says-so -- plus a ghost log of the calls. */
/* the three strings print_event may encode: address and a NUL position of each */
const char *g_ks0, *g_ks1, *g_ks2; long g_kl0, g_kl1, g_kl2;
/* At the call site only the IDENTITY of the string is asserted: that the registered strings are NUL-terminated is a
 * precondition of the enclosing contract (c_print_event) and no frame contains them.  (Reading s[kl] here does not
 * work: evlist[i].signature is a pointer loaded from a symbolic index, CBMC has no value set for it -- the group runs
 * out of memory, HOWTO pitfall 21.) */
#define A5_KNOWN(s, ks, kl) ((s) == (ks) && 0 <= (kl) && (kl) <= 2147483647L)
unsigned g_he_n;                                   /* calls so far */
const char *g_he_src0, *g_he_src1, *g_he_src2;     /* what call k encoded */
char *g_he_dst0, *g_he_dst1, *g_he_dst2;           /* where to */
int g_he_nd0, g_he_nd1, g_he_nd2;                  /* the room announced */
int g_he_whole0, g_he_whole1, g_he_whole2;         /* ... is the whole destination object */
int g_he_ret0, g_he_ret1, g_he_ret2;
#define A5_LOGK(k) (OLD(g_he_n) == (k) ? \
	(g_he_src##k == src && g_he_dst##k == dst && g_he_nd##k == ndst && g_he_ret##k == RV && \
	 g_he_whole##k == (__CPROVER_POINTER_OFFSET(dst) == 0 && __CPROVER_OBJECT_SIZE(dst) == (size_t) ndst)) : \
	(g_he_src##k == OLD(g_he_src##k) && g_he_dst##k == OLD(g_he_dst##k) && g_he_nd##k == OLD(g_he_nd##k) && g_he_ret##k == OLD(g_he_ret##k) && \
	 g_he_whole##k == OLD(g_he_whole##k)))
#ifndef A5_DSTFRAME
#define A5_DSTFRAME __CPROVER_object_upto(dst, (size_t) ndst),
#endif
int cr_html_encode(char *dst, int ndst, const char *src)
__CPROVER_requires(1 <= ndst && __CPROVER_w_ok(dst, (size_t) ndst) && !__CPROVER_same_object(dst, src))
__CPROVER_requires(A5_KNOWN(src, g_ks0, g_kl0) || A5_KNOWN(src, g_ks1, g_kl1) || A5_KNOWN(src, g_ks2, g_kl2))
__CPROVER_requires(g_he_n < 3 && DIAG_PRE)
__CPROVER_assigns(A5_DSTFRAME DIAG_FRAME, g_he_n)
__CPROVER_assigns(g_he_src0, g_he_src1, g_he_src2, g_he_dst0, g_he_dst1, g_he_dst2, g_he_nd0, g_he_nd1, g_he_nd2)
__CPROVER_assigns(g_he_ret0, g_he_ret1, g_he_ret2, g_he_whole0, g_he_whole1, g_he_whole2)
__CPROVER_ensures(RV == 0 || RV == -1)
__CPROVER_ensures(g_err == OLD(g_err) + (RV == -1 ? 1u : 0u) && g_diag == OLD(g_diag) + (RV == -1 ? 1u : 0u) && g_warn == OLD(g_warn))
__CPROVER_ensures(g_he_n == OLD(g_he_n) + 1)
__CPROVER_ensures(A5_LOGK(0) && A5_LOGK(1) && A5_LOGK(2))
;
#endif

#ifndef A5_EXACT
/* ================================================================= print_event */
long g_nev;                       /* events in the table: arbitrary */
long w_i; long w_nev;
WITNESS(print_event);
#ifndef A5_MAXEV
#define A5_MAXEV (1L << 20)
#endif
#ifndef A5_STRMAX
#define A5_STRMAX 2147483647L
#endif
int c_print_event(struct model_spec *spec, long i)
__CPROVER_requires(__CPROVER_is_fresh(spec, sizeof(*spec)))
__CPROVER_requires(1 <= g_nev && g_nev <= A5_MAXEV && 0 <= i && i < g_nev)
__CPROVER_requires(__CPROVER_is_fresh(spec->evlist, (size_t) g_nev * sizeof(struct ev_decl)))
__CPROVER_requires(__CPROVER_is_fresh(spec->evspec, sizeof(struct model_evspec)))
__CPROVER_requires(__CPROVER_is_fresh(spec->evspec->alloc, (size_t) g_nev * sizeof(struct ev_spec)))
/* the three strings of event i: MCV (at most 3 characters), signature and description of any length */
__CPROVER_requires(0 <= g_kl0 && g_kl0 <= 3 && spec->evspec->alloc[i].mcv[g_kl0] == '\0' && g_ks0 == (const char *) spec->evspec->alloc[i].mcv)
__CPROVER_requires(0 <= g_kl1 && g_kl1 <= A5_STRMAX)
__CPROVER_requires(__CPROVER_is_fresh(spec->evlist[i].signature, (size_t) g_kl1 + 1))
__CPROVER_requires(spec->evlist[i].signature[g_kl1] == '\0' && g_ks1 == spec->evlist[i].signature)
__CPROVER_requires(0 <= g_kl2 && g_kl2 <= A5_STRMAX)
__CPROVER_requires(__CPROVER_is_fresh(spec->evlist[i].description, (size_t) g_kl2 + 1))
__CPROVER_requires(spec->evlist[i].description[g_kl2] == '\0' && g_ks2 == spec->evlist[i].description)
__CPROVER_requires(g_he_n == 0 && g_pf.n == 0 && DIAG_PRE && WBIND(print_event, w_i == i && w_nev == g_nev))
__CPROVER_assigns(g_pf, DIAG_FRAME, g_he_n)
__CPROVER_assigns(g_he_src0, g_he_src1, g_he_src2, g_he_dst0, g_he_dst1, g_he_dst2, g_he_nd0, g_he_nd1, g_he_nd2)
__CPROVER_assigns(g_he_ret0, g_he_ret1, g_he_ret2, g_he_whole0, g_he_whole1, g_he_whole2)
__CPROVER_ensures(RV == 0 || RV == -1)
/* encodes the event's OWN mcv, signature, description, in this order, each into a buffer of its own whose whole
 * size is announced, and stops at the first refusal */
__CPROVER_ensures(1 <= g_he_n && g_he_n <= 3)
__CPROVER_ensures(g_he_src0 == g_ks0 && g_he_whole0 && g_he_nd0 >= 16)
__CPROVER_ensures((g_he_n >= 2) == (g_he_ret0 == 0))
__CPROVER_ensures(g_he_n < 2 || (g_he_src1 == g_ks1 && g_he_whole1 && g_he_nd1 >= 1024 && g_he_dst1 != g_he_dst0))
__CPROVER_ensures((g_he_n >= 3) == (g_he_n >= 2 && g_he_ret1 == 0))
__CPROVER_ensures(g_he_n < 3 || (g_he_src2 == g_ks2 && g_he_whole2 && g_he_nd2 >= 1024 && g_he_dst2 != g_he_dst0 && g_he_dst2 != g_he_dst1))
/* succeeds exactly when all three fit */
__CPROVER_ensures((RV == 0) == (g_he_n == 3 && g_he_ret2 == 0))
/* failure: nothing printed, and it says so */
__CPROVER_ensures(RV == 0 || (g_pf.n == 0 && g_err == OLD(g_err) + 2 && g_diag == OLD(g_diag) + 2))
/* success: exactly the two lines, <dt> (mcv, mcv, signature) then <dd> (description), from the encoded buffers */
__CPROVER_ensures(RV != 0 || (g_pf.n == 2 && g_err == OLD(g_err) && g_diag == OLD(g_diag)))
__CPROVER_ensures(g_warn == OLD(g_warn))
__CPROVER_ensures(RV != 0 || (g_pf.cls[0] == A5_DT && g_pf.s1[0] == g_he_dst0 && g_pf.s2[0] == g_he_dst0 && g_pf.s3[0] == g_he_dst1))
__CPROVER_ensures(RV != 0 || (g_pf.cls[1] == A5_DD && g_pf.s1[1] == g_he_dst2 && g_pf.s2[1] == NULL && g_pf.s3[1] == NULL))
;
void h_print_event(void)
{
	struct model_spec *spec; long i;
	WITNESS_ON(print_event);
	int r = print_event(spec, i);
	if (r == 0 && w_i == 0) REACH("first event printed");
	if (r == 0 && w_i == 1000 && w_nev == 1001) REACH("last of 1001 events printed");
	if (r != 0 && g_he_n == 1) REACH("mcv refused");
	if (r != 0 && g_he_n == 2) REACH("signature refused");
	if (r != 0 && g_he_n == 3) REACH("description refused");
}

/* ================================================================= print_event: cut contract (replaces the call in print_model) */
/* = what group a5_print_event proves (0 / -1, failure says so and prints nothing, success prints the two
 * lines of event i) + a ghost log.  Its requires are ASSERTED at the call site: call number c prints event c
 * of THIS model, after "<dl>" (5 lines printed) and before "</dl>". */
struct model_spec *g_spec;
long g_pe_n;            /* print_event calls so far */
long g_pe_lines;        /* lines they printed */
int g_pe_failed;
int cr_print_event(struct model_spec *spec, long i)
__CPROVER_requires(spec == g_spec && i == g_pe_n && 0 <= i && i < g_nev && g_pe_failed == 0)
__CPROVER_requires(g_pf.n == 5 && g_pf.cls[4] == A5_DLOPEN)
__CPROVER_assigns(g_pe_n, g_pe_lines, g_pe_failed, DIAG_FRAME)
__CPROVER_ensures(RV == 0 || RV == -1)
__CPROVER_ensures(g_pe_n == OLD(g_pe_n) + 1 && g_pe_failed == (RV != 0) && g_pe_lines == OLD(g_pe_lines) + (RV == 0 ? 2 : 0))
__CPROVER_ensures(RV == 0 ? (g_err == OLD(g_err) && g_diag == OLD(g_diag)) : (g_err == OLD(g_err) + 2 && g_diag == OLD(g_diag) + 2))
__CPROVER_ensures(g_warn == OLD(g_warn))
;

/* ================================================================= print_model (unbounded, loop contract) */
long w_pm_nev;
WITNESS(print_model);
int c_print_model(struct model_spec *spec)
__CPROVER_requires(__CPROVER_is_fresh(spec, sizeof(*spec)))
__CPROVER_requires(__CPROVER_is_fresh(spec->evspec, sizeof(struct model_evspec)))
__CPROVER_requires(0 <= g_nev && g_nev <= A5_MAXEV && spec->evspec->nevents == g_nev && g_spec == spec)
__CPROVER_requires(g_pf.n == 0 && g_pe_n == 0 && g_pe_lines == 0 && g_pe_failed == 0 && DIAG_PRE && WBIND(print_model, w_pm_nev == g_nev))
__CPROVER_assigns(g_pf, g_pe_n, g_pe_lines, g_pe_failed, DIAG_FRAME)
__CPROVER_ensures(RV == 0 || RV == -1)
/* heading: blank, title(name), blank, list line (name, model char, version), <dl> -- always */
__CPROVER_ensures(g_pf.n >= 5 && g_pf.cls[0] == A5_BLANK && g_pf.cls[1] == A5_TITLE && g_pf.s1[1] == spec->name && g_pf.cls[2] == A5_BLANK)
__CPROVER_ensures(g_pf.cls[3] == A5_LIST && g_pf.s1[3] == spec->name && g_pf.iv[3] == spec->model && g_pf.s3[3] == spec->version && g_pf.cls[4] == A5_DLOPEN)
/* fails exactly when an event could not be printed: stops there, list not closed, says so */
__CPROVER_ensures((RV == -1) == (g_pe_failed != 0))
__CPROVER_ensures(RV == 0 || (g_pf.n == 5 && 1 <= g_pe_n && g_pe_n <= g_nev && g_err > OLD(g_err)))
/* success: every event of the table exactly once, in table order (call c == event c, asserted at the call
 * site), two lines each, then </dl>, nothing else */
__CPROVER_ensures(RV != 0 || (g_pe_n == g_nev && g_pe_lines == 2 * g_nev && g_pf.n == 6 && g_pf.cls[5] == A5_DLCLOSE && g_err == OLD(g_err)))
;
void h_print_model(void)
{
	struct model_spec *spec;
	WITNESS_ON(print_model);
	int r = print_model(spec);
	if (r == 0 && w_pm_nev == 0) REACH("model without events");
	if (r == 0 && w_pm_nev == 300) REACH("300 events listed");
	if (r != 0 && g_pe_n == 1) REACH("first event fails");
	if (r != 0 && g_pe_n == 7 && w_pm_nev == 7) REACH("last of seven events fails");
}
#endif
