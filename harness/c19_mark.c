/* C19 -- ovni/mark.c: mark_event reads i64[0] (bytes 0..7) and i32[2] (bytes 8..11)
 * of the payload, under EMU_EV_WF only.  find_mark_type (uthash lookup) is replaced by
 * an assumed map contract; chan_push/pop/set are most general stubs recording the value. */
#include "prelude.h"
#include "extend.c"
#include "ovni/mark.c"     /* the real /repo/src/emu/ovni/mark.c */
#include "c19_evwf.h"

unsigned g_find_calls, g_chan_calls;
long g_find_type; long long g_chan_value; long g_ntypes;
struct chan *g_chan_arg, *g_channels;
#define GHOSTS g_find_calls, g_chan_calls, g_find_type, g_chan_value, g_chan_arg

int chan_push(struct chan *c, struct value v) { g_chan_calls++; g_chan_arg = c; g_chan_value = v.i; if (nondet_bool()) return 0; verif_err(); return -1; }
int chan_pop(struct chan *c, struct value v) { g_chan_calls++; g_chan_arg = c; g_chan_value = v.i; if (nondet_bool()) return 0; verif_err(); return -1; }
int chan_set(struct chan *c, struct value v) { g_chan_calls++; g_chan_arg = c; g_chan_value = v.i; if (nondet_bool()) return 0; verif_err(); return -1; }

/* ASSUMED (uthash HASH_FIND): NULL or a registered type; registered types have
 * 0 <= index < ntypes (create_mark_type gives index = ntypes++) */
struct mark_type *ca_find_mark_type(struct ovni_mark_emu *m, long type)
__CPROVER_requires(m != NULL)
__CPROVER_assigns(g_find_calls, g_find_type)
__CPROVER_ensures(g_find_calls == __CPROVER_old(g_find_calls) + 1 && g_find_type == type)
__CPROVER_ensures(__CPROVER_return_value == NULL || (__CPROVER_is_fresh(__CPROVER_return_value, sizeof(struct mark_type)) &&
	__CPROVER_return_value->index >= 0 && __CPROVER_return_value->index < g_ntypes))
;

#define OEMU(emu) ((struct ovni_emu *) (emu)->ext.ctx['O'])
#define OTH(emu) ((struct ovni_thread *) (emu)->thread->ext.ctx['O'])
/* one channel per mark type in every thread (mark_create: nchannels = ntypes); the table
 * is bounded so that its byte size is representable (struct chan is 8768 bytes) */
#define C19_MAX_MARK_TYPES (1L << 30)

unsigned w_v; unsigned long w_psize; long long w_i64_0; int w_i32_2; unsigned w_is_jumbo;
WITNESS(mark_event);

int c_mark_event(struct emu *emu)
__CPROVER_requires(__CPROVER_is_fresh(emu, sizeof(*emu)) && DIAG_PRE && g_find_calls == 0 && g_chan_calls == 0)
__CPROVER_requires(EMU_EV_WF(emu->ev))
__CPROVER_requires(__CPROVER_is_fresh(emu->ext.ctx['O'], sizeof(struct ovni_emu)))
__CPROVER_requires(__CPROVER_is_fresh(emu->thread, sizeof(struct thread)))
__CPROVER_requires(__CPROVER_is_fresh(emu->thread->ext.ctx['O'], sizeof(struct ovni_thread)))
__CPROVER_requires(g_ntypes == OEMU(emu)->mark.ntypes && g_ntypes >= 0 && g_ntypes <= C19_MAX_MARK_TYPES &&
	OTH(emu)->mark.nchannels == g_ntypes)
__CPROVER_requires(g_ntypes == 0 || __CPROVER_is_fresh(OTH(emu)->mark.channels, (size_t) g_ntypes * sizeof(struct chan)))
__CPROVER_requires(g_channels == OTH(emu)->mark.channels)
__CPROVER_requires(WBIND(mark_event, w_v == emu->ev->v && w_psize == emu->ev->payload_size && w_is_jumbo == (unsigned) emu->ev->is_jumbo &&
	(emu->ev->payload_size < 12 || (w_i64_0 == PL_I64(emu->ev, 0) && w_i32_2 == PL_I32(emu->ev, 2)))))
__CPROVER_assigns(GHOSTS, DIAG_FRAME)
__CPROVER_ensures(__CPROVER_return_value == 0 || __CPROVER_return_value == -1)
/* the type looked up is the i32 at payload bytes 8..11 of a 12-byte payload */
__CPROVER_ensures(g_find_calls == 0 || (g_find_calls == 1 && emu->ev->payload_size == 12 && g_find_type == (long) PL_I32(emu->ev, 2)))
/* the value pushed/popped/set is the i64 at payload bytes 0..7, on a channel of the table */
__CPROVER_ensures(g_chan_calls == 0 || (g_chan_calls == 1 && g_find_calls == 1 && g_chan_value == PL_I64(emu->ev, 0) && g_chan_value != 0 &&
	g_chan_arg >= g_channels && g_chan_arg < g_channels + g_ntypes))
__CPROVER_ensures(__CPROVER_return_value != 0 || g_chan_calls == 1)
__CPROVER_ensures(__CPROVER_return_value == 0 || g_err > __CPROVER_old(g_err))
;

void h_mark_event(void)
{
	struct emu *emu;
	WITNESS_ON(mark_event);
	int r = mark_event(emu);
	if (r == 0 && w_v == '[') REACH("mark push accepted");
	if (r == 0 && w_v == '=') REACH("mark set accepted");
	if (r == 0 && w_is_jumbo) REACH("jumbo event with 8 data bytes accepted as a mark");
	if (r != 0 && w_psize == 8) REACH("8-byte payload refused");
	if (r != 0 && w_psize == 12) REACH("12-byte payload refused (unknown type / zero value / channel)");
}
