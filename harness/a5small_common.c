/* A5 (function coverage, plan C11) -- the process-wide diagnostic state of the real src/common.c:
 * progname_set, progname_get, enable_debug, vaerr, verr, vdie.
 *
 * C11 is about what the library shares between threads: common.c owns exactly two writable
 * process-wide objects, `progname` and `is_debug_enabled` (storage facts: group
 * a5_common_static, native/a5small_common_static.c).  Here, on the REAL bodies (the prelude
 * rebinds the MACROS err/die/warn/..., not the functions verr/vdie, so including common.c
 * gives the real functions; nothing in this file rebinds them):
 *   progname_set(name)  writes `progname` only (:= name, the pointer, no copy)
 *   progname_get()      returns `progname`, writes nothing
 *   enable_debug()      writes `is_debug_enabled` only (:= 1, whatever it was)
 *   vaerr / verr / vdie write NEITHER of the two (nor anything else of the program: they only
 *                       call stdio on stderr); the message is emitted exactly once:
 *                       [progname ": "] [prefix ": "] [func ": "] vfprintf(stderr, errstr, ap)
 *                       [" " strerror(errno) "\n" if errstr ends in ':'  |  "\n" if it ends in
 *                       neither '\n' nor '\r'  |  nothing otherwise / for an empty errstr]
 *   vdie                additionally NEVER RETURNS: after the message it calls abort()
 *                       (exactly once, after the vfprintf).
 * verr/vdie are variadic (DFCC cannot instrument variadic calls): plain assume/assert
 * harnesses, called with no variadic argument; errstr: every string of <= 3 bytes (bounded
 * only because strlen() is CBMC's loop model: the functions are loop-free).
 * Trusted stubs: fprintf (prelude rebinding by macro -> logged with its FILE), vfprintf,
 * strerror, abort (logs, then ends the path: "never returns" is abort's own contract). */
#include "prelude.h"
#include <stdarg.h>

#define RV __CPROVER_return_value
#define OLD(e) __CPROVER_old(e)

/* ---- stdio / abort: logging stubs ---- */
unsigned g_fp_n;             /* fprintf calls */
unsigned g_fp_notstderr;     /* ... that did not go to stderr */
unsigned g_vfp_n;            /* vfprintf calls */
FILE *g_vfp_f; const char *g_vfp_fmt; unsigned g_vfp_after_fp;   /* its FILE, format, and how many fprintf came before */
unsigned g_strerror_n; int g_strerror_arg;
unsigned g_abort_n; unsigned g_abort_after_vfp, g_abort_after_fp;
int a5_errno;
#undef errno
#define errno a5_errno

static inline int a5_fprintf(FILE *f)
{
	g_fp_n++;
	if (f != stderr) g_fp_notstderr++;
	return nondet_int();
}
#undef fprintf
#define fprintf(f, fmt, ...) ((void) (0, ##__VA_ARGS__), a5_fprintf(f))      /* the arguments are evaluated, the text is dropped */

static inline int a5_vfprintf(FILE *f, const char *fmt)
{
	g_vfp_n++; g_vfp_f = f; g_vfp_fmt = fmt; g_vfp_after_fp = g_fp_n;
	return nondet_int();
}
#define vfprintf(f, fmt, ap) a5_vfprintf((f), (fmt))      /* the va_list itself is opaque to CBMC */

static char a5_strerror_buf[4];
static inline char *a5_strerror(int e) { g_strerror_n++; g_strerror_arg = e; return a5_strerror_buf; }
#define strerror(e) a5_strerror(e)

#ifdef H_VDIE
static void a5_at_abort(void);
#define A5_ABORT_HOOK a5_at_abort()
#endif
#ifdef H_VERR
#define A5_ABORT_HOOK VASSERT(0, "verr never aborts: it reports and returns")
#endif

static inline void a5_abort(void)
{
	g_abort_n++; g_abort_after_vfp = g_vfp_n; g_abort_after_fp = g_fp_n;
#ifdef A5_ABORT_HOOK
	A5_ABORT_HOOK;
#endif
	__CPROVER_assume(0);           /* abort() does not return */
}
#define abort() a5_abort()

#include "common.c"          /* the real /repo/src/common.c */

/* ---------------- progname_set / progname_get / enable_debug (DFCC: exact + frame) ---------------- */
char *g_name;
void c_progname_set(char *name)
__CPROVER_requires(name == g_name)
__CPROVER_assigns(progname)
__CPROVER_ensures(progname == name)
;
void h_progname_set(void)
{
	char *name; int dbg0 = is_debug_enabled;
	g_name = name;
	progname_set(name);
	VASSERT(progname_get() == name, "progname_get reads back what progname_set stored");
	if (name == NULL) REACH("name cleared");
	if (name != NULL && dbg0 == 7) REACH("name set");
}

const char *c_progname_get(void)
__CPROVER_assigns()
__CPROVER_ensures(RV == progname)
;
void h_progname_get(void)
{
	const char *r = progname_get();
	if (r == NULL) REACH("no name set");
	if (r != NULL) REACH("name set");
}

int g_dbg0;
void c_enable_debug(void)
__CPROVER_requires(g_dbg0 == is_debug_enabled)
__CPROVER_assigns(is_debug_enabled)
__CPROVER_ensures(is_debug_enabled == 1)
;
void h_enable_debug(void)
{
	g_dbg0 = is_debug_enabled;
	enable_debug();
	if (g_dbg0 == 0) REACH("debug switched on");
	if (g_dbg0 == 1) REACH("already on");
	if (g_dbg0 == -5) REACH("any previous value is overwritten by 1");
}

/* ---------------- verr / vdie (plain harnesses on the real bodies) ---------------- */
#if defined(H_VERR) || defined(H_VDIE)
static char g_msg[4];
int w_has_prog, w_has_prefix, w_has_func, w_len, w_last, w_dbg, w_errno;
static char *g_prog0;

/* the expected number of fprintf calls and whether strerror is consulted */
#define EXP_TAIL (w_len > 0 && (w_last == ':' || (w_last != '\n' && w_last != '\r')))
#define EXP_FP ((unsigned) (w_has_prog + w_has_prefix + w_has_func + (EXP_TAIL ? 1 : 0)))
#define EXP_HEAD ((unsigned) (w_has_prog + w_has_prefix + w_has_func))

static const char *g_prefix, *g_func;
static void a5_setup(void)
{
	static char progbuf[2] = "p";
	w_has_prog = nondet_bool(); w_has_prefix = nondet_bool(); w_has_func = nondet_bool();
	progname = w_has_prog ? progbuf : NULL;
	g_prog0 = progname;
	w_dbg = nondet_int(); is_debug_enabled = w_dbg;
	w_errno = nondet_int(); a5_errno = w_errno;
	g_prefix = w_has_prefix ? "ERROR" : NULL;
	g_func = w_has_func ? "fn" : NULL;
	g_msg[0] = nondet_char(); g_msg[1] = nondet_char(); g_msg[2] = nondet_char(); g_msg[3] = 0;
	w_len = g_msg[0] == 0 ? 0 : g_msg[1] == 0 ? 1 : g_msg[2] == 0 ? 2 : 3;
	w_last = w_len > 0 ? g_msg[w_len - 1] : 0;
	g_fp_n = 0; g_fp_notstderr = 0; g_vfp_n = 0; g_strerror_n = 0; g_abort_n = 0;
}
/* the message, as emitted so far, is complete and went to stderr; the shared state is untouched */
static void a5_check_message(void)
{
	VASSERT(g_vfp_n == 1 && g_vfp_f == stderr && g_vfp_fmt == g_msg, "the caller's format is printed exactly once, on stderr");
	VASSERT(g_vfp_after_fp == EXP_HEAD, "program name, prefix and function (those that are given) come before the message");
	VASSERT(g_fp_n == EXP_FP && g_fp_notstderr == 0, "one fprintf per given header part, one for the tail if owed; all on stderr");
	VASSERT(g_strerror_n == (w_len > 0 && w_last == ':' ? 1u : 0u), "errno text exactly when the format ends in ':'");
	VASSERT(g_strerror_n == 0 || g_strerror_arg == w_errno, "the errno text is that of the caller's errno");
	VASSERT(progname == g_prog0 && is_debug_enabled == w_dbg && a5_errno == w_errno, "FRAME: progname, is_debug_enabled and errno are not written");
}
#endif

#ifdef H_VERR
void h_verr(void)
{
	a5_setup();
	verr(g_prefix, g_func, g_msg);
	a5_check_message();
	VASSERT(g_abort_n == 0, "verr does not abort");
	if (w_has_prog && w_has_prefix && w_has_func && w_last == ':') REACH("full header, errno tail");
	if (!w_has_prog && !w_has_prefix && !w_has_func && w_len == 0) REACH("empty message, nothing but the vfprintf");
	if (w_len == 3 && w_last == '\n') REACH("message with its own newline: no tail");
	if (w_len == 2 && w_last == '\r') REACH("message ending in CR: no tail");
	if (w_len == 1 && w_last == 'x') REACH("newline appended");
}
#endif

#ifdef H_VDIE
static void a5_at_abort(void)
{
	/* the moment of death: the whole message is out, the shared state untouched */
	a5_check_message();
	VASSERT(g_abort_n == 1, "abort is called once");
	if (w_has_prog && w_last == ':') REACH("abort reached after a message with errno tail");
	if (!w_has_prog && !w_has_prefix && !w_has_func && w_len == 0) REACH("abort reached after an empty message");
}
void h_vdie(void)
{
	a5_setup();
	vdie(g_prefix, g_func, g_msg);
	VASSERT(0, "vdie never returns");
}
#endif
