/* G4 (C13) -- the recorder of the real src/emu/recorder.c: recorder_init, recorder_add_pvt,
 * recorder_advance, recorder_finish (+ recorder_find_pvt on real uthash for concrete names).
 *
 * C13: "each generated .prv has non-decreasing timestamps ... a header whose duration equals the
 * last event time": the time of every event reaches a Paraver file only through
 * emu_step -> recorder_advance -> pvt_advance -> prv_advance, so EVERY pvt must receive EVERY time
 * (a skipped one keeps an old clock: its later lines carry stale times and its header a short
 * duration) and every pvt must be closed (prv_close rewrites the header).  "row numbers within the
 * declared row count": recorder_add_pvt opens the trace with exactly the row count it was given,
 * and refuses a second trace of the same name (it would overwrite the files of the first).
 *
 * The Paraver writers (pv/pvt.c) and cfg_generate are other units: logging stubs with any result.
 * uthash is trusted: recorder_find_pvt is replaced by an assumed one-cell map contract,
 * HASH_ADD_STR by a ghost insertion log; the native group g4_recorder_native (native/g4_recorder_native.c)
 * runs the real functions on the real uthash macros for concrete trace names. */
#include "prelude.h"
#include "uthash.h"
#include "pv/pvt.h"
#include "pv/cfg.h"
#include "recorder.h"

/* ---- snprintf: any length; destination, size and first argument recorded ---- */
unsigned g_sn_n; void *g_sn_dst; size_t g_sn_size; const void *g_sn_arg; int g_sn_ret;
static inline int g4_snprintf(char *s, size_t n, const void *a0)
{
	g_sn_n++; g_sn_dst = s; g_sn_size = n; g_sn_arg = a0;
	return g_sn_ret = verif_snprintf(s, n);
}
#define G4_FIRST(a, ...) a
#undef snprintf
#define snprintf(s, n, fmt, ...) g4_snprintf((s), (n), (const void *) G4_FIRST(__VA_ARGS__, 0))
#define SN_FRAME g_sn_n, g_sn_dst, g_sn_size, g_sn_arg, g_sn_ret

/* ---- calloc may fail ---- */
int g_calloc_null; unsigned g_calloc_n; size_t g_calloc_size;
static inline void *g4_calloc(size_t n, size_t size)
{
	g_calloc_n++; g_calloc_size = n * size;
	void *p = nondet_bool() ? NULL : calloc(n, size);
	g_calloc_null = (p == NULL);
	return p;
}
#define CALLOC_FRAME g_calloc_null, g_calloc_n, g_calloc_size

/* ---- uthash insertion: ghost log; an empty table gets its first element ---- */
unsigned g_add_n; void *g_add_headp, *g_add_item, *g_add_key; unsigned g_add_saw_open;
unsigned g_open_n;
static inline void g4_hash_add(struct pvt **headp, struct pvt *add, void *key)
{
	g_add_n++; g_add_headp = headp; g_add_item = add; g_add_key = key; g_add_saw_open = g_open_n;
	if (*headp == NULL) *headp = add;
}
#undef HASH_ADD_STR
#define HASH_ADD_STR(head, field, add) g4_hash_add(&(head), (add), (add)->field)
#define ADD_FRAME g_add_n, g_add_headp, g_add_item, g_add_key, g_add_saw_open

/* ---- pv/pvt.c, pv/cfg.c: logging stubs, any result ---- */
int g_k;                                  /* observed ordinal: arbitrary */
int64_t g_time;                           /* the time recorder_advance was given */
void *g_open_pvt; long g_open_nrows; const void *g_open_dir, *g_open_name; int g_open_ret, g_open_zeroed;
int pvt_open(struct pvt *pvt, long nrows, const char *dir, const char *name)
{
	g_open_n++; g_open_pvt = pvt; g_open_nrows = nrows; g_open_dir = dir; g_open_name = name;
	g_open_zeroed = (pvt->name[0] == '\0' && pvt->hh.next == NULL && pvt->hh.tbl == NULL);
	return g_open_ret = nondet_int();
}
int g_adv_n; void *g_adv_obj; int g_adv_failed, g_adv_after_fail, g_adv_badtime;
int pvt_advance(struct pvt *pvt, int64_t time)
{
	if (g_adv_failed) g_adv_after_fail = 1;
	if (time != g_time) g_adv_badtime = 1;
	if (g_adv_n == g_k) g_adv_obj = pvt;
	g_adv_n++;
	int r = nondet_int();
	if (r != 0) g_adv_failed = 1;
	return r;
}
int g_cl_n; void *g_cl_obj; int g_cl_failed, g_cl_after_fail;
int pvt_close(struct pvt *pvt)
{
	if (g_cl_failed) g_cl_after_fail = 1;
	if (g_cl_n == g_k) g_cl_obj = pvt;
	g_cl_n++;
	int r = nondet_int();
	if (r != 0) g_cl_failed = 1;
	return r;
}
unsigned g_cfg_n; const void *g_cfg_dir; int g_cfg_ret, g_cfg_saw_closed, g_cfg_saw_failed;
int cfg_generate(const char *tracedir)
{
	g_cfg_n++; g_cfg_dir = tracedir; g_cfg_saw_closed = g_cl_n; g_cfg_saw_failed = g_cl_failed;
	return g_cfg_ret = nondet_int();
}

#define calloc(n, size) g4_calloc((n), (size))
#include "recorder.c"                     /* real /repo/src/emu/recorder.c */
#undef calloc

/* =====================================================================================
 * recorder_init: empty table; the output directory is the one given; too long => refused
 * ===================================================================================== */
int c_recorder_init(struct recorder *rec, const char *dir)
__CPROVER_requires(__CPROVER_is_fresh(rec, sizeof(*rec)))
__CPROVER_requires(DIAG_PRE && g_sn_n == 0)
__CPROVER_assigns(__CPROVER_object_whole(rec), DIAG_FRAME, SN_FRAME)
__CPROVER_ensures(__CPROVER_return_value == 0 || __CPROVER_return_value == -1)
__CPROVER_ensures(g_sn_n == 1 && g_sn_dst == rec->dir && g_sn_size == PATH_MAX && g_sn_arg == dir)
__CPROVER_ensures((__CPROVER_return_value == 0) == (g_sn_ret < PATH_MAX))
__CPROVER_ensures(rec->pvt == NULL)
__CPROVER_ensures(__CPROVER_return_value == 0 || g_err > __CPROVER_old(g_err))
;
void h_recorder_init(void)
{
	struct recorder *rec; const char *dir;
	int r = recorder_init(rec, dir);
	if (r == 0) REACH("initialised");
	if (r == -1) REACH("directory name too long");
	if (r == 0 && g_sn_ret == PATH_MAX - 1) REACH("longest directory name accepted");
}

/* =====================================================================================
 * recorder_add_pvt
 * ===================================================================================== */
/* assumed one-cell map contract of recorder_find_pvt (uthash HASH_FIND_STR): what the table holds
 * under `name` is g_found (NULL: nothing); the name looked up is recorded */
struct pvt *g_found;
unsigned long g_find_name, g_find_rec;
struct pvt *c_recorder_find_pvt(struct recorder *rec, const char *name)
__CPROVER_assigns(g_find_name, g_find_rec)
__CPROVER_ensures(__CPROVER_return_value == g_found)
__CPROVER_ensures(g_find_name == (unsigned long) name && g_find_rec == (unsigned long) rec)
;

struct pvt *g_head0;
struct pvt *c_recorder_add_pvt(struct recorder *rec, const char *name, long nrows)
__CPROVER_requires(__CPROVER_is_fresh(rec, sizeof(*rec)))
__CPROVER_requires(DIAG_PRE && g_calloc_n == 0 && g_calloc_null == 0 && g_open_n == 0 && g_add_n == 0 && g_head0 == rec->pvt &&
	g_find_name == 0 && g_find_rec == 0)
__CPROVER_assigns(rec->pvt, DIAG_FRAME, CALLOC_FRAME, ADD_FRAME, g_find_name, g_find_rec,
	g_open_n, g_open_pvt, g_open_nrows, g_open_dir, g_open_name, g_open_ret, g_open_zeroed)
/* the table is consulted for THIS name */
__CPROVER_ensures(g_find_name == (unsigned long) name && g_find_rec == (unsigned long) rec)
/* a name that is already there is refused and nothing is opened or inserted */
__CPROVER_ensures(g_found == NULL || (__CPROVER_return_value == NULL && g_calloc_n == 0 && g_open_n == 0 && g_add_n == 0))
/* otherwise one zeroed struct pvt is allocated and opened with the given row count, in the
 * recorder's directory, under the given name */
__CPROVER_ensures(g_calloc_n == (g_found == NULL ? 1u : 0u) && (g_calloc_n == 0 || g_calloc_size == sizeof(struct pvt)))
__CPROVER_ensures(g_open_n == ((g_found == NULL && !g_calloc_null) ? 1u : 0u))
__CPROVER_ensures(g_open_n == 0 || (g_open_pvt != NULL && g_open_nrows == nrows && g_open_dir == rec->dir && g_open_name == name && g_open_zeroed))
/* added exactly when it could be opened */
__CPROVER_ensures((__CPROVER_return_value != NULL) == (g_found == NULL && g_open_n == 1 && g_open_ret == 0))
__CPROVER_ensures(__CPROVER_return_value == NULL || (__CPROVER_return_value == g_open_pvt && g_add_n == 1 &&
	g_add_headp == &rec->pvt && g_add_item == __CPROVER_return_value && g_add_key == __CPROVER_return_value->name &&
	g_add_saw_open == 1 /* hashed under its name: only pvt_open stores the name */))
__CPROVER_ensures(__CPROVER_return_value != NULL || (g_add_n == 0 && rec->pvt == g_head0 && g_err > __CPROVER_old(g_err)))
;
void h_recorder_add_pvt(void)
{
	struct recorder *rec; const char *name; long nrows;
	struct pvt *p = recorder_add_pvt(rec, name, nrows);
	if (p != NULL) REACH("trace added");
	if (p != NULL && g_head0 == NULL) REACH("first trace added");
	if (p == NULL && g_found != NULL) REACH("duplicate name refused");
	if (p == NULL && g_found == NULL && g_calloc_null) REACH("out of memory");
	if (p == NULL && g_open_n == 1) REACH("pvt_open failed");
}

/* =====================================================================================
 * recorder_advance / recorder_finish -- bounded: at most 3 traces in the table (the emulator
 * creates "cpu", "thread" and at most one breakdown trace).  The table is walked along hh.next
 * (uthash application order = insertion order).
 * ===================================================================================== */
#define NX(p) ((struct pvt *) (p)->hh.next)
#define PFRESH(p) __CPROVER_is_fresh(p, sizeof(struct pvt))
#define PLIST3(h) ((h) == NULL || (PFRESH(h) && ((h)->hh.next == NULL || (PFRESH((h)->hh.next) && \
	(NX(h)->hh.next == NULL || (PFRESH(NX(h)->hh.next) && NX(NX(h))->hh.next == NULL))))))
#define PLEN3(h) ((h) == NULL ? 0 : (h)->hh.next == NULL ? 1 : NX(h)->hh.next == NULL ? 2 : 3)
#define PEL(h, k) ((k) == 0 ? (void *) (h) : (k) == 1 ? (void *) NX(h) : (void *) NX(NX(h)))
int g_len;

int c_recorder_advance(struct recorder *rec, int64_t time)
__CPROVER_requires(__CPROVER_is_fresh(rec, sizeof(*rec)))
__CPROVER_requires(PLIST3(rec->pvt))
__CPROVER_requires(g_len == PLEN3(rec->pvt) && g_k >= 0 && g_k < 3 && g_time == time)
__CPROVER_requires(DIAG_PRE && g_adv_n == 0 && g_adv_failed == 0 && g_adv_after_fail == 0 && g_adv_badtime == 0)
__CPROVER_assigns(DIAG_FRAME, g_adv_n, g_adv_obj, g_adv_failed, g_adv_after_fail, g_adv_badtime)
__CPROVER_ensures(__CPROVER_return_value == 0 || __CPROVER_return_value == -1)
/* fails exactly when a trace could not be advanced */
__CPROVER_ensures((__CPROVER_return_value == -1) == (g_adv_failed != 0))
__CPROVER_ensures(__CPROVER_return_value == 0 || g_err > __CPROVER_old(g_err))
/* every trace receives THIS time: the k-th call advances the k-th trace, one call per trace */
__CPROVER_ensures(!g_adv_badtime && !g_adv_after_fail && g_adv_n <= g_len)
__CPROVER_ensures(__CPROVER_return_value != 0 || g_adv_n == g_len)
__CPROVER_ensures(g_k >= g_adv_n || g_adv_obj == PEL(rec->pvt, g_k))
;
void h_recorder_advance(void)
{
	struct recorder *rec; int64_t time;
	int r = recorder_advance(rec, time);
	if (r == 0 && g_len == 0) REACH("no traces");
	if (r == 0 && g_len == 3) REACH("three traces advanced");
	if (r == -1 && g_adv_n == 1 && g_len == 3) REACH("first trace failed");
	if (r == -1 && g_adv_n == 3) REACH("last trace failed");
	if (r == 0 && g_time < 0) REACH("any time is passed on (prv_advance judges it)");
}

int c_recorder_finish(struct recorder *rec)
__CPROVER_requires(__CPROVER_is_fresh(rec, sizeof(*rec)))
__CPROVER_requires(PLIST3(rec->pvt))
__CPROVER_requires(g_len == PLEN3(rec->pvt) && g_k >= 0 && g_k < 3)
__CPROVER_requires(DIAG_PRE && g_cl_n == 0 && g_cl_failed == 0 && g_cl_after_fail == 0 && g_cfg_n == 0)
__CPROVER_assigns(DIAG_FRAME, g_cl_n, g_cl_obj, g_cl_failed, g_cl_after_fail, g_cfg_n, g_cfg_dir, g_cfg_ret, g_cfg_saw_closed, g_cfg_saw_failed)
__CPROVER_ensures(__CPROVER_return_value == 0 || __CPROVER_return_value == -1)
/* success exactly when every trace was closed and the configuration files were copied */
__CPROVER_ensures((__CPROVER_return_value == 0) == (!g_cl_failed && g_cl_n == g_len && g_cfg_n == 1 && g_cfg_ret == 0))
__CPROVER_ensures(__CPROVER_return_value == 0 || g_err > __CPROVER_old(g_err))
/* the k-th call closes the k-th trace, one call per trace, none after a failure */
__CPROVER_ensures(!g_cl_after_fail && g_cl_n <= g_len && (g_cl_failed || g_cl_n == g_len))
__CPROVER_ensures(g_k >= g_cl_n || g_cl_obj == PEL(rec->pvt, g_k))
/* the configuration files go to the recorder's directory, after all traces were closed */
__CPROVER_ensures(g_cfg_n == (g_cl_failed ? 0u : 1u))
__CPROVER_ensures(g_cfg_n == 0 || (g_cfg_dir == rec->dir && g_cfg_saw_closed == g_len && !g_cfg_saw_failed))
;
void h_recorder_finish(void)
{
	struct recorder *rec;
	int r = recorder_finish(rec);
	if (r == 0 && g_len == 0) REACH("no traces, configuration copied");
	if (r == 0 && g_len == 3) REACH("three traces closed");
	if (r == -1 && g_cl_failed && g_cl_n == 2 && g_len == 3) REACH("second trace failed to close");
	if (r == -1 && !g_cl_failed) REACH("cfg_generate failed");
}
