/* A5 (function coverage, plan C15) -- the two reporting functions of the real src/emu/system.c
 * that no group named yet: report_libovni_version and print_system (both static).
 *
 * Both only REPORT: their write frame is the diagnostic counters (and the call logs of the
 * stubs) -- no byte of the system, of a loom, process, thread or CPU is modified.
 *
 * report_libovni_version(sys) (read from the code, total for arbitrary metadata):
 *   walks the GLOBAL thread list (sys->threads through ->gnext) in order and reads, of each
 *   thread's metadata, exactly the two keys "ovni.lib.version" and "ovni.lib.commit";
 *   - a thread without metadata, without the version key, or without the commit key: the walk
 *     stops there, ONE error is issued, the result is -1 (threads after it are not looked at);
 *   - otherwise the result is 0.  The FIRST thread's version and commit are the reference;
 *     every later thread whose version STRING (content, not pointer) differs gets one
 *     warning, likewise for the commit; if any differed one more warning "mixed versions" is
 *     issued and no info line; if none differed exactly one info line and no warning.
 *   Result is always 0 or -1; an empty thread list gives 0 and the info line.
 *   BOUNDED: <= 3 threads, version/commit strings of <= 2 characters (any bytes).
 *
 * print_system(sys): one header line, then per loom (->next) 2 lines + per process of the loom
 *   (->hh.next) 2 lines + one line per thread of the process (->hh.next), 1 line + one line per
 *   physical CPU (->hh.next), 2 lines for the virtual CPU.  All lines are err() diagnostics
 *   (the prelude counts them, their text is dropped).  Returns for every system.
 *   BOUNDED: <= 2 looms, <= 2 processes per loom, <= 2 threads per process (second loom: <= 1
 *   process with <= 1 thread), <= 2 CPUs per loom.
 *
 * Trusted: parson json_object_dotget_string = ghost view (per thread: key present or not, value
 * one of the harness strings; any other key is logged); strcmp = CBMC's library model. */
#include "prelude.h"
#include "utlist.h"
#include "uthash.h"
#include "parson.h"

#define RV __CPROVER_return_value
#define OLD(e) __CPROVER_old(e)

/* ---- ghost view of the threads' metadata ---- */
static char g_jm[3];                   /* the JSON objects of thread 0..2 (only their addresses are used) */
char g_vs[3][3], g_cs[3][3];           /* version / commit strings of thread k */
int g_has_ver[3], g_has_com[3];        /* key present */
unsigned g_json_other;                 /* reads of any other key or of an object that is no thread's metadata */
unsigned g_json_ver_n, g_json_com_n;   /* reads of the two keys */

const char *json_object_dotget_string(const JSON_Object *object, const char *name)
{
	int k;
	if (object == (const JSON_Object *) &g_jm[0]) k = 0;
	else if (object == (const JSON_Object *) &g_jm[1]) k = 1;
	else if (object == (const JSON_Object *) &g_jm[2]) k = 2;
	else { g_json_other++; return NULL; }
	if (strcmp(name, "ovni.lib.version") == 0) { g_json_ver_n++; return g_has_ver[k] ? g_vs[k] : NULL; }
	if (strcmp(name, "ovni.lib.commit") == 0) { g_json_com_n++; return g_has_com[k] ? g_cs[k] : NULL; }
	g_json_other++;
	return NULL;
}

#include "system.c"               /* the real /repo/src/emu/system.c */

#define TSZ sizeof(struct thread)
#define T0(s) ((s)->threads)
#define T1(s) (T0(s)->gnext)
#define T2(s) (T1(s)->gnext)

#if defined(A5_VERSION)
/* The thread list is built by the harness (objects with ARBITRARY contents apart from the
 * fields set below), then the real function runs under its contract; the objects exist before
 * the call and are in no assigns clause, so DFCC proves that none of their bytes is written. */
/* ---- specification, over the ghost view ---- */
#define SEQ(a, b) ((a)[0] == (b)[0] && ((a)[0] == 0 || ((a)[1] == (b)[1] && ((a)[1] == 0 || (a)[2] == (b)[2]))))
int w_n, w_meta0, w_meta1, w_meta2, w_hv0, w_hv1, w_hv2, w_hc0, w_hc1, w_hc2;
int w_v00, w_v01, w_v10, w_v11, w_v20, w_v21, w_c00, w_c01, w_c10, w_c11, w_c20, w_c21;
struct system *g_sys;
#define BAD0 (!w_meta0 || !w_hv0 || !w_hc0)
#define BAD1 (!w_meta1 || !w_hv1 || !w_hc1)
#define BAD2 (!w_meta2 || !w_hv2 || !w_hc2)
/* index of the first thread the walk stops at (w_n: none) */
#define FIRSTBAD ((w_n >= 1 && BAD0) ? 0 : (w_n >= 2 && BAD1) ? 1 : (w_n >= 3 && BAD2) ? 2 : w_n)
#define META_AT(f) ((f) == 0 ? w_meta0 : (f) == 1 ? w_meta1 : w_meta2)
#define HV_AT(f) ((f) == 0 ? w_hv0 : (f) == 1 ? w_hv1 : w_hv2)
/* warnings owed to thread k (k >= 1; thread 0 is the reference) */
#define MIS1 ((SEQ(g_vs[1], g_vs[0]) ? 0u : 1u) + (SEQ(g_cs[1], g_cs[0]) ? 0u : 1u))
#define MIS2 ((SEQ(g_vs[2], g_vs[0]) ? 0u : 1u) + (SEQ(g_cs[2], g_cs[0]) ? 0u : 1u))
#define MIS_BEFORE(f) (((f) >= 2 ? MIS1 : 0u) + ((f) >= 3 ? MIS2 : 0u))
#define INFO_N (g_diag - g_err - g_warn)

int c_report_libovni_version(struct system *sys)
__CPROVER_requires(sys == g_sys && g_err == 0 && g_warn == 0 && g_diag == 0 && g_json_other == 0 && g_json_ver_n == 0 && g_json_com_n == 0)
/* FRAME: diagnostics and the stub's read log; nothing of the system or of any thread */
__CPROVER_assigns(DIAG_FRAME, g_json_other, g_json_ver_n, g_json_com_n)
/* total: 0 or -1; refused exactly when some thread lacks metadata / version / commit */
__CPROVER_ensures(RV == 0 || RV == -1)
__CPROVER_ensures((RV == 0) == (FIRSTBAD == w_n))
/* reads only the two keys, once each, of the threads up to (and including) the one it stops at;
 * the commit only if the version was there */
__CPROVER_ensures(g_json_other == 0)
__CPROVER_ensures(g_json_ver_n == (unsigned) (FIRSTBAD == w_n ? w_n : FIRSTBAD + (META_AT(FIRSTBAD) ? 1 : 0)))
__CPROVER_ensures(g_json_com_n == (unsigned) (FIRSTBAD == w_n ? w_n : FIRSTBAD + (META_AT(FIRSTBAD) && HV_AT(FIRSTBAD) ? 1 : 0)))
/* refused: exactly one error; warnings only for the threads walked before; no info line */
__CPROVER_ensures(RV == 0 || (g_err == 1 && g_warn == MIS_BEFORE(FIRSTBAD) && INFO_N == 0))
/* accepted: no error; disagreeing streams => one warning per differing version and per differing
 * commit + the summary warning, no info; agreeing streams => exactly the info line */
__CPROVER_ensures(RV != 0 || g_err == 0)
__CPROVER_ensures(RV != 0 || MIS_BEFORE(w_n) == 0 || (g_warn == MIS_BEFORE(w_n) + 1 && INFO_N == 0))
__CPROVER_ensures(RV != 0 || MIS_BEFORE(w_n) != 0 || (g_warn == 0 && INFO_N == 1))
;
static struct thread *a5_thread(int k, int has_meta)
{
	struct thread *t = malloc(sizeof(struct thread));
	__CPROVER_assume(t != NULL);
	t->meta = has_meta ? (JSON_Object *) &g_jm[k] : NULL;
	t->gnext = NULL;
	/* lnext, hh.next, ... are arbitrary: they must not be followed */
	return t;
}
void h_report_libovni_version(void)
{
	struct system *sys = malloc(sizeof(struct system));
	__CPROVER_assume(sys != NULL);
	w_n = nondet_int(); __CPROVER_assume(0 <= w_n && w_n <= 3);
	w_meta0 = nondet_bool() && w_n >= 1; w_meta1 = nondet_bool() && w_n >= 2; w_meta2 = nondet_bool() && w_n >= 3;
	w_hv0 = nondet_bool(); w_hv1 = nondet_bool(); w_hv2 = nondet_bool(); w_hc0 = nondet_bool(); w_hc1 = nondet_bool(); w_hc2 = nondet_bool();
	g_has_ver[0] = w_hv0; g_has_ver[1] = w_hv1; g_has_ver[2] = w_hv2; g_has_com[0] = w_hc0; g_has_com[1] = w_hc1; g_has_com[2] = w_hc2;
	/* strings of at most two characters, any bytes */
	g_vs[0][0] = nondet_char(); g_vs[0][1] = nondet_char(); g_vs[0][2] = 0; g_cs[0][0] = nondet_char(); g_cs[0][1] = nondet_char(); g_cs[0][2] = 0;
	g_vs[1][0] = nondet_char(); g_vs[1][1] = nondet_char(); g_vs[1][2] = 0; g_cs[1][0] = nondet_char(); g_cs[1][1] = nondet_char(); g_cs[1][2] = 0;
	g_vs[2][0] = nondet_char(); g_vs[2][1] = nondet_char(); g_vs[2][2] = 0; g_cs[2][0] = nondet_char(); g_cs[2][1] = nondet_char(); g_cs[2][2] = 0;
	w_v00 = g_vs[0][0]; w_v01 = g_vs[0][1]; w_v10 = g_vs[1][0]; w_v11 = g_vs[1][1]; w_v20 = g_vs[2][0]; w_v21 = g_vs[2][1];
	w_c00 = g_cs[0][0]; w_c01 = g_cs[0][1]; w_c10 = g_cs[1][0]; w_c11 = g_cs[1][1]; w_c20 = g_cs[2][0]; w_c21 = g_cs[2][1];
	sys->threads = NULL;
	if (w_n >= 1) {
		struct thread *t0 = a5_thread(0, w_meta0);
		sys->threads = t0;
		if (w_n >= 2) {
			struct thread *t1 = a5_thread(1, w_meta1);
			t0->gnext = t1;
			if (w_n >= 3) t1->gnext = a5_thread(2, w_meta2);
		}
	}
	g_sys = sys;
	g_err = 0; g_warn = 0; g_diag = 0; g_json_other = 0; g_json_ver_n = 0; g_json_com_n = 0;

	int r = report_libovni_version(sys);

	if (r == 0 && w_n == 0) REACH("no threads: accepted");
	if (r == 0 && w_n == 3 && MIS_BEFORE(3) == 0 && w_v00 == '1' && w_v01 == 0) REACH("three threads agree on version 1");
	if (r == 0 && w_n == 3 && MIS_BEFORE(3) == 4) REACH("two threads disagree on version and commit");
	if (r == 0 && w_n == 2 && w_v00 == w_v10 && w_v01 == w_v11 && MIS_BEFORE(2) == 1) REACH("same version, other commit");
	if (r != 0 && w_n == 3 && !BAD0 && !BAD1 && !w_meta2) REACH("third thread has no metadata");
	if (r != 0 && w_n >= 1 && w_meta0 && !w_hv0) REACH("version key missing");
	if (r != 0 && w_n >= 2 && !BAD0 && w_meta1 && w_hv1 && !w_hc1) REACH("commit key missing in the second thread");
}
#endif

#if defined(A5_PRINT)
/* The hierarchy is built by the harness, object by object, with ARBITRARY contents (no is_fresh
 * chains: goto-instrument --dfcc + CBMC 6.11 crash with SIGSEGV on the four-level list
 * precondition).  print_system then runs under its contract: the objects exist BEFORE the
 * call and are in no assigns clause, so DFCC's write-set instrumentation proves that no byte
 * of the system, a loom (its embedded virtual CPU included), a process, a thread or a CPU is
 * written. */
int w_nl, w_np0, w_np1, w_nt00, w_nt01, w_nt10, w_nc0, w_nc1;
struct system *g_sys;

static void *a5_new(size_t sz)
{
	char *p = malloc(sz);
	__CPROVER_assume(p != NULL);
	return p;
}
static struct thread *a5_threads(int n)
{
	struct thread *t0 = NULL;
	if (n >= 1) { t0 = a5_new(sizeof(struct thread)); t0->hh.next = NULL; }
	if (n >= 2) { struct thread *t1 = a5_new(sizeof(struct thread)); t1->hh.next = NULL; t0->hh.next = t1; }
	/* the other links of a thread (gnext, lnext) are arbitrary: they must not be followed */
	return t0;
}
static struct proc *a5_proc(int nt)
{
	struct proc *p = a5_new(sizeof(struct proc));
	p->hh.next = NULL;
	p->threads = a5_threads(nt);
	return p;
}
static struct cpu *a5_cpus(int n)
{
	struct cpu *c0 = NULL;
	if (n >= 1) { c0 = a5_new(sizeof(struct cpu)); c0->hh.next = NULL; }
	if (n >= 2) { struct cpu *c1 = a5_new(sizeof(struct cpu)); c1->hh.next = NULL; c0->hh.next = c1; }
	return c0;
}

void c_print_system(struct system *sys)
__CPROVER_requires(sys == g_sys && g_err == 0 && g_warn == 0 && g_diag == 0)
/* FRAME: only the diagnostic counters */
__CPROVER_assigns(DIAG_FRAME)
/* one header line; per loom 5 lines (loom, "processes", "phy cpus", "virtual cpu", the virtual
 * CPU itself) + 2 per process + 1 per thread + 1 per physical CPU; nothing but err() lines */
__CPROVER_ensures(g_err == (unsigned) (1 + 5 * w_nl + 2 * (w_np0 + w_np1) + (w_nt00 + w_nt01 + w_nt10) + (w_nc0 + w_nc1)))
__CPROVER_ensures(g_warn == 0 && g_diag == g_err)
;
void h_print_system(void)
{
	struct system *sys = a5_new(sizeof(struct system));
	w_nl = nondet_int(); w_np0 = nondet_int(); w_np1 = nondet_int(); w_nt00 = nondet_int(); w_nt01 = nondet_int();
	w_nt10 = nondet_int(); w_nc0 = nondet_int(); w_nc1 = nondet_int();
	__CPROVER_assume(0 <= w_nl && w_nl <= 2);
	__CPROVER_assume(0 <= w_np0 && w_np0 <= 2 && 0 <= w_nt00 && w_nt00 <= 2 && 0 <= w_nt01 && w_nt01 <= 2 && 0 <= w_nc0 && w_nc0 <= 2);
	__CPROVER_assume(0 <= w_np1 && w_np1 <= 1 && 0 <= w_nt10 && w_nt10 <= 1 && 0 <= w_nc1 && w_nc1 <= 2);
	if (w_nl < 1) { w_np0 = 0; w_nc0 = 0; }
	if (w_nl < 2) { w_np1 = 0; w_nc1 = 0; }
	if (w_np0 < 1) w_nt00 = 0;
	if (w_np0 < 2) w_nt01 = 0;
	if (w_np1 < 1) w_nt10 = 0;
	sys->looms = NULL;
	if (w_nl >= 1) {
		struct loom *l0 = a5_new(sizeof(struct loom));
		l0->next = NULL; l0->procs = NULL;
		if (w_np0 >= 1) l0->procs = a5_proc(w_nt00);
		if (w_np0 >= 2) l0->procs->hh.next = a5_proc(w_nt01);
		l0->cpus = a5_cpus(w_nc0);
		sys->looms = l0;
		if (w_nl >= 2) {
			struct loom *l1 = a5_new(sizeof(struct loom));
			l1->next = NULL; l1->procs = NULL;
			if (w_np1 >= 1) l1->procs = a5_proc(w_nt10);
			l1->cpus = a5_cpus(w_nc1);
			l0->next = l1;
		}
	}
	g_sys = sys;
	g_err = 0; g_warn = 0; g_diag = 0;

	print_system(sys);

	if (w_nl == 0) REACH("empty system: header only");
	if (w_nl == 2 && w_np0 == 2 && w_nt00 == 2 && w_nt01 == 2 && w_np1 == 1 && w_nt10 == 1 && w_nc0 == 2 && w_nc1 == 2) REACH("largest system of the bound");
	if (w_nl == 1 && w_np0 == 1 && w_nt00 == 0 && w_nc0 == 0) REACH("a process without threads, a loom without CPUs");
}
#endif
