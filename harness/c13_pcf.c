/* C13 -- Paraver .pcf writer: contracts on the real src/emu/pv/pcf.c
 *
 * pcf_find_type / pcf_find_value are thin HASH_FIND wrappers: assumed one-cell map contracts
 * (uthash is trusted); HASH_ADD_INT is the ghost insertion log of c13_io.h.
 * Output of pcf_close = fprintf calls (c13_io.h): "0 %-10d %s\n" (type id, label) per declared
 * type and "%-4d %s\n" (value, label) per declared value. */
#include "prelude.h"
#include "c13_io.h"

unsigned g_seq;
unsigned g_type_n;                       /* EVENT_TYPE id lines */
unsigned g_val_n;                        /* value lines */
unsigned g_jt, g_jv;                     /* observed ordinals (arbitrary) */
long g_jt_id, g_jt_label; unsigned g_jt_seq;    /* id/label of type line number g_jt */
long g_jv_val, g_jv_label; unsigned g_jv_seq; unsigned g_jv_after_types;   /* value line number g_jv, and how many type lines preceded it */
unsigned g_col_n, g_misc_n;
FILE *g_bad_f; FILE *g_the_f;            /* any line that went to a FILE other than g_the_f */
unsigned g_bad_n;
#define OUT_FRAME g_seq, g_type_n, g_val_n, g_jt_id, g_jt_label, g_jt_seq, g_jv_val, g_jv_label, g_jv_seq, g_jv_after_types, g_col_n, g_misc_n, g_bad_n

static int
c13_print(int nargs, FILE *f, const char *fmt, long a, long b, long c, long d)
{
	(void) c; (void) d;
	g_seq++;
	if (f != g_the_f) g_bad_n++;
	if (nargs == 4 && fmt[0] == '0') {
		if (g_type_n == g_jt) { g_jt_id = a; g_jt_label = b; g_jt_seq = g_seq; }
		g_type_n++;
	} else if (nargs == 4 && fmt[0] == '%') {
		if (g_val_n == g_jv) { g_jv_val = a; g_jv_label = b; g_jv_seq = g_seq; g_jv_after_types = g_type_n; }
		g_val_n++;
	} else if (nargs == 6) {
		g_col_n++;
	} else {
		g_misc_n++;
	}
	return nondet_int();
}

unsigned g_close_n, g_close_seq; FILE *g_close_f;
unsigned g_open_n; FILE *g_open_ret; char g_open_mode;
static char g_file_obj;
int fclose(FILE *f)
{
	g_seq++; g_close_n++; g_close_seq = g_seq; g_close_f = f;
	return nondet_int();
}
FILE *fopen(const char *path, const char *mode)
{
	(void) path;
	g_open_n++; g_open_mode = mode[0];
	if (nondet_bool()) { g_lowfail++; g_open_ret = NULL; return NULL; }
	g_open_ret = (FILE *) &g_file_obj;
	return g_open_ret;
}

#include "pv/pcf.c"        /* the real /repo/src/emu/pv/pcf.c */

#define TSZ sizeof(struct pcf_type)
#define VSZ sizeof(struct pcf_value)

/* ---- assumed map contracts (uthash) ---- */
struct pcf *g_ft_pcf; int g_ft_id; struct pcf_type *g_ft_item;
struct pcf_type *c_pcf_find_type(struct pcf *pcf, int type_id)
__CPROVER_requires(pcf == g_ft_pcf && type_id == g_ft_id)
__CPROVER_assigns()
__CPROVER_ensures(__CPROVER_pointer_equals(RV, g_ft_item))
;
struct pcf_type *g_fv_type; int g_fv_val; struct pcf_value *g_fv_item;
struct pcf_value *c_pcf_find_value(struct pcf_type *type, int value)
__CPROVER_requires(type == g_fv_type && value == g_fv_val)
__CPROVER_assigns()
__CPROVER_ensures(__CPROVER_pointer_equals(RV, g_fv_item))
;

/* =====================================================================================
 * pcf_add_type: a type id is declared at most once
 * ===================================================================================== */
WITNESS(pcf_add_type);
int w_id, w_found;
#define NEWT ((struct pcf_type *) g_hadd_item)
struct pcf_type *c_pcf_add_type(struct pcf *pcf, int type_id, const char *label)
__CPROVER_requires(__CPROVER_is_fresh(pcf, sizeof(struct pcf)))
__CPROVER_requires(g_ft_pcf == pcf && g_ft_id == type_id)
__CPROVER_requires(g_ft_item == NULL || (__CPROVER_is_fresh(g_ft_item, TSZ) && g_ft_item->id == type_id))
__CPROVER_requires(DIAG_PRE && HLOG_PRE && LOW_PRE && g_snp_n < 1000000u)
__CPROVER_requires(WBIND(pcf_add_type, w_id == type_id && w_found == (g_ft_item != NULL)))
__CPROVER_assigns(pcf->types, DIAG_FRAME, HLOG_FRAME, g_lowfail, g_snp_ret, g_snp_n)
/* created exactly when the id is not declared yet (or calloc fails / the label does not fit) */
__CPROVER_ensures((RV != NULL) == (g_ft_item == NULL && g_lowfail == OLD(g_lowfail)))
__CPROVER_ensures(RV != NULL || g_err > OLD(g_err))
/* created: a fresh type with this id and no values, inserted in the table under its id */
__CPROVER_ensures(RV == NULL || (RV == g_hadd_item && __CPROVER_is_fresh(g_hadd_item, TSZ) && g_hadd_n == OLD(g_hadd_n) + 1 &&
	g_hadd_head == (void *) &pcf->types && g_hadd_key == type_id &&
	NEWT->id == type_id && NEWT->nvalues == 0 && NEWT->values == NULL &&
	g_snp_n == OLD(g_snp_n) + 1 && g_snp_ret < MAX_PCF_LABEL))
/* refused: the table is untouched; a duplicate is refused before anything is allocated or formatted */
__CPROVER_ensures(RV != NULL || (g_hadd_n == OLD(g_hadd_n) && pcf->types == OLD(pcf->types)))
__CPROVER_ensures(g_ft_item == NULL || (g_snp_n == OLD(g_snp_n) && g_lowfail == OLD(g_lowfail)))
;
void h_pcf_add_type(void)
{
	struct pcf *pcf; int type_id; const char *label;
	WITNESS_ON(pcf_add_type);
	struct pcf_type *t = pcf_add_type(pcf, type_id, label);
	if (t != NULL) REACH("type declared");
	if (t == NULL && w_found) REACH("duplicate type id refused");
	if (t == NULL && !w_found) REACH("lower-layer failure (calloc / label too long)");
}

/* =====================================================================================
 * pcf_add_value: a value is labelled at most once per type
 * ===================================================================================== */
WITNESS(pcf_add_value);
int w_val, w_nvalues;
#define NEWV ((struct pcf_value *) g_hadd_item)
struct pcf_value *c_pcf_add_value(struct pcf_type *type, int value, const char *label)
__CPROVER_requires(__CPROVER_is_fresh(type, TSZ))
/* nvalues counts labels: < INT_MAX (each label is a 584-byte heap object) */
__CPROVER_requires(type->nvalues >= 0 && type->nvalues < INT_MAX)
__CPROVER_requires(g_fv_type == type && g_fv_val == value)
__CPROVER_requires(g_fv_item == NULL || (__CPROVER_is_fresh(g_fv_item, VSZ) && g_fv_item->value == value))
__CPROVER_requires(DIAG_PRE && HLOG_PRE && LOW_PRE && g_snp_n < 1000000u)
__CPROVER_requires(WBIND(pcf_add_value, w_val == value && w_found == (g_fv_item != NULL) && w_nvalues == type->nvalues))
__CPROVER_assigns(type->values, type->nvalues, DIAG_FRAME, HLOG_FRAME, g_lowfail, g_snp_ret, g_snp_n)
__CPROVER_ensures((RV != NULL) == (g_fv_item == NULL && g_lowfail == OLD(g_lowfail)))
__CPROVER_ensures(RV != NULL || g_err > OLD(g_err))
__CPROVER_ensures(RV == NULL || (RV == g_hadd_item && __CPROVER_is_fresh(g_hadd_item, VSZ) && g_hadd_n == OLD(g_hadd_n) + 1 &&
	g_hadd_head == (void *) &type->values && g_hadd_key == value && NEWV->value == value &&
	type->nvalues == OLD(type->nvalues) + 1 && g_snp_n == OLD(g_snp_n) + 1 && g_snp_ret < MAX_PCF_LABEL))
__CPROVER_ensures(RV != NULL || (g_hadd_n == OLD(g_hadd_n) && type->values == OLD(type->values) && type->nvalues == OLD(type->nvalues)))
__CPROVER_ensures(g_fv_item == NULL || (g_snp_n == OLD(g_snp_n) && g_lowfail == OLD(g_lowfail)))
;
void h_pcf_add_value(void)
{
	struct pcf_type *type; int value; const char *label;
	WITNESS_ON(pcf_add_value);
	struct pcf_value *v = pcf_add_value(type, value, label);
	if (v != NULL) REACH("value labelled");
	if (v != NULL && w_nvalues > 0) REACH("second value labelled");
	if (v == NULL && w_found) REACH("duplicate value refused");
	if (v == NULL && !w_found) REACH("lower-layer failure (calloc / label too long)");
}

/* =====================================================================================
 * pcf_open
 * ===================================================================================== */
int c_pcf_open(struct pcf *pcf, char *path)
__CPROVER_requires(__CPROVER_is_fresh(pcf, sizeof(struct pcf)) && DIAG_PRE && LOW_PRE)
__CPROVER_assigns(*pcf, DIAG_FRAME, g_lowfail, g_open_n, g_open_ret, g_open_mode)
__CPROVER_ensures((RV == 0) == (g_lowfail == OLD(g_lowfail)))
__CPROVER_ensures(RV == 0 || (RV == -1 && g_err > OLD(g_err)))
__CPROVER_ensures(RV != 0 || (pcf->types == NULL && pcf->f == g_open_ret && g_open_ret != NULL && g_open_mode == 'w'))
;
void h_pcf_open(void)
{
	struct pcf *pcf; char *path;
	int r = pcf_open(pcf, path);
	if (r == 0) REACH("open accepted");
	if (r != 0) REACH("open refused");
}

/* =====================================================================================
 * pcf_close (bounded: at most 2 types with at most 2 values each; the table order is uthash's
 * hh.next chain, trusted to hold every inserted item once):
 *   every type of the table is printed once with its id, every value of every type once, after
 *   the line of its type, all on pcf->f, then the file is closed.
 * ===================================================================================== */
#define NT(t) ((struct pcf_type *) (t)->hh.next)
#define NV(v) ((struct pcf_value *) (v)->hh.next)
/* a chain of at most 2 values hanging from *pv */
#define VCHAIN2(v) ((v) == NULL || (__CPROVER_is_fresh(v, VSZ) && \
	((v)->hh.next == NULL || (__CPROVER_is_fresh((v)->hh.next, VSZ) && NV(v)->hh.next == NULL))))
#define VLEN(v) ((v) == NULL ? 0u : ((v)->hh.next == NULL ? 1u : 2u))
#define T1(pcf) ((pcf)->types)
#define T2(pcf) NT((pcf)->types)
unsigned g_nt, g_nv1, g_nv2;              /* shape: number of types, values of type 1 and 2 */
int g_id1, g_id2;
int g_v11, g_v12, g_v21, g_v22;           /* the values, in table order */
#define V1(t) ((t)->values)
#define V2(t) NV((t)->values)
WITNESS(pcf_close);
int w_nt, w_nv1, w_nv2;
int c_pcf_close(struct pcf *pcf)
__CPROVER_requires(__CPROVER_is_fresh(pcf, sizeof(struct pcf)))
__CPROVER_requires(T1(pcf) == NULL || (__CPROVER_is_fresh(T1(pcf), TSZ) && VCHAIN2(T1(pcf)->values) &&
	(T1(pcf)->hh.next == NULL || (__CPROVER_is_fresh(T1(pcf)->hh.next, TSZ) && T2(pcf)->hh.next == NULL && VCHAIN2(T2(pcf)->values)))))
__CPROVER_requires(g_nt == (T1(pcf) == NULL ? 0u : (T1(pcf)->hh.next == NULL ? 1u : 2u)))
__CPROVER_requires(g_nt < 1 || (g_nv1 == VLEN(T1(pcf)->values) && g_id1 == T1(pcf)->id))
__CPROVER_requires(g_nt < 2 || (g_nv2 == VLEN(T2(pcf)->values) && g_id2 == T2(pcf)->id))
__CPROVER_requires(g_nt < 1 || g_nv1 < 1 || g_v11 == V1(T1(pcf))->value)
__CPROVER_requires(g_nt < 1 || g_nv1 < 2 || g_v12 == V2(T1(pcf))->value)
__CPROVER_requires(g_nt < 2 || g_nv2 < 1 || g_v21 == V1(T2(pcf))->value)
__CPROVER_requires(g_nt < 2 || g_nv2 < 2 || g_v22 == V2(T2(pcf))->value)
/* witnesses for the native replay driver: the shape of the table */
__CPROVER_requires(w_nt == (int) g_nt && w_nv1 == (int) (g_nt < 1 ? 0u : g_nv1) && w_nv2 == (int) (g_nt < 2 ? 0u : g_nv2))
/* the palette pointer is a (non-const) global initialised to the default palette */
__CPROVER_requires(__CPROVER_pointer_equals(pcf_palette, (const uint32_t *) pcf_def_palette))
__CPROVER_requires(g_seq == 0 && g_type_n == 0 && g_val_n == 0 && g_col_n == 0 && g_misc_n == 0 && g_bad_n == 0 && g_close_n == 0 && g_the_f == pcf->f)
__CPROVER_assigns(OUT_FRAME, g_close_n, g_close_seq, g_close_f)
__CPROVER_ensures(RV == 0)
/* one id line per declared type, one line per declared value, the palette, nothing on another FILE */
__CPROVER_ensures(g_type_n == g_nt && g_val_n == (g_nt < 1 ? 0u : g_nv1) + (g_nt < 2 ? 0u : g_nv2) && g_col_n == (unsigned) pcf_palette_len && g_bad_n == 0)
/* type line j carries the id of the j-th type of the table */
__CPROVER_ensures(g_jt >= g_nt || g_jt_id == (g_jt == 0 ? g_id1 : g_id2))
/* value line j is printed under the type line of its own type */
__CPROVER_ensures(g_jv >= g_val_n || g_jv_after_types == (g_jv < g_nv1 ? 1u : 2u))
/* ... and carries that value */
__CPROVER_ensures(g_jv >= g_val_n || g_jv_val == (g_jv < g_nv1 ? (g_jv == 0 ? g_v11 : g_v12) : (g_jv == g_nv1 ? g_v21 : g_v22)))
/* the file is closed last */
__CPROVER_ensures(g_close_n == 1 && g_close_f == pcf->f && g_close_seq == g_seq)
;
void h_pcf_close(void)
{
	struct pcf *pcf;
	int r = pcf_close(pcf);
	if (r == 0 && g_nt == 0) REACH("close with no types");
	if (r == 0 && g_nt == 2 && g_nv1 == 2 && g_nv2 == 2) REACH("close with 2 types of 2 values");
	if (r == 0 && g_nt == 2 && g_nv1 == 0 && g_nv2 == 1) REACH("close with an unlabelled type");
	if (r == 0 && g_nt == 1 && g_jv == 1 && g_nv1 == 2) REACH("second value of the only type observed");
}
