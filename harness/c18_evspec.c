/* C18 -- the catalogue compiler: ev_spec.c (ev_spec_compile, parse_signature, parse_args,
 * parse_arg, parse_type) and model_evspec.c (model_evspec_init, model_evspec_find).
 *
 * BOUNDED: signature strings of at most C18_SIGN bytes including the terminator
 * (the longest signature in /repo is 33 bytes; the real catalogue is covered completely by the
 * native groups: catalogue_<model>.evlist_wellformed).  parse_arg is proved for every
 * number of arguments already parsed (0..MAX_ARGS), i.e. the MAX_ARGS guard and the offset
 * accumulation do not depend on the bound.
 *
 * Trusted stubs (libc, outside the unit):
 *   strtok_r   POSIX.1-2008 hand model (CBMC ships no body)
 *   snprintf   only the two "%s" uses of the compile path: copies the string, returns its
 *              length (C99 7.19.6.5); any other format: as the prelude (contents dropped)
 *   isgraph    C locale: 0x21..0x7e
 */
#include "prelude.h"

#ifndef C18_SIGN
#define C18_SIGN 24
#endif

/* ---- libc models ---- */
#undef isgraph
#define isgraph(c) ((c) > 0x20 && (c) < 0x7f)
#undef isalnum
#define isalnum(c) (((c) >= '0' && (c) <= '9') || ((c) >= 'a' && (c) <= 'z') || ((c) >= 'A' && (c) <= 'Z'))

static int c18_is_delim(char c, const char *delim)
{
	/* the unit uses " " and ",)" only */
	return c != '\0' && (c == delim[0] || (delim[0] != '\0' && c == delim[1]));
}
char *strtok_r(char *s, const char *delim, char **save)
{
	__CPROVER_assert(delim[0] != '\0' && (delim[1] == '\0' || delim[2] == '\0'), "strtok_r model: one or two delimiters");
	if (s == NULL)
		s = *save;
	/* skip leading delimiters */
	for (int k = 0; k < C18_SIGN; k++) {
		if (!c18_is_delim(*s, delim))
			break;
		s++;
	}
	if (*s == '\0') {
		*save = s;
		return NULL;
	}
	char *tok = s;
	for (int k = 0; k < C18_SIGN; k++) {
		if (*s == '\0' || c18_is_delim(*s, delim))
			break;
		s++;
	}
	if (*s == '\0') {
		*save = s;
		return tok;
	}
	*s = '\0';
	*save = s + 1;
	return tok;
}

static int c18_snprintf(char *s, size_t n, const char *fmt, const char *arg)
{
	if (fmt[0] == '%' && fmt[1] == 's' && fmt[2] == '\0') {
		size_t len = 0;
		for (int k = 0; k < C18_SIGN; k++) {
			if (arg[len] == '\0')
				break;
			len++;
		}
		__CPROVER_assert(arg[len] == '\0', "snprintf model: string within the bound");
		if (n > 0) {
			size_t m = len < n - 1 ? len : n - 1;
			for (size_t i = 0; i < C18_SIGN; i++) {
				if (i >= m)
					break;
				s[i] = arg[i];
			}
			s[m] = '\0';
		}
		return (int) len;
	}
	return verif_snprintf(s, n);
}
#undef snprintf
#define snprintf(s, n, fmt, a) c18_snprintf((s), (n), (fmt), (const char *) (uintptr_t) (a))

#include "ev_spec.c"         /* the real /repo/src/emu/ev_spec.c */
#include "model_evspec.c"    /* the real /repo/src/emu/model_evspec.c */
#include "model.h"

#define RET __CPROVER_return_value
#define IMPLIES(a, b) (!(a) || (b))

/* what the type table must say (C18 statement: "payload of the declared shape") */
#define SIZE_OF_TYPE(t) ((t) == U8 || (t) == I8 ? 1u : (t) == U16 || (t) == I16 ? 2u : (t) == U32 || (t) == I32 ? 4u : \
	(t) == U64 || (t) == I64 ? 8u : 0u)

/* ====================================================================================
 * parse_arg: one "type name" token appended to a definition with ANY number of arguments
 * ==================================================================================== */
#define ARGN 12
int g_n0; unsigned long g_ps0; int g_j;   /* pre-state, and an arbitrary earlier argument */
unsigned long g_joff, g_jsize;
int w_nargs; char w_arg[ARGN];
WITNESS(parse_arg);
int c_parse_arg(struct ev_spec *spec, char *arg)
__CPROVER_requires(__CPROVER_is_fresh(spec, sizeof(*spec)) && __CPROVER_is_fresh(arg, ARGN) && arg[ARGN - 1] == '\0')
__CPROVER_requires(spec->nargs >= 0 && spec->nargs <= MAX_ARGS && spec->payload_size <= 4 + 8 * MAX_ARGS && DIAG_PRE)
__CPROVER_requires(g_n0 == spec->nargs && g_ps0 == spec->payload_size)
__CPROVER_requires(g_j >= 0 && g_j < MAX_ARGS && g_joff == spec->args[g_j].offset && g_jsize == spec->args[g_j].size)
__CPROVER_requires(WBIND(parse_arg, w_nargs == spec->nargs && w_arg[0] == arg[0] && w_arg[1] == arg[1] && w_arg[2] == arg[2] && w_arg[3] == arg[3] &&
	w_arg[4] == arg[4] && w_arg[5] == arg[5] && w_arg[6] == arg[6] && w_arg[7] == arg[7]))
__CPROVER_assigns(__CPROVER_object_whole(spec), __CPROVER_object_whole(arg), DIAG_FRAME)
__CPROVER_ensures(RET == 0 || RET == -1)
/* the guard: a full definition takes no more arguments */
__CPROVER_ensures(IMPLIES(g_n0 >= MAX_ARGS, RET == -1))
/* accepted: exactly one argument appended at the end of the payload declared so far */
__CPROVER_ensures(IMPLIES(RET == 0, spec->nargs == g_n0 + 1 && g_n0 < MAX_ARGS))
__CPROVER_ensures(IMPLIES(RET == 0, spec->args[g_n0].offset == g_ps0))
__CPROVER_ensures(IMPLIES(RET == 0, (unsigned) spec->args[g_n0].type < MAX_TYPE && spec->args[g_n0].size == SIZE_OF_TYPE(spec->args[g_n0].type)))
__CPROVER_ensures(IMPLIES(RET == 0, spec->payload_size == g_ps0 + spec->args[g_n0].size))
/* earlier arguments keep their place */
__CPROVER_ensures(IMPLIES(RET == 0 && g_j < g_n0, spec->args[g_j].offset == g_joff && spec->args[g_j].size == g_jsize))
/* refused: the definition does not grow */
__CPROVER_ensures(IMPLIES(RET != 0, spec->nargs == g_n0 && spec->payload_size == g_ps0 && g_err > __CPROVER_old(g_err)))
;
void h_parse_arg(void)
{
	struct ev_spec *spec; char *arg;
	WITNESS_ON(parse_arg);
	int r = parse_arg(spec, arg);
	if (r == 0 && w_nargs == 0) REACH("first argument accepted");
	if (r == 0 && w_nargs == MAX_ARGS - 1) REACH("sixteenth argument accepted");
	if (r != 0 && w_nargs == MAX_ARGS) REACH("seventeenth argument refused");
	if (r != 0 && w_nargs == 0) REACH("bad token refused");
	if (r == 0 && w_arg[0] == 'i' && w_arg[1] == '6' && w_arg[2] == '4' && w_arg[3] == ' ') REACH("i64 accepted");
	if (r == 0 && w_arg[0] == 's' && w_arg[1] == 't' && w_arg[2] == 'r' && w_arg[3] == ' ') REACH("str accepted");
}

/* ====================================================================================
 * ev_spec_compile: any signature of up to C18_SIGN-1 characters
 * ==================================================================================== */
int g_k;                   /* arbitrary argument index (single-cell observer) */
char w_sig[C18_SIGN];
WITNESS(ev_spec_compile);
#define SIG(i) (decl->signature[i])
#define W8(o) (w_sig[o] == SIG(o) && w_sig[o + 1] == SIG(o + 1) && w_sig[o + 2] == SIG(o + 2) && w_sig[o + 3] == SIG(o + 3) && \
	w_sig[o + 4] == SIG(o + 4) && w_sig[o + 5] == SIG(o + 5) && w_sig[o + 6] == SIG(o + 6) && w_sig[o + 7] == SIG(o + 7))
_Static_assert(C18_SIGN >= 8 && C18_SIGN % 8 == 0, "witness copies the signature in blocks of 8");
#if C18_SIGN == 24
#define WSIG (W8(0) && W8(8) && W8(16))
#elif C18_SIGN == 16
#define WSIG (W8(0) && W8(8))
#elif C18_SIGN == 32
#define WSIG (W8(0) && W8(8) && W8(16) && W8(24))
#else
#define WSIG (W8(0))
#endif
#define SHORT3 (SIG(0) == '\0' || SIG(1) == '\0' || SIG(2) == '\0')
#define GRAPH3 (isgraph(SIG(0)) && isgraph(SIG(1)) && isgraph(SIG(2)))

int c_ev_spec_compile(struct ev_spec *spec, struct ev_decl *decl)
__CPROVER_requires(__CPROVER_is_fresh(spec, sizeof(*spec)) && __CPROVER_is_fresh(decl, sizeof(*decl)))
__CPROVER_requires(__CPROVER_is_fresh(decl->signature, C18_SIGN) && decl->signature[C18_SIGN - 1] == '\0' && DIAG_PRE)
__CPROVER_requires(g_k >= 0 && g_k < MAX_ARGS)
__CPROVER_requires(WBIND(ev_spec_compile, WSIG))
__CPROVER_assigns(__CPROVER_object_whole(spec), DIAG_FRAME)
__CPROVER_ensures(RET == 0 || RET == -1)
/* --- malformed signatures are refused --- */
__CPROVER_ensures(IMPLIES(SHORT3, RET == -1))                                           /* fewer than three characters */
__CPROVER_ensures(IMPLIES(!SHORT3 && !GRAPH3, RET == -1))                               /* unprintable model/category/value */
__CPROVER_ensures(IMPLIES(!SHORT3 && SIG(3) != '\0' && SIG(3) != '+' && SIG(3) != '(', RET == -1)) /* junk after the MCV */
__CPROVER_ensures(IMPLIES(!SHORT3 && SIG(3) == '+' && SIG(4) != '(', RET == -1))        /* jumbo without arguments */
__CPROVER_ensures(IMPLIES(!SHORT3 && SIG(3) == '(' && (SIG(4) == '\0' || (SIG(4) == ')' && SIG(5) == '\0')), RET == -1)) /* "(" or "()" */
__CPROVER_ensures(IMPLIES(RET != 0, g_err > __CPROVER_old(g_err)))
/* --- accepted: the definition is the signature --- */
__CPROVER_ensures(IMPLIES(RET == 0, spec->mcv[0] == SIG(0) && spec->mcv[1] == SIG(1) && spec->mcv[2] == SIG(2) && spec->mcv[3] == '\0'))
__CPROVER_ensures(IMPLIES(RET == 0, spec->is_jumbo == (SIG(3) == '+' ? 1 : 0)))
__CPROVER_ensures(IMPLIES(RET == 0, spec->nargs >= 0 && spec->nargs <= MAX_ARGS))
__CPROVER_ensures(IMPLIES(RET == 0, (spec->nargs == 0) == (SIG(3) == '\0')))
__CPROVER_ensures(IMPLIES(RET == 0 && spec->nargs == 0, spec->payload_size == 0 && !spec->is_jumbo))
/* offsets are cumulative: first argument after the jumbo size word, each next one right behind, total = end of the last */
__CPROVER_ensures(IMPLIES(RET == 0 && spec->nargs > 0, spec->args[0].offset == (spec->is_jumbo ? 4u : 0u)))
__CPROVER_ensures(IMPLIES(RET == 0 && g_k > 0 && g_k < spec->nargs, spec->args[g_k].offset == spec->args[g_k - 1].offset + spec->args[g_k - 1].size))
__CPROVER_ensures(IMPLIES(RET == 0 && g_k < spec->nargs, (unsigned) spec->args[g_k].type < MAX_TYPE && spec->args[g_k].size == SIZE_OF_TYPE(spec->args[g_k].type)))
__CPROVER_ensures(IMPLIES(RET == 0 && spec->nargs > 0, spec->payload_size == spec->args[spec->nargs - 1].offset + spec->args[spec->nargs - 1].size))
__CPROVER_ensures(IMPLIES(RET == 0, spec->description == decl->description))
;
int w_ret_nargs;
void h_ev_spec_compile(void)
{
	struct ev_spec *spec; struct ev_decl *decl;
	WITNESS_ON(ev_spec_compile);
	int r = ev_spec_compile(spec, decl);
	if (r == 0 && w_sig[3] == '\0') REACH("plain MCV accepted");
	if (r == 0 && w_sig[3] == '+') REACH("jumbo accepted");
	if (r == 0 && w_sig[3] == '(' && w_sig[C18_SIGN - 2] == ')') REACH("longest signature accepted");
	if (r != 0 && w_sig[3] == '(') REACH("bad arguments refused");
	if (r != 0 && w_sig[3] == '\0') REACH("bad MCV refused");
}

/* ---- the argument type names: "MCV(<type> x)" is accepted exactly for the nine type names,
 *      with the size of that type ---- */
char w_t[4];
WITNESS(onearg);
#define T(i) SIG(4 + (i))
#define TYPE_IS(a, b, c) (T(0) == (a) && T(1) == (b) && T(2) == (c))
#define T2(a, b) (T(0) == (a) && T(1) == (b) && T(2) == ' ' && T(3) == 'x' && T(4) == ')' && T(5) == '\0')
#define T3(a, b, c) (T(0) == (a) && T(1) == (b) && T(2) == (c) && T(3) == ' ' && T(4) == 'x' && T(5) == ')' && T(6) == '\0')
#define ONEARG_SHAPE (SIG(0) == 'O' && SIG(1) == 'A' && SIG(2) == 'r' && SIG(3) == '(' && \
	T(0) != ' ' && T(0) != ',' && T(0) != ')' && T(0) != '\0' && T(1) != ' ' && T(1) != ',' && T(1) != ')' && T(1) != '\0' && \
	((T(2) == ' ' && T(3) == 'x' && T(4) == ')' && T(5) == '\0') || \
	 (T(2) != ' ' && T(2) != ',' && T(2) != ')' && T(2) != '\0' && T(3) == ' ' && T(4) == 'x' && T(5) == ')' && T(6) == '\0')))
#define KNOWN_TYPE (T2('u', '8') || T2('i', '8') || T3('u', '1', '6') || T3('u', '3', '2') || T3('u', '6', '4') || \
	T3('i', '1', '6') || T3('i', '3', '2') || T3('i', '6', '4') || T3('s', 't', 'r'))
#define EXPECT_TYPE (T2('u', '8') ? U8 : T2('i', '8') ? I8 : T3('u', '1', '6') ? U16 : T3('u', '3', '2') ? U32 : T3('u', '6', '4') ? U64 : \
	T3('i', '1', '6') ? I16 : T3('i', '3', '2') ? I32 : T3('i', '6', '4') ? I64 : STR)
int c_onearg(struct ev_spec *spec, struct ev_decl *decl)
__CPROVER_requires(__CPROVER_is_fresh(spec, sizeof(*spec)) && __CPROVER_is_fresh(decl, sizeof(*decl)))
__CPROVER_requires(__CPROVER_is_fresh(decl->signature, 16) && decl->signature[15] == '\0' && DIAG_PRE)
__CPROVER_requires(ONEARG_SHAPE)
__CPROVER_requires(WBIND(onearg, w_t[0] == T(0) && w_t[1] == T(1) && w_t[2] == T(2)))
__CPROVER_assigns(__CPROVER_object_whole(spec), DIAG_FRAME)
__CPROVER_ensures((RET == 0) == (KNOWN_TYPE ? 1 : 0))
__CPROVER_ensures(IMPLIES(RET == 0, spec->nargs == 1 && spec->args[0].type == EXPECT_TYPE && spec->args[0].offset == 0 &&
	spec->args[0].size == SIZE_OF_TYPE(EXPECT_TYPE) && spec->payload_size == SIZE_OF_TYPE(EXPECT_TYPE)))
__CPROVER_ensures(IMPLIES(RET == 0, spec->args[0].name[0] == 'x' && spec->args[0].name[1] == '\0'))
;
void h_onearg(void)
{
	struct ev_spec *spec; struct ev_decl *decl;
	WITNESS_ON(onearg);
	int r = ev_spec_compile(spec, decl);
	if (r == 0 && w_t[0] == 'u' && w_t[1] == '8') REACH("u8 accepted");
	if (r == 0 && w_t[0] == 'i' && w_t[1] == '6' && w_t[2] == '4') REACH("i64 accepted");
	if (r == 0 && w_t[0] == 's') REACH("str accepted");
	if (r != 0 && w_t[0] == 'u' && w_t[1] == '9') REACH("unknown type refused");
}

/* ====================================================================================
 * model_evspec_init on a two-entry catalogue with arbitrary three-character codes:
 * accepted iff both codes are well-formed, different, and carry the model character.
 * The real uthash HASH_ADD_STR / HASH_FIND_STR run (no stub).
 * ==================================================================================== */
char w_a[3], w_b[3]; int w_model;
WITNESS(model_evspec_init);
#define E(i, j) (spec->evlist[i].signature[j])
#define GRAPH_E(i) (isgraph(E(i, 0)) && isgraph(E(i, 1)) && isgraph(E(i, 2)))
#define SAME_MCV (E(0, 0) == E(1, 0) && E(0, 1) == E(1, 1) && E(0, 2) == E(1, 2))
int c_model_evspec_init(struct model_evspec *evspec, struct model_spec *spec)
__CPROVER_requires(__CPROVER_is_fresh(evspec, sizeof(*evspec)) && __CPROVER_is_fresh(spec, sizeof(*spec)))
__CPROVER_requires(__CPROVER_is_fresh(spec->evlist, 3 * sizeof(struct ev_decl)) && DIAG_PRE)
__CPROVER_requires(__CPROVER_is_fresh(spec->evlist[0].signature, 4) && spec->evlist[0].signature[3] == '\0')
__CPROVER_requires(__CPROVER_is_fresh(spec->evlist[1].signature, 4) && spec->evlist[1].signature[3] == '\0')
__CPROVER_requires(spec->evlist[2].signature == NULL)
__CPROVER_requires(WBIND(model_evspec_init, w_model == spec->model && w_a[0] == E(0, 0) && w_a[1] == E(0, 1) && w_a[2] == E(0, 2) &&
	w_b[0] == E(1, 0) && w_b[1] == E(1, 1) && w_b[2] == E(1, 2)))
__CPROVER_assigns(__CPROVER_object_whole(evspec), DIAG_FRAME)
__CPROVER_ensures(RET == 0 || RET == -1)
__CPROVER_ensures(IMPLIES(GRAPH_E(0) && GRAPH_E(1) && SAME_MCV, RET == -1))                               /* duplicate MCV */
__CPROVER_ensures(IMPLIES(GRAPH_E(0) && E(0, 0) != spec->model, RET == -1))                               /* model character */
__CPROVER_ensures(IMPLIES(GRAPH_E(0) && GRAPH_E(1) && E(1, 0) != spec->model, RET == -1))
__CPROVER_ensures(IMPLIES(!GRAPH_E(0) || !GRAPH_E(1), RET == -1))                                         /* does not compile */
/* accepted otherwise (the only other failure is calloc) */
__CPROVER_ensures(IMPLIES(RET == 0, evspec->nevents == 2 && evspec->alloc != NULL && evspec->spec != NULL))
__CPROVER_ensures(IMPLIES(RET != 0, g_err > __CPROVER_old(g_err)))
;
void h_model_evspec_init(void)
{
	struct model_evspec *evspec; struct model_spec *spec;
	WITNESS_ON(model_evspec_init);
	int r = model_evspec_init(evspec, spec);
	if (r == 0) REACH("two different events of the model accepted");
	if (r != 0 && w_a[0] == w_model && w_b[0] == w_model && w_a[1] == w_b[1] && w_a[2] == w_b[2]) REACH("duplicate refused");
	if (r != 0 && w_a[0] != w_model) REACH("foreign model character refused");
}
