/* C18 -- the catalogue compiler: ev_spec.c (ev_spec_compile, parse_signature, parse_args,
 * parse_arg, parse_type) and model_evspec.c (model_evspec_init, model_evspec_find).
 *
 * BOUNDED and COMPOSITIONAL.  A fully symbolic signature string run through the real
 * tokenising code does not finish (plain CBMC, 16-byte signature, no DFCC: > 5 min in symbolic
 * execution alone: every parse_arg writes at a symbolic offset of the 1.7 KB definition).  So:
 *   parse_arg_n<k>   the real parse_arg on an arbitrary token (<= 11 chars) appended to a
 *                    definition that already holds k arguments; concrete strtok_r model;
 *                    k = 0, 15, 16 with the strong contract (type names <-> sizes, MAX_ARGS guard),
 *                    k = 0..3 with the self-contained contract cr_parse_arg used below;
 *   ev_spec_compile  the real ev_spec_compile / parse_signature / parse_args on an arbitrary
 *                    signature (<= C18_SIGN bytes) where parse_arg is replaced by cr_parse_arg
 *                    and strtok_r is ABSTRACT (yields at most 4 tokens, anywhere): MCV, jumbo
 *                    flag, cumulative offsets, payload size, refused classes.
 *   model_evspec_init  see below.
 * The real catalogue (every signature of the eight model_evlist[]) is covered completely by
 * the native groups (catalogue_<model>.evlist_wellformed); arbitrary signatures longer than
 * the bound or with more than 4 arguments are NOT decided.
 *
 * Trusted stubs (libc, outside the unit):
 *   strtok_r   POSIX.1-2008 hand model (CBMC ships no body) / abstract variant
 *   snprintf   the two "%s" uses of the compile path: returns strlen (C99 7.19.6.5); the
 *              256-byte working copy is copied, an argument name gets arbitrary characters
 *   isgraph    C locale: 0x21..0x7e
 */
#include "prelude.h"

#ifndef C18_SIGN
#define C18_SIGN 24
#endif

/* ---- libc models ---- */
#undef isgraph
#define isgraph(c) ((c) > 0x20 && (c) < 0x7f)
#undef isalnum
#define isalnum(c) (((c) >= '0' && (c) <= '9') || ((c) >= 'a' && (c) <= 'z') || ((c) >= 'A' && (c) <= 'Z'))

char *m_tok_base;
unsigned m_tok_n;           /* tokens handed out (abstract variant) */
#ifdef C18_ABSTRACT_TOK
/* strtok_r, abstract: at most C18_MAXTOK tokens; a token is some place of the string being split.
 * Nothing in the groups that use this variant reads a token (parse_arg is replaced by its
 * contract), so "which token" is left completely open: sound for every tokenisation. */
#define C18_MAXTOK 4
char *strtok_r(char *s, const char *delim, char **save)
{
	(void) delim;
	if (s != NULL) {
		m_tok_base = s;
		m_tok_n = 0;
	}
	*save = m_tok_base;
	if (m_tok_n >= C18_MAXTOK || nondet_bool())
		return NULL;
	m_tok_n++;
	return m_tok_base;
}
#else
/* strtok_r, POSIX.1-2008.  Written over CONSTANT indices relative to the start of the string being
 * split (a pointer walked through a symbolic string makes every access a symbolic-offset access).
 * m_tok_base is the first string handed to strtok_r; the model asserts that later calls stay in it. */
char *strtok_r(char *s, const char *delim, char **save)
{
	char d0 = delim[0];
	char d1 = (d0 == '\0') ? '\0' : delim[1];
	__CPROVER_assert(d0 != '\0' && (d1 == '\0' || delim[2] == '\0'), "strtok_r model: one or two delimiters");
	if (s != NULL && (m_tok_base == NULL || !__CPROVER_same_object(s, m_tok_base)))
		m_tok_base = s;
	const char *from = (s != NULL) ? s : *save;
	__CPROVER_assert(__CPROVER_same_object(from, m_tok_base) && from >= m_tok_base, "strtok_r model: continues inside the string it started");
	long pos = from - m_tok_base;
	long start = -1;
	for (long k = 0; k < C18_SIGN; k++) {
		if (k < pos)
			continue;
		char c = m_tok_base[k];
		if (c == '\0') {
			/* end of the string: the last token, or none */
			*save = m_tok_base + k;
			return start < 0 ? NULL : m_tok_base + start;
		}
		int isdelim = (c == d0 || (d1 != '\0' && c == d1));
		if (start < 0) {
			if (!isdelim)
				start = k;          /* leading delimiters are skipped */
		} else if (isdelim) {
			m_tok_base[k] = '\0';      /* the token ends here */
			*save = m_tok_base + k + 1;
			return m_tok_base + start;
		}
	}
	__CPROVER_assert(0, "strtok_r model: string ends within the bound");
	return NULL;
}
#endif

/* snprintf(s, n, "%s", arg): returns strlen(arg) (C99 7.19.6.5).  The 256-byte working copy of the
 * signature (n == 256) is copied faithfully; for the 64-byte argument name only the terminator is placed
 * and the characters before it are arbitrary (no clause of these groups reads a name; copying them would be
 * a dozen writes at a symbolic offset of the 1.7 KB definition per argument). */
static int c18_snprintf(char *s, size_t n, const char *fmt, const char *arg)
{
	if (fmt[0] == '%' && fmt[1] == 's' && fmt[2] == '\0') {
		size_t len = 0;
		for (int k = 0; k < C18_SIGN; k++) {
			if (arg[len] == '\0')
				break;
			len++;
		}
		__CPROVER_assert(arg[len] == '\0', "snprintf model: string within the bound");
		if (n > 0) {
			size_t m = len < n - 1 ? len : n - 1;
			if (n == 256) {
				for (size_t i = 0; i < C18_SIGN; i++) {
					if (i >= m)
						break;
					s[i] = arg[i];
				}
			} else if (m > 0) {
				__CPROVER_havoc_slice(s, m);
			}
			s[m] = '\0';
		}
		return (int) len;
	}
	return verif_snprintf(s, n);
}
#undef snprintf
#define snprintf(s, n, fmt, a) c18_snprintf((s), (n), (fmt), (const char *) (uintptr_t) (a))

#include "ev_spec.c"         /* the real /repo/src/emu/ev_spec.c */
#include "model_evspec.c"    /* the real /repo/src/emu/model_evspec.c */
#include "model.h"

#define RET __CPROVER_return_value
#define OLD(e) __CPROVER_old(e)
#define IMPLIES(a, b) (!(a) || (b))

/* what the type table must say (C18 statement: "payload of the declared shape") */
#define SIZE_OF_TYPE(t) ((t) == U8 || (t) == I8 ? 1u : (t) == U16 || (t) == I16 ? 2u : (t) == U32 || (t) == I32 ? 4u : \
	(t) == U64 || (t) == I64 ? 8u : 0u)

/* ====================================================================================
 * parse_arg: one "type name" token appended to a definition that holds C18_NARGS arguments
 * (fixed per group: a symbolic index into spec->args[] does not finish)
 * ==================================================================================== */
#define ARGN 12
#ifndef C18_NARGS
#define C18_NARGS 0
#endif
_Static_assert(C18_NARGS >= 0 && C18_NARGS <= MAX_ARGS, "definition with 0..MAX_ARGS arguments");

/* --- (a) strong, enforce-only contract --- */
int g_n0; unsigned long g_ps0; int g_j;   /* pre-state, and an arbitrary earlier argument */
unsigned long g_joff, g_jsize;
int w_nargs; char w_arg[ARGN];
/* token shapes "tt n..." and "ttt n..." (type of two / three characters, one blank, a name) -- on the pre-state copy */
#define A(i) (w_arg[i])
#define NODELIM(c) ((c) != ' ' && (c) != '\0')
#define SHAPE2 (NODELIM(A(0)) && NODELIM(A(1)) && A(2) == ' ' && NODELIM(A(3)))
#define SHAPE3 (NODELIM(A(0)) && NODELIM(A(1)) && NODELIM(A(2)) && A(3) == ' ' && NODELIM(A(4)))
#define IS2(a, b) (SHAPE2 && A(0) == (a) && A(1) == (b))
#define IS3(a, b, c) (SHAPE3 && A(0) == (a) && A(1) == (b) && A(2) == (c))
#define KNOWN_TYPE (IS2('u', '8') || IS2('i', '8') || IS3('u', '1', '6') || IS3('u', '3', '2') || IS3('u', '6', '4') || \
	IS3('i', '1', '6') || IS3('i', '3', '2') || IS3('i', '6', '4') || IS3('s', 't', 'r'))
#define EXPECT_TYPE (IS2('u', '8') ? U8 : IS2('i', '8') ? I8 : IS3('u', '1', '6') ? U16 : IS3('u', '3', '2') ? U32 : IS3('u', '6', '4') ? U64 : \
	IS3('i', '1', '6') ? I16 : IS3('i', '3', '2') ? I32 : IS3('i', '6', '4') ? I64 : STR)
int c_parse_arg(struct ev_spec *spec, char *arg)
__CPROVER_requires(__CPROVER_is_fresh(spec, sizeof(*spec)) && __CPROVER_is_fresh(arg, ARGN) && arg[ARGN - 1] == '\0')
__CPROVER_requires(spec->nargs == C18_NARGS && spec->payload_size <= 4 + 8 * MAX_ARGS && DIAG_PRE && m_tok_base == NULL)
__CPROVER_requires(g_n0 == spec->nargs && g_ps0 == spec->payload_size)
__CPROVER_requires(g_j >= 0 && g_j < MAX_ARGS && g_joff == spec->args[g_j].offset && g_jsize == spec->args[g_j].size)
__CPROVER_requires(w_nargs == spec->nargs && w_arg[0] == arg[0] && w_arg[1] == arg[1] && w_arg[2] == arg[2] && w_arg[3] == arg[3] &&
	w_arg[4] == arg[4] && w_arg[5] == arg[5] && w_arg[6] == arg[6] && w_arg[7] == arg[7])
__CPROVER_assigns(__CPROVER_object_whole(spec), __CPROVER_object_whole(arg), DIAG_FRAME, m_tok_base)
__CPROVER_ensures(RET == 0 || RET == -1)
/* the guard: a full definition takes no more arguments */
__CPROVER_ensures(IMPLIES(g_n0 >= MAX_ARGS, RET == -1))
/* accepted: exactly one argument appended at the end of the payload declared so far */
__CPROVER_ensures(IMPLIES(RET == 0, spec->nargs == g_n0 + 1 && g_n0 < MAX_ARGS))
__CPROVER_ensures(IMPLIES(RET == 0, spec->args[g_n0].offset == g_ps0))
__CPROVER_ensures(IMPLIES(RET == 0, (unsigned) spec->args[g_n0].type < MAX_TYPE && spec->args[g_n0].size == SIZE_OF_TYPE(spec->args[g_n0].type)))
__CPROVER_ensures(IMPLIES(RET == 0, spec->payload_size == g_ps0 + spec->args[g_n0].size))
/* a well-shaped token is accepted exactly for the nine type names, with that type */
__CPROVER_ensures(IMPLIES((SHAPE2 || SHAPE3) && g_n0 < MAX_ARGS, (RET == 0) == (KNOWN_TYPE ? 1 : 0)))
__CPROVER_ensures(IMPLIES((SHAPE2 || SHAPE3) && RET == 0, spec->args[g_n0].type == EXPECT_TYPE))
/* a token without a name, or an empty token, is refused */
__CPROVER_ensures(IMPLIES(A(0) == '\0' || (NODELIM(A(0)) && A(1) == '\0') || (NODELIM(A(0)) && NODELIM(A(1)) && A(2) == '\0'), RET == -1))
/* earlier arguments keep their place */
__CPROVER_ensures(IMPLIES(RET == 0 && g_j < g_n0, spec->args[g_j].offset == g_joff && spec->args[g_j].size == g_jsize))
/* refused: the definition does not grow */
__CPROVER_ensures(IMPLIES(RET != 0, spec->nargs == g_n0 && spec->payload_size == g_ps0 && g_err > OLD(g_err)))
;
void h_parse_arg(void)
{
	struct ev_spec *spec; char *arg;
	int r = parse_arg(spec, arg);
#if C18_NARGS < MAX_ARGS
	if (r == 0 && w_nargs == C18_NARGS) REACH("argument accepted");
	if (r != 0) REACH("bad token refused");
	if (r == 0 && w_arg[0] == 'i' && w_arg[1] == '6' && w_arg[2] == '4' && w_arg[3] == ' ') REACH("i64 accepted");
	if (r == 0 && w_arg[0] == 's' && w_arg[1] == 't' && w_arg[2] == 'r' && w_arg[3] == ' ') REACH("str accepted");
	if (r == 0 && w_arg[0] == 'u' && w_arg[1] == '8' && w_arg[2] == ' ') REACH("u8 accepted");
	if (r != 0 && w_arg[0] == 'u' && w_arg[1] == '9' && w_arg[2] == ' ' && w_arg[3] == 'x') REACH("unknown type refused");
#else
	if (r != 0 && w_nargs == MAX_ARGS) REACH("seventeenth argument refused");
#endif
}

/* --- (b) self-contained contract (only __CPROVER_old of plain fields): what ev_spec_compile's group assumes
 *         at each call.  Same assigns/ensures text for the proof and for the replacement (CR_PARSE_ARG_POST);
 *         the replacement ASSERTS at every call site that the definition holds 0..3 arguments, the values for
 *         which the r_parse_arg_n<k> groups prove it. --- */
#define CR_PARSE_ARG_POST \
	__CPROVER_assigns(spec->nargs, spec->payload_size, spec->args[spec->nargs], __CPROVER_object_whole(arg), DIAG_FRAME, m_tok_base) \
	__CPROVER_ensures(RET == 0 || RET == -1) \
	__CPROVER_ensures(IMPLIES(RET == 0, spec->nargs == OLD(spec->nargs) + 1)) \
	__CPROVER_ensures(IMPLIES(RET == 0, spec->args[OLD(spec->nargs)].offset == OLD(spec->payload_size))) \
	__CPROVER_ensures(IMPLIES(RET == 0, (unsigned) spec->args[OLD(spec->nargs)].type < MAX_TYPE && \
		spec->args[OLD(spec->nargs)].size == SIZE_OF_TYPE(spec->args[OLD(spec->nargs)].type))) \
	__CPROVER_ensures(IMPLIES(RET == 0, spec->payload_size == OLD(spec->payload_size) + spec->args[OLD(spec->nargs)].size)) \
	__CPROVER_ensures(IMPLIES(RET != 0, spec->nargs == OLD(spec->nargs) && spec->payload_size == OLD(spec->payload_size) && g_err > OLD(g_err)))
#define CR_NARGS_PROVED(n) ((n) >= 0 && (n) <= 3)

int ce_parse_arg(struct ev_spec *spec, char *arg)      /* proved by r_parse_arg_n0..3 */
__CPROVER_requires(__CPROVER_is_fresh(spec, sizeof(*spec)) && __CPROVER_is_fresh(arg, ARGN) && arg[ARGN - 1] == '\0')
__CPROVER_requires(spec->nargs == C18_NARGS && CR_NARGS_PROVED(spec->nargs) && spec->payload_size <= 4 + 8 * MAX_ARGS && DIAG_PRE && m_tok_base == NULL)
__CPROVER_requires(w_nargs == spec->nargs)
CR_PARSE_ARG_POST
;
int cr_parse_arg(struct ev_spec *spec, char *arg)      /* assumed in ev_spec_compile */
__CPROVER_requires(spec != NULL && arg != NULL && CR_NARGS_PROVED(spec->nargs) && spec->payload_size <= 4 + 8 * MAX_ARGS && DIAG_PRE)
CR_PARSE_ARG_POST
;
void h_r_parse_arg(void)
{
	struct ev_spec *spec; char *arg;
	int r = parse_arg(spec, arg);
	if (r == 0 && w_nargs == C18_NARGS) REACH("argument accepted");
	if (r != 0) REACH("bad token refused");
}

/* ====================================================================================
 * ev_spec_compile: any signature of up to C18_SIGN-1 characters, at most 4 argument tokens
 * ==================================================================================== */
int g_k;                   /* arbitrary argument index (single-cell observer) */
char w_sig[8];
WITNESS(ev_spec_compile);
#define SIG(i) (decl->signature[i])
#define SHORT3 (SIG(0) == '\0' || SIG(1) == '\0' || SIG(2) == '\0')
#define GRAPH3 (isgraph(SIG(0)) && isgraph(SIG(1)) && isgraph(SIG(2)))

int c_ev_spec_compile(struct ev_spec *spec, struct ev_decl *decl)
__CPROVER_requires(__CPROVER_is_fresh(spec, sizeof(*spec)) && __CPROVER_is_fresh(decl, sizeof(*decl)))
__CPROVER_requires(__CPROVER_is_fresh(decl->signature, C18_SIGN) && decl->signature[C18_SIGN - 1] == '\0' && DIAG_PRE)
__CPROVER_requires(g_k >= 0 && g_k < MAX_ARGS)
__CPROVER_requires(WBIND(ev_spec_compile, w_sig[0] == SIG(0) && w_sig[1] == SIG(1) && w_sig[2] == SIG(2) && w_sig[3] == SIG(3) &&
	w_sig[4] == SIG(4) && w_sig[5] == SIG(5)))
__CPROVER_assigns(__CPROVER_object_whole(spec), DIAG_FRAME, m_tok_base, m_tok_n)
__CPROVER_ensures(RET == 0 || RET == -1)
/* --- malformed signatures are refused --- */
__CPROVER_ensures(IMPLIES(SHORT3, RET == -1))                                           /* fewer than three characters */
__CPROVER_ensures(IMPLIES(!SHORT3 && !GRAPH3, RET == -1))                               /* unprintable model/category/value */
__CPROVER_ensures(IMPLIES(!SHORT3 && SIG(3) != '\0' && SIG(3) != '+' && SIG(3) != '(', RET == -1)) /* junk after the MCV */
__CPROVER_ensures(IMPLIES(!SHORT3 && SIG(3) == '+' && SIG(4) != '(', RET == -1))        /* jumbo without arguments */
__CPROVER_ensures(IMPLIES(RET != 0, g_err > OLD(g_err)))
/* --- accepted: the definition is the signature --- */
__CPROVER_ensures(IMPLIES(RET == 0, spec->mcv[0] == SIG(0) && spec->mcv[1] == SIG(1) && spec->mcv[2] == SIG(2) && spec->mcv[3] == '\0'))
__CPROVER_ensures(IMPLIES(RET == 0, spec->is_jumbo == (SIG(3) == '+' ? 1 : 0)))
__CPROVER_ensures(IMPLIES(RET == 0, spec->nargs >= 0 && spec->nargs <= MAX_ARGS))
/* arguments exactly when there is a parenthesis; "(...)" without any argument is refused */
__CPROVER_ensures(IMPLIES(RET == 0, (spec->nargs == 0) == (SIG(3) == '\0')))
__CPROVER_ensures(IMPLIES(RET == 0 && spec->nargs == 0, spec->payload_size == 0 && !spec->is_jumbo))
/* offsets are cumulative: first argument after the jumbo size word, each next one right behind, total = end of the last */
__CPROVER_ensures(IMPLIES(RET == 0 && spec->nargs > 0, spec->args[0].offset == (spec->is_jumbo ? 4u : 0u)))
__CPROVER_ensures(IMPLIES(RET == 0 && g_k > 0 && g_k < spec->nargs, spec->args[g_k].offset == spec->args[g_k - 1].offset + spec->args[g_k - 1].size))
__CPROVER_ensures(IMPLIES(RET == 0 && g_k < spec->nargs, (unsigned) spec->args[g_k].type < MAX_TYPE && spec->args[g_k].size == SIZE_OF_TYPE(spec->args[g_k].type)))
__CPROVER_ensures(IMPLIES(RET == 0 && spec->nargs > 0, spec->payload_size == spec->args[spec->nargs - 1].offset + spec->args[spec->nargs - 1].size))
__CPROVER_ensures(IMPLIES(RET == 0, spec->description == decl->description))
;
int g_ret_nargs;
void h_ev_spec_compile(void)
{
	struct ev_spec *spec; struct ev_decl *decl;
	WITNESS_ON(ev_spec_compile);
	int r = ev_spec_compile(spec, decl);
	if (r == 0 && w_sig[3] == '\0') REACH("plain MCV accepted");
	if (r == 0 && w_sig[3] == '+') REACH("jumbo accepted");
	if (r == 0 && w_sig[3] == '(') REACH("arguments accepted");
	if (r == 0 && m_tok_n == 4) REACH("four tokens accepted");
	if (r != 0 && w_sig[3] == '(') REACH("bad arguments refused");
	if (r != 0 && w_sig[3] == '\0') REACH("bad MCV refused");
}

/* ====================================================================================
 * model_evspec_init on a two-entry catalogue with arbitrary three-character codes:
 * refused when a code does not compile, is duplicated, or carries another model character.
 * ==================================================================================== */
char w_a[3], w_b[3]; int w_model;
WITNESS(model_evspec_init);
#define E(i, j) (spec->evlist[i].signature[j])
#define GRAPH_E(i) (isgraph(E(i, 0)) && isgraph(E(i, 1)) && isgraph(E(i, 2)))
#define SAME_MCV (E(0, 0) == E(1, 0) && E(0, 1) == E(1, 1) && E(0, 2) == E(1, 2))
int c_model_evspec_init(struct model_evspec *evspec, struct model_spec *spec)
__CPROVER_requires(__CPROVER_is_fresh(evspec, sizeof(*evspec)) && __CPROVER_is_fresh(spec, sizeof(*spec)))
__CPROVER_requires(__CPROVER_is_fresh(spec->evlist, 3 * sizeof(struct ev_decl)) && DIAG_PRE && m_tok_base == NULL)
__CPROVER_requires(__CPROVER_is_fresh(spec->evlist[0].signature, 4) && spec->evlist[0].signature[3] == '\0')
__CPROVER_requires(__CPROVER_is_fresh(spec->evlist[1].signature, 4) && spec->evlist[1].signature[3] == '\0')
__CPROVER_requires(spec->evlist[2].signature == NULL)
__CPROVER_requires(WBIND(model_evspec_init, w_model == spec->model && w_a[0] == E(0, 0) && w_a[1] == E(0, 1) && w_a[2] == E(0, 2) &&
	w_b[0] == E(1, 0) && w_b[1] == E(1, 1) && w_b[2] == E(1, 2)))
__CPROVER_assigns(__CPROVER_object_whole(evspec), DIAG_FRAME, m_tok_base)
__CPROVER_ensures(RET == 0 || RET == -1)
__CPROVER_ensures(IMPLIES(GRAPH_E(0) && GRAPH_E(1) && SAME_MCV, RET == -1))                               /* duplicate MCV */
__CPROVER_ensures(IMPLIES(GRAPH_E(0) && E(0, 0) != spec->model, RET == -1))                               /* model character */
__CPROVER_ensures(IMPLIES(GRAPH_E(0) && GRAPH_E(1) && E(1, 0) != spec->model, RET == -1))
__CPROVER_ensures(IMPLIES(!GRAPH_E(0) || !GRAPH_E(1), RET == -1))                                         /* does not compile */
__CPROVER_ensures(IMPLIES(RET == 0, evspec->nevents == 2 && evspec->alloc != NULL && evspec->spec != NULL))
__CPROVER_ensures(IMPLIES(RET != 0, g_err > OLD(g_err)))
;
void h_model_evspec_init(void)
{
	struct model_evspec *evspec; struct model_spec *spec;
	WITNESS_ON(model_evspec_init);
	int r = model_evspec_init(evspec, spec);
	if (r == 0) REACH("two different events of the model accepted");
	if (r != 0 && w_a[0] == w_model && w_b[0] == w_model && w_a[1] == w_b[1] && w_a[2] == w_b[2]) REACH("duplicate refused");
	if (r != 0 && w_a[0] != w_model) REACH("foreign model character refused");
}
