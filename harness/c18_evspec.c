/* C18 -- the catalogue compiler: ev_spec.c (ev_spec_compile, parse_signature, parse_args,
 * parse_arg, parse_type).
 *
 * BOUNDED and PARTIAL.  A fully symbolic signature run through the real tokenising loop of
 * parse_args does not finish (measured: plain CBMC without DFCC, 16-byte signature: > 5 min in
 * symbolic execution alone -- every parse_arg writes at a symbolic offset of the 1.7 KB
 * definition; with parse_arg replaced by its contract and an abstract strtok_r: out of memory in
 * DFCC's write-set inclusion checks).  What IS proved here:
 *   parse_arg_n<k>        the real parse_arg / parse_type on an ARBITRARY token (<= 11 chars) appended
 *                         to a definition that already holds k arguments (k = 0,1,2,3,15,16): offset =
 *                         payload declared so far, size = size of the type, the nine type names and
 *                         nothing else, MAX_ARGS guard, earlier arguments untouched;
 *   ev_spec_compile_head  the real ev_spec_compile / parse_signature for EVERY signature (<= C18_SIGN
 *                         bytes) that has no argument list: accepted iff three printable characters
 *                         and nothing else; MCV, flags, empty payload; the refused classes;
 *                         parse_args is proved unreachable there (contract with requires(false));
 * model_evspec_init (real uthash add/find on symbolic keys) does not finish either (> 170 s with tight unwinding):
 * it is evaluated natively on every single-entry corruption of the eight real catalogues (init_refuses_corrupt).
 * NOT decided by CBMC: parse_args' loop over a symbolic argument list (cumulative offsets over
 * several arguments follow from parse_arg's contract by induction on the loop -- argued, not
 * machine-checked).  The real catalogue (every signature of the eight model_evlist[]) is covered
 * completely by the native groups (catalogue_<model>.evlist_wellformed recomputes offsets, sizes,
 * types and names independently); sample malformed argument lists by the native obligation compile_samples.
 *
 * Trusted stubs (libc, outside the unit):
 *   strtok_r   POSIX.1-2008 hand model (CBMC ships no body)
 *   snprintf   the two "%s" uses of the compile path: returns strlen (C99 7.19.6.5); the
 *              256-byte working copy is copied, an argument name gets arbitrary characters
 *   isgraph    C locale: 0x21..0x7e
 */
#include "prelude.h"

#ifndef C18_SIGN
#define C18_SIGN 24
#endif

/* ---- libc models ---- */
#undef isgraph
#define isgraph(c) ((c) > 0x20 && (c) < 0x7f)
#undef isalnum
#define isalnum(c) (((c) >= '0' && (c) <= '9') || ((c) >= 'a' && (c) <= 'z') || ((c) >= 'A' && (c) <= 'Z'))

char *m_tok_base;
/* strtok_r, POSIX.1-2008.  Written over CONSTANT indices relative to the start of the string being
 * split (a pointer walked through a symbolic string makes every access a symbolic-offset access).
 * m_tok_base is the first string handed to strtok_r; the model asserts that later calls stay in it. */
char *strtok_r(char *s, const char *delim, char **save)
{
	char d0 = delim[0];
	char d1 = (d0 == '\0') ? '\0' : delim[1];
	__CPROVER_assert(d0 != '\0' && (d1 == '\0' || delim[2] == '\0'), "strtok_r model: one or two delimiters");
	if (s != NULL && (m_tok_base == NULL || !__CPROVER_same_object(s, m_tok_base)))
		m_tok_base = s;
	const char *from = (s != NULL) ? s : *save;
	__CPROVER_assert(__CPROVER_same_object(from, m_tok_base) && from >= m_tok_base, "strtok_r model: continues inside the string it started");
	long pos = from - m_tok_base;
	long start = -1;
	for (long k = 0; k < C18_SIGN; k++) {
		if (k < pos)
			continue;
		char c = m_tok_base[k];
		if (c == '\0') {
			/* end of the string: the last token, or none */
			*save = m_tok_base + k;
			return start < 0 ? NULL : m_tok_base + start;
		}
		int isdelim = (c == d0 || (d1 != '\0' && c == d1));
		if (start < 0) {
			if (!isdelim)
				start = k;          /* leading delimiters are skipped */
		} else if (isdelim) {
			m_tok_base[k] = '\0';      /* the token ends here */
			*save = m_tok_base + k + 1;
			return m_tok_base + start;
		}
	}
	__CPROVER_assert(0, "strtok_r model: string ends within the bound");
	return NULL;
}

/* snprintf(s, n, "%s", arg): returns strlen(arg) (C99 7.19.6.5).  The 256-byte working copy of the
 * signature (n == 256) is copied faithfully; for the 64-byte argument name only the terminator is placed
 * and the characters before it are arbitrary (no clause of these groups reads a name; copying them would be
 * a dozen writes at a symbolic offset of the 1.7 KB definition per argument). */
static int c18_snprintf_s(char *s, size_t n, const char *fmt, const char *arg)
{
	__CPROVER_assert(fmt[0] == '%' && fmt[1] == 's' && fmt[2] == '\0', "snprintf model: a string is printed with %s");
	size_t len = 0;
	for (int k = 0; k < C18_SIGN; k++) {
		if (arg[len] == '\0')
			break;
		len++;
	}
	__CPROVER_assert(arg[len] == '\0', "snprintf model: string within the bound");
	if (n > 0) {
		size_t m = len < n - 1 ? len : n - 1;
		if (n == 256) {
			for (size_t i = 0; i < C18_SIGN; i++) {
				if (i >= m)
					break;
				s[i] = arg[i];
			}
		} else if (m > 0) {
			__CPROVER_havoc_slice(s, m);
		}
		s[m] = '\0';
	}
	return (int) len;
}
/* integer arguments (print path, not reachable from these groups): as the prelude */
static int c18_snprintf_u(char *s, size_t n, const char *fmt, uint64_t a) { (void) fmt; (void) a; return verif_snprintf(s, n); }
static int c18_snprintf_i(char *s, size_t n, const char *fmt, int64_t a) { (void) fmt; (void) a; return verif_snprintf(s, n); }
#undef snprintf
#define snprintf(s, n, fmt, a) _Generic((a), char *: c18_snprintf_s, const char *: c18_snprintf_s, \
	uint8_t: c18_snprintf_u, uint16_t: c18_snprintf_u, uint32_t: c18_snprintf_u, uint64_t: c18_snprintf_u, \
	default: c18_snprintf_i)((s), (n), (fmt), (a))

#include "ev_spec.c"         /* the real /repo/src/emu/ev_spec.c */

#define RET __CPROVER_return_value
#define OLD(e) __CPROVER_old(e)
#define IMPLIES(a, b) (!(a) || (b))

/* what the type table must say (C18 statement: "payload of the declared shape") */
#define SIZE_OF_TYPE(t) ((t) == U8 || (t) == I8 ? 1u : (t) == U16 || (t) == I16 ? 2u : (t) == U32 || (t) == I32 ? 4u : \
	(t) == U64 || (t) == I64 ? 8u : 0u)

/* ====================================================================================
 * parse_arg: one "type name" token appended to a definition that holds C18_NARGS arguments
 * (fixed per group: with a symbolic index into spec->args[] the solver runs out of memory)
 * ==================================================================================== */
#define ARGN 12
#ifndef C18_NARGS
#define C18_NARGS 0
#endif
_Static_assert(C18_NARGS >= 0 && C18_NARGS <= MAX_ARGS, "definition with 0..MAX_ARGS arguments");

int g_n0; unsigned long g_ps0; int g_j;   /* pre-state, and an arbitrary earlier argument */
unsigned long g_joff, g_jsize;
int w_nargs; char w_arg[ARGN];
/* token shapes "tt n..." and "ttt n..." (type of two / three characters, one blank, a name) -- on the pre-state copy */
#define A(i) (w_arg[i])
#define NODELIM(c) ((c) != ' ' && (c) != '\0')
#define SHAPE2 (NODELIM(A(0)) && NODELIM(A(1)) && A(2) == ' ' && NODELIM(A(3)))
#define SHAPE3 (NODELIM(A(0)) && NODELIM(A(1)) && NODELIM(A(2)) && A(3) == ' ' && NODELIM(A(4)))
#define IS2(a, b) (SHAPE2 && A(0) == (a) && A(1) == (b))
#define IS3(a, b, c) (SHAPE3 && A(0) == (a) && A(1) == (b) && A(2) == (c))
#define KNOWN_TYPE (IS2('u', '8') || IS2('i', '8') || IS3('u', '1', '6') || IS3('u', '3', '2') || IS3('u', '6', '4') || \
	IS3('i', '1', '6') || IS3('i', '3', '2') || IS3('i', '6', '4') || IS3('s', 't', 'r'))
#define EXPECT_TYPE (IS2('u', '8') ? U8 : IS2('i', '8') ? I8 : IS3('u', '1', '6') ? U16 : IS3('u', '3', '2') ? U32 : IS3('u', '6', '4') ? U64 : \
	IS3('i', '1', '6') ? I16 : IS3('i', '3', '2') ? I32 : IS3('i', '6', '4') ? I64 : STR)
int c_parse_arg(struct ev_spec *spec, char *arg)
__CPROVER_requires(__CPROVER_is_fresh(spec, sizeof(*spec)) && __CPROVER_is_fresh(arg, ARGN) && arg[ARGN - 1] == '\0')
__CPROVER_requires(spec->nargs == C18_NARGS && spec->payload_size <= 4 + 8 * MAX_ARGS && DIAG_PRE && m_tok_base == NULL)
__CPROVER_requires(g_n0 == spec->nargs && g_ps0 == spec->payload_size)
__CPROVER_requires(g_j >= 0 && g_j < MAX_ARGS && g_joff == spec->args[g_j].offset && g_jsize == spec->args[g_j].size)
__CPROVER_requires(w_nargs == spec->nargs && w_arg[0] == arg[0] && w_arg[1] == arg[1] && w_arg[2] == arg[2] && w_arg[3] == arg[3] &&
	w_arg[4] == arg[4] && w_arg[5] == arg[5] && w_arg[6] == arg[6] && w_arg[7] == arg[7])
__CPROVER_assigns(__CPROVER_object_whole(spec), __CPROVER_object_whole(arg), DIAG_FRAME, m_tok_base)
__CPROVER_ensures(RET == 0 || RET == -1)
/* the guard: a full definition takes no more arguments */
__CPROVER_ensures(IMPLIES(g_n0 >= MAX_ARGS, RET == -1))
/* accepted: exactly one argument appended at the end of the payload declared so far */
__CPROVER_ensures(IMPLIES(RET == 0, spec->nargs == g_n0 + 1 && g_n0 < MAX_ARGS))
__CPROVER_ensures(IMPLIES(RET == 0, spec->args[g_n0].offset == g_ps0))
__CPROVER_ensures(IMPLIES(RET == 0, (unsigned) spec->args[g_n0].type < MAX_TYPE && spec->args[g_n0].size == SIZE_OF_TYPE(spec->args[g_n0].type)))
__CPROVER_ensures(IMPLIES(RET == 0, spec->payload_size == g_ps0 + spec->args[g_n0].size))
/* a well-shaped token is accepted exactly for the nine type names, with that type */
__CPROVER_ensures(IMPLIES((SHAPE2 || SHAPE3) && g_n0 < MAX_ARGS, (RET == 0) == (KNOWN_TYPE ? 1 : 0)))
__CPROVER_ensures(IMPLIES((SHAPE2 || SHAPE3) && RET == 0, spec->args[g_n0].type == EXPECT_TYPE))
/* a token without a name, or an empty token, is refused */
__CPROVER_ensures(IMPLIES(A(0) == '\0' || (NODELIM(A(0)) && A(1) == '\0') || (NODELIM(A(0)) && NODELIM(A(1)) && A(2) == '\0'), RET == -1))
/* earlier arguments keep their place */
__CPROVER_ensures(IMPLIES(RET == 0 && g_j < g_n0, spec->args[g_j].offset == g_joff && spec->args[g_j].size == g_jsize))
/* refused: the definition does not grow */
__CPROVER_ensures(IMPLIES(RET != 0, spec->nargs == g_n0 && spec->payload_size == g_ps0 && g_err > OLD(g_err)))
;
void h_parse_arg(void)
{
	struct ev_spec *spec; char *arg;
	int r = parse_arg(spec, arg);
#if C18_NARGS < MAX_ARGS
	if (r == 0 && w_nargs == C18_NARGS) REACH("argument accepted");
	if (r != 0) REACH("bad token refused");
	if (r == 0 && w_arg[0] == 'i' && w_arg[1] == '6' && w_arg[2] == '4' && w_arg[3] == ' ') REACH("i64 accepted");
	if (r == 0 && w_arg[0] == 's' && w_arg[1] == 't' && w_arg[2] == 'r' && w_arg[3] == ' ') REACH("str accepted");
	if (r == 0 && w_arg[0] == 'u' && w_arg[1] == '8' && w_arg[2] == ' ') REACH("u8 accepted");
	if (r != 0 && w_arg[0] == 'u' && w_arg[1] == '9' && w_arg[2] == ' ' && w_arg[3] == 'x') REACH("unknown type refused");
#else
	if (r != 0 && w_nargs == MAX_ARGS) REACH("seventeenth argument refused");
#endif
}

/* ====================================================================================
 * ev_spec_compile on signatures WITHOUT an argument list (any content, up to C18_SIGN-1 chars)
 * ==================================================================================== */
/* parse_args must not be reached for these signatures: its contract demands the impossible, and
 * DFCC asserts a replaced callee's precondition at the call site. */
int cr_parse_args_unreached(struct ev_spec *spec, char *paren)
__CPROVER_requires(0)
__CPROVER_assigns()
__CPROVER_ensures(1)
;
char w_sig[8];
WITNESS(ev_spec_compile);
#define SIG(i) (decl->signature[i])
#define SHORT3 (SIG(0) == '\0' || SIG(1) == '\0' || SIG(2) == '\0')
#define GRAPH3 (isgraph(SIG(0)) && isgraph(SIG(1)) && isgraph(SIG(2)))
/* an argument list starts: "MCV(" or "MCV+(" */
#define HAS_ARGLIST (!SHORT3 && (SIG(3) == '(' || (SIG(3) == '+' && SIG(4) == '(')))

int c_ev_spec_compile(struct ev_spec *spec, struct ev_decl *decl)
__CPROVER_requires(__CPROVER_is_fresh(spec, sizeof(*spec)) && __CPROVER_is_fresh(decl, sizeof(*decl)))
__CPROVER_requires(__CPROVER_is_fresh(decl->signature, C18_SIGN) && decl->signature[C18_SIGN - 1] == '\0' && DIAG_PRE)
__CPROVER_requires(!HAS_ARGLIST)
__CPROVER_requires(WBIND(ev_spec_compile, w_sig[0] == SIG(0) && w_sig[1] == SIG(1) && w_sig[2] == SIG(2) && w_sig[3] == SIG(3) &&
	w_sig[4] == SIG(4) && w_sig[5] == SIG(5)))
__CPROVER_assigns(__CPROVER_object_whole(spec), DIAG_FRAME)
__CPROVER_ensures(RET == 0 || RET == -1)
/* accepted exactly for three printable characters and nothing behind them */
__CPROVER_ensures((RET == 0) == ((!SHORT3 && GRAPH3 && SIG(3) == '\0') ? 1 : 0))
/* i.e. refused: fewer than three characters; an unprintable model/category/value; junk after the MCV;
 * a jumbo mark without arguments ("MCV+", "MCV+x") */
__CPROVER_ensures(IMPLIES(RET != 0, g_err > OLD(g_err)))
/* accepted: the definition is the signature, no arguments, no payload */
__CPROVER_ensures(IMPLIES(RET == 0, spec->mcv[0] == SIG(0) && spec->mcv[1] == SIG(1) && spec->mcv[2] == SIG(2) && spec->mcv[3] == '\0'))
__CPROVER_ensures(IMPLIES(RET == 0, spec->is_jumbo == 0 && spec->nargs == 0 && spec->payload_size == 0))
__CPROVER_ensures(IMPLIES(RET == 0, spec->description == decl->description))
;
void h_ev_spec_compile(void)
{
	struct ev_spec *spec; struct ev_decl *decl;
	WITNESS_ON(ev_spec_compile);
	int r = ev_spec_compile(spec, decl);
	if (r == 0) REACH("plain MCV accepted");
	if (r != 0 && w_sig[3] == '+') REACH("jumbo without arguments refused");
	if (r != 0 && w_sig[3] == 'x') REACH("junk after the MCV refused");
	if (r != 0 && w_sig[2] == '\0') REACH("short signature refused");
	if (r != 0 && w_sig[1] == ' ' && w_sig[3] == '\0') REACH("blank in the MCV refused");
}

/* ====================================================================================
 * parse_signature on signatures WITH an argument list ("MCV(..." / "MCV+(..."), parse_args replaced by
 * "any verdict, any argument count": the tail of parse_signature -- a refused argument list is refused,
 * an empty one too, the jumbo mark reaches parse_args (closes observation O13)
 * ==================================================================================== */
int g_pa_n, g_pa_ret, g_pa_jumbo; char *g_pa_paren;
int cr_parse_args_any(struct ev_spec *spec, char *paren)
/* DFCC asserts this at the call: parse_args is handed the '('; the jumbo flag it sees is recorded */
__CPROVER_requires(paren[0] == '(' && spec->nargs == 0)
__CPROVER_assigns(spec->nargs, spec->payload_size, g_pa_n, g_pa_ret, g_pa_jumbo, g_pa_paren)
__CPROVER_ensures((RET == 0 || RET == -1) && g_pa_ret == RET && g_pa_n == OLD(g_pa_n) + 1 && g_pa_paren == paren && g_pa_jumbo == spec->is_jumbo)
__CPROVER_ensures(spec->nargs >= 0 && spec->nargs <= MAX_ARGS)
;
char w_psig[8];
WITNESS(parse_signature);
#define PS(i) (sig[i])
#define PS_ARGLIST (PS(0) != 0 && PS(1) != 0 && PS(2) != 0 && (PS(3) == '(' || (PS(3) == '+' && PS(4) == '(')))
int c_parse_signature(struct ev_spec *spec, char *sig)
__CPROVER_requires(__CPROVER_is_fresh(spec, sizeof(*spec)) && __CPROVER_is_fresh(sig, 8) && sig[7] == '\0' && DIAG_PRE)
__CPROVER_requires(spec->is_jumbo == 0 && spec->nargs == 0 && spec->payload_size == 0 && g_pa_n == 0)   /* ev_spec_compile: memset */
__CPROVER_requires(PS_ARGLIST)
__CPROVER_requires(WBIND(parse_signature, w_psig[0] == PS(0) && w_psig[1] == PS(1) && w_psig[2] == PS(2) && w_psig[3] == PS(3) &&
	w_psig[4] == PS(4) && w_psig[5] == PS(5)))
__CPROVER_assigns(__CPROVER_object_whole(spec), DIAG_FRAME, g_pa_n, g_pa_ret, g_pa_jumbo, g_pa_paren)
__CPROVER_ensures(RET == 0 || RET == -1)
/* accepted exactly when the MCV is printable, the argument list was accepted and declares an argument */
__CPROVER_ensures((RET == 0) == ((isgraph(PS(0)) && isgraph(PS(1)) && isgraph(PS(2)) && g_pa_n == 1 && g_pa_ret == 0 && spec->nargs > 0) ? 1 : 0))
/* the argument list is looked at once at most, from its parenthesis, and only behind a printable MCV */
__CPROVER_ensures(g_pa_n == 0 || (g_pa_n == 1 && g_pa_paren == sig + (PS(3) == '+' ? 4 : 3) && g_pa_jumbo == (PS(3) == '+' ? 1 : 0) && isgraph(PS(0)) && isgraph(PS(1)) && isgraph(PS(2))))
__CPROVER_ensures(IMPLIES(RET == 0, spec->mcv[0] == PS(0) && spec->mcv[1] == PS(1) && spec->mcv[2] == PS(2) && spec->mcv[3] == '\0' &&
	spec->is_jumbo == (PS(3) == '+' ? 1 : 0)))
__CPROVER_ensures(IMPLIES(RET != 0, g_err > OLD(g_err)))
;
void h_parse_signature(void)
{
	struct ev_spec *spec; char *sig;
	WITNESS_ON(parse_signature);
	int r = parse_signature(spec, sig);
	if (r == 0 && w_psig[3] == '(') REACH("normal event with arguments accepted");
	if (r == 0 && w_psig[3] == '+') REACH("jumbo event with arguments accepted");
	if (r != 0 && g_pa_n == 1 && g_pa_ret != 0) REACH("refused argument list refused");
	if (r != 0 && g_pa_n == 1 && g_pa_ret == 0) REACH("empty argument list refused");
	if (r != 0 && g_pa_n == 0) REACH("unprintable MCV refused before the arguments");
}
