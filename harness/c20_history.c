/* C20 -- a two-step HISTORY lemma over the real mux.c cb_select / cb_input and the real
 * select_tr of nosv/breakdown.c (-DC20_NANOS6: nanos6/breakdown.c), plain CBMC (no contracts:
 * every function called is the real one, loop-free, so the run is complete for all values).
 *
 * mux0 of one physical CPU is built with the real mux_init / mux_set_input / mux_set_default,
 * exactly as connect_cpu does.  One emulation step = the emulator writes channels, then the bay
 * runs the ENABLED dirty callbacks of the channels written, in registration order (cb_select of
 * the select channel first, then the cb_input of an input channel).  The bay is outside the unit:
 * bay_add_cb hands out a record whose `enabled` flag bay_enable_cb / bay_disable_cb toggle (their
 * real text is proved in plan C06, groups bay_enable_cb_*, bay_disable_cb).
 *
 * SPEC(ss, tt) is the statement's per-CPU value before the idle mux: the task type while in a task
 * body (subsystem == ST_TASK_BODY and a task type is set), otherwise the subsystem, otherwise the
 * mux default ST_UNKNOWN_SS.
 *   step A: subsystem := S, task type := T, both in one step        -> tr == SPEC(S, T)
 *   HIST_SS  step B: subsystem := S2 (task type unchanged)          -> tr == SPEC(S2, T)     holds
 *   HIST_TT  step B: task type := T2 (subsystem unchanged)          -> tr == SPEC(S, T2)     FAILS on the
 *     pinned tree (known finding F-C20-1): the selection is re-evaluated only when the SELECT channel
 *     (the subsystem) changes although select_tr also reads the task type. */
#include "prelude.h"
#include "value.h"
_Static_assert(sizeof(struct value) == 16, "struct value has no padding");
#undef value_is_equal
#define value_is_equal(a, b) ((a)->type == (b)->type && (a)->i == (b)->i)
#include "bay.h"

static struct bay_cb g_cbs[4]; static unsigned g_ncb;
static struct chan g_found;
struct chan *bay_find(struct bay *bay, const char *name) { (void) bay; (void) name; return &g_found; }
struct bay_cb *bay_add_cb(struct bay *bay, enum bay_cb_type type, struct chan *chan, bay_cb_func_t func, void *arg, int enabled)
{
	(void) bay; (void) chan;
	__CPROVER_assume(g_ncb < 4);
	struct bay_cb *cb = &g_cbs[g_ncb++];
	cb->func = func; cb->arg = arg; cb->enabled = enabled; cb->type = type;
	return cb;
}
void bay_enable_cb(struct bay_cb *cb) { cb->enabled = 1; }
void bay_disable_cb(struct bay_cb *cb) { cb->enabled = 0; }

#include "chan.c"              /* real */
#include "mux.c"               /* real */
#ifdef C20_NANOS6
#include "nanos6/breakdown.c"  /* the real /repo/src/emu/nanos6/breakdown.c */
#else
#include "nosv/breakdown.c"    /* the real /repo/src/emu/nosv/breakdown.c */
#endif

static struct chan ss, tt, tr;
static struct mux mux0;
static struct bay bay0;

/* what the statement asks the row source of this CPU to show (before the idle mux) */
static int spec_is(struct value s, struct value t, struct value out)
{
	if (s.type == VALUE_INT64 && s.i == ST_TASK_BODY && t.type != VALUE_NULL)
		return out.type == t.type && out.i == t.i;
	if (s.type != VALUE_NULL)
		return out.type == s.type && out.i == s.i;
	return out.type == VALUE_INT64 && out.i == ST_UNKNOWN_SS;
}
static struct value any_value(void)
{
	struct value v;
	v.type = nondet_bool() ? VALUE_NULL : VALUE_INT64;
	v.i = nondet_long();
	if (v.type == VALUE_NULL) v.i = 0;
	return v;
}
/* the bay's propagation for the channels this step wrote */
static int propagate(int ss_written, int tt_written)
{
	if (ss_written && cb_select(&ss, &mux0) != 0) return -1;                       /* always enabled, registered first */
	if (ss_written && mux0.inputs[0].cb->enabled && cb_input(&ss, &mux0.inputs[0]) != 0) return -1;
	if (tt_written && mux0.inputs[1].cb->enabled && cb_input(&tt, &mux0.inputs[1]) != 0) return -1;
	if (tr.is_dirty && chan_flush(&tr) != 0) return -1;
	return 0;
}

/* witness ghosts for the native replay (native/a5replay_c20_history.h): the values of steps A and B */
int w_s_null, w_t_null, w_b_null, w_b_is_tt; long w_s, w_t, w_b;
void h_history(void)
{
	ss.type = CHAN_SINGLE; tt.type = CHAN_SINGLE; tr.type = CHAN_SINGLE;
	int r = mux_init(&mux0, &bay0, &ss, &tr, select_tr, 2);
	__CPROVER_assume(r == 0);                                                     /* calloc may fail */
	r = mux_set_input(&mux0, 0, &ss); VASSERT(r == 0, "input 0 connected");
	r = mux_set_input(&mux0, 1, &tt); VASSERT(r == 0, "input 1 connected");
	mux_set_default(&mux0, value_int64(ST_UNKNOWN_SS));

	/* step A */
	struct value S = any_value(), T = any_value();
	w_s_null = (S.type == VALUE_NULL); w_s = S.i; w_t_null = (T.type == VALUE_NULL); w_t = T.i;
	ss.data.value = S; tt.data.value = T;
	r = propagate(1, 1);
	VASSERT(r == 0, "step A: propagation succeeds");
	VASSERT(spec_is(S, T, tr.data.value), "step A: the row source shows the task type in a body, else the subsystem");

#ifdef HIST_SS
	struct value S2 = any_value();
	__CPROVER_assume(!(S2.type == S.type && S2.i == S.i));
	w_b_is_tt = 0; w_b_null = (S2.type == VALUE_NULL); w_b = S2.i;
	ss.data.value = S2;
	r = propagate(1, 0);
	VASSERT(r == 0, "step B (subsystem changes): propagation succeeds");
	VASSERT(spec_is(S2, T, tr.data.value), "step B (subsystem changes): the row source follows");
	if (S2.type == VALUE_INT64 && S2.i == ST_TASK_BODY && T.type != VALUE_NULL) REACH("subsystem enters the body, task type shown");
	if (S.type == VALUE_INT64 && S.i == ST_TASK_BODY && T.type != VALUE_NULL) REACH("subsystem leaves the body, subsystem shown");
#else
	struct value T2 = any_value();
	__CPROVER_assume(!(T2.type == T.type && T2.i == T.i));
	w_b_is_tt = 1; w_b_null = (T2.type == VALUE_NULL); w_b = T2.i;
	tt.data.value = T2;
	r = propagate(0, 1);
	VASSERT(r == 0, "step B (task type changes): propagation succeeds");
	VASSERT(spec_is(S, T2, tr.data.value), "step B (task type changes, subsystem unchanged): the row source follows");
	if (S.type == VALUE_INT64 && S.i == ST_TASK_BODY && T2.type == VALUE_NULL) REACH("task type cleared while the subsystem still says in-body");
	if (S.type == VALUE_INT64 && S.i == ST_TASK_BODY && T.type == VALUE_NULL) REACH("task type set while the subsystem already says in-body");
#endif
}
