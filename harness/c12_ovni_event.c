/* C12 -- payload-size guards of the ovni model handlers (real ovni/event.c):
 * pre_thread_execute (< 4), pre_affinity_set (!= 4), pre_affinity_remote (!= 8),
 * and the unknown-event default branches of pre_thread / pre_affinity.
 * "Wrong size => returns -1 and touches nothing": every function of another
 * module is a stub that counts the call in g_calls; g_calls is in the write frame
 * only when the size is right, so on a wrong-size path any call (and any store to
 * the emulator state) is a frame violation. */
#include "prelude.h"
#include "harness/c12_handlers.h"
#include "ovni/event.c"     /* real /repo/src/emu/ovni/event.c */

/* ---- stubs of the other modules: most general result, call counted ---- */
struct cpu *loom_get_cpu(struct loom *loom, int index) { (void) loom; (void) index; g_calls++; return nondet_bool() ? NULL : malloc(sizeof(struct cpu)); }
struct thread *loom_find_thread(struct loom *loom, int tid) { (void) loom; (void) tid; g_calls++; return nondet_bool() ? NULL : malloc(sizeof(struct thread)); }
struct thread *proc_find_thread(struct proc *proc, int tid) { (void) proc; (void) tid; g_calls++; return nondet_bool() ? NULL : malloc(sizeof(struct thread)); }
int thread_set_state(struct thread *th, enum thread_state st) { (void) th; (void) st; g_calls++; return nondet_int(); }
int thread_set_cpu(struct thread *th, struct cpu *cpu) { (void) th; (void) cpu; g_calls++; return nondet_int(); }
int thread_migrate_cpu(struct thread *th, struct cpu *cpu) { (void) th; (void) cpu; g_calls++; return nondet_int(); }
int cpu_add_thread(struct cpu *cpu, struct thread *th) { (void) th; (void) cpu; g_calls++; return nondet_int(); }
int cpu_migrate_thread(struct cpu *cpu, struct thread *th, struct cpu *newcpu) { (void) th; (void) cpu; (void) newcpu; g_calls++; return nondet_int(); }

/* ---------------- pre_thread_execute: OHx needs at least 4 bytes ---------------- */
WITNESS(pre_thread_execute);
int c_pre_thread_execute(struct emu *emu, struct thread *th)
REQ_EMU_EV(emu)
__CPROVER_requires(__CPROVER_is_fresh(th, sizeof(*th)))
__CPROVER_requires(DIAG_PRE && CALLS_PRE)
__CPROVER_requires(WBIND(pre_thread_execute, w_psize == emu->ev->payload_size && w_state == (int) th->state))
__CPROVER_assigns(DIAG_FRAME)
__CPROVER_assigns(emu->ev->payload_size >= 4 && th->state != TH_ST_RUNNING: g_calls)
__CPROVER_ensures(__CPROVER_return_value == 0 || __CPROVER_return_value == -1)
__CPROVER_ensures(emu->ev->payload_size >= 4 || (__CPROVER_return_value == -1 && g_err > __CPROVER_old(g_err)))
__CPROVER_ensures(__CPROVER_old(th->state) != TH_ST_RUNNING || (__CPROVER_return_value == -1 && g_err > __CPROVER_old(g_err)))
;
void h_pre_thread_execute(void)
{
	struct emu *emu; struct thread *th;
	WITNESS_ON(pre_thread_execute);
	int r = pre_thread_execute(emu, th);
	if (r == 0 && w_psize == 4) REACH("execute with 4 bytes accepted");
	if (r != 0 && w_psize == 0 && w_state != TH_ST_RUNNING) REACH("execute without payload refused");
	if (r != 0 && w_psize == 3 && w_state != TH_ST_RUNNING) REACH("execute with 3 bytes refused");
}

/* ---------------- pre_affinity_set: OAs needs exactly 4 bytes ---------------- */
WITNESS(pre_affinity_set);
int c_pre_affinity_set(struct emu *emu)
REQ_EMU_EV(emu)
__CPROVER_requires(__CPROVER_is_fresh(emu->thread, sizeof(struct thread)))
__CPROVER_requires(DIAG_PRE && CALLS_PRE)
__CPROVER_requires(WBIND(pre_affinity_set, w_psize == emu->ev->payload_size))
__CPROVER_assigns(DIAG_FRAME)
__CPROVER_assigns(emu->ev->payload_size == 4: g_calls)
__CPROVER_ensures(__CPROVER_return_value == 0 || __CPROVER_return_value == -1)
__CPROVER_ensures(emu->ev->payload_size == 4 || (__CPROVER_return_value == -1 && g_err > __CPROVER_old(g_err)))
;
void h_pre_affinity_set(void)
{
	struct emu *emu;
	WITNESS_ON(pre_affinity_set);
	int r = pre_affinity_set(emu);
	if (r == 0) REACH("affinity set accepted");
	if (r != 0 && w_psize == 8) REACH("affinity set with 8 bytes refused");
	if (r != 0 && w_psize == 0) REACH("affinity set without payload refused");
}

/* ---------------- pre_affinity_remote: OAr needs exactly 8 bytes ---------------- */
WITNESS(pre_affinity_remote);
int c_pre_affinity_remote(struct emu *emu)
REQ_EMU_EV(emu)
__CPROVER_requires(DIAG_PRE && CALLS_PRE)
__CPROVER_requires(WBIND(pre_affinity_remote, w_psize == emu->ev->payload_size))
__CPROVER_assigns(DIAG_FRAME)
__CPROVER_assigns(emu->ev->payload_size == 8: g_calls)
__CPROVER_ensures(__CPROVER_return_value == 0 || __CPROVER_return_value == -1)
__CPROVER_ensures(emu->ev->payload_size == 8 || (__CPROVER_return_value == -1 && g_err > __CPROVER_old(g_err)))
;
void h_pre_affinity_remote(void)
{
	struct emu *emu;
	WITNESS_ON(pre_affinity_remote);
	int r = pre_affinity_remote(emu);
	if (r == 0) REACH("remote affinity accepted");
	if (r != 0 && w_psize == 4) REACH("remote affinity with 4 bytes refused");
	if (r != 0 && w_psize == 16) REACH("remote affinity with 16 bytes refused");
}

/* ---------------- unknown events of the thread / affinity categories ---------------- */
/* (the handlers of the known values are replaced by their contracts above or are
 * outside this claim; only the default branch is stated) */
#define KNOWN_THREAD_V(v) ((v) == 'C' || (v) == 'x' || (v) == 'e' || (v) == 'p' || (v) == 'r' || (v) == 'c' || (v) == 'w')
WITNESS(pre_affinity);
int c_pre_affinity(struct emu *emu)
REQ_EMU_EV(emu)
__CPROVER_requires(__CPROVER_is_fresh(emu->thread, sizeof(struct thread)))
__CPROVER_requires(DIAG_PRE && CALLS_PRE)
__CPROVER_requires(WBIND(pre_affinity, w_v == emu->ev->v && w_psize == emu->ev->payload_size))
__CPROVER_assigns(DIAG_FRAME)
__CPROVER_assigns((emu->ev->v == 's' && emu->ev->payload_size == 4) || (emu->ev->v == 'r' && emu->ev->payload_size == 8): g_calls)
__CPROVER_ensures(__CPROVER_return_value == 0 || __CPROVER_return_value == -1)
/* accepted => a known value with the payload size that value requires */
__CPROVER_ensures(__CPROVER_return_value != 0 ||
	(emu->ev->v == 's' && emu->ev->payload_size == 4) || (emu->ev->v == 'r' && emu->ev->payload_size == 8))
__CPROVER_ensures(__CPROVER_return_value == 0 || g_err > __CPROVER_old(g_err))
;
void h_pre_affinity(void)
{
	struct emu *emu;
	WITNESS_ON(pre_affinity);
	int r = pre_affinity(emu);
	if (r == 0 && w_v == 's') REACH("OAs accepted");
	if (r == 0 && w_v == 'r') REACH("OAr accepted");
	if (r != 0 && w_v == 'x') REACH("unknown affinity event refused");
	if (r != 0 && w_v == 's' && w_psize == 8) REACH("OAs with the size of OAr refused");
}

/* ---- "cut" contracts: a handler of a KNOWN event is outside the claims below; a
 * call to it is only recorded (g_calls), which is forbidden on the refused paths ---- */
int c_cut_th(struct thread *th) __CPROVER_assigns(g_calls) __CPROVER_ensures(g_calls == __CPROVER_old(g_calls) + 1);
int c_cut_emu(struct emu *emu) __CPROVER_assigns(g_calls) __CPROVER_ensures(g_calls == __CPROVER_old(g_calls) + 1);
int c_cut_emu_th(struct emu *emu, struct thread *th) __CPROVER_assigns(g_calls) __CPROVER_ensures(g_calls == __CPROVER_old(g_calls) + 1);
int mark_event(struct emu *emu) { (void) emu; g_calls++; return nondet_int(); }   /* ovni/mark.c: see c12_mark.c */

/* pre_thread: a value that is not one of C x e p r c w is refused, nothing called */
WITNESS(pre_thread);
int c_pre_thread(struct emu *emu)
REQ_EMU_EV(emu)
__CPROVER_requires(__CPROVER_is_fresh(emu->thread, sizeof(struct thread)))
__CPROVER_requires(DIAG_PRE && CALLS_PRE)
__CPROVER_requires(WBIND(pre_thread, w_v == emu->ev->v))
__CPROVER_assigns(DIAG_FRAME)
__CPROVER_assigns(KNOWN_THREAD_V(emu->ev->v): g_calls)
__CPROVER_ensures(KNOWN_THREAD_V(emu->ev->v) || (__CPROVER_return_value == -1 && g_err > __CPROVER_old(g_err)))
;
void h_pre_thread(void)
{
	struct emu *emu;
	WITNESS_ON(pre_thread);
	int r = pre_thread(emu);
	if (r == 0 && w_v == 'x') REACH("OHx handled");
	if (r == 0 && w_v == 'C') REACH("OHC ignored");
	if (r != 0 && w_v == 'z') REACH("unknown thread event refused");
}

/* model_ovni_event: wrong model, thread out of CPU or unknown category => refused, nothing called */
#define KNOWN_OVNI_C(c) ((c) == 'H' || (c) == 'A' || (c) == 'B' || (c) == 'C' || (c) == 'F' || (c) == 'U' || (c) == 'M')
WITNESS(model_ovni_event);
int c_model_ovni_event(struct emu *emu)
REQ_EMU_EV(emu)
__CPROVER_requires(__CPROVER_is_fresh(emu->thread, sizeof(struct thread)))
__CPROVER_requires(DIAG_PRE && CALLS_PRE)
__CPROVER_requires(WBIND(model_ovni_event, w_c == emu->ev->c && w_v == emu->ev->v && w_state == emu->ev->m))
__CPROVER_assigns(DIAG_FRAME)
__CPROVER_assigns(emu->ev->m == 'O' && !emu->thread->is_out_of_cpu && KNOWN_OVNI_C(emu->ev->c): g_calls)
__CPROVER_ensures((emu->ev->m == 'O' && !emu->thread->is_out_of_cpu && KNOWN_OVNI_C(emu->ev->c)) ||
	(__CPROVER_return_value == -1 && g_err > __CPROVER_old(g_err)))
/* old OCn is ignored, any other OC* is unknown */
__CPROVER_ensures(!(emu->ev->m == 'O' && !emu->thread->is_out_of_cpu && emu->ev->c == 'C') ||
	(emu->ev->v == 'n' ? __CPROVER_return_value == 0 : __CPROVER_return_value == -1))
;
void h_model_ovni_event(void)
{
	struct emu *emu;
	WITNESS_ON(model_ovni_event);
	int r = model_ovni_event(emu);
	if (r == 0 && w_c == 'H') REACH("thread event dispatched");
	if (r == 0 && w_c == 'U') REACH("sort event ignored");
	if (r != 0 && w_state == 'O' && w_c == 'Z') REACH("unknown ovni category refused");
	if (r != 0 && w_state != 'O') REACH("event of another model refused");
	if (r != 0 && w_state == 'O' && w_c == 'C' && w_v != 'n') REACH("unknown cpu event refused");
}
