/* C14 -- version.h: version_is_compatible (all int triples) and version_parse
 * (all strings of at most VP_N bytes) on the real src/include/version.h */
#include "prelude.h"
#include "harness/c14_vspec.c"
#include "version.h"       /* the real /repo/src/include/version.h */

#include "harness/c14_vcontract.c"

void h_version_is_compatible(void)
{
	int *want, *have;
	WITNESS_ON(version_is_compatible);
	int r = version_is_compatible(want, have);
	if (r == 1) REACH("compatible");
	if (r == 1 && w_want1 == w_have1) REACH("compatible with equal minor");
	if (r == 1 && w_want1 < w_have1 && w_want2 > w_have2) REACH("compatible with older minor and newer patch");
	if (r == 0 && w_want0 == w_have0) REACH("same major refused: newer minor");
	if (r == 0 && w_want0 != w_have0 && w_want1 <= w_have1) REACH("different major refused");
	if (r == 1 && w_alias) REACH("a version is compatible with itself");
}

/* The exact language accepted at the pinned commit, no carve-out: documents the
 * finding precisely (accepted <=> spec_accepted) -- nothing outside L1..L4 slips in.
 * (--conversion-check is off in this group: L4 IS the narrowing conversion.) */
int c_version_parse_actual(const char *version, int tuple[3])
__CPROVER_requires(version == NULL || spec_terminated(version))
__CPROVER_requires(__CPROVER_is_fresh(tuple, 3 * sizeof(int)))
__CPROVER_requires(DIAG_PRE_LEAF)
__CPROVER_requires(WBIND(version_parse, VP_BIND(version)))
__CPROVER_assigns(__CPROVER_object_whole(tuple), __CPROVER_errno, DIAG_FRAME, MODEL_FRAME)
__CPROVER_ensures(__CPROVER_return_value == 0 || __CPROVER_return_value == -1)
__CPROVER_ensures(va_post_iff(version, __CPROVER_return_value))
__CPROVER_ensures(va_post_numbers(version, __CPROVER_return_value, tuple))
/* every well-formed string is among the accepted ones */
__CPROVER_ensures(version == NULL || !spec_wellformed(version) || !spec_runs_short(version) || __CPROVER_return_value == 0)
;

static char h_buf[VP_N];

void h_version_parse(void)
{
	int *tuple;
	const char *version = nondet_bool() ? NULL : h_buf;
	WITNESS_ON(version_parse);
	int r = version_parse(version, tuple);
	if (r == 0) REACH("well-formed string accepted");
	if (r == 0 && w_str[5] == '-' && w_str[6] == 'r') REACH("pre-release suffix accepted");
	if (r == 0 && w_str[0] == '1' && w_str[1] == '2' && w_str[2] == '3' && w_str[3] == '.') REACH("multi-digit component accepted");
	if (r != 0 && w_null) REACH("NULL refused");
	if (r != 0 && !w_null && w_str[0] == '\0') REACH("empty string refused");
	if (r != 0 && !w_null && w_str[0] == '1' && w_str[1] == '.' && w_str[2] == '2' && w_str[3] == '\0') REACH("missing component refused");
	if (r != 0 && !w_null && w_str[0] == '1' && w_str[1] == '.' && w_str[2] == '2' && w_str[3] == '.' && w_str[4] == '3' && w_str[5] == 'x') REACH("trailing garbage refused");
	if (r != 0 && !w_null && w_str[0] == '-' && w_str[1] == '1') REACH("negative number refused");
	if (r != 0 && !w_null && w_str[0] == '1' && w_str[1] == '.' && w_str[2] == 'O') REACH("non-numeric component refused");
}

void h_version_parse_actual(void)
{
	int *tuple;
	const char *version = nondet_bool() ? NULL : h_buf;
	WITNESS_ON(version_parse);
	int r = version_parse(version, tuple);
	if (r == 0) REACH("accepted");
	if (r != 0) REACH("refused");
	/* the finding: each leniency class is reachable */
	if (r == 0 && w_str[0] == '1' && w_str[1] == '.' && w_str[2] == '2' && w_str[3] == '.' && w_str[4] == '3' && w_str[5] == '.' && w_str[6] == '4') REACH("FINDING L2: extra component accepted (1.2.3.4)");
	if (r == 0 && w_str[0] == '1' && w_str[1] == '.' && w_str[2] == '.') REACH("FINDING L1: empty component accepted (1..2.3)");
	if (r == 0 && w_str[0] == ' ') REACH("FINDING L3: leading white space accepted");
	if (r == 0 && w_str[0] == '+') REACH("FINDING L3: plus sign accepted");
	if (r == 0 && w_str[0] == '-') REACH("FINDING L3: -0 accepted");
#if VP_N >= 16
	if (r == 0 && w_str[0] == '4' && w_str[1] == '2' && w_str[2] == '9' && w_str[3] == '4' && w_str[4] == '9' &&
			w_str[5] == '6' && w_str[6] == '7' && w_str[7] == '2' && w_str[8] == '9' && w_str[9] == '7' && w_str[10] == '.')
		REACH("FINDING L4: 4294967297.x.y accepted (narrowed to an int)");
#endif
}

/* ---- twin of the finding (NOT in the plan: it is expected to FAIL on the unchanged tree) ----
 * The strict contract without the carve-out.  Wire it as a group
 *   {"id":"version_parse_strict","entry":"h_version_parse_strict","enforce":["version_parse/c_version_parse_strict"], ...}
 * together with a `finding:` line in known_findings.txt once the finding is accepted. */
int c_version_parse_strict(const char *version, int tuple[3])
__CPROVER_requires(version == NULL || spec_terminated(version))
__CPROVER_requires(__CPROVER_is_fresh(tuple, 3 * sizeof(int)))
__CPROVER_requires(DIAG_PRE_LEAF)
__CPROVER_requires(WBIND(version_parse, VP_BIND(version)))
__CPROVER_assigns(__CPROVER_object_whole(tuple), __CPROVER_errno, DIAG_FRAME, MODEL_FRAME)
__CPROVER_ensures(vp_post_iff(version, __CPROVER_return_value))
;

void h_version_parse_strict(void)
{
	int *tuple;
	const char *version = nondet_bool() ? NULL : h_buf;
	WITNESS_ON(version_parse);
	int r = version_parse(version, tuple);
	if (r == 0) REACH("accepted");
	if (r != 0) REACH("refused");
}
