/* C18 -- emit() of the real src/emu/ovnidump.c: the description model_event_print() decodes is DATA.
 * It is handed to the output as the argument of a literal "%s" format, exactly once, and is never
 * itself used as a printf format (a `%` in a task-type label would be interpreted: the line would no
 * longer be "the description with the argument values substituted", and %s / %n would crash, C19).
 * A failed decode prints the literal UNKNOWN and reports an error.  The player accessors and
 * model_event_print are most general stubs; printf is a recording stub that classifies its format by
 * OBJECT (the decode buffer vs. anything else), so the contract does not depend on the literals used. */
#include "prelude.h"
#include "model.h"
#include "models.h"
#include "player.h"
#include "trace.h"

const char *g_desc;          /* the buffer model_event_print was asked to fill */
int g_decode_ret;            /* and what it answered */
unsigned g_desc_as_fmt;      /* printf calls whose FORMAT lives in the decode buffer */
unsigned g_desc_as_arg;      /* printf("%s", <decode buffer>) calls */
unsigned g_unknown;          /* printf("UNKNOWN") calls */
unsigned g_hex_bytes;        /* printf(":%02x", ...) calls */
unsigned g_decodes;

static int c18_printf(const char *fmt, const void *arg1)
{
	if (g_desc != NULL && __CPROVER_same_object(fmt, g_desc)) { g_desc_as_fmt++; return 0; }
	if (fmt[0] == '%' && fmt[1] == 's' && fmt[2] == '\0' && g_desc != NULL && arg1 == (const void *) g_desc) g_desc_as_arg++;
	if (fmt[0] == 'U' && fmt[1] == 'N' && fmt[2] == 'K') g_unknown++;
	if (fmt[0] == ':' && fmt[1] == '%') g_hex_bytes++;
	return 0;
}
/* the format and the first argument when it is a string (NULL otherwise) */
#define C18_SECOND(a, b, ...) _Generic(((b) + 0), char *: (b), const char *: (b), default: (const char *) 0)
#undef printf
#define printf(fmt, ...) c18_printf((fmt), C18_SECOND(0, ##__VA_ARGS__, 0))

struct emu_ev g_ev; struct stream g_stream; union ovni_ev_payload g_payload;
struct emu_ev *player_ev(struct player *player) { (void) player; return &g_ev; }
struct stream *player_stream(struct player *player) { (void) player; return &g_stream; }
int model_event_print(struct model *model, struct emu_ev *ev, char *buf, int buflen)
{
	(void) model;
	VASSERT(ev == &g_ev, "the event decoded is the player's current event");
	VASSERT(buflen >= 1 && __CPROVER_w_ok(buf, (size_t) buflen), "the decode buffer has the length announced");
	g_desc = buf; g_decodes++;
	/* any text, `%` included */
	int k = nondet_int();
	__CPROVER_assume(k >= 0 && k < buflen);
	buf[0] = nondet_char(); buf[k] = '\0';
	return g_decode_ret = nondet_int();
}
/* the stages of main are not part of this unit */
void progname_set(char *name) { (void) name; }
void model_init(struct model *model) { (void) model; }
int models_register(struct model *model) { (void) model; return nondet_int(); }
int trace_load(struct trace *trace, const char *dir) { (void) trace; (void) dir; return nondet_int(); }
int player_init(struct player *player, struct trace *trace, int unsorted) { (void) player; (void) trace; (void) unsorted; return nondet_int(); }
int player_step(struct player *player) { (void) player; return nondet_int(); }
#define main c18_dump_main
#include "ovnidump.c"                     /* the real /repo/src/emu/ovnidump.c */
#undef main

int w_hex;
void c_emit(struct model *model, struct player *player)
__CPROVER_requires(DIAG_PRE && g_desc == NULL && g_decodes == 0 && g_desc_as_fmt == 0 && g_desc_as_arg == 0 && g_unknown == 0 && g_hex_bytes == 0)
__CPROVER_requires(w_hex == hex_mode)
/* any event the player can deliver: payload present or not, of any size the header can announce */
__CPROVER_requires(g_ev.payload_size <= 16 && (!g_ev.has_payload || __CPROVER_pointer_equals(g_ev.payload, &g_payload)))
__CPROVER_assigns(g_desc, g_decode_ret, g_decodes, g_desc_as_fmt, g_desc_as_arg, g_unknown, g_hex_bytes, DIAG_FRAME)
/* the description is never a format */
__CPROVER_ensures(g_desc_as_fmt == 0)
/* text mode: decoded once; on success printed once as the argument of "%s", on failure UNKNOWN and an error */
__CPROVER_ensures(hex_mode || g_decodes == 1)
__CPROVER_ensures(hex_mode || g_decode_ret < 0 || (g_desc_as_arg == 1 && g_unknown == 0 && g_err == __CPROVER_old(g_err)))
__CPROVER_ensures(hex_mode || g_decode_ret >= 0 || (g_desc_as_arg == 0 && g_unknown == 1 && g_err == __CPROVER_old(g_err) + 1))
/* hex mode: nothing is decoded; one item per payload byte */
__CPROVER_ensures(!hex_mode || (g_decodes == 0 && g_desc_as_arg == 0 && g_hex_bytes == (g_ev.has_payload ? g_ev.payload_size : 0)))
;
void h_emit(void)
{
	struct model *model; struct player *player;
	emit(model, player);
	if (!w_hex && g_decode_ret >= 0) REACH("description printed");
	if (!w_hex && g_decode_ret < 0) REACH("decode failure printed as UNKNOWN");
	if (w_hex && g_hex_bytes == 16) REACH("hex mode, 16 payload bytes");
	if (w_hex && g_hex_bytes == 0) REACH("hex mode, no payload");
}
