/* C14 -- runtime side: ovni_version_check_str on the real src/rt/ovni.c.
 * "returns (does not die) <=> the string is well-formed and compatible with the
 * library version"; version_parse is replaced by its contract (proved in
 * harness/c14_version.c, group version_parse). */

/* die() hook: at the moment of death the request must be illegal (the other direction
 * of "returns <=> legal"), and each reason to die is reachable.  One function, so one
 * assertion per clause whatever the number of die() sites. */
int g_facts;                           /* pre-state facts (RT_* bits), bound in the requires clause */
#define RT_WF         1                /* the requested version string is well-formed */
#define RT_SAME_MAJOR 2                /* ... and its major equals the library's */
#define RT_LEGAL      4                /* ... and its minor is not greater: the request is legal */
static void c14_die_hook(void)
{
	__CPROVER_assert(!(g_facts & RT_LEGAL), "ovni_version_check_str dies only if the version is malformed or incompatible");
	if (!(g_facts & RT_WF))
		__CPROVER_assert(0, "REACH: dies on a malformed version string");
	if ((g_facts & RT_WF) && !(g_facts & RT_SAME_MAJOR))
		__CPROVER_assert(0, "REACH: dies on a different major");
	if ((g_facts & RT_WF) && (g_facts & RT_SAME_MAJOR))
		__CPROVER_assert(0, "REACH: dies on a newer minor");
}
#define VERIF_DIE_HOOK c14_die_hook()

#include "rt_common.h"
#include "harness/c14_vspec.c"
#include "ovni.c"                      /* the real /repo/src/rt/ovni.c */
#include "harness/c14_vcontract.c"

WITNESS(ovni_version_check_str);

/* Statement: "A requested version is accepted exactly when its major number equals the
 * provider's and its minor number is not greater (patch ignored) ... when a program
 * checks the library version; malformed version strings are refused."
 * The provider's version is whatever ovni.h says (OVNI_LIB_VERSION), read by the spec.
 * One evaluation of the scanner: the three facts as bits. */
static int rt_facts(const char *version)
{
	if (version == NULL || !spec_wellformed(version))
		return 0;
	struct vp_shape want = vp_shape_strict(version);
	struct vp_shape have = vp_shape_strict(OVNI_LIB_VERSION);
	unsigned long want_major = vp_dec_mag(version, want.a[0], want.b[0]);
	unsigned long want_minor = vp_dec_mag(version, want.a[1], want.b[1]);
	unsigned long have_major = vp_dec_mag(OVNI_LIB_VERSION, have.a[0], have.b[0]);
	unsigned long have_minor = vp_dec_mag(OVNI_LIB_VERSION, have.a[1], have.b[1]);
	int f = RT_WF;
	if (want_major == have_major)
		f |= RT_SAME_MAJOR;
	if (VP_COMPAT(want_major, want_minor, have_major, have_minor))
		f |= RT_LEGAL;
	return f;
}

void c_ovni_version_check_str(const char *version)
/* domain: strings of at most VP_N bytes outside the lenient-parser finding (the
 * precondition of version_parse's contract, asserted where it replaces the call) */
__CPROVER_requires(vp_pre(version))
__CPROVER_requires(DIAG_PRE)
__CPROVER_requires(WBIND(ovni_version_check_str, VP_BIND(version)))
__CPROVER_requires(g_facts == rt_facts(version))
__CPROVER_assigns(__CPROVER_errno, DIAG_FRAME, MODEL_FRAME, g_died)
/* returns => legal (dies => illegal is asserted by the die hook) */
__CPROVER_ensures((g_facts & RT_LEGAL) != 0)
__CPROVER_ensures(g_died == __CPROVER_old(g_died))
;

static char h_buf[VP_N];

void h_ovni_version_check_str(void)
{
	const char *version = nondet_bool() ? NULL : h_buf;
	WITNESS_ON(ovni_version_check_str);
	WITNESS_OFF(version_parse);
	WITNESS_OFF(version_is_compatible);
	VASSERT(spec_wellformed(OVNI_LIB_VERSION), "the library version string is well-formed");
	ovni_version_check_str(version);
	REACH("ovni_version_check_str returns");
	if (w_str[5] == '-') REACH("returns for a compatible version with a suffix");
	/* the very version of the library is accepted */
	if (sizeof(OVNI_LIB_VERSION) <= VP_N && memcmp(w_str, OVNI_LIB_VERSION, sizeof(OVNI_LIB_VERSION)) == 0) REACH("returns for the library's own version");
}
