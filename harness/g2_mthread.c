/* C06/C08 (gap G2) -- thread side of a model's channels: src/emu/model_thread.c
 *   init_chan / init_thread / model_thread_create:
 *     for every thread of the system and every model channel i of the spec the channel is created
 *     stack or single EXACTLY as spec->chan->ch_stack[i] says and ALLOW_DUP exactly as ch_dup[i] says
 *     (these two flags decide the nesting / duplicate rules of C08), named <prefix>.thread<gindex>.<name>,
 *     registered in the emulator's bay; track[i] is created with TRACK_TYPE_TH and the tracking mode
 *     spec->chan->track[i] (C06: always / while running / while active); the model_thread is stored
 *     in the thread's extension slot of the model.
 *   model_thread_connect:
 *     every thread once, in list order: track_connect_thread(track, ch, the thread's STATE channel, nch),
 *     then (and only then) model_pvt_connect_thread(emu, spec).
 * Bounded: <= 2 model channels x <= 2 threads.  Assume/assert harness on the real code (plain CBMC);
 * chan.c, bay.c, track.c, model_pvt.c are other units: logging stubs with arbitrary result. */
#include "prelude.h"
#include "chan.h"
#include "bay.h"
#include "track.h"
#include "thread.h"
#include "emu.h"
#include "model.h"
#include "model_thread.h"
#include "model_chan.h"
#include "model_pvt.h"

#define NLOG 8
int g_seq;                  /* global call counter: orders calls of different stubs */
int g_callee_failed;        /* a stub returned non-zero */
int g_alloc_failed;         /* calloc returned NULL */

/* calloc: the real (CBMC) calloc, which may return NULL; the wrapper only records that */
static void *verif_calloc(size_t n, size_t s)
{
	void *p = calloc(n, s);
	if (p == NULL) g_alloc_failed = 1;
	return p;
}

/* chan_init(ch, type, fmt, prefix, gindex, ch_name): variadic -> fixed arity logging stub */
struct chan *g_ci_ch[NLOG]; int g_ci_type[NLOG]; const char *g_ci_prefix[NLOG]; int64_t g_ci_gindex[NLOG];
const char *g_ci_name[NLOG]; int g_ci_seq[NLOG]; int g_nci;
void verif_chan_init(struct chan *ch, enum chan_type type, const char *prefix, int64_t gindex, const char *name)
{
	if (g_nci < NLOG) {
		g_ci_ch[g_nci] = ch; g_ci_type[g_nci] = (int) type; g_ci_prefix[g_nci] = prefix;
		g_ci_gindex[g_nci] = gindex; g_ci_name[g_nci] = name; g_ci_seq[g_nci] = g_seq;
	}
	g_nci++; g_seq++;
}
#define chan_init(ch, type, fmt, a, b, c) verif_chan_init((ch), (type), (a), (b), (c))

struct chan *g_ps_ch[NLOG]; int g_ps_prop[NLOG]; int g_ps_val[NLOG]; int g_ps_seq[NLOG]; int g_nps;
void chan_prop_set(struct chan *ch, enum chan_prop prop, int value)
{
	if (g_nps < NLOG) { g_ps_ch[g_nps] = ch; g_ps_prop[g_nps] = (int) prop; g_ps_val[g_nps] = value; g_ps_seq[g_nps] = g_seq; }
	g_nps++; g_seq++;
}

struct bay *g_br_bay[NLOG]; struct chan *g_br_ch[NLOG]; int g_br_seq[NLOG]; int g_nbr;
int bay_register(struct bay *bay, struct chan *ch)
{
	if (g_nbr < NLOG) { g_br_bay[g_nbr] = bay; g_br_ch[g_nbr] = ch; g_br_seq[g_nbr] = g_seq; }
	g_nbr++; g_seq++;
	int r = nondet_int();
	if (r != 0) g_callee_failed = 1;
	return r;
}

/* track_init(track, bay, type, mode, fmt, prefix, gindex, ch_name) */
struct track *g_ti_tr[NLOG]; struct bay *g_ti_bay[NLOG]; int g_ti_type[NLOG]; int g_ti_mode[NLOG];
const char *g_ti_prefix[NLOG]; int64_t g_ti_gindex[NLOG]; const char *g_ti_name[NLOG]; int g_ti_seq[NLOG]; int g_nti;
int verif_track_init(struct track *tr, struct bay *bay, enum track_type type, int mode, const char *prefix, int64_t gindex, const char *name)
{
	if (g_nti < NLOG) {
		g_ti_tr[g_nti] = tr; g_ti_bay[g_nti] = bay; g_ti_type[g_nti] = (int) type; g_ti_mode[g_nti] = mode;
		g_ti_prefix[g_nti] = prefix; g_ti_gindex[g_nti] = gindex; g_ti_name[g_nti] = name; g_ti_seq[g_nti] = g_seq;
	}
	g_nti++; g_seq++;
	int r = nondet_int();
	if (r != 0) g_callee_failed = 1;
	return r;
}
#define track_init(tr, bay, type, mode, fmt, a, b, c) verif_track_init((tr), (bay), (type), (mode), (a), (b), (c))

struct track *g_tc_tr[NLOG]; struct chan *g_tc_ch[NLOG]; struct chan *g_tc_sel[NLOG]; int g_tc_n[NLOG]; int g_tc_seq[NLOG]; int g_ntc;
int track_connect_thread(struct track *tracks, struct chan *chans, struct chan *sel, int n)
{
	if (g_ntc < NLOG) { g_tc_tr[g_ntc] = tracks; g_tc_ch[g_ntc] = chans; g_tc_sel[g_ntc] = sel; g_tc_n[g_ntc] = n; g_tc_seq[g_ntc] = g_seq; }
	g_ntc++; g_seq++;
	int r = nondet_int();
	if (r != 0) g_callee_failed = 1;
	return r;
}

struct emu *g_pvt_emu; const struct model_thread_spec *g_pvt_spec; int g_pvt_seq; int g_npvt;
int model_pvt_connect_thread(struct emu *emu, const struct model_thread_spec *spec)
{
	g_pvt_emu = emu; g_pvt_spec = spec; g_pvt_seq = g_seq;
	g_npvt++; g_seq++;
	int r = nondet_int();
	if (r != 0) g_callee_failed = 1;
	return r;
}

#define calloc(n, s) verif_calloc((n), (s))
#include "extend.c"
#include "model_thread.c"
#undef calloc

/* ---- the system under test: <= 2 threads (each struct thread its own object), <= 2 channels ---- */
static struct emu G_emu;
static struct thread G_t0, G_t1;
static struct model_thread_spec G_spec;
static struct model_chan_spec G_cspec;
static struct model_spec G_mspec;
static int G_stack[2], G_dup[2], G_modes[2];
static const char *G_names[2];
static const char G_prefix[] = "m", G_n0[] = "a", G_n1[] = "b";
int w_nch, w_nth, w_has_dup, w_stack0, w_stack1, w_dup0, w_dup1, w_mode0, w_mode1;

static void build(void)
{
	int id = nondet_uchar();
	int nch = nondet_int(); __CPROVER_assume(nch >= 0 && nch <= 2);
	int nth = nondet_int(); __CPROVER_assume(nth >= 0 && nth <= 2);
	G_stack[0] = nondet_int(); G_stack[1] = nondet_int();
	G_dup[0] = nondet_int(); G_dup[1] = nondet_int();
	G_modes[0] = nondet_int(); G_modes[1] = nondet_int();
	G_names[0] = G_n0; G_names[1] = G_n1;
	G_mspec.model = id; G_mspec.name = "model";
	G_cspec.nch = nch; G_cspec.prefix = G_prefix; G_cspec.ch_names = G_names; G_cspec.ch_stack = G_stack;
	G_cspec.ch_dup = nondet_bool() ? G_dup : NULL;
	G_cspec.track = G_modes; G_cspec.pvt = NULL;
	/* the model's per-thread structure starts with a struct model_thread (any size from there on) */
	size_t extra = nondet_size_t(); __CPROVER_assume(extra <= 4096);
	G_spec.size = sizeof(struct model_thread) + extra; G_spec.chan = &G_cspec; G_spec.model = &G_mspec;
	G_t0.gnext = (nth == 2) ? &G_t1 : NULL; G_t1.gnext = NULL;
	G_t0.gindex = nondet_long(); G_t1.gindex = nondet_long();
	G_emu.system.threads = (nth >= 1) ? &G_t0 : NULL;
	G_emu.system.nthreads = (size_t) nth;
	g_seq = 0; g_callee_failed = 0; g_alloc_failed = 0; g_err = 0;
	g_nci = g_nps = g_nbr = g_nti = g_ntc = g_npvt = 0;
	w_nch = nch; w_nth = nth; w_has_dup = (G_cspec.ch_dup != NULL);
	w_stack0 = G_stack[0]; w_stack1 = G_stack[1]; w_dup0 = G_dup[0]; w_dup1 = G_dup[1]; w_mode0 = G_modes[0]; w_mode1 = G_modes[1];
}

#ifdef H_THREAD_CREATE
/* what the channel properties are after the logged calls: chan_init clears them (contract of
 * chan_init, group g2_chan_init), then each chan_prop_set after it overwrites one */
static int prop_of(struct chan *ch, int prop, int init_seq)
{
	int v = 0;
	for (int k = 0; k < NLOG; k++)
		if (k < g_nps && g_ps_ch[k] == ch && g_ps_prop[k] == prop && g_ps_seq[k] > init_seq) v = g_ps_val[k];
	return v;
}
/* a property write that chan_init would wipe out */
static int prop_lost(struct chan *ch, int init_seq)
{
	int lost = 0;
	for (int k = 0; k < NLOG; k++)
		if (k < g_nps && g_ps_ch[k] == ch && g_ps_seq[k] < init_seq) lost = 1;
	return lost;
}

void h_thread_create(void)
{
	build();
	int nch = w_nch, nth = w_nth;
	int id = G_mspec.model;
	G_t0.ext.ctx[id] = NULL; G_t1.ext.ctx[id] = NULL;

	int r = model_thread_create(&G_emu, &G_spec);

	VASSERT((r == 0) == (!g_callee_failed && !g_alloc_failed), "model_thread_create accepted iff chan/bay/track accepted and memory was available");
	VASSERT(r == 0 || g_err > 0, "a refusal is diagnosed");
	if (r == 0) {
		VASSERT(g_nci == nth * nch && g_nbr == nth * nch && g_nti == nth * nch, "each (thread, channel): one chan_init, one bay_register, one track_init");
		VASSERT(g_nps == (w_has_dup ? nth * nch : 0), "ALLOW_DUP is set only from ch_dup; no other property is touched");
		for (int k = 0; k < 2; k++) {
			if (k >= nth) continue;
			struct thread *t = k == 0 ? &G_t0 : &G_t1;
			struct model_thread *th = t->ext.ctx[id];
			VASSERT(th != NULL, "the model thread is stored in the extension slot of the model");
			VASSERT(th->spec == &G_spec && th->bay == &G_emu.bay, "model thread bound to the spec and the emulator's bay");
			VASSERT(nch == 0 || (th->ch != NULL && th->track != NULL), "channel and track tables allocated");
			for (int i = 0; i < 2; i++) {
				if (i >= nch) continue;
				int j = k * nch + i;          /* threads in list order, channels in spec order */
				struct chan *c = &th->ch[i];
				VASSERT(g_ci_ch[j] == c, "channel i of thread k is initialised once");
				VASSERT(g_ci_type[j] == (G_stack[i] ? CHAN_STACK : CHAN_SINGLE), "stack or single exactly as ch_stack[i] says");
				VASSERT(g_ci_prefix[j] == G_prefix && g_ci_gindex[j] == t->gindex && g_ci_name[j] == G_names[i], "named <prefix>.thread<gindex>.<ch_names[i]>");
				VASSERT(!prop_lost(c, g_ci_seq[j]), "no property is written before the channel is initialised");
				VASSERT((prop_of(c, CHAN_ALLOW_DUP, g_ci_seq[j]) != 0) == (w_has_dup && G_dup[i] != 0), "ALLOW_DUP exactly as ch_dup[i] says (off without a ch_dup table)");
				VASSERT(!w_has_dup || prop_of(c, CHAN_ALLOW_DUP, g_ci_seq[j]) == G_dup[i], "ALLOW_DUP carries the ch_dup[i] value");
				VASSERT(prop_of(c, CHAN_DIRTY_WRITE, g_ci_seq[j]) == 0 && prop_of(c, CHAN_IGNORE_DUP, g_ci_seq[j]) == 0, "model channels: no DIRTY_WRITE, no IGNORE_DUP");
				VASSERT(g_br_ch[j] == c && g_br_bay[j] == &G_emu.bay && g_br_seq[j] > g_ci_seq[j], "channel i registered in the emulator's bay, after it got its name");
				struct track *tr = &th->track[i];
				int m = k * nch + i;
				VASSERT(g_ti_tr[m] == tr && g_ti_bay[m] == &G_emu.bay, "track i of thread k created in the emulator's bay");
				VASSERT(g_ti_type[m] == TRACK_TYPE_TH, "thread tracks are TRACK_TYPE_TH");
				VASSERT(g_ti_mode[m] == G_modes[i], "tracking mode exactly spec->track[i]");
				VASSERT(g_ti_prefix[m] == G_prefix && g_ti_gindex[m] == t->gindex && g_ti_name[m] == G_names[i], "track named after the channel");
			}
		}
		if (nth < 2) VASSERT(G_t1.ext.ctx[id] == NULL, "threads outside the system are not touched");
		REACH("model_thread_create accepted");
		if (nch == 2 && nth == 2 && w_has_dup) REACH("two channels, two threads, dup table");
		if (nch == 2 && nth == 2 && !w_has_dup) REACH("two channels, two threads, no dup table");
		if (nch >= 1 && nth >= 1 && w_stack0 != 0 && w_has_dup && w_dup0 == 0) REACH("stack channel without duplicates");
		if (nch >= 1 && nth >= 1 && w_stack0 == 0 && w_has_dup && w_dup0 != 0) REACH("single channel with duplicates");
	} else {
		REACH("model_thread_create refused");
		if (g_alloc_failed && !g_callee_failed) REACH("refused: out of memory");
	}
}
#endif

#ifdef H_THREAD_CONNECT
void h_thread_connect(void)
{
	build();
	int nch = w_nch, nth = w_nth;
	int id = G_mspec.model;
	static struct model_thread mt0, mt1;
	static struct track tr0[2], tr1[2];
	static struct chan ch0[2], ch1[2];
	mt0.spec = &G_spec; mt0.bay = &G_emu.bay; mt0.ch = ch0; mt0.track = tr0;
	mt1.spec = &G_spec; mt1.bay = &G_emu.bay; mt1.ch = ch1; mt1.track = tr1;
	G_t0.ext.ctx[id] = &mt0; G_t1.ext.ctx[id] = &mt1;

	int r = model_thread_connect(&G_emu, &G_spec);

	VASSERT(TH_CHAN_CPU == 0 && TH_CHAN_TID == 1 && TH_CHAN_STATE == 2, "pinned: thread channel numbering (cpu, tid, state)");
	VASSERT((r == 0) == !g_callee_failed, "model_thread_connect accepted iff track.c and the PRV wiring accepted");
	VASSERT(r == 0 || g_err > 0, "a refusal is diagnosed");
	VASSERT(g_ntc <= nth && g_npvt <= 1, "no thread is connected twice; the PRV wiring is requested at most once");
	/* every call made is the right one, also on a refused run */
	for (int k = 0; k < 2; k++) {
		if (k >= g_ntc) continue;
		struct thread *t = k == 0 ? &G_t0 : &G_t1;
		struct model_thread *th = k == 0 ? &mt0 : &mt1;
		VASSERT(g_tc_tr[k] == th->track && g_tc_ch[k] == th->ch, "thread k (list order): its tracks are fed by its channels");
		VASSERT(g_tc_sel[k] == &t->chan[TH_CHAN_STATE], "the select channel of a thread track is that thread's STATE channel");
		VASSERT(g_tc_n[k] == nch, "all nch channels of the model");
	}
	if (g_npvt == 1) {
		VASSERT(g_ntc == nth && g_pvt_seq == nth, "the PRV wiring is requested after every thread was connected");
		VASSERT(g_pvt_emu == &G_emu && g_pvt_spec == &G_spec, "PRV wiring of this model");
	}
	if (r == 0) {
		VASSERT(g_ntc == nth && g_npvt == 1, "every thread connected exactly once, then the PRV wiring");
		REACH("model_thread_connect accepted");
		if (nth == 2 && nch == 2) REACH("two threads connected");
		if (nth == 0) REACH("no threads: only the PRV wiring");
	} else {
		REACH("model_thread_connect refused");
		if (g_npvt == 1) REACH("refused by the PRV wiring");
		if (g_npvt == 0 && g_ntc == 2) REACH("refused at the second thread");
	}
}
#endif
