/* A5 (function coverage, plan C07) -- init_proc of the real src/emu/nosv/setup.c and
 * src/emu/nanos6/setup.c (static; called once per process of the system by model_*_create).
 *
 * What it must do (C07: the task machine of a process lives in the process's task_info):
 * allocate ONE zeroed per-process model object -- so both hash maps of the task_info (task
 * types, tasks) start EMPTY -- and hang it on THIS process under THIS model's id, touching
 * no other model's slot and nothing else of the process; an allocation failure is
 * propagated (-1, diagnosed) and leaves the process untouched.
 *
 * -DA5_NOSV / -DA5_NANOS6 select the model.  extend.c is the real one (extend_set is verified
 * inline).  Trusted: calloc may fail; on success it returns a fresh zero-filled object. */
#include "prelude.h"
#include "value.h"

unsigned g_lowfail;        /* calloc failures */
unsigned g_calloc_n;       /* calloc calls */
size_t g_calloc_sz;        /* total size of the last request */
void *calloc(size_t n, size_t sz)
{
	g_calloc_n++;
	size_t tot = n * sz;
	g_calloc_sz = tot;
	if (nondet_bool()) { g_lowfail++; return NULL; }
	if (n != 0 && tot / n != sz) { g_lowfail++; return NULL; }
	char *p = malloc(tot);
	if (p == NULL) { g_lowfail++; return NULL; }
	if (tot > 0) __CPROVER_array_set(p, 0);
	return p;
}

#include "extend.c"           /* the real extend_set / extend_get */
#if defined(A5_NOSV)
#  include "nosv/setup.c"     /* the real /repo/src/emu/nosv/setup.c */
#  define PROC_T struct nosv_proc
#  define MODEL_ID 'V'
#elif defined(A5_NANOS6)
#  include "nanos6/setup.c"   /* the real /repo/src/emu/nanos6/setup.c */
#  define PROC_T struct nanos6_proc
#  define MODEL_ID '6'
#endif

#define RV __CPROVER_return_value
#define OLD(e) __CPROVER_old(e)
#define SLOT(p) ((p)->ext.ctx[MODEL_ID])

_Static_assert(model_id == MODEL_ID, "the model's extension slot");

int c_init_proc(struct proc *sysproc)
__CPROVER_requires(__CPROVER_is_fresh(sysproc, sizeof(*sysproc)))
__CPROVER_requires(DIAG_PRE && g_lowfail < 1000000u && g_calloc_n < 1000000u)
/* frame: this model's slot of this process, and nothing else of the system */
__CPROVER_assigns(SLOT(sysproc), DIAG_FRAME, g_lowfail, g_calloc_n, g_calloc_sz)
/* succeeds exactly when the allocation did; exactly one allocation of one per-process object */
__CPROVER_ensures((RV == 0) == (g_lowfail == OLD(g_lowfail)))
__CPROVER_ensures(RV == 0 || RV == -1)
__CPROVER_ensures(g_calloc_n == OLD(g_calloc_n) + 1 && g_calloc_sz == sizeof(PROC_T))
/* success: a FRESH object in the slot, whose task_info is empty (no types, no tasks) */
__CPROVER_ensures(RV != 0 || (__CPROVER_is_fresh(SLOT(sysproc), sizeof(PROC_T)) &&
	((PROC_T *) SLOT(sysproc))->task_info.types == NULL && ((PROC_T *) SLOT(sysproc))->task_info.tasks == NULL))
__CPROVER_ensures(RV != 0 || g_err == OLD(g_err))
/* failure: diagnosed, the slot keeps what it had */
__CPROVER_ensures(RV == 0 || (g_err > OLD(g_err) && SLOT(sysproc) == OLD(SLOT(sysproc))))
;
void h_init_proc(void)
{
	struct proc *p;
	int r = init_proc(p);
	if (r == 0) REACH("per-process task info allocated");
	if (r != 0) REACH("allocation failure propagated");
}
