/* C14 -- shared by the c14_*.c harnesses (included AFTER prelude.h / rt_common.h and
 * BEFORE the real source file): trusted libc hand models used by version_parse and
 * the ghost specification of "well-formed version string".
 *
 * Nothing here is repository code.  The two libc models and the two scanners are
 * also compiled natively (native/c14_vspec_native.c) and compared with glibc and
 * with the real version_parse on every string over a 9-letter alphabet. */
#ifndef C14_VSPEC_C
#define C14_VSPEC_C

#ifndef VP_N
#define VP_N 12            /* strings under proof: at most VP_N bytes including the NUL */
#endif

#ifndef C14_NATIVE_NAMES   /* the native cross-check renames the models to compare with glibc */
#define m_strtok_r strtok_r
#define m_strtol   strtol
#endif

/* ---- trusted: strtok_r, POSIX.1-2008 (CBMC ships no body) ---- */
char *m_strtok_r(char *s, const char *delim, char **save)
{
	if (s == NULL)
		s = *save;
	/* skip leading delimiters */
	for (;; s++) {
		char c = *s;
		if (c == '\0') {
			*save = s;
			return NULL;
		}
		int isdelim = 0;
		for (const char *d = delim; *d != '\0'; d++)
			if (*d == c)
				isdelim = 1;
		if (!isdelim)
			break;
	}
	char *tok = s;
	/* the token ends at the next delimiter (overwritten with NUL) or at the end */
	for (;; s++) {
		char c = *s;
		if (c == '\0') {
			*save = s;
			return tok;
		}
		int isdelim = 0;
		for (const char *d = delim; *d != '\0'; d++)
			if (*d == c)
				isdelim = 1;
		if (isdelim)
			break;
	}
	*s = '\0';
	*save = s + 1;
	return tok;
}

/* ---- trusted: strtol, ISO C11 7.22.1.4, base 10 only.
 * CBMC's shipped model is NOT used: for a subject sequence without digits (" ",
 * "+", "-") it stores nptr+k in *endptr where ISO C requires nptr, which would make
 * version_parse look as if it accepted "+.1.2". */
long m_strtol(const char *nptr, char **endptr, int base)
{
	__CPROVER_assert(base == 10, "strtol model: base 10 only");
	const char *p = nptr;
	while (*p == ' ' || (*p >= '\t' && *p <= '\r'))
		p++;
	int neg = 0;
	if (*p == '+' || *p == '-') {
		neg = (*p == '-');
		p++;
	}
	if (!(*p >= '0' && *p <= '9')) {
		if (endptr != NULL)
			*endptr = (char *) nptr;   /* no conversion */
		return 0;
	}
	unsigned long acc = 0;                 /* magnitude; limit is LONG_MAX (+1 if negative) */
	unsigned long lim = neg ? (unsigned long) LONG_MAX + 1UL : (unsigned long) LONG_MAX;
	int over = 0;
	for (; *p >= '0' && *p <= '9'; p++) {
		unsigned long d = (unsigned long) (*p - '0');
		if (!over && acc > (lim - d) / 10UL)
			over = 1;
		if (!over)
			acc = acc * 10UL + d;
	}
	if (endptr != NULL)
		*endptr = (char *) p;
	if (over) {
		errno = ERANGE;
		return neg ? LONG_MIN : LONG_MAX;
	}
	if (neg)
		return acc == (unsigned long) LONG_MAX + 1UL ? LONG_MIN : -(long) acc;
	return (long) acc;
}

/* ------------------------------------------------------------------------
 * Specification (ghost, pure).  A version string is WELL-FORMED iff it is
 *      digits '.' digits '.' digits [ '-' anything ]
 * with digits = one or more of '0'..'9' and every number <= INT_MAX.  The
 * optional '-' suffix is the pre-release tag the project documents as valid
 * (test/unit/version.c: "1.2.3-rc1" is good, "1.2.3rc" is bad).  Refused as
 * malformed: NULL, empty, missing component ("1.2", "1.2."), empty component
 * ("1..3"), extra component ("1.2.3.4"), non-numeric ("1.O.0"), sign ("+1.2.3",
 * "-1.0.0"), white space (" 1.2.3"), trailing garbage ("1.2.3x"), a number
 * that does not fit an int.
 * spec_strict(s, k): -1 if s is not well-formed, else the value of component k.
 * ------------------------------------------------------------------------ */
static int spec_strict(const char *s, int k)
{
	/* one pass, position by position (constant indices keep the SAT problem small) */
	int comp = 0;            /* component being read: 0 major, 1 minor, 2 patch */
	int ndig = 0;            /* it has at least one digit */
	long v = 0;
	long val[3] = { 0, 0, 0 };
	for (int i = 0; i < VP_N; i++) {
		char c = s[i];
		if (c >= '0' && c <= '9') {
			v = v * 10 + (c - '0');
			if (v > INT_MAX)
				return -1;
			ndig = 1;
		} else if (c == '.' && comp < 2) {
			if (!ndig)
				return -1;
			val[comp] = v;
			comp++;
			v = 0;
			ndig = 0;
		} else if ((c == '\0' || c == '-') && comp == 2) {
			if (!ndig)
				return -1;
			val[2] = v;
			return (int) val[k];
		} else {
			return -1;
		}
	}
	return -1;               /* not terminated within VP_N bytes */
}

/* spec_actual(s, k): the language the code at the pinned commit really accepts (FINDING,
 * see plan/C14.json): like spec_strict, but additionally
 *   (L1) runs of '.' before any component and runs of '.'/'-' before the patch are skipped
 *        (".1.2.3", "1..2.3", "1.2.-3"),
 *   (L2) everything after a '.' that follows the patch is ignored ("1.2.3.4"),
 *   (L3) each number may be preceded by white space and a sign, "-0" counting as 0
 *        (" 1.2.3", "+1.+2.3", "-0.1.2"),
 *   (L4) a number that fits a long but not an int is reduced modulo 2^32 and accepted
 *        if the result is non-negative ("4294967297.0.0" is 1.0.0).
 * Used (a) to carve exactly these strings out of the strict contract and (b) to prove
 * that nothing else is accepted. */
static int spec_actual(const char *s, int k)
{
	int comp = 0;
	int ph = 0;              /* 0 before the number, 1 in its white space, 2 after its sign, 3 in its digits */
	int neg = 0;
	unsigned long acc = 0;
	int val[3] = { 0, 0, 0 };
	for (int i = 0; i < VP_N; i++) {
		char c = s[i];
		int isdelim = (c == '.' || (comp == 2 && c == '-'));
		if (ph == 0 && isdelim)
			continue;                                        /* L1 */
		if (ph <= 1 && (c == ' ' || (c >= '\t' && c <= '\r'))) {
			ph = 1;                                          /* L3 */
			continue;
		}
		if (ph <= 1 && (c == '+' || (c == '-' && comp < 2))) {
			neg = (c == '-');                                /* L3 */
			ph = 2;
			continue;
		}
		if (c >= '0' && c <= '9') {
			unsigned long d = (unsigned long) (c - '0');
			unsigned long lim = neg ? (unsigned long) LONG_MAX + 1UL : (unsigned long) LONG_MAX;
			if (acc > (lim - d) / 10UL)
				return -1;                               /* does not fit a long: refused */
			acc = acc * 10UL + d;
			ph = 3;
			continue;
		}
		if (ph == 3 && (isdelim || c == '\0')) {
			/* L4: conversion long -> int keeps the low 32 bits on this ABI */
			unsigned int low = (unsigned int) (neg ? 0UL - acc : acc);
			if (low > (unsigned int) INT_MAX)
				return -1;                               /* negative (after conversion) */
			val[comp] = (int) low;
			if (comp == 2)
				return val[k];                           /* L2: the rest is ignored */
			if (c == '\0')
				return -1;                               /* missing component */
			comp++;
			ph = 0;
			neg = 0;
			acc = 0;
			continue;
		}
		return -1;
	}
	return -1;
}

/* NUL within the first VP_N bytes (every byte up to it must be readable) */
static int spec_terminated(const char *s)
{
	for (int i = 0; i < VP_N; i++)
		if (s[i] == '\0')
			return 1;
	return 0;
}

#define VP_WELLFORMED(s)  (spec_strict((s), 0) >= 0)
/* CARVE-OUT (finding "lenient version_parse"): the strings on which the two languages differ */
#define VP_CARVE(s)       ((spec_strict((s), 0) >= 0) == (spec_actual((s), 0) >= 0))
#define VP_COMPAT(w0, w1, h0, h1) ((w0) == (h0) && (w1) <= (h1))

/* diagnostics counters: callee contracts that are also used for replacement tolerate
 * the few increments made by their callers (top level: DIAG_PRE, < 1e6) */
#define DIAG_PRE_MID  (g_diag < 2000000u && g_err < 2000000u && g_warn < 2000000u)
#define DIAG_PRE_LEAF (g_diag < 3000000u && g_err < 3000000u && g_warn < 3000000u)

#endif
