/* C14 -- shared by the c14_*.c harnesses (included AFTER prelude.h / rt_common.h and
 * BEFORE the real source file): trusted libc hand models used by version_parse and
 * the ghost specification of "well-formed version string".
 *
 * Nothing here is repository code.  The two libc models and the scanners are also
 * compiled natively (native/c14_vspec_native.c) and compared with glibc and with the
 * real version_parse on every string of length <= 8 over a 9-letter alphabet. */
#ifndef C14_VSPEC_C
#define C14_VSPEC_C

#ifndef VP_N
#define VP_N 12            /* strings under proof: at most VP_N bytes including the NUL */
#endif
_Static_assert(LONG_MAX == 9223372036854775807L && INT_MAX == 2147483647, "LP64 expected");

#ifndef C14_NATIVE_NAMES   /* the native cross-check renames the models to compare with glibc */
#define m_strtok_r strtok_r
#define m_strtol   strtol
#endif
#ifndef MODEL_ASSERT
#define MODEL_ASSERT(c, msg) __CPROVER_assert((c), "libc model applicability: " msg)
#endif
#ifndef MODEL_SAME_OBJECT
#define MODEL_SAME_OBJECT(p, q) __CPROVER_same_object((p), (q))
#endif

/* ------------------------------------------------------------------------
 * Numbers.  s[a..b) is a run of digits (a < b).
 *
 * vp_fits(s,a,b,ref): the number is <= ref (a string of digits without leading zeros).
 * Decided on the digits, without arithmetic: fewer significant digits, or as many and
 * lexicographically not greater.
 * ------------------------------------------------------------------------ */
static int vp_fits(const char *s, int a, int b, const char *ref, int reflen)
{
	int nsig = 0;            /* significant digits seen (leading zeros skipped) */
	int cmp = 0;             /* the first nsig (<= reflen) of them compared with ref: -1, 0, 1 */
	for (int k = 0; k < VP_N; k++) {
		if (k < a || k >= b)
			continue;
		char c = s[k];
		if (nsig == 0 && c == '0')
			continue;
		if (nsig < reflen && cmp == 0)
			cmp = (c < ref[nsig]) ? -1 : (c > ref[nsig]) ? 1 : 0;
		if (nsig <= reflen)
			nsig++;
	}
	return nsig < reflen || (nsig == reflen && cmp <= 0);
}
#define vp_fits_int(s, a, b)        vp_fits((s), (a), (b), "2147483647", 10)
/* |number| fits a long: <= LONG_MAX, or <= LONG_MAX + 1 with a '-' sign (strtol: else ERANGE) */
#if VP_N <= 19
/* a string of fewer than 19 characters holds no number of 19 digits: always true */
#define vp_fits_long(s, a, b, neg)  1
#else
#define vp_fits_long(s, a, b, neg)  vp_fits((s), (a), (b), (neg) ? "9223372036854775808" : "9223372036854775807", 19)
#endif

/* vp_dec_mag(s,a,b): the decimal value of the run (unspecified if it does not fit an
 * unsigned long).
 * version_parse does no arithmetic on digits itself (strtol does).  Under CBMC the
 * value of a run is therefore an UNINTERPRETED function of (the bytes of the run, a,
 * b), used by the strtol model and by the specification alike: what is proved holds
 * for every such function, in particular for the decimal value, and the SAT problem
 * loses the 64-bit multiply-add chains (measured at VP_N = 12: accept/refuse 5 s,
 * positions of the numbers 7 s, equality of the numbers 70-170 s with real
 * arithmetic).  The two facts about the decimal value that are needed -- a number of at
 * most 9 / 18 digits is <= 999999999 / 10^18-1, hence fits an int / a long -- are built
 * in by clamping, which is the identity on the real function: nothing is assumed.  -DVP_CONCRETE_ARITH
 * (thorough tier) and the native cross-check use the real arithmetic. */
#if defined(VERIF_CBMC) && !defined(VP_CONCRETE_ARITH)
_Static_assert(VP_N >= 8 && VP_N <= 16, "vp_pack packs the string into two 64-bit words");
unsigned long __CPROVER_uninterpreted_dec_mag(unsigned long w0, unsigned long w1, int a, int b);
/* the bytes of s[a..b) at their own positions, everything else zero */
static unsigned long vp_pack(const char *s, int a, int b, int word)
{
	unsigned long w = 0;
	for (int k = 8 * word; k < 8 * word + 8 && k < VP_N; k++)
		if (k >= a && k < b)
			w |= ((unsigned long) (unsigned char) s[k]) << (8 * (k % 8));
	return w;
}
#define VP_DEC_MAG_BODY(s, a, b) \
	unsigned long m = __CPROVER_uninterpreted_dec_mag(vp_pack(s, a, b, 0), vp_pack(s, a, b, 1), a, b); \
	if (b - a <= 9 && m > 999999999UL) \
		m = 999999999UL; \
	if (b - a <= 18 && m > 999999999999999999UL) \
		m = 999999999999999999UL; \
	return m;
#else
#define VP_DEC_MAG_BODY(s, a, b) \
	unsigned long acc = 0; \
	for (int k = 0; k < VP_N; k++) { \
		if (k < a || k >= b) \
			continue; \
		acc = acc * 10UL + (unsigned long) (s[k] - '0');    /* wraps if it does not fit */ \
	} \
	return acc;
#endif
/* two textual copies of the same function: one for the specification (called from
 * contract clauses), one for the strtol model (called from instrumented code); DFCC
 * gives the two kinds of callers different calling conventions */
static unsigned long vp_dec_mag(const char *s, int a, int b) { VP_DEC_MAG_BODY(s, a, b) }
static unsigned long m_dec_mag(const char *s, int a, int b) { VP_DEC_MAG_BODY(s, a, b) }

/* ------------------------------------------------------------------------
 * Trusted libc models.  Both are written position by position over the buffer being
 * tokenized (constant indices 0..VP_N-1 guarded by comparisons with the scan
 * position) instead of walking a pointer, which keeps every character read at a
 * constant offset.  They assert their own applicability (string ends within VP_N
 * bytes, strtol is applied to a token of the buffer strtok_r is splitting, base 10,
 * at most two delimiters): a violated model assertion fails the group, it can never
 * make it pass.
 * ------------------------------------------------------------------------ */
char *m_base;              /* start of the buffer strtok_r is splitting */
int m_pos;                 /* scan position: *save == m_base + m_pos */
/* ghost record: the k-th strtol conversion since strtok_r started a new string read
 * the digits m_base[m_conv_a[k] .. m_conv_b[k]) */
#define M_CONV_MAX 4
int m_conv_n, m_conv_a[M_CONV_MAX], m_conv_b[M_CONV_MAX];
#define MODEL_FRAME m_base, m_pos, m_conv_n, __CPROVER_object_whole(m_conv_a), __CPROVER_object_whole(m_conv_b)

/* ---- strtok_r, POSIX.1-2008 (CBMC ships no body) ---- */
char *m_strtok_r(char *s, const char *delim, char **save)
{
	if (s != NULL) {
		m_base = s;
		m_pos = 0;
		m_conv_n = 0;
	} else {
		MODEL_ASSERT(*save == m_base + m_pos, "strtok_r continues the string it started");
	}
	char d0 = delim[0];
	char d1 = (d0 == '\0') ? '\0' : delim[1];
	MODEL_ASSERT(d1 == '\0' || delim[2] == '\0', "strtok_r with at most two delimiters");
	int start = -1;
	for (int k = 0; k < VP_N; k++) {
		if (k < m_pos)
			continue;
		char c = m_base[k];
		int isdelim = (c != '\0' && (c == d0 || c == d1));
		if (c == '\0') {
			/* end of the string: the last token, or none */
			m_pos = k;
			*save = m_base + k;
			return start < 0 ? NULL : m_base + start;
		}
		if (start < 0) {
			if (!isdelim)
				start = k;          /* leading delimiters are skipped */
		} else if (isdelim) {
			m_base[k] = '\0';           /* the token ends here */
			m_pos = k + 1;
			*save = m_base + k + 1;
			return m_base + start;
		}
	}
	MODEL_ASSERT(0, "string ends within VP_N bytes (strtok_r)");
	return NULL;
}

/* ---- strtol, ISO C11 7.22.1.4, base 10 only.
 * CBMC's shipped model is NOT used: for a subject sequence without digits (" ",
 * "+", "-") it stores nptr+k in *endptr where ISO C requires nptr, which would make
 * version_parse look as if it accepted "+.1.2". */
long m_strtol(const char *nptr, char **endptr, int base)
{
	MODEL_ASSERT(base == 10, "strtol in base 10");
	MODEL_ASSERT(MODEL_SAME_OBJECT(nptr, m_base), "strtol on a token of the strtok_r buffer");
	long off = nptr - m_base;
	MODEL_ASSERT(off >= 0 && off < VP_N, "strtol on a token of the strtok_r buffer (offset)");
	int ph = 0;            /* 0 white space, 1 after the sign, 2 in the digits */
	int neg = 0;
	int a = -1, b = -1;    /* the digits are m_base[a..b) */
	for (int k = 0; k < VP_N; k++) {
		if (k < off)
			continue;
		char c = m_base[k];
		if (ph == 0 && (c == ' ' || (c >= '\t' && c <= '\r')))
			continue;
		if (ph == 0 && (c == '+' || c == '-')) {
			neg = (c == '-');
			ph = 1;
			continue;
		}
		if (c >= '0' && c <= '9') {
			if (ph != 2)
				a = k;
			ph = 2;
			continue;
		}
		b = k;         /* first character that is not part of the number (maybe the NUL) */
		break;
	}
	MODEL_ASSERT(b >= 0, "string ends within VP_N bytes (strtol)");
	if (ph != 2) {
		if (endptr != NULL)
			*endptr = (char *) nptr;       /* no digits: no conversion */
		return 0;
	}
	if (endptr != NULL)
		*endptr = m_base + b;
	if (m_conv_n >= 0 && m_conv_n < M_CONV_MAX) {
		m_conv_a[m_conv_n] = a;
		m_conv_b[m_conv_n] = b;
		m_conv_n++;
	}
	if (!vp_fits_long(m_base, a, b, neg)) {
		errno = ERANGE;
		return neg ? LONG_MIN : LONG_MAX;
	}
	unsigned long mag = m_dec_mag(m_base, a, b);
	if (neg)        /* fits with the sign but not without it: exactly LONG_MIN */
		return !vp_fits_long(m_base, a, b, 0) ? LONG_MIN : -(long) mag;
	return (long) mag;
}

/* ------------------------------------------------------------------------
 * Specification (ghost, pure).  A version string is WELL-FORMED iff it is
 *      digits '.' digits '.' digits [ '-' anything ]
 * with digits = one or more of '0'..'9' and every number <= INT_MAX.  The
 * optional '-' suffix is the pre-release tag the project documents as valid
 * (test/unit/version.c: "1.2.3-rc1" is good, "1.2.3rc" is bad).  Refused as
 * malformed: NULL, empty, missing component ("1.2", "1.2."), empty component
 * ("1..3"), extra component ("1.2.3.4"), non-numeric ("1.O.0"), sign ("+1.2.3",
 * "-1.0.0"), white space (" 1.2.3"), trailing garbage ("1.2.3x"), a number
 * that does not fit an int.
 * Each scanner makes one pass, position by position (constant indices keep the SAT
 * problem small) and returns the SHAPE: where the three numbers are.
 * ------------------------------------------------------------------------ */
struct vp_shape {
	int ok;                  /* the string has the shape */
	int a[3], b[3];          /* component c is the digit run s[a[c]..b[c]) */
	int neg[3];              /* it carries a '-' sign (lenient language only) */
};

/* the shape digits.digits.digits[-anything] */
static struct vp_shape vp_shape_strict(const char *s)
{
	struct vp_shape sh = { 0, { -1, -1, -1 }, { -1, -1, -1 }, { 0, 0, 0 } };
	int comp = 0;            /* component being read: 0 major, 1 minor, 2 patch */
	for (int i = 0; i < VP_N; i++) {
		char c = s[i];
		if (c >= '0' && c <= '9') {
			if (sh.a[comp] < 0)
				sh.a[comp] = i;
		} else if (c == '.' && comp < 2) {
			if (sh.a[comp] < 0)
				return sh;       /* empty component */
			sh.b[comp] = i;
			comp++;
		} else if ((c == '\0' || c == '-') && comp == 2) {
			if (sh.a[2] < 0)
				return sh;
			sh.b[2] = i;
			sh.ok = 1;
			return sh;
		} else {
			return sh;
		}
	}
	return sh;                       /* not terminated within VP_N bytes */
}
static int vp_wellformed_shape(const char *s, struct vp_shape sh)
{
	return sh.ok && vp_fits_int(s, sh.a[0], sh.b[0]) && vp_fits_int(s, sh.a[1], sh.b[1]) &&
		vp_fits_int(s, sh.a[2], sh.b[2]);
}
static int spec_wellformed(const char *s)
{
	return vp_wellformed_shape(s, vp_shape_strict(s));
}
/* value of component k of a well-formed string */
static int spec_value(const char *s, int k)
{
	struct vp_shape sh = vp_shape_strict(s);
	return (int) (vp_dec_mag(s, sh.a[k], sh.b[k]) & 0x7fffffffUL);
}
/* -1 if s is not well-formed, else the value of component k */
static int spec_strict(const char *s, int k)
{
	return spec_wellformed(s) ? spec_value(s, k) : -1;
}

/* The language the code at the pinned commit really accepts (FINDING, see
 * plan/C14.json): like the strict one, but additionally
 *   (L1) runs of '.' before any component and runs of '.'/'-' before the patch are skipped
 *        (".1.2.3", "1..2.3", "1.2.-3"),
 *   (L2) everything after a '.' that follows the patch is ignored ("1.2.3.4"),
 *   (L3) each number may be preceded by white space and a sign, "-0" counting as 0
 *        (" 1.2.3", "+1.+2.3", "-0.1.2"),
 *   (L4) a number that fits a long but not an int is reduced modulo 2^32 and accepted
 *        if the result is non-negative ("4294967297.0.0" is 1.0.0).
 * Used (a) to carve exactly these strings out of the strict contract and (b) to prove
 * that nothing else is accepted. */
static struct vp_shape vp_shape_actual(const char *s)
{
	struct vp_shape sh = { 0, { -1, -1, -1 }, { -1, -1, -1 }, { 0, 0, 0 } };
	int comp = 0;
	int ph = 0;              /* 0 before the number, 1 in its white space, 2 after its sign, 3 in its digits */
	for (int i = 0; i < VP_N; i++) {
		char c = s[i];
		int isdelim = (c == '.' || (comp == 2 && c == '-'));
		if (ph == 0 && isdelim)
			continue;                                        /* L1 */
		if (ph <= 1 && (c == ' ' || (c >= '\t' && c <= '\r'))) {
			ph = 1;                                          /* L3 */
			continue;
		}
		if (ph <= 1 && (c == '+' || (c == '-' && comp < 2))) {
			sh.neg[comp] = (c == '-');                       /* L3 */
			ph = 2;
			continue;
		}
		if (c >= '0' && c <= '9') {
			if (ph != 3)
				sh.a[comp] = i;
			ph = 3;
			continue;
		}
		if (ph == 3 && (isdelim || c == '\0')) {
			sh.b[comp] = i;
			if (comp == 2) {
				sh.ok = 1;                               /* L2: the rest is ignored */
				return sh;
			}
			if (c == '\0')
				return sh;                               /* missing component */
			comp++;
			ph = 0;
			continue;
		}
		return sh;
	}
	return sh;
}
/* the digits s[a..b) with sign neg, as version_parse stores them: strtol must not
 * overflow a long; L4: the conversion long -> int keeps the low 32 bits on this ABI
 * and the result must not be negative.  -1 if refused. */
static int vp_actual_value(const char *s, int a, int b, int neg)
{
	if (!vp_fits_long(s, a, b, neg))
		return -1;
	unsigned long mag = vp_dec_mag(s, a, b);
	unsigned int low = (unsigned int) ((neg ? 0UL - mag : mag) & 0xffffffffUL);
	if (low > (unsigned int) INT_MAX)
		return -1;
	return (int) low;
}
static int vp_accepted_shape(const char *s, struct vp_shape sh)
{
	return sh.ok && vp_actual_value(s, sh.a[0], sh.b[0], sh.neg[0]) >= 0 &&
		vp_actual_value(s, sh.a[1], sh.b[1], sh.neg[1]) >= 0 &&
		vp_actual_value(s, sh.a[2], sh.b[2], sh.neg[2]) >= 0;
}
static int spec_accepted(const char *s)
{
	return vp_accepted_shape(s, vp_shape_actual(s));
}
/* -1 if s is refused by the code at the pinned commit, else what it stores for component k */
static int spec_actual(const char *s, int k)
{
	struct vp_shape sh = vp_shape_actual(s);
	return vp_accepted_shape(s, sh) ? vp_actual_value(s, sh.a[k], sh.b[k], sh.neg[k]) : -1;
}

/* every maximal run of digits has at most 9 digits, hence is a number that fits an int
 * (so that the conversion (int) strtol(..) in version_parse never narrows, whether the
 * string is accepted or not) */
static int spec_runs_short(const char *s)
{
	int a = -1;
	for (int i = 0; i < VP_N; i++) {
		char c = s[i];
		if (c >= '0' && c <= '9') {
			if (a < 0)
				a = i;
			if (i - a >= 9)
				return 0;
		} else {
			a = -1;
		}
		if (c == '\0')
			return 1;
	}
	return 1;
}

/* NUL within the first VP_N bytes (every byte up to it must be readable) */
static int spec_terminated(const char *s)
{
	for (int i = 0; i < VP_N; i++)
		if (s[i] == '\0')
			return 1;
	return 0;
}

/* CARVE-OUT (finding "lenient version_parse"): the strings on which the two languages
 * differ, and those holding a number of 10 or more digits, which (int) strtol(..) may
 * narrow (L4; ten-digit numbers up to INT_MAX are the only harmless strings excluded) */
static int spec_outside_finding(const char *s)
{
	return spec_wellformed(s) == spec_accepted(s) && spec_runs_short(s);
}
#define VP_COMPAT(w0, w1, h0, h1) ((w0) == (h0) && (w1) <= (h1))

/* A private copy of the string (up to its NUL, zero-filled after it; the first VP_N
 * bytes if there is none).  The predicates below work on the copy: a string reached
 * through pointers loaded from the heap (thread -> meta -> require -> value) is then read
 * once per predicate instead of once per scanner step (each such read is a case split
 * over the objects the pointer may designate). */
struct vp_str { char c[VP_N]; };
static struct vp_str vp_load(const char *s)
{
	struct vp_str v;
	int end = 0;
	for (int i = 0; i < VP_N; i++) {
		char c = end ? '\0' : s[i];
		if (c == '\0')
			end = 1;
		v.c[i] = c;
	}
	return v;
}

/* ---- the contract of version_parse as predicates (one evaluation of each scanner) ---- */
/* precondition: terminated, outside the finding */
static int vp_pre(const char *version)
{
	if (version == NULL)
		return 1;
	struct vp_str v = vp_load(version);
	return spec_terminated(v.c) && spec_outside_finding(v.c);
}
/* accepted exactly when well-formed */
static int vp_post_iff(const char *version, int ret)
{
	if (version == NULL)
		return ret != 0;
	struct vp_str v = vp_load(version);
	return (ret == 0) == (spec_wellformed(v.c) != 0);
}
/* on acceptance: the three numbers strtol converted are exactly the three components of
 * the grammar (positions recorded by the libc model) and tuple[] holds their values */
static int vp_post_numbers(const char *version, int ret, const int *tuple)
{
	if (ret != 0)
		return 1;
	struct vp_str v = vp_load(version);
	struct vp_shape sh = vp_shape_strict(v.c);
	for (int c = 0; c < 3; c++) {
		if (m_conv_a[c] != sh.a[c] || m_conv_b[c] != sh.b[c])
			return 0;
		if (tuple[c] < 0 || (unsigned long) tuple[c] != vp_dec_mag(v.c, m_conv_a[c], m_conv_b[c]))
			return 0;
	}
	return 1;
}
/* the same for the language really accepted */
static int va_post_iff(const char *version, int ret)
{
	if (version == NULL)
		return ret != 0;
	struct vp_str v = vp_load(version);
	return (ret == 0) == (spec_accepted(v.c) != 0);
}
static int va_post_numbers(const char *version, int ret, const int *tuple)
{
	if (ret != 0)
		return 1;
	struct vp_str v = vp_load(version);
	struct vp_shape sh = vp_shape_actual(v.c);
	for (int c = 0; c < 3; c++) {
		if (m_conv_a[c] != sh.a[c] || m_conv_b[c] != sh.b[c])
			return 0;
		if (tuple[c] != vp_actual_value(v.c, m_conv_a[c], m_conv_b[c], sh.neg[c]))
			return 0;
	}
	return 1;
}

/* diagnostics counters: callee contracts that are also used for replacement tolerate
 * the few increments made by their callers (top level: DIAG_PRE, < 1e6) */
#define DIAG_PRE_MID  (g_diag < 2000000u && g_err < 2000000u && g_warn < 2000000u)
#define DIAG_PRE_LEAF (g_diag < 3000000u && g_err < 3000000u && g_warn < 3000000u)

#endif
