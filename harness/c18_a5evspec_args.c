/* C18 / C19 -- the signature side of ev_spec.c: parse_args (the tokenising loop) and parse_arg in a form that
 * parse_args can use as a replacement, for ARBITRARY NUL-terminated argument lists.
 *
 *   a5_parse_arg_any   the real parse_arg / parse_type on ANY token text, appended to a definition holding ANY
 *                      number 0..MAX_ARGS of arguments (symbolic index; the definition is a typed harness object)
 *   a5_parse_args      the real parse_args on ANY text, parse_arg / parse_type inline.  NOT CLOSED (tier observation):
 *                      no answer in 600 s (17 unwound iterations x two nondeterministic token boundaries); with
 *                      parse_arg replaced by its contract the solver runs out of memory (10 GB)
 *
 * What makes the text unbounded is the model of strtok_r (libc, outside the unit; CBMC ships no body): it has NO
 * LOOP.  It chooses the token [a, e) nondeterministically and assumes what POSIX.1-2008 says about the result:
 * a is at or behind the start, the character at a is no delimiter, the character at e is a delimiter or the
 * terminator, and -- arbitrary-observer idiom, one ghost position g_p instead of a quantifier -- a skipped
 * character at g_p is a delimiter, a token character at g_p is neither a delimiter nor NUL.  Everything assumed
 * holds for the token the real strtok_r returns, so the real run is one of the model's runs.  The token
 * boundaries are recorded in ghosts (g_tk); the contracts speak about "the n-th token" through them.
 * The loop of parse_args needs no bound on the text either: every accepted token appends an argument and
 * parse_arg refuses the seventeenth, so 17 iterations are all there can be (unwinding assertion).
 *
 * Trusted stubs: strtok_r (above); snprintf "%s" into the 64-byte name: ISO C result = length of the token (taken
 * from the strtok model: a token contains no NUL), min(len, 63) characters written -- the observed cell g_j
 * copied, the others arbitrary -- and a terminator; strcmp: CBMC library model; isgraph/isalnum: C locale.
 */
#include "prelude.h"

#undef isgraph
#define isgraph(c) ((c) > 0x20 && (c) < 0x7f)
#undef isalnum
#define isalnum(c) (((c) >= '0' && (c) <= '9') || ((c) >= 'a' && (c) <= 'z') || ((c) >= 'A' && (c) <= 'Z'))

#define A5_MAXLEN 0x7fffffffL
#define A5_OFF(p) ((long) __CPROVER_POINTER_OFFSET(p))

/* ---- the text being split: a ghost pointer to its first byte, set by the harness functions ---- */
char *g_str;
#define A5_SLEN ((long) (__CPROVER_OBJECT_SIZE(g_str) - 1))      /* position of the final NUL of the object */
long g_p;           /* the observer: an arbitrary position of the text, never assigned */
int g_j;            /* the observer: an arbitrary cell of an argument name, never assigned */

/* ---- strtok_r, POSIX.1-2008, without a loop ---- */
#define A5_TKN 2    /* calls recorded one by one: the two of parse_arg */
int g_kt;           /* the observer: an arbitrary number of a token of parse_args (= index of the argument it declares) */
struct a5_tklog {
	unsigned calls;
	long from[A5_TKN], a[A5_TKN], e[A5_TKN]; int none[A5_TKN], cut[A5_TKN];   /* start of the scan, token [a, e), no token, NUL written at e */
	char d0[A5_TKN], d1[A5_TKN];                                 /* the delimiters */
	long last_a, last_e; int last_none;                           /* the most recent call */
	/* calls with two delimiters (parse_args' own, "outer") and, for outer call number g_kt, the calls with one
	 * delimiter that follow it (parse_arg's: [0] the type word, [1] the name word) */
	unsigned outer, inner_since;
	long first_from; char first_d0, first_d1;
	long ofrom, oa, oe; int onone, ocut; char od0, od1; long prev_e; int prev_cut;
	unsigned icalls; long ifrom[2], ia[2], ie[2]; int inone[2], icut[2]; char id0[2], id1[2];
} g_tk;
#define A5_ISDELIM(c, d0, d1) ((c) == (d0) || ((d1) != '\0' && (c) == (d1)))
char *strtok_r(char *s, const char *delim, char **save)
{
	char d0 = delim[0];
	char d1 = (d0 == '\0') ? '\0' : delim[1];
	__CPROVER_assert(d0 != '\0' && (d1 == '\0' || delim[2] == '\0'), "strtok_r model: one or two delimiters");
	const char *from = (s != NULL) ? s : *save;
	__CPROVER_assert(__CPROVER_same_object(from, g_str) && A5_OFF(g_str) == 0 && A5_OFF(from) <= A5_SLEN, "strtok_r model: called on the text, not behind its terminator");
	__CPROVER_assert(g_str[A5_SLEN] == '\0', "strtok_r model: the text ends with NUL");
	long p = A5_OFF(from);
	/* the token starts at the first character at or behind p that is no delimiter (or there is none: NUL) */
	long a = nondet_long();
	__CPROVER_assume(p <= a && a <= A5_SLEN);
	char ca = g_str[a];
	__CPROVER_assume(!A5_ISDELIM(ca, d0, d1));
	if (p <= g_p && g_p < a)
		__CPROVER_assume(A5_ISDELIM(g_str[g_p], d0, d1));
	long e = a;
	int cut = 0;
	if (ca != '\0') {
		/* and ends in front of the next delimiter or NUL */
		e = nondet_long();
		__CPROVER_assume(a < e && e <= A5_SLEN);
		char ce = g_str[e];
		__CPROVER_assume(ce == '\0' || A5_ISDELIM(ce, d0, d1));
		if (a <= g_p && g_p < e)
			__CPROVER_assume(g_str[g_p] != '\0' && !A5_ISDELIM(g_str[g_p], d0, d1));
		if (ce != '\0') {
			cut = 1;
			g_str[e] = '\0';
			*save = g_str + e + 1;
		} else {
			*save = g_str + e;
		}
	} else {
		*save = g_str + a;
	}
	unsigned k = g_tk.calls;
	if (k < A5_TKN) {
		g_tk.from[k] = p; g_tk.a[k] = a; g_tk.e[k] = e; g_tk.none[k] = (ca == '\0'); g_tk.cut[k] = cut; g_tk.d0[k] = d0; g_tk.d1[k] = d1;
	}
	if (k == 0) {
		g_tk.first_from = p; g_tk.first_d0 = d0; g_tk.first_d1 = d1;
	}
	if (d1 != '\0') {
		if (g_kt >= 0 && g_tk.outer == (unsigned) g_kt) {
			g_tk.ofrom = p; g_tk.oa = a; g_tk.oe = e; g_tk.onone = (ca == '\0'); g_tk.ocut = cut; g_tk.od0 = d0; g_tk.od1 = d1;
			g_tk.icalls = 0;
		}
		if (g_kt >= 1 && g_tk.outer + 1 == (unsigned) g_kt) {
			g_tk.prev_e = e; g_tk.prev_cut = cut;
		}
		if (g_tk.outer < 1000)
			g_tk.outer++;
		g_tk.inner_since = 0;
	} else {
		if (g_kt >= 0 && g_tk.outer == (unsigned) g_kt + 1 && g_tk.inner_since < 2) {
			unsigned q = g_tk.inner_since;
			g_tk.ifrom[q] = p; g_tk.ia[q] = a; g_tk.ie[q] = e; g_tk.inone[q] = (ca == '\0'); g_tk.icut[q] = cut; g_tk.id0[q] = d0; g_tk.id1[q] = d1;
			g_tk.icalls = q + 1;
		}
		if (g_tk.inner_since < 1000)
			g_tk.inner_since++;
	}
	g_tk.last_a = a; g_tk.last_e = e; g_tk.last_none = (ca == '\0');
	if (g_tk.calls < 1000)
		g_tk.calls++;
	return ca == '\0' ? NULL : g_str + a;
}

/* snprintf(s, 64, "%s", token): see the head of the file.  The destination is the name of an argument of the harness
 * definition; it is written through the TYPED path h_spec.args[q].name[i] (written through the char pointer, every
 * character is a byte update of the 1.7 KB definition at a symbolic offset, field sensitivity is lost for the whole
 * object and symbolic execution does not finish: measured). */
#include "ev_spec.h"
struct ev_spec h_spec;      /* typed harness object */
static int a5_snprintf_name(char *s, size_t n, const char *fmt, const char *src)
{
	__CPROVER_assert(fmt[0] == '%' && fmt[1] == 's' && fmt[2] == '\0', "snprintf model: a string is printed with %s");
	__CPROVER_assert(__CPROVER_same_object(src, g_str) && A5_OFF(src) == g_tk.last_a && !g_tk.last_none, "snprintf model: the string is the token strtok_r returned last");
	__CPROVER_assert(n == 64, "snprintf model: into an argument name");
	long len = g_tk.last_e - g_tk.last_a;
	long m = len < 63 ? len : 63;
	char obs = (g_j >= 0 && g_j < m) ? src[g_j] : '\0';
	int hit = 0;
	for (int q = 0; q < MAX_ARGS; q++) {
		if (s == h_spec.args[q].name) {
			hit = 1;
			char fresh[64];                       /* arbitrary */
			for (int i = 0; i < 64; i++)
				h_spec.args[q].name[i] = (i == m) ? '\0' : (i < m && i == g_j) ? obs : (i < m) ? fresh[i] : h_spec.args[q].name[i];
		}
	}
	__CPROVER_assert(hit, "snprintf model: the destination is the name of an argument of the harness definition");
	return len > 0x7fffffffL ? 0x7fffffff : (int) len;
}
/* the print path (run-time format): not part of these groups */
static int a5_snprintf_u(char *s, size_t n, const char *fmt, uint64_t a) { (void) fmt; (void) a; return verif_snprintf(s, n); }
static int a5_snprintf_i(char *s, size_t n, const char *fmt, int64_t a) { (void) fmt; (void) a; return verif_snprintf(s, n); }
static int a5_snprintf_p(char *s, size_t n, const char *fmt, const char *a) { (void) fmt; (void) a; return verif_snprintf(s, n); }
#undef snprintf
#define snprintf(s, n, fmt, a) _Generic(&(fmt), char (*)[3]: a5_snprintf_name, default: _Generic((a), \
	char *: a5_snprintf_p, const char *: a5_snprintf_p, \
	uint8_t: a5_snprintf_u, uint16_t: a5_snprintf_u, uint32_t: a5_snprintf_u, uint64_t: a5_snprintf_u, \
	default: a5_snprintf_i))((s), (n), (fmt), (a))

#include "ev_spec.c"         /* the real /repo/src/emu/ev_spec.c */

#define RET __CPROVER_return_value
#define OLD(e) __CPROVER_old(e)
#define IMPLIES(a, b) (!(a) || (b))
#define A5_SIZE_OF_TYPE(t) ((t) == U8 || (t) == I8 ? 1u : (t) == U16 || (t) == I16 ? 2u : (t) == U32 || (t) == I32 ? 4u : \
	(t) == U64 || (t) == I64 ? 8u : 0u)
#define A5_MAXPAYLOAD (4 + 8 * MAX_ARGS)

/* specification functions: no pointer / bounds checks (see harness/c18_a5evspec_fmt.c) */
#define A5_SPEC_BEGIN _Pragma("CPROVER check push") _Pragma("CPROVER check disable \"pointer\"") \
	_Pragma("CPROVER check disable \"bounds\"") _Pragma("CPROVER check disable \"pointer-overflow\"") \
	_Pragma("CPROVER check disable \"pointer-primitive\"")
#define A5_SPEC_END _Pragma("CPROVER check pop")

/* the text: an object whose last byte is NUL (so every scan ends inside it), named by g_str */
#define A5_TEXT_PRE(p) (__CPROVER_rw_ok(g_str, 1) && A5_OFF(g_str) == 0 && A5_SLEN <= A5_MAXLEN && __CPROVER_rw_ok(g_str, (size_t) A5_SLEN + 1) && \
	g_str[A5_SLEN] == '\0' && __CPROVER_same_object((p), g_str) && A5_OFF(p) <= A5_SLEN)

/* ====================================================================================
 * parse_arg on any token, any number of arguments declared so far
 * ==================================================================================== */
A5_SPEC_BEGIN
/* the word at position a of the text (terminated: strtok_r has cut it) is the name of type t; -1: of no type */
static int a5_type_of_word(long a)
{
	char c0 = g_str[a];
	char c1 = c0 == '\0' ? '\0' : g_str[a + 1];
	char c2 = c1 == '\0' ? '\0' : g_str[a + 2];
	char c3 = c2 == '\0' ? '\0' : g_str[a + 3];
	if (c0 == 'u' && c1 == '8' && c2 == '\0') return U8;
	if (c0 == 'i' && c1 == '8' && c2 == '\0') return I8;
	if (c3 != '\0') return -1;
	if (c0 == 'u' && c1 == '1' && c2 == '6') return U16;
	if (c0 == 'u' && c1 == '3' && c2 == '2') return U32;
	if (c0 == 'u' && c1 == '6' && c2 == '4') return U64;
	if (c0 == 'i' && c1 == '1' && c2 == '6') return I16;
	if (c0 == 'i' && c1 == '3' && c2 == '2') return I32;
	if (c0 == 'i' && c1 == '6' && c2 == '4') return I64;
	if (c0 == 's' && c1 == 't' && c2 == 'r') return STR;
	return -1;
}
/* The whole postcondition of parse_arg; 0, or the number of the clause that does not hold.
 * tk0 = number of strtok_r calls before (the two calls of parse_arg are g_tk.*[tk0], g_tk.*[tk0 + 1]). */
static int a5_pa_post(int ret, const struct ev_spec *spec, const char *arg, int n0, unsigned long ps0,
	unsigned err0, unsigned err1, unsigned tk0)
{
	if (!(ret == 0 || ret == -1))
		return 1;
	/* a full definition takes no more arguments, and is not touched */
	if (n0 >= MAX_ARGS && !(ret == -1 && g_tk.calls == tk0))
		return 2;
	if (ret != 0) {
		/* refused: the definition does not grow; diagnosed */
		if (!(spec->nargs == n0 && spec->payload_size == ps0 && err1 > err0 && err1 - err0 <= 3))
			return 3;
	} else {
		/* accepted: exactly one argument appended at the end of the payload declared so far */
		if (!(n0 < MAX_ARGS && spec->nargs == n0 + 1 && err1 == err0))
			return 4;
		const struct ev_arg *a = &spec->args[n0];
		if (!(a->offset == ps0 && (unsigned) a->type < MAX_TYPE && a->size == A5_SIZE_OF_TYPE(a->type) && spec->payload_size == ps0 + a->size))
			return 5;
	}
	if (n0 < MAX_ARGS && tk0 == 0) {
		/* the text level, through the recorded tokens: the first blank-separated word is the type, the second the name */
		if (!(g_tk.calls >= 1 && g_tk.from[0] == A5_OFF(arg) && g_tk.d0[0] == ' ' && g_tk.d1[0] == '\0'))
			return 7;
		int have_type = !g_tk.none[0];
		int have_name = have_type && g_tk.calls == 2 && !g_tk.none[1];
		if (have_type && !(g_tk.calls == 2 && g_tk.d0[1] == ' ' && g_tk.d1[1] == '\0' && g_tk.from[1] == g_tk.e[0] + g_tk.cut[0]))
			return 8;
		long namelen = have_name ? g_tk.e[1] - g_tk.a[1] : 0;
		int t = have_type ? a5_type_of_word(g_tk.a[0]) : -1;
		/* accepted exactly for: a type word, a name word of at most 63 characters, the type word one of the nine names */
		int legal = have_name && namelen <= 63 && t >= 0;
		if ((ret == 0) != (legal != 0))
			return 9;
		if (ret == 0) {
			const struct ev_arg *a = &spec->args[n0];
			if ((int) a->type != t)
				return 10;
			/* the name: as long as the word, the observed cell copied */
			if (a->name[namelen] != '\0')
				return 11;
			if (g_j >= 0 && g_j < namelen && a->name[g_j] != g_str[g_tk.a[1] + g_j])
				return 12;
		}
	}
	return 0;
}
A5_SPEC_END
int c_parse_arg(struct ev_spec *spec, char *arg)
__CPROVER_requires(__CPROVER_rw_ok(spec, sizeof(*spec)) && spec->nargs >= 0 && spec->nargs <= MAX_ARGS && spec->payload_size <= A5_MAXPAYLOAD)
__CPROVER_requires(A5_TEXT_PRE(arg) && DIAG_PRE && g_tk.calls <= 100)
__CPROVER_assigns(spec->nargs, spec->payload_size, DIAG_FRAME, g_tk, __CPROVER_object_from(arg))
__CPROVER_assigns(spec->nargs < MAX_ARGS: spec->args[spec->nargs])
__CPROVER_ensures(a5_pa_post(RET, spec, arg, OLD(spec->nargs), OLD(spec->payload_size), OLD(g_err), g_err, OLD(g_tk.calls)) == 0)
__CPROVER_ensures(g_diag - OLD(g_diag) <= 3 && g_warn == OLD(g_warn) && g_tk.calls >= OLD(g_tk.calls) && g_tk.calls - OLD(g_tk.calls) <= 2)
/* the text still ends with NUL */
__CPROVER_ensures(g_str[A5_SLEN] == '\0')
;
void h_parse_arg(void)
{
	long len = nondet_long();
	__CPROVER_assume(len >= 0 && len <= A5_MAXLEN);
	char *str = malloc((size_t) len + 1);
	__CPROVER_assume(str != NULL);
	g_str = str;
	long off = nondet_long();
	__CPROVER_assume(off >= 0 && off <= len);
	g_tk.calls = 0; g_tk.outer = 0; g_kt = -1;
	int n0 = h_spec.nargs;
	int r = parse_arg(&h_spec, str + off);
	if (r == 0 && n0 == 0) REACH("first argument accepted");
	if (r == 0 && n0 == 15 && h_spec.args[15].type == STR) REACH("sixteenth argument, a string, accepted");
	if (r == 0 && h_spec.args[n0].type == I64 && g_tk.a[0] > off + 3) REACH("i64 after leading blanks accepted");
	if (r == 0 && g_tk.e[1] - g_tk.a[1] == 63) REACH("name of 63 characters accepted");
	if (r != 0 && n0 < MAX_ARGS && g_tk.calls == 2 && !g_tk.none[1] && g_tk.e[1] - g_tk.a[1] == 64) REACH("name of 64 characters refused");
	if (r != 0 && n0 == MAX_ARGS) REACH("seventeenth argument refused");
	if (r != 0 && n0 < MAX_ARGS && g_tk.calls == 2 && g_tk.none[1]) REACH("type without a name refused");
	if (r != 0 && n0 < MAX_ARGS && g_tk.calls == 1) REACH("blank token refused");
	if (r != 0 && n0 < MAX_ARGS && g_tk.calls == 2 && !g_tk.none[1] && g_tk.e[1] - g_tk.a[1] == 1) REACH("unknown type refused");
}

/* ====================================================================================
 * parse_args: the loop over the tokens of "(type name, type name, ...)", parse_arg and parse_type inline
 * (with parse_arg replaced by its contract the solver runs out of memory: 17 havocs of a symbolic cell of the
 * definition and of a symbolic-size tail of the text).  The definition is empty at the start, as ev_spec_compile
 * hands it over (memset), so the argument index is a constant in every iteration.
 * ==================================================================================== */
int g_k;            /* (unused here) */
A5_SPEC_BEGIN
/* returns 0, or the number of the clause that does not hold.  K = g_kt: the observed token / argument. */
static int a5_pas_post(int ret, const struct ev_spec *spec, const char *paren, unsigned err0, unsigned err1)
{
	unsigned long base = spec->is_jumbo ? 4 : 0;
	int n = spec->nargs;
	int K = g_kt;
	if (!(ret == 0 || ret == -1))
		return 1;
	if (!(n >= 0 && n <= MAX_ARGS))
		return 2;
	/* strtok_r was started behind the parenthesis, with the delimiters ",)" */
	if (!(g_tk.outer >= 1 && g_tk.first_from == A5_OFF(paren) + 1 && g_tk.first_d0 == ',' && g_tk.first_d1 == ')'))
		return 3;
	/* accepted: the whole text was consumed (the last call found no token up to a terminator) and every token declared
	 * one argument; refused: the token number nargs is the one parse_arg refused, and it was diagnosed */
	if (ret == 0 && !(g_tk.last_none && g_tk.outer == (unsigned) n + 1 && err1 == err0))
		return 4;
	if (ret != 0 && !(g_tk.outer == (unsigned) n + 1 && err1 > err0))
		return 5;
	/* the payload: the arguments one behind the other from its start (4 bytes in: jumbo size) */
	if (spec->payload_size != (n > 0 ? spec->args[n - 1].offset + spec->args[n - 1].size : base))
		return 6;
	if (spec->payload_size > A5_MAXPAYLOAD)
		return 7;
	if (K < 0 || K > MAX_ARGS || (unsigned) K >= g_tk.outer)
		return 0;
	/* ---- the observed token K ---- */
	if (!(g_tk.od0 == ',' && g_tk.od1 == ')'))
		return 8;
	/* it continues where the token before ended */
	if (K >= 1 && g_tk.ofrom != g_tk.prev_e + g_tk.prev_cut)
		return 9;
	if (g_tk.onone) {
		/* no token K: the list ended with K arguments */
		if (!(ret == 0 && n == K))
			return 10;
		return 0;
	}
	/* parse_arg got it: its first word is the type, its second the name */
	int full = K >= MAX_ARGS;
	if (!full && !(g_tk.icalls >= 1 && g_tk.ifrom[0] == g_tk.oa && g_tk.id0[0] == ' ' && g_tk.id1[0] == '\0'))
		return 11;
	int have_type = !full && !g_tk.inone[0];
	if (have_type && !(g_tk.icalls == 2 && g_tk.id0[1] == ' ' && g_tk.id1[1] == '\0' && g_tk.ifrom[1] == g_tk.ie[0] + g_tk.icut[0]))
		return 12;
	int have_name = have_type && !g_tk.inone[1];
	long namelen = have_name ? g_tk.ie[1] - g_tk.ia[1] : 0;
	int t = have_type ? a5_type_of_word(g_tk.ia[0]) : -1;
	/* it declares argument K exactly when: fewer than MAX_ARGS before it, a type word that is one of the nine names, a
	 * name word of at most 63 characters */
	int legal = !full && have_name && namelen <= 63 && t >= 0;
	if ((K < n) != (legal != 0))
		return 13;
	if (!legal && !(ret != 0 && n == K))
		return 14;
	if (legal) {
		const struct ev_arg *a = &spec->args[K];
		if (!((int) a->type == t && a->size == A5_SIZE_OF_TYPE(a->type)))
			return 15;
		if (a->offset != (K == 0 ? base : spec->args[K - 1].offset + spec->args[K - 1].size))
			return 16;
		if (a->name[namelen] != '\0')
			return 17;
		if (g_j >= 0 && g_j < namelen && a->name[g_j] != g_str[g_tk.ia[1] + g_j])
			return 18;
	}
	return 0;
}
A5_SPEC_END
int c_parse_args(struct ev_spec *spec, char *paren)
__CPROVER_requires(__CPROVER_rw_ok(spec, sizeof(*spec)) && spec->nargs == 0)
/* paren stands on a character of the text that is not its terminator (parse_signature: the '(') */
__CPROVER_requires(A5_TEXT_PRE(paren) && A5_OFF(paren) < A5_SLEN && DIAG_PRE && g_tk.calls == 0 && g_tk.outer == 0)
__CPROVER_assigns(spec->nargs, spec->payload_size, DIAG_FRAME, g_tk, __CPROVER_object_from(paren), spec->args)
__CPROVER_ensures(a5_pas_post(RET, spec, paren, OLD(g_err), g_err) == 0)
__CPROVER_ensures(g_str[A5_SLEN] == '\0')
;
void h_parse_args(void)
{
	long len = nondet_long();
	__CPROVER_assume(len >= 1 && len <= A5_MAXLEN);
	char *str = malloc((size_t) len + 1);
	__CPROVER_assume(str != NULL);
	g_str = str;
	long off = nondet_long();
	__CPROVER_assume(off >= 0 && off < len);
	g_tk.calls = 0; g_tk.outer = 0;
	h_spec.nargs = 0;
	int r = parse_args(&h_spec, str + off);
	if (r == 0 && h_spec.nargs == 0) REACH("no token at all: accepted with no argument");
	if (r == 0 && h_spec.nargs == MAX_ARGS && h_spec.is_jumbo && h_spec.payload_size == 4 + 8 * MAX_ARGS) REACH("sixteen 8-byte arguments of a jumbo event accepted");
	if (r != 0 && g_tk.outer == MAX_ARGS + 1) REACH("seventeenth argument refused");
	if (r != 0 && g_tk.outer == 2) REACH("second argument refused");
	if (r == 0 && h_spec.nargs == 2 && len > 100000) REACH("two arguments out of a very long text");
}
