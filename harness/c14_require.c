/* C14 -- ovni_thread_require(model, version) of the real src/rt/ovni.c: "malformed version strings are
 * refused".  version_parse replaced by a recording contract, the libc string functions stubbed: the version
 * is handed to version_parse exactly once and the call returns ONLY if the parser accepted it and the
 * requirement was stored; conversely a version the parser accepts is not a reason to give up (die() right
 * after a successful parse, before anything else was attempted, is an error).  version_parse itself is the
 * subject of the version_parse* groups; here it is a recording stand-in with an arbitrary verdict. */
unsigned g_vp_calls; int g_vp_ret; const char *g_vp_arg; unsigned g_after_parse;
static void c14r_die_hook(void)
{
	__CPROVER_assert(!(g_vp_calls == 1 && g_vp_ret == 0 && g_after_parse == 0),
		"ovni_thread_require does not give up on a version the parser accepted");
}
#define VERIF_DIE_HOOK c14r_die_hook()
#include "rt_common.h"
#include "rt_parson_stub.h"
/* the first thing attempted after the version check */
#define json_value_get_object(v) (g_after_parse++, json_value_get_object(v))
/* libc string functions without a CBMC body / with loops: pure, arbitrary results */
char *strpbrk(const char *s, const char *accept) { (void) accept; return nondet_bool() ? NULL : (char *) s; }
static size_t c14r_strlen(const char *s) { (void) s; return nondet_size_t(); }
#define strlen(s) c14r_strlen(s)
#include "ovni.c"
#undef strlen
#undef json_value_get_object

/* recording contract that replaces the calls to version_parse (version.h) */
int crr_version_parse(const char *version, int tuple[3])
__CPROVER_requires(g_vp_calls < 1000u)
__CPROVER_assigns(__CPROVER_object_upto(tuple, 3 * sizeof(int)), g_vp_calls, g_vp_ret, g_vp_arg)
__CPROVER_ensures(g_vp_calls == __CPROVER_old(g_vp_calls) + 1 && g_vp_arg == version)
__CPROVER_ensures((__CPROVER_return_value == 0 || __CPROVER_return_value == -1) && g_vp_ret == __CPROVER_return_value)
;
void c_thread_require(const char *model, const char *version)
__CPROVER_requires(__CPROVER_is_fresh(model, 8))
__CPROVER_requires(__CPROVER_is_fresh(version, 8))
__CPROVER_requires(model[7] == 0 && version[7] == 0)
__CPROVER_requires(g_vp_calls == 0 && g_after_parse == 0 && g_parson_failed == 0 && DIAG_PRE)
__CPROVER_assigns(g_vp_calls, g_vp_ret, g_vp_arg, g_after_parse, g_died, DIAG_FRAME, g_keys, g_v_loom, g_part_is_thread, g_parson_failed)
/* the version string was handed to version_parse exactly once; the call returns only for a version the
 * parser accepted, and only if the requirement was stored */
__CPROVER_ensures(g_vp_calls == 1 && g_vp_arg == version && g_vp_ret == 0 && !g_parson_failed)
__CPROVER_ensures(rthread.ready && model != NULL && version != NULL)
;
void h_thread_require(void)
{
	const char *model, *version;
	ovni_thread_require(model, version);
	REACH("ovni_thread_require returns");
}
