/* C17 -- mark API, emulator side: exact contracts on the real src/emu/ovni/mark.c
 *   mark_event, create_mark_type, parse_mark, add_label (this file)
 * (tracking modes / PRV / PCF wiring: c17_wire.c; runtime: c17_rt.c) */
#include "c17_mark.h"
#include "parson.h"
#include "extend.c"          /* real extend_get (EXT macro) */
#include "ovni/mark.c"       /* the real /repo/src/emu/ovni/mark.c */

_Static_assert(PRV_OVNI_MARK == 100, "statement: Paraver type 100 + mark type");
_Static_assert(sizeof(union ovni_ev_payload) == 16, "payload union is 16 bytes");

/* =====================================================================================
 * Channel layer (chan.c is outside the unit; its exact contracts are proved in C08).
 * Abstract model of THE channel the event addresses: its type g_ch_type and, for a stack,
 * its innermost open value (g_ch_top_t, g_ch_top_i; null when nothing is open).  The stubs
 * refuse what C08's c_chan_push/c_chan_pop/c_chan_set refuse for certain (wrong channel
 * type; pop of a value different from the top), may refuse anything else (dirty channel,
 * full stack, callback failure), and log (operation, channel, value).
 * ===================================================================================== */
enum { OP_SET = 1, OP_PUSH = 2, OP_POP = 3 };
struct c17_oplog { unsigned n; int kind; struct chan *chan; int64_t vt, vi; int ret; } g_op;
int g_ch_type;                   /* abstract: type of the addressed channel */
int64_t g_ch_top_t, g_ch_top_i;  /* abstract: its top (stack) */
static int c17_chan_op(int kind, struct chan *c, struct value v, int must_fail)
{
	g_op.n++; g_op.kind = kind; g_op.chan = c; g_op.vt = v.type; g_op.vi = v.i;
	int r = 0;
	if (must_fail || nondet_bool()) { verif_err(); r = -1; }
	g_op.ret = r;
	return r;
}
int chan_push(struct chan *c, struct value v) { return c17_chan_op(OP_PUSH, c, v, g_ch_type != CHAN_STACK); }
int chan_pop(struct chan *c, struct value v) { return c17_chan_op(OP_POP, c, v, g_ch_type != CHAN_STACK || g_ch_top_t != v.type || g_ch_top_i != v.i); }
int chan_set(struct chan *c, struct value v) { return c17_chan_op(OP_SET, c, v, g_ch_type != CHAN_SINGLE); }

/* =====================================================================================
 * find_mark_type: ASSUMED one-cell map contract (uthash HASH_FIND is not verified).
 * The type table of g_fm_m is observed at key g_mt_key; its value there is g_mt (NULL =
 * type not defined).  The requires is asserted at every call site: callers are proved to
 * look up exactly the observed key in exactly that table.
 * ===================================================================================== */
struct ovni_mark_emu *g_fm_m;
long g_mt_key;
struct mark_type *g_mt;
unsigned g_find_calls;
struct mark_type *ca_find_mark_type(struct ovni_mark_emu *m, long type)
__CPROVER_requires(m == g_fm_m && type == g_mt_key)
__CPROVER_assigns(g_find_calls)
__CPROVER_ensures(g_find_calls == OLD(g_find_calls) + 1)
__CPROVER_ensures(__CPROVER_pointer_equals(RV, g_mt))
;

/* =====================================================================================
 * 1. mark_event
 * ===================================================================================== */
#define OEMU(emu) ((struct ovni_emu *) (emu)->ext.ctx['O'])
#define OTH(emu) ((struct ovni_thread *) (emu)->thread->ext.ctx['O'])
#define PL_I32(ev, k) (*(const int32_t *) ((const uint8_t *) (ev)->payload + 4 * (k)))
#define PL_I64(ev, k) (*(const int64_t *) ((const uint8_t *) (ev)->payload + 8 * (k)))
/* one channel per mark type in every thread (mark_create: nchannels = ntypes); bounded so
 * that the table's byte size is representable (struct chan is 8768 bytes) */
#define C17_MAX_TYPES (1L << 30)

unsigned w_v; unsigned long w_psize; long long w_value; int w_type; int w_defined; long w_index;
int w_ch_type; long long w_top_t, w_top_i;
struct chan *g_channels; long g_ntypes, g_index;
int g_wellformed;   /* 12-byte payload, defined type, non-zero value, one of [ ] = */
WITNESS(mark_event);

int c_mark_event(struct emu *emu)
__CPROVER_requires(__CPROVER_is_fresh(emu, sizeof(*emu)) && DIAG_PRE && g_find_calls == 0 && g_op.n == 0)
__CPROVER_requires(__CPROVER_is_fresh(emu->ev, sizeof(struct emu_ev)))
/* decoded event view (emu_ev, C19): payload NULL iff size 0; the object is at least the
 * 16-byte union (CBMC checks member reads against the whole union) */
__CPROVER_requires(emu->ev->payload_size <= 16 && emu->ev->payload_size != 1)
__CPROVER_requires((emu->ev->payload_size == 0 && emu->ev->payload == NULL) ||
	(emu->ev->payload_size != 0 && __CPROVER_is_fresh(emu->ev->payload, 16)))
__CPROVER_requires(__CPROVER_is_fresh(emu->ext.ctx['O'], sizeof(struct ovni_emu)))
__CPROVER_requires(__CPROVER_is_fresh(emu->thread, sizeof(struct thread)))
__CPROVER_requires(__CPROVER_is_fresh(emu->thread->ext.ctx['O'], sizeof(struct ovni_thread)))
/* mark_create: every thread has ntypes channels */
__CPROVER_requires(g_ntypes == OEMU(emu)->mark.ntypes && g_ntypes >= 0 && g_ntypes <= C17_MAX_TYPES &&
	OTH(emu)->mark.nchannels == g_ntypes)
__CPROVER_requires(g_ntypes == 0 || __CPROVER_is_fresh(OTH(emu)->mark.channels, (size_t) g_ntypes * sizeof(struct chan)))
__CPROVER_requires(g_channels == OTH(emu)->mark.channels)
/* the type table observed at the key carried by the event; table invariant: a registered
 * type has the key it is stored under and 0 <= index < ntypes (create_mark_type) */
__CPROVER_requires(g_fm_m == &OEMU(emu)->mark)
__CPROVER_requires(emu->ev->payload_size < 12 || g_mt_key == (long) PL_I32(emu->ev, 2))
__CPROVER_requires(g_mt == NULL || (__CPROVER_is_fresh(g_mt, sizeof(struct mark_type)) &&
	g_mt->type == g_mt_key && g_mt->index >= 0 && g_mt->index < g_ntypes && g_index == g_mt->index))
__CPROVER_requires(g_wellformed == (emu->ev->payload_size == 12 && g_mt != NULL && PL_I64(emu->ev, 0) != 0 &&
	(emu->ev->v == '[' || emu->ev->v == ']' || emu->ev->v == '=')))
__CPROVER_requires(WBIND(mark_event, w_v == emu->ev->v && w_psize == emu->ev->payload_size && w_defined == (g_mt != NULL) &&
	(emu->ev->payload_size < 12 || (w_value == PL_I64(emu->ev, 0) && w_type == PL_I32(emu->ev, 2))) &&
	(g_mt == NULL || w_index == g_mt->index) && w_ch_type == g_ch_type && w_top_t == g_ch_top_t && w_top_i == g_ch_top_i))
__CPROVER_assigns(g_find_calls, g_op, DIAG_FRAME)
__CPROVER_ensures(RV == 0 || RV == -1)
/* a channel operation is attempted exactly for well-formed mark events ... */
__CPROVER_ensures((g_op.n == 1) == (g_wellformed != 0) && g_op.n <= 1)
/* ... and the event is accepted exactly when that operation succeeds */
__CPROVER_ensures((RV == 0) == (g_wellformed && g_op.ret == 0))
/* which operation, on which channel, with which value */
__CPROVER_ensures(g_op.n == 0 || (
	g_op.kind == (emu->ev->v == '[' ? OP_PUSH : emu->ev->v == ']' ? OP_POP : OP_SET) &&
	g_op.chan == &g_channels[g_index] &&
	g_op.vt == VALUE_INT64 && g_op.vi == PL_I64(emu->ev, 0) && g_op.vi != 0))
/* the type looked up is the i32 at payload bytes 8..11 (requires of ca_find_mark_type,
 * asserted at the call site) and it is looked up only for 12-byte payloads */
__CPROVER_ensures(g_find_calls == (emu->ev->payload_size == 12 ? 1u : 0u))
/* a pop that does not match the innermost open value, push/pop on a single channel and
 * set on a stack channel are refused (by the channel layer) */
__CPROVER_ensures(!(emu->ev->v == ']' && g_wellformed && (g_ch_top_t != VALUE_INT64 || g_ch_top_i != PL_I64(emu->ev, 0))) || RV == -1)
__CPROVER_ensures(!(emu->ev->v != '=' && g_wellformed && g_ch_type != CHAN_STACK) || RV == -1)
__CPROVER_ensures(!(emu->ev->v == '=' && g_wellformed && g_ch_type != CHAN_SINGLE) || RV == -1)
__CPROVER_ensures(RV == 0 || g_err > OLD(g_err))
;

void h_mark_event(void)
{
	struct emu *emu;
	WITNESS_ON(mark_event);
	int r = mark_event(emu);
	if (r == 0 && w_v == '[') REACH("mark push accepted");
	if (r == 0 && w_v == ']') REACH("mark pop accepted");
	if (r == 0 && w_v == '=') REACH("mark set accepted");
	if (r == 0 && w_index == 3) REACH("accepted on the channel of index 3");
	if (r == 0 && w_value < 0) REACH("negative value accepted");
	if (r != 0 && w_psize == 8) REACH("8-byte payload refused");
	if (r != 0 && w_psize == 16) REACH("16-byte payload refused");
	if (r != 0 && w_psize == 12 && !w_defined) REACH("undefined type refused");
	if (r != 0 && w_psize == 12 && w_defined && w_value == 0) REACH("zero value refused");
	if (r != 0 && w_psize == 12 && w_defined && w_value != 0 && w_v == 'x') REACH("unknown mark event refused");
	if (r != 0 && g_wellformed && w_v == ']' && w_ch_type == CHAN_STACK && w_top_t == VALUE_INT64 && w_top_i != w_value) REACH("mismatched pop refused");
	if (r != 0 && g_wellformed && w_v == ']' && w_ch_type == CHAN_STACK && w_top_t == VALUE_INT64 && w_top_i == w_value) REACH("matching pop refused by the channel layer (dirty)");
}

/* =====================================================================================
 * 2a. create_mark_type: a new type gets Paraver type 100 + type, the next free index
 *     (0, 1, 2, ... in definition order), the given channel type; a type that is
 *     already defined is refused.
 * ===================================================================================== */
/* strings: C17_SMAX bytes including the NUL (C17_STR groups, kind "bounded") */
#ifndef C17_SMAX
#define C17_SMAX 9
#endif
#ifdef C17_STR
#define STR_OK(s) (__CPROVER_is_fresh((s), C17_SMAX) && (s)[C17_SMAX - 1] == '\0')
/* stored strings (char[MAX_PCF_LABEL] members) */
#define STORED_OK(a) ((a)[C17_SMAX - 1] == '\0')
static int spec_str_eq(const char *a, const char *b)
{
	for (int k = 0; k < C17_SMAX; k++) {
		if (a[k] != b[k]) return 0;
		if (a[k] == '\0') return 1;
	}
	return 1;
}
#define STR_SAME(stored, given) spec_str_eq((stored), (given))
#define CSTR_OK(s) STR_OK(s)
#define CMP_PRE 1
#define CMP_ASKED(cond, stored, given) 1
#else
/* unbounded groups: the given title/label is never read (snprintf formatting is dropped by the
 * prelude, non-literal strcmp is an oracle); chan_type is a string of any length */
#define STR_OK(s) ((s) != NULL)
#define STORED_OK(a) 1
#define spec_str_eq(a, b) 1
unsigned long g_cslen;
#define CSTR_OK(s) (g_cslen < (1UL << 20) && __CPROVER_is_fresh((s), g_cslen + 1) && (s)[g_cslen] == '\0')
#ifdef C17_ORACLE
#define STR_SAME(stored, given) (g_cmp_result == 0)
#define CMP_PRE (g_cmp.n == 0)
/* the oracle was asked exactly once, about (stored, given), iff cond */
#define CMP_ASKED(cond, stored, given) ((cond) ? (g_cmp.n == 1 && g_cmp.a == (const char *) (stored) && g_cmp.b == (const char *) (given)) : g_cmp.n == 0)
#else
#define STR_SAME(stored, given) 1
#define CMP_PRE 1
#define CMP_ASKED(cond, stored, given) 1
#endif
#endif

long w_ntypes; int w_ctype;
WITNESS(create_mark_type);
#define HL_TYPE ((struct mark_type *) g_hl.item)

struct mark_type *c_create_mark_type(struct ovni_mark_emu *m, long type, enum chan_type ctype, const char *title)
__CPROVER_requires(__CPROVER_is_fresh(m, sizeof(*m)) && m == g_fm_m && type == g_mt_key)
/* callers (parse_mark) guarantee the documented range; proved there */
__CPROVER_requires(type >= 0 && type < 100)
__CPROVER_requires(m->ntypes >= 0 && m->ntypes < C17_MAX_TYPES)
__CPROVER_requires(STR_OK(title) && DIAG_PRE && LOW_PRE && HLOG_PRE && g_find_calls == 0)
__CPROVER_requires(g_mt == NULL || __CPROVER_is_fresh(g_mt, sizeof(struct mark_type)))
__CPROVER_requires(WBIND(create_mark_type, w_type == (int) type && w_ntypes == m->ntypes && w_ctype == (int) ctype && w_defined == (g_mt != NULL)))
__CPROVER_assigns(m->types, m->ntypes, g_find_calls, HLOG_FRAME, CALLOC_FRAME, DIAG_FRAME)
/* created exactly when the type is not yet defined and no lower layer (calloc, title
 * longer than a PCF label) failed */
__CPROVER_ensures((RV != NULL) == (g_mt == NULL && g_lowfail == OLD(g_lowfail)))
__CPROVER_ensures(RV == NULL || (__CPROVER_is_fresh(RV, sizeof(struct mark_type))))
__CPROVER_ensures(RV == NULL || (
	RV->type == type && RV->ctype == ctype && RV->labels == NULL &&
	RV->prvtype == 100 + type &&                       /* statement: "Paraver type 100 + mark type" */
	RV->index == OLD(m->ntypes) && m->ntypes == OLD(m->ntypes) + 1 &&
	spec_str_eq(RV->title, title)))
/* inserted in the table under its type */
__CPROVER_ensures(RV == NULL || (g_hl.n == OLD(g_hl.n) + 1 && g_hl.head == (void *) &m->types && g_hl.item == (void *) RV &&
	g_hl.key == type && g_hl.keylen == sizeof(long) &&
	(OLD(m->types) == NULL ? m->types == RV : m->types == OLD(m->types))))
__CPROVER_ensures(RV != NULL || (m->ntypes == OLD(m->ntypes) && m->types == OLD(m->types) && g_hl.n == OLD(g_hl.n) && g_err > OLD(g_err)))
;

void h_create_mark_type(void)
{
	struct ovni_mark_emu *m; long type; enum chan_type ctype; const char *title;
	WITNESS_ON(create_mark_type);
	unsigned lf0 = g_lowfail;
	struct mark_type *t = create_mark_type(m, type, ctype, title);
	if (t != NULL) REACH("type created");
	if (t != NULL && w_type == 99 && w_ntypes == 0) REACH("type 99 created as the first type");
	if (t != NULL && w_type == 0 && w_ntypes == 5 && w_ctype == CHAN_STACK) REACH("type 0 created as the sixth type, stack");
	if (t == NULL && w_defined) REACH("redefinition refused");
	if (t == NULL && !w_defined) REACH("refused by a lower layer");
}

/* =====================================================================================
 * 2b. add_label: a value that already has a label is accepted iff the label is the same
 *     (definitions by different threads merge when they agree); a new value is added.
 * ===================================================================================== */
struct mark_type *g_fl_t; int64_t g_fl_key; struct mark_label *g_fl;
unsigned g_findl_calls;
struct mark_label *ca_find_label(struct mark_type *t, int64_t value)
__CPROVER_requires(t == g_fl_t && value == g_fl_key)
__CPROVER_assigns(g_findl_calls)
__CPROVER_ensures(g_findl_calls == OLD(g_findl_calls) + 1)
__CPROVER_ensures(__CPROVER_pointer_equals(RV, g_fl))
;
#define HL_LABEL ((struct mark_label *) g_hl.item)
int g_same; long long w_lvalue; char w_old[C17_SMAX], w_new[C17_SMAX];
WITNESS(add_label);
#ifdef C17_STR
#define W_STR(w, s) ((w)[0] == (s)[0] && (w)[1] == (s)[1] && (w)[2] == (s)[2] && (w)[3] == (s)[3] && (w)[C17_SMAX - 1] == (s)[C17_SMAX - 1])
#else
#define W_STR(w, s) 1
#endif

int c_add_label(struct mark_type *t, int64_t value, const char *label)
__CPROVER_requires(__CPROVER_is_fresh(t, sizeof(*t)) && t == g_fl_t && value == g_fl_key && STR_OK(label))
__CPROVER_requires(g_fl == NULL || (__CPROVER_is_fresh(g_fl, sizeof(struct mark_label)) && g_fl->value == value && STORED_OK(g_fl->label)))
__CPROVER_requires(g_fl == NULL || g_same == STR_SAME(g_fl->label, label))
__CPROVER_requires(DIAG_PRE && LOW_PRE && HLOG_PRE && g_findl_calls == 0 && CMP_PRE)
__CPROVER_requires(WBIND(add_label, w_defined == (g_fl != NULL) && w_lvalue == value && W_STR(w_new, label) && (g_fl == NULL || W_STR(w_old, g_fl->label))))
__CPROVER_assigns(t->labels, g_findl_calls, HLOG_FRAME, CALLOC_FRAME, DIAG_FRAME CMP_FRAME)
__CPROVER_ensures(RV == 0 || RV == -1)
/* value already labelled: accepted iff the labels agree, and nothing is added */
__CPROVER_ensures(g_fl == NULL || ((RV == 0) == (g_same != 0) && g_hl.n == OLD(g_hl.n) && t->labels == OLD(t->labels) && g_lowfail == OLD(g_lowfail)))
__CPROVER_ensures(CMP_ASKED(g_fl != NULL, g_fl->label, label))
/* new value: added (unless calloc fails / label longer than a PCF label) with that value and label */
__CPROVER_ensures(g_fl != NULL || (RV == 0) == (g_lowfail == OLD(g_lowfail)))
__CPROVER_ensures(g_fl != NULL || RV != 0 || (g_hl.n == OLD(g_hl.n) + 1 && g_hl.head == (void *) &t->labels &&
	g_hl.key == value && g_hl.keylen == sizeof(int64_t) &&
	__CPROVER_is_fresh(HL_LABEL, sizeof(struct mark_label)) && HL_LABEL->value == value && spec_str_eq(HL_LABEL->label, label) &&
	(OLD(t->labels) == NULL ? t->labels == HL_LABEL : t->labels == OLD(t->labels))))
__CPROVER_ensures(RV == 0 || (g_hl.n == OLD(g_hl.n) && t->labels == OLD(t->labels) && g_err > OLD(g_err)))
;

void h_add_label(void)
{
	struct mark_type *t; int64_t value; const char *label;
	WITNESS_ON(add_label);
	int r = add_label(t, value, label);
	if (r == 0 && w_defined) REACH("same label for a labelled value accepted (merge)");
	if (r != 0 && w_defined) REACH("different label for a labelled value refused");
	if (r == 0 && !w_defined) REACH("label for a new value added");
	if (r == 0 && !w_defined && w_lvalue < 0) REACH("label for a negative value added");
	if (r != 0 && !w_defined) REACH("new label refused by a lower layer");
#ifdef C17_STR
	if (r != 0 && w_defined && w_old[0] == 'a' && w_new[0] == 'a' && w_old[1] == 0 && w_new[1] == 'b') REACH("label 'a' vs 'ab...' refused");
#endif
}

/* =====================================================================================
 * 2c. parse_mark: one "ovni.mark.<type>" definition of one thread's metadata.
 *     Refused: type not a number in [0,100), missing title/chan_type, chan_type neither
 *     "single" nor "stack", a type already defined (by another thread) with another title
 *     or another channel type.  An agreeing redefinition is merged (no new type).
 *
 * parson (not verified): ghost view of the ONE definition object under parse; getters
 * return the view's fields (any of them may be NULL = absent / wrong JSON type) and
 * count a misuse (other object, other key) in g_j_bad.
 * strtol (libc): abstract -- returns an arbitrary number g_st_val, an arbitrary end
 * position and an arbitrary errno; the range and "whole string consumed" checks of
 * parse_mark are then about these.
 * ===================================================================================== */
extern int __CPROVER_errno;
const JSON_Value *g_j_markval; JSON_Object *g_j_mark, *g_j_labels;
const char *g_j_title, *g_j_ctype; int g_j_has_labels;
unsigned g_j_bad;
JSON_Object *json_value_get_object(const JSON_Value *v) { if (v != g_j_markval) g_j_bad++; return g_j_mark; }
const char *json_object_get_string(const JSON_Object *o, const char *name)
{
	if (o != g_j_mark) g_j_bad++;
	if (strcmp(name, "title") == 0) return g_j_title;
	if (strcmp(name, "chan_type") == 0) return g_j_ctype;
	g_j_bad++;
	return NULL;
}
int json_object_has_value(const JSON_Object *o, const char *name)
{
	if (o != g_j_mark || strcmp(name, "labels") != 0) g_j_bad++;
	return g_j_has_labels;
}
JSON_Object *json_object_get_object(const JSON_Object *o, const char *name)
{
	if (o != g_j_mark || strcmp(name, "labels") != 0) g_j_bad++;
	return g_j_labels;
}
long g_st_val; unsigned long g_st_endoff; int g_st_errno; unsigned g_st_calls; const char *g_st_arg;
long strtol(const char *s, char **end, int base)
{
	g_st_calls++; g_st_arg = s;
	if (base != 10 || end == NULL) g_j_bad++;
	if (end != NULL) *end = (char *) s + g_st_endoff;
	if (g_st_errno != 0) errno = g_st_errno;
	return g_st_val;
}

/* parse_labels: call-log abstraction (proved separately in group parse_labels) */
struct c17_pl { unsigned n; struct mark_type *t; JSON_Object *labels; int ret; } g_pl;
int cl_parse_labels(struct mark_type *t, JSON_Object *labels)
__CPROVER_requires(g_pl.n < 1000u)
__CPROVER_assigns(g_pl)
__CPROVER_ensures(g_pl.n == OLD(g_pl.n) + 1 && g_pl.t == t && g_pl.labels == labels && g_pl.ret == RV && (RV == 0 || RV == -1))
;

#define CT_SINGLE(s) ((s)[0] == 's' && (s)[1] == 'i' && (s)[2] == 'n' && (s)[3] == 'g' && (s)[4] == 'l' && (s)[5] == 'e' && (s)[6] == '\0')
#define CT_STACK(s) ((s)[0] == 's' && (s)[1] == 't' && (s)[2] == 'a' && (s)[3] == 'c' && (s)[4] == 'k' && (s)[5] == '\0')
#define CT_OF(s) (CT_SINGLE(s) ? CHAN_SINGLE : CHAN_STACK)

int g_pre, g_agree; unsigned long g_tslen;
int w_pre, w_agree, w_errno, w_has_labels, w_labels_null, w_old_ctype, w_title_null, w_ctype_null, w_mark_null, w_ct_single, w_ct_stack, w_title_eq;
long w_val; unsigned long w_endoff;
WITNESS(parse_mark);

int c_parse_mark(struct ovni_mark_emu *m, const char *typestr, JSON_Value *markval)
__CPROVER_requires(__CPROVER_is_fresh(m, sizeof(*m)) && m == g_fm_m && m->ntypes >= 0 && m->ntypes < C17_MAX_TYPES)
__CPROVER_requires(g_tslen < (1UL << 20) && __CPROVER_is_fresh(typestr, g_tslen + 1) && typestr[g_tslen] == '\0' && g_st_endoff <= g_tslen)
__CPROVER_requires(markval == g_j_markval)
__CPROVER_requires((g_j_title == NULL || STR_OK(g_j_title)) && (g_j_ctype == NULL || CSTR_OK(g_j_ctype)))
/* the type table observed at the parsed number; table invariant */
__CPROVER_requires(g_mt_key == g_st_val)
__CPROVER_requires(g_mt == NULL || (__CPROVER_is_fresh(g_mt, sizeof(struct mark_type)) && g_mt->type == g_mt_key &&
	g_mt->index >= 0 && g_mt->index < m->ntypes && STORED_OK(g_mt->title) &&
	(g_mt->ctype == CHAN_SINGLE || g_mt->ctype == CHAN_STACK)))
__CPROVER_requires(DIAG_PRE && LOW_PRE && HLOG_PRE && g_find_calls == 0 && g_pl.n == 0 && g_j_bad == 0 && g_st_calls == 0 && CMP_PRE)
/* syntactically acceptable definition */
__CPROVER_requires(g_pre == (g_st_errno == 0 && g_st_endoff != 0 && typestr[g_st_endoff] == '\0' &&
	g_st_val >= 0 && g_st_val < 100 &&
	g_j_mark != NULL && g_j_title != NULL && g_j_ctype != NULL && (CT_SINGLE(g_j_ctype) || CT_STACK(g_j_ctype))))
/* ... that agrees with what another thread defined for the same type, if any */
__CPROVER_requires(!g_pre || g_agree == (g_mt == NULL || (STR_SAME(g_mt->title, g_j_title) && g_mt->ctype == CT_OF(g_j_ctype))))
__CPROVER_requires(WBIND(parse_mark, w_pre == g_pre && w_agree == g_agree && w_defined == (g_mt != NULL) && w_val == g_st_val &&
	w_endoff == g_st_endoff && w_errno == g_st_errno && w_has_labels == g_j_has_labels && w_labels_null == (g_j_labels == NULL) &&
	w_title_null == (g_j_title == NULL) && w_ctype_null == (g_j_ctype == NULL) && w_mark_null == (g_j_mark == NULL) &&
	(g_j_ctype == NULL || (w_ct_single == CT_SINGLE(g_j_ctype) && w_ct_stack == CT_STACK(g_j_ctype))) &&
	(g_mt == NULL || (w_old_ctype == (int) g_mt->ctype && (g_j_title == NULL || w_title_eq == STR_SAME(g_mt->title, g_j_title))))))
__CPROVER_assigns(m->types, m->ntypes, g_find_calls, g_pl, g_j_bad, g_st_calls, g_st_arg, __CPROVER_errno, HLOG_FRAME, CALLOC_FRAME, DIAG_FRAME CMP_FRAME)
__CPROVER_ensures(RV == 0 || RV == -1)
/* accepted exactly when acceptable, agreeing, and no lower layer failed */
__CPROVER_ensures((RV == 0) == (g_pre && g_agree && g_lowfail == OLD(g_lowfail) &&
	(!g_j_has_labels || (g_j_labels != NULL && g_pl.n == 1 && g_pl.ret == 0))))
/* the labels object is handed to parse_labels together with the (old or new) type */
__CPROVER_ensures(g_pl.n <= 1 && (g_pl.n == 1) == (g_pre && g_agree && g_lowfail == OLD(g_lowfail) && g_j_has_labels && g_j_labels != NULL))
__CPROVER_ensures(g_pl.n == 0 || (g_pl.labels == g_j_labels && g_pl.t == (g_mt != NULL ? g_mt : HL_TYPE)))
/* merge: an already defined type is never created again */
__CPROVER_ensures(g_mt == NULL || (m->ntypes == OLD(m->ntypes) && m->types == OLD(m->types) && g_hl.n == OLD(g_hl.n) && g_lowfail == OLD(g_lowfail)))
/* new type: exactly one, under Paraver type 100 + type, next index, parsed channel type, given title */
__CPROVER_ensures(!(g_mt == NULL && g_pre && g_lowfail == OLD(g_lowfail)) || (
	m->ntypes == OLD(m->ntypes) + 1 && g_hl.n == OLD(g_hl.n) + 1 && g_hl.head == (void *) &m->types && g_hl.key == g_st_val &&
	HL_TYPE->type == g_st_val && HL_TYPE->prvtype == 100 + g_st_val && HL_TYPE->index == OLD(m->ntypes) &&
	HL_TYPE->ctype == CT_OF(g_j_ctype) && spec_str_eq(HL_TYPE->title, g_j_title)))
/* an unacceptable definition changes nothing and looks nothing up */
__CPROVER_ensures(g_pre || (m->ntypes == OLD(m->ntypes) && m->types == OLD(m->types) && g_hl.n == OLD(g_hl.n) && g_find_calls == 0))
/* the stored title is compared with the given one exactly for an acceptable redefinition */
__CPROVER_ensures(CMP_ASKED(g_pre && g_mt != NULL, g_mt->title, g_j_title))
/* parson / strtol used on the definition under parse only */
__CPROVER_ensures(g_j_bad == 0 && g_st_calls == 1 && g_st_arg == typestr)
__CPROVER_ensures(RV == 0 || g_err > OLD(g_err))
;

void h_parse_mark(void)
{
	struct ovni_mark_emu *m; const char *typestr; JSON_Value *markval;
	WITNESS_ON(parse_mark);
	int r = parse_mark(m, typestr, markval);
	if (r == 0 && !w_defined) REACH("new type accepted");
	if (r == 0 && !w_defined && w_val == 99 && w_ct_single) REACH("new single type 99 accepted");
	if (r == 0 && !w_defined && w_val == 0 && w_ct_stack) REACH("new stack type 0 accepted");
	if (r == 0 && w_defined) REACH("agreeing redefinition merged");
	if (r == 0 && w_has_labels) REACH("accepted with labels");
	if (r != 0 && w_val == 100 && w_errno == 0 && w_endoff != 0) REACH("type 100 refused");
	if (r != 0 && w_val == -1 && w_errno == 0 && w_endoff != 0) REACH("type -1 refused");
	if (r != 0 && w_endoff == 0) REACH("empty / non-numeric type refused");
	if (r != 0 && w_pre && w_defined && !w_title_eq && w_old_ctype == (w_ct_single ? CHAN_SINGLE : CHAN_STACK)) REACH("title conflict refused");
	if (r != 0 && w_pre && w_defined && w_title_eq && w_old_ctype == CHAN_STACK && w_ct_single) REACH("channel type conflict refused (stack vs single)");
	if (r != 0 && w_pre && w_defined && w_title_eq && w_old_ctype == CHAN_SINGLE && w_ct_stack) REACH("channel type conflict refused (single vs stack)");
	if (r != 0 && !w_mark_null && !w_title_null && !w_ctype_null && !w_ct_single && !w_ct_stack && w_val == 3 && w_errno == 0 && w_endoff != 0) REACH("unknown chan_type refused");
	if (r != 0 && w_title_null && !w_mark_null) REACH("missing title refused");
	if (r != 0 && w_pre && w_agree && w_has_labels && !w_labels_null) REACH("refused by parse_labels");
}

/* =====================================================================================
 * 2d. parse_number, parse_labels, scan_thread: the glue between one thread's metadata
 *     ("ovni.mark": {"<type>": {title, chan_type, labels: {"<value>": "<label>"}}}) and
 *     parse_mark / add_label.  Loops over JSON object entries: bounded stand-in, <= 2 entries.
 * parson: ghost view of ONE JSON object as an array of (name, value) entries (g_ja);
 * strtoll: abstract libc stub like strtol above.
 * ===================================================================================== */
long long g_sll_val; unsigned long g_sll_endoff; int g_sll_errno; unsigned g_sll_calls;
long long strtoll(const char *s, char **end, int base)
{
	g_sll_calls++;
	if (base != 10 || end == NULL) g_j_bad++;
	if (end != NULL) *end = (char *) s + g_sll_endoff;
	if (g_sll_errno != 0) errno = g_sll_errno;
	return g_sll_val;
}
WITNESS(parse_number);
int c_parse_number(const char *str, int64_t *result)
__CPROVER_requires(g_tslen < (1UL << 20) && __CPROVER_is_fresh(str, g_tslen + 1) && str[g_tslen] == '\0' && g_sll_endoff <= g_tslen)
__CPROVER_requires(__CPROVER_is_fresh(result, sizeof(*result)) && DIAG_PRE && g_sll_calls == 0 && g_j_bad == 0)
__CPROVER_requires(g_pre == (g_sll_errno == 0 && g_sll_endoff != 0 && str[g_sll_endoff] == '\0'))
__CPROVER_requires(WBIND(parse_number, w_pre == g_pre && w_errno == g_sll_errno && w_endoff == g_sll_endoff))
__CPROVER_assigns(*result, g_sll_calls, g_j_bad, __CPROVER_errno, DIAG_FRAME)
/* accepted exactly when the whole non-empty string is a number in range */
__CPROVER_ensures((RV == 0) == (g_pre != 0) && (RV == 0 || RV == -1))
__CPROVER_ensures(RV != 0 || *result == g_sll_val)
__CPROVER_ensures(RV == 0 || (*result == OLD(*result) && g_err > OLD(g_err)))
__CPROVER_ensures(g_sll_calls == 1 && g_j_bad == 0)
;
void h_parse_number(void)
{
	const char *str; int64_t *result;
	WITNESS_ON(parse_number);
	int r = parse_number(str, result);
	if (r == 0) REACH("number accepted");
	if (r != 0 && w_errno != 0) REACH("out of range refused");
	if (r != 0 && w_errno == 0 && w_endoff == 0) REACH("no digits refused");
	if (r != 0 && w_errno == 0 && w_endoff != 0) REACH("trailing characters refused");
}

/* ---- JSON object as an array of entries ---- */
struct c17_ja { const JSON_Object *obj; size_t n; const char *name[2]; JSON_Value *val[2]; const char *str[2]; } g_ja;
size_t json_object_get_count(const JSON_Object *o) { if (o != g_ja.obj) g_j_bad++; return g_ja.n; }
const char *json_object_get_name(const JSON_Object *o, size_t i) { if (o != g_ja.obj || i >= g_ja.n) { g_j_bad++; return NULL; } return g_ja.name[i]; }
JSON_Value *json_object_get_value_at(const JSON_Object *o, size_t i) { if (o != g_ja.obj || i >= g_ja.n) { g_j_bad++; return NULL; } return g_ja.val[i]; }
const char *json_value_get_string(const JSON_Value *v)
{
	if (v != NULL && v == g_ja.val[0]) return g_ja.str[0];
	if (v != NULL && v == g_ja.val[1]) return g_ja.str[1];
	g_j_bad++;
	return NULL;
}
const struct thread *g_js_thread; JSON_Object *g_js_obj;
JSON_Object *json_object_dotget_object(const JSON_Object *o, const char *name)
{
	if (g_js_thread == NULL || o != (const JSON_Object *) g_js_thread->meta || strcmp(name, "ovni.mark") != 0) g_j_bad++;
	return g_js_obj;
}

/* callees replaced by call logs (args, result): each is proved exactly in its own group */
struct c17_clog g_al;   /* entry k: k-th call; obj = 1st arg, a = number/0, c = result, p = string/2nd pointer, q = 3rd pointer */
long long g_pn_val[2]; int g_pn_ret[2];
int cl_parse_number(const char *str, int64_t *result)
__CPROVER_requires(str != NULL && (str == g_ja.name[0] || str == g_ja.name[1]))
__CPROVER_assigns(*result)
__CPROVER_ensures(RV == (str == g_ja.name[0] ? g_pn_ret[0] : g_pn_ret[1]))
__CPROVER_ensures(RV != 0 || *result == (str == g_ja.name[0] ? g_pn_val[0] : g_pn_val[1]))
;
#define AL_KEEP0 (g_al.c[0].obj == OLD(g_al.c[0].obj) && g_al.c[0].a == OLD(g_al.c[0].a) && g_al.c[0].c == OLD(g_al.c[0].c) && \
	g_al.c[0].p == OLD(g_al.c[0].p) && g_al.c[0].q == OLD(g_al.c[0].q))
int cl_add_label(struct mark_type *t, int64_t value, const char *label)
__CPROVER_requires(g_al.n < 2)
__CPROVER_assigns(g_al)
__CPROVER_ensures(g_al.n == OLD(g_al.n) + 1 && (RV == 0 || RV == -1))
__CPROVER_ensures(OLD(g_al.n) != 0 || (g_al.c[0].obj == (void *) t && g_al.c[0].a == value && g_al.c[0].c == RV && g_al.c[0].p == (void *) label))
__CPROVER_ensures(OLD(g_al.n) != 1 || (g_al.c[1].obj == (void *) t && g_al.c[1].a == value && g_al.c[1].c == RV && g_al.c[1].p == (void *) label && AL_KEEP0))
;
int cl_parse_mark(struct ovni_mark_emu *m, const char *typestr, JSON_Value *markval)
__CPROVER_requires(g_al.n < 2)
__CPROVER_assigns(g_al)
__CPROVER_ensures(g_al.n == OLD(g_al.n) + 1 && (RV == 0 || RV == -1))
__CPROVER_ensures(OLD(g_al.n) != 0 || (g_al.c[0].obj == (void *) m && g_al.c[0].c == RV && g_al.c[0].p == (void *) typestr && g_al.c[0].q == (void *) markval))
__CPROVER_ensures(OLD(g_al.n) != 1 || (g_al.c[1].obj == (void *) m && g_al.c[1].c == RV && g_al.c[1].p == (void *) typestr && g_al.c[1].q == (void *) markval && AL_KEEP0))
;

/* parse_labels: every (value, label) entry is handed to add_label, in order, with the number
 * parse_number read from the entry's name; accepted iff every entry is well-formed and
 * accepted by add_label; stops at the first refusal */
int g_ok0, g_ok1; long w_n;
WITNESS(parse_labels);
#define JA_WF (g_ja.n <= 2 && (g_ja.val[0] == NULL || g_ja.val[1] == NULL || g_ja.val[0] != g_ja.val[1] || g_ja.n < 2))
int c_parse_labels(struct mark_type *t, JSON_Object *labels)
__CPROVER_requires(labels == g_ja.obj && JA_WF && g_al.n == 0 && g_j_bad == 0 && DIAG_PRE)
__CPROVER_requires(g_ja.n < 2 || g_ja.name[0] == NULL || g_ja.name[1] == NULL || g_ja.name[0] != g_ja.name[1])
__CPROVER_requires(g_ok0 == (g_ja.name[0] != NULL && g_pn_ret[0] == 0 && g_ja.val[0] != NULL && g_ja.str[0] != NULL))
__CPROVER_requires(g_ok1 == (g_ja.name[1] != NULL && g_pn_ret[1] == 0 && g_ja.val[1] != NULL && g_ja.str[1] != NULL))
__CPROVER_requires(WBIND(parse_labels, w_n == (long) g_ja.n))
__CPROVER_assigns(g_al, g_j_bad, DIAG_FRAME)
__CPROVER_ensures(RV == 0 || RV == -1)
__CPROVER_ensures((RV == 0) == (g_ja.n == 0 || (g_ok0 && g_al.c[0].c == 0 && (g_ja.n == 1 || (g_ok1 && g_al.c[1].c == 0)))))
__CPROVER_ensures(g_al.n == ((g_ja.n >= 1 && g_ok0) ? ((g_ja.n == 2 && g_al.c[0].c == 0 && g_ok1) ? 2u : 1u) : 0u))
__CPROVER_ensures(g_al.n < 1 || (g_al.c[0].obj == (void *) t && g_al.c[0].a == g_pn_val[0] && g_al.c[0].p == (void *) g_ja.str[0]))
__CPROVER_ensures(g_al.n < 2 || (g_al.c[1].obj == (void *) t && g_al.c[1].a == g_pn_val[1] && g_al.c[1].p == (void *) g_ja.str[1]))
__CPROVER_ensures(g_j_bad == 0 && (RV == 0 || g_err > OLD(g_err)))
;
void h_parse_labels(void)
{
	struct mark_type *t; JSON_Object *labels;
	WITNESS_ON(parse_labels);
	int r = parse_labels(t, labels);
	if (r == 0 && w_n == 0) REACH("empty labels object accepted");
	if (r == 0 && w_n == 2) REACH("two labels accepted");
	if (r != 0 && w_n == 2 && g_al.n == 2) REACH("second label refused by add_label");
	if (r != 0 && w_n == 1 && g_al.n == 0) REACH("malformed entry refused");
}

/* scan_thread: no "ovni.mark" object -> nothing to do; otherwise every entry is handed to
 * parse_mark with its name as the type string; accepted iff all of them are */
int w_nomarks;
WITNESS(scan_thread);
int c_scan_thread(struct ovni_mark_emu *memu, struct thread *t)
__CPROVER_requires(__CPROVER_is_fresh(t, sizeof(*t)) && t == g_js_thread && g_js_obj == g_ja.obj && JA_WF && g_al.n == 0 && g_j_bad == 0 && DIAG_PRE)
__CPROVER_requires(g_ok0 == (g_ja.name[0] != NULL && g_ja.val[0] != NULL))
__CPROVER_requires(g_ok1 == (g_ja.name[1] != NULL && g_ja.val[1] != NULL))
__CPROVER_requires(WBIND(scan_thread, w_n == (long) g_ja.n && w_nomarks == (g_js_obj == NULL)))
__CPROVER_assigns(g_al, g_j_bad, DIAG_FRAME)
__CPROVER_ensures(RV == 0 || RV == -1)
__CPROVER_ensures(g_js_obj != NULL || (RV == 0 && g_al.n == 0))
__CPROVER_ensures(g_js_obj == NULL || (RV == 0) == (g_ja.n == 0 || (g_ok0 && g_al.c[0].c == 0 && (g_ja.n == 1 || (g_ok1 && g_al.c[1].c == 0)))))
__CPROVER_ensures(g_js_obj == NULL || g_al.n == ((g_ja.n >= 1 && g_ok0) ? ((g_ja.n == 2 && g_al.c[0].c == 0 && g_ok1) ? 2u : 1u) : 0u))
__CPROVER_ensures(g_al.n < 1 || (g_al.c[0].obj == (void *) memu && g_al.c[0].p == (void *) g_ja.name[0] && g_al.c[0].q == (void *) g_ja.val[0]))
__CPROVER_ensures(g_al.n < 2 || (g_al.c[1].obj == (void *) memu && g_al.c[1].p == (void *) g_ja.name[1] && g_al.c[1].q == (void *) g_ja.val[1]))
__CPROVER_ensures(g_j_bad == 0 && (RV == 0 || g_err > OLD(g_err)))
;
void h_scan_thread(void)
{
	struct ovni_mark_emu *memu; struct thread *t;
	WITNESS_ON(scan_thread);
	int r = scan_thread(memu, t);
	if (r == 0 && w_nomarks) REACH("thread without marks accepted");
	if (r == 0 && !w_nomarks && w_n == 2) REACH("two mark definitions accepted");
	if (r != 0 && w_n == 2 && g_al.n == 2) REACH("second definition refused by parse_mark");
	if (r != 0 && w_n == 1 && g_al.n == 0) REACH("malformed entry refused");
}
