/* C17 -- mark API, emulator side: exact contracts on the real src/emu/ovni/mark.c
 *   mark_event, create_mark_type, parse_mark, add_label (this file)
 * (tracking modes / PRV / PCF wiring: c17_wire.c; runtime: c17_rt.c) */
#include "c17_mark.h"
#include "parson.h"
#include "extend.c"          /* real extend_get (EXT macro) */
#include "ovni/mark.c"       /* the real /repo/src/emu/ovni/mark.c */

_Static_assert(PRV_OVNI_MARK == 100, "statement: Paraver type 100 + mark type");
_Static_assert(sizeof(union ovni_ev_payload) == 16, "payload union is 16 bytes");

/* =====================================================================================
 * Channel layer (chan.c is outside the unit; its exact contracts are proved in C08).
 * Abstract model of THE channel the event addresses: its type g_ch_type and, for a stack,
 * its innermost open value (g_ch_top_t, g_ch_top_i; null when nothing is open).  The stubs
 * refuse what C08's c_chan_push/c_chan_pop/c_chan_set refuse for certain (wrong channel
 * type; pop of a value different from the top), may refuse anything else (dirty channel,
 * full stack, callback failure), and log (operation, channel, value).
 * ===================================================================================== */
enum { OP_SET = 1, OP_PUSH = 2, OP_POP = 3 };
struct c17_oplog { unsigned n; int kind; struct chan *chan; int64_t vt, vi; int ret; } g_op;
int g_ch_type;                   /* abstract: type of the addressed channel */
int64_t g_ch_top_t, g_ch_top_i;  /* abstract: its top (stack) */
static int c17_chan_op(int kind, struct chan *c, struct value v, int must_fail)
{
	g_op.n++; g_op.kind = kind; g_op.chan = c; g_op.vt = v.type; g_op.vi = v.i;
	int r = 0;
	if (must_fail || nondet_bool()) { verif_err(); r = -1; }
	g_op.ret = r;
	return r;
}
int chan_push(struct chan *c, struct value v) { return c17_chan_op(OP_PUSH, c, v, g_ch_type != CHAN_STACK); }
int chan_pop(struct chan *c, struct value v) { return c17_chan_op(OP_POP, c, v, g_ch_type != CHAN_STACK || g_ch_top_t != v.type || g_ch_top_i != v.i); }
int chan_set(struct chan *c, struct value v) { return c17_chan_op(OP_SET, c, v, g_ch_type != CHAN_SINGLE); }

/* =====================================================================================
 * find_mark_type: ASSUMED one-cell map contract (uthash HASH_FIND is not verified).
 * The type table of g_fm_m is observed at key g_mt_key; its value there is g_mt (NULL =
 * type not defined).  The requires is asserted at every call site: callers are proved to
 * look up exactly the observed key in exactly that table.
 * ===================================================================================== */
struct ovni_mark_emu *g_fm_m;
long g_mt_key;
struct mark_type *g_mt;
unsigned g_find_calls;
struct mark_type *ca_find_mark_type(struct ovni_mark_emu *m, long type)
__CPROVER_requires(m == g_fm_m && type == g_mt_key)
__CPROVER_assigns(g_find_calls)
__CPROVER_ensures(g_find_calls == OLD(g_find_calls) + 1)
__CPROVER_ensures(__CPROVER_pointer_equals(RV, g_mt))
;

/* =====================================================================================
 * 1. mark_event
 * ===================================================================================== */
#define OEMU(emu) ((struct ovni_emu *) (emu)->ext.ctx['O'])
#define OTH(emu) ((struct ovni_thread *) (emu)->thread->ext.ctx['O'])
#define PL_I32(ev, k) (*(const int32_t *) ((const uint8_t *) (ev)->payload + 4 * (k)))
#define PL_I64(ev, k) (*(const int64_t *) ((const uint8_t *) (ev)->payload + 8 * (k)))
/* one channel per mark type in every thread (mark_create: nchannels = ntypes); bounded so
 * that the table's byte size is representable (struct chan is 8768 bytes) */
#define C17_MAX_TYPES (1L << 30)

unsigned w_v; unsigned long w_psize; long long w_value; int w_type; int w_defined; long w_index;
int w_ch_type; long long w_top_t, w_top_i;
struct chan *g_channels; long g_ntypes, g_index;
int g_wellformed;   /* 12-byte payload, defined type, non-zero value, one of [ ] = */
WITNESS(mark_event);

int c_mark_event(struct emu *emu)
__CPROVER_requires(__CPROVER_is_fresh(emu, sizeof(*emu)) && DIAG_PRE && g_find_calls == 0 && g_op.n == 0)
__CPROVER_requires(__CPROVER_is_fresh(emu->ev, sizeof(struct emu_ev)))
/* decoded event view (emu_ev, C19): payload NULL iff size 0; the object is at least the
 * 16-byte union (CBMC checks member reads against the whole union) */
__CPROVER_requires(emu->ev->payload_size <= 16 && emu->ev->payload_size != 1)
__CPROVER_requires((emu->ev->payload_size == 0 && emu->ev->payload == NULL) ||
	(emu->ev->payload_size != 0 && __CPROVER_is_fresh(emu->ev->payload, 16)))
__CPROVER_requires(__CPROVER_is_fresh(emu->ext.ctx['O'], sizeof(struct ovni_emu)))
__CPROVER_requires(__CPROVER_is_fresh(emu->thread, sizeof(struct thread)))
__CPROVER_requires(__CPROVER_is_fresh(emu->thread->ext.ctx['O'], sizeof(struct ovni_thread)))
/* mark_create: every thread has ntypes channels */
__CPROVER_requires(g_ntypes == OEMU(emu)->mark.ntypes && g_ntypes >= 0 && g_ntypes <= C17_MAX_TYPES &&
	OTH(emu)->mark.nchannels == g_ntypes)
__CPROVER_requires(g_ntypes == 0 || __CPROVER_is_fresh(OTH(emu)->mark.channels, (size_t) g_ntypes * sizeof(struct chan)))
__CPROVER_requires(g_channels == OTH(emu)->mark.channels)
/* the type table observed at the key carried by the event; table invariant: a registered
 * type has the key it is stored under and 0 <= index < ntypes (create_mark_type) */
__CPROVER_requires(g_fm_m == &OEMU(emu)->mark)
__CPROVER_requires(emu->ev->payload_size < 12 || g_mt_key == (long) PL_I32(emu->ev, 2))
__CPROVER_requires(g_mt == NULL || (__CPROVER_is_fresh(g_mt, sizeof(struct mark_type)) &&
	g_mt->type == g_mt_key && g_mt->index >= 0 && g_mt->index < g_ntypes && g_index == g_mt->index))
__CPROVER_requires(g_wellformed == (emu->ev->payload_size == 12 && g_mt != NULL && PL_I64(emu->ev, 0) != 0 &&
	(emu->ev->v == '[' || emu->ev->v == ']' || emu->ev->v == '=')))
__CPROVER_requires(WBIND(mark_event, w_v == emu->ev->v && w_psize == emu->ev->payload_size && w_defined == (g_mt != NULL) &&
	(emu->ev->payload_size < 12 || (w_value == PL_I64(emu->ev, 0) && w_type == PL_I32(emu->ev, 2))) &&
	(g_mt == NULL || w_index == g_mt->index) && w_ch_type == g_ch_type && w_top_t == g_ch_top_t && w_top_i == g_ch_top_i))
__CPROVER_assigns(g_find_calls, g_op, DIAG_FRAME)
__CPROVER_ensures(RV == 0 || RV == -1)
/* a channel operation is attempted exactly for well-formed mark events ... */
__CPROVER_ensures((g_op.n == 1) == (g_wellformed != 0) && g_op.n <= 1)
/* ... and the event is accepted exactly when that operation succeeds */
__CPROVER_ensures((RV == 0) == (g_wellformed && g_op.ret == 0))
/* which operation, on which channel, with which value */
__CPROVER_ensures(g_op.n == 0 || (
	g_op.kind == (emu->ev->v == '[' ? OP_PUSH : emu->ev->v == ']' ? OP_POP : OP_SET) &&
	g_op.chan == &g_channels[g_index] &&
	g_op.vt == VALUE_INT64 && g_op.vi == PL_I64(emu->ev, 0) && g_op.vi != 0))
/* the type looked up is the i32 at payload bytes 8..11 (requires of ca_find_mark_type,
 * asserted at the call site) and it is looked up only for 12-byte payloads */
__CPROVER_ensures(g_find_calls == (emu->ev->payload_size == 12 ? 1u : 0u))
/* a pop that does not match the innermost open value, push/pop on a single channel and
 * set on a stack channel are refused (by the channel layer) */
__CPROVER_ensures(!(emu->ev->v == ']' && g_wellformed && (g_ch_top_t != VALUE_INT64 || g_ch_top_i != PL_I64(emu->ev, 0))) || RV == -1)
__CPROVER_ensures(!(emu->ev->v != '=' && g_wellformed && g_ch_type != CHAN_STACK) || RV == -1)
__CPROVER_ensures(!(emu->ev->v == '=' && g_wellformed && g_ch_type != CHAN_SINGLE) || RV == -1)
__CPROVER_ensures(RV == 0 || g_err > OLD(g_err))
;

void h_mark_event(void)
{
	struct emu *emu;
	WITNESS_ON(mark_event);
	int r = mark_event(emu);
	if (r == 0 && w_v == '[') REACH("mark push accepted");
	if (r == 0 && w_v == ']') REACH("mark pop accepted");
	if (r == 0 && w_v == '=') REACH("mark set accepted");
	if (r == 0 && w_index == 3) REACH("accepted on the channel of index 3");
	if (r == 0 && w_value < 0) REACH("negative value accepted");
	if (r != 0 && w_psize == 8) REACH("8-byte payload refused");
	if (r != 0 && w_psize == 16) REACH("16-byte payload refused");
	if (r != 0 && w_psize == 12 && !w_defined) REACH("undefined type refused");
	if (r != 0 && w_psize == 12 && w_defined && w_value == 0) REACH("zero value refused");
	if (r != 0 && w_psize == 12 && w_defined && w_value != 0 && w_v == 'x') REACH("unknown mark event refused");
	if (r != 0 && g_wellformed && w_v == ']' && w_ch_type == CHAN_STACK && w_top_t == VALUE_INT64 && w_top_i != w_value) REACH("mismatched pop refused");
	if (r != 0 && g_wellformed && w_v == ']' && w_ch_type == CHAN_STACK && w_top_t == VALUE_INT64 && w_top_i == w_value) REACH("matching pop refused by the channel layer (dirty)");
}
