/* C17 -- mark API, runtime side: ovni_mark_type / ovni_mark_label on the real
 * src/rt/ovni.c.  (ovni_mark_push/pop/set: proved byte-for-byte in C01.)
 *
 * Both functions end the program (die) exactly on a documented refusal or a failure of
 * a lower layer (parson, snprintf truncation); otherwise they set exactly the metadata
 * keys the emulator reads (ovni.mark.<type>.title / .chan_type / .labels.<value>).
 *   - "returns  =>  legal"            : ensures(!g_illegal)
 *   - "dies     =>  illegal or lower-layer failure": assertion at the moment of death
 *                                       (VERIF_DIE_HOOK)
 *   - "legal and no lower-layer failure => returns": REACH on the returning path
 *
 * Trusted ghost model (parson is not verified), specific to this unit:
 *   snprintf(key, 128, <fmt>, type[, value]) is abstracted to a KEY DESCRIPTOR
 *   (kind from the literal format string, type, value) attached to the buffer; its
 *   result is any length (the `>= 128` checks stay live, truncation is counted).
 *   json_object_dotget_value / json_object_dotset_string interpret the descriptor
 *   over a one-cell view of "ovni.mark": the cell of mark type g_o_type and of label
 *   value g_o_value.  The shared stub (rt_parson_stub.h) defines these two functions
 *   with a different behaviour (mandatory keys only); its definitions are renamed
 *   out of the way below, the rest of the shared model is used unchanged. */
int g_hook_on, g_illegal, g_trunc;
extern int g_parson_failed;
#define VERIF_DIE_HOOK __CPROVER_assert(!g_hook_on || g_illegal || g_parson_failed || g_trunc, \
	"dies only on a documented refusal or a lower-layer failure")
#include "rt_common.h"
#include "parson.h"
#define json_object_dotget_value shared_json_object_dotget_value
#define json_object_dotset_string shared_json_object_dotset_string
#include "rt_parson_stub.h"
#undef json_object_dotget_value
#undef json_object_dotset_string

#define RV __CPROVER_return_value
#define OLD(x) __CPROVER_old(x)

/* ---- key descriptor ---- */
enum { KEY_OTHER = 0, KEY_TYPE, KEY_TITLE, KEY_CHANTYPE, KEY_LABEL };
struct c17_key { const char *buf; int kind; long long type, value; } g_key;
static int c17_sn(char *s, size_t n, const char *fmt, long long a, long long b)
{
	int r = verif_snprintf(s, n);
	if (n > 0 && (size_t) r >= n) g_trunc = 1;
	g_key.buf = s; g_key.type = a; g_key.value = b;
	if (strcmp(fmt, "ovni.mark.%" PRId32) == 0) g_key.kind = KEY_TYPE;
	else if (strcmp(fmt, "ovni.mark.%" PRId32 ".title") == 0) g_key.kind = KEY_TITLE;
	else if (strcmp(fmt, "ovni.mark.%" PRId32 ".chan_type") == 0) g_key.kind = KEY_CHANTYPE;
	else if (strcmp(fmt, "ovni.mark.%" PRId32 ".labels.%" PRId64) == 0) g_key.kind = KEY_LABEL;
	else g_key.kind = KEY_OTHER;
	return r;
}
#undef snprintf
#define C17_SEL(_1, _2, _3, _4, NAME, ...) NAME
#define C17_SN0(s, n, f) c17_sn((s), (n), (f), 0, 0)
#define C17_SN1(s, n, f, a) c17_sn((s), (n), (f), (long long) (a), 0)
#define C17_SN2(s, n, f, a, b) c17_sn((s), (n), (f), (long long) (a), (long long) (b))
#define C17_SN3(s, n, f, a, b, c) c17_sn((s), (n), (f), (long long) (a), (long long) (b))
#define snprintf(s, n, ...) C17_SEL(__VA_ARGS__, C17_SN3, C17_SN2, C17_SN1, C17_SN0)((s), (n), __VA_ARGS__)

/* ---- one-cell view of the "ovni.mark" subtree of this thread's metadata ---- */
long long g_o_type, g_o_value;   /* observed mark type / label value (arbitrary) */
int g_def;                       /* "ovni.mark.<g_o_type>" exists */
int g_lab_def;                   /* "ovni.mark.<g_o_type>.labels.<g_o_value>" exists */
unsigned g_bad;                  /* parson used with a key that is not the buffer just formatted */
#define SETN 4
struct c17_set { int kind; long long type, value; const char *str; int is_stack, is_single; };
struct c17_setlog { unsigned n; struct c17_set s[SETN]; } g_set;

JSON_Value *json_object_dotget_value(const JSON_Object *o, const char *name)
{
	(void) o;
	if (name != g_key.buf) g_bad++;
	int present = nondet_bool();     /* any other cell: unknown */
	if (g_key.kind == KEY_TYPE && g_key.type == g_o_type) present = g_def;
	if (g_key.kind == KEY_LABEL && g_key.type == g_o_type && g_key.value == g_o_value) present = g_lab_def;
	if (!present) return NULL;
	unsigned k = nondet_uchar() & 63;
	return (JSON_Value *) &verif_json_heap[k];
}
JSON_Status json_object_dotset_string(JSON_Object *o, const char *name, const char *str)
{
	(void) o;
	if (name != g_key.buf) g_bad++;
	if (nondet_bool()) { g_parson_failed = 1; return JSONFailure; }
	if (g_set.n < SETN) {
		struct c17_set *e = &g_set.s[g_set.n];
		e->kind = g_key.kind; e->type = g_key.type; e->value = g_key.value; e->str = str;
		e->is_stack = 0; e->is_single = 0;
		if (g_key.kind == KEY_CHANTYPE) {
			e->is_stack = (strcmp(str, "stack") == 0);
			e->is_single = (strcmp(str, "single") == 0);
		}
	}
	g_set.n++;
	/* a dot-path set creates the intermediate objects */
	if ((g_key.kind == KEY_TITLE || g_key.kind == KEY_CHANTYPE || g_key.kind == KEY_LABEL) && g_key.type == g_o_type) g_def = 1;
	if (g_key.kind == KEY_LABEL && g_key.type == g_o_type && g_key.value == g_o_value) g_lab_def = 1;
	return JSONSuccess;
}

#include "ovni.c"            /* the real /repo/src/rt/ovni.c */

#define GHOST_PRE (g_hook_on == 1 && g_trunc == 0 && g_parson_failed == 0 && g_bad == 0 && g_set.n == 0)
#define GHOST_FRAME g_key, g_set, g_def, g_lab_def, g_bad, g_trunc, g_parson_failed, g_died
#define THREAD_USABLE (rthread.ready && !rthread.finished)

/* =====================================================================================
 * ovni_mark_type: refused (die) iff type outside [0,100), NULL or empty title, the type
 * is already defined in this thread's metadata (or the thread is not usable).
 * Otherwise: title and chan_type ("stack" iff OVNI_MARK_STACK, else "single") are set
 * under ovni.mark.<type>, nothing else.
 * ===================================================================================== */
int w_type, w_title_null, w_title_empty, w_def, w_ready, w_finished, w_lab_def; long w_flags; long long w_value;
WITNESS(ovni_mark_type);
void c_ovni_mark_type(int32_t type, long flags, const char *title)
__CPROVER_requires(title == NULL || __CPROVER_is_fresh(title, 1))
__CPROVER_requires(GHOST_PRE && g_o_type == type && (g_def == 0 || g_def == 1))
__CPROVER_requires(g_illegal == (type < 0 || type >= 100 || title == NULL || title[0] == '\0' || !THREAD_USABLE || g_def))
__CPROVER_requires(WBIND(ovni_mark_type, w_type == type && w_flags == flags && w_title_null == (title == NULL) &&
	(title == NULL || w_title_empty == (title[0] == '\0')) && w_def == g_def && w_ready == rthread.ready && w_finished == rthread.finished))
__CPROVER_assigns(GHOST_FRAME)
__CPROVER_ensures(!g_illegal)
__CPROVER_ensures(!g_parson_failed && !g_trunc && g_bad == 0)
__CPROVER_ensures(g_set.n == 2)
__CPROVER_ensures(g_set.s[0].kind == KEY_TITLE && g_set.s[0].type == type && g_set.s[0].str == title)
__CPROVER_ensures(g_set.s[1].kind == KEY_CHANTYPE && g_set.s[1].type == type &&
	g_set.s[1].is_stack == ((flags & OVNI_MARK_STACK) != 0) && g_set.s[1].is_single == ((flags & OVNI_MARK_STACK) == 0))
__CPROVER_ensures(g_def == 1)
;
void h_ovni_mark_type(void)
{
	int32_t type; long flags; const char *title;
	WITNESS_ON(ovni_mark_type);
	ovni_mark_type(type, flags, title);
	REACH("ovni_mark_type returns");
	if (w_type == 0 && w_flags == 0) REACH("type 0, single");
	if (w_type == 99 && w_flags == OVNI_MARK_STACK) REACH("type 99, stack");
}
/* the die direction once more, without contract instrumentation (plain harness, plan
 * "no_dfcc"): each documented refusal is attempted on a usable thread and never returns */
void h_ovni_mark_type_refusals(void)
{
	int32_t type = (int32_t) (nondet_uchar() % 100); long flags = nondet_long(); char buf[2]; const char *title = buf;
	int which = nondet_int();
	g_hook_on = 0;
	rthread.ready = 1; rthread.finished = 0;
	buf[0] = 'T'; buf[1] = '\0';
	g_def = 0;
	if (which == 0) { type = 100; REACH("type 100 attempted"); }
	else if (which == 1) { type = -1; REACH("type -1 attempted"); }
	else if (which == 2) { title = NULL; REACH("NULL title attempted"); }
	else if (which == 3) { buf[0] = '\0'; REACH("empty title attempted"); }
	else { g_def = 1; REACH("redefinition attempted"); }
	g_o_type = type;
	ovni_mark_type(type, flags, title);
	VASSERT(0, "ovni_mark_type must die on: type outside [0,100), NULL/empty title, redefinition");
}

/* =====================================================================================
 * ovni_mark_label: refused (die) iff type outside [0,100), value <= 0 (0 is the value the
 * statement forbids; the code also refuses negative values), NULL or empty label, type
 * not defined in this thread, value already labelled in this thread (or thread not
 * usable).  Otherwise exactly ovni.mark.<type>.labels.<value> = label is set.
 * ===================================================================================== */
int w_label_null, w_label_empty;
WITNESS(ovni_mark_label);
void c_ovni_mark_label(int32_t type, int64_t value, const char *label)
__CPROVER_requires(label == NULL || __CPROVER_is_fresh(label, 1))
__CPROVER_requires(GHOST_PRE && g_o_type == type && g_o_value == value && (g_def == 0 || g_def == 1) && (g_lab_def == 0 || g_lab_def == 1))
__CPROVER_requires(g_illegal == (type < 0 || type >= 100 || value <= 0 || label == NULL || label[0] == '\0' || !THREAD_USABLE || !g_def || g_lab_def))
__CPROVER_requires(WBIND(ovni_mark_label, w_type == type && w_value == value && w_label_null == (label == NULL) &&
	(label == NULL || w_label_empty == (label[0] == '\0')) && w_def == g_def && w_lab_def == g_lab_def && w_ready == rthread.ready && w_finished == rthread.finished))
__CPROVER_assigns(GHOST_FRAME)
__CPROVER_ensures(!g_illegal && value != 0)
__CPROVER_ensures(!g_parson_failed && !g_trunc && g_bad == 0)
__CPROVER_ensures(g_set.n == 1)
__CPROVER_ensures(g_set.s[0].kind == KEY_LABEL && g_set.s[0].type == type && g_set.s[0].value == value && g_set.s[0].str == label)
__CPROVER_ensures(g_def == 1 && g_lab_def == 1)
;
void h_ovni_mark_label(void)
{
	int32_t type; int64_t value; const char *label;
	WITNESS_ON(ovni_mark_label);
	ovni_mark_label(type, value, label);
	REACH("ovni_mark_label returns");
	if (w_type == 99 && w_value == 1) REACH("label for type 99 value 1");
	if (w_value == 0x7fffffffffffffffLL) REACH("label for INT64_MAX");
}
void h_ovni_mark_label_refusals(void)
{
	int32_t type = (int32_t) (nondet_uchar() % 100); int64_t value = nondet_long(); char buf[2]; const char *label = buf;
	int which = nondet_int();
	g_hook_on = 0;
	rthread.ready = 1; rthread.finished = 0;
	buf[0] = 'L'; buf[1] = '\0';
	if (value <= 0) value = 1;
	g_def = 1; g_lab_def = 0;
	if (which == 0) { type = 100; REACH("type 100 attempted"); }
	else if (which == 1) { value = 0; REACH("value 0 attempted"); }
	else if (which == 2) { value = -value; REACH("negative value attempted"); }
	else if (which == 3) { label = NULL; REACH("NULL label attempted"); }
	else if (which == 4) { buf[0] = '\0'; REACH("empty label attempted"); }
	else if (which == 5) { g_def = 0; REACH("label for an undefined type attempted"); }
	else { g_lab_def = 1; REACH("second label for a value attempted"); }
	g_o_type = type; g_o_value = value;
	ovni_mark_label(type, value, label);
	VASSERT(0, "ovni_mark_label must die on: type outside [0,100), value <= 0, NULL/empty label, undefined type, value already labelled");
}
