/* C16 (a5) -- the command line of ovnisort: usage() and parse_args() of the real src/emu/ovnisort.c.
 *
 *   usage       prints the help text (at least one line) and terminates the process with EXIT_FAILURE: never returns.
 *   parse_args  (UNBOUNDED: loop contract over any number of options) returns exactly when every option getopt
 *               delivered was -c or -n and an operand follows them (optind < argc); then: check mode is selected iff
 *               a -c was given (otherwise the mode is left as it was), the look-back window is the value atol gave
 *               for the LAST -n (otherwise left as it was), tracedir is argv[optind].  In every other case (an
 *               option getopt did not accept, or no operand) it prints the usage and terminates with EXIT_FAILURE
 *               -- the failure path also says "missing tracedir" when that is the reason.
 *
 * Outside the unit (libc), most general: getopt (any finite sequence of results 'c', 'n' with some optarg, '?' or any
 * other character; finally -1 with 1 <= optind <= argc, POSIX), atol (any value), exit (ends the path; status recorded).
 * CARVE-OUT (known observation O7, plan C16 assumptions: "-n is not validated"): atol results are taken >= 0 here;
 * a negative value is converted to a huge size_t (CBMC's conversion check flags the cast) and process_trace then
 * allocates (ssize_t) max_look_back slots. */
#include "prelude.h"
#include <getopt.h>

/* ---- exit: ends the path; the status and the moment are recorded */
int g_exit_ok;          /* the specification allows the process to end now (set by the harness logic below) */
int g_bad_opt;          /* getopt delivered something other than 'c' / 'n' */
int g_done;             /* getopt has returned -1 */
int g_argc;
unsigned g_usage_lines; /* rerr() lines printed */
static void a5_exit(int status)
{
	VASSERT(status == EXIT_FAILURE, "terminates with EXIT_FAILURE");
	VASSERT(g_usage_lines >= 1, "the usage text was printed before terminating");
#ifdef A5_ARGS_PARSE
	VASSERT(g_bad_opt || (g_done && optind >= g_argc), "terminates only for an unknown option or a missing operand");
	if (g_bad_opt) REACH("unknown option: usage and failure");
	if (!g_bad_opt && g_done && optind >= g_argc) REACH("missing tracedir: usage and failure");
#else
	REACH("usage terminates the process");
#endif
	__CPROVER_assume(0);
}
#undef rerr
#define rerr(...) (verif_info(), (void) g_usage_lines++)
#define exit(s) a5_exit(s)

/* ---- getopt / atol */
unsigned long g_remaining;      /* options still to come: arbitrary, finite */
int g_seen_c, g_seen_n; char *g_last_optarg; long g_last_atol; const char *g_atol_arg;
char a5_optarg_obj[4];
static int a5_getopt(int argc, char *const argv[], const char *optstring)
{
	(void) argv;
	VASSERT(argc == g_argc && optstring[0] == 'c' && optstring[1] == 'n' && optstring[2] == ':' && optstring[3] == '\0', "getopt(argc, argv, \"cn:\")");
	VASSERT(!g_done, "getopt is not called again after it returned -1");
	if (g_remaining == 0 || nondet_bool()) {
		g_done = 1;
		optind = nondet_int();
		__CPROVER_assume(1 <= optind && optind <= argc);
		return -1;
	}
	g_remaining--;
	int k = nondet_int();
	if (k == 'c') { g_seen_c = 1; return 'c'; }
	if (k == 'n') { g_seen_n = 1; optarg = a5_optarg_obj; g_last_optarg = optarg; return 'n'; }
	__CPROVER_assume(k != -1);
	g_bad_opt = 1;
	return k;
}
static long a5_atol(const char *s)
{
	g_atol_arg = s;
	long v = nondet_long();
	__CPROVER_assume(v >= 0);       /* CARVE-OUT O7, see above */
	g_last_atol = v;
	return v;
}
#define getopt(c, v, s) a5_getopt((c), (v), (s))
#define atol(s) a5_atol(s)
struct stream; struct trace;
ssize_t pwrite(int fd, const void *buf, size_t count, off_t offset) { (void) fd; (void) buf; (void) count; (void) offset; return -1; }
int stream_step(struct stream *stream) { (void) stream; return nondet_int(); }
#include "ovni.h"
struct ovni_ev g_cur_ev;
struct ovni_ev *stream_ev(struct stream *stream) { (void) stream; return &g_cur_ev; }
#define main ovnisort_main
#include "ovnisort.c"          /* the real /repo/src/emu/ovnisort.c */
#undef main
#undef exit
#undef getopt
#undef atol

#define RV __CPROVER_return_value
#define OLD(e) __CPROVER_old(e)

/* ================================================================= usage */
#ifdef A5_ARGS_USAGE
void c_usage(void)
__CPROVER_requires(g_usage_lines == 0 && DIAG_PRE)
__CPROVER_assigns(g_usage_lines, DIAG_FRAME)
/* never returns */
__CPROVER_ensures(0)
;
void h_usage(void)
{
	usage();
	VASSERT(0, "usage() must not return");
}
#endif

/* ================================================================= parse_args */
#ifdef A5_ARGS_PARSE
int g_mode0; size_t g_look0;
long w_argc; int w_optind;
WITNESS(parse_args);
void c_parse_args(int argc, char *argv[])
__CPROVER_requires(1 <= argc && argc <= 1000000 && g_argc == argc)
__CPROVER_requires(__CPROVER_is_fresh(argv, ((size_t) argc + 1) * sizeof(char *)))
__CPROVER_requires((operation_mode == SORT || operation_mode == CHECK) && g_mode0 == (int) operation_mode && g_look0 == max_look_back)
__CPROVER_requires(g_seen_c == 0 && g_seen_n == 0 && g_bad_opt == 0 && g_done == 0 && g_usage_lines == 0 && DIAG_PRE)
__CPROVER_requires(WBIND(parse_args, w_argc == argc))
__CPROVER_assigns(operation_mode, max_look_back, tracedir, optind, optarg, g_remaining, g_seen_c, g_seen_n, g_last_optarg, g_last_atol, g_atol_arg, g_bad_opt, g_done, g_usage_lines, DIAG_FRAME)
/* returns only when every option was accepted and an operand follows */
__CPROVER_ensures(g_bad_opt == 0 && g_done == 1 && 1 <= optind && optind < argc)
/* -c selects check mode, nothing else does */
__CPROVER_ensures((int) operation_mode == (g_seen_c ? (int) CHECK : g_mode0))
/* the last -n gives the look-back window (its own argument, through atol), nothing else does */
__CPROVER_ensures(g_seen_n ? (g_last_atol >= 0 && max_look_back == (size_t) g_last_atol && g_atol_arg == g_last_optarg) : max_look_back == g_look0)
/* the operand */
__CPROVER_ensures(tracedir == argv[optind])
/* silent on success */
__CPROVER_ensures(g_usage_lines == 0 && g_err == OLD(g_err))
;
void h_parse_args(void)
{
	int argc; char **argv;
	WITNESS_ON(parse_args);
	parse_args(argc, argv);
	if (!g_seen_c && !g_seen_n && w_argc == 2) REACH("ovnisort tracedir");
	if (g_seen_c && g_seen_n) REACH("-c and -n given");
	if (g_seen_n && optind == 7) REACH("several options before the operand");
}
#endif
