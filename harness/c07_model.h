/* C07 -- shared by c07_nosv.c and c07_nanos6.c (included after c07_task.c and
 * before the model's event.c).
 *
 * 1. Channel layer (chan.c is outside the unit): chan_set/chan_push/chan_pop are
 *    stubs of the most general behaviour (any call may fail) that append
 *    (kind, channel, value) to a ghost operation log.  Their exact semantics is
 *    the subject of C04/C08.
 * 2. Task layer: task_execute/pause/resume/end/task_create are proved exactly in
 *    the task_* groups (c07_task.c).  Here they are replaced by CALL-LOG
 *    abstractions (cl_*): the arguments and the result of the call are recorded,
 *    the result is arbitrary.  A model handler's contract then says exactly
 *    which task operation it delegates to, with which arguments, and that it
 *    accepts iff that operation does.
 * 3. The static helpers of update_task are replaced the same way when
 *    update_task itself is proved (sequence log: who was called in which order
 *    with which arguments). */
#ifndef C07_MODEL_H
#define C07_MODEL_H

#include "chan.h"

/* ---------------- channel operation log ---------------- */
enum { OP_SET = 1, OP_PUSH = 2, OP_POP = 3 };
#define LOGN 8
/* one struct per log: a single assigns target keeps DFCC's write-set loops short */
struct c07_oplog {
	unsigned n;                  /* operations so far */
	unsigned fail;               /* how many of them failed */
	int kind[LOGN];
	struct chan *chan[LOGN];
	int64_t type[LOGN];
	int64_t i[LOGN];
} g_ol;
#define g_op_n (g_ol.n)
#define g_chan_fail (g_ol.fail)
#define g_op_kind (g_ol.kind)
#define g_op_chan (g_ol.chan)
#define g_op_type (g_ol.type)
#define g_op_i (g_ol.i)
#define OPLOG_PRE (g_op_n == 0 && g_chan_fail < 1000000u)
#define OPLOG_FRAME g_ol

static int chan_log(int kind, struct chan *chan, struct value value)
{
	if (g_op_n < LOGN) {
		g_op_kind[g_op_n] = kind;
		g_op_chan[g_op_n] = chan;
		g_op_type[g_op_n] = value.type;
		g_op_i[g_op_n] = value.i;
	}
	g_op_n++;
	if (nondet_bool()) { g_chan_fail++; return -1; }
	return 0;
}
int chan_set(struct chan *chan, struct value value) { return chan_log(OP_SET, chan, value); }
int chan_push(struct chan *chan, struct value value) { return chan_log(OP_PUSH, chan, value); }
int chan_pop(struct chan *chan, struct value value) { return chan_log(OP_POP, chan, value); }

/* the k-th logged operation is (kind, channel c, int64 value v) / (kind, c, null) */
#define OP_IS(k, kind, c, v) (g_op_kind[k] == (kind) && g_op_chan[k] == (c) && \
	g_op_type[k] == VALUE_INT64 && g_op_i[k] == (int64_t) (v))
#define OP_IS_NULL(k, kind, c) (g_op_kind[k] == (kind) && g_op_chan[k] == (c) && \
	g_op_type[k] == VALUE_NULL && g_op_i[k] == 0)
#define NO_CHAN_FAILED (g_chan_fail == OLD(g_chan_fail))

/* what chan_read returns for a channel (spec reader, struct copies only) */
static inline struct value spec_chan_read(struct chan *c)
{
	struct value v;
	if (c->type == CHAN_SINGLE) {
		v = c->data.value;
	} else {
		struct chan_stack *st = &c->data.stack;
		if (st->n > 0)
			v = st->values[st->n - 1];
		else
			v = value_null();
	}
	return v;
}

/* ---------------- call log of the task layer ---------------- */
struct c07_tlog {
	unsigned n;                  /* task-layer calls so far */
	int kind;                    /* 'x','p','r','e' or 'c' (task_create) */
	struct task_stack *stack;
	struct task *task;
	uint32_t bid;
	int ret;
	struct task_info *info;
	uint32_t type_id, task_id, flags;
} g_tl;
#define g_tl_n (g_tl.n)
#define g_tl_kind (g_tl.kind)
#define g_tl_stack (g_tl.stack)
#define g_tl_task (g_tl.task)
#define g_tl_bid (g_tl.bid)
#define g_tl_ret (g_tl.ret)
#define g_tl_info (g_tl.info)
#define g_tl_type_id (g_tl.type_id)
#define g_tl_task_id (g_tl.task_id)
#define g_tl_flags (g_tl.flags)
#define TL_PRE (g_tl_n < 1000000u)
#define TL_FRAME g_tl
#define TL_OP_FRAME g_tl
#define TL_OP(k) \
	__CPROVER_requires(TL_PRE) \
	__CPROVER_assigns(TL_OP_FRAME) \
	__CPROVER_ensures(g_tl_n == OLD(g_tl_n) + 1 && g_tl_kind == (k) && g_tl_stack == stack && g_tl_task == task && \
		g_tl_bid == body_id && g_tl_ret == RV)
int cl_task_execute(struct task_stack *stack, struct task *task, uint32_t body_id) TL_OP('x');
int cl_task_pause(struct task_stack *stack, struct task *task, uint32_t body_id) TL_OP('p');
int cl_task_resume(struct task_stack *stack, struct task *task, uint32_t body_id) TL_OP('r');
int cl_task_end(struct task_stack *stack, struct task *task, uint32_t body_id) TL_OP('e');
int cl_task_create(struct task_info *info, uint32_t type_id, uint32_t task_id, uint32_t flags)
__CPROVER_requires(TL_PRE)
__CPROVER_assigns(TL_FRAME)
__CPROVER_ensures(g_tl_n == OLD(g_tl_n) + 1 && g_tl_kind == 'c' && g_tl_info == info && g_tl_type_id == type_id &&
	g_tl_task_id == task_id && g_tl_flags == flags && g_tl_ret == RV)
;

/* ---------------- sequence log of update_task's helpers ---------------- */
unsigned g_seq;                                  /* helper calls so far */
/* one record per helper: position of its call, its result, its arguments */
struct c07_seqrec { unsigned at; int ret; char tr; void *prev, *next; };
struct c07_seqrec g_sq_state, g_sq_ss, g_sq_chan, g_sq_rules;
#define g_at_state (g_sq_state.at)
#define g_at_ss (g_sq_ss.at)
#define g_at_chan (g_sq_chan.at)
#define g_at_rules (g_sq_rules.at)
#define g_ret_state (g_sq_state.ret)
#define g_ret_ss (g_sq_ss.ret)
#define g_ret_chan (g_sq_chan.ret)
#define g_ret_rules (g_sq_rules.ret)
#define g_ss_tr (g_sq_ss.tr)
#define g_chan_tr (g_sq_chan.tr)
#define g_rules_tr (g_sq_rules.tr)
#define g_chan_prev (g_sq_chan.prev)
#define g_chan_next (g_sq_chan.next)
#define g_rules_next (g_sq_rules.next)
#define SEQ_FRAME g_seq, g_sq_state, g_sq_ss, g_sq_chan, g_sq_rules
struct body *g_nb;                       /* candidate top of the stack after the state update */
#define SEQ_PRE (g_seq < 1000000u)

#endif
