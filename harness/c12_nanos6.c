/* C12 -- Nanos6 handlers (real nanos6/event.c): payload-size guards of the task
 * events (6Tx/e/p/r need 4 bytes, 6Tc exactly 8), shape of 6Yc (jumbo, type id +
 * nil terminated label), unknown values / categories / model. */
#include "prelude.h"
#include "harness/c12_handlers.h"
#include "nanos6/event.c"    /* real /repo/src/emu/nanos6/event.c */
#define TM_CH '6'
#define TM_THREAD_T struct nanos6_thread
#define TM_PROC_T struct nanos6_proc
#define TM_STATE_MIN 4
#define TM_CREATE_OK(ps) ((ps) == 8)
#define TM_KNOWN_C(c) ((c) == 'C' || (c) == 'S' || (c) == 'U' || (c) == 'F' || (c) == 'O' || (c) == 't' || (c) == 'H' || \
	(c) == 'D' || (c) == 'B' || (c) == 'W' || (c) == 'M' || (c) == 'P' || (c) == 'T' || (c) == 'Y')
#define TM_OUT_OF_CPU_CHECK 0
#include "harness/c12_taskmodel.h"
void h_model_event_fn(void)
{
	struct emu *emu;
	WITNESS_ON(model_event_fn);
	int r = model_nanos6_event(emu);
	if (r == 0) REACH("Nanos6 event dispatched");
	if (r != 0 && w_c != '6') REACH("event of another model refused");
}
