/* C06 (gap G2) -- the registry half of src/emu/bay.c: bay_init, bay_register, bay_find / find_bay_chan,
 * bay_add_cb (bay_enable_cb / bay_disable_cb / propagate are the subject of c06_mux.c / c06_bay.c).
 *   bay_init: READY, no channels, nothing dirty.
 *   bay_register: a channel whose name is already registered is refused (nothing changes); otherwise a
 *     bay channel {chan, bay, no callbacks, not dirty, not listed} is added under the channel's name and the
 *     channel gets the dirty callback cb_chan_is_dirty with THAT bay channel as argument -- so that the
 *     channel lands on the bay's dirty list the moment it becomes dirty (shown end to end through the
 *     real chan_dirty / set_dirty / cb_chan_is_dirty).
 *   bay_find: the registered channel of that name, or NULL.
 *   bay_add_cb: refused (NULL, nothing changes) iff func is NULL, the channel is not registered, or out
 *     of memory; otherwise a record {func, arg, bay channel, type}; DISABLED (on no list, counters
 *     untouched) or ENABLED (appended at the tail of the DIRTY resp. EMIT list of the bay channel,
 *     ncallbacks[type] + 1) exactly as the `enabled` argument says; the other list is untouched.
 * TRUSTED: uthash.  HASH_FIND_STR / HASH_ADD_STR are rebound to a ghost map kept IN the real data
 * (bay->channels = head, linked through hh.next, keys compared as strings), so a forgotten insertion or
 * a lookup under the wrong key is still seen.  Bounded: <= 2 registered channels, names < 4 bytes,
 * <= 1 callback already on each list.  Assume/assert harness on the real code (plain CBMC; DFCC crashes
 * CBMC 6.11 on bay.c's list code, HOWTO pitfall 24). */
#include "prelude.h"
#include "value.h"
_Static_assert(sizeof(struct value) == 16, "struct value has no padding");
#undef value_is_equal
#define value_is_equal(a, b) ((a)->type == (b)->type && (a)->i == (b)->i)
#include "uthash.h"
#include "chan.h"
#include "bay.h"

int g_alloc_failed, g_nfind, g_nadd;
static void *verif_calloc(size_t n, size_t s)
{
	void *p = calloc(n, s);
	if (p == NULL) g_alloc_failed = 1;
	return p;
}

static int name_eq(const char *a, const char *b)
{
	for (int i = 0; i < 4; i++) {
		if (a[i] != b[i]) return 0;
		if (a[i] == '\0') return 1;
	}
	VASSERT(0, "ghost map applicability: names are shorter than 4 bytes");
	return 0;
}
static struct bay_chan *verif_hash_find(struct bay_chan *head, const char *name)
{
	g_nfind++;
	struct bay_chan *p = head;
	for (int k = 0; k < 3; k++) {
		if (p == NULL) return NULL;
		if (name_eq(p->chan->name, name)) return p;
		p = p->hh.next;
	}
	VASSERT(p == NULL, "ghost map applicability: at most 3 entries");
	return NULL;
}
static void verif_hash_add(struct bay_chan **head, struct bay_chan *add, const char *key)
{
	g_nadd++;
	VASSERT(verif_hash_find(*head, key) == NULL, "HASH_ADD precondition: the key is not in the table");
	add->hh.key = (void *) key;
	add->hh.next = *head;
	*head = add;
}
#undef HASH_FIND_STR
#define HASH_FIND_STR(head, findstr, out) ((out) = verif_hash_find((head), (findstr)))
#undef HASH_ADD_STR
#define HASH_ADD_STR(head, strfield, add) verif_hash_add(&(head), (add), (add)->strfield)

#define calloc(n, s) verif_calloc((n), (s))
#include "chan.c"          /* real: chan_set_dirty_cb, chan_dirty, set_dirty */
#include "bay.c"
#undef calloc

static int stub_cb(struct chan *chan, void *arg) { (void) chan; (void) arg; return nondet_int(); }

#ifdef H_BAY_INIT
void h_bay_init(void)
{
	static struct bay B;
	static struct bay_chan junk;
	static struct chan jc;
	jc.name[0] = 'a'; jc.name[1] = '\0'; junk.chan = &jc; junk.hh.next = NULL;
	B.state = (enum bay_state) nondet_uchar(); B.channels = &junk; B.dirty = &junk;
	bay_init(&B);
	VASSERT(B.state == BAY_READY, "an initialised bay is READY (channels may become dirty)");
	VASSERT(B.channels == NULL && B.dirty == NULL, "no channels, nothing dirty");
	VASSERT(bay_find(&B, "a") == NULL, "nothing is found in an initialised bay");
	REACH("bay_init returns");
}
#endif

#ifdef H_BAY_FIND
void h_bay_find(void)
{
	static struct bay B;
	static struct bay_chan b0, b1;
	static struct chan c0, c1;
	char k0 = nondet_char(), k1 = nondet_char(), q = nondet_char();
	__CPROVER_assume(k0 != 0 && k1 != 0 && k0 != k1);
	int n = nondet_int(); __CPROVER_assume(n >= 0 && n <= 2);
	c0.name[0] = k0; c0.name[1] = '\0'; c1.name[0] = k1; c1.name[1] = '\0';
	b0.chan = &c0; b1.chan = &c1; b0.bay = &B; b1.bay = &B;
	b0.hh.next = (n == 2) ? &b1 : NULL; b1.hh.next = NULL;
	B.channels = (n >= 1) ? &b0 : NULL; B.state = BAY_READY; B.dirty = NULL;
	char name[2]; name[0] = q; name[1] = '\0';
	struct chan *r = bay_find(&B, name);
	struct chan *want = (n >= 1 && q == k0) ? &c0 : (n >= 2 && q == k1) ? &c1 : (struct chan *) NULL;
	VASSERT(r == want, "bay_find returns the channel registered under that name, or NULL");
	VASSERT(B.channels == ((n >= 1) ? &b0 : NULL) && b0.chan == &c0 && b1.chan == &c1, "lookup changes nothing");
	if (r == &c1) REACH("second entry found");
	if (r == NULL && n == 2) REACH("not found");
}
#endif

#ifdef H_BAY_REGISTER
int w_has_pre, w_dup;
static int old_cb(struct chan *chan, void *arg) { (void) chan; (void) arg; return 0; }
void h_bay_register(void)
{
	bay_cb_func_t keep1 = stub_cb; chan_cb_t keep2 = cb_chan_is_dirty, keep3 = old_cb; (void) keep1; (void) keep2; (void) keep3;
	static struct bay B;
	static struct bay_chan bpre, dl;
	static struct chan pre, C;
	static int old_arg;
	char k0 = nondet_char(), k1 = nondet_char();
	__CPROVER_assume(k0 != 0 && k1 != 0);
	int has_pre = nondet_bool();
	pre.name[0] = k0; pre.name[1] = '\0';
	C.name[0] = k1; C.name[1] = '\0';
	bpre.chan = &pre; bpre.bay = &B; bpre.hh.next = NULL;
	B.channels = has_pre ? &bpre : NULL;
	enum bay_state st = (enum bay_state) nondet_uchar();
	B.state = st; B.dirty = &dl;
	C.dirty_cb = old_cb; C.dirty_arg = &old_arg; C.is_dirty = 0; C.type = nondet_bool() ? CHAN_STACK : CHAN_SINGLE;
	enum chan_type ty = C.type;
	int dup = has_pre && k0 == k1;
	w_has_pre = has_pre; w_dup = dup;
	g_err = 0; g_alloc_failed = 0; g_nadd = 0;

	int r = bay_register(&B, &C);

	VASSERT((r == 0) == (!dup && !g_alloc_failed), "bay_register refuses exactly a name that is already registered (or out of memory)");
	VASSERT(r == 0 || g_err > 0, "a refusal is diagnosed");
	VASSERT(B.state == st && B.dirty == &dl, "registering does not touch the bay state or the dirty list");
	VASSERT(C.is_dirty == 0 && C.type == ty && C.name[0] == k1 && C.name[1] == '\0', "the channel itself is not modified (but for its dirty callback)");
	VASSERT(!has_pre || (verif_hash_find(B.channels, pre.name) == &bpre && bpre.chan == &pre), "channels registered before stay registered");
	if (r != 0) {
		VASSERT(B.channels == (has_pre ? &bpre : NULL) && g_nadd == 0, "refused: the registry is unchanged");
		VASSERT(C.dirty_cb == old_cb && C.dirty_arg == &old_arg, "refused: the channel keeps its dirty callback");
		REACH("bay_register refused");
		if (dup) REACH("refused: duplicate name");
		if (!dup) REACH("refused: out of memory");
	} else {
		struct bay_chan *nb = verif_hash_find(B.channels, C.name);
		VASSERT(g_nadd == 1 && nb != NULL && nb != &bpre, "a new bay channel is found under the channel's name");
		VASSERT(nb->chan == &C && nb->bay == &B, "the bay channel links the channel and the bay");
		VASSERT(bay_find(&B, C.name) == &C, "bay_find finds the channel");
		VASSERT(C.dirty_cb == cb_chan_is_dirty, "the channel's dirty callback is cb_chan_is_dirty");
		VASSERT(C.dirty_arg == nb, "... with the channel's own bay channel as argument");
		VASSERT(nb->cb[BAY_CB_DIRTY] == NULL && nb->cb[BAY_CB_EMIT] == NULL && nb->ncallbacks[BAY_CB_DIRTY] == 0 && nb->ncallbacks[BAY_CB_EMIT] == 0, "the bay channel starts without callbacks");
		VASSERT(nb->is_dirty == 0 && nb->next == NULL && nb->prev == NULL, "... not dirty and on no list");
		/* end to end: the registered channel becomes dirty -> it is on the bay's dirty list */
		B.state = BAY_READY; B.dirty = NULL;
		int r2 = chan_dirty(&C);
		VASSERT(r2 == 0 && C.is_dirty == 1 && B.dirty == nb && nb->next == NULL && nb->prev == nb, "a registered channel that becomes dirty is put on the bay's dirty list");
		REACH("bay_register accepted");
		if (has_pre) REACH("second channel registered");
		if (!has_pre) REACH("first channel registered");
	}
}
#endif

#ifdef H_BAY_ADD_CB
int w_type, w_enabled, w_has_ex, w_func_null, w_registered;
void h_bay_add_cb(void)
{
	bay_cb_func_t keep1 = stub_cb; chan_cb_t keep2 = cb_chan_is_dirty; (void) keep1; (void) keep2;
	static struct bay B;
	static struct bay_chan bc;
	static struct chan C, U;
	static struct bay_cb ex[2];
	static int the_arg;
	C.name[0] = 'a'; C.name[1] = '\0'; U.name[0] = 'b'; U.name[1] = '\0';
	bc.chan = &C; bc.bay = &B; bc.hh.next = NULL; bc.is_dirty = 0;   /* nothing ever sets bay_chan.is_dirty (plan assumption) */
	B.channels = &bc; B.state = BAY_READY; B.dirty = NULL;
	int has_ex[2], old_n[2];
	for (int p = 0; p < 2; p++) {
		has_ex[p] = nondet_bool();
		old_n[p] = nondet_int(); __CPROVER_assume(old_n[p] >= 0 && old_n[p] < INT_MAX - 2);
		bc.ncallbacks[p] = old_n[p];
		ex[p].func = stub_cb; ex[p].arg = NULL; ex[p].bchan = &bc; ex[p].enabled = 1; ex[p].type = p;
		ex[p].next = NULL; ex[p].prev = &ex[p];
		bc.cb[p] = has_ex[p] ? &ex[p] : NULL;
	}
	int type = nondet_bool() ? BAY_CB_EMIT : BAY_CB_DIRTY;
	int other = 1 - type;
	bay_cb_func_t func = nondet_bool() ? stub_cb : (bay_cb_func_t) NULL;
	struct chan *target = nondet_bool() ? &C : &U;
	int enabled = nondet_int();
	w_type = type; w_enabled = enabled; w_has_ex = has_ex[type]; w_func_null = (func == NULL); w_registered = (target == &C);
	g_err = 0; g_alloc_failed = 0;

	struct bay_cb *cb = bay_add_cb(&B, (enum bay_cb_type) type, target, func, &the_arg, enabled);

	VASSERT((cb != NULL) == (func != NULL && target == &C && !g_alloc_failed), "bay_add_cb refuses exactly: no function, channel not registered, out of memory");
	VASSERT(cb != NULL || g_err > 0, "a refusal is diagnosed");
	VASSERT(B.channels == &bc && bc.chan == &C && bc.is_dirty == 0 && B.dirty == NULL && B.state == BAY_READY, "the registry is not modified");
	/* the other phase is never touched */
	VASSERT(bc.cb[other] == (has_ex[other] ? &ex[other] : NULL) && ex[other].next == NULL && ex[other].prev == &ex[other] && bc.ncallbacks[other] == old_n[other],
		"callbacks of the other phase are untouched");
	if (cb == NULL || enabled == 0) {
		VASSERT(bc.cb[type] == (has_ex[type] ? &ex[type] : NULL) && ex[type].next == NULL && ex[type].prev == &ex[type] && bc.ncallbacks[type] == old_n[type],
			"refused or disabled: the callback list of the channel is unchanged");
	}
	if (cb != NULL) {
		VASSERT(cb != &ex[0] && cb != &ex[1], "a new record");
		VASSERT(cb->func == func && cb->arg == &the_arg && cb->bchan == &bc && cb->type == type, "the record carries func, arg, the channel's bay channel and the phase asked for");
		VASSERT(cb->enabled == (enabled != 0), "enabled or disabled exactly as asked");
		if (enabled == 0) {
			VASSERT(cb->next == NULL && cb->prev == NULL, "a disabled callback is on no list");
			REACH("callback added disabled");
		} else {
			VASSERT(bc.ncallbacks[type] == old_n[type] + 1, "ncallbacks counts the enabled callback");
			if (has_ex[type])
				VASSERT(bc.cb[type] == &ex[type] && ex[type].next == cb && cb->prev == &ex[type] && cb->next == NULL && ex[type].prev == cb, "appended at the tail of the phase's list");
			else
				VASSERT(bc.cb[type] == cb && cb->prev == cb && cb->next == NULL, "the only callback of the phase's list");
			REACH("callback added enabled");
			if (type == BAY_CB_EMIT && has_ex[type]) REACH("emit callback appended after another");
			if (type == BAY_CB_DIRTY && !has_ex[type]) REACH("first dirty callback");
		}
	} else {
		REACH("bay_add_cb refused");
		if (func == NULL) REACH("refused: no function");
		if (func != NULL && target != &C) REACH("refused: channel not registered");
		if (func != NULL && target == &C) REACH("refused: out of memory");
	}
}
#endif
