/* A5 (function coverage, plan C15) -- the two accessors of the real src/emu/loom.c that no group
 * named yet: loom_get_gindex, loom_get_vcpu.  Exact value, EMPTY write frame, arbitrary loom.
 * loom_get_vcpu hands out the loom's OWN embedded virtual CPU (the object every "index -1" /
 * "phyid -1" lookup of C15 resolves to: loom_get_cpu(-1), loom_find_cpu(-1)), never a copy.
 * Nothing outside loom.c is reached by these two functions (no stubs needed). */
#include "prelude.h"
#include "loom.c"          /* the real /repo/src/emu/loom.c */

#define RV __CPROVER_return_value

WITNESS(loom_get_gindex);
long w_gi, w_rank_min;
int64_t c_loom_get_gindex(struct loom *loom)
__CPROVER_requires(__CPROVER_is_fresh(loom, sizeof(*loom)))
__CPROVER_requires(WBIND(loom_get_gindex, w_gi == loom->gindex && w_rank_min == loom->rank_min))
__CPROVER_assigns()
__CPROVER_ensures(RV == loom->gindex)
;
void h_loom_get_gindex(void)
{
	struct loom *loom;
	WITNESS_ON(loom_get_gindex);
	int64_t r = loom_get_gindex(loom);
	if (r == -1) REACH("index not set yet (-1)");
	if (r == 0 && w_rank_min == 3) REACH("first loom (other fields hold other numbers)");
	if (r == 0x7fffffffffffffffL) REACH("largest index");
}

WITNESS(loom_get_vcpu);
int w_vphy;
struct cpu *c_loom_get_vcpu(struct loom *loom)
__CPROVER_requires(__CPROVER_is_fresh(loom, sizeof(*loom)))
__CPROVER_requires(WBIND(loom_get_vcpu, w_vphy == loom->vcpu.phyid))
__CPROVER_assigns()
__CPROVER_ensures(RV == &loom->vcpu)
;
void h_loom_get_vcpu(void)
{
	struct loom *loom;
	WITNESS_ON(loom_get_vcpu);
	struct cpu *c = loom_get_vcpu(loom);
	if (c != NULL && w_vphy == -1) REACH("virtual CPU of an initialised loom");
	if (c != NULL && w_vphy == 5) REACH("arbitrary loom");
}
