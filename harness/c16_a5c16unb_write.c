/* C16 / C19 -- ovnisort.c write_events: UNBOUNDED (loop contract loops/c16_a5c16unb_write.json): any number n
 * of table entries, source region of symbolic size (<= 2^40 bytes) with ARBITRARY bytes, events of any legal
 * size (normal 12 / 14..28 bytes, jumbo 16 + size field), output buffer of symbolic capacity.
 *
 * What write_events assumes from its caller (sort_buf: table = the pointers index_events stored, permuted by
 * qsort; buf = malloc(bufsize) where bufsize is the size of the region the events come from):
 *   HYP-T  every table[i], 0 <= i < n, points at the start of a WHOLE event of the source region g_reg
 *          (header, jumbo size field and the whole event lie inside the region; size <= INT32_MAX);
 *   HYP-S  the sizes of table[0..i] sum to at most the capacity of buf, for every i < n
 *          (in sort_buf: the entries are DISTINCT events of a region of exactly that many bytes -- the
 *          arithmetic lemma "sizes of distinct events of a region sum to at most its size" is NOT proved here).
 * Both are universally quantified over i; they are supplied LAZILY by the monitor of ovni_ev_size (rt/ovni.c,
 * outside the unit), which the code must call for table[g_cnt] (asserted) before copying it: the monitor
 * assumes the instance for i == g_cnt.  The loop never dereferences a table entry itself; it hands it to
 * ovni_ev_size and to memcpy (libc, outside the unit).  The memcpy model asserts that exactly the event whose
 * size was just asked is copied to exactly the current end of the output, asserts __CPROVER_r_ok / w_ok on the
 * two ranges (this is where a step outside the output buffer or the region fails), havocs the destination
 * range and then sets the ONE observed output byte (g_opos): the most general copy for a postcondition that
 * looks at one arbitrary byte.
 * Inductive ghosts: g_cnt events copied, g_out bytes written (= sum of their sizes).  Observer: output position
 * g_opos; when the copy of table[g_oi] covers it: g_ostart (where that copy starts in the output) and g_ooff
 * (where that event starts in the source region). */
int g_no_die;
#define VERIF_DIE_HOOK __CPROVER_assert(!g_no_die, "die() reached although the contract excludes it")
#include "prelude.h"
#include "ovni.h"

_Static_assert(sizeof(struct ovni_ev_header) == 12, "header layout");
_Static_assert(offsetof(struct ovni_ev, payload.jumbo.size) == 12, "jumbo size field");

#define A5_MAXBYTES (1L << 40)
#define RD32(p) (*(const uint32_t *) (p))
#define NORMAL_SIZE(fl) (12L + ((fl) & 0x0f) + (((fl) & 0x0f) != 0))

uint8_t *g_reg;  long g_total;        /* source region: ONE object of exactly g_total bytes, arbitrary content */
uint8_t *g_obuf; long g_cap;          /* output buffer: ONE object of exactly g_cap bytes */
struct ovni_ev **g_table; long g_n;   /* the table: ONE object of exactly g_n pointers, arbitrary content */
long g_cnt;                           /* events copied so far */
long g_out;                           /* bytes written so far */
int g_pending; long g_cur_off, g_cur_sz;   /* size asked, copy not yet done: source offset and size of that event */
long g_njumbo;
/* observer on one output byte */
long g_opos; uint8_t g_oold;          /* arbitrary output position and the byte it held before */
int g_ohit; long g_oi, g_ostart, g_ooff;

#ifdef A5_REAL_SIZE
/* C19 variant: the REAL ovni_ev_size / ovni_payload_size / get_jumbo_payload_size (rt/ovni.c) also run on the
 * region bytes and must return the size computed by the monitor (not on a jumbo event with fewer than 28 bytes
 * of room: CBMC checks the 4-byte read of payload.jumbo.size as a 16-byte access, see c19_stream.c). */
#define ovni_ev_size a5_real_ovni_ev_size
#include "ovni.c"          /* the real /repo/src/rt/ovni.c */
#undef ovni_ev_size
#endif

int
ovni_ev_size(const struct ovni_ev *ev)
{
	VASSERT(g_pending == 0, "one size query per event, then its copy");
	VASSERT(g_cnt < g_n, "size asked for a table entry below n");
	VASSERT(ev == g_table[g_cnt], "the entries are taken in table order");
	/* HYP-T for i == g_cnt */
	long off = nondet_long();
	__CPROVER_assume(0 <= off && off <= g_total - 12);
	__CPROVER_assume((const uint8_t *) ev == g_reg + off);
	uint8_t fl = g_reg[off];
	long sz;
	if (fl & OVNI_EV_JUMBO) {
		__CPROVER_assume(off <= g_total - 16);
		sz = 16L + (long) RD32(g_reg + off + 12);
		g_njumbo++;
	} else {
		sz = NORMAL_SIZE(fl);
	}
	__CPROVER_assume(sz <= g_total - off && sz <= INT32_MAX);
#ifdef A5_REAL_SIZE
	if (!((fl & OVNI_EV_JUMBO) && g_total - off < 28))
		VASSERT(a5_real_ovni_ev_size((const struct ovni_ev *) (g_reg + off)) == sz, "the real ovni_ev_size returns the size the trace format defines");
#endif
	/* HYP-S for i == g_cnt */
	__CPROVER_assume(sz <= g_cap - g_out);
	g_pending = 1; g_cur_off = off; g_cur_sz = sz;
	return (int) sz;
}

void *
memcpy(void *dst, const void *src, size_t n)
{
	VASSERT(g_pending == 1 && (long) n == g_cur_sz, "exactly the bytes of the event whose size was asked are copied");
	VASSERT((const uint8_t *) src == g_reg + g_cur_off, "copied from the start of that event");
	VASSERT((uint8_t *) dst == g_obuf + g_out, "copied to the current end of the output (no gap, no overlap)");
	VASSERT(__CPROVER_r_ok(g_reg + g_cur_off, n), "source range inside the region");
	VASSERT(__CPROVER_w_ok(g_obuf + g_out, n), "destination range inside the output buffer");
	__CPROVER_havoc_slice(g_obuf + g_out, n);
	if (g_out <= g_opos && g_opos - g_out < (long) n) {
		g_obuf[g_opos] = g_reg[g_cur_off + (g_opos - g_out)];
		g_ohit = 1; g_oi = g_cnt; g_ostart = g_out; g_ooff = g_cur_off;
	}
	g_out += (long) n;
	g_cnt++;
	g_pending = 0;
	return dst;
}
ssize_t pwrite(int fd, const void *buf, size_t count, off_t offset) { (void) fd; (void) buf; (void) offset; (void) count; return nondet_long(); }
struct stream;
int stream_step(struct stream *stream) { (void) stream; return nondet_int(); }
struct ovni_ev g_cur_ev;
struct ovni_ev *stream_ev(struct stream *stream) { (void) stream; return &g_cur_ev; }
#ifndef A5_REAL_SIZE
uint64_t ovni_ev_get_clock(const struct ovni_ev *ev) { return ev->header.clock; }
#endif

#define main ovnisort_main
#include "ovnisort.c"          /* the real /repo/src/emu/ovnisort.c */
#undef main

#define RV __CPROVER_return_value

/* ================================================================= write_events */
/* The n events of the table are written back to back, in table order, from buf[0]: the byte at the arbitrary
 * output position g_opos below the total written is byte (g_opos - g_ostart) of the event table[g_oi] whose
 * copy covers it; bytes at or after the total keep their value; nothing else is written. */
long w_n, w_total, w_cap;
WITNESS(write_events);
void c_write_events(struct ovni_ev **table, long n, uint8_t *buf)
__CPROVER_requires(12 <= g_total && g_total <= A5_MAXBYTES && __CPROVER_is_fresh(g_reg, (size_t) g_total))
__CPROVER_requires(1 <= g_cap && g_cap <= A5_MAXBYTES && __CPROVER_is_fresh(g_obuf, (size_t) g_cap))
__CPROVER_requires(0 <= g_n && g_n <= A5_MAXBYTES / 12 && __CPROVER_is_fresh(g_table, (size_t) g_n * sizeof(struct ovni_ev *)))
__CPROVER_requires(__CPROVER_pointer_equals(table, g_table))
__CPROVER_requires(__CPROVER_pointer_equals(buf, g_obuf))
__CPROVER_requires(n == g_n && g_cnt == 0 && g_out == 0 && g_pending == 0 && g_njumbo == 0 && g_ohit == 0)
__CPROVER_requires(0 <= g_opos && g_opos < g_cap && g_oold == g_obuf[g_opos])
__CPROVER_requires(WBIND(write_events, w_n == n && w_total == g_total && w_cap == g_cap))
__CPROVER_assigns(__CPROVER_object_whole(g_obuf), g_cnt, g_out, g_pending, g_cur_off, g_cur_sz, g_njumbo, g_ohit, g_oi, g_ostart, g_ooff)
__CPROVER_ensures(g_cnt == g_n && g_pending == 0 && 0 <= g_out && g_out <= g_cap && 12 * g_cnt <= g_out)
__CPROVER_ensures((g_ohit == 1) == (g_opos < g_out))
__CPROVER_ensures(g_ohit == 0 || (0 <= g_oi && g_oi < g_n && 0 <= g_ostart && g_ostart <= g_opos && 0 <= g_ooff && g_opos - g_ostart < g_total - g_ooff))
__CPROVER_ensures(g_ohit == 0 || (g_table[g_oi] == (struct ovni_ev *) (g_reg + g_ooff) && g_obuf[g_opos] == g_reg[g_ooff + (g_opos - g_ostart)]))
__CPROVER_ensures(g_ohit == 1 || g_obuf[g_opos] == g_oold)
;
void h_write_events(void)
{
	struct ovni_ev **table; long n; uint8_t *buf;
	WITNESS_ON(write_events);
	g_no_die = 1;
	write_events(table, n, buf);
	if (w_n == 0) REACH("empty table: nothing written");
	if (w_n >= 1000 && g_ohit && g_oi == 700 && g_ooff == 24 && g_opos - g_ostart == 20 && g_njumbo >= 1) REACH("byte 20 of the 700th entry, which is the event at offset 24 of the region");
	if (w_n >= 2 && !g_ohit) REACH("observer beyond the bytes written");
	if (w_n >= 2 && g_out == w_cap && g_out == w_total) REACH("output filled exactly");
}
