/* c15_spec.h -- C15: the metadata merge as a SPEC FUNCTION, written from the
 * property statement (not from proc.c):
 *
 *   merge(proc_state, meta_view) -> refused | proc_state'
 *
 * Per-process attributes: app id (mandatory at the end, > 0), rank and rank
 * count (optional, defined together, 0 <= rank < nranks).
 *   - an absent attribute leaves the process unchanged;
 *   - the first definition sets it;
 *   - an equal re-definition is accepted;
 *   - a different re-definition (app id; rank; rank count) is refused;
 *   - invalid values (app id <= 0, rank < 0, nranks <= 0, rank >= nranks,
 *     rank without rank count) are refused.
 * A rank count carried by a stream WITHOUT a rank is not an attribute
 * definition (the runtime always writes both); it is ignored.
 *
 * Pure macros so that the same text is used in contracts (ensures) and in the
 * lemma harness. */
#ifndef C15_SPEC_H
#define C15_SPEC_H

#define SPEC_APPID_UNSET 0
#define SPEC_RANK_UNSET  (-1)

/* state invariants */
#define SPEC_APPID_WF(st) ((st) >= 0)
#define SPEC_RANK_WF(r, n) (((r) == SPEC_RANK_UNSET && (n) == 0) || (0 <= (r) && (r) < (n)))
#define SPEC_PROC_WF(a, r, n) (SPEC_APPID_WF(a) && SPEC_RANK_WF(r, n))

/* app id */
#define SPEC_APPID_OK(st, has, v) (!(has) || ((v) > 0 && ((st) == SPEC_APPID_UNSET || (st) == (v))))
#define SPEC_APPID_NEW(st, has, v) ((has) ? (v) : (st))

/* rank + rank count */
#define SPEC_RANK_VALID(hr, r, hn, n) ((hn) && (r) >= 0 && (n) > 0 && (r) < (n))
#define SPEC_RANK_OK(sr, sn, hr, r, hn, n) (!(hr) || (SPEC_RANK_VALID(hr, r, hn, n) && \
	((sr) == SPEC_RANK_UNSET || ((sr) == (r) && (sn) == (n)))))
#define SPEC_RANK_NEW_RANK(sr, sn, hr, r, hn, n)   ((hr) ? (r) : (sr))
#define SPEC_RANK_NEW_NRANKS(sr, sn, hr, r, hn, n) ((hr) ? (n) : (sn))

/* whole process */
#define SPEC_PROC_OK(sa, sr, sn, ha, a, hr, r, hn, n) (SPEC_APPID_OK(sa, ha, a) && SPEC_RANK_OK(sr, sn, hr, r, hn, n))

/* three-way comparison by an integer key, and what a total preorder is */
#define SPEC_CMP3(k1, k2) (((k1) < (k2)) ? -1 : (((k1) > (k2)) ? 1 : 0))
#define SPEC_SIGN(x) (((x) < 0) ? -1 : (((x) > 0) ? 1 : 0))
#define SPEC_PREORDER_ASSERTS(ab, ba, bc, ac, aa, ka, kb, kc) { \
	VASSERT(SPEC_SIGN(ab) == -SPEC_SIGN(ba), "comparator antisymmetric in sign: cmp(a,b) == -cmp(b,a)"); \
	VASSERT((aa) == 0, "comparator reflexive: cmp(a,a) == 0"); \
	VASSERT(!((ab) <= 0 && (bc) <= 0) || (ac) <= 0, "comparator transitive (<=)"); \
	VASSERT(!((ab) < 0 && (bc) <= 0) || (ac) < 0, "comparator transitive (strict)"); \
	VASSERT(!((ab) == 0 && (bc) == 0) || (ac) == 0, "comparator: ties are an equivalence"); \
	VASSERT(SPEC_SIGN(ab) == SPEC_CMP3(ka, kb) && SPEC_SIGN(bc) == SPEC_CMP3(kb, kc) && SPEC_SIGN(ac) == SPEC_CMP3(ka, kc), \
		"comparator orders by the documented key, ascending"); \
	}

#endif
