/* C13 -- Paraver .prv writer: exact contracts on the real src/emu/pv/prv.c
 *
 * Observable output = the arguments of the two fprintf calls of prv.c (c13_io.h):
 *   write_line:   fprintf(file, "2:0:1:1:%ld:%PRIi64:%PRIi64:%PRIi64\n", row_base1, prv->time, type, value)
 *   write_header: fprintf(file, "#Paraver (...):%020lld_ns:0:1:1(%d:1)\n", duration, nrows)
 * recorded in ghosts g_line_* / g_hdr_* together with a global I/O sequence number. */
#include "prelude.h"
#include "value.h"
_Static_assert(sizeof(struct value) == 16, "struct value has no padding");
#undef value_is_equal
#define value_is_equal(a, b) ((a)->type == (b)->type && (a)->i == (b)->i)
#include "c13_io.h"

/* ---- ghost output log ---- */
unsigned g_seq;                       /* number of I/O operations so far (fprintf, fseek, fclose, fopen) */
unsigned g_line_n;                    /* PRV event lines written */
long g_line_row, g_line_time, g_line_type, g_line_val;   /* ... of the last one */
FILE *g_line_f;
unsigned g_line_seq;
unsigned g_hdr_n;                     /* header lines written */
long g_hdr_dur, g_hdr_nrows;
FILE *g_hdr_f;
unsigned g_hdr_seq;
unsigned g_pr_other;                  /* any other fprintf (there is none in prv.c) */
#define IO_PRE (g_seq < 1000000u && g_line_n < 1000000u && g_hdr_n < 1000000u && g_pr_other < 1000000u && \
	g_seek_n < 1000000u && g_close_n < 1000000u && g_open_n < 1000000u)
#define LINE_FRAME g_seq, g_line_n, g_line_row, g_line_time, g_line_type, g_line_val, g_line_f, g_line_seq, g_pr_other
#define HDR_FRAME g_seq, g_hdr_n, g_hdr_dur, g_hdr_nrows, g_hdr_f, g_hdr_seq, g_pr_other

static int
c13_print(int nargs, FILE *f, const char *fmt, long a, long b, long c, long d)
{
	g_seq++;
	if (nargs == 6 && fmt[0] == '2') {
		g_line_n++; g_line_seq = g_seq; g_line_f = f;
		g_line_row = a; g_line_time = b; g_line_type = c; g_line_val = d;
	} else if (nargs == 4 && fmt[0] == '#') {
		g_hdr_n++; g_hdr_seq = g_seq; g_hdr_f = f;
		g_hdr_dur = a; g_hdr_nrows = b;
	} else {
		g_pr_other++;
	}
	return nondet_int();
}

/* ---- stdio outside the unit: most general results, calls logged ---- */
unsigned g_seek_n, g_seek_seq; FILE *g_seek_f; long g_seek_off; int g_seek_whence;
unsigned g_close_n, g_close_seq; FILE *g_close_f;
unsigned g_open_n; FILE *g_open_ret; char g_open_mode;
static char g_file_obj;               /* stands for the FILE object handed out by fopen */
#define STDIO_FRAME g_seek_n, g_seek_seq, g_seek_f, g_seek_off, g_seek_whence, g_close_n, g_close_seq, g_close_f

int fseek(FILE *f, long off, int whence)
{
	g_seq++; g_seek_n++; g_seek_seq = g_seq; g_seek_f = f; g_seek_off = off; g_seek_whence = whence;
	return nondet_int();
}
int fclose(FILE *f)
{
	g_seq++; g_close_n++; g_close_seq = g_seq; g_close_f = f;
	return nondet_int();
}
FILE *fopen(const char *path, const char *mode)
{
	(void) path;
	g_seq++; g_open_n++; g_open_mode = mode[0];
	if (nondet_bool()) { g_lowfail++; g_open_ret = NULL; return NULL; }
	g_open_ret = (FILE *) &g_file_obj;
	return g_open_ret;
}

/* ---- channel layer, outside the unit ----
 * chan_read: assumed contract (proved in plan C08, group chan_read: returns 0 and the current
 * value).  Here it is the most general reader: result and value are the arbitrary ghost inputs
 * w_rd_ret / (w_rd_t, w_rd_i) (statics are havocked by DFCC, nothing constrains them except the
 * PRV_NEXT range below). */
#include "chan.h"
#include "bay.h"
int w_rd_ret; int64_t w_rd_t, w_rd_i;
unsigned g_rd_n; struct chan *g_rd_chan;
int chan_read(struct chan *chan, struct value *value)
{
	g_rd_n++; g_rd_chan = chan;
	if (w_rd_ret != 0) return w_rd_ret;
	value->type = w_rd_t;
	value->i = w_rd_i;
	return 0;
}
/* bay_add_cb (bay.c): logged, may fail */
unsigned g_cb_n; struct bay *g_cb_bay; int g_cb_type; struct chan *g_cb_chan; bay_cb_func_t g_cb_func;
void *g_cb_arg; int g_cb_enabled;
static struct bay_cb g_cb_obj;
#define CB_FRAME g_cb_n, g_cb_bay, g_cb_type, g_cb_chan, g_cb_func, g_cb_arg, g_cb_enabled
struct bay_cb *bay_add_cb(struct bay *bay, enum bay_cb_type type, struct chan *chan, bay_cb_func_t func, void *arg, int enabled)
{
	g_cb_n++; g_cb_bay = bay; g_cb_type = (int) type; g_cb_chan = chan; g_cb_func = func; g_cb_arg = arg; g_cb_enabled = enabled;
	if (nondet_bool()) { g_lowfail++; return NULL; }
	return &g_cb_obj;
}

#include "pv/prv.c"        /* the real /repo/src/emu/pv/prv.c */

#define PRVSZ sizeof(struct prv)
#define RCSZ sizeof(struct prv_chan)
/* invariant of a registered row (established by prv_register, needed by emit):
 * the 1-based row lies inside the declared row count */
#define RCHAN_WF(rc, p) ((rc)->row_base1 >= 1 && (rc)->row_base1 <= (p)->nrows)

/* =====================================================================================
 * 1. prv_advance: the clock of the trace only moves forward
 * ===================================================================================== */
WITNESS(prv_advance);
int64_t w_time, w_ptime;
/* witness ghosts shared by the groups below (inputs of the native replay drivers native/c13_prv_replay*.c) */
long w_flags, w_rowb1, w_nrows, w_row, w_type; int w_set, w_found; int64_t w_lt, w_li, w_value;
int c_prv_advance(struct prv *prv, int64_t time)
__CPROVER_requires(__CPROVER_is_fresh(prv, PRVSZ) && DIAG_PRE)
__CPROVER_requires(WBIND(prv_advance, w_time == time && w_ptime == prv->time))
__CPROVER_assigns(prv->time, DIAG_FRAME)
/* accepted exactly when time does not go backwards */
__CPROVER_ensures((RV == 0) == (time >= OLD(prv->time)))
__CPROVER_ensures(RV == 0 || RV == -1)
__CPROVER_ensures(RV != 0 || prv->time == time)
__CPROVER_ensures(RV == 0 || (prv->time == OLD(prv->time) && g_err > OLD(g_err)))
/* in every case the clock is non-decreasing */
__CPROVER_ensures(prv->time >= OLD(prv->time))
;
void h_prv_advance(void)
{
	struct prv *prv; int64_t time;
	WITNESS_ON(prv_advance);
	int r = prv_advance(prv, time);
	if (r == 0 && w_time == w_ptime) REACH("advance accepted: same time");
	if (r == 0 && w_time > w_ptime) REACH("advance accepted: later time");
	if (r != 0) REACH("advance refused: earlier time");
}

/* write_line: exactly one event line carrying the current clock */
void c_write_line(struct prv *prv, long row_base1, int64_t type, int64_t value)
__CPROVER_requires(__CPROVER_is_fresh(prv, PRVSZ) && IO_PRE)
__CPROVER_requires(w_rowb1 == row_base1 && w_type == type && w_value == value && w_ptime == prv->time)
__CPROVER_assigns(LINE_FRAME)
__CPROVER_ensures(g_line_n == OLD(g_line_n) + 1 && g_pr_other == OLD(g_pr_other) && g_seq == OLD(g_seq) + 1)
__CPROVER_ensures(g_line_row == row_base1 && g_line_time == prv->time && g_line_type == type && g_line_val == value && g_line_f == prv->file)
;
void h_write_line(void)
{
	struct prv *prv; long row; int64_t type, value;
	write_line(prv, row, type, value);
	REACH("write_line returns");
}

/* =====================================================================================
 * 2. emit: one channel value -> at most one line, policy per flag combination
 *    (prv.h flag comments + doc/dev/paraver.md):
 *      duplicate (same as last emitted value, only tracked without PRV_EMITDUP):
 *          PRV_SKIPDUP                      -> accepted, nothing printed
 *          PRV_SKIPDUPNULL and value null   -> accepted, nothing printed
 *          PRV_SKIPDUPNULL, value not null  -> printed
 *          none of them                     -> refused
 *      null prints 0; int64 prints the value (+1 with PRV_NEXT); a printed int64 0 is refused
 *      without PRV_ZERO; other value types are refused.
 * ===================================================================================== */
long g_fl; int g_set; int64_t g_lt, g_li;      /* pre-state of the row: flags, last value */
#define FL(x) ((g_fl & (x)) != 0)
#define S_DUP     (!FL(PRV_EMITDUP) && g_set != 0 && w_rd_t == g_lt && w_rd_i == g_li)
#define S_SKIP    (S_DUP && (FL(PRV_SKIPDUP) || (FL(PRV_SKIPDUPNULL) && w_rd_t == VALUE_NULL)))
#define S_DUPERR  (S_DUP && !FL(PRV_SKIPDUP) && !FL(PRV_SKIPDUPNULL))
#define S_VAL     (w_rd_t == VALUE_INT64 ? w_rd_i + (FL(PRV_NEXT) ? 1 : 0) : 0)
#define S_BADTYPE (w_rd_t != VALUE_INT64 && w_rd_t != VALUE_NULL)
#define S_ZEROERR (w_rd_t == VALUE_INT64 && !FL(PRV_ZERO) && S_VAL == 0)
#define S_PRINTS  (w_rd_ret == 0 && !S_SKIP && !S_DUPERR && !S_BADTYPE && !S_ZEROERR)
#define S_OK      (w_rd_ret == 0 && (S_SKIP || (!S_DUPERR && !S_BADTYPE && !S_ZEROERR)))
#define S_TRACKED (w_rd_ret == 0 && !FL(PRV_EMITDUP) && !S_SKIP && !S_DUPERR)   /* last value is replaced */

#define EMIT_REQ(P, RC) \
	(RCHAN_WF(RC, P) && DIAG_PRE && IO_PRE && g_rd_n < 1000000u && \
	g_fl == (RC)->flags && g_set == (RC)->last_value_set && g_lt == (RC)->last_value.type && g_li == (RC)->last_value.i && \
	/* PRV_NEXT is only used on thread.cpu_gindex (values < number of CPUs): val++ cannot overflow */ \
	(!((RC)->flags & PRV_NEXT) || w_rd_t != VALUE_INT64 || w_rd_i < INT64_MAX))
#define EMIT_FRAME(RC) (RC)->last_value, (RC)->last_value_set, LINE_FRAME, g_rd_n, g_rd_chan, DIAG_FRAME
#define EMIT_ENS(P, RC) ( \
	/* accepted exactly when the policy allows the value */ \
	(RV == 0) == (S_OK) && (RV == 0 || RV == -1) && (RV == 0 || g_err > OLD(g_err)) && \
	/* the channel is read exactly once */ \
	g_rd_n == OLD(g_rd_n) + 1 && g_rd_chan == (RC)->chan && \
	/* one line iff the policy prints, none otherwise; never a header or anything else */ \
	g_line_n == OLD(g_line_n) + (S_PRINTS ? 1 : 0) && g_pr_other == OLD(g_pr_other) && \
	/* the line: registered row (inside the declared count), current clock, registered type, value */ \
	(!S_PRINTS || (g_line_row == (RC)->row_base1 && g_line_row >= 1 && g_line_row <= (P)->nrows && \
		g_line_time == (P)->time && g_line_type == (RC)->type && g_line_val == S_VAL && g_line_f == (P)->file)) && \
	/* property clause: a printed 0 needs PRV_ZERO or a null value */ \
	(!S_PRINTS || g_line_val != 0 || FL(PRV_ZERO) || w_rd_t == VALUE_NULL) && \
	/* duplicate tracking */ \
	(!S_TRACKED || ((RC)->last_value_set == 1 && (RC)->last_value.type == w_rd_t && (RC)->last_value.i == w_rd_i)) && \
	(S_TRACKED || ((RC)->last_value_set == g_set && (RC)->last_value.type == g_lt && (RC)->last_value.i == g_li)))

WITNESS(emit);
#define EMIT_WIT(P, RC) (w_flags == (RC)->flags && w_set == (RC)->last_value_set && w_lt == (RC)->last_value.type && \
	w_li == (RC)->last_value.i && w_rowb1 == (RC)->row_base1 && w_nrows == (P)->nrows && w_type == (RC)->type && w_ptime == (P)->time)
int c_emit(struct prv *prv, struct prv_chan *rchan)
__CPROVER_requires(__CPROVER_is_fresh(prv, PRVSZ) && __CPROVER_is_fresh(rchan, RCSZ))
__CPROVER_requires(EMIT_REQ(prv, rchan))
__CPROVER_requires(WBIND(emit, EMIT_WIT(prv, rchan)))
__CPROVER_assigns(EMIT_FRAME(rchan))
__CPROVER_ensures(EMIT_ENS(prv, rchan))
;
#define EMIT_REACHES(r) do { \
	if (r == 0 && S_PRINTS && w_rd_t == VALUE_INT64 && !FL(PRV_NEXT)) REACH("int value printed"); \
	if (r == 0 && S_PRINTS && w_rd_t == VALUE_INT64 && FL(PRV_NEXT)) REACH("int value printed plus one (PRV_NEXT)"); \
	if (r == 0 && S_PRINTS && w_rd_t == VALUE_NULL) REACH("null printed as 0"); \
	if (r == 0 && S_PRINTS && w_rd_t == VALUE_INT64 && g_line_val == 0) REACH("int 0 printed with PRV_ZERO"); \
	if (r == 0 && S_PRINTS && FL(PRV_EMITDUP) && g_set && w_rd_t == g_lt && w_rd_i == g_li) REACH("repeated value printed with PRV_EMITDUP"); \
	if (r == 0 && S_PRINTS && S_DUP) REACH("non-null duplicate printed with PRV_SKIPDUPNULL"); \
	if (r == 0 && S_SKIP && FL(PRV_SKIPDUP)) REACH("duplicate skipped with PRV_SKIPDUP"); \
	if (r == 0 && S_SKIP && !FL(PRV_SKIPDUP)) REACH("null duplicate skipped with PRV_SKIPDUPNULL"); \
	if (r != 0 && S_DUPERR) REACH("duplicate refused"); \
	if (r != 0 && w_rd_ret == 0 && !S_DUPERR && S_ZEROERR && !FL(PRV_NEXT)) REACH("value 0 refused without PRV_ZERO"); \
	if (r != 0 && w_rd_ret == 0 && !S_DUPERR && S_ZEROERR && FL(PRV_NEXT)) REACH("value -1 with PRV_NEXT refused without PRV_ZERO"); \
	if (r != 0 && w_rd_ret == 0 && !S_DUPERR && S_BADTYPE) REACH("non-int non-null value refused"); \
	if (r != 0 && w_rd_ret != 0) REACH("chan_read failure propagated"); \
	} while (0)
void h_emit(void)
{
	struct prv *prv; struct prv_chan *rchan;
	WITNESS_ON(emit);
	int r = emit(prv, rchan);
	EMIT_REACHES(r);
}

/* cb_prv: the bay callback emits on the prv the row was registered in */
int c_cb_prv(struct chan *chan, void *ptr)
__CPROVER_requires(__CPROVER_is_fresh(ptr, RCSZ) && __CPROVER_is_fresh(((struct prv_chan *) ptr)->prv, PRVSZ))
__CPROVER_requires(EMIT_REQ(((struct prv_chan *) ptr)->prv, (struct prv_chan *) ptr))
__CPROVER_requires(EMIT_WIT(((struct prv_chan *) ptr)->prv, (struct prv_chan *) ptr))
__CPROVER_assigns(EMIT_FRAME((struct prv_chan *) ptr))
__CPROVER_ensures(EMIT_ENS(((struct prv_chan *) ptr)->prv, (struct prv_chan *) ptr))
;
void h_cb_prv(void)
{
	struct chan *chan; void *ptr;
	int r = cb_prv(chan, ptr);
	if (r == 0 && S_PRINTS) REACH("callback printed a line");
	if (r == 0 && S_SKIP) REACH("callback skipped a duplicate");
	if (r != 0) REACH("callback refused");
}

/* =====================================================================================
 * check_flags / prv_register
 * ===================================================================================== */
#define NB(f, x) ((((f) & (x)) != 0) ? 1 : 0)
/* the three duplicate policies are mutually exclusive */
#define FLAGS_OK(f) (NB(f, PRV_EMITDUP) + NB(f, PRV_SKIPDUP) + NB(f, PRV_SKIPDUPNULL) <= 1)

WITNESS(check_flags);
int c_check_flags(long flags)
__CPROVER_requires(DIAG_PRE && WBIND(check_flags, w_flags == flags))
__CPROVER_assigns(DIAG_FRAME)
__CPROVER_ensures((RV == 0) == FLAGS_OK(flags))
__CPROVER_ensures(RV == 0 || (RV == -1 && g_err > OLD(g_err)))
;
void h_check_flags(void)
{
	long flags;
	WITNESS_ON(check_flags);
	int r = check_flags(flags);
	if (r == 0 && w_flags == 0) REACH("no flags accepted");
	if (r == 0 && w_flags == (PRV_SKIPDUPNULL | PRV_NEXT | PRV_ZERO)) REACH("one policy plus NEXT and ZERO accepted");
	if (r != 0 && w_flags == (PRV_EMITDUP | PRV_SKIPDUP)) REACH("EMITDUP+SKIPDUP refused");
	if (r != 0 && w_flags == (PRV_EMITDUP | PRV_SKIPDUPNULL)) REACH("EMITDUP+SKIPDUPNULL refused");
	if (r != 0 && w_flags == (PRV_SKIPDUP | PRV_SKIPDUPNULL)) REACH("SKIPDUP+SKIPDUPNULL refused");
}

/* find_prv_chan is a thin HASH_FIND wrapper: assumed map contract (uthash is trusted).
 * The requires is checked at the call site: the key looked up is get_id(type, row). */
long g_fp_id; struct prv_chan *g_fp_item;
struct prv_chan *c_find_prv_chan(struct prv *prv, long id)
__CPROVER_requires(id == g_fp_id)
__CPROVER_assigns()
__CPROVER_ensures(__CPROVER_pointer_equals(RV, g_fp_item))
;

/* get_id: the table key of (type,row) */
long c_get_id(struct prv *prv, long type, long row)
__CPROVER_requires(__CPROVER_is_fresh(prv, PRVSZ))
__CPROVER_requires(row >= 0 && row < prv->nrows && prv->nrows <= INT_MAX && type >= 0 && type <= INT_MAX)
__CPROVER_requires(w_type == type && w_row == row && w_nrows == prv->nrows)
__CPROVER_assigns()
__CPROVER_ensures(RV == type * prv->nrows + row)
;
void h_get_id(void)
{
	struct prv *prv; long type, row;
	long id = get_id(prv, type, row);
	if (id > 0) REACH("get_id returns");
}
/* NOT machine-checked: inside these ranges two different (type,row) pairs never share a key
 * (row < nrows makes type*nrows+row a mixed-radix code).  CBMC (cadical, z3, cvc5) times out on the
 * 64-bit products even for nrows,type <= 1023; see the final report. */
/* Inside prv_register the call of get_id is replaced by this ghost-result form (two symbolic
 * 64-bit products compared for equality cost 90 s): the arguments are checked at the call site to
 * be prv_register's own (prv, type, row), the result is g_fp_id, which c_prv_register requires to
 * be type * nrows + row -- the value c_get_id proves for the real body. */
struct prv *g_gi_prv; long g_gi_type, g_gi_row;
long cr_get_id(struct prv *prv, long type, long row)
__CPROVER_requires(prv == g_gi_prv && type == g_gi_type && row == g_gi_row)
__CPROVER_assigns()
__CPROVER_ensures(RV == g_fp_id)
;

WITNESS(prv_register);
#define NEWRC ((struct prv_chan *) g_hadd_item)
int c_prv_register(struct prv *prv, long row, long type, struct bay *bay, struct chan *chan, long flags)
__CPROVER_requires(__CPROVER_is_fresh(prv, PRVSZ))
/* caller obligations (C13 groups connect_*): the row is inside the declared count; types are ints */
__CPROVER_requires(row >= 0 && row < prv->nrows && prv->nrows <= INT_MAX && type >= 0 && type <= INT_MAX)
__CPROVER_requires(g_fp_id == type * prv->nrows + row && g_gi_prv == prv && g_gi_type == type && g_gi_row == row)
__CPROVER_requires(g_fp_item == NULL || (__CPROVER_is_fresh(g_fp_item, RCSZ) && g_fp_item->id == g_fp_id))
__CPROVER_requires(DIAG_PRE && HLOG_PRE && LOW_PRE && g_cb_n < 1000000u)
__CPROVER_requires(WBIND(prv_register, w_row == row && w_type == type && w_nrows == prv->nrows && w_flags == flags && w_found == (g_fp_item != NULL)))
__CPROVER_assigns(prv->channels, DIAG_FRAME, HLOG_FRAME, g_lowfail, CB_FRAME)
/* accepted exactly when (type,row) is not yet registered and the flags are consistent
 * (or a lower layer failed: calloc, bay_add_cb) */
__CPROVER_ensures((RV == 0) == (g_fp_item == NULL && FLAGS_OK(flags) && g_lowfail == OLD(g_lowfail)))
__CPROVER_ensures(RV == 0 || (RV == -1 && g_err > OLD(g_err)))
/* accepted: one new row object, in the table under id, carrying row+1 <= nrows, type, flags, no last value */
__CPROVER_ensures(RV != 0 || (g_hadd_n == OLD(g_hadd_n) + 1 && g_hadd_head == (void *) &prv->channels &&
	g_hadd_key == g_fp_id /* = type * nrows + row */ && __CPROVER_is_fresh(g_hadd_item, RCSZ) &&
	NEWRC->id == g_hadd_key && NEWRC->row_base1 == row + 1 && RCHAN_WF(NEWRC, prv) && NEWRC->type == type &&
	NEWRC->prv == prv && NEWRC->chan == chan && NEWRC->flags == flags && NEWRC->last_value_set == 0 &&
	NEWRC->last_value.type == VALUE_NULL && NEWRC->last_value.i == 0))
/* accepted: exactly one enabled emit callback on this channel, calling cb_prv with the new row */
__CPROVER_ensures(RV != 0 || (g_cb_n == OLD(g_cb_n) + 1 && g_cb_bay == bay && g_cb_type == BAY_CB_EMIT &&
	g_cb_chan == chan && g_cb_func == cb_prv && g_cb_arg == g_hadd_item && g_cb_enabled == 1))
/* refused: nothing enters the table; a duplicate registration or bad flags add no callback */
__CPROVER_ensures(RV == 0 || (g_hadd_n == OLD(g_hadd_n) && prv->channels == OLD(prv->channels)))
__CPROVER_ensures(RV == 0 || (g_fp_item == NULL && FLAGS_OK(flags)) || g_cb_n == OLD(g_cb_n))
;
void h_prv_register(void)
{
	struct prv *prv; long row, type, flags; struct bay *bay; struct chan *chan;
	WITNESS_ON(prv_register);
	int r = prv_register(prv, row, type, bay, chan, flags);
	if (r == 0) REACH("registration accepted");
	if (r == 0 && w_row == w_nrows - 1 && w_row > 0) REACH("last row accepted");
	if (r != 0 && w_found) REACH("duplicate registration refused");
	if (r != 0 && !w_found && !FLAGS_OK(w_flags)) REACH("inconsistent flags refused");
	if (r != 0 && !w_found && FLAGS_OK(w_flags)) REACH("lower-layer failure refused");
}

/* =====================================================================================
 * 3. prv_open / prv_open_file / prv_close: header
 * ===================================================================================== */
WITNESS(prv_close);
int c_prv_close(struct prv *prv)
__CPROVER_requires(__CPROVER_is_fresh(prv, PRVSZ) && IO_PRE)
/* the header prints the row count as int (see assumptions) */
__CPROVER_requires(prv->nrows >= 0 && prv->nrows <= INT_MAX)
__CPROVER_requires(WBIND(prv_close, w_ptime == prv->time && w_nrows == prv->nrows))
__CPROVER_assigns(HDR_FRAME, STDIO_FRAME)
__CPROVER_ensures(RV == 0)
/* exactly one header, with duration = current clock = time of the last line, and the declared rows */
__CPROVER_ensures(g_hdr_n == OLD(g_hdr_n) + 1 && g_hdr_dur == prv->time && g_hdr_nrows == prv->nrows && g_hdr_f == prv->file)
/* written at offset 0 (after the seek), before the file is closed; nothing else is printed */
__CPROVER_ensures(g_seek_n == OLD(g_seek_n) + 1 && g_seek_f == prv->file && g_seek_off == 0 && g_seek_whence == SEEK_SET)
__CPROVER_ensures(g_close_n == OLD(g_close_n) + 1 && g_close_f == prv->file)
__CPROVER_ensures(g_seek_seq < g_hdr_seq && g_hdr_seq < g_close_seq && g_pr_other == OLD(g_pr_other) && g_seq == OLD(g_seq) + 3)
;
void h_prv_close(void)
{
	struct prv *prv;
	WITNESS_ON(prv_close);
	int r = prv_close(prv);
	if (r == 0 && w_ptime > 0 && w_nrows > 1) REACH("close returns");
}

int c_prv_open_file(struct prv *prv, long nrows, FILE *file)
__CPROVER_requires(__CPROVER_is_fresh(prv, PRVSZ) && IO_PRE)
__CPROVER_requires(nrows >= 0 && nrows <= INT_MAX && w_nrows == nrows)
__CPROVER_assigns(*prv, HDR_FRAME)
__CPROVER_ensures(RV == 0)
/* declared row count recorded, clock at 0, empty table */
__CPROVER_ensures(prv->nrows == nrows && prv->time == 0 && prv->channels == NULL && prv->file == file)
/* placeholder header: one line, duration 0, same row count */
__CPROVER_ensures(g_hdr_n == OLD(g_hdr_n) + 1 && g_hdr_dur == 0 && g_hdr_nrows == nrows && g_hdr_f == file &&
	g_pr_other == OLD(g_pr_other) && g_seq == OLD(g_seq) + 1)
;
void h_prv_open_file(void)
{
	struct prv *prv; long nrows; FILE *file;
	int r = prv_open_file(prv, nrows, file);
	if (r == 0) REACH("open_file returns");
}

int c_prv_open(struct prv *prv, long nrows, const char *path)
__CPROVER_requires(__CPROVER_is_fresh(prv, PRVSZ) && IO_PRE && DIAG_PRE && LOW_PRE)
__CPROVER_requires(nrows >= 0 && nrows <= INT_MAX && w_nrows == nrows)
__CPROVER_assigns(*prv, HDR_FRAME, DIAG_FRAME, g_lowfail, g_open_n, g_open_ret, g_open_mode)
/* fails only when the file cannot be created */
__CPROVER_ensures((RV == 0) == (g_lowfail == OLD(g_lowfail)))
__CPROVER_ensures(RV == 0 || (RV == -1 && g_err > OLD(g_err) && g_hdr_n == OLD(g_hdr_n)))
__CPROVER_ensures(g_open_n == OLD(g_open_n) + 1 && g_open_mode == 'w')
__CPROVER_ensures(RV != 0 || (prv->nrows == nrows && prv->time == 0 && prv->channels == NULL && prv->file == g_open_ret && g_open_ret != NULL &&
	g_hdr_n == OLD(g_hdr_n) + 1 && g_hdr_dur == 0 && g_hdr_nrows == nrows && g_hdr_f == g_open_ret))
;
void h_prv_open(void)
{
	struct prv *prv; long nrows; const char *path;
	int r = prv_open(prv, nrows, path);
	if (r == 0) REACH("open accepted");
	if (r != 0) REACH("open refused: fopen failed");
}
