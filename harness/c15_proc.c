/* C15 -- per-process metadata merge of the real proc.c (load_appid, load_rank,
 * proc_load_metadata, proc_init_begin/end, proc_add_thread, by_tid) and the
 * distribution-independence lemmas over the spec function (c15_spec.h). */
#include "prelude.h"
#include "parson.h"
#include "uthash.h"

/* ---- trusted base of this unit (plan "trusted") --------------------------
 * parson is not verified.  The metadata object of a stream is seen through a
 * ghost view: three optional integer attributes.  json_object_dotget_value
 * returns a distinct non-NULL handle for a present attribute and NULL for an
 * absent one (or any other name); json_number maps the handle back to the
 * value.  Values are ints (the double -> int cast in proc.c is then exact;
 * out-of-int-range JSON numbers are outside this model, see plan assumptions). */
int g_has_appid, g_appid;
int g_has_rank, g_rank;
int g_has_nranks, g_nranks;
unsigned g_json_other;            /* lookups of names the view does not know */
static char jv_appid, jv_rank, jv_nranks;

struct stream;
JSON_Object *stream_metadata(struct stream *s)
{
	(void) s;
	JSON_Object *o;               /* opaque, never dereferenced by the unit */
	return o;
}

JSON_Value *json_object_dotget_value(const JSON_Object *object, const char *name)
{
	(void) object;
	if (strcmp(name, "ovni.app_id") == 0)
		return g_has_appid ? (JSON_Value *) &jv_appid : NULL;
	if (strcmp(name, "ovni.rank") == 0)
		return g_has_rank ? (JSON_Value *) &jv_rank : NULL;
	if (strcmp(name, "ovni.nranks") == 0)
		return g_has_nranks ? (JSON_Value *) &jv_nranks : NULL;
	g_json_other++;
	return NULL;
}

double json_number(const JSON_Value *value)
{
	if (value == (JSON_Value *) &jv_appid)
		return (double) g_appid;
	if (value == (JSON_Value *) &jv_rank)
		return (double) g_rank;
	if (value == (JSON_Value *) &jv_nranks)
		return (double) g_nranks;
	return 0.0;                   /* parson: 0 on failure */
}

/* uthash HASH_ADD_INT (proc_add_thread): ghost insertion log, as in C07 */
unsigned g_hadd_n;
void *g_hadd_head, *g_hadd_item;
int g_hadd_key;
#undef HASH_ADD_INT
#define HASH_ADD_INT(head, field, add) { g_hadd_n++; g_hadd_head = (void *) &(head); \
	g_hadd_item = (void *) (add); g_hadd_key = (add)->field; if ((head) == NULL) (head) = (add); }
#define HLOG_PRE (g_hadd_n < 1000000u)
#define HLOG_FRAME g_hadd_n, g_hadd_head, g_hadd_item, g_hadd_key

#include "proc.c"                 /* the real /repo/src/emu/proc.c */
#include "thread.c"               /* the real /repo/src/emu/thread.c (thread_get_tid, thread_set_proc) */
#include "harness/c15_spec.h"     /* spec function merge(proc_state, meta_view) */

#define RV __CPROVER_return_value
#define AP(m, ...) m(__VA_ARGS__)   /* expand view macros into argument lists */
#define OLD(e) __CPROVER_old(e)

/* the ghost view as spec arguments */
#define VIEW_APPID g_has_appid, g_appid
#define VIEW_RANK  g_has_rank, g_rank, g_has_nranks, g_nranks

/* witnesses: pre-state of the process and the view */
int w_p_appid, w_p_rank, w_p_nranks;
int w_has_appid, w_appid, w_has_rank, w_rank, w_has_nranks, w_nranks;
#define BIND_VIEW (w_has_appid == g_has_appid && w_appid == g_appid && w_has_rank == g_has_rank && \
	w_rank == g_rank && w_has_nranks == g_has_nranks && w_nranks == g_nranks)
#define BIND_PROC(p) (w_p_appid == (p)->appid && w_p_rank == (p)->rank && w_p_nranks == (p)->nranks)

/* ---------------- load_appid ---------------- */
WITNESS(load_appid);
int c_load_appid(struct proc *proc, struct stream *s)
__CPROVER_requires(__CPROVER_is_fresh(proc, sizeof(*proc)) && __CPROVER_is_fresh(s, sizeof(*s)))
__CPROVER_requires(SPEC_APPID_WF(proc->appid) && DIAG_PRE)
__CPROVER_requires(WBIND(load_appid, BIND_VIEW && BIND_PROC(proc)))
__CPROVER_assigns(proc->appid, DIAG_FRAME, g_json_other)
/* accepted exactly when the spec merge is defined */
__CPROVER_ensures((RV == 0) == AP(SPEC_APPID_OK, OLD(proc->appid), VIEW_APPID))
__CPROVER_ensures(RV == 0 || RV == -1)
/* accepted: the process carries the merged value, silently */
__CPROVER_ensures(RV != 0 || (proc->appid == AP(SPEC_APPID_NEW, OLD(proc->appid), VIEW_APPID) && g_err == OLD(g_err)))
/* refused: a diagnostic, the process keeps what it had */
__CPROVER_ensures(RV == 0 || (g_err > OLD(g_err) && proc->appid == OLD(proc->appid)))
__CPROVER_ensures(SPEC_APPID_WF(proc->appid) && g_json_other == OLD(g_json_other))
;

void h_load_appid(void)
{
	struct proc *proc;
	struct stream *s;
	WITNESS_ON(load_appid);
	int r = load_appid(proc, s);
	if (r == 0 && !w_has_appid) REACH("stream without app id accepted");
	if (r == 0 && w_has_appid && w_p_appid == 0) REACH("first definition accepted");
	if (r == 0 && w_has_appid && w_p_appid != 0) REACH("equal re-definition accepted");
	if (r != 0 && w_p_appid != 0 && w_appid > 0) REACH("different app id refused");
	if (r != 0 && w_p_appid == 0) REACH("non-positive app id refused");
}

/* ---------------- load_rank ---------------- */
WITNESS(load_rank);
int c_load_rank(struct proc *proc, struct stream *s)
__CPROVER_requires(__CPROVER_is_fresh(proc, sizeof(*proc)) && __CPROVER_is_fresh(s, sizeof(*s)))
__CPROVER_requires(SPEC_RANK_WF(proc->rank, proc->nranks) && DIAG_PRE)
__CPROVER_requires(WBIND(load_rank, BIND_VIEW && BIND_PROC(proc)))
__CPROVER_assigns(proc->rank, proc->nranks, DIAG_FRAME, g_json_other)
__CPROVER_ensures((RV == 0) == AP(SPEC_RANK_OK, OLD(proc->rank), OLD(proc->nranks), VIEW_RANK))
__CPROVER_ensures(RV == 0 || RV == -1)
__CPROVER_ensures(RV != 0 || (g_err == OLD(g_err) &&
	proc->rank == AP(SPEC_RANK_NEW_RANK, OLD(proc->rank), OLD(proc->nranks), VIEW_RANK) &&
	proc->nranks == AP(SPEC_RANK_NEW_NRANKS, OLD(proc->rank), OLD(proc->nranks), VIEW_RANK)))
__CPROVER_ensures(RV == 0 || (g_err > OLD(g_err) && proc->rank == OLD(proc->rank) && proc->nranks == OLD(proc->nranks)))
__CPROVER_ensures(SPEC_RANK_WF(proc->rank, proc->nranks) && g_json_other == OLD(g_json_other))
;

void h_load_rank(void)
{
	struct proc *proc;
	struct stream *s;
	WITNESS_ON(load_rank);
	int r = load_rank(proc, s);
	if (r == 0 && !w_has_rank) REACH("stream without rank accepted");
	if (r == 0 && !w_has_rank && w_has_nranks && w_p_nranks > 0 && w_nranks != w_p_nranks)
		REACH("rank count without rank is ignored even if it differs");
	if (r == 0 && w_has_rank && w_p_rank < 0) REACH("first definition accepted");
	if (r == 0 && w_has_rank && w_p_rank >= 0) REACH("equal re-definition accepted");
	if (r != 0 && w_p_rank >= 0 && w_rank >= 0 && w_rank != w_p_rank) REACH("different rank refused");
	if (r != 0 && w_p_rank >= 0 && w_rank == w_p_rank && w_has_nranks && w_nranks > w_rank) REACH("different rank count refused");
	if (r != 0 && w_has_rank && w_rank >= 0 && !w_has_nranks) REACH("rank without rank count refused");
	if (r != 0 && w_has_rank && w_rank < 0) REACH("negative rank refused");
	if (r != 0 && w_p_rank < 0 && w_has_nranks && w_nranks > 0 && w_rank >= 0) REACH("rank not below rank count refused");
}

/* ---------------- proc_load_metadata ----------------
 * the whole per-process merge: accepted exactly when both attributes merge */
WITNESS(proc_load_metadata);
int c_proc_load_metadata(struct proc *proc, struct stream *s)
__CPROVER_requires(__CPROVER_is_fresh(proc, sizeof(*proc)) && __CPROVER_is_fresh(s, sizeof(*s)))
__CPROVER_requires(SPEC_PROC_WF(proc->appid, proc->rank, proc->nranks) && DIAG_PRE)
__CPROVER_requires(WBIND(proc_load_metadata, BIND_VIEW && BIND_PROC(proc)))
__CPROVER_assigns(proc->appid, proc->rank, proc->nranks, DIAG_FRAME, g_json_other)
__CPROVER_ensures((RV == 0) == AP(SPEC_PROC_OK, OLD(proc->appid), OLD(proc->rank), OLD(proc->nranks), VIEW_APPID, VIEW_RANK))
__CPROVER_ensures(RV == 0 || RV == -1)
__CPROVER_ensures(RV != 0 || (g_err == OLD(g_err) &&
	proc->appid == AP(SPEC_APPID_NEW, OLD(proc->appid), VIEW_APPID) &&
	proc->rank == AP(SPEC_RANK_NEW_RANK, OLD(proc->rank), OLD(proc->nranks), VIEW_RANK) &&
	proc->nranks == AP(SPEC_RANK_NEW_NRANKS, OLD(proc->rank), OLD(proc->nranks), VIEW_RANK)))
__CPROVER_ensures(RV == 0 || g_err > OLD(g_err))
__CPROVER_ensures(SPEC_PROC_WF(proc->appid, proc->rank, proc->nranks) && g_json_other == OLD(g_json_other))
;

void h_proc_load_metadata(void)
{
	struct proc *proc;
	struct stream *s;
	WITNESS_ON(proc_load_metadata);
	int r = proc_load_metadata(proc, s);
	if (r == 0 && w_has_appid && w_has_rank) REACH("both attributes merged");
	if (r == 0 && !w_has_appid && !w_has_rank) REACH("stream carrying neither accepted");
	if (r != 0 && w_has_appid && w_p_appid > 0 && w_appid != w_p_appid) REACH("app id conflict refused");
	if (r != 0 && (!w_has_appid || w_appid == w_p_appid) && w_p_appid > 0) REACH("rank conflict refused");
}

/* ---------------- proc_init_begin: establishes the merge's start state ---------------- */
int c_proc_init_begin(struct proc *proc, int pid)
__CPROVER_requires(__CPROVER_is_fresh(proc, sizeof(*proc)) && DIAG_PRE)
__CPROVER_assigns(__CPROVER_object_whole(proc), DIAG_FRAME)
__CPROVER_ensures(RV == 0 || RV == -1)
__CPROVER_ensures(proc->appid == SPEC_APPID_UNSET && proc->rank == SPEC_RANK_UNSET && proc->nranks == 0 &&
	SPEC_PROC_WF(proc->appid, proc->rank, proc->nranks))
__CPROVER_ensures(proc->pid == pid && proc->gindex == -1 && proc->is_init == 0 && proc->threads == NULL && proc->nthreads == 0)
__CPROVER_ensures(RV == 0 || g_err > OLD(g_err))
;

void h_proc_init_begin(void)
{
	struct proc *proc;
	int pid;
	int r = proc_init_begin(proc, pid);
	if (r == 0) REACH("process created");
	if (r != 0) REACH("id too long");
}

/* ---------------- proc_init_end: a process without app id is refused ---------------- */
WITNESS(proc_init_end);
long w_pe_gindex;
int c_proc_init_end(struct proc *proc)
__CPROVER_requires(__CPROVER_is_fresh(proc, sizeof(*proc)) && DIAG_PRE)
__CPROVER_requires(WBIND(proc_init_end, BIND_PROC(proc) && w_pe_gindex == proc->gindex))
__CPROVER_assigns(proc->is_init, DIAG_FRAME)
__CPROVER_ensures((RV == 0) == (proc->gindex >= 0 && proc->appid > 0))
__CPROVER_ensures(RV == 0 || RV == -1)
__CPROVER_ensures(RV != 0 || (proc->is_init == 1 && g_err == OLD(g_err)))
__CPROVER_ensures(RV == 0 || (proc->is_init == OLD(proc->is_init) && g_err > OLD(g_err)))
;

void h_proc_init_end(void)
{
	struct proc *proc;
	WITNESS_ON(proc_init_end);
	int r = proc_init_end(proc);
	if (r == 0) REACH("process with app id accepted");
	if (r != 0 && w_p_appid == 0 && w_pe_gindex >= 0) REACH("missing app id refused");
	if (r != 0 && w_p_appid > 0) REACH("missing gindex refused");
}

/* ---------------- proc_find_thread: ASSUMED one-cell map contract (uthash HASH_FIND) ---------------- */
struct proc *g_pf_proc; int g_pf_tid; struct thread *g_pf_thread;
struct thread *ca_proc_find_thread(struct proc *proc, int tid)
__CPROVER_requires(proc == g_pf_proc && tid == g_pf_tid)
__CPROVER_assigns()
__CPROVER_ensures(__CPROVER_pointer_equals(RV, g_pf_thread))
;

/* ---------------- proc_add_thread: duplicate TIDs and late additions refused ---------------- */
WITNESS(proc_add_thread);
int w_pa_isinit, w_pa_dup, w_pa_tid;
int c_proc_add_thread(struct proc *proc, struct thread *thread)
__CPROVER_requires(__CPROVER_is_fresh(proc, sizeof(*proc)) && __CPROVER_is_fresh(thread, sizeof(*thread)))
__CPROVER_requires(g_pf_proc == proc && g_pf_tid == thread->tid &&
	(g_pf_thread == NULL || __CPROVER_is_fresh(g_pf_thread, sizeof(struct thread))))
__CPROVER_requires(proc->nthreads >= 0 && proc->nthreads < INT_MAX && DIAG_PRE && HLOG_PRE)
__CPROVER_requires(WBIND(proc_add_thread, w_pa_isinit == proc->is_init && w_pa_dup == (g_pf_thread != NULL) && w_pa_tid == thread->tid))
__CPROVER_assigns(proc->threads, proc->nthreads, thread->proc, DIAG_FRAME, HLOG_FRAME)
__CPROVER_ensures((RV == 0) == (!proc->is_init && g_pf_thread == NULL))
__CPROVER_ensures(RV == 0 || RV == -1)
__CPROVER_ensures(RV != 0 || (proc->nthreads == OLD(proc->nthreads) + 1 && thread->proc == proc &&
	g_hadd_n == OLD(g_hadd_n) + 1 && g_hadd_head == (void *) &proc->threads && g_hadd_item == (void *) thread &&
	g_hadd_key == thread->tid && g_err == OLD(g_err)))
__CPROVER_ensures(RV == 0 || (g_err > OLD(g_err) && proc->nthreads == OLD(proc->nthreads) &&
	proc->threads == OLD(proc->threads) && g_hadd_n == OLD(g_hadd_n) && thread->proc == OLD(thread->proc)))
;

void h_proc_add_thread(void)
{
	struct proc *proc;
	struct thread *thread;
	WITNESS_ON(proc_add_thread);
	int r = proc_add_thread(proc, thread);
	if (r == 0) REACH("thread added");
	if (r != 0 && w_pa_dup && !w_pa_isinit) REACH("duplicate TID refused");
	if (r != 0 && !w_pa_dup && w_pa_isinit) REACH("initialized process refused");
}

/* ---------------- by_tid: exact three-way comparison of the TIDs ---------------- */
int c_by_tid(struct thread *t1, struct thread *t2)
__CPROVER_requires(__CPROVER_is_fresh(t1, sizeof(*t1)) && (__CPROVER_pointer_equals(t2, t1) || __CPROVER_is_fresh(t2, sizeof(*t2))))
__CPROVER_assigns()
__CPROVER_ensures(RV == SPEC_CMP3(t1->tid, t2->tid))
;

void h_by_tid(void)
{
	struct thread *t1, *t2;
	int r = by_tid(t1, t2);
	if (r < 0) REACH("lower TID first");
	if (r > 0) REACH("higher TID last");
	if (r == 0) REACH("equal TIDs");
}

/* total preorder on three symbolic threads, run on the real comparator (no contract instrumentation) */
void h_by_tid_preorder(void)
{
	struct thread *a = malloc(sizeof(struct thread));
	struct thread *b = malloc(sizeof(struct thread));
	struct thread *c = malloc(sizeof(struct thread));
	__CPROVER_assume(a != NULL && b != NULL && c != NULL);
	a->tid = nondet_int(); b->tid = nondet_int(); c->tid = nondet_int();
	int ab = by_tid(a, b), ba = by_tid(b, a), bc = by_tid(b, c), ac = by_tid(a, c), aa = by_tid(a, a);
	SPEC_PREORDER_ASSERTS(ab, ba, bc, ac, aa, a->tid, b->tid, c->tid);
	if (ab < 0 && bc < 0) REACH("strictly ascending triple");
	if (ab == 0 && bc > 0) REACH("tie then descending");
}

/* ======================================================================
 * LEMMAS over the spec function (pure C, no contract instrumentation):
 * the merge result depends only on the SET of attribute definitions found in
 * the streams of a process, not on which stream carries them nor on the order
 * in which streams are visited.  Adjacent transpositions generate every
 * permutation and the start state is arbitrary (well-formed), so
 * commutativity of two consecutive steps from any state extends to whole
 * sequences by induction (argued, see plan assumptions).
 * ====================================================================== */
struct spec_proc { int ok; int appid, rank, nranks; };
struct spec_meta { int has_appid, appid, has_rank, rank, has_nranks, nranks; };

static struct spec_proc spec_step(struct spec_proc p, struct spec_meta m)
{
	struct spec_proc q = p;
	if (!p.ok)
		return q;             /* the emulator has already exited */
	q.ok = SPEC_PROC_OK(p.appid, p.rank, p.nranks, m.has_appid, m.appid, m.has_rank, m.rank, m.has_nranks, m.nranks);
	if (q.ok) {
		q.appid = SPEC_APPID_NEW(p.appid, m.has_appid, m.appid);
		q.rank = SPEC_RANK_NEW_RANK(p.rank, p.nranks, m.has_rank, m.rank, m.has_nranks, m.nranks);
		q.nranks = SPEC_RANK_NEW_NRANKS(p.rank, p.nranks, m.has_rank, m.rank, m.has_nranks, m.nranks);
	}
	return q;
}
#define SAME_OUTCOME(x, y) ((x).ok == (y).ok && (!(x).ok || ((x).appid == (y).appid && (x).rank == (y).rank && (x).nranks == (y).nranks)))

static struct spec_meta any_meta(void)
{
	struct spec_meta m;
	m.has_appid = nondet_bool(); m.appid = nondet_int();
	m.has_rank = nondet_bool(); m.rank = nondet_int();
	m.has_nranks = nondet_bool(); m.nranks = nondet_int();
	return m;
}

void h_lemma_merge(void)
{
	struct spec_proc p0;
	p0.ok = 1; p0.appid = nondet_int(); p0.rank = nondet_int(); p0.nranks = nondet_int();
	__CPROVER_assume(SPEC_PROC_WF(p0.appid, p0.rank, p0.nranks));
	struct spec_meta a = any_meta(), b = any_meta();

	struct spec_proc pa = spec_step(p0, a), pb = spec_step(p0, b);
	struct spec_proc pab = spec_step(pa, b), pba = spec_step(pb, a);
	struct spec_proc paa = spec_step(pa, a);

	/* order independence: same verdict, and same merged state when accepted */
	VASSERT(SAME_OUTCOME(pab, pba), "merge commutes: a then b == b then a (verdict and state)");
	/* conflict detection is symmetric: a conflict is reported whichever stream comes first */
	VASSERT(pab.ok == pba.ok, "conflict detection symmetric");
	/* idempotence: a second stream repeating the same definitions changes nothing */
	VASSERT(SAME_OUTCOME(paa, pa), "merge idempotent");
	/* a stream carrying no attribute is the identity */
	struct spec_meta none = a; none.has_appid = 0; none.has_rank = 0;
	struct spec_proc pn = spec_step(p0, none);
	VASSERT(pn.ok && pn.appid == p0.appid && pn.rank == p0.rank && pn.nranks == p0.nranks, "absent attributes leave the process unchanged");
	/* which thread carries the attribute: moving app id from stream a to a
	 * stream of its own (and likewise rank) gives the same outcome */
	struct spec_meta a_app = a, a_rank = a;
	a_app.has_rank = 0; a_rank.has_appid = 0;
	struct spec_proc split1 = spec_step(spec_step(p0, a_app), a_rank);
	struct spec_proc split2 = spec_step(spec_step(p0, a_rank), a_app);
	VASSERT(SAME_OUTCOME(split1, pa) && SAME_OUTCOME(split2, pa), "attributes split over two threads merge to the same process");
	/* the merge keeps the invariant, so the lemma applies again at the next step */
	VASSERT(!pa.ok || SPEC_PROC_WF(pa.appid, pa.rank, pa.nranks), "merge preserves well-formedness");
	/* accepted merges never change a defined attribute (no silent overwrite) */
	VASSERT(!pa.ok || p0.appid == SPEC_APPID_UNSET || pa.appid == p0.appid, "a defined app id is never replaced");
	VASSERT(!pa.ok || p0.rank == SPEC_RANK_UNSET || (pa.rank == p0.rank && pa.nranks == p0.nranks), "a defined rank is never replaced");
	/* every single contradiction of the statement is refused */
	VASSERT(!(a.has_appid && p0.appid != SPEC_APPID_UNSET && a.appid != p0.appid) || !pa.ok, "different app id refused");
	VASSERT(!(a.has_rank && p0.rank != SPEC_RANK_UNSET && a.rank != p0.rank) || !pa.ok, "different rank refused");
	VASSERT(!(a.has_rank && p0.rank != SPEC_RANK_UNSET && a.has_nranks && a.nranks != p0.nranks) || !pa.ok, "different rank count refused");

	if (pab.ok && a.has_appid && b.has_rank && !a.has_rank && !b.has_appid) REACH("two streams carrying different attributes merge");
	if (!pab.ok && pa.ok && pb.ok) REACH("two individually acceptable streams conflict");
	if (pab.ok && a.has_appid && b.has_appid && a.has_rank && b.has_rank) REACH("both streams carry everything, consistently");
}
