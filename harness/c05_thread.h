/* c05_thread.h -- C05: self-contained contract of thread_migrate_cpu (thread.c).
 * Proved in group "thread_migrate_cpu" (harness/c05_thread.c); replaces the
 * call in the affinity handlers (harness/c05_affinity.c).
 * Needs harness/c05_chanlog.h and thread.h before it. */
#ifndef C05_THREAD_H
#define C05_THREAD_H

WITNESS(thread_migrate_cpu);
int w_tm_hascpu;
long w_tm_gindex;

int cr_thread_migrate_cpu(struct thread *th, struct cpu *cpu)
__CPROVER_requires(__CPROVER_is_fresh(th, sizeof(*th)) && __CPROVER_is_fresh(cpu, sizeof(*cpu)))
__CPROVER_requires(CB_OK(&th->chan[TH_CHAN_CPU]) && g_cs_n < CS_LOGN && g_cb_calls < 100000u && DIAG_PRE)
__CPROVER_requires(WBIND(thread_migrate_cpu, w_tm_hascpu == (th->cpu != NULL) && w_tm_gindex == cpu->gindex))
__CPROVER_assigns(DIAG_FRAME)
__CPROVER_assigns(th->cpu != NULL: th->cpu, th->chan[TH_CHAN_CPU].data.value, th->chan[TH_CHAN_CPU].is_dirty,
	g_cs_n, g_cs_chan[g_cs_n], g_cs_type[g_cs_n], g_cs_i[g_cs_n], g_cs_ret[g_cs_n], g_cb_calls, g_cb_ret)
__CPROVER_ensures(__CPROVER_return_value == 0 || __CPROVER_return_value == -1)
/* a thread that is bound to no CPU cannot migrate: nothing touched (frame) */
__CPROVER_ensures(__CPROVER_old(th->cpu) != NULL || __CPROVER_return_value == -1)
/* otherwise the thread points to the new CPU and exactly one write, of the
 * new CPU's gindex, goes to the thread's CPU channel; its result is the result */
__CPROVER_ensures(__CPROVER_old(th->cpu) == NULL || (__CPROVER_pointer_equals(th->cpu, cpu) &&
	g_cs_n == __CPROVER_old(g_cs_n) + 1 &&
	CS_ENTRY_IS(__CPROVER_old(g_cs_n), &th->chan[TH_CHAN_CPU], VALUE_INT64, cpu->gindex) &&
	g_cs_ret[__CPROVER_old(g_cs_n)] == __CPROVER_return_value))
__CPROVER_ensures(__CPROVER_return_value == 0 ? g_err == __CPROVER_old(g_err) :
	(g_err > __CPROVER_old(g_err) && g_err <= __CPROVER_old(g_err) + 3u))
__CPROVER_ensures(g_warn == __CPROVER_old(g_warn) && g_diag - __CPROVER_old(g_diag) == g_err - __CPROVER_old(g_err))
__CPROVER_ensures(g_cb_calls >= __CPROVER_old(g_cb_calls) && g_cb_calls <= __CPROVER_old(g_cb_calls) + 1u)
;

#endif
