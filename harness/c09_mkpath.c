/* C10 -- src/common.c: mkdir_if_need, mkpath (directory creation used by the runtime for the
 * trace, loom, process and thread directories).
 *
 * Ghost model of mkdir(2) / stat(2) (trusted, most general): every call may fail with any
 * errno; mkdir returns 0 only when it created the directory; EEXIST says something exists,
 * stat then tells whether it is a directory.  The model does not relate different calls.
 * The stubs record, per PREFIX LENGTH l of the path, that path[0..l) is known to be a
 * directory (g_isdir[l]); they assert that their argument IS a prefix of the path.
 *
 * mkpath is BOUNDED: paths of at most 16 characters (all of them, any mix of slashes). */
#include "prelude.h"
extern int __CPROVER_errno;

#define PMAX 16
char g_pc[PMAX + 1];         /* copy of the path given to mkpath (bound in requires) */
unsigned g_n;                /* its length */
unsigned g_ns;               /* its length without trailing slashes (at least 1 if g_n >= 1) */
unsigned g_k;                /* arbitrary observed prefix length */
int g_isdir[PMAX + 1];       /* path[0..l) was created, or exists and stat says directory */
int g_hardfail;              /* some mkdir failed with errno != EEXIST, or stat failed / not a directory */
int g_track;                 /* stubs track prefix lengths (mkpath groups) */
int g_md, g_stat;            /* last mkdir outcome: 1 created, 2 EEXIST, 3 other failure; last stat: 1 failed, 2 dir, 3 not dir */
unsigned g_calls;

static unsigned c09_preflen(const char *p)
{
	unsigned l = 0;
	while (l <= PMAX && p[l] != 0) {
		VASSERT(p[l] == g_pc[l], "mkdir/stat argument is a prefix of the path");
		l++;
	}
	VASSERT(l <= PMAX, "mkdir/stat argument is NUL terminated within the bound");
	return l;
}

int mkdir(const char *p, mode_t mode)
{
	(void) mode;
	unsigned l = 0;
	if (g_track) l = c09_preflen(p);
	g_calls++;
	if (nondet_bool()) {
		if (g_track && l <= PMAX) g_isdir[l] = 1;
		g_md = 1;
		return 0;
	}
	int e = nondet_int();
	__CPROVER_assume(e != 0);
	__CPROVER_errno = e;
	if (e == EEXIST) { g_md = 2; } else { g_md = 3; g_hardfail = 1; }
	return -1;
}

int stat(const char *p, struct stat *st)
{
	unsigned l = 0;
	if (g_track) l = c09_preflen(p);
	if (nondet_bool()) { g_stat = 1; g_hardfail = 1; __CPROVER_errno = nondet_int(); return -1; }
	mode_t m = (mode_t) nondet_int();
	st->st_mode = m;
	if (S_ISDIR(m)) { g_stat = 2; if (g_track && l <= PMAX) g_isdir[l] = 1; }
	else { g_stat = 3; g_hardfail = 1; }
	return 0;
}

#include "common.c"

#define OLD(x) __CPROVER_old(x)
#define RV __CPROVER_return_value

/* mkdir_if_need: 0 exactly when the directory was created, or it already exists AND is a
 * directory; -1 otherwise (a mkdir failure other than EEXIST is never swallowed) */
int c_mkdir_if_need(const char *path, mode_t mode)
__CPROVER_requires(__CPROVER_is_fresh(path, 1) && g_track == 0 && g_md == 0 && g_stat == 0 && g_hardfail == 0)
__CPROVER_assigns(__CPROVER_errno, g_md, g_stat, g_hardfail, g_calls, g_isdir)
__CPROVER_ensures(RV == 0 || RV == -1)
__CPROVER_ensures((RV == 0) == (g_md == 1 || (g_md == 2 && g_stat == 2)))
__CPROVER_ensures((RV == 0) == (g_hardfail == 0))
__CPROVER_ensures(g_md != 1 || g_stat == 0)
;
void h_mkdir_if_need(void)
{
	const char *path; mode_t mode;
	int r = mkdir_if_need(path, mode);
	if (r == 0 && g_md == 1) REACH("created");
	if (r == 0 && g_md == 2) REACH("already a directory");
	if (r != 0 && g_md == 3) REACH("mkdir failed");
	if (r != 0 && g_stat == 3) REACH("exists but is not a directory");
	if (r != 0 && g_stat == 1) REACH("exists but stat failed");
}

/* mkpath(path, mode, is_dir), path of <= 16 chars:
 *   returns 0 ==> for EVERY component end k (a '/' at k > 0 not preceded by '/', inside the
 *                 path stripped of trailing slashes; and the stripped end itself if is_dir)
 *                 path[0..k) was created or exists as a directory       (observed at arbitrary g_k)
 *   some mkdir failed other than EEXIST / stat failed / not a directory ==> returns non-zero
 *   mkdir and stat are only ever called on prefixes of the path (stub assertions) */
#define C1(i) (g_pc[i] == path[i])
#define BIND_PATH (C1(0) && C1(1) && C1(2) && C1(3) && C1(4) && C1(5) && C1(6) && C1(7) && C1(8) && C1(9) \
	&& C1(10) && C1(11) && C1(12) && C1(13) && C1(14) && C1(15) && C1(16))
#define L1(i) ((i) >= g_n || g_pc[i] != 0)
#define LEN_IS_N (g_n <= PMAX && g_pc[g_n] == 0 && L1(0) && L1(1) && L1(2) && L1(3) && L1(4) && L1(5) && L1(6) && L1(7) \
	&& L1(8) && L1(9) && L1(10) && L1(11) && L1(12) && L1(13) && L1(14) && L1(15))
#define S1(i) ((i) < g_ns || (i) >= g_n || g_pc[i] == '/')
#define STRIP_IS_NS (g_ns <= g_n && (g_n == 0 || g_ns >= 1) && (g_ns <= 1 || g_pc[g_ns - 1] != '/') \
	&& S1(0) && S1(1) && S1(2) && S1(3) && S1(4) && S1(5) && S1(6) && S1(7) \
	&& S1(8) && S1(9) && S1(10) && S1(11) && S1(12) && S1(13) && S1(14) && S1(15))
#define COMPONENT_END(k) (((k) > 0 && (k) < g_ns && g_pc[k] == '/' && g_pc[(k) - 1] != '/') || ((k) == g_ns && is_dir))
int w_is_dir;
WITNESS(mkpath);
int c_mkpath(const char *path, mode_t mode, int is_dir)
__CPROVER_requires(__CPROVER_is_fresh(path, PMAX + 1) && path[PMAX] == 0)
__CPROVER_requires(BIND_PATH && LEN_IS_N && STRIP_IS_NS && g_k <= PMAX)
__CPROVER_requires(g_track == 1 && g_hardfail == 0 && g_isdir[g_k] == 0 && g_calls == 0)
__CPROVER_requires(WBIND(mkpath, w_is_dir == is_dir))
__CPROVER_assigns(__CPROVER_errno, g_md, g_stat, g_hardfail, g_calls, g_isdir)
__CPROVER_ensures(RV != 0 || !COMPONENT_END(g_k) || g_isdir[g_k] == 1)
__CPROVER_ensures(g_hardfail == 0 || RV != 0)
__CPROVER_ensures(RV == 0 || g_hardfail != 0)
/* nothing is created beyond the components */
__CPROVER_ensures(g_isdir[g_k] == 0 || COMPONENT_END(g_k))
;
void h_mkpath(void)
{
	const char *path; mode_t mode; int is_dir;
	WITNESS_ON(mkpath);
	int r = mkpath(path, mode, is_dir);
	if (r == 0) REACH("mkpath succeeded");
	if (r != 0) REACH("mkpath failed");
	if (r == 0 && g_calls >= 4) REACH("four components");
	if (r == 0 && g_n == 16 && g_ns < g_n) REACH("16 characters with trailing slashes");
	if (r == 0 && g_pc[0] == '/' && g_calls > 0) REACH("absolute path");
	if (r == 0 && !w_is_dir && g_calls > 0) REACH("file path: last component not created");
	if (r == 0 && g_n == 0) REACH("empty path");
}
