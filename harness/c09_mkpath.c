/* C10 -- src/common.c: mkdir_if_need, mkpath (directory creation used by the runtime for the
 * trace, loom, process and thread directories).
 *
 * Ghost model of mkdir(2) / stat(2) (trusted, most general): every call may fail with any
 * errno; mkdir returns 0 only when it created the directory; EEXIST says something exists,
 * stat then tells whether it is a directory.  The model does not relate different calls.
 * The stubs record, per PREFIX LENGTH l of the path, that path[0..l) is known to be a
 * directory (g_isdir[l]); they assert that their argument IS a prefix of the path.
 *
 * mkpath is BOUNDED: paths of at most 16 characters (all of them, any mix of slashes). */
#include "prelude.h"
extern int __CPROVER_errno;
unsigned nondet_uint(void);

#ifndef C09_PMAX
#define C09_PMAX 16
#endif
#define PMAX C09_PMAX
char g_pc[PMAX + 1];         /* copy of the path given to mkpath (bound in requires) */
unsigned g_n;                /* its length */
unsigned g_ns;               /* its length without trailing slashes (at least 1 if g_n >= 1) */
unsigned g_k;                /* arbitrary observed prefix length */
int g_isdir[PMAX + 1];       /* path[0..l) was created, or exists and stat says directory */
int g_hardfail;              /* some mkdir failed with errno != EEXIST, or stat failed / not a directory */
int g_track;                 /* stubs track prefix lengths (mkpath groups) */
int g_md, g_stat;            /* last mkdir outcome: 1 created, 2 EEXIST, 3 other failure; last stat: 1 failed, 2 dir, 3 not dir */
unsigned g_calls;

/* length of the string p (first NUL; loop-free: the 16 comparisons are written out), which
 * must be a prefix of the path: asserted at an arbitrary position j < l, i.e. for every j. */
#define Z1(i) ((i) >= l || (i) >= PMAX || p[i] != 0)
static unsigned c09_preflen(const char *p)
{
	VASSERT(p[PMAX] == 0, "mkdir/stat argument is NUL terminated within the bound");
	unsigned l = nondet_uint();
	__CPROVER_assume(l <= PMAX && p[l] == 0);
	__CPROVER_assume(Z1(0) && Z1(1) && Z1(2) && Z1(3) && Z1(4) && Z1(5) && Z1(6) && Z1(7)
		&& Z1(8) && Z1(9) && Z1(10) && Z1(11) && Z1(12) && Z1(13) && Z1(14) && Z1(15));
	unsigned j = nondet_uint();
	__CPROVER_assume(j < l);
	VASSERT(p[j] == g_pc[j], "mkdir/stat argument is a prefix of the path");
	return l;
}

int mkdir(const char *p, mode_t mode)
{
	(void) mode;
	unsigned l = 0;
	if (g_track) l = c09_preflen(p);
	g_calls++;
	if (nondet_bool()) {
		if (g_track && l <= PMAX) g_isdir[l] = 1;
		g_md = 1;
		return 0;
	}
	int e = nondet_int();
	__CPROVER_assume(e != 0);
	__CPROVER_errno = e;
	if (e == EEXIST) { g_md = 2; } else { g_md = 3; g_hardfail = 1; }
	return -1;
}

int stat(const char *p, struct stat *st)
{
	unsigned l = 0;
	if (g_track) l = c09_preflen(p);
	if (nondet_bool()) { g_stat = 1; g_hardfail = 1; __CPROVER_errno = nondet_int(); return -1; }
	mode_t m = (mode_t) nondet_uint();
	st->st_mode = m;
	if (S_ISDIR(m)) { g_stat = 2; if (g_track && l <= PMAX) g_isdir[l] = 1; }
	else { g_stat = 3; g_hardfail = 1; }
	return 0;
}

/* strdup (libc, outside the unit): a fresh buffer holding a copy of the string.  Modelled with a
 * fixed PMAX+1 byte allocation (a symbolic-size object makes the bounded run exhaust memory);
 * assumed not to fail: mkpath does not check its result (NULL dereference on memory exhaustion --
 * not a file-system fault, outside C10). */
char *strdup(const char *str)
{
	char *cpy = malloc(PMAX + 1);
	__CPROVER_assume(cpy != NULL);
	unsigned i = 0;
	for (; i < PMAX && str[i] != 0; i++) cpy[i] = str[i];
	cpy[i] = 0;
	cpy[PMAX] = 0;   /* slack byte of the fixed-size model buffer */
	return cpy;
}

#include "common.c"

#define OLD(x) __CPROVER_old(x)
#define RV __CPROVER_return_value

/* mkdir_if_need: 0 exactly when the directory was created, or it already exists AND is a
 * directory; -1 otherwise (a mkdir failure other than EEXIST is never swallowed) */
int c_mkdir_if_need(const char *path, mode_t mode)
__CPROVER_requires(__CPROVER_is_fresh(path, 1) && g_track == 0 && g_md == 0 && g_stat == 0 && g_hardfail == 0)
__CPROVER_assigns(__CPROVER_errno, g_md, g_stat, g_hardfail, g_calls, g_isdir)
__CPROVER_ensures(RV == 0 || RV == -1)
__CPROVER_ensures((RV == 0) == (g_md == 1 || (g_md == 2 && g_stat == 2)))
__CPROVER_ensures((RV == 0) == (g_hardfail == 0))
__CPROVER_ensures(g_md != 1 || g_stat == 0)
;
void h_mkdir_if_need(void)
{
	const char *path; mode_t mode;
	int r = mkdir_if_need(path, mode);
	if (r == 0 && g_md == 1) REACH("created");
	if (r == 0 && g_md == 2) REACH("already a directory");
	if (r != 0 && g_md == 3) REACH("mkdir failed");
	if (r != 0 && g_stat == 3) REACH("exists but is not a directory");
	if (r != 0 && g_stat == 1) REACH("exists but stat failed");
}

/* mkpath(path, mode, is_dir), EVERY path of <= 16 chars (plain bounded harness, no contract
 * instrumentation: the nested string loops under DFCC need > 40 GB):
 *   returns 0 ==> for EVERY component end k (a '/' at k > 0 not preceded by '/', inside the
 *                 path stripped of trailing slashes; and the stripped end itself if is_dir)
 *                 path[0..k) was created or exists as a directory       (observed at arbitrary g_k)
 *   some mkdir failed other than EEXIST / stat failed / not a directory <==> returns non-zero
 *   nothing but component prefixes is created; mkdir and stat are only ever called on
 *   prefixes of the path (stub assertions); the caller's string is not modified */
#define COMPONENT_END(k) (((k) > 0 && (k) < g_ns && g_pc[k] == '/' && g_pc[(k) - 1] != '/') || ((k) == g_ns && is_dir))
void h_mkpath(void)
{
	char path[PMAX + 1];
	mode_t mode = (mode_t) nondet_uint();
	int is_dir = nondet_int();
	for (unsigned i = 0; i < PMAX; i++) path[i] = nondet_char();
	path[PMAX] = 0;
	/* specification side: copy, length, length without trailing slashes */
	for (unsigned i = 0; i <= PMAX; i++) g_pc[i] = path[i];
	g_n = 0;
	while (g_n < PMAX && g_pc[g_n] != 0) g_n++;
	g_ns = g_n;
	while (g_ns > 1 && g_pc[g_ns - 1] == '/') g_ns--;
	g_k = nondet_uint();
	__CPROVER_assume(g_k <= PMAX);
	g_track = 1;

	int r = mkpath(path, mode, is_dir);

	VASSERT(r != 0 || !COMPONENT_END(g_k) || g_isdir[g_k] == 1, "mkpath returns 0 ==> every component is a directory");
	VASSERT((r != 0) == (g_hardfail != 0), "mkpath fails exactly when a mkdir failed other than EEXIST-on-a-directory");
	VASSERT(g_isdir[g_k] == 0 || COMPONENT_END(g_k), "nothing but components is created");
	VASSERT(path[g_k] == g_pc[g_k], "the caller's path is not modified");
	if (r == 0) REACH("mkpath succeeded");
	if (r != 0) REACH("mkpath failed");
	if (r == 0 && g_calls >= 4) REACH("four components");
	if (r == 0 && g_n == PMAX && g_ns < g_n && g_calls >= 2) REACH("longest path, with trailing slashes");
	if (r == 0 && g_pc[0] == '/' && g_calls > 0) REACH("absolute path");
	if (r == 0 && !is_dir && g_calls > 0) REACH("file path: last component not created");
	if (r == 0 && g_n == 0) REACH("empty path");
	if (r == 0 && g_n >= 3 && g_pc[1] == '/' && g_pc[2] == '/' && g_calls >= 2) REACH("double slash inside");
}
