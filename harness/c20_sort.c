/* C20 -- breakdown rows: sort_replace and cmp_int64 on the real src/emu/sort.c
 *
 * sort_replace(arr, n, old, new): arr sorted (non-decreasing), old occurs in arr.  Returns only if
 * old != new (dies otherwise); then
 *   - arr is sorted again,
 *   - positional description: with P = first position of old and Q = the position new lands on
 *     (old < new: last cell <= new; new < old: first cell > new), the result is the input with cell P
 *     removed, the cells between P and Q shifted by one towards P, and new stored at Q; every cell
 *     outside [min(P,Q), max(P,Q)] is untouched ("only the rows needed"),
 *   - multiset: for an arbitrary value g_v, count(g_v) changes by exactly -[g_v == old] + [g_v == new].
 *
 * The precondition "arr is sorted" is universally quantified and the loops stop at data-dependent
 * positions, so a single-cell observer is NOT enough on the input side: the proof needs the hypothesis at
 * positions that only the execution determines.  The universal facts (sorted input, sorted loop
 * invariant, count) are therefore written with CONSTANT-bound quantifiers / sums over SR_NMAX cells,
 * which the SAT back end expands; every proved fact about single cells uses ghost observers.
 * Two proofs of the same contract:
 *   sort_replace_lc_*  loop contracts (loops/c20_sort.json), no unwinding, n <= SR_NMAX (large)
 *   sort_replace_uw_*  plain unwinding of the real loops, n <= SR_NMAX (small), independent of the invariants */
#include "prelude.h"
#include "sort.c"          /* the real /repo/src/emu/sort.c */

#ifndef SR_NMAX
#define SR_NMAX 8
#endif

/* SR_NMIN == SR_NMAX: one array size per group, the object has a constant size */
#ifndef SR_NMIN
#define SR_NMIN 1
#endif
#if SR_NMIN == SR_NMAX || defined(SR_BIGOBJ)
#define SR_ALLOC (SR_NMAX * sizeof(int64_t))
#else
#define SR_ALLOC ((size_t) n * sizeof(int64_t))
#endif

/* ghosts */
long g_p, g_q;                       /* P: first position of old;  Q: landing position of new */
long g_i;                            /* sortedness observer: adjacent pair (g_i, g_i+1) */
long g_k; int64_t g_vk, g_vk1, g_vkm1; /* positional observer: cell g_k and the pre-state of cells g_k, g_k+1, g_k-1 */
int64_t g_v; long g_cnt;             /* counting observer: value g_v occurs g_cnt times in the input */

#ifdef SR_NO_FORALL
#define S1(a, n, k) (!((k) + 1 < (n)) || (a)[(k)] <= (a)[(k) + 1])
#define SORTED_ADJ(a, n) (S1(a, n, 0) && S1(a, n, 1) && S1(a, n, 2) && S1(a, n, 3) && S1(a, n, 4) && S1(a, n, 5) && S1(a, n, 6))
#else
#define SORTED_ADJ(a, n) __CPROVER_forall { long k_; (0 <= k_ && k_ < SR_NMAX - 1) ==> (!(k_ + 1 < (n)) || (a)[k_] <= (a)[k_ + 1]) }
#endif

/* count of v in a[0..n): constant-bound sum (SR_NMAX terms) */
#define C1(a, n, v, k) ((long) ((k) < (n) && (a)[(k)] == (v)))
#define C4(a, n, v, k) (C1(a, n, v, k) + C1(a, n, v, (k) + 1) + C1(a, n, v, (k) + 2) + C1(a, n, v, (k) + 3))
#define C16(a, n, v, k) (C4(a, n, v, k) + C4(a, n, v, (k) + 4) + C4(a, n, v, (k) + 8) + C4(a, n, v, (k) + 12))
#if SR_NMAX <= 4
#define COUNT(a, n, v) C4(a, n, v, 0)
#elif SR_NMAX <= 8
#define COUNT(a, n, v) (C4(a, n, v, 0) + C4(a, n, v, 4))
#elif SR_NMAX <= 16
#define COUNT(a, n, v) C16(a, n, v, 0)
#elif SR_NMAX <= 32
#define COUNT(a, n, v) (C16(a, n, v, 0) + C16(a, n, v, 16))
#elif SR_NMAX <= 64
#define COUNT(a, n, v) (C16(a, n, v, 0) + C16(a, n, v, 16) + C16(a, n, v, 32) + C16(a, n, v, 48))
#else
#error "SR_NMAX > 64: extend COUNT"
#endif

/* witnesses for replay */
long w_n, w_p, w_q; int64_t w_old, w_new, w_a0, w_a1, w_a2, w_a3, w_a4, w_a5, w_a6, w_a7;
WITNESS(sort_replace);
#define WCELL(k, w) (!((k) < n) || (w) == arr[(k)])

/* where new lands, as a pre-state fact (existence for every sorted input is immediate; REACH below) */
#define Q_UP   (g_p <= g_q && g_q < n && arr[g_q] <= new && (g_q == n - 1 || arr[g_q + 1] > new))   /* old < new */
#define Q_DOWN (0 <= g_q && g_q <= g_p && arr[g_q] > new && (g_q == 0 || arr[g_q - 1] <= new))      /* new < old */

void c_sort_replace(int64_t *arr, int64_t n, int64_t old, int64_t new)
#ifdef SR_TYPED
/* the harness allocates the array as a typed object int64_t[n] (symbolic n): 8-byte cells, no byte
 * reassembly; the contract then only names its extent */
__CPROVER_requires(SR_NMIN <= n && n <= SR_NMAX && __CPROVER_rw_ok(arr, SR_ALLOC))
#else
__CPROVER_requires(SR_NMIN <= n && n <= SR_NMAX && __CPROVER_is_fresh(arr, SR_ALLOC))
#endif
__CPROVER_requires(SORTED_ADJ(arr, n))
/* old is in arr; g_p is its first position */
__CPROVER_requires(0 <= g_p && g_p < n && arr[g_p] == old && (g_p == 0 || arr[g_p - 1] < old))
__CPROVER_requires(old == new || (old < new && Q_UP) || (new < old && Q_DOWN))
/* observers */
__CPROVER_requires(0 <= g_k && g_k < n && g_vk == arr[g_k] && (g_k + 1 >= n || g_vk1 == arr[g_k + 1]) && (g_k == 0 || g_vkm1 == arr[g_k - 1]))
#ifndef SR_NO_COUNT
__CPROVER_requires(g_cnt == COUNT(arr, n, g_v))
#endif
__CPROVER_requires(WBIND(sort_replace, w_n == n && w_p == g_p && w_q == g_q && w_old == old && w_new == new &&
	WCELL(0, w_a0) && WCELL(1, w_a1) && WCELL(2, w_a2) && WCELL(3, w_a3) && WCELL(4, w_a4) && WCELL(5, w_a5) && WCELL(6, w_a6) && WCELL(7, w_a7)))
__CPROVER_assigns(__CPROVER_object_whole(arr), g_died)
/* returns only if old != new */
__CPROVER_ensures(old != new)
/* sorted again: every adjacent pair (arbitrary g_i) is in order */
__CPROVER_ensures(!(0 <= g_i && g_i < n - 1) || arr[g_i] <= arr[g_i + 1])
/* positional description and frame (arbitrary cell g_k) */
__CPROVER_ensures(!(old < new) || arr[g_k] == ((g_k < g_p || g_k > g_q) ? g_vk : (g_k < g_q) ? g_vk1 : new))
__CPROVER_ensures(!(new < old) || arr[g_k] == ((g_k < g_q || g_k > g_p) ? g_vk : (g_k > g_q) ? g_vkm1 : new))
/* multiset (arbitrary value g_v) */
#ifndef SR_NO_COUNT
__CPROVER_ensures(COUNT(arr, n, g_v) == g_cnt - (g_v == old) + (g_v == new))
#endif
;

void h_sort_replace(void)
{
	int64_t *arr; int64_t n, old, new;
	WITNESS_ON(sort_replace);
#ifdef SR_TYPED
	__CPROVER_assume(SR_NMIN <= n && n <= SR_NMAX);
	arr = malloc(SR_ALLOC);
	__CPROVER_assume(arr != NULL);
#endif
	sort_replace(arr, n, old, new);
	REACH("sort_replace returns");
	if (w_old < w_new && w_q >= w_p + 2) REACH("old < new, at least two cells shifted down");
	if (w_old < w_new && w_q == w_p) REACH("old < new, replaced in place");
	if (w_new < w_old && w_q + 2 <= w_p) REACH("new < old, at least two cells shifted up");
	if (w_n == SR_NMAX && w_p == 0 && w_q == SR_NMAX - 1) REACH("largest array, old first, new last");
	if (w_n == SR_NMAX && w_q == 0 && w_p == SR_NMAX - 1) REACH("largest array, old last, new first");
	if (w_n == 1) REACH("single row");
	if (w_n >= 3 && w_a0 == w_a1 && w_a1 == w_a2 && w_old == w_a0) REACH("old occurs three times");
	if (g_v == w_old && g_cnt >= 2) REACH("counting observer on a duplicated old");
	if (w_old < w_new && g_k > w_p && g_k < w_q) REACH("positional observer inside the shifted range");
}

/* the die direction: old == new never returns */
void h_sort_replace_dies(void)
{
	int64_t a[2]; int64_t v;
	__CPROVER_assume(a[0] <= a[1] && (v == a[0] || v == a[1]));
	REACH("sort_replace(old == new) attempted");
	sort_replace(a, 2, v, v);
	VASSERT(0, "sort_replace must die when old == new");
}

/* ---------------- cmp_int64: the total order of int64 ---------------- */
int c_cmp_int64(const void *a, const void *b)
__CPROVER_requires(__CPROVER_is_fresh(a, sizeof(int64_t)) && __CPROVER_is_fresh(b, sizeof(int64_t)))
__CPROVER_assigns()
__CPROVER_ensures(__CPROVER_return_value == ((*(const int64_t *) a < *(const int64_t *) b) ? -1 : (*(const int64_t *) a > *(const int64_t *) b) ? 1 : 0))
;
void h_cmp_int64(void)
{
	const void *a, *b;
	int r = cmp_int64(a, b);
	if (r < 0) REACH("less");
	if (r > 0) REACH("greater");
	if (r == 0) REACH("equal");
}
/* order laws on three arbitrary values (antisymmetry, transitivity, totality), through the real function */
void h_cmp_int64_laws(void)
{
	int64_t x, y, z;
	int xy = cmp_int64(&x, &y), yx = cmp_int64(&y, &x), yz = cmp_int64(&y, &z), xz = cmp_int64(&x, &z);
	VASSERT(xy == -yx, "antisymmetric");
	VASSERT((xy == 0) == (x == y), "zero exactly on equal values");
	VASSERT(!(xy <= 0 && yz <= 0) || xz <= 0, "transitive");
	VASSERT(!(xy < 0 && yz <= 0) || xz < 0, "transitive, strict");
	VASSERT(xy == -1 || xy == 0 || xy == 1, "three results");
	if (xy < 0 && yz < 0) REACH("strictly increasing triple");
	if (x == INT64_MIN && y == INT64_MAX) REACH("extreme values compared");
}
