/* C20 -- breakdown rows: sort_replace and cmp_int64 on the real src/emu/sort.c
 *
 * sort_replace(arr, n, old, new): arr sorted (non-decreasing), old occurs in arr.  Returns only if
 * old != new (dies otherwise); then
 *   - arr is sorted again (every adjacent pair, observer g_i),
 *   - positional description (observer g_k): with P = first position of old and Q = the position new
 *     lands on (old < new: last cell <= new; new < old: first cell > new), the result is the input with
 *     cell P removed, the cells between P and Q shifted by one towards P, and new stored at Q; every cell
 *     outside [min(P,Q), max(P,Q)] is untouched ("updates only the rows needed"),
 *   - multiset (observer g_v): count(g_v) changes by exactly -[g_v == old] + [g_v == new].
 *
 * BOUNDED stand-in: one group per array size SR_N (the real loops are unwound).  Why not unbounded: the
 * precondition "arr is sorted" is universally quantified and both loops stop at data-dependent positions,
 * so the proof needs the hypothesis at cells that only the execution determines; a single-cell observer
 * can name proved facts but not this assumption.  Loop contracts with constant-bound quantifiers (expanded
 * by SAT) were proved for n = 4 and n = 8 but cost more than unwinding (171 s vs 65 s at n = 8 / n = 6);
 * symbolic-size arrays of int64 cells run out of memory in CBMC's propositional reduction, hence one
 * constant-size typed object per group (allocated by the harness: int64_t[SR_N], exact bounds checks). */
#include "prelude.h"
#include "sort.c"          /* the real /repo/src/emu/sort.c */

#ifndef SR_N
#define SR_N 4             /* the array size of this group */
#endif

/* ghosts */
long g_p, g_q;                       /* P: first position of old;  Q: landing position of new */
long g_i;                            /* sortedness observer: adjacent pair (g_i, g_i+1) */
long g_k; int64_t g_vk, g_vk1, g_vkm1; /* positional observer: cell g_k and the pre-state of cells g_k, g_k+1, g_k-1 */
int64_t g_v; long g_cnt;             /* counting observer: value g_v occurs g_cnt times in the input */

/* sortedness of the input: explicit conjunction over the (constant) number of adjacent pairs
 * (a constant-bound __CPROVER_forall is expanded by SAT too, but CBMC 6.11 "ignores" it when the range
 * has exactly one element, i.e. at n = 2 -- measured) */
#define S1(a, n, k) (!((k) + 1 < (n)) || (a)[(k)] <= (a)[(k) + 1])
#define SORTED_ADJ(a, n) (S1(a, n, 0) && S1(a, n, 1) && S1(a, n, 2) && S1(a, n, 3) && S1(a, n, 4) && S1(a, n, 5) && \
	S1(a, n, 6) && S1(a, n, 7) && S1(a, n, 8) && S1(a, n, 9) && S1(a, n, 10))

/* count of v in a[0..n): constant-bound sum */
#define C1(a, n, v, k) ((long) ((k) < (n) && (a)[(k)] == (v)))
#define C4(a, n, v, k) (C1(a, n, v, k) + C1(a, n, v, (k) + 1) + C1(a, n, v, (k) + 2) + C1(a, n, v, (k) + 3))
#if SR_N <= 4
#define COUNT(a, n, v) C4(a, n, v, 0)
#elif SR_N <= 8
#define COUNT(a, n, v) (C4(a, n, v, 0) + C4(a, n, v, 4))
#elif SR_N <= 12
#define COUNT(a, n, v) (C4(a, n, v, 0) + C4(a, n, v, 4) + C4(a, n, v, 8))
#else
#error "SR_N > 12: extend COUNT"
#endif

/* witnesses for replay */
long w_n, w_p, w_q; int64_t w_old, w_new, w_a0, w_a1, w_a2, w_a3, w_a4, w_a5, w_a6, w_a7;
WITNESS(sort_replace);
#define WCELL(k, w) (!((k) < n) || (w) == arr[(k)])

/* where new lands, as a pre-state fact (exists for every sorted input; REACH below) */
#define Q_UP   (g_p <= g_q && g_q < n && arr[g_q] <= new && (g_q == n - 1 || arr[g_q + 1] > new))   /* old < new */
#define Q_DOWN (0 <= g_q && g_q <= g_p && arr[g_q] > new && (g_q == 0 || arr[g_q - 1] <= new))      /* new < old */
/* exhaustive split of the input space for the larger sizes: SR_CASE=1 old <= new, SR_CASE=2 new <= old */
#ifndef SR_CASE
#define SR_SPLIT 1
#elif SR_CASE == 1
#define SR_SPLIT (old <= new)
#else
#define SR_SPLIT (new <= old)
#endif

void c_sort_replace(int64_t *arr, int64_t n, int64_t old, int64_t new)
/* the harness allocates the array as a typed object int64_t[SR_N]; the contract names its extent */
__CPROVER_requires(n == SR_N && __CPROVER_rw_ok(arr, SR_N * sizeof(int64_t)))
__CPROVER_requires(SORTED_ADJ(arr, n))
/* old is in arr; g_p is its first position */
__CPROVER_requires(0 <= g_p && g_p < n && arr[g_p] == old && (g_p == 0 || arr[g_p - 1] < old))
__CPROVER_requires(old == new || (old < new && Q_UP) || (new < old && Q_DOWN))
__CPROVER_requires(SR_SPLIT)
/* observers */
__CPROVER_requires(0 <= g_k && g_k < n && g_vk == arr[g_k] && (g_k + 1 >= n || g_vk1 == arr[g_k + 1]) && (g_k == 0 || g_vkm1 == arr[g_k - 1]))
__CPROVER_requires(g_cnt == COUNT(arr, n, g_v))
__CPROVER_requires(WBIND(sort_replace, w_n == n && w_p == g_p && w_q == g_q && w_old == old && w_new == new &&
	WCELL(0, w_a0) && WCELL(1, w_a1) && WCELL(2, w_a2) && WCELL(3, w_a3) && WCELL(4, w_a4) && WCELL(5, w_a5) && WCELL(6, w_a6) && WCELL(7, w_a7)))
__CPROVER_assigns(__CPROVER_object_whole(arr), g_died)
/* returns only if old != new */
__CPROVER_ensures(old != new)
/* sorted again: every adjacent pair (arbitrary g_i) is in order */
__CPROVER_ensures(!(0 <= g_i && g_i < n - 1) || arr[g_i] <= arr[g_i + 1])
/* positional description and frame (arbitrary cell g_k) */
__CPROVER_ensures(!(old < new) || arr[g_k] == ((g_k < g_p || g_k > g_q) ? g_vk : (g_k < g_q) ? g_vk1 : new))
__CPROVER_ensures(!(new < old) || arr[g_k] == ((g_k < g_q || g_k > g_p) ? g_vk : (g_k > g_q) ? g_vkm1 : new))
/* multiset (arbitrary value g_v) */
__CPROVER_ensures(COUNT(arr, n, g_v) == g_cnt - (g_v == old) + (g_v == new))
;

void h_sort_replace(void)
{
	int64_t n = SR_N, old, new;
	WITNESS_ON(sort_replace);
	int64_t *arr = malloc(sizeof(int64_t) * SR_N);
	__CPROVER_assume(arr != NULL);
	sort_replace(arr, n, old, new);
	REACH("sort_replace returns");
#if SR_N >= 3
#if !defined(SR_CASE) || SR_CASE == 1
	if (w_old < w_new && w_q >= w_p + 2) REACH("old < new, at least two cells shifted down");
	if (w_p == 0 && w_q == SR_N - 1) REACH("old first, new last");
	if (w_old < w_new && g_k > w_p && g_k < w_q) REACH("positional observer inside the shifted range");
#endif
#if !defined(SR_CASE) || SR_CASE == 2
	if (w_new < w_old && w_q + 2 <= w_p) REACH("new < old, at least two cells shifted up");
	if (w_q == 0 && w_p == SR_N - 1) REACH("old last, new first");
#endif
	if (w_a0 == w_a1 && w_a1 == w_a2 && w_old == w_a0 && g_v == w_old) REACH("old occurs three times, counted");
#else
	if (w_q == w_p) REACH("replaced in place");
#endif
}

/* the die direction: old == new never returns */
void h_sort_replace_dies(void)
{
	int64_t a[2]; int64_t v;
	__CPROVER_assume(a[0] <= a[1] && (v == a[0] || v == a[1]));
	REACH("sort_replace(old == new) attempted");
	sort_replace(a, 2, v, v);
	VASSERT(0, "sort_replace must die when old == new");
}

/* ---------------- cmp_int64: the total order of int64 ---------------- */
int c_cmp_int64(const void *a, const void *b)
__CPROVER_requires(__CPROVER_is_fresh(a, sizeof(int64_t)) && __CPROVER_is_fresh(b, sizeof(int64_t)))
__CPROVER_assigns()
__CPROVER_ensures(__CPROVER_return_value == ((*(const int64_t *) a < *(const int64_t *) b) ? -1 : (*(const int64_t *) a > *(const int64_t *) b) ? 1 : 0))
;
void h_cmp_int64(void)
{
	const void *a, *b;
	int r = cmp_int64(a, b);
	if (r < 0) REACH("less");
	if (r > 0) REACH("greater");
	if (r == 0) REACH("equal");
}
/* order laws on three arbitrary values (antisymmetry, transitivity, totality), through the real function */
void h_cmp_int64_laws(void)
{
	int64_t x, y, z;
	int xy = cmp_int64(&x, &y), yx = cmp_int64(&y, &x), yz = cmp_int64(&y, &z), xz = cmp_int64(&x, &z);
	VASSERT(xy == -yx, "antisymmetric");
	VASSERT((xy == 0) == (x == y), "zero exactly on equal values");
	VASSERT(!(xy <= 0 && yz <= 0) || xz <= 0, "transitive");
	VASSERT(!(xy < 0 && yz <= 0) || xz < 0, "transitive, strict");
	VASSERT(xy == -1 || xy == 0 || xy == 1, "three results");
	if (xy < 0 && yz < 0) REACH("strictly increasing triple");
	if (x == INT64_MIN && y == INT64_MAX) REACH("extreme values compared");
}
