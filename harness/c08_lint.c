/* C08 -- end_lint of the models that have one (nosv, nanos6, nodes, mpi, tampi,
 * openmp): in lint mode a trace that ends with an open subsystem / function
 * region on some thread is rejected.  BOUNDED stand-in: thread lists of 0..3
 * threads (the loop over sys->threads has no expressible invariant without
 * quantifiers over the list).  One model per build (-DC08_<MODEL>); the real
 * src/emu/<model>/setup.c is included. */
#include "prelude.h"
#include "value.h"
_Static_assert(sizeof(struct value) == 16, "struct value has padding");
#include "extend.c"           /* the real extend_get / extend_set */

#if defined(C08_NOSV)
#  include "nosv/setup.c"
#  define THREAD_T struct nosv_thread
#  define LINT_CH CH_SUBSYSTEM
#  define NEEDS_FINISHED 0    /* PINNED: nosv end_lint does not look at emu->finished */
#elif defined(C08_NANOS6)
#  include "nanos6/setup.c"
#  define THREAD_T struct nanos6_thread
#  define LINT_CH CH_SUBSYSTEM
#  define NEEDS_FINISHED 1
#elif defined(C08_NODES)
#  include "nodes/setup.c"
#  define THREAD_T struct nodes_thread
#  define LINT_CH CH_SUBSYSTEM
#  define NEEDS_FINISHED 1
#elif defined(C08_MPI)
#  include "mpi/setup.c"
#  define THREAD_T struct mpi_thread
#  define LINT_CH CH_FUNCTION
#  define NEEDS_FINISHED 1
#elif defined(C08_TAMPI)
#  include "tampi/setup.c"
#  define THREAD_T struct tampi_thread
#  define LINT_CH CH_SUBSYSTEM
#  define NEEDS_FINISHED 1
#elif defined(C08_OPENMP)
#  include "openmp/setup.c"
#  define THREAD_T struct openmp_thread
#  define LINT_CH CH_SUBSYSTEM
#  define NEEDS_FINISHED 1
#else
#  error "define C08_<MODEL> (a model with end_lint)"
#endif

/* ghosts, assigned by the harness from the pre-state */
int g_nthreads;             /* length of the thread list, 0..3 */
int g_open[3];              /* depth of the linted stack of thread k */
int g_finished;
int g_any_open;             /* some thread still has an open region */
int w_n0, w_n1, w_n2;

int c_end_lint(struct emu *emu)
__CPROVER_requires(emu != NULL && DIAG_PRE)
__CPROVER_assigns(DIAG_FRAME)
/* rejected exactly when the trace is complete (nosv: always) and some thread
 * ends with an open region; a diagnostic names it */
__CPROVER_ensures((__CPROVER_return_value == -1) == ((!NEEDS_FINISHED || g_finished) && g_any_open))
__CPROVER_ensures(__CPROVER_return_value == 0 || __CPROVER_return_value == -1)
__CPROVER_ensures(__CPROVER_return_value == 0 || g_err > __CPROVER_old(g_err))
;

void h_end_lint(void)
{
	struct emu emu_s;
	struct thread t0, t1, t2;
	THREAD_T m0, m1, m2;
	struct chan c0[CH_MAX], c1[CH_MAX], c2[CH_MAX];
	int n = nondet_int();
	if (n < 0 || n > 3) return;
	emu_s.system.threads = n > 0 ? &t0 : NULL;
	t0.gnext = n > 1 ? &t1 : NULL;
	t1.gnext = n > 2 ? &t2 : NULL;
	t2.gnext = NULL;
	t0.ext.ctx[model_id] = &m0; m0.m.ch = c0;
	t1.ext.ctx[model_id] = &m1; m1.m.ch = c1;
	t2.ext.ctx[model_id] = &m2; m2.m.ch = c2;
	/* data-structure invariant of the linted channels: stack of 0..512 values */
	c0[LINT_CH].type = CHAN_STACK; c1[LINT_CH].type = CHAN_STACK; c2[LINT_CH].type = CHAN_STACK;
	int d0 = c0[LINT_CH].data.stack.n, d1 = c1[LINT_CH].data.stack.n, d2 = c2[LINT_CH].data.stack.n;
	if (d0 < 0 || d0 > MAX_CHAN_STACK || d1 < 0 || d1 > MAX_CHAN_STACK || d2 < 0 || d2 > MAX_CHAN_STACK) return;
	if (!DIAG_PRE) return;
	g_nthreads = n; g_open[0] = d0; g_open[1] = d1; g_open[2] = d2;
	w_n0 = d0; w_n1 = d1; w_n2 = d2;
	g_finished = (emu_s.finished != 0);
	g_any_open = (n > 0 && d0 > 0) || (n > 1 && d1 > 0) || (n > 2 && d2 > 0);
	int r = end_lint(&emu_s);
	if (r == 0 && g_nthreads == 0) REACH("no thread: accepted");
	if (r == 0 && g_nthreads == 3) REACH("three threads, every stack empty (or trace incomplete): accepted");
	if (r != 0 && g_nthreads == 1) REACH("one thread with an open region: rejected");
	if (r != 0 && g_nthreads == 3 && g_open[0] == 0 && g_open[1] == 0) REACH("only the last of three threads has an open region: rejected");
	if (r != 0 && g_nthreads == 3 && g_open[0] == MAX_CHAN_STACK) REACH("full stack: rejected");
#if NEEDS_FINISHED
	if (r == 0 && g_any_open) REACH("PINNED: open regions are accepted when the trace did not finish");
#endif
}
