/* C07 -- task body state machine: exact iff-contracts on the real body.c */
#include "prelude.h"

/* ---- trusted base of this unit (see plan "trusted") ----
 * uthash is not verified.  HASH_ADD_INT (used inline by body_create and
 * task_create) is rebound to a ghost log: the n-th insertion records the
 * address of the head pointer, the item and its key; an empty table's head
 * becomes the item (what uthash does), a non-empty head is left alone.
 * HASH_FIND wrappers (body_find, task_find, task_type_find) are replaced by
 * assumed one-cell map contracts (c_body_find, ...). */
#include "uthash.h"
unsigned g_hadd_n;          /* number of hash insertions so far */
void *g_hadd_head;          /* &head of the last insertion */
void *g_hadd_item;          /* item of the last insertion */
uint32_t g_hadd_key;        /* key of the last insertion */
#undef HASH_ADD_INT
#define HASH_ADD_INT(head, field, add) { g_hadd_n++; g_hadd_head = (void *) &(head); \
	g_hadd_item = (void *) (add); g_hadd_key = (add)->field; if ((head) == NULL) (head) = (add); }
#define HLOG_PRE (g_hadd_n < 1000000u)
#define HLOG_FRAME g_hadd_n, g_hadd_head, g_hadd_item, g_hadd_key

/* lower-layer failures (calloc returns NULL, snprintf truncates): counted, so
 * that "refused although legal" can be tied to them exactly */
unsigned g_lowfail;
#define LOW_PRE (g_lowfail < 1000000u)
void *calloc(size_t n, size_t sz)
{
	if (nondet_bool()) { g_lowfail++; return NULL; }
	size_t tot = n * sz;
	if (n != 0 && tot / n != sz) { g_lowfail++; return NULL; }
	char *p = malloc(tot);
	if (p == NULL) { g_lowfail++; return NULL; }
	if (tot > 0) __CPROVER_array_set(p, 0);
	return p;
}
static inline int c07_snprintf(char *s, size_t n)
{
	int r = verif_snprintf(s, n);
	if (n > 0 && (size_t) r >= n) g_lowfail++;   /* output truncated */
	return r;
}
#undef snprintf
#define snprintf(s, n, ...) c07_snprintf((s), (n))
/* task_get_id lives in task.c: outside body.c.  When this file is included by
 * c07_task.c the real one is used instead (C07_HAVE_TASK_C). */
#ifndef C07_HAVE_TASK_C
struct task;
uint32_t task_get_id(struct task *task) { (void) task; uint32_t r; return r; }
#endif

#include "body.c"          /* the real /repo/src/emu/body.c */

/* ---- spec predicates (ghost, pure) ---- */
#define ST_ON_STACK(s) ((s) == BODY_ST_RUNNING || (s) == BODY_ST_PAUSED)
/* BODY_WF: a body is linked to a thread stack exactly while running or paused */
#define BODY_WF(b) (((b)->stack != NULL) == ST_ON_STACK((b)->state) && \
		(b)->state >= BODY_ST_CREATED && (b)->state <= BODY_ST_DEAD)

/* witness ghosts: mirror the inputs so that a failed obligation's trace names
 * the concrete call to replay natively */
int w_state, w_flags, w_has_stack, w_own_stack, w_is_top, w_top_state, w_top_flags, w_has_top, w_null;

#define BIND_WITNESS(S_, B_) ( \
	w_null == ((B_) == NULL) && \
	((B_) == NULL || ( \
	w_state == (int)(B_)->state && w_flags == (B_)->flags && \
	w_has_stack == ((B_)->stack != NULL) && w_own_stack == ((B_)->stack == (S_)) && \
	w_is_top == ((S_)->top == (B_)))) && \
	w_has_top == ((S_)->top != NULL) && \
	((S_)->top == NULL || (w_top_state == (int)(S_)->top->state && w_top_flags == (S_)->top->flags)))

/* utlist doubly-linked list: head->prev is the tail, tail->next is NULL.
 * Shape of the heap the four transitions run on: a stack, a body (maybe NULL),
 * and a top element which is either absent, the body itself, or another body
 * whose own links are a well-formed utlist head (prev of head = tail). */
#define SHAPE(S_, B_) \
	__CPROVER_is_fresh(S_, sizeof(*(S_))) && SHAPE_REST(S_, B_)
/* the same without the allocation of the stack object itself (c07_task.c: the
 * body stack is the first member of an already allocated task stack) */
#define SHAPE_REST(S_, B_) \
	((B_) == NULL || __CPROVER_is_fresh(B_, sizeof(*(B_)))) && \
	((S_)->top == NULL || ((B_) != NULL && __CPROVER_pointer_equals((S_)->top, (B_))) || \
		__CPROVER_is_fresh((S_)->top, sizeof(*(S_)->top))) && \
	((B_) == NULL || BODY_WF(B_)) && \
	((S_)->top == NULL || (BODY_WF((S_)->top) && (S_)->top->stack == (S_))) && \
	((B_) == NULL || (S_)->top != (B_) || (B_)->stack == (S_)) && \
	((S_)->top == NULL || (S_)->top->next != NULL || __CPROVER_pointer_equals((S_)->top->prev, (S_)->top)) && \
	((S_)->top == NULL || (S_)->top->next == NULL || \
		(__CPROVER_is_fresh((S_)->top->next, sizeof(struct body)) && \
		 (__CPROVER_pointer_equals((S_)->top->prev, (S_)->top->next) || __CPROVER_is_fresh((S_)->top->prev, sizeof(struct body)))))

/* ---------------- body_execute ---------------- */
#define LEGAL_EXECUTE(S_, B_) ( (B_) != NULL && \
	((B_)->state == BODY_ST_CREATED || ((B_)->state == BODY_ST_DEAD && ((B_)->flags & BODY_FLAG_RESURRECT))) && \
	(B_)->stack == NULL && \
	((S_)->top == NULL || (S_)->top->state != BODY_ST_RUNNING || ((S_)->top->flags & BODY_FLAG_RELAX_NESTING)) )

int g_legal;   /* value of the legality predicate in the pre-state */
struct body *g_old_top;
long g_old_iter;
int g_old_state;

int c_body_execute(struct body_stack *stack, struct body *body)
__CPROVER_requires(SHAPE(stack, body))
__CPROVER_requires(BIND_WITNESS(stack, body) && DIAG_PRE)
__CPROVER_requires(g_legal == LEGAL_EXECUTE(stack, body))
__CPROVER_requires(g_old_top == stack->top)
__CPROVER_requires(body == NULL || (g_old_iter == body->iteration && g_old_state == (int) body->state && body->iteration < 0x7fffffffffffffffL))
__CPROVER_assigns(stack->top, g_diag, g_err, g_warn)
__CPROVER_assigns(body != NULL: body->state, body->iteration, body->stack, body->next, body->prev)
__CPROVER_assigns(stack->top != NULL: stack->top->prev)
/* accepted exactly when the transition is legal */
__CPROVER_ensures((__CPROVER_return_value == 0) == (g_legal != 0))
__CPROVER_ensures(__CPROVER_return_value == 0 || __CPROVER_return_value == -1)
/* effect of an accepted execute: running, on this stack, on top, old top below */
__CPROVER_ensures(__CPROVER_return_value != 0 || (
	body->state == BODY_ST_RUNNING && body->stack == stack && stack->top == body &&
	body->next == g_old_top && BODY_WF(body) &&
	body->iteration == g_old_iter + (g_old_state == BODY_ST_DEAD ? 1 : 0)))
/* a refused execute leaves the stack alone and says why */
__CPROVER_ensures(__CPROVER_return_value == 0 || (stack->top == g_old_top && g_err > __CPROVER_old(g_err)))
;

void h_body_execute(void)
{
	struct body_stack *stack;
	struct body *body;
	int r = body_execute(stack, body);
	if (r == 0) REACH("execute accepted");
	if (r == 0 && g_old_top != NULL) REACH("execute accepted over a non-empty stack");
	if (r == 0 && g_old_state == BODY_ST_DEAD) REACH("execute accepted on a dead resurrectable body");
	if (r != 0 && !w_null) REACH("execute refused");
}

/* ---------------- body_pause ---------------- */
#define LEGAL_PAUSE(S_, B_) ( (B_) != NULL && ((B_)->flags & BODY_FLAG_PAUSE) && \
	(B_)->state == BODY_ST_RUNNING && (B_)->stack == (S_) && (S_)->top == (B_) )

int c_body_pause(struct body_stack *stack, struct body *body)
__CPROVER_requires(SHAPE(stack, body))
__CPROVER_requires(BIND_WITNESS(stack, body) && DIAG_PRE)
__CPROVER_requires(g_legal == LEGAL_PAUSE(stack, body))
__CPROVER_requires(g_old_top == stack->top)
__CPROVER_requires(body == NULL || g_old_state == (int) body->state)
__CPROVER_assigns(g_diag, g_err, g_warn)
__CPROVER_assigns(body != NULL: body->state)
__CPROVER_ensures((__CPROVER_return_value == 0) == (g_legal != 0))
__CPROVER_ensures(__CPROVER_return_value == 0 || __CPROVER_return_value == -1)
__CPROVER_ensures(__CPROVER_return_value != 0 || (body->state == BODY_ST_PAUSED && BODY_WF(body) && stack->top == body))
__CPROVER_ensures(__CPROVER_return_value == 0 || body == NULL || ((int) body->state == g_old_state && g_err > __CPROVER_old(g_err)))
;

void h_body_pause(void)
{
	struct body_stack *stack;
	struct body *body;
	int r = body_pause(stack, body);
	if (r == 0) REACH("pause accepted");
	if (r != 0 && !w_null && w_state == BODY_ST_RUNNING) REACH("pause of a running body refused");
}

/* ---------------- body_resume ---------------- */
#define LEGAL_RESUME(S_, B_) ( (B_) != NULL && \
	(B_)->state == BODY_ST_PAUSED && (B_)->stack == (S_) && (S_)->top == (B_) )

int c_body_resume(struct body_stack *stack, struct body *body)
__CPROVER_requires(SHAPE(stack, body))
__CPROVER_requires(BIND_WITNESS(stack, body) && DIAG_PRE)
__CPROVER_requires(g_legal == LEGAL_RESUME(stack, body))
__CPROVER_requires(body == NULL || g_old_state == (int) body->state)
__CPROVER_assigns(g_diag, g_err, g_warn)
__CPROVER_assigns(body != NULL: body->state)
__CPROVER_ensures((__CPROVER_return_value == 0) == (g_legal != 0))
__CPROVER_ensures(__CPROVER_return_value == 0 || __CPROVER_return_value == -1)
__CPROVER_ensures(__CPROVER_return_value != 0 || (body->state == BODY_ST_RUNNING && BODY_WF(body) && stack->top == body))
__CPROVER_ensures(__CPROVER_return_value == 0 || body == NULL || ((int) body->state == g_old_state && g_err > __CPROVER_old(g_err)))
;

void h_body_resume(void)
{
	struct body_stack *stack;
	struct body *body;
	int r = body_resume(stack, body);
	if (r == 0) REACH("resume accepted");
	if (r != 0 && !w_null && w_state == BODY_ST_PAUSED) REACH("resume of a paused body refused");
}

/* ---------------- body_end ---------------- */
#define LEGAL_END(S_, B_) ( (B_) != NULL && \
	(B_)->state == BODY_ST_RUNNING && (B_)->stack == (S_) && (S_)->top == (B_) )

struct body *g_old_next;

int c_body_end(struct body_stack *stack, struct body *body)
__CPROVER_requires(SHAPE(stack, body))
__CPROVER_requires(BIND_WITNESS(stack, body) && DIAG_PRE)
__CPROVER_requires(g_legal == LEGAL_END(stack, body))
__CPROVER_requires(g_old_top == stack->top)
__CPROVER_requires(body == NULL || (g_old_state == (int) body->state && g_old_next == body->next))
__CPROVER_assigns(stack->top, g_diag, g_err, g_warn)
__CPROVER_assigns(body != NULL: body->state, body->stack)
__CPROVER_assigns(body != NULL && stack->top == body && body->next != NULL: body->next->prev)
__CPROVER_ensures((__CPROVER_return_value == 0) == (g_legal != 0))
__CPROVER_ensures(__CPROVER_return_value == 0 || __CPROVER_return_value == -1)
/* accepted end: dead, unlinked from the thread, the body below becomes the top */
__CPROVER_ensures(__CPROVER_return_value != 0 || (body->state == BODY_ST_DEAD && body->stack == NULL && BODY_WF(body) && stack->top == g_old_next))
__CPROVER_ensures(__CPROVER_return_value == 0 || (stack->top == g_old_top && (body == NULL || ((int) body->state == g_old_state && g_err > __CPROVER_old(g_err)))))
;

void h_body_end(void)
{
	struct body_stack *stack;
	struct body *body;
	int r = body_end(stack, body);
	if (r == 0) REACH("end accepted");
	if (r == 0 && g_old_next != NULL) REACH("end accepted with a body below");
	if (r != 0 && !w_null) REACH("end refused");
}

/* ======================================================================
 * Replaceable, self-contained contracts (HOWTO "Ghost bindings vs.
 * replacement"): no pre-state ghosts, only __CPROVER_old(simple lvalue),
 * parameters and memory outside the frame.  Each one is enforced against
 * the real body in its own group and replaces the call in task.c groups.
 * They require body != NULL (task.c never passes NULL; the NULL case is
 * covered by c_body_*).
 * ====================================================================== */
#define RV __CPROVER_return_value
#define OLD(e) __CPROVER_old(e)
/* counters: replaceable contracts accept any start value below 2^30 and bound
 * their growth, so that a caller's counters cannot wrap between two calls */
#define DIAG_PRE_R (g_err < 0x40000000u)
#define HLOG_PRE_R (g_hadd_n < 0x40000000u)
#define LOW_PRE_R  (g_lowfail < 0x40000000u)
#define ERR_BOUNDED_N(n) (g_err >= OLD(g_err) && g_err - OLD(g_err) <= (n))
#define ERR_BOUNDED ERR_BOUNDED_N(4u)
#define LOW_BOUNDED (g_lowfail >= OLD(g_lowfail) && g_lowfail - OLD(g_lowfail) <= 2u)

#define R_LEGAL_EXECUTE ( \
	(OLD(body->state) == BODY_ST_CREATED || (OLD(body->state) == BODY_ST_DEAD && (body->flags & BODY_FLAG_RESURRECT))) && \
	OLD(body->stack) == NULL && \
	(OLD(stack->top) == NULL || (OLD(stack->top) != body && \
		(OLD(stack->top)->state != BODY_ST_RUNNING || (OLD(stack->top)->flags & BODY_FLAG_RELAX_NESTING)))))

int cr_body_execute(struct body_stack *stack, struct body *body)
__CPROVER_requires(body != NULL && SHAPE(stack, body))
__CPROVER_requires(body->iteration < 0x7fffffffffffffffL && DIAG_PRE_R)
__CPROVER_assigns(stack->top, DIAG_FRAME)
__CPROVER_assigns(body->state, body->iteration, body->stack, body->next, body->prev)
__CPROVER_assigns(stack->top != NULL: stack->top->prev)
__CPROVER_ensures((RV == 0) == R_LEGAL_EXECUTE)
__CPROVER_ensures((RV == 0 || RV == -1) && ERR_BOUNDED)
__CPROVER_ensures(RV != 0 || (
	body->state == BODY_ST_RUNNING && body->stack == stack && stack->top == body &&
	body->next == OLD(stack->top) &&
	body->iteration == OLD(body->iteration) + (OLD(body->state) == BODY_ST_DEAD ? 1 : 0)))
/* refused: the stack is untouched, the body stays off/on its stack; its state is
 * unchanged except that a dead resurrectable body may already read Created */
__CPROVER_ensures(RV == 0 || (stack->top == OLD(stack->top) && body->stack == OLD(body->stack) &&
	g_err > OLD(g_err) && BODY_WF(body) &&
	(body->state == OLD(body->state) ||
	 (OLD(body->state) == BODY_ST_DEAD && (body->flags & BODY_FLAG_RESURRECT) && body->state == BODY_ST_CREATED))))
;

void h_r_body_execute(void)
{
	struct body_stack *stack;
	struct body *body;
	int r = body_execute(stack, body);
	if (r == 0) REACH("execute accepted");
	if (r != 0) REACH("execute refused");
}

int cr_body_pause(struct body_stack *stack, struct body *body)
__CPROVER_requires(body != NULL && SHAPE(stack, body) && DIAG_PRE_R)
__CPROVER_assigns(body->state, DIAG_FRAME)
__CPROVER_ensures((RV == 0) == ((body->flags & BODY_FLAG_PAUSE) && OLD(body->state) == BODY_ST_RUNNING &&
	body->stack == stack && stack->top == body))
__CPROVER_ensures((RV == 0 || RV == -1) && ERR_BOUNDED)
__CPROVER_ensures(RV != 0 || body->state == BODY_ST_PAUSED)
__CPROVER_ensures(RV == 0 || (body->state == OLD(body->state) && g_err > OLD(g_err)))
;

void h_r_body_pause(void)
{
	struct body_stack *stack;
	struct body *body;
	int r = body_pause(stack, body);
	if (r == 0) REACH("pause accepted");
	if (r != 0) REACH("pause refused");
}

int cr_body_resume(struct body_stack *stack, struct body *body)
__CPROVER_requires(body != NULL && SHAPE(stack, body) && DIAG_PRE_R)
__CPROVER_assigns(body->state, DIAG_FRAME)
__CPROVER_ensures((RV == 0) == (OLD(body->state) == BODY_ST_PAUSED && body->stack == stack && stack->top == body))
__CPROVER_ensures((RV == 0 || RV == -1) && ERR_BOUNDED)
__CPROVER_ensures(RV != 0 || body->state == BODY_ST_RUNNING)
__CPROVER_ensures(RV == 0 || (body->state == OLD(body->state) && g_err > OLD(g_err)))
;

void h_r_body_resume(void)
{
	struct body_stack *stack;
	struct body *body;
	int r = body_resume(stack, body);
	if (r == 0) REACH("resume accepted");
	if (r != 0) REACH("resume refused");
}

int cr_body_end(struct body_stack *stack, struct body *body)
__CPROVER_requires(body != NULL && SHAPE(stack, body) && DIAG_PRE_R)
__CPROVER_assigns(stack->top, DIAG_FRAME)
__CPROVER_assigns(body->state, body->stack)
__CPROVER_assigns(stack->top == body && body->next != NULL: body->next->prev)
__CPROVER_ensures((RV == 0) == (OLD(body->state) == BODY_ST_RUNNING && OLD(body->stack) == stack && OLD(stack->top) == body))
__CPROVER_ensures((RV == 0 || RV == -1) && ERR_BOUNDED)
/* accepted: dead, off the thread, the body below (body->next, outside the frame) is the new top */
__CPROVER_ensures(RV != 0 || (body->state == BODY_ST_DEAD && body->stack == NULL && stack->top == body->next))
__CPROVER_ensures(RV == 0 || (stack->top == OLD(stack->top) && body->state == OLD(body->state) &&
	body->stack == OLD(body->stack) && g_err > OLD(g_err)))
;

void h_r_body_end(void)
{
	struct body_stack *stack;
	struct body *body;
	int r = body_end(stack, body);
	if (r == 0) REACH("end accepted");
	if (r != 0) REACH("end refused");
}

/* ---------------- body_find: ASSUMED one-cell map contract ----------------
 * The abstract hash map is observed at one key (g_bf_info, g_bf_id); its value
 * there is g_bf_body (NULL = absent).  The requires is asserted at every call
 * site, so callers are proved to look up exactly the observed key. */
struct body_info *g_bf_info;
uint32_t g_bf_id;
struct body *g_bf_body;

struct body *c_body_find(struct body_info *info, uint32_t body_id)
__CPROVER_requires(info == g_bf_info && body_id == g_bf_id)
__CPROVER_assigns()
__CPROVER_ensures(__CPROVER_pointer_equals(RV, g_bf_body))
;

/* ---------------- body_create ----------------
 * created exactly when id != 0, the id is not yet in the map, the task is given
 * and no lower layer (calloc, snprintf) failed; the new body is Created, off any
 * stack, iteration 0, with exactly the given flags and task, and is inserted in
 * the map under its id. */
struct body *cr_body_create(struct body_info *info, struct task *task, uint32_t body_id, int flags)
__CPROVER_requires(task == NULL || __CPROVER_is_fresh(task, sizeof(*task)))
__CPROVER_requires((task != NULL && __CPROVER_pointer_equals(info, &task->body_info)) || __CPROVER_is_fresh(info, sizeof(*info)))
__CPROVER_requires(g_bf_info == info && g_bf_id == body_id)
__CPROVER_requires(DIAG_PRE_R && HLOG_PRE_R && LOW_PRE_R)
__CPROVER_assigns(info->bodies, DIAG_FRAME, HLOG_FRAME, g_lowfail)
__CPROVER_ensures((RV != NULL) == (body_id != 0 && g_bf_body == NULL && task != NULL && g_lowfail == OLD(g_lowfail)))
__CPROVER_ensures(RV == NULL || (__CPROVER_is_fresh(RV, sizeof(struct body)) &&
	RV->id == body_id && RV->state == BODY_ST_CREATED && RV->flags == flags && RV->stack == NULL &&
	RV->iteration == 0 && RV->task == task && RV->next == NULL && RV->prev == NULL))
__CPROVER_ensures(RV == NULL || (g_hadd_n == OLD(g_hadd_n) + 1 && __CPROVER_pointer_equals(g_hadd_item, (void *) RV) && g_hadd_key == body_id &&
	g_hadd_head == (void *) &info->bodies &&
	((OLD(info->bodies) == NULL && info->bodies == RV) || (OLD(info->bodies) != NULL && info->bodies == OLD(info->bodies)))))
__CPROVER_ensures(RV != NULL || (g_err > OLD(g_err) && info->bodies == OLD(info->bodies) && g_hadd_n == OLD(g_hadd_n)))
__CPROVER_ensures(ERR_BOUNDED && LOW_BOUNDED)
;

void h_body_create(void)
{
	struct body_info *info;
	struct task *task;
	uint32_t body_id;
	int flags;
	/* the cell value: absent, or some body */
	struct body *present = nondet_bool() ? NULL : malloc(sizeof(struct body));
	g_bf_body = present;
	struct body *b = body_create(info, task, body_id, flags);
	if (b != NULL) REACH("body created");
	if (b != NULL && flags == (BODY_FLAG_PAUSE | BODY_FLAG_RESURRECT)) REACH("body created with PAUSE|RESURRECT");
	if (b == NULL && body_id == 0) REACH("id 0 refused");
	if (b == NULL && present != NULL) REACH("duplicate id refused");
	if (b == NULL && body_id != 0 && present == NULL) REACH("refused by a lower layer or missing task");
}
